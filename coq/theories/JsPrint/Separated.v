(* JsPrint/Separated.v — the printer's spacing rules imply C06's follower condition at every token boundary.
   Part 1 (structure): in the item list of every grammatical tree a space is followed by a token, and two tokens written
   without a space are a pair of a small set ([dom2]: closing / opening brackets, ',', '.', the prefix and postfix
   operators, leaves; '.' only before a name) — binary operators, '?' and ':' always stand between spaces.
   Part 2 (pairs): for such a pair the token-level test of Glue.v ([glue_ok], proved there for every tree) gives the
   byte-level test [sok], a sufficient form of C06's [stops] that looks at the first byte of the next token only.
   Part 3 (bridge): with the leaves beginning the way their class begins, [flat_ok] of LexBack.v follows. *)
From Coq Require Import ZifyBool.
From Verif Require Import Common.Base Common.Tactics Common.Lx Gen.Tables JsLex.Model JsLex.NumExchange JsLex.Stops JsLex.SeqNext.
From Verif Require Import Gen.PrattTable JsExpr.Syntax JsExpr.Pratt JsExpr.Spec JsExpr.TableFacts JsExpr.Sound JsExpr.Complete
  JsPrint.Print JsPrint.Proofs JsPrint.Glue JsPrint.LexBack.

(* ---- gaps with an arbitrary pair test -------------------------------------------------------------------------------- *)

Definition gall (P : Z -> Z -> bool) (l : list pitem) : bool := forallb (fun p => P (fst p) (snd p)) (gaps l).

Lemma gall_glue l : gall glue_ok l = gaps_ok (gaps l).
Proof. reflexivity. Qed.

Section Gall.
Variable P : Z -> Z -> bool.

Lemma gall_app a b : gall P (a ++ b) = gall P a && forallb (fun p => P (fst p) (snd p)) (bridge a b) && gall P b.
Proof. unfold gall. rewrite gaps_app, !forallb_app. rewrite andb_assoc. reflexivity. Qed.

Lemma gall_join l r x y : lastT l = Some x -> firstT r = Some y -> gall P (l ++ r) = gall P l && P x y && gall P r.
Proof.
  intros H1 H2. rewrite gall_app, (bridge_of _ _ _ _ H1 H2). cbn [forallb fst snd]. rewrite andb_true_r. reflexivity.
Qed.

Lemma gall_sp l r : gall P (l ++ PSp :: r) = gall P l && gall P r.
Proof. rewrite gall_app, bridge_sp_r. cbn [forallb]. rewrite andb_true_r. reflexivity. Qed.

Lemma gall_cons_tok a ba aa l f : firstT l = Some f -> gall P (PTok a ba aa :: l) = P a f && gall P l.
Proof.
  intros H. destruct l as [|[y byy ay|] l]; try discriminate. cbn [firstT] in H. inversion H; subst. reflexivity.
Qed.

Lemma gall_cons_sp l : gall P (PSp :: l) = gall P l.
Proof. reflexivity. Qed.

Lemma gall_tok_sp a ba aa l : gall P (PTok a ba aa :: PSp :: l) = gall P l.
Proof. reflexivity. Qed.

Lemma gall_snoc_tok l b bb ab z : lastT l = Some z -> gall P (l ++ [PTok b bb ab]) = gall P l && P z b.
Proof.
  intros H. rewrite (gall_join l [PTok b bb ab] z b H eq_refl). unfold gall at 3. cbn [gaps forallb]. rewrite andb_true_r. reflexivity.
Qed.

Lemma gall_tail i l : gall P (i :: l) = true -> gall P l = true.
Proof.
  destruct i as [a ba aa|]; [|trivial]. destruct l as [|[y byy ay|] l]; try trivial.
  unfold gall. change (gaps (PTok a ba aa :: PTok y byy ay :: l)) with ((a, y) :: gaps (PTok y byy ay :: l)).
  cbn [forallb]. intros H. apply andb_true_iff in H. tauto.
Qed.
End Gall.

(* ---- spaces ----------------------------------------------------------------------------------------------------------- *)

(* every space is followed by a token *)
Fixpoint sp_struct (l : list pitem) : bool :=
  match l with
  | [] => true
  | PSp :: r => match r with PTok _ _ _ :: _ => sp_struct r | _ => false end
  | PTok _ _ _ :: r => sp_struct r
  end.

Lemma sp_app_first a : forall b y, sp_struct a = true -> sp_struct b = true -> firstT b = Some y -> sp_struct (a ++ b) = true.
Proof.
  induction a as [|i a IH]; intros b y Ha Hb Hf; [exact Hb|].
  destruct i as [t bb ad|]; cbn [app sp_struct] in *; [eapply IH; eauto|].
  destruct a as [|[t2 b2 a2|] a']; try discriminate.
  cbn [app]. change (sp_struct ((PTok t2 b2 a2 :: a') ++ b) = true). eapply IH; eauto.
Qed.

Lemma sp_app_last a : forall b x, sp_struct a = true -> sp_struct b = true -> lastT a = Some x -> sp_struct (a ++ b) = true.
Proof.
  induction a as [|i a IH]; intros b x Ha Hb Hl; [discriminate|].
  destruct a as [|j a'].
  - destruct i as [t bb ad|]; [|discriminate]. cbn [app sp_struct]. exact Hb.
  - rewrite lastT_cons in Hl by discriminate.
    destruct i as [t bb ad|]; cbn [app sp_struct] in *.
    + change (sp_struct ((j :: a') ++ b) = true). eapply IH; eauto.
    + destruct j as [t2 b2 a2|]; [|discriminate]. cbn [app]. change (sp_struct ((PTok t2 b2 a2 :: a') ++ b) = true). eapply IH; eauto.
Qed.

(* ---- the pairs that are written without a space --------------------------------------------------------------------- *)

Definition inA (a : Z) : bool :=
  negb (is_punct a) || existsb (Z.eqb a)
    [tt_OpenParenToken; tt_OpenBracketToken; tt_CommaToken; tt_DotToken; tt_CloseParenToken; tt_CloseBracketToken;
     tt_IncrToken; tt_DecrToken; tt_AddToken; tt_SubToken; tt_NotToken; tt_BitNotToken].
Definition inB (b : Z) : bool :=
  negb (is_punct b) || existsb (Z.eqb b)
    [tt_OpenParenToken; tt_CloseParenToken; tt_OpenBracketToken; tt_CloseBracketToken; tt_CommaToken; tt_DotToken;
     tt_IncrToken; tt_DecrToken; tt_AddToken; tt_SubToken; tt_NotToken; tt_BitNotToken].
Definition dom2 (a b : Z) : bool := inA a && inB b && (negb (a =? tt_DotToken) || (b =? tt_IdentifierToken)).

Lemma leafy_inA a : leafy a -> inA a = true.
Proof. unfold leafy, inA. intros H. rewrite H. reflexivity. Qed.
Lemma leafy_inB a : leafy a -> inB a = true.
Proof. unfold leafy, inB. intros H. rewrite H. reflexivity. Qed.

Lemma fcg_inB t : fcg t -> inB (fT t) = true.
Proof.
  intros [H|H]; [apply leafy_inB; exact H|]. unfold firstset in H. cbn [In] in H.
  repeat (destruct H as [H|H]; [rewrite <- H; reflexivity|]). contradiction.
Qed.
Lemma lcg_inA t : lcg t -> inA (lT t) = true.
Proof.
  intros [H|H]; [apply leafy_inA; exact H|]. unfold lastset in H. cbn [In] in H.
  repeat (destruct H as [H|H]; [rewrite <- H; reflexivity|]). contradiction.
Qed.

(* after the punctuator a (of the A list, not '.') comes the first token of a tree; before the punctuator b (of the B list)
   the last token of a tree *)
Lemma dom_after a t : inA a = true -> a <> tt_DotToken -> fcg t -> dom2 a (fT t) = true.
Proof.
  intros Ha Hd Hf. unfold dom2. rewrite Ha, (fcg_inB _ Hf). apply Z.eqb_neq in Hd. rewrite Hd. reflexivity.
Qed.
Lemma dom_before b t : inB b = true -> lcg t -> lT t <> tt_DotToken -> dom2 (lT t) b = true.
Proof.
  intros Hb Hl Hd. unfold dom2. rewrite Hb, (lcg_inA _ Hl). apply Z.eqb_neq in Hd. rewrite Hd. reflexivity.
Qed.

Lemma lcg_not_dot t : lcg t -> lT t <> tt_DotToken.
Proof.
  intros [H|H] E; rewrite E in H; [vm_compute in H; discriminate|].
  unfold lastset in H. cbn [In] in H. repeat (destruct H as [H|H]; [vm_compute in H; discriminate|]). contradiction.
Qed.

Definition SI (t : expr) : Prop := gall dom2 (pitems t) = true /\ sp_struct (pitems t) = true.

Lemma GI_of inf ts t : spells inf ts t -> GI t.
Proof. exact (proj1 glue_all inf ts t). Qed.

Ltac gi x Hx :=
  let G := fresh "G" in
  pose proof (GI_of _ _ _ Hx) as G;
  let o := fresh "go" in let f := fresh "gf" in let l := fresh "gl" in let c := fresh "gc" in let d := fresh "gd" in
  destruct G as [o f l c d _ _ _]; clear o;
  pose proof (pitems_nonempty _ f);
  pose proof (lcg_not_dot _ d).

Lemma first_tok l f : firstT l = Some f -> exists b a r, l = PTok f b a :: r.
Proof. destruct l as [|[t b a|] r]; try discriminate. cbn. intros H. inversion H. eauto. Qed.

Lemma sp_cons_sp l f : firstT l = Some f -> sp_struct (PSp :: l) = sp_struct l.
Proof. intros H. destruct (first_tok _ _ H) as [b [a [r E]]]. subst l. reflexivity. Qed.

Lemma sp_sp_tok t b a r : sp_struct (PSp :: PTok t b a :: r) = sp_struct r.
Proof. reflexivity. Qed.

Lemma firstT_args args : firstT (args_items args) = Some tt_OpenParenToken.
Proof. reflexivity. Qed.

Ltac vfs inf k Hv :=
  let SF := fresh "SF" in
  pose proof (sfact_all inf (ty k)) as SF; rewrite Hv in SF; cbn [sfact] in SF; b2p.

Lemma struct_all :
  (forall inf ts t (s : spells inf ts t), SI t) /\
  (forall ats args (s : spells_args ats args), gall dom2 (args_items args) = true /\ sp_struct (args_items args) = true).
Proof.
  apply (spells_both_ind (fun _ _ t _ => SI t)
           (fun _ args _ => gall dom2 (args_items args) = true /\ sp_struct (args_items args) = true)); unfold SI.
  - (* leaf *)
    intros inf k e Hv. destruct (leaf_leafy _ _ Hv) as [_ [_ Hp]]. rewrite Hp. split; reflexivity.
  - (* group *)
    intros inf ko pG pS ts t kc Hv Ht [IHg IHs] Hl Hkc. gi t Ht. cbn [pitems]. unfold ptok. split.
    + rewrite (gall_cons_tok _ _ _ _ _ (fT t)) by (rewrite firstT_app by assumption; assumption).
      rewrite (gall_snoc_tok _ _ _ _ _ (lT t)) by assumption.
      rewrite IHg, (dom_after tt_OpenParenToken t eq_refl ltac:(vm_compute; discriminate) gc),
        (dom_before tt_CloseParenToken t eq_refl gd H0). reflexivity.
    + cbn [sp_struct]. apply (sp_app_first _ _ tt_CloseParenToken); auto.
  - (* prefix operator *)
    intros inf k pG pO pS pN ts x Hv Hx [IHg IHs] Hl. gi x Hx.
    pose proof (pfact_all k) as PF. rewrite Hv in PF. cbn [pfact] in PF. b2p.
    assert (Hnp : is_postfix pO = false).
    { unfold is_postfix. unfold is_postfix_op in *. destruct ((pO =? tt_PostIncrToken) || (pO =? tt_PostDecrToken)); [discriminate|reflexivity]. }
    destruct (prefix_result_in _ _ _ _ _ Hv) as [Hin Hft].
    cbn [pitems]. rewrite Hnp. destruct (unary_needs_space pO x).
    + split; [rewrite gall_tok_sp; exact IHg|]. cbn [sp_struct]. destruct (first_tok _ _ gf) as [b [a [r E]]]. rewrite E in *. exact IHs.
    + split; [|exact IHs].
      rewrite (gall_cons_tok _ _ _ _ _ (fT x)) by assumption. rewrite IHg, andb_true_r.
      apply dom_after; [|intros E; destruct Hft as [Hf|Hf]; rewrite E in Hf; [vm_compute in Hf; discriminate|]|exact gc].
      * destruct Hft as [Hf|Hf]; [apply leafy_inA; exact Hf|]. unfold firstset in Hf. cbn [In] in Hf.
        repeat (destruct Hf as [Hf|Hf]; [rewrite <- Hf; reflexivity|]). contradiction.
      * unfold firstset in Hf. cbn [In] in Hf. repeat (destruct Hf as [Hf|Hf]; [vm_compute in Hf; discriminate|]). contradiction.
  - (* postfix operator *)
    intros inf k pL pR pO pN xs x Hv Hlt Hx [IHg IHs] Hl. gi x Hx.
    vfs inf k Hv.
    assert (Hp : is_postfix pO = true) by (unfold is_postfix; unfold is_postfix_op in *; assumption).
    cbn [pitems]. rewrite Hp. split.
    + rewrite (gall_snoc_tok _ _ _ _ _ (lT x)) by assumption. rewrite IHg. cbn [andb].
      apply dom_before; [|exact gd|exact H0]. destruct (postfix_tok _ Hp) as [E|E]; rewrite E; reflexivity.
    + apply (sp_app_first _ _ (unary_tok pO)); auto.
  - (* binary operator *)
    intros inf k pL pR pX pS pN xs x ys y Hv Hx [IHgx IHsx] Hok Hy [IHgy IHsy] Hl. gi x Hx. gi y Hy.
    cbn [pitems]. unfold ptok. split.
    + rewrite gall_sp, gall_tok_sp, IHgx, IHgy. reflexivity.
    + apply (sp_app_last _ _ (lT x)); auto. rewrite (sp_cons_sp _ (ty k)) by reflexivity. cbn [sp_struct].
      destruct (first_tok _ _ gf0) as [b [a [r E]]]. rewrite E in *. exact IHsy.
  - (* dot *)
    intros inf kd pR pC xs x n Hv Hx [IHg IHs] Hl Hn Hp. gi x Hx.
    cbn [pitems]. unfold ptok. destruct (dot_needs_group x) eqn:Eg.
    + destruct x; try discriminate. cbn [dot_needs_group] in Eg. cbn [pitems app].
      split; [|reflexivity]. unfold gall. cbn [gaps forallb fst snd].
      apply orb_true_iff in Eg. destruct Eg as [Eg|Eg]; apply Z.eqb_eq in Eg; subst t; reflexivity.
    + split.
      * rewrite (gall_join _ _ _ (lT x) tt_DotToken) by (try assumption; reflexivity). rewrite IHg.
        rewrite (dom_before tt_DotToken x eq_refl gd H0). reflexivity.
      * apply (sp_app_first _ _ tt_DotToken); auto.
  - (* index *)
    intros inf ko pR pC pS xs x ys y kc Hv Hx [IHgx IHsx] Hl Hy [IHgy IHsy] Hly Hkc. gi x Hx. gi y Hy.
    cbn [pitems]. unfold ptok. split.
    + rewrite (gall_join _ _ _ (lT x) tt_OpenBracketToken) by (try assumption; reflexivity).
      rewrite (gall_cons_tok _ _ _ _ _ (fT y)) by (rewrite firstT_app by assumption; assumption).
      rewrite (gall_snoc_tok _ _ _ _ _ (lT y)) by assumption.
      rewrite IHgx, IHgy, (dom_before tt_OpenBracketToken x eq_refl gd H0),
        (dom_after tt_OpenBracketToken y eq_refl ltac:(vm_compute; discriminate) gc0),
        (dom_before tt_CloseBracketToken y eq_refl gd0 H2). reflexivity.
    + apply (sp_app_first _ _ tt_OpenBracketToken); auto. cbn [sp_struct]. apply (sp_app_first _ _ tt_CloseBracketToken); auto.
  - (* call *)
    intros inf ko pL pR pC xs x ats args Hv Hx [IHgx IHsx] Hl Ha [IHga IHsa]. gi x Hx.
    change (pitems (ECall x args)) with (pitems x ++ args_items args). split.
    + rewrite (gall_join _ _ _ (lT x) tt_OpenParenToken) by (try assumption; reflexivity).
      rewrite IHgx, IHga, (dom_before tt_OpenParenToken x eq_refl gd H0). reflexivity.
    + apply (sp_app_first _ _ tt_OpenParenToken); auto.
  - (* conditional *)
    intros inf kq pL pR pS pE pN cs c xs x kc ys y Hv Hc [IHgc IHsc] Hlc Hx [IHgx IHsx] Hlx Hkc Hy [IHgy IHsy] Hly.
    gi c Hc. gi x Hx. gi y Hy.
    cbn [pitems]. unfold ptok. split.
    + rewrite gall_sp, gall_tok_sp, gall_sp, gall_tok_sp, IHgc, IHgx, IHgy. reflexivity.
    + apply (sp_app_last _ _ (lT c)); auto. rewrite sp_sp_tok.
      rewrite (sp_cons_sp _ (fT x)) by (rewrite firstT_app by assumption; assumption).
      apply (sp_app_last _ _ (lT x)); auto. rewrite sp_sp_tok.
      rewrite (sp_cons_sp _ (fT y)) by assumption. exact IHsy.
  - (* comma *)
    intros inf k pL pS pN xs x ys y Hv Hx [IHgx IHsx] Hy [IHgy IHsy] Hl. gi x Hx. gi y Hy.
    rewrite (pitems_comma_snoc _ _ _ y Hx). unfold ptok. split.
    + rewrite (gall_join _ _ _ (lT x) tt_CommaToken) by (try assumption; reflexivity).
      rewrite (gall_cons_tok _ _ _ _ _ (fT y)) by assumption.
      rewrite IHgx, IHgy, (dom_before tt_CommaToken x eq_refl gd H0),
        (dom_after tt_CommaToken y eq_refl ltac:(vm_compute; discriminate) gc0). reflexivity.
    + apply (sp_app_first _ _ tt_CommaToken); auto.
  - (* arguments: () *)
    intros kc Hkc. split; reflexivity.
  - (* arguments: one *)
    intros ts a kc Ha [IHg IHs] Hl Hkc. gi a Ha.
    unfold args_items, lp_item, rp_item, ptok. cbn [map sep_items]. split.
    + rewrite (gall_cons_tok _ _ _ _ _ (fT a)) by (rewrite firstT_app by assumption; assumption).
      rewrite (gall_snoc_tok _ _ _ _ _ (lT a)) by assumption.
      rewrite IHg, (dom_after tt_OpenParenToken a eq_refl ltac:(vm_compute; discriminate) gc),
        (dom_before tt_CloseParenToken a eq_refl gd H0). reflexivity.
    + cbn [sp_struct]. apply (sp_app_first _ _ tt_CloseParenToken); auto.
  - (* arguments: more *)
    intros ts a km rest l Ha [IHg IHs] Hl Hkm Hr [IHgr IHsr]. gi a Ha.
    destruct l as [|b l].
    + unfold args_items, lp_item, rp_item, ptok. cbn [map sep_items]. split.
      * rewrite (gall_cons_tok _ _ _ _ _ (fT a)) by (rewrite firstT_app by assumption; assumption).
        rewrite (gall_snoc_tok _ _ _ _ _ (lT a)) by assumption.
        rewrite IHg, (dom_after tt_OpenParenToken a eq_refl ltac:(vm_compute; discriminate) gc),
          (dom_before tt_CloseParenToken a eq_refl gd H0). reflexivity.
      * cbn [sp_struct]. apply (sp_app_first _ _ tt_CloseParenToken); auto.
    + unfold args_items, lp_item, rp_item in *. cbn [map] in *.
      change (sep_items [ptok tt_CommaToken; PSp] (pitems a :: pitems b :: map pitems l))
        with (pitems a ++ [ptok tt_CommaToken; PSp] ++ sep_items [ptok tt_CommaToken; PSp] (pitems b :: map pitems l)).
      rewrite <- !app_assoc. unfold ptok in *. cbn [app].
      apply gall_tail in IHgr. cbn [sp_struct] in IHsr.
      set (R := sep_items [PTok tt_CommaToken (tok_bytes tt_CommaToken) false; PSp] (pitems b :: map pitems l) ++ [PTok tt_CloseParenToken (tok_bytes tt_CloseParenToken) false]) in *.
      assert (HfR : exists f, firstT R = Some f).
      { subst R. pose proof (GI_of _ _ _ (match Hr with _ => Ha end)) as _. 
        inversion Hr; subst.
        - match goal with H : spells true _ b |- _ => pose proof (GI_of _ _ _ H) as Gb end.
          destruct Gb as [_ fb _ _ _ _ _ _]. cbn [sep_items]. exists (fT b). rewrite firstT_app by (apply pitems_nonempty; exact fb). exact fb.
        - match goal with H : spells true _ b |- _ => pose proof (GI_of _ _ _ H) as Gb end.
          destruct Gb as [_ fb _ _ _ _ _ _]. exists (fT b).
          destruct l; cbn [map sep_items]; rewrite <- ?app_assoc; rewrite firstT_app by (apply pitems_nonempty; exact fb); exact fb. }
      destruct HfR as [f HfR]. split.
      * rewrite (gall_cons_tok _ _ _ _ _ (fT a)) by (rewrite firstT_app by assumption; assumption).
        rewrite (gall_join _ _ _ (lT a) tt_CommaToken) by (try assumption; reflexivity).
        rewrite gall_tok_sp.
        rewrite IHg, IHgr, (dom_after tt_OpenParenToken a eq_refl ltac:(vm_compute; discriminate) gc),
          (dom_before tt_CommaToken a eq_refl gd H0). reflexivity.
      * cbn [sp_struct]. apply (sp_app_first _ _ tt_CommaToken); auto. cbn [sp_struct].
        destruct (first_tok _ _ HfR) as [b1 [a1 [r1 E1]]]. rewrite E1 in *. exact IHsr.
Qed.

(* ==================================================================================================================== *)
(* Part 2: the byte-level test of a pair, from the first byte of the second token                                        *)

(* some punctuator that properly extends T continues with the byte c *)
Definition ext_next (T : list Z) (c : Z) : bool := existsb (fun P => nth (length T) P (-1) =? c) (exts T).

(* a sufficient form of punct_stop that looks at one byte *)
Definition p1 (T : list Z) (c : Z) : bool :=
  negb (ext_next T c)
  && (negb (list_eqb T [63; 46] || list_eqb T [46]) || negb (digitb c))
  && (negb (list_eqb T [47]) || (negb (c =? 47) && negb (c =? 42)))
  && (negb (list_eqb T [60]) || negb (c =? 33))
  && (negb (list_eqb T [45; 45]) || negb (c =? 62)).

(* when the kernel compares one of these with its body, it unfolds the definition first (not the table-driven body) *)
Strategy expand [ext_next p1].

(* how a token type begins: a punctuator with its first byte, a word, a number, a string *)
Inductive kind := KP (c : Z) | KW | KN | KS.
Definition kind_of (t : Z) : kind :=
  if is_punct t then KP (hd 0 (tok_bytes t))
  else match class_of t with Some KNum => KN | Some KString => KS | _ => KW end.

Definition sok (a b : Z) : bool :=
  if is_punct a then
    let T := tok_bytes a in
    match kind_of b with
    | KP c => p1 T c
    | KN => p1 T 46 && p1 T 48
    | KW | KS => true
    end
  else match class_of a with
  | Some KString => true
  | Some KNum =>
      match kind_of b with
      | KP c => negb (tab_cont c) && (negb (c =? 46) || negb ((a =? tt_DecimalToken) || (a =? tt_IntegerToken)))
      | KS => true
      | _ => false
      end
  | _ => match kind_of b with KP c => negb (tab_cont c) && negb (c =? 92) && (c <? 192) | KS => true | _ => false end
  end.

(* the type of a leaf is consistent: the class the lexer model gives it and the parser's predicates agree *)
Definition leaf_ty (t : Z) : bool :=
  negb (is_punct t) &&
  match class_of t with
  | Some KIdent => is_identifier_name t
  | Some KNum => is_numeric t
  | Some KString => true
  | _ => false
  end.
Definition tyok (t : Z) : bool := is_punct t || leaf_ty t.

Definition listA : list Z :=
  [tt_OpenParenToken; tt_OpenBracketToken; tt_CommaToken; tt_DotToken; tt_CloseParenToken; tt_CloseBracketToken;
   tt_IncrToken; tt_DecrToken; tt_AddToken; tt_SubToken; tt_NotToken; tt_BitNotToken].
Definition listB : list Z :=
  [tt_OpenParenToken; tt_CloseParenToken; tt_OpenBracketToken; tt_CloseBracketToken; tt_CommaToken; tt_DotToken;
   tt_IncrToken; tt_DecrToken; tt_AddToken; tt_SubToken; tt_NotToken; tt_BitNotToken].

Lemma existsb_eqb_In a l : existsb (Z.eqb a) l = true -> In a l.
Proof. intros H. apply existsb_exists in H. destruct H as [x [Hin E]]. apply Z.eqb_eq in E. subst. exact Hin. Qed.

Lemma pair_pp a b : In a listA -> In b listB -> glue_ok a b = true ->
  (negb (a =? tt_DotToken) || (b =? tt_IdentifierToken)) = true -> sok a b = true.
Proof.
  intros HA HB Hg Hdot.
  assert (S : forallb (fun p => implb (glue_ok (fst p) (snd p) && (negb (fst p =? tt_DotToken) || (snd p =? tt_IdentifierToken))) (sok (fst p) (snd p)))
                (list_prod listA listB) = true) by (vm_compute; reflexivity).
  rewrite forallb_forall in S. specialize (S (a, b) (in_prod _ _ _ _ HA HB)). cbn [fst snd] in S.
  rewrite Hg, Hdot in S. exact S.
Qed.

Lemma sok_dot_ident : sok tt_DotToken tt_IdentifierToken = true.
Proof. vm_compute. reflexivity. Qed.

Lemma pair_pl a b : In a listA -> is_punct a = true -> is_punct b = false ->
  (negb (a =? tt_DotToken) || (b =? tt_IdentifierToken)) = true -> sok a b = true.
Proof.
  intros HA Pa Pb Hdot.
  destruct (a =? tt_DotToken) eqn:Ed.
  - cbn [negb orb] in Hdot. apply Z.eqb_eq in Ed. apply Z.eqb_eq in Hdot. subst a b. exact sok_dot_ident.
  - assert (S : forallb (fun a => (a =? tt_DotToken) || (p1 (tok_bytes a) 46 && p1 (tok_bytes a) 48)) listA = true) by (vm_compute; reflexivity).
    rewrite forallb_forall in S. specialize (S _ HA). apply orb_true_iff in S. destruct S as [S|S]; [congruence|].
    unfold sok. rewrite Pa. cbv zeta. unfold kind_of. rewrite Pb. destruct (class_of b) as [[]|]; try reflexivity. exact S.
Qed.

Lemma pair_lp a b : In b listB -> is_punct a = false -> is_punct b = true -> glue_ok a b = true -> sok a b = true.
Proof.
  intros HB Pa Pb Hg.
  assert (S : forallb (fun b => let c := hd 0 (tok_bytes b) in
                negb (tab_cont c) && negb (c =? 92) && (c <? 192) && ((b =? tt_DotToken) || negb (c =? 46))) listB = true) by (vm_compute; reflexivity).
  rewrite forallb_forall in S. specialize (S _ HB). cbv zeta in S.
  apply andb_true_iff in S. destruct S as [S S4]. apply andb_true_iff in S. destruct S as [S S3]. apply andb_true_iff in S. destruct S as [S1 S2].
  unfold sok. rewrite Pa. unfold kind_of. rewrite Pb.
  destruct (class_of a) as [[]|]; try (rewrite S1, S2, S3; reflexivity); try reflexivity.
  rewrite S1. cbn [andb]. apply orb_true_iff in S4. destruct S4 as [S4|S4]; [|rewrite S4; reflexivity].
  apply Z.eqb_eq in S4. subst b. unfold glue_ok in Hg. apply andb_true_iff in Hg. destruct Hg as [Hg _].
  apply andb_true_iff in Hg. destruct Hg as [_ Hg]. rewrite Z.eqb_refl, andb_true_r in Hg. rewrite Hg. apply orb_true_r.
Qed.

Lemma pair_ll a b : is_punct a = false -> is_punct b = false -> glue_ok a b = true -> tyok a = true -> tyok b = true -> sok a b = true.
Proof.
  intros Pa Pb Hg Ha Hb.
  unfold tyok in Ha, Hb. rewrite Pa in Ha. rewrite Pb in Hb. cbn [orb] in Ha, Hb. unfold leaf_ty in Ha, Hb. rewrite Pa in Ha. rewrite Pb in Hb. cbn [negb andb] in Ha, Hb.
  assert (Hw : wordy a && wordy b = false).
  { unfold glue_ok in Hg. apply andb_true_iff in Hg. destruct Hg as [Hg _]. apply andb_true_iff in Hg. destruct Hg as [Hg _].
    apply negb_true_iff in Hg. exact Hg. }
  unfold sok. rewrite Pa. unfold kind_of. rewrite Pb. unfold wordy in Hw.
  destruct (class_of a) as [[]|] eqn:Ca; try discriminate; try reflexivity;
    destruct (class_of b) as [[]|] eqn:Cb; try discriminate; try reflexivity;
    rewrite Ha, Hb in Hw; rewrite ?orb_true_r in Hw; cbn in Hw; discriminate.
Qed.

Lemma pair_ok a b : glue_ok a b = true -> dom2 a b = true -> tyok a = true -> tyok b = true -> sok a b = true.
Proof.
  intros Hg Hd Ha Hb. unfold dom2 in Hd. apply andb_true_iff in Hd. destruct Hd as [Hd Hdot].
  apply andb_true_iff in Hd. destruct Hd as [HA HB]. unfold inA in HA. unfold inB in HB. fold listA in HA. fold listB in HB.
  destruct (is_punct a) eqn:Pa; destruct (is_punct b) eqn:Pb; cbn [negb orb] in HA, HB.
  - apply pair_pp; try assumption; apply existsb_eqb_In; assumption.
  - apply pair_pl; try assumption. apply existsb_eqb_In; assumption.
  - apply pair_lp; try assumption. apply existsb_eqb_In; assumption.
  - apply pair_ll; assumption.
Qed.

(* ==================================================================================================================== *)
(* Part 3: from the pair test to the follower condition of LexBack.v                                                     *)

Definition pchars : list Z := Eval vm_compute in concat punct_spellings.
Lemma pchars_eq : pchars = concat punct_spellings.
Proof. vm_compute. reflexivity. Qed.
Definition pcharb (c : Z) : bool := existsb (Z.eqb c) pchars.
(* a byte that occurs in no punctuator and is no digit *)
Definition safe (c : Z) : bool := negb (pcharb c) && negb (digitb c).

Strategy expand [pcharb safe].

Lemma prefixb_nth : forall T P c rest, prefixb P (T ++ c :: rest) = true -> (length T < length P)%nat -> nth (length T) P (-1) = c.
Proof.
  induction T as [|t T IH]; intros P c rest H Hl; destruct P as [|p P']; cbn [length] in Hl; try lia.
  - cbn [app prefixb] in H. apply andb_true_iff in H. destruct H as [H _]. apply Z.eqb_eq in H. cbn. exact H.
  - cbn [app prefixb] in H. apply andb_true_iff in H. destruct H as [_ H]. cbn [length nth]. apply (IH P' c rest H). lia.
Qed.

Lemma exts_in T P : In P (exts T) -> In P punct_spellings /\ (length T < length P)%nat.
Proof.
  unfold exts. intros H. apply filter_In in H. destruct H as [H1 H2]. split; [exact H1|].
  apply andb_true_iff in H2. destruct H2 as [H2 _]. unfold len in H2. lia.
Qed.

Lemma ext_next_intro T c P : In P (exts T) -> nth (length T) P (-1) = c -> ext_next T c = true.
Proof. intros Hin Hn. unfold ext_next. apply existsb_exists. exists P. split; [exact Hin|]. apply Z.eqb_eq. exact Hn. Qed.

Lemma longer_ext T c rest : ext_next T c = false -> longer_punct T (c :: rest) = false.
Proof.
  intros H. unfold longer_punct. destruct (existsb (fun P => prefixb P (T ++ c :: rest)) (exts T)) eqn:E; [|reflexivity].
  exfalso. apply existsb_exists in E. destruct E as [P [Hin HP]].
  destruct (exts_in _ _ Hin) as [_ Hl]. pose proof (prefixb_nth _ _ _ _ HP Hl) as Hn.
  rewrite (ext_next_intro _ _ _ Hin Hn) in H. discriminate.
Qed.

Lemma p1_stop T c pl rest : p1 T c = true -> punct_stopb pl T (c :: rest) = true.
Proof.
  unfold p1, punct_stopb. cbv zeta. cbn [hd]. intros H.
  apply andb_true_iff in H. destruct H as [H H5]. apply andb_true_iff in H. destruct H as [H H4].
  apply andb_true_iff in H. destruct H as [H H3]. apply andb_true_iff in H. destruct H as [H1 H2].
  apply negb_true_iff in H1. rewrite (longer_ext _ _ rest H1), H2, H3. cbn [negb orb andb].
  apply andb_true_iff. split.
  - apply orb_true_iff in H4. destruct H4 as [H4|H4]; [rewrite H4; reflexivity|]. apply orb_true_iff. right.
    unfold firstz. change (Z.to_nat 3) with 3%nat. cbn [firstn list_eqb]. apply negb_true_iff in H4. rewrite H4. reflexivity.
  - apply orb_true_iff in H5. destruct H5 as [H5|H5]; [rewrite H5; reflexivity|]. rewrite H5. rewrite orb_true_r. reflexivity.
Qed.

Lemma safe_not c x : safe c = true -> pcharb x = true -> (c =? x) = false.
Proof.
  intros H Hx. apply Z.eqb_neq. intros E. subst x. unfold safe in H. rewrite Hx in H. discriminate.
Qed.

Lemma p1_safe T c : safe c = true -> p1 T c = true.
Proof.
  intros H. unfold p1.
  assert (He : ext_next T c = false).
  { apply not_true_is_false. intros E. unfold ext_next in E. apply existsb_exists in E. destruct E as [P [Hin HP]].
    destruct (exts_in _ _ Hin) as [Hps Hl]. apply Z.eqb_eq in HP.
    assert (Hc : In c P) by (rewrite <- HP; apply nth_In; exact Hl).
    unfold safe in H. apply andb_true_iff in H. destruct H as [H _]. apply negb_true_iff in H.
    assert (pcharb c = true); [|congruence].
    unfold pcharb. apply existsb_exists. exists c. split; [|apply Z.eqb_refl].
    rewrite pchars_eq. apply in_concat. exists P. split; assumption. }
  rewrite He. cbn [negb andb].
  rewrite (safe_not c 47 H eq_refl), (safe_not c 42 H eq_refl), (safe_not c 33 H eq_refl), (safe_not c 62 H eq_refl).
  unfold safe in H. apply andb_true_iff in H. destruct H as [_ H]. rewrite H. rewrite !orb_true_r. reflexivity.
Qed.

Lemma p1_digit T c : p1 T 48 = true -> digitb c = true -> p1 T c = true.
Proof.
  intros H Hd. unfold p1 in *.
  assert (He : ext_next T c = false).
  { apply not_true_is_false. intros E. unfold ext_next in E. apply existsb_exists in E. destruct E as [P [Hin HP]].
    destruct (exts_in _ _ Hin) as [Hps Hl]. apply Z.eqb_eq in HP.
    assert (Hc : In c P) by (rewrite <- HP; apply nth_In; exact Hl).
    assert (S : forallb (fun x => negb (digitb x)) pchars = true) by (vm_compute; reflexivity).
    rewrite forallb_forall in S. specialize (S c). rewrite Hd in S. discriminate S.
    rewrite pchars_eq. apply in_concat. exists P. split; assumption. }
  rewrite He. cbn [negb andb].
  apply andb_true_iff in H. destruct H as [H _]. apply andb_true_iff in H. destruct H as [H _].
  apply andb_true_iff in H. destruct H as [H _]. apply andb_true_iff in H. destruct H as [_ H2].
  change (digitb 48) with true in H2. cbn [negb] in H2. rewrite orb_false_r in H2. rewrite H2. cbn [orb andb].
  unfold digitb in Hd.
  replace (c =? 47) with false by lia. replace (c =? 42) with false by lia. replace (c =? 33) with false by lia. replace (c =? 62) with false by lia.
  cbn [negb andb]. rewrite !orb_true_r. reflexivity.
Qed.

(* how a leaf begins *)
Definition wordyb (c : Z) : bool := (tab_cont c && negb (digitb c)) || (c =? 92) || (192 <=? c).
Definition wsb (c : Z) : bool := (c =? 32) || (c =? 9) || (c =? 11) || (c =? 12).

Definition lead_ok (t : Z) (b : list Z) : bool :=
  let c := hd 0 b in
  match class_of t with
  | Some KIdent => wordyb c
  | Some KNum => (digitb c || (c =? 46)) && ((t =? tt_DecimalToken) || (t =? tt_IntegerToken) || negb (is_dec_int b))
  | Some KString => (c =? 34) || (c =? 39)
  | _ => false
  end.

(* an item the bridge can handle: a punctuator with its canonical bytes, or a leaf / keyword of a consistent type that
   begins the way its class begins *)
Definition item_ok (i : pitem) : bool :=
  match i with
  | PSp => true
  | PTok t b _ => negb (list_eqb b []) && (if is_punct t then list_eqb b (tok_bytes t) && existsb (Z.eqb t) fixed_types else leaf_ty t && lead_ok t b)
  end.

Lemma wordy_safe c : wordyb c = true -> safe c = true.
Proof.
  intros H. unfold safe.
  assert (S : forallb (fun x => negb (wordyb x)) pchars = true) by (vm_compute; reflexivity).
  rewrite forallb_forall in S.
  assert (Hp : pcharb c = false).
  { apply not_true_is_false. intros E. unfold pcharb in E. apply existsb_exists in E. destruct E as [x [Hin Ex]]. apply Z.eqb_eq in Ex. subst x.
    specialize (S _ Hin). rewrite H in S. discriminate. }
  rewrite Hp. cbn [negb andb]. unfold wordyb in H. unfold digitb.
  destruct ((48 <=? c) && (c <=? 57)) eqn:Ed; [|reflexivity]. exfalso.
  apply orb_true_iff in H. destruct H as [H|H]; [|lia]. apply orb_true_iff in H. destruct H as [H|H]; [|lia].
  apply andb_true_iff in H. destruct H as [_ H]. unfold digitb in H. rewrite Ed in H. discriminate.
Qed.

Lemma punct_facts t : is_punct t = true -> existsb (Z.eqb t) fixed_types = true ->
  class_of t = Some KPunct /\ exists c r, tok_bytes t = c :: r /\ wsb c = false.
Proof.
  intros H Hin. apply existsb_eqb_In in Hin.
  assert (S : forallb (fun t => implb (is_punct t) match class_of t, tok_bytes t with Some KPunct, c :: _ => negb (wsb c) | _, _ => false end) fixed_types = true)
    by (vm_compute; reflexivity).
  rewrite forallb_forall in S. specialize (S _ Hin). rewrite H in S. cbn [implb] in S.
  destruct (class_of t) as [[]|]; try discriminate. destruct (tok_bytes t) as [|c r]; [discriminate|].
  split; [reflexivity|]. exists c, r. split; [reflexivity|]. apply negb_true_iff in S. exact S.
Qed.

Lemma list_eqb_nil b : list_eqb b [] = false -> b <> [].
Proof. intros H E. subst b. discriminate. Qed.

(* the class and the first byte of an item *)
Lemma item_first t b a : item_ok (PTok t b a) = true ->
  exists cls c r, class_of t = Some cls /\ usable cls = true /\ b = c :: r /\ wsb c = false.
Proof.
  cbn [item_ok]. intros H. apply andb_true_iff in H. destruct H as [Hne H]. apply negb_true_iff in Hne.
  destruct (is_punct t) eqn:Pt.
  - apply andb_true_iff in H. destruct H as [H Hfx]. apply list_eqb_eq in H. destruct (punct_facts _ Pt Hfx) as [Hc [c [r [Eb Hw]]]]. exists KPunct, c, r. rewrite H. auto.
  - apply andb_true_iff in H. destruct H as [Hty Hl]. unfold leaf_ty in Hty. rewrite Pt in Hty. cbn [negb andb] in Hty.
    destruct b as [|c r]; [discriminate|]. unfold lead_ok in Hl. cbn [hd] in Hl.
    destruct (class_of t) as [[]|] eqn:Ct; try discriminate.
    + exists KIdent, c, r. repeat split; try reflexivity. unfold wordyb in Hl. unfold wsb.
      destruct (Z.eqb_spec c 32); [subst; vm_compute in Hl; discriminate|]. destruct (Z.eqb_spec c 9); [subst; vm_compute in Hl; discriminate|].
      destruct (Z.eqb_spec c 11); [subst; vm_compute in Hl; discriminate|]. destruct (Z.eqb_spec c 12); [subst; vm_compute in Hl; discriminate|]. reflexivity.
    + exists KString, c, r. repeat split; try reflexivity. unfold wsb. lia.
    + exists KNum, c, r. repeat split; try reflexivity. apply andb_true_iff in Hl. destruct Hl as [Hl _]. unfold digitb in Hl. unfold wsb. lia.
Qed.

Lemma follow_end t b a pl c rest : item_ok (PTok t b a) = true -> c = 0 \/ c = 32 ->
  exists cls, class_of t = Some cls /\ follow_ok cls pl b (c :: rest) = true.
Proof.
  intros H Hc. assert (Hs : safe c = true) by (destruct Hc; subst c; vm_compute; reflexivity).
  cbn [item_ok] in H. apply andb_true_iff in H. destruct H as [_ H].
  destruct (is_punct t) eqn:Pt.
  - apply andb_true_iff in H. destruct H as [H Hfx]. apply list_eqb_eq in H. destruct (punct_facts _ Pt Hfx) as [Hcl _]. exists KPunct. split; [exact Hcl|].
    cbn [follow_ok]. apply p1_stop. apply p1_safe. exact Hs.
  - apply andb_true_iff in H. destruct H as [Hty Hl]. unfold leaf_ty in Hty. rewrite Pt in Hty. cbn [negb andb] in Hty.
    destruct (class_of t) as [[]|] eqn:Ct; try discriminate.
    + exists KIdent. split; [reflexivity|]. destruct Hc; subst c; reflexivity.
    + exists KString. split; reflexivity.
    + exists KNum. split; [reflexivity|]. destruct Hc; subst c; reflexivity.
Qed.

Lemma quote_safe c : (c =? 34) || (c =? 39) = true -> safe c = true.
Proof. intros H. apply orb_true_iff in H. destruct H as [H|H]; apply Z.eqb_eq in H; subst c; vm_compute; reflexivity. Qed.

Lemma follow_pair ta ba aa tb bb ab pl rest :
  item_ok (PTok ta ba aa) = true -> item_ok (PTok tb bb ab) = true -> sok ta tb = true ->
  exists cls, class_of ta = Some cls /\ follow_ok cls pl ba (bb ++ rest) = true /\ negb (is_num cls && is_ident_class tb) = true.
Proof.
  intros Ha Hb Hs.
  destruct (item_first _ _ _ Hb) as [clb [c [r [Hcb [_ [Eb _]]]]]]. subst bb. cbn [app].
  cbn [item_ok] in Ha, Hb. apply andb_true_iff in Ha. destruct Ha as [_ Ha]. apply andb_true_iff in Hb. destruct Hb as [_ Hb].
  unfold sok in Hs.
  (* the first byte of b, by kind *)
  assert (Hk : match kind_of tb with
               | KP c' => c' = c /\ class_of tb = Some KPunct
               | KW => wordyb c = true /\ class_of tb = Some KIdent
               | KN => (digitb c || (c =? 46)) = true /\ class_of tb = Some KNum
               | KS => ((c =? 34) || (c =? 39)) = true /\ class_of tb = Some KString
               end).
  { unfold kind_of. destruct (is_punct tb) eqn:Pb.
    - apply andb_true_iff in Hb. destruct Hb as [Hb Hfx]. apply list_eqb_eq in Hb. rewrite <- Hb. cbn [hd]. split; [reflexivity|]. apply (punct_facts _ Pb Hfx).
    - apply andb_true_iff in Hb. destruct Hb as [Hty Hl]. unfold leaf_ty in Hty. rewrite Pb in Hty. cbn [negb andb] in Hty.
      unfold lead_ok in Hl. cbn [hd] in Hl.
      destruct (class_of tb) as [[]|]; try discriminate; try (split; [exact Hl|reflexivity]).
      apply andb_true_iff in Hl. destruct Hl as [Hl _]. split; [exact Hl|reflexivity]. }
  destruct (is_punct ta) eqn:Pa.
  - apply andb_true_iff in Ha. destruct Ha as [Ha Hfx]. apply list_eqb_eq in Ha. subst ba. destruct (punct_facts _ Pa Hfx) as [Hcl _]. exists KPunct. split; [exact Hcl|]. split; [|reflexivity].
    cbn [follow_ok]. cbv zeta in Hs. apply p1_stop.
    destruct (kind_of tb) as [c'| | |].
    + destruct Hk as [E _]. subst c'. exact Hs.
    + apply p1_safe. apply wordy_safe. apply Hk.
    + destruct Hk as [Hk _]. apply andb_true_iff in Hs. destruct Hs as [S46 S48].
      apply orb_true_iff in Hk. destruct Hk as [Hk|Hk]; [apply p1_digit; assumption|apply Z.eqb_eq in Hk; subst c; exact S46].
    + apply p1_safe. apply quote_safe. apply Hk.
  - apply andb_true_iff in Ha. destruct Ha as [Hty Hl]. unfold leaf_ty in Hty. rewrite Pa in Hty. cbn [negb andb] in Hty.
    unfold lead_ok in Hl.
    destruct (class_of ta) as [[]|] eqn:Ca; try discriminate.
    + (* word *)
      exists KIdent. split; [reflexivity|]. split; [|reflexivity]. cbn [follow_ok hd].
      destruct (kind_of tb) as [c'| | |]; try discriminate.
      * destruct Hk as [E _]. subst c'. exact Hs.
      * destruct Hk as [Hk _]. apply orb_true_iff in Hk. destruct Hk as [Hk|Hk]; apply Z.eqb_eq in Hk; subst c; reflexivity.
    + exists KString. repeat split; reflexivity.
    + (* number *)
      exists KNum. split; [reflexivity|]. cbn [follow_ok hd is_num andb].
      destruct (kind_of tb) as [c'| | |]; try discriminate.
      * destruct Hk as [E Hcp]. subst c'. apply andb_true_iff in Hs. destruct Hs as [S1 S2]. split.
        -- rewrite S1. cbn [andb]. destruct (c =? 46) eqn:E46; [|reflexivity]. cbn [negb orb] in *.
           apply andb_true_iff in Hl. destruct Hl as [_ Hl]. apply negb_true_iff in S2. rewrite S2 in Hl. cbn [orb] in Hl. exact Hl.
        -- unfold is_ident_class. rewrite Hcp. reflexivity.
      * destruct Hk as [Hk Hcs]. split.
        -- apply orb_true_iff in Hk. destruct Hk as [Hk|Hk]; apply Z.eqb_eq in Hk; subst c; reflexivity.
        -- unfold is_ident_class. rewrite Hcs. reflexivity.
Qed.

(* the item list of LexBack passes the separation check *)
Lemma flat_from_gaps l : forallb item_ok l = true -> sp_struct l = true -> gall sok l = true -> forall pl, flat_ok pl l = true.
Proof.
  induction l as [|i r IH]; intros Hi Hsp Hg pl; [reflexivity|].
  cbn [forallb] in Hi. apply andb_true_iff in Hi. destruct Hi as [Hi Hir].
  destruct i as [t b a|].
  - cbn [sp_struct] in Hsp. cbn [flat_ok].
    destruct r as [|[t2 b2 a2|] r'].
    + destruct (follow_end _ _ _ pl 0 [] Hi (or_introl eq_refl)) as [cls [Hc Hf]]. rewrite Hc.
      unfold restb, items_bytes. cbn [map concat app]. rewrite Hf. rewrite andb_false_r. reflexivity.
    + rewrite (gall_cons_tok sok t b a (PTok t2 b2 a2 :: r') t2 eq_refl) in Hg. apply andb_true_iff in Hg. destruct Hg as [Hs Hg].
      cbn [forallb] in Hir. pose proof Hir as Hir2. apply andb_true_iff in Hir2. destruct Hir2 as [Hi2 _].
      destruct (follow_pair _ _ _ _ _ _ pl (items_bytes r' ++ [0]) Hi Hi2 Hs) as [cls [Hc [Hf Hn]]]. rewrite Hc.
      unfold restb, items_bytes in *. cbn [map concat item_bytes]. rewrite <- app_assoc. rewrite Hf. cbn [next_ident]. rewrite Hn. cbn [andb].
      apply IH; assumption.
    + rewrite gall_tok_sp in Hg.
      destruct (follow_end _ _ _ pl 32 (items_bytes r' ++ [0]) Hi (or_intror eq_refl)) as [cls [Hc Hf]]. rewrite Hc.
      unfold restb, items_bytes in *. cbn [map concat item_bytes app]. rewrite Hf. cbn [next_ident]. rewrite andb_false_r. cbn [negb andb].
      apply IH; try assumption.
  - cbn [sp_struct] in Hsp. destruct r as [|[t2 b2 a2|] r']; try discriminate.
    change (flat_ok pl (PSp :: PTok t2 b2 a2 :: r')) with (space_ok (PTok t2 b2 a2 :: r') && flat_ok pl (PTok t2 b2 a2 :: r')).
    rewrite gall_cons_sp in Hg. rewrite (IH Hir Hsp Hg pl), andb_true_r.
    cbn [forallb] in Hir. apply andb_true_iff in Hir. destruct Hir as [Hi2 _].
    destruct (item_first _ _ _ Hi2) as [cls [c [rr [_ [_ [Eb Hw]]]]]]. subst b2. cbn [space_ok].
    unfold wsb in Hw. repeat (apply orb_false_iff in Hw; destruct Hw as [Hw ?]).
    rewrite Hw. repeat match goal with E : (_ =? _) = false |- _ => rewrite E; clear E end. reflexivity.
Qed.

(* ==================================================================================================================== *)
(* assembly                                                                                                               *)

Lemma item_tyok t b a : item_ok (PTok t b a) = true -> tyok t = true.
Proof.
  cbn [item_ok]. intros H. apply andb_true_iff in H. destruct H as [_ H]. unfold tyok.
  destruct (is_punct t); [reflexivity|]. apply andb_true_iff in H. destruct H as [H _]. rewrite H. reflexivity.
Qed.

Lemma gall_combine l : forallb item_ok l = true -> gall glue_ok l = true -> gall dom2 l = true -> gall sok l = true.
Proof.
  induction l as [|i r IH]; intros Hi Hg Hd; [reflexivity|].
  cbn [forallb] in Hi. apply andb_true_iff in Hi. destruct Hi as [Hi Hir].
  destruct i as [t b a|]; [|rewrite gall_cons_sp in *; auto].
  destruct r as [|[t2 b2 a2|] r']; [reflexivity| |].
  - rewrite (gall_cons_tok glue_ok t b a (PTok t2 b2 a2 :: r') t2 eq_refl) in Hg.
    rewrite (gall_cons_tok dom2 t b a (PTok t2 b2 a2 :: r') t2 eq_refl) in Hd.
    rewrite (gall_cons_tok sok t b a (PTok t2 b2 a2 :: r') t2 eq_refl).
    apply andb_true_iff in Hg. destruct Hg as [Hg1 Hg]. apply andb_true_iff in Hd. destruct Hd as [Hd1 Hd].
    rewrite (IH Hir Hg Hd), andb_true_r.
    cbn [forallb] in Hir. apply andb_true_iff in Hir. destruct Hir as [Hi2 _].
    apply pair_ok; try assumption; eapply item_tyok; eassumption.
  - rewrite gall_tok_sp in *. cbn [forallb] in Hir. apply andb_true_iff in Hir. destruct Hir as [_ Hir].
    change (gall sok r' = true). apply gall_tail with (i := PSp). apply IH.
    + cbn [forallb item_ok]. exact Hir.
    + rewrite gall_cons_sp. exact Hg.
    + rewrite gall_cons_sp. exact Hd.
Qed.

Lemma fixed_item_ok i : fixed_item i = true -> item_ok i = true.
Proof.
  destruct i as [t b a|]; [|reflexivity]. cbn [fixed_item]. intros H. apply andb_true_iff in H. destruct H as [H1 H2].
  apply list_eqb_eq in H2. subst b. apply existsb_eqb_In in H1.
  assert (S : forallb (fun t => item_ok (PTok t (tok_bytes t) false)) fixed_types = true) by (vm_compute; reflexivity).
  rewrite forallb_forall in S. exact (S _ H1).
Qed.

Lemma all_item_ok l : forallb item_ok (odd_items l) = true -> forallb item_ok l = true.
Proof.
  induction l as [|i l IH]; intros H; [reflexivity|]. unfold odd_items in H. cbn [filter] in H.
  cbn [forallb]. destruct (fixed_item i) eqn:Ef; cbn [negb] in H.
  - rewrite (fixed_item_ok _ Ef). apply IH. exact H.
  - cbn [forallb] in H. apply andb_true_iff in H. destruct H as [H1 H2]. rewrite H1. apply IH. exact H2.
Qed.

(* the leaves of the output begin the way their class begins and have consistent types *)
Definition leaf_tokens_lead (t : expr) : bool := forallb item_ok (odd_items (pitems t)).

(* The printer's spacing rules separate every pair of tokens: the item list of every grammatical tree passes the
   separation check of LexBack.v. *)
Theorem separated_spelling inf ts t : spells inf ts t -> leaf_tokens_lead t = true -> c06_separated t = true.
Proof.
  intros Hs Hl. unfold c06_separated. pose proof (all_item_ok _ Hl) as Hi.
  destruct (proj1 struct_all inf ts t Hs) as [Hd Hsp].
  pose proof (unspaced_tokens_safe_spelling inf ts t Hs) as Hg.
  apply flat_from_gaps; try assumption. apply gall_combine; assumption.
Qed.

Theorem separated_parse inf ts t : parse inf prec_OpExpr ts = Ok (t, []) -> leaf_tokens_lead t = true -> c06_separated t = true.
Proof.
  intros H Hl. destruct (parse_sound _ _ _ _ _ H) as [pre [E [Hs _]]]; [pose proof prec_order; lia|].
  eapply separated_spelling; eauto.
Qed.

(* ---- the round trip of the fragment ------------------------------------------------------------------------------------ *)

Theorem print_round_trip_proof :
  forall (ids idc zs : Z -> bool) inf ts t,
    parse inf prec_OpExpr ts = Ok (t, []) -> leaf_tokens_real ids idc zs t -> leaf_tokens_lead t = true ->
    exists toks s',
      JsLex.Proofs.jrun ids idc zs (map (fun _ => JsLex.Proofs.ONext) (pitems t)) (js_init (print_js t)) = Model.Ok (toks, s') /\
      at_end (jcur s') = true /\
      toks = map tok_of_item (pitems t) /\
      parse inf prec_OpExpr (lexed_view toks) = Ok (ng t, []) /\
      strip_groups (ng t) = strip_groups t /\
      print_js (ng t) = print_js t.
Proof.
  intros ids idc zs inf ts t Hp Hr Hl. apply (print_lex_parse_proof ids idc zs inf ts t Hp Hr).
  eapply separated_parse; eauto.
Qed.

Example round_trip_example_lead :
  exists t, parse true prec_OpExpr lb_tokens = Ok (t, []) /\ leaf_tokens_lead t = true.
Proof. eexists. split; vm_compute; reflexivity. Qed.
