(* JsLex/Comment.v — a comment token is a CommentLineTerminatorToken exactly when its text contains a
   line terminator (LF, CR, U+2028, U+2029 as the byte sequences E2 80 A8 / E2 80 A9). *)
From Verif Require Import Common.Base Common.Tactics Common.Lx Gen.Tables
  JsLex.Model JsLex.Lemmas JsLex.Total JsLex.Next JsLex.Canon.
From Coq Require Import ZifyBool.

(* a line terminator starts at the head of l (specification, written from ECMA-262 11.3) *)
Definition lt_at (l : list Z) : bool :=
  match l with
  | c :: t =>
      (c =? 10) || (c =? 13) ||
      ((c =? 226) && match t with c1 :: c2 :: _ => (c1 =? 128) && ((c2 =? 168) || (c2 =? 169)) | _ => false end)
  | [] => false
  end.

Fixpoint has_lt (l : list Z) : bool :=
  match l with
  | [] => false
  | _ :: t => lt_at l || has_lt t
  end.

Lemma firstz_cons {A} n (x : A) l : 0 < n -> firstz n (x :: l) = x :: firstz (n - 1) l.
Proof. intros H. unfold firstz. replace (Z.to_nat n) with (S (Z.to_nat (n - 1))) by lia. reflexivity. Qed.

Lemma firstz_le0 {A} n (l : list A) : n <= 0 -> firstz n l = [].
Proof. intros H. unfold firstz. replace (Z.to_nat n) with 0%nat by lia. reflexivity. Qed.

Lemma firstz_nil {A} n : firstz n (@nil A) = [].
Proof. unfold firstz. apply firstn_nil. Qed.

Lemma firstz_plus {A} a b (l : list A) : 0 <= a -> 0 <= b ->
  firstz (a + b) l = firstz a l ++ firstz b (skipz a l).
Proof.
  intros Ha Hb. unfold firstz, skipz. rewrite Z2Nat.inj_add by assumption. apply firstn_plus.
Qed.

Lemma firstz_skipz {A} n (l : list A) : firstz n l ++ skipz n l = l.
Proof. apply firstn_skipn. Qed.

(* a line terminator at the head stays one when bytes are appended *)
Lemma lt_at_app P R : lt_at P = true -> lt_at (P ++ R) = true.
Proof.
  destruct P as [|c [|c1 [|c2 P]]]; cbn [lt_at app]; try discriminate; intros H.
  - destruct ((c =? 10) || (c =? 13)); [reflexivity|]. cbn [orb] in *. rewrite andb_false_r in H. discriminate.
  - destruct ((c =? 10) || (c =? 13)); [reflexivity|]. cbn [orb] in *. rewrite andb_false_r in H. discriminate.
  - exact H.
Qed.

Lemma has_lt_app_head P R : lt_at P = true -> has_lt (P ++ R) = true.
Proof.
  intros H. destruct P as [|c P]; [discriminate|]. cbn [app has_lt].
  change (c :: P ++ R) with ((c :: P) ++ R). rewrite (lt_at_app _ R H). reflexivity.
Qed.

Lemma has_lt_cons_plain c P : c <> 10 -> c <> 13 -> c <> 226 -> has_lt (c :: P) = has_lt P.
Proof.
  intros H1 H2 H3. cbn [has_lt lt_at].
  replace (c =? 10) with false by lia. replace (c =? 13) with false by lia. replace (c =? 226) with false by lia.
  reflexivity.
Qed.

(* consumeLineTerminator recognises exactly lt_at *)
Lemma lt1_lt_at l t : lt1 l = Ok t -> (0 <? t) = lt_at l.
Proof.
  unfold lt1, ls_ps, lt_at. destruct l as [|c l1]; [discriminate|]. rewrite pkl_cons_0. cbn [rbind].
  destruct (Z.eqb_spec c 10); [intros [= <-]; reflexivity|].
  destruct (Z.eqb_spec c 13).
  - cbn [orb]. intros H. crunch H; injection H as <-; reflexivity.
  - cbn [orb]. destruct (Z.eqb_spec c 226); [|intros [= <-]; reflexivity]. cbn [andb].
    destruct l1 as [|c1 [|c2 l3]].
    + discriminate.
    + rewrite pkl_1. cbn [rbind]. destruct (c1 =? 128); [discriminate|]. cbn [rbind]. intros [= <-]. reflexivity.
    + rewrite pkl_1, pkl_2. cbn [rbind]. destruct (c1 =? 128); cbn [rbind andb].
      * destruct ((c2 =? 168) || (c2 =? 169)); intros [= <-]; reflexivity.
      * intros [= <-]. reflexivity.
Qed.

(* ... and the bytes it moves over start with that line terminator *)
Lemma lt1_covers l t : lt1 l = Ok t -> 0 < t -> lt_at (firstz t l) = true.
Proof.
  unfold lt1, ls_ps. destruct l as [|c l1]; [discriminate|]. rewrite pkl_cons_0. cbn [rbind].
  destruct (Z.eqb_spec c 10); [intros [= <-] _; subst; reflexivity|].
  destruct (Z.eqb_spec c 13).
  - intros H Ht. subst c. crunch H; injection H as <-; reflexivity.
  - destruct (Z.eqb_spec c 226); [|intros [= <-]; lia]. subst c.
    destruct l1 as [|c1 [|c2 l3]].
    + discriminate.
    + rewrite pkl_1. cbn [rbind]. destruct (c1 =? 128); [discriminate|]. cbn [rbind]. intros [= <-]. lia.
    + rewrite pkl_1, pkl_2. cbn [rbind]. destruct (Z.eqb_spec c1 128); cbn [rbind].
      * destruct ((c2 =? 168) || (c2 =? 169)) eqn:E; intros [= <-]; [|lia]. intros _. subst c1.
        change (firstz 3 (226 :: 128 :: c2 :: l3)) with [226; 128; c2]. cbn [lt_at]. rewrite E. reflexivity.
      * intros [= <-]. lia.
Qed.

Lemma lt1_nonneg l t : lt1 l = Ok t -> 0 <= t.
Proof. intros H. unfold lt1, ls_ps in H. crunch H; injection H as <-; lia. Qed.

Lemma firstz_pk1 l a : pkl l 0 = Ok a -> firstz 1 l = [a].
Proof. apply firstz_1. Qed.
Lemma firstz_pk2 l a b : pkl l 0 = Ok a -> pkl l 1 = Ok b -> firstz 2 l = [a; b].
Proof. destruct l as [|x [|y t]]; try discriminate. rewrite pkl_cons_0, pkl_1. intros [= ->] [= ->]. reflexivity. Qed.
Lemma firstz_pk3 l a b c : pkl l 0 = Ok a -> pkl l 1 = Ok b -> pkl l 2 = Ok c -> firstz 3 l = [a; b; c].
Proof.
  destruct l as [|x [|y [|z t]]]; try discriminate. rewrite pkl_cons_0, pkl_1, pkl_2.
  intros [= ->] [= ->] [= ->]. reflexivity.
Qed.
Lemma firstz_pk4 l a b c d : pkl l 0 = Ok a -> pkl l 1 = Ok b -> pkl l 2 = Ok c -> pkl l 3 = Ok d ->
  firstz 4 l = [a; b; c; d].
Proof.
  destruct l as [|x [|y [|z [|w t]]]]; try discriminate. rewrite pkl_cons_0, pkl_1, pkl_2, pkl_3.
  intros [= ->] [= ->] [= ->] [= ->]. reflexivity.
Qed.

(* no line terminator starts at the head of l: then none starts at the head of a prefix of l *)
Lemma lt_at_prefix_false l n c P : lt_at l = false -> firstz n l = c :: P -> lt_at (c :: P) = false.
Proof.
  intros Hl Hp. destruct (lt_at (c :: P)) eqn:E; [|reflexivity].
  apply (lt_at_app _ (skipz n l)) in E. rewrite <- Hp, firstz_skipz in E. congruence.
Qed.

(* the multi-line comment loop: the flag is exactly "the bytes moved over contain a line terminator" *)
Lemma mlc_loop_lt : forall fuel l n ok sl, mlc_loop fuel l = Ok (n, ok, sl) ->
  0 <= n /\ sl = has_lt (firstz n l).
Proof.
  induction fuel as [|fuel IH]; intros l n ok sl H; [discriminate|]. cbn [mlc_loop] in H.
  crunch H.
  - (* the closing star-slash *)
    injection H as <- <- <-. split; [lia|]. crunch E0; [|discriminate].
    assert (a = 42) by lia. assert (a1 = 47) by (injection E0 as E0; lia). subst.
    rewrite (firstz_pk2 _ _ _ E E1). reflexivity.
  - injection H as <- <- <-. split; [lia|reflexivity].
  - assert (n = a1 + z /\ sl = true) as (-> & ->) by (split; congruence).
    destruct (IH _ _ _ _ E2) as (Hn' & _).
    pose proof (lt1_nonneg _ _ E1). split; [lia|].
    rewrite firstz_plus by lia. symmetry. apply has_lt_app_head. apply lt1_covers; [assumption|lia].
  - assert (n = 1 + z /\ sl = b) as (-> & ->) by (split; congruence).
    destruct (IH _ _ _ _ E2) as (Hn' & ->). split; [lia|].
    rewrite firstz_plus by lia. rewrite (firstz_pk1 _ _ E). cbn [app has_lt].
    pose proof (lt1_lt_at _ _ E1) as Hat. rewrite Eb1 in Hat.
    rewrite (lt_at_prefix_false l (1 + z) a (firstz z (skipz 1 l))); [reflexivity|congruence|].
    rewrite firstz_plus by lia. rewrite (firstz_pk1 _ _ E). reflexivity.
Qed.

(* PeekRune on the bytes of U+2028 / U+2029 (followed by at least the terminator) *)
Lemma peek_rune_ls c l : wfl (c :: l) -> lt_at (c :: l) = true -> c <> 10 -> c <> 13 ->
  exists r, peek_rune (c :: l) = Ok (r, 3) /\ ((r =? 8232) || (r =? 8233)) = true.
Proof.
  intros Hw H H10 H13. cbn [lt_at] in H.
  replace (c =? 10) with false in H by lia. replace (c =? 13) with false in H by lia. cbn [orb] in H.
  destruct (Z.eqb_spec c 226); [|discriminate]. subst c. cbn [andb] in H.
  destruct l as [|c1 [|c2 l3]]; try discriminate.
  apply andb_true_iff in H. destruct H as (H1 & H2). apply Z.eqb_eq in H1. subst c1.
  assert (Hl : 1 <= len l3).
  { destruct Hw as (d & Hd). destruct l3; [|rewrite len_cons; pose proof (len_nonneg l3); lia].
    exfalso. destruct d as [|x1 [|x2 [|x3 [|x4 d]]]]; try discriminate.
    cbn in Hd. injection Hd as _ _ ->. discriminate. }
  unfold peek_rune. rewrite pkl_cons_0. cbn [rbind]. change (226 <? 192) with false. cbv iota.
  rewrite !len_cons. 
  replace (1 + (1 + (1 + len l3)) - 1 <? 2) with false by lia.
  change (226 <? 224) with false. cbn [orb].
  replace (1 + (1 + (1 + len l3)) - 1 <? 3) with false by lia.
  change (226 <? 240) with true. cbn [orb]. rewrite pkl_1, pkl_2. cbn [rbind].
  eexists. split; [reflexivity|].
  apply orb_true_iff in H2. destruct H2 as [H2|H2]; apply Z.eqb_eq in H2; subst c2; reflexivity.
Qed.

(* the single-line comment loop stops before every line terminator *)
Lemma slc_loop_nolt : forall fuel l n, wfl l -> slc_loop fuel l = Ok n ->
  0 <= n /\ has_lt (firstz n l) = false.
Proof.
  induction fuel as [|fuel IH]; intros l n Hw H; [discriminate|]. cbn [slc_loop] in H.
  crunch H.
  - injection H as <-. split; [lia|reflexivity].
  - injection H as <-. split; [lia|reflexivity].
  - assert (n = 1 + a1) by congruence. subst n. clear H.
    assert (H1 : 1 < len l).
    { rewrite at_endl_spec in Eb. pose proof (pkl_nz _ _ _ Hw E). lia. }
    assert (Hw' : wfl (skipz 1 l)) by (apply wfl_skipz; [assumption|lia]).
    destruct (IH _ _ Hw' E1) as (Hn' & Hl'). split; [lia|].
    rewrite firstz_plus by lia. rewrite (firstz_pk1 _ _ E). cbn [app has_lt]. rewrite Hl', orb_false_r.
    destruct (lt_at (a :: firstz a1 (skipz 1 l))) eqn:El; [|reflexivity]. exfalso.
    assert (Hl : lt_at l = true).
    { apply (lt_at_app _ (skipz a1 (skipz 1 l))) in El.
      change (a :: firstz a1 (skipz 1 l)) with ([a] ++ firstz a1 (skipz 1 l)) in El.
      rewrite <- app_assoc, firstz_skipz in El. rewrite <- (firstz_pk1 _ _ E), firstz_skipz in El. exact El. }
    destruct l as [|c l']; [discriminate|]. rewrite pkl_cons_0 in E. injection E as ->.
    destruct (peek_rune_ls a l' Hw Hl ltac:(lia) ltac:(lia)) as (r & Hr & Hr2).
    (* the loop did not stop here *)
    assert (a0 = false) by assumption. subst a0.
    destruct (192 <=? a) eqn:E192.
    + rewrite Hr in E0. cbn [rbind] in E0. congruence.
    + unfold peek_rune in Hr. rewrite pkl_cons_0 in Hr. cbn [rbind] in Hr.
      replace (a <? 192) with true in Hr by lia. discriminate.
Qed.

Lemma slc_nolt l n : wfl l -> slc l = Ok n -> 0 <= n /\ has_lt (firstz n l) = false.
Proof. intros Hw H. eapply slc_loop_nolt; eassumption. Qed.

(* consumeCommentToken on "/" *)
Lemma comment_lt_core l n ty e sl : wfl l -> pkl l 0 = Ok 47 -> comment l = Ok (n, ty, e, sl) ->
  (ty = CommentLineTerminatorToken -> has_lt (firstz n l) = true) /\
  (ty = CommentToken -> has_lt (firstz n l) = false).
Proof.
  intros Hw H0 H. pose proof (pkl_nz _ _ _ Hw H0 ltac:(lia)) as H1.
  unfold comment in H. crunch H.
  - (* "//" *)
    assert (n = 2 + a0 /\ ty = CommentToken) as (-> & ->) by (split; congruence).
    assert (a = 47) by lia. subst a.
    assert (Hw' : wfl (skipz 2 l)).
    { apply wfl_skipz; [assumption|]. pose proof (pkl_nz _ _ _ Hw E ltac:(lia)). lia. }
    destruct (slc_nolt _ _ Hw' E0) as (Hn & Hl).
    split; [discriminate|]. intros _. rewrite firstz_plus by lia. rewrite (firstz_pk2 _ _ _ H0 E).
    cbn [app]. rewrite !has_lt_cons_plain by lia. exact Hl.
  - (* a closed multi-line comment *)
    assert (a = 42) by lia. subst a.
    destruct (mlc_loop_lt _ _ _ _ _ E0) as (Hn & Hsl).
    assert (n = 2 + z /\ ty = (if b then CommentLineTerminatorToken else CommentToken)) as (-> & ->) by (split; congruence).
    rewrite firstz_plus by lia. rewrite (firstz_pk2 _ _ _ H0 E). cbn [app]. rewrite !has_lt_cons_plain by lia.
    rewrite <- Hsl. destruct b; split; try discriminate; reflexivity.
  - assert (ty = ErrorToken) by congruence. subst. split; discriminate.
  - assert (ty = ErrorToken) by congruence. subst. split; discriminate.
Qed.

Lemma html_comment_nolt plt l n : wfl l -> html_comment plt l = Ok n ->
  0 <= n /\ has_lt (firstz n l) = false.
Proof.
  intros Hw H. unfold html_comment in H. crunch H.
  - (* "<!--" *)
    assert (n = 4 + a1) by congruence. subst n.
    crunch E0; try discriminate. 
    assert (a = 60 /\ a0 = true /\ a2 = 33 /\ a3 = 45 /\ a4 = 45) as (-> & _ & -> & -> & ->).
    { repeat split; try lia; try congruence. injection E0 as E0. lia. }
    assert (Hw' : wfl (skipz 4 l)).
    { apply wfl_skipz; [assumption|]. pose proof (pkl_nz _ _ _ Hw E4 ltac:(lia)). lia. }
    destruct (slc_nolt _ _ Hw' E1) as (Hn & Hl). split; [lia|].
    rewrite firstz_plus by lia. rewrite (firstz_pk4 _ _ _ _ _ E E2 E3 E4). cbn [app].
    rewrite !has_lt_cons_plain by lia. exact Hl.
  - (* "-->" *)
    assert (n = 3 + a2) by congruence. subst n.
    crunch E1; try discriminate.
    assert (a = 45 /\ a3 = 45 /\ a4 = 62) as (-> & -> & ->).
    { repeat split; try lia. injection E1 as E1. lia. }
    assert (Hw' : wfl (skipz 3 l)).
    { apply wfl_skipz; [assumption|]. pose proof (pkl_nz _ _ _ Hw E4 ltac:(lia)). lia. }
    destruct (slc_nolt _ _ Hw' E2) as (Hn & Hl). split; [lia|].
    rewrite firstz_plus by lia. rewrite (firstz_pk3 _ _ _ _ E E3 E4). cbn [app].
    rewrite !has_lt_cons_plain by lia. exact Hl.
  - injection H as <-. split; [lia|reflexivity].
Qed.

Section CommentNext.
Variables (id_start id_cont is_zs : Z -> bool).

Definition comment_ok (ty : Z) (b : list Z) : Prop :=
  (ty = CommentLineTerminatorToken -> has_lt b = true) /\ (ty = CommentToken -> has_lt b = false).

Lemma op_ty l n ty : op l = Ok (n, ty) -> ty = ErrorToken \/ 512 < ty.
Proof.
  intros H. unfold op in H. crunch H; injection H as _ <-;
    unfold lookup_op, js_op_eq_tokens, js_op_op_eq_tokens, js_op_op_tokens, js_op_tokens;
    repeat match goal with |- context [if ?c then _ else _] => destruct c end;
    first [left; reflexivity | right; reflexivity].
Qed.

Lemma op_or_err_nc s z ty od s' : op_or_err s z = Ok ((ty, od), s') -> ty = ErrorToken \/ 512 < ty.
Proof.
  intros H. unfold op_or_err in H. crunch H.
  - unfold emit in H. destruct (shift _) as [[? ?]|]; [|discriminate].
    assert (ty = z1) by congruence. subst. eapply op_ty; eassumption.
  - left. eapply err_path_ty; eassumption.
Qed.

Lemma template_nc s z ty od s' : template s z = Ok ((ty, od), s') -> ty = ErrorToken \/ 6 <= ty <= 9.
Proof.
  intros H. unfold template in H. crunch H; unfold emit in H; destruct (shift _) as [[? ?]|]; try discriminate;
    injection H as <- _ _; repeat match goal with |- context [if ?b then _ else _] => destruct b end;
    unfold ErrorToken, TemplateToken, TemplateStartToken, TemplateMiddleToken, TemplateEndToken; lia.
Qed.

(* a comment token returned by Next is a CommentLineTerminatorToken iff it contains a line terminator *)
Lemma next_comment_lt s ty b s' : js_wf s -> lstart (jcur s) = lpos (jcur s) ->
  next id_start id_cont is_zs s = Ok ((ty, Some b), s') -> comment_ok ty b.
Proof.
  destruct s as [z e0 plt0 pnl0 lev tl]. unfold js_wf. cbn [jcur]. intros Hw Hst H.
  destruct (suffix_wfl _ Hw) as (Hwl & _).
  unfold next in H. cbv zeta in H. cbn [jcur jerr jplt jpnl jlevel jtl] in H.
  assert (PN : forall s1 z1 ty0, ty0 <> 3 -> ty0 <> 4 -> emit s1 z1 ty0 = Ok ((ty, Some b), s') -> comment_ok ty b).
  { intros s1 z1 ty0 H3 H4 He. apply emit_inv in He. destruct He as (-> & _ & _).
    unfold comment_ok, CommentLineTerminatorToken, CommentToken. split; intros; congruence. }
  assert (PO : forall s1 z1, op_or_err s1 z1 = Ok ((ty, Some b), s') -> comment_ok ty b).
  { intros s1 z1 Ho. apply op_or_err_nc in Ho.
    unfold comment_ok, CommentLineTerminatorToken, CommentToken, ErrorToken in *. split; intros; lia. }
  assert (PE : forall s1 z1, err_path s1 z1 = Ok ((ty, Some b), s') -> comment_ok ty b).
  { intros s1 z1 He. apply err_path_ty in He. subst. split; discriminate. }
  assert (PT : forall s1 z1, template s1 z1 = Ok ((ty, Some b), s') -> comment_ok ty b).
  { intros s1 z1 He. apply template_nc in He.
    unfold comment_ok, CommentLineTerminatorToken, CommentToken, ErrorToken in *. split; intros; lia. }
  crunch H; try discriminate;
    try (eapply PE; exact H); try (eapply PT; exact H); try (eapply PO; exact H);
    try (eapply PN; [| |exact H]; discriminate).
  all: try match goal with
    | E0 : numeric _ = Ok (_, ?t, _), H : emit _ _ ?t = Ok _ |- _ =>
        apply numeric_ty in E0; eapply PN; [| |exact H]; unfold ErrorToken in *; lia
    | E0 : string_tok _ = Ok (_, ?t, _), H : emit _ _ ?t = Ok _ |- _ =>
        apply string_tok_ty in E0; eapply PN; [| |exact H]; unfold ErrorToken, StringToken in *; lia
    | E0 : lookup_kw js_keywords _ = Some ?t, H : emit _ _ ?t = Ok _ |- _ =>
        apply lookup_kw_in in E0; pose proof kw_types as T; rewrite forallb_forall in T;
        specialize (T _ E0); cbn [snd] in T; eapply PN; [| |exact H]; lia
    end.
  - (* "/": a comment *)
    apply emit_inv in H. destruct H as (-> & -> & _). rewrite slice_mv by assumption.
    assert (a = 47) by lia. subst a.
    eapply comment_lt_core; eassumption.
  - (* "<" and "-": an HTML-like comment *)
    apply emit_inv in H. destruct H as (-> & -> & _). rewrite slice_mv by assumption.
    destruct (html_comment_nolt _ _ _ Hwl E0) as (_ & Hl). split; [discriminate|auto].
Qed.

End CommentNext.
