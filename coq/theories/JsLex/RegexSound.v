(* JsLex/RegexSound.v — the converse of Regexp.v: whatever RegExp() returns as a RegExpToken is a
   regular expression literal "/" body "/" flags with a well-formed body (ECMA-262 12.9.5 at byte level);
   hence a literal that is not terminated on its line (or in the input) is an ErrorToken. *)
From Verif Require Import Common.Base Common.Tactics Common.Lx Gen.Tables
  JsLex.Model JsLex.Lemmas JsLex.Total JsLex.Next JsLex.Canon JsLex.Comment JsLex.Relex JsLex.Proofs JsLex.Regexp.
From Coq Require Import ZifyBool.

Lemma firstz_cons_pos {A} n (c : A) l : 0 <= n -> firstz (1 + n) (c :: l) = c :: firstz n l.
Proof. intros H. unfold firstz. replace (Z.to_nat (1 + n)) with (S (Z.to_nat n)) by lia. reflexivity. Qed.

Lemma is_lt_false c l : is_lt (c :: l) = Ok false -> c <> 10 /\ c <> 13 /\ lt_at (c :: l) = false.
Proof.
  unfold is_lt, ls_ps, lt_at. rewrite pkl_cons_0. cbn [rbind].
  destruct ((c =? 10) || (c =? 13)) eqn:E1; [discriminate|]. cbn [orb].
  destruct (c =? 226) eqn:E2; [|intros _; repeat split; lia]. cbn [andb].
  destruct l as [|c1 [|c2 l3]]; cbn [pkl].
  - intros _. repeat split; lia.
  - rewrite pkl_1. cbn [rbind]. destruct (c1 =? 128); intros H; try discriminate H; repeat split; try lia; reflexivity.
  - rewrite pkl_1. cbn [rbind]. destruct (c1 =? 128); [rewrite pkl_2; cbn [rbind]|]; intros H;
      (split; [lia|]); (split; [lia|]); cbn [andb]; congruence.
Qed.

Lemma lt_at_prefix c P R : lt_at (c :: P ++ R) = false -> lt_at (c :: P) = false.
Proof.
  intros H. destruct (lt_at (c :: P)) eqn:E; [|reflexivity].
  apply (lt_at_app _ R) in E. cbn [app] in E. congruence.
Qed.

(* the body loop accepts well-formed bodies only; n counts the body and its closing '/' *)
Lemma re_loop_sound : forall fuel ic l n, re_loop fuel ic l = Ok (n, true) ->
  exists body, n = len body + 1 /\ firstz n l = body ++ [47] /\ re_body ic body.
Proof.
  induction fuel as [|f IH]; intros ic l n H; [discriminate|]. cbn [re_loop] in H.
  destruct l as [|c l']; [discriminate|]. rewrite pkl_cons_0 in H. cbn [rbind] in H. rewrite ?skipz_1_cons in H.
  destruct (negb ic && (c =? 47)) eqn:E47.
  { assert (n = 1) by congruence. subst n. destruct ic; [discriminate|]. cbn [negb andb] in E47.
    exists []. split; [reflexivity|]. split; [|apply rb_nil]. assert (c = 47) by lia. subst c. reflexivity. }
  destruct (c =? 91) eqn:E91.
  { destruct (re_loop f true l') as [[n' ok]| |] eqn:E; cbn [rbind] in H; try discriminate.
    assert (Hn : n = 1 + n' /\ ok = true) by (split; congruence). destruct Hn as (-> & ->).
    destruct (IH _ _ _ E) as (body & -> & Hf & Hb). pose proof (len_nonneg body).
    exists (91 :: body). split; [rewrite len_cons; lia|]. split; [|apply rb_open; assumption].
    rewrite firstz_cons_pos by lia. rewrite Hf. assert (c = 91) by lia. subst c. reflexivity. }
  destruct (c =? 93) eqn:E93.
  { destruct (re_loop f false l') as [[n' ok]| |] eqn:E; cbn [rbind] in H; try discriminate.
    assert (Hn : n = 1 + n' /\ ok = true) by (split; congruence). destruct Hn as (-> & ->).
    destruct (IH _ _ _ E) as (body & -> & Hf & Hb). pose proof (len_nonneg body).
    exists (93 :: body). split; [rewrite len_cons; lia|]. split; [|apply rb_close; assumption].
    rewrite firstz_cons_pos by lia. rewrite Hf. assert (c = 93) by lia. subst c. reflexivity. }
  destruct (c =? 92) eqn:E92.
  { cbv zeta in H. destruct (is_lt l') as [t| |] eqn:Et; cbn [rbind] in H; try discriminate.
    destruct l' as [|c1 l'']; [discriminate|]. rewrite pkl_cons_0 in H. cbn [rbind] in H.
    destruct (t || ((c1 =? 0) && at_endl (c1 :: l''))) eqn:Estop; [discriminate|].
    change (skipz 2 (c :: c1 :: l'')) with l'' in H.
    destruct (re_loop f ic l'') as [[n' ok]| |] eqn:E; cbn [rbind] in H; try discriminate.
    assert (Hn : n = 2 + n' /\ ok = true) by (split; congruence). destruct Hn as (-> & ->).
    destruct (IH _ _ _ E) as (body & -> & Hf & Hb). pose proof (len_nonneg body).
    destruct t; [discriminate|]. destruct (is_lt_false _ _ Et) as (H10 & H13 & Hlt).
    assert (Hfz : firstz (2 + (len body + 1)) (c :: c1 :: l'') = c :: c1 :: body ++ [47]).
    { replace (2 + (len body + 1)) with (1 + (1 + (len body + 1))) by lia.
      rewrite !firstz_cons_pos by lia. rewrite Hf. reflexivity. }
    exists (92 :: c1 :: body). split; [rewrite !len_cons; lia|]. split.
    - rewrite Hfz. assert (c = 92) by lia. subst c. reflexivity.
    - apply rb_esc; try assumption. apply (lt_at_prefix c1 body (47 :: skipz (len body + 1) l'')).
      rewrite <- (firstz_skipz (len body + 1) l'') in Hlt. rewrite Hf, <- app_assoc in Hlt. exact Hlt. }
  destruct (is_lt (c :: l')) as [t| |] eqn:Et; cbn [rbind] in H; try discriminate.
  destruct (t || ((c =? 0) && at_endl (c :: l'))) eqn:Estop; [discriminate|].
  destruct (re_loop f ic l') as [[n' ok]| |] eqn:E; cbn [rbind] in H; try discriminate.
  assert (Hn : n = 1 + n' /\ ok = true) by (split; congruence). destruct Hn as (-> & ->).
  destruct (IH _ _ _ E) as (body & -> & Hf & Hb). pose proof (len_nonneg body).
  destruct t; [discriminate|]. destruct (is_lt_false _ _ Et) as (H10 & H13 & Hlt).
  exists (c :: body). split; [rewrite len_cons; lia|]. split.
  - rewrite firstz_cons_pos by lia. rewrite Hf. reflexivity.
  - apply rb_plain; try assumption; try lia.
    apply (lt_at_prefix c body (47 :: skipz (len body + 1) l')).
    rewrite <- (firstz_skipz (len body + 1) l') in Hlt. rewrite Hf, <- app_assoc in Hlt. exact Hlt.
Qed.

Section Sound.
Variable id_cont : Z -> bool.

Lemma re_flag1_nonneg : nonneg (re_flag1 id_cont).
Proof.
  intros l k H. unfold re_flag1 in H. crunch H; try (injection H as <-; lia).
  injection H as <-. pose proof (peek_rune_pos _ _ _ E0). lia.
Qed.

(* consumeRegExpToken on "c ..." (c is the opening '/') *)
Lemma regexp_tok_sound c l n : regexp_tok id_cont (c :: l) = Ok (n, true) ->
  exists body flags, firstz n (c :: l) = c :: body ++ 47 :: flags /\ re_body false body.
Proof.
  intros H. unfold regexp_tok in H. rewrite skipz_1_cons in H.
  destruct (re_loop (length (c :: l)) false l) as [[n0 ok]| |] eqn:E; cbn [rbind] in H; try discriminate.
  destruct ok; [|discriminate].
  destruct (repl (re_flag1 id_cont) (skipz (1 + n0) (c :: l))) as [m| |] eqn:Em; cbn [rbind] in H; try discriminate.
  assert (n = 1 + n0 + m) by congruence. subst n.
  destruct (re_loop_sound _ _ _ _ E) as (body & -> & Hf & Hb). pose proof (len_nonneg body).
  assert (Hm : 0 <= m) by (unfold repl in Em; eapply rep_nonneg; [apply re_flag1_nonneg|exact Em]).
  exists body, (firstz m (skipz (1 + (len body + 1)) (c :: l))). split; [|assumption].
  rewrite firstz_plus by lia. rewrite firstz_cons_pos by lia. rewrite Hf.
  cbn [app]. rewrite <- app_assoc. reflexivity.
Qed.

(* RegExp(): a RegExpToken is "/" body "/" flags with a well-formed body *)
Lemma regexp_sound_proof s b s' : js_wf s ->
  regexp id_cont s = Ok ((RegExpToken, Some b), s') ->
  exists body flags, b = re_lit body flags /\ re_body false body.
Proof.
  destruct s as [z e0 plt0 pnl0 lev tl]. unfold js_wf. cbn [jcur]. intros Hw H.
  unfold regexp in H. cbv zeta in H. cbn [jcur] in H.
  assert (Hgen : forall back n, 1 <= back <= 2 -> back <= lpos z -> pk z (- back) = Some 47 ->
            regexp_tok id_cont (suffix (skip (mv z (- back)))) = Ok (n, true) ->
            emit (mkJst z e0 plt0 pnl0 lev tl) (mv (skip (mv z (- back))) n) RegExpToken = Ok ((RegExpToken, Some b), s') ->
            exists body flags, b = re_lit body flags /\ re_body false body).
  { intros back n Hb Hbl Hpk Ht He.
    apply emit_inv in He. destruct He as (_ & -> & _).
    rewrite slice_mv by reflexivity.
    assert (Hsuf : exists l, suffix (skip (mv z (- back))) = 47 :: l).
    { unfold suffix, skip, mv. cbn [lbuf lpos lstart].
      remember (skipz (lpos z + - back) (lbuf z)) as l0 eqn:El0.
      assert (Hp : pkl l0 0 = Ok 47).
      { subst l0. rewrite pkl_skipz by lia. rewrite pkl_peekz. unfold pk in Hpk.
        replace (lpos z + - back + 0) with (lpos z + - back) by lia. rewrite Hpk. reflexivity. }
      destruct l0 as [|c0 l0]; [discriminate|]. rewrite pkl_cons_0 in Hp. exists l0. congruence. }
    destruct Hsuf as (l & Hl). rewrite Hl in *.
    destruct (regexp_tok_sound _ _ _ Ht) as (body & flags & Hf & Hbd).
    exists body, flags. split; [exact Hf|exact Hbd]. }
  crunch H; try discriminate.
  assert (Hback : 1 <= a0 <= 2 /\ a0 <= lpos z /\ pk z (- a0) = Some 47).
  { crunch E; crunch E0;
      repeat match goal with Hx : (if _ then _ else _) = Ok _ |- _ => crunch Hx end;
      try discriminate; try (assert (a0 = 0) by congruence; lia); try (exfalso; lia).
    - assert (a0 = 1) by congruence. subst a0. split; [lia|]. split; [lia|].
      destruct (pk z (-1)) as [c|] eqn:Ec; [|discriminate].
      assert (c = a1) by congruence. assert ((a1 =? 47) = true) by congruence.
      change (pk z (-1) = Some 47). rewrite Ec. f_equal. lia.
    - assert (a0 = 2) by congruence. subst a0. split; [lia|]. split; [lia|].
      destruct (pk z (-2)) as [c|] eqn:Ec; [|discriminate].
      match goal with Hq : Ok (?x =? 47) = Ok true |- _ =>
        assert (c = x) by congruence; assert ((x =? 47) = true) by congruence end.
      change (pk z (-2) = Some 47). rewrite Ec. f_equal. lia. }
  destruct Hback as (B1 & B2 & B3). apply (Hgen a0 z0); assumption.
Qed.

End Sound.

(* unterminated literals: "/ab" LF "x", "/a[/]" (the '/' is inside the class) and "/a\" at the end of
   input: Next gives '/', RegExp() an ErrorToken *)
Example ex_unterminated :
  forall d, In d [[47; 97; 98; 10; 120]; [47; 97; 91; 47; 93]; [47; 97; 92]] ->
  exists s', jrun nocls nocls nocls [ONext; ORegExp] (js_init d) = Ok ([(DivToken, Some [47]); (ErrorToken, None)], s').
Proof.
  intros d [<-|[<-|[<-|[]]]]; vm_compute; eexists; reflexivity.
Qed.
