(* JsLex/Canon.v — the type of a keyword, punctuator or operator token is the one whose canonical
   spelling (TokenType.Bytes, generated table js_token_bytes) is the token text. *)
From Verif Require Import Common.Base Common.Tactics Common.Lx Gen.Tables
  JsLex.Model JsLex.Lemmas JsLex.Total JsLex.Next.
From Coq Require Import ZifyBool.

Fixpoint lookup_bytes (m : list (Z * list Z)) (ty : Z) : option (list Z) :=
  match m with
  | [] => None
  | (k, v) :: t => if k =? ty then Some v else lookup_bytes t ty
  end.

(* TokenType.Bytes() for the types that have a spelling *)
Definition token_bytes (ty : Z) : option (list Z) := lookup_bytes js_token_bytes ty.

Lemma pkl_1 a b t : pkl (a :: b :: t) 1 = Ok b. Proof. reflexivity. Qed.
Lemma pkl_2 a b c t : pkl (a :: b :: c :: t) 2 = Ok c. Proof. reflexivity. Qed.
Lemma pkl_3 a b c d t : pkl (a :: b :: c :: d :: t) 3 = Ok d. Proof. reflexivity. Qed.

(* split on every integer comparison in the hypothesis H *)
Ltac split_eqb H :=
  repeat match type of H with
  | context [?a =? ?b] => destruct (Z.eqb_spec a b); try subst; cbn [andb orb negb] in H; try discriminate
  | context [?a <? ?b] => destruct (Z.ltb_spec a b); cbn [andb orb negb] in H; try discriminate
  end.

(* (a) consumeOperatorToken: whatever follows, the type returned spells the bytes consumed *)
Lemma op_canonical_op l n ty : op l = Ok (n, ty) -> ty <> ErrorToken ->
  token_bytes ty = Some (firstz n l).
Proof.
  intros H Hne. unfold op in H.
  destruct l as [|c [|c1 [|c2 [|c3 t]]]]; cbn [pkl_cons_0] in H;
    try discriminate;
    rewrite ?pkl_cons_0, ?pkl_1, ?pkl_2, ?pkl_3 in H; cbn [rbind] in H.
  all: try (change (pkl [c] 1) with (@Panic Z) in H; discriminate).
  all: try change (pkl [c; c1] 2) with (@Panic Z) in H.
  all: try change (pkl [c; c1; c2] 3) with (@Panic Z) in H.
  all: unfold lookup_op, js_op_eq_tokens, js_op_op_eq_tokens, js_op_op_tokens, js_op_tokens in H.
  all: split_eqb H; cbn [rbind] in H; try discriminate; split_eqb H;
       try (injection H as <- <-; first [reflexivity | exfalso; apply Hne; reflexivity]).
Qed.

(* walk along the control flow of a monadic computation that is known to have returned Ok *)
Ltac crunch H :=
  repeat (cbn [rbind] in H;
  match type of H with
  | Ok _ = Ok _ => fail 1
  | Panic = _ => discriminate H
  | Fuel = _ => discriminate H
  | rbind ?e _ = _ => let E := fresh "E" in destruct e eqn:E
  | (if ?b then _ else _) = _ => let E := fresh "Eb" in destruct b eqn:E
  | (let (_, _) := ?x in _) = _ => destruct x
  | match ?x with _ => _ end = _ => let E := fresh "Em" in destruct x eqn:E
  end); cbn [rbind] in H.

Lemma bytes_eqb_eq a : forall b, bytes_eqb a b = true -> a = b.
Proof.
  induction a as [|x a IH]; intros [|y b] H; cbn [bytes_eqb] in H; try discriminate; [reflexivity|].
  apply andb_true_iff in H. destruct H as (H1 & H2). apply Z.eqb_eq in H1. subst. f_equal. auto.
Qed.

(* (b) the keyword map: every entry maps a spelling to the type with that spelling *)
Lemma kw_table_canonical :
  forallb (fun p => match token_bytes (snd p) with Some w => bytes_eqb (fst p) w | None => false end) js_keywords = true.
Proof. vm_compute. reflexivity. Qed.

Lemma lookup_kw_in m w k : lookup_kw m w = Some k -> In (w, k) m.
Proof.
  induction m as [|(k0, v0) m IH]; cbn [lookup_kw]; [discriminate|].
  destruct (bytes_eqb k0 w) eqn:E.
  - intros [= <-]. apply bytes_eqb_eq in E. subst. left. reflexivity.
  - intros H. right. auto.
Qed.

Lemma kw_canonical w k : lookup_kw js_keywords w = Some k -> token_bytes k = Some w.
Proof.
  intros H. apply lookup_kw_in in H.
  pose proof kw_table_canonical as T. rewrite forallb_forall in T. specialize (T _ H). cbn [fst snd] in T.
  destruct (token_bytes k) as [w'|]; [|discriminate]. apply bytes_eqb_eq in T. congruence.
Qed.

(* keyword types are none of the other types *)
Lemma kw_types : forallb (fun p => 2048 <? snd p) js_keywords = true.
Proof. vm_compute. reflexivity. Qed.

Lemma emit_inv s z ty ty' b s' : emit s z ty = Ok ((ty', Some b), s') ->
  ty' = ty /\ b = slice (lbuf z) (lstart z) (lpos z) /\ s' = set_cur s (skip z).
Proof.
  unfold emit, shift. destruct (lexeme z) as [w|] eqn:E; [|discriminate]. intros [= <- <- <-].
  unfold lexeme in E. destruct (slice_ok _ _ _); [|discriminate]. injection E as <-. auto.
Qed.

Lemma slice_mv z n : lstart z = lpos z ->
  slice (lbuf (mv z n)) (lstart (mv z n)) (lpos (mv z n)) = firstz n (suffix z).
Proof.
  intros H. unfold slice, mv, suffix. cbn [lbuf lstart lpos]. rewrite H. f_equal. lia.
Qed.

Lemma firstz_1 l c : pkl l 0 = Ok c -> firstz 1 l = [c].
Proof. destruct l; [discriminate|]. intros [= ->]. reflexivity. Qed.


(* ranges of the types returned by the sub-scanners *)
Lemma num_exp_ty l k c n ty e : num_exp l k c = Ok (n, ty, e) -> ty = ErrorToken \/ ty = DecimalToken.
Proof. intros H. unfold num_exp in H. crunch H; injection H as <- <- <-; auto. Qed.

Lemma num_tail_ty f l k n ty e : num_tail f l k = Ok (n, ty, e) ->
  ty = ErrorToken \/ ty = DecimalToken \/ ty = IntegerToken.
Proof.
  intros H. unfold num_tail in H. crunch H;
    try (injection H as <- <- <-; auto);
    apply num_exp_ty in H; tauto.
Qed.

Lemma num_radix_ty f t l n ty e : num_radix f t l = Ok (n, ty, e) -> ty = t \/ ty = IntegerToken.
Proof. intros H. unfold num_radix in H. crunch H; injection H as <- <- <-; auto. Qed.

Lemma numeric_ty l n ty e : numeric l = Ok (n, ty, e) -> ty = ErrorToken \/ 257 <= ty <= 261.
Proof.
  intros H. unfold numeric in H. crunch H;
    try (injection H as <- <- <-; unfold IntegerToken; lia);
    try (apply num_radix_ty in H; unfold HexadecimalToken, BinaryToken, OctalToken, IntegerToken in H; lia);
    apply num_tail_ty in H; unfold ErrorToken, DecimalToken, IntegerToken in *; lia.
Qed.

Lemma string_tok_ty l n ty e : string_tok l = Ok (n, ty, e) -> ty = ErrorToken \/ ty = StringToken.
Proof. intros H. unfold string_tok in H. crunch H; injection H as <- <- <-; auto. Qed.

Lemma comment_ty l n ty e sl : comment l = Ok (n, ty, e, sl) ->
  ty = ErrorToken \/ ty = CommentToken \/ ty = CommentLineTerminatorToken.
Proof.
  intros H. unfold comment in H. crunch H; injection H as <- <- <- <-;
    repeat match goal with |- context [if ?b then _ else _] => destruct b end; auto.
Qed.

Lemma err_path_ty s z ty od s' : err_path s z = Ok ((ty, od), s') -> ty = ErrorToken.
Proof.
  intros H. unfold err_path in H. crunch H. unfold emit in H. destruct (shift _) as [[? ?]|]; [|discriminate].
  injection H as <- _ _. reflexivity.
Qed.

Lemma template_ty s z ty od s' : template s z = Ok ((ty, od), s') -> ty < 512.
Proof.
  intros H. unfold template in H. crunch H; unfold emit in H; destruct (shift _) as [[? ?]|]; try discriminate;
    injection H as <- _ _; repeat match goal with |- context [if ?b then _ else _] => destruct b end; reflexivity.
Qed.

Definition is_canon (ty : Z) : bool := (512 <? ty) && negb (ty =? IdentifierToken).

Lemma op_or_err_canon s z ty b s' : lstart z = lpos z ->
  op_or_err s z = Ok ((ty, Some b), s') -> is_canon ty = true -> token_bytes ty = Some b.
Proof.
  intros Hst H Hc. unfold op_or_err in H. crunch H.
  - apply emit_inv in H. destruct H as (-> & -> & _). rewrite slice_mv by assumption.
    apply op_canonical_op; [assumption|]. unfold ErrorToken in *. lia.
  - apply err_path_ty in H. subst. discriminate.
Qed.

Lemma comment_zero l n ty e sl : comment l = Ok (n, ty, e, sl) -> ty = ErrorToken -> e = ENone -> n = 0.
Proof.
  intros H. unfold comment in H. crunch H; injection H as <- <- <- <-; intros H1 H2;
    try discriminate; try reflexivity;
    repeat match goal with H : context [if ?b then _ else _] |- _ => destruct b end; discriminate.
Qed.

Lemma kw_not_ident : forallb (fun p => negb (snd p =? IdentifierToken)) js_keywords = true.
Proof. vm_compute. reflexivity. Qed.

Lemma lexeme_slice z w : lexeme z = Some w -> w = slice (lbuf z) (lstart z) (lpos z).
Proof. unfold lexeme. destruct (slice_ok _ _ _); [|discriminate]. congruence. Qed.

Lemma firstz_3 l : pkl l 0 = Ok 46 -> pkl l 1 = Ok 46 -> pkl l 2 = Ok 46 -> firstz 3 l = [46; 46; 46].
Proof.
  destruct l as [|a [|b [|c t]]]; try discriminate.
  rewrite pkl_cons_0, pkl_1, pkl_2. intros [= ->] [= ->] [= ->]. reflexivity.
Qed.

Section Canon.
Variables (id_start id_cont is_zs : Z -> bool).

(* (c) Lexer.Next: every keyword / punctuator / operator token has the type that spells its text,
   and an IdentifierToken is never the spelling of a keyword *)
Definition canon_ok (ty : Z) (b : list Z) : Prop :=
  (is_canon ty = true -> token_bytes ty = Some b) /\
  (ty = IdentifierToken -> lookup_kw js_keywords b = None).

Lemma next_canonical s ty b s' : js_wf s -> lstart (jcur s) = lpos (jcur s) ->
  next id_start id_cont is_zs s = Ok ((ty, Some b), s') -> canon_ok ty b.
Proof.
  destruct s as [z e0 plt0 pnl0 lev tl]. unfold js_wf. cbn [jcur]. intros Hw Hst H.
  assert (Hp0 : 0 <= lpos z) by (destruct Hw as (_ & ? & _); lia).
  unfold next in H. cbv zeta in H. cbn [jcur jerr jplt jpnl jlevel jtl] in H.
  (* single-byte punctuators: the token is the byte under the cursor *)
  assert (P1 : forall s1 c ty0, firstz 1 (suffix z) = [c] -> token_bytes ty0 = Some [c] -> ty0 <> IdentifierToken ->
     emit s1 (mv z 1) ty0 = Ok ((ty, Some b), s') -> canon_ok ty b).
  { intros s1 c ty0 Hc Hb Hni He. apply emit_inv in He. destruct He as (-> & -> & _).
    rewrite slice_mv by assumption. rewrite Hc. split; [auto|congruence]. }
  (* tokens whose type is below 512 *)
  assert (P0 : forall s1 z1 ty0, ty0 < 512 -> emit s1 z1 ty0 = Ok ((ty, Some b), s') -> canon_ok ty b).
  { intros s1 z1 ty0 Hlt He. apply emit_inv in He. destruct He as (-> & _ & _).
    unfold canon_ok, is_canon, IdentifierToken. split; [lia|lia]. }
  assert (PO : forall s1 z1, lstart z1 = lpos z1 -> op_or_err s1 z1 = Ok ((ty, Some b), s') -> canon_ok ty b).
  { intros s1 z1 Hs1 Ho. split; [apply (op_or_err_canon s1 z1 ty b s' Hs1 Ho)|].
    intros ->. exfalso. unfold op_or_err in Ho. crunch Ho.
    - apply emit_inv in Ho. destruct Ho as (<- & _ & _).
      clear Eb. unfold op in E. crunch E; injection E as _ EQ; try discriminate;
        unfold lookup_op, js_op_eq_tokens, js_op_op_eq_tokens, js_op_op_tokens, js_op_tokens in EQ;
        repeat match type of EQ with context [if ?c then _ else _] => destruct c; try discriminate end.
    - apply err_path_ty in Ho. discriminate. }
  assert (PE : forall s1 z1, err_path s1 z1 = Ok ((ty, Some b), s') -> canon_ok ty b).
  { intros s1 z1 He. apply err_path_ty in He. subst. split; discriminate. }
  assert (PT : forall s1 z1, template s1 z1 = Ok ((ty, Some b), s') -> canon_ok ty b).
  { intros s1 z1 He. apply template_ty in He. unfold canon_ok, is_canon, IdentifierToken. split; lia. }
  crunch H; try discriminate;
    try (eapply P0; [|exact H]; reflexivity);
    try (eapply PE; exact H); try (eapply PT; exact H).
  all: try (eapply PO; [|exact H]; exact Hst).
  all: try match goal with
    | E : pkl (suffix ?zz) 0 = Ok ?a, H : emit _ (mv ?zz 1) ?K = Ok _ |- _ =>
        let Ha := fresh in
        assert (Ha : token_bytes K = Some [a] /\ K <> IdentifierToken)
          by (first [ assert (a = 44) by lia | assert (a = 59) by lia | assert (a = 40) by lia
                    | assert (a = 41) by lia | assert (a = 123) by lia | assert (a = 125) by lia
                    | assert (a = 58) by lia | assert (a = 93) by lia | assert (a = 91) by lia ];
              subst a; split; [reflexivity|discriminate]);
        destruct Ha; eapply P1; [exact (firstz_1 _ _ E)| eassumption | assumption | exact H]
    end.
  (* numeric, comment and string tokens *)
  all: try match goal with
    | E0 : numeric _ = Ok (_, ?t, _), H : emit _ _ ?t = Ok _ |- _ =>
        apply numeric_ty in E0; apply emit_inv in H; destruct H as (-> & _ & _);
        unfold canon_ok, is_canon, IdentifierToken, ErrorToken in *; split; lia
    | E0 : comment _ = Ok (_, ?t, _, _), H : emit _ _ ?t = Ok _ |- _ =>
        apply comment_ty in E0; apply emit_inv in H; destruct H as (-> & _ & _);
        unfold canon_ok, is_canon, IdentifierToken, ErrorToken, CommentToken, CommentLineTerminatorToken in *; split; lia
    | E0 : string_tok _ = Ok (_, ?t, _), H : emit _ _ ?t = Ok _ |- _ =>
        apply string_tok_ty in E0; apply emit_inv in H; destruct H as (-> & _ & _);
        unfold canon_ok, is_canon, IdentifierToken, ErrorToken, StringToken in *; split; lia
    end.
  - (* "..." *)
    assert (Hn0 : z1 = 0).
    { unfold mark, mv in Eb3. cbn [lpos lstart] in Eb3. lia. }
    subst z1. rewrite mv_0 in *. rewrite suffix_mv in * by lia.
    rewrite !pkl_skipz in * by lia. change (1 + 0) with 1 in *. change (1 + 1) with 2 in *.
    assert (a0 = 46) by (destruct (a0 =? 46) eqn:Ea; [lia|cbn [rbind] in E2; congruence]).
    subst a0. change (46 =? 46) with true in E2. cbv iota in E2.
    destruct (pkl (suffix z) 2) as [c2| |] eqn:E3; cbn [rbind] in E2; try discriminate.
    assert (c2 = 46) by (injection E2 as E2; lia). subst c2.
    assert (a = 46) by lia. subst a.
    rewrite mv_mv in H. apply emit_inv in H. destruct H as (-> & -> & _).
    rewrite slice_mv by assumption. change (1 + 2) with 3. rewrite (firstz_3 _ E E1 E3).
    split; [reflexivity|discriminate].
  - (* "." *)
    assert (Hn0 : z1 = 0).
    { unfold mark, mv in Eb3. cbn [lpos lstart] in Eb3. lia. }
    subst z1. rewrite mv_0 in *. assert (a = 46) by lia. subst a.
    eapply (P1 _ 46 DotToken); [exact (firstz_1 _ _ E)|reflexivity|discriminate|exact H].
  - (* '/' or '/=' after the comment scanner declined *)
    assert (z1 = 0).
    { eapply comment_zero; [exact E0| |]; unfold ErrorToken, ENone in *; lia. }
    subst z1. rewrite mv_0 in H. eapply PO; [exact Hst|exact H].
  - (* keywords *)
    apply emit_inv in H. destruct H as (-> & -> & _). apply lexeme_slice in Em. rewrite <- Em.
    split.
    + intros _. apply kw_canonical. assumption.
    + intros ->. exfalso. apply lookup_kw_in in Em0.
      pose proof kw_not_ident as T. rewrite forallb_forall in T. specialize (T _ Em0). discriminate.
  - (* identifiers *)
    apply emit_inv in H. destruct H as (-> & -> & _). apply lexeme_slice in Em. rewrite <- Em.
    split; [discriminate|auto].
Qed.

End Canon.
