(* JsLex/Regexp.v — after a '/' or '/=' token, RegExp() re-reads every well-formed regular
   expression literal (ECMA-262 12.9.5, at byte level) as one RegExpToken, including '/' inside a
   class and escaped '/'. *)
From Verif Require Import Common.Base Common.Tactics Common.Lx Gen.Tables
  JsLex.Model JsLex.Lemmas JsLex.Total JsLex.Next JsLex.Canon JsLex.Comment.
From Coq Require Import ZifyBool.

(* RegularExpressionBody at byte level; the flag says "inside a class".
   plain: RegularExpressionNonTerminator but not one of \ / [ (outside a class) or ] \ (inside);
   bytes >= 0x80 are plain (multi-byte characters), U+2028 / U+2029 are excluded by lt_at. *)
Inductive re_body : bool -> list Z -> Prop :=
| rb_nil : re_body false []
| rb_plain ic c l : c <> 10 -> c <> 13 -> c <> 91 -> c <> 93 -> c <> 92 -> (ic = false -> c <> 47) ->
    lt_at (c :: l) = false -> re_body ic l -> re_body ic (c :: l)
| rb_open ic l : re_body true l -> re_body ic (91 :: l)
| rb_close ic l : re_body false l -> re_body ic (93 :: l)
| rb_esc ic c l : c <> 10 -> c <> 13 -> lt_at (c :: l) = false -> re_body ic l -> re_body ic (92 :: c :: l).

(* isLineTerminator inside a body that is followed by its closing '/' *)
Lemma is_lt_body c l R : is_lt (c :: l ++ 47 :: R) = Ok (lt_at (c :: l)).
Proof.
  unfold is_lt, ls_ps, lt_at. rewrite pkl_cons_0. cbn [rbind].
  destruct ((c =? 10) || (c =? 13)); [reflexivity|]. cbn [orb].
  destruct (c =? 226); [|reflexivity]. cbn [andb].
  destruct l as [|c1 [|c2 l3]]; cbn [app].
  - rewrite pkl_1. cbn [rbind]. reflexivity.
  - rewrite pkl_1. cbn [rbind]. destruct (c1 =? 128); [|reflexivity]. rewrite pkl_2. cbn [rbind]. reflexivity.
  - rewrite pkl_1. cbn [rbind]. destruct (c1 =? 128); [|reflexivity]. rewrite pkl_2. cbn [rbind]. reflexivity.
Qed.

Lemma at_endl_cons2 a b t : at_endl (a :: b :: t) = false.
Proof. reflexivity. Qed.

Lemma at_endl_body c l R : at_endl (c :: l ++ 47 :: R) = false.
Proof. destruct l; reflexivity. Qed.

(* the body loop runs to the closing '/' *)
Lemma re_loop_body ic body : re_body ic body -> forall R fuel, (length body < fuel)%nat ->
  re_loop fuel ic (body ++ 47 :: R) = Ok (len body + 1, true).
Proof.
  induction 1 as [|ic c l H10 H13 H91 H93 H92 H47 Hlt Hb IH|ic l Hb IH|ic l Hb IH|ic c l H10 H13 Hlt Hb IH];
    intros R fuel Hf; (destruct fuel as [|fuel]; [cbn [length] in Hf; lia|]); cbn [re_loop app].
  - rewrite pkl_cons_0. cbn [rbind negb andb]. reflexivity.
  - rewrite pkl_cons_0. cbn [rbind].
    replace (negb ic && (c =? 47)) with false by (destruct ic; [reflexivity|specialize (H47 eq_refl); cbn [negb andb]; lia]).
    replace (c =? 91) with false by lia. replace (c =? 93) with false by lia. replace (c =? 92) with false by lia.
    rewrite is_lt_body, Hlt. cbn [rbind orb]. rewrite at_endl_body, andb_false_r.
    rewrite skipz_1_cons. rewrite IH by (cbn [length] in Hf; lia). cbn [rbind]. rewrite len_cons. f_equal. f_equal. lia.
  - rewrite pkl_cons_0. cbn [rbind]. rewrite andb_false_r. change (91 =? 91) with true. cbv iota.
    rewrite skipz_1_cons. rewrite IH by (cbn [length] in Hf; lia). cbn [rbind]. rewrite len_cons. f_equal. f_equal. lia.
  - rewrite pkl_cons_0. cbn [rbind]. rewrite andb_false_r. change (93 =? 91) with false. change (93 =? 93) with true. cbv iota.
    rewrite skipz_1_cons. rewrite IH by (cbn [length] in Hf; lia). cbn [rbind]. rewrite len_cons. f_equal. f_equal. lia.
  - rewrite pkl_cons_0. cbn [rbind]. rewrite andb_false_r.
    change (92 =? 91) with false. change (92 =? 93) with false. change (92 =? 92) with true. cbv iota.
    rewrite skipz_1_cons. rewrite is_lt_body, Hlt. cbn [rbind]. rewrite pkl_cons_0. cbn [rbind orb].
    rewrite at_endl_body, andb_false_r.
    change (skipz 2 (92 :: c :: l ++ 47 :: R)) with (l ++ 47 :: R).
    rewrite IH by (cbn [length] in Hf; lia). cbn [rbind]. rewrite !len_cons. f_equal. f_equal. lia.
Qed.

Section Regexp.
Variables (id_start id_cont is_zs : Z -> bool).

(* flags: ASCII identifier characters, followed by a byte that is not one (e.g. the terminator) *)
Lemma flags_loop flags r0 rest : Forall (fun c => tab_cont c = true) flags ->
  tab_cont r0 = false -> r0 < 192 ->
  forall fuel, (length flags < fuel)%nat ->
  rep (re_flag1 id_cont) fuel (flags ++ r0 :: rest) = Ok (len flags).
Proof.
  intros Hf Hr0 Hr1. induction Hf as [|c flags Hc Hf IH]; intros fuel Hl;
    (destruct fuel as [|fuel]; [cbn [length] in Hl; lia|]); cbn [rep app].
  - unfold re_flag1. rewrite pkl_cons_0. cbn [rbind]. rewrite Hr0. replace (192 <=? r0) with false by lia.
    cbn [rbind]. reflexivity.
  - unfold re_flag1 at 1. rewrite pkl_cons_0. cbn [rbind]. rewrite Hc. cbn [rbind]. change (1 <=? 0) with false. cbv iota.
    rewrite skipz_1_cons. rewrite IH by (cbn [length] in Hl; lia). cbn [rbind]. rewrite len_cons. reflexivity.
Qed.

(* the flags loop consumes exactly flags in front of r0 :: rest *)
Definition flags_run (flags : list Z) (r0 : Z) (rest : list Z) : Prop :=
  forall fuel, (length flags < fuel)%nat -> rep (re_flag1 id_cont) fuel (flags ++ r0 :: rest) = Ok (len flags).

Lemma regexp_tok_lit_gen body flags r0 rest : re_body false body -> flags_run flags r0 rest ->
  regexp_tok id_cont (47 :: body ++ 47 :: flags ++ r0 :: rest) = Ok (len (47 :: body ++ 47 :: flags), true).
Proof.
  intros Hb Hf. unfold regexp_tok. rewrite skipz_1_cons.
  rewrite (re_loop_body false body Hb) by (cbn [length]; rewrite app_length; lia). cbn [rbind].
  replace (skipz (1 + (len body + 1)) (47 :: body ++ 47 :: flags ++ r0 :: rest)) with (flags ++ r0 :: rest).
  2:{ assert (E : 47 :: body ++ 47 :: flags ++ r0 :: rest = (47 :: body ++ [47]) ++ flags ++ r0 :: rest)
        by (cbn [app]; rewrite <- app_assoc; reflexivity).
      rewrite E. replace (1 + (len body + 1)) with (len (47 :: body ++ [47])) by (rewrite len_cons, len_app; reflexivity).
      symmetry. apply skipz_app_exact. }
  unfold repl. rewrite Hf; [|rewrite app_length; cbn [length]; lia]. cbn [rbind].
  f_equal. f_equal. rewrite !len_cons, !len_app, !len_cons. lia.
Qed.

Lemma regexp_tok_lit body flags r0 rest : re_body false body ->
  Forall (fun c => tab_cont c = true) flags -> tab_cont r0 = false -> r0 < 192 ->
  regexp_tok id_cont (47 :: body ++ 47 :: flags ++ r0 :: rest) = Ok (len (47 :: body ++ 47 :: flags), true).
Proof.
  intros Hb Hf Hr0 Hr1. apply regexp_tok_lit_gen; [assumption|]. intros fuel Hl. apply flags_loop; assumption.
Qed.

Definition re_lit (body flags : list Z) : list Z := 47 :: body ++ 47 :: flags.

Lemma slice_mid {A} (pre mid post : list A) :
  slice (pre ++ mid ++ post) (len pre) (len pre + len mid) = mid.
Proof.
  unfold slice. rewrite skipz_app_exact. replace (len pre + len mid - len pre) with (len mid) by lia.
  apply firstz_app_exact.
Qed.

Lemma peekz_mid pre mid post i : 0 <= i < len mid ->
  peekz (pre ++ mid ++ post) (len pre + i) = peekz mid i.
Proof.
  intros H. rewrite peekz_app_r by lia. replace (len pre + i - len pre) with i by lia.
  apply peekz_app_l. assumption.
Qed.

Lemma peekz_0 a t : peekz (a :: t) 0 = Some a.
Proof.
  unfold peekz. rewrite len_cons. pose proof (len_nonneg t).
  replace (0 <? 1 + len t) with true by lia. reflexivity.
Qed.

Lemma peekz_1 a b t : peekz (a :: b :: t) 1 = Some b.
Proof.
  unfold peekz. rewrite !len_cons. pose proof (len_nonneg t).
  replace (1 <? 1 + (1 + len t)) with true by lia. reflexivity.
Qed.

(* RegExp() with the cursor k bytes after the '/' that starts the literal: k = 1 after a '/' token,
   k = 2 after a '/=' token *)
Lemma regexp_at_gen pre body flags r0 rest0 s k :
  re_body false body -> flags_run flags r0 rest0 ->
  wfl (r0 :: rest0) ->
  lbuf (jcur s) = pre ++ re_lit body flags ++ r0 :: rest0 ->
  lpos (jcur s) = len pre + k -> k = 1 \/ (k = 2 /\ exists body', body = 61 :: body') ->
  exists s2, regexp id_cont s = Ok ((RegExpToken, Some (re_lit body flags)), s2) /\
    lpos (jcur s2) = len pre + len (re_lit body flags) /\ lstart (jcur s2) = lpos (jcur s2) /\
    lbuf (jcur s2) = lbuf (jcur s).
Proof.
  intros Hb Hf Hwr Hbuf Hpos Hk. destruct s as [z e0 plt0 pnl0 lev tl]. cbn [jcur] in *.
  set (lit := re_lit body flags) in *.
  assert (Hlit : 2 <= len lit) by (unfold lit, re_lit; rewrite len_cons, len_app, len_cons; pose proof (len_nonneg body); pose proof (len_nonneg flags); lia).
  pose proof (len_nonneg pre) as Hpre.
  set (s0 := mkJst z e0 plt0 pnl0 lev tl).
  assert (Tail : exists s2,
    (x <-- regexp_tok id_cont (suffix (skip (mv z (- k)))) ;;
      (let (n, ok) := x in
       if ok then emit s0 (mv (skip (mv z (- k))) n) RegExpToken
       else Ok (ErrorToken, None, set_cur (set_err s0 ERegExp) (mv (skip (mv z (- k))) n)))) =
    Ok (RegExpToken, Some lit, s2) /\
    lpos (jcur s2) = len pre + len lit /\ lstart (jcur s2) = lpos (jcur s2) /\ lbuf (jcur s2) = pre ++ lit ++ r0 :: rest0).
  { set (z2 := skip (mv z (- k))).
    assert (Hs2 : suffix z2 = lit ++ r0 :: rest0).
    { unfold suffix, z2, skip, mv. cbn [lbuf lpos]. rewrite Hbuf. replace (lpos z + - k) with (len pre) by lia.
      apply skipz_app_exact. }
    rewrite Hs2. unfold lit, re_lit. cbn [app]. rewrite <- app_assoc. cbn [app].
    rewrite (regexp_tok_lit_gen body flags r0 rest0 Hb Hf). cbn [rbind].
    fold (re_lit body flags). fold lit.
    unfold emit, shift, lexeme.
    assert (Hz3 : lbuf (mv z2 (len lit)) = pre ++ lit ++ r0 :: rest0 /\ lstart (mv z2 (len lit)) = len pre /\ lpos (mv z2 (len lit)) = len pre + len lit).
    { unfold z2, mv, skip. cbn [lbuf lpos lstart]. split; [assumption|]. lia. }
    destruct Hz3 as (B1 & B2 & B3). rewrite B1, B2, B3.
    unfold slice_ok. rewrite !len_app.
    replace (0 <=? len pre) with true by lia. replace (len pre <=? len pre + len lit) with true by lia.
    replace (len pre + len lit <=? len pre + (len lit + len (r0 :: rest0))) with true by (pose proof (len_nonneg (r0 :: rest0)); lia).
    cbn [andb]. rewrite slice_mid.
    eexists. split; [reflexivity|]. cbn [jcur set_cur skip lbuf lpos lstart]. rewrite B3. split; [reflexivity|]. split; [reflexivity|].
    rewrite B1. unfold lit, re_lit. cbn [app]. rewrite <- app_assoc. reflexivity. }
  unfold regexp. cbv zeta. change (jcur s0) with z. unfold pk. rewrite Hbuf, Hpos.
  destruct Hk as [->|(-> & body' & ->)].
  - replace (0 <? len pre + 1) with true by lia.
    replace (len pre + 1 + -1) with (len pre + 0) by lia. rewrite peekz_mid by lia.
    unfold lit at 1, re_lit. rewrite peekz_0. cbn [rbind]. change (47 =? 47) with true. cbv iota. cbn [rbind].
    change (1 =? 0) with false. cbv iota. exact Tail.
  - replace (0 <? len pre + 2) with true by lia. replace (1 <? len pre + 2) with true by lia.
    replace (len pre + 2 + -1) with (len pre + 1) by lia. replace (len pre + 2 + -2) with (len pre + 0) by lia.
    rewrite !peekz_mid by (try lia; unfold lit, re_lit in *; rewrite !len_cons in *; lia).
    unfold lit at 1 2 3, re_lit. cbn [app]. rewrite peekz_0, peekz_1. cbn [rbind].
    change (61 =? 47) with false. cbv iota. cbn [rbind]. change (61 =? 61) with true. cbv iota. cbn [rbind].
    change (47 =? 47) with true. cbv iota. cbn [rbind]. change (2 =? 0) with false. cbv iota. exact Tail.
Qed.

Lemma regexp_at pre body flags r0 rest0 s k :
  re_body false body -> Forall (fun c => tab_cont c = true) flags -> tab_cont r0 = false -> r0 < 192 ->
  wfl (r0 :: rest0) ->
  lbuf (jcur s) = pre ++ re_lit body flags ++ r0 :: rest0 ->
  lpos (jcur s) = len pre + k -> k = 1 \/ (k = 2 /\ exists body', body = 61 :: body') ->
  exists s2, regexp id_cont s = Ok ((RegExpToken, Some (re_lit body flags)), s2) /\
    lpos (jcur s2) = len pre + len (re_lit body flags) /\ lstart (jcur s2) = lpos (jcur s2) /\
    lbuf (jcur s2) = lbuf (jcur s).
Proof.
  intros Hb Hf Hr0 Hr1. apply regexp_at_gen; [assumption|]. intros fuel Hl. apply flags_loop; assumption.
Qed.

Lemma re_body_head body : re_body false body -> hd 0 body <> 47.
Proof.
  intros H. inversion H; subst; cbn [hd]; try lia;
    match goal with Hx : false = false -> _ |- _ => apply Hx; reflexivity end.
Qed.

(* split on the first "if" of the goal; one side is contradictory *)
Ltac pick :=
  match goal with
  | |- context [if ?b then _ else _] =>
      let E := fresh "Ep" in destruct b eqn:E; [try (exfalso; lia)|try (exfalso; lia)]
  end.

(* Next on the '/' that starts the literal: '/' or, when the body starts with '=', '/=' *)
Lemma next_slash pre b0 t0 T s :
  b0 <> 42 -> b0 <> 47 ->
  lbuf (jcur s) = pre ++ 47 :: b0 :: t0 :: T -> lpos (jcur s) = len pre -> lstart (jcur s) = len pre ->
  exists t1 s1 k, next id_start id_cont is_zs s = Ok (t1, s1) /\
    lbuf (jcur s1) = lbuf (jcur s) /\ lpos (jcur s1) = len pre + k /\
    ((k = 1 /\ t1 = (DivToken, Some [47]) /\ b0 <> 61) \/ (k = 2 /\ t1 = (DivEqToken, Some [47; 61]) /\ b0 = 61)).
Proof.
  intros H42 H47 Hbuf Hpos Hst. destruct s as [z e0 plt0 pnl0 lev tl]. cbn [jcur] in *.
  assert (Hsuf : suffix z = 47 :: b0 :: t0 :: T).
  { unfold suffix. rewrite Hbuf, Hpos. apply skipz_app_exact. }
  pose proof (len_nonneg pre) as Hpre.
  (* the two possible results of the final Shift *)
  assert (Hemit : forall s1 n ty, 0 <= n <= 2 ->
    emit s1 (mv z n) ty = Ok ((ty, Some (firstz n (47 :: b0 :: t0 :: T))), set_cur s1 (skip (mv z n)))).
  { intros s1 n ty Hn. unfold emit, shift, lexeme, slice_ok, mv. cbn [lbuf lstart lpos].
    rewrite Hbuf, Hpos, Hst. rewrite len_app, !len_cons. pose proof (len_nonneg T).
    replace (0 <=? len pre) with true by lia. replace (len pre <=? len pre + n) with true by lia.
    replace (len pre + n <=? len pre + (1 + (1 + (1 + len T)))) with true by lia. cbn [andb].
    unfold slice. rewrite skipz_app_exact. replace (len pre + n - len pre) with n by lia. reflexivity. }
  unfold next. cbv zeta. cbn [jcur jerr jplt jpnl jlevel jtl]. rewrite Hsuf.
  remember 47 as c eqn:Hc. rewrite pkl_cons_0. cbn [rbind].
  unfold is_op_start. repeat pick.
  unfold comment. rewrite pkl_1. cbn [rbind]. repeat pick. cbn [rbind].
  change (negb (ErrorToken =? ErrorToken) || negb (ENone =? ENone)) with false. cbv iota.
  rewrite mv_0. unfold op_or_err. rewrite Hsuf. try rewrite <- Hc.
  unfold op. rewrite pkl_cons_0, pkl_1. cbn [rbind].
  destruct (Z.eqb_spec b0 61) as [E61|E61].
  - (* "/=" *)
    replace (negb (c =? 126)) with true by lia. replace (negb (c =? 63)) with true by lia. cbn [andb].
    rewrite pkl_2. cbn [rbind].
    replace ((c =? 33) || (c =? 61)) with false by lia. rewrite andb_false_r.
    subst c. change (lookup_op js_op_eq_tokens 47) with DivEqToken. cbn [rbind].
    change (negb (DivEqToken =? ErrorToken)) with true. cbv iota.
    rewrite Hemit by lia. eexists _, _, 2. split; [reflexivity|]. cbn [jcur set_cur skip mv lbuf lpos].
    split; [reflexivity|]. split; [lia|]. right. subst b0. auto.
  - (* "/" *)
    cbn [andb]. pick. pick. cbn [rbind]. cbv iota. pick. pick.
    subst c. change (lookup_op js_op_tokens 47) with DivToken. cbn [rbind].
    change (negb (DivToken =? ErrorToken)) with true. cbv iota.
    rewrite Hemit by lia. eexists _, _, 1. split; [reflexivity|]. cbn [jcur set_cur skip mv lbuf lpos].
    split; [reflexivity|]. split; [lia|]. left. auto.
Qed.

(* the whole clause: Next returns '/' (or '/=' when the body starts with '='), and RegExp() then
   returns the literal as one RegExpToken and leaves the cursor right behind it *)
Lemma regexp_reread_proof pre body flags r0 rest0 s :
  re_body false body -> body <> [] -> hd 0 body <> 42 ->
  Forall (fun c => tab_cont c = true) flags -> tab_cont r0 = false -> r0 < 192 -> wfl (r0 :: rest0) ->
  lbuf (jcur s) = pre ++ re_lit body flags ++ r0 :: rest0 ->
  lpos (jcur s) = len pre -> lstart (jcur s) = len pre ->
  exists t1 s1 s2,
    next id_start id_cont is_zs s = Ok (t1, s1) /\
    (t1 = (DivToken, Some [47]) \/ t1 = (DivEqToken, Some [47; 61])) /\
    regexp id_cont s1 = Ok ((RegExpToken, Some (re_lit body flags)), s2) /\
    lpos (jcur s2) = len pre + len (re_lit body flags) /\ lstart (jcur s2) = lpos (jcur s2).
Proof.
  intros Hb Hne H42 Hf Hr0 Hr1 Hwr Hbuf Hpos Hst.
  pose proof (re_body_head _ Hb) as H47.
  destruct body as [|b0 body']; [congruence|]. cbn [hd] in *.
  (* the byte after b0 exists: the rest of the body or the closing '/' *)
  assert (HT : exists t0 T, body' ++ 47 :: flags ++ r0 :: rest0 = t0 :: T).
  { destruct body' as [|x body'']; cbn [app]; eauto. }
  destruct HT as (t0 & T & HT).
  assert (Hbuf' : lbuf (jcur s) = pre ++ 47 :: b0 :: t0 :: T).
  { rewrite Hbuf. unfold re_lit. cbn [app]. rewrite <- app_assoc. cbn [app]. rewrite HT. reflexivity. }
  destruct (next_slash pre b0 t0 T s H42 H47 Hbuf' Hpos Hst) as (t1 & s1 & k & Hn & Hb1 & Hp1 & Hk).
  assert (Hk' : k = 1 \/ (k = 2 /\ exists b', b0 :: body' = 61 :: b')).
  { destruct Hk as [(-> & _ & _)|(-> & _ & ->)]; [left; reflexivity|right; split; [reflexivity|eauto]]. }
  destruct (regexp_at pre (b0 :: body') flags r0 rest0 s1 k Hb Hf Hr0 Hr1 Hwr ltac:(congruence) Hp1 Hk')
    as (s2 & Hre & Hp2 & Hs2 & _).
  exists t1, s1, s2. split; [assumption|]. split; [|split; [assumption|split; assumption]].
  destruct Hk as [(_ & -> & _)|(_ & -> & _)]; auto.
Qed.

(* non-vacuity: /[/]\/=/g and /=[\]/]+/ are well-formed bodies *)
Example ex_re_body1 : re_body false [91; 47; 93; 92; 47; 61].
Proof.
  apply rb_open. apply rb_plain; try lia; try reflexivity; try discriminate.
  apply rb_close. apply rb_esc; try lia; try reflexivity.
  apply rb_plain; try lia; try reflexivity. apply rb_nil.
Qed.

End Regexp.
