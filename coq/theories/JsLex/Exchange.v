(* JsLex/Exchange.v — exchange lemmas: a scanner that consumed exactly the prefix T of T ++ R consumes
   exactly T of T ++ R' when R' starts with a byte that stops the scan (a "safe follower") and T has no
   truncated multi-byte sequence.  Generalises the restriction lemmas of Relex.v (R' = [0]); used for
   token sequences. *)
From Verif Require Import Common.Base Common.Tactics Common.Lx Gen.Tables
  JsLex.Model JsLex.Lemmas JsLex.Total JsLex.Next JsLex.Canon JsLex.Comment JsLex.Relex.
From Coq Require Import ZifyBool.

(* a positive step inside A gives the same result in front of R' *)
Definition local_to (R' : list Z) (f : list Z -> res Z) : Prop :=
  forall A R k, no_trunc A = true -> R <> [] -> f (A ++ R) = Ok k -> 0 < k <= len A -> f (A ++ R') = Ok k.
(* declining inside A (A not empty) does not depend on what follows A *)
Definition stops_to (R' : list Z) (f : list Z -> res Z) : Prop :=
  forall A R, A <> [] -> R <> [] -> f (A ++ R) = Ok 0 -> f (A ++ R') = Ok 0.

Ltac xfer2 E R' :=
  match type of E with
  | pkl (?A ++ ?R) ?i = Ok ?c =>
      let H := fresh "X" in
      assert (H : pkl (A ++ R') i = Ok c) by (apply (pkl_pre A R i c E); lia);
      rewrite H; cbn [rbind]
  end.

Lemma no_trunc_skipz' n A : no_trunc A = true -> 0 <= n -> no_trunc (skipz n A) = true.
Proof. apply no_trunc_skipz. Qed.

Lemma rep_exchange_all f R' : local_to R' f -> f R' = Ok 0 -> nonneg f ->
  forall fuel A R, no_trunc A = true -> R <> [] -> rep f fuel (A ++ R) = Ok (len A) ->
  forall fuel', (length A < fuel')%nat -> rep f fuel' (A ++ R') = Ok (len A).
Proof.
  intros Hl Hs Hn. induction fuel as [|fuel IH]; intros A R HA HR H fuel' Hf; [discriminate|].
  destruct fuel' as [|fuel']; [lia|]. cbn [rep] in *.
  destruct (f (A ++ R)) as [k| |] eqn:Ek; cbn [rbind] in H; try discriminate.
  destruct (Z.leb_spec k 0) as [Hk|Hk].
  - assert (len A = 0) by congruence. destruct A; [|rewrite len_cons in *; pose proof (len_nonneg A); lia].
    cbn [app]. rewrite Hs. cbn [rbind]. reflexivity.
  - destruct (rep f fuel (skipz k (A ++ R))) as [m| |] eqn:Er; cbn [rbind] in H; try discriminate.
    assert (Hm : len A = k + m) by congruence. pose proof (rep_nonneg f Hn _ _ _ Er) as Hm0.
    rewrite (Hl A R k HA HR Ek) by lia. cbn [rbind]. replace (k <=? 0) with false by lia.
    rewrite skipz_app_le in * by lia.
    rewrite (IH (skipz k A) R (no_trunc_skipz' k A HA ltac:(lia)) HR) with (fuel' := fuel').
    + cbn [rbind]. rewrite len_skipz by lia. f_equal. lia.
    + rewrite len_skipz by lia. rewrite Er. f_equal. lia.
    + pose proof (length_skipz_lt k A Hk). destruct A; [change (len (@nil Z)) with 0 in *; lia|].
      specialize (H0 ltac:(discriminate)). lia.
Qed.

Lemma rep_exchange_part f R' : local_to R' f -> stops_to R' f -> nonneg f ->
  forall fuel A R m, no_trunc A = true -> R <> [] -> rep f fuel (A ++ R) = Ok m -> m < len A ->
  forall fuel', (length A < fuel')%nat -> rep f fuel' (A ++ R') = Ok m.
Proof.
  intros Hl Hs Hn. induction fuel as [|fuel IH]; intros A R m HA HR H Hm fuel' Hf; [discriminate|].
  destruct fuel' as [|fuel']; [lia|]. cbn [rep] in *.
  destruct (f (A ++ R)) as [k| |] eqn:Ek; cbn [rbind] in H; try discriminate.
  pose proof (Hn _ _ Ek) as Hk0.
  destruct (Z.leb_spec k 0) as [Hk|Hk].
  - assert (k = 0) by lia. subst k. assert (m = 0) by congruence. subst m.
    rewrite (Hs A R ltac:(apply len_pos_nonempty; lia) HR Ek). cbn [rbind]. reflexivity.
  - destruct (rep f fuel (skipz k (A ++ R))) as [m'| |] eqn:Er; cbn [rbind] in H; try discriminate.
    assert (Hmm : m = k + m') by congruence. pose proof (rep_nonneg f Hn _ _ _ Er) as Hm0.
    rewrite (Hl A R k HA HR Ek) by lia. cbn [rbind]. replace (k <=? 0) with false by lia.
    rewrite skipz_app_le in * by lia.
    rewrite (IH (skipz k A) R m' (no_trunc_skipz' k A HA ltac:(lia)) HR) with (fuel' := fuel').
    + cbn [rbind]. f_equal. lia.
    + assumption.
    + rewrite len_skipz by lia. lia.
    + pose proof (length_skipz_lt k A Hk). destruct A; [change (len (@nil Z)) with 0 in *; lia|].
      specialize (H0 ltac:(discriminate)). lia.
Qed.

(* with the whole sequence inside A, PeekRune does not depend on what follows A *)
Lemma peek_rune_local2 A R R' r n : no_trunc A = true -> A <> [] ->
  peek_rune (A ++ R) = Ok (r, n) -> R <> [] -> R' <> [] ->
  peek_rune (A ++ R') = Ok (r, n) /\ n <= len A.
Proof.
  intros HA HAne H HR HR'. unfold peek_rune in *.
  assert (HlenR' : 1 <= len R') by (apply nonempty_len; assumption).
  assert (HlenR : 1 <= len R) by (apply nonempty_len; assumption).
  rewrite !len_app in *.
  destruct A as [|c A]; [congruence|].
  cbn [no_trunc] in HA. apply andb_true_iff in HA. destruct HA as (Hc & _).
  cbn [app] in *. rewrite pkl_cons_0 in H |- *. cbn [rbind] in *. rewrite len_cons in *.
  pose proof (len_nonneg A) as HA.
  destruct (c <? 192) eqn:E192; [split; [assumption|]; assert (n = 1) by congruence; lia|].
  destruct (c <? 224) eqn:E224.
  - replace (1 + len A + len R - 1 <? 2) with false in H by lia. replace (1 + len A + len R' - 1 <? 2) with false by lia.
    cbn [orb] in *.
    destruct (pkl (c :: A ++ R) 1) as [c1| |] eqn:E1; cbn [rbind] in H; try discriminate.
    change (c :: A ++ R) with ((c :: A) ++ R) in E1. change (c :: A ++ R') with ((c :: A) ++ R').
    rewrite (pkl_pre _ _ _ _ E1) by (rewrite len_cons; lia). split; [exact H|]. assert (n = 2) by congruence. lia.
  - destruct (c <? 240) eqn:E240.
    + replace (1 + len A + len R - 1 <? 2) with false in H by lia. replace (1 + len A + len R' - 1 <? 2) with false by lia.
      replace (1 + len A + len R - 1 <? 3) with false in H by lia. replace (1 + len A + len R' - 1 <? 3) with false by lia.
      cbn [orb] in *.
      destruct (pkl (c :: A ++ R) 1) as [c1| |] eqn:E1; cbn [rbind] in H; try discriminate.
      destruct (pkl (c :: A ++ R) 2) as [c2| |] eqn:E2; cbn [rbind] in H; try discriminate.
      change (c :: A ++ R) with ((c :: A) ++ R) in E1, E2. change (c :: A ++ R') with ((c :: A) ++ R').
      rewrite (pkl_pre _ _ _ _ E1), (pkl_pre _ _ _ _ E2) by (rewrite len_cons; lia).
      split; [exact H|]. assert (n = 3) by congruence. lia.
    + replace (1 + len A + len R - 1 <? 2) with false in H by lia. replace (1 + len A + len R' - 1 <? 2) with false by lia.
      replace (1 + len A + len R - 1 <? 3) with false in H by lia. replace (1 + len A + len R' - 1 <? 3) with false by lia.
      replace (1 + len A + len R - 1 <? 4) with false in H by lia. replace (1 + len A + len R' - 1 <? 4) with false by lia.
      cbn [orb] in *.
      destruct (pkl (c :: A ++ R) 1) as [c1| |] eqn:E1; cbn [rbind] in H; try discriminate.
      destruct (pkl (c :: A ++ R) 2) as [c2| |] eqn:E2; cbn [rbind] in H; try discriminate.
      destruct (pkl (c :: A ++ R) 3) as [c3| |] eqn:E5; cbn [rbind] in H; try discriminate.
      change (c :: A ++ R) with ((c :: A) ++ R) in E1, E2, E5. change (c :: A ++ R') with ((c :: A) ++ R').
      rewrite (pkl_pre _ _ _ _ E1), (pkl_pre _ _ _ _ E2), (pkl_pre _ _ _ _ E5) by (rewrite len_cons; lia).
      split; [exact H|]. assert (n = 4) by congruence. lia.
Qed.

Section Steps2x.
Variables (id_start id_cont is_zs : Z -> bool).
Variable R' : list Z.
Hypothesis HR' : R' <> [].

Lemma ws1_local2 : local_to R' (ws1 is_zs).
Proof.
  intros A R k HA HR H Hk. unfold ws1 in *.
  destruct A as [|c A]; [change (len (@nil Z)) with 0 in Hk; lia|].
  assert (Hne : c :: A <> []) by discriminate.
  cbn [app] in *. rewrite pkl_cons_0 in H |- *. cbn [rbind] in *.
  destruct ((c =? 32) || (c =? 9) || (c =? 11) || (c =? 12)); [assumption|].
  destruct (192 <=? c); [|congruence].
  destruct (peek_rune (c :: A ++ R)) as [[r n]| |] eqn:Er; cbn [rbind] in H; try discriminate.
  change (c :: A ++ R) with ((c :: A) ++ R) in Er. change (c :: A ++ R') with ((c :: A) ++ R').
  destruct (peek_rune_local2 _ _ R' _ _ HA Hne Er HR HR') as (Er' & _). rewrite Er'. exact H.
Qed.

Lemma byte_local2 (p : Z -> bool) : local_to R' (fun l => c <-- pkl l 0 ;; Ok (if p c then 1 else 0)).
Proof.
  intros A R k HA HR H Hk. destruct A as [|c A]; [change (len (@nil Z)) with 0 in Hk; lia|]. cbn [app] in *. exact H.
Qed.

Lemma bs_local2 f : is_byte_step f -> local_to R' f.
Proof. intros (p & _ & ->). apply byte_local2. Qed.

Lemma bs_stops2 f : is_byte_step f -> stops_to R' f.
Proof.
  intros (p & _ & ->) A R HA HR H. destruct A as [|c A]; [congruence|]. cbn [app] in *. exact H.
Qed.

Lemma uesc_local2 : local_to R' uesc.
Proof.
  intros A R k HAnt HR H Hk. unfold uesc in H. 
  destruct (pkl (A ++ R) 0) as [c0| |] eqn:E0; cbn [rbind] in H; try discriminate.
  destruct (negb (c0 =? 92)) eqn:N0; [assert (k = 0) by congruence; lia|].
  destruct (pkl (A ++ R) 1) as [c1| |] eqn:E1; cbn [rbind] in H; try discriminate.
  destruct (negb (c1 =? 117)) eqn:N1; [assert (k = 0) by congruence; lia|].
  rewrite pkl_skipz in H by lia.
  destruct (pkl (A ++ R) (2 + 0)) as [c2| |] eqn:E2; cbn [rbind] in H; try discriminate.
  pose proof (len_nonneg A) as HA.
  destruct (c2 =? 123) eqn:B2.
  - rewrite !skipz_skipz in H by lia. 
    destruct (hex1 (skipz (2 + 1) (A ++ R))) as [h| |] eqn:Eh; cbn [rbind] in H; try discriminate.
    destruct (0 <? h) eqn:Bh; [|assert (k = 0) by congruence; lia].
    destruct (repl hex1 (skipz (2 + 1 + 1) (A ++ R))) as [m| |] eqn:Em; cbn [rbind] in H; try discriminate.
    pose proof (rep_nonneg hex1 hex1_nonneg _ _ _ Em) as Hm0.
    rewrite !pkl_skipz in H by lia.
    match type of H with context [pkl (A ++ R) ?i] =>
      destruct (pkl (A ++ R) i) as [c3| |] eqn:E3; cbn [rbind] in H; try discriminate end.
    destruct (c3 =? 125) eqn:B3; [|assert (k = 0) by congruence; lia].
    assert (Hk5 : k = 2 + 1 + 1 + m + 1) by congruence.
    unfold uesc. xfer2 E0 R'. rewrite N0. xfer2 E1 R'. rewrite N1. rewrite pkl_skipz by lia. xfer2 E2 R'. rewrite B2.
    rewrite !skipz_skipz by lia.
    rewrite skipz_app_le in Eh by lia. rewrite skipz_app_le by lia.
    pose proof (bs_bit hex1 hex1_bs _ _ Eh) as Hh.
    rewrite (bs_local2 hex1 hex1_bs _ _ _ (no_trunc_skipz' (2 + 1) A HAnt ltac:(lia)) HR Eh) by (rewrite len_skipz by lia; lia). cbn [rbind]. rewrite Bh.
    rewrite skipz_app_le by lia. unfold repl in *. rewrite skipz_app_le in Em by lia.
    rewrite (rep_exchange_part hex1 R' (bs_local2 _ hex1_bs) (bs_stops2 _ hex1_bs) hex1_nonneg _ _ _ _ (no_trunc_skipz' (2 + 1 + 1) A HAnt ltac:(lia)) HR Em).
    + cbn [rbind]. rewrite <- skipz_app_le by lia. rewrite !pkl_skipz by lia. xfer2 E3 R'. rewrite B3. f_equal. lia.
    + rewrite len_skipz by lia. lia.
    + rewrite app_length. pose proof (nonempty_len R' HR'). unfold len in *. lia.
  - destruct (hex1 (skipz 2 (A ++ R))) as [h1| |] eqn:Eh1; cbn [rbind] in H; try discriminate.
    destruct (h1 =? 0) eqn:B1; [assert (k = 0) by congruence; lia|].
    rewrite !skipz_skipz in H by lia.
    destruct (hex1 (skipz (2 + 1) (A ++ R))) as [h2| |] eqn:Eh2; cbn [rbind] in H; try discriminate.
    destruct (h2 =? 0) eqn:B2'; [assert (k = 0) by congruence; lia|].
    destruct (hex1 (skipz (2 + 2) (A ++ R))) as [h3| |] eqn:Eh3; cbn [rbind] in H; try discriminate.
    destruct (h3 =? 0) eqn:B3'; [assert (k = 0) by congruence; lia|].
    destruct (hex1 (skipz (2 + 3) (A ++ R))) as [h4| |] eqn:Eh4; cbn [rbind] in H; try discriminate.
    destruct (h4 =? 0) eqn:B4'; [assert (k = 0) by congruence; lia|].
    assert (k = 6) by congruence. subst k.
    pose proof (bs_bit hex1 hex1_bs _ _ Eh1). pose proof (bs_bit hex1 hex1_bs _ _ Eh2).
    pose proof (bs_bit hex1 hex1_bs _ _ Eh3). pose proof (bs_bit hex1 hex1_bs _ _ Eh4).
    unfold uesc. xfer2 E0 R'. rewrite N0. xfer2 E1 R'. rewrite N1. rewrite pkl_skipz by lia. xfer2 E2 R'. rewrite B2.
    rewrite !skipz_skipz by lia.
    rewrite skipz_app_le in Eh1, Eh2, Eh3, Eh4 by lia. rewrite !skipz_app_le by lia.
    rewrite (bs_local2 hex1 hex1_bs _ _ _ (no_trunc_skipz' 2 A HAnt ltac:(lia)) HR Eh1) by (rewrite len_skipz by lia; lia). cbn [rbind]. rewrite B1.
    rewrite (bs_local2 hex1 hex1_bs _ _ _ (no_trunc_skipz' (2 + 1) A HAnt ltac:(lia)) HR Eh2) by (rewrite len_skipz by lia; lia). cbn [rbind]. rewrite B2'.
    rewrite (bs_local2 hex1 hex1_bs _ _ _ (no_trunc_skipz' (2 + 2) A HAnt ltac:(lia)) HR Eh3) by (rewrite len_skipz by lia; lia). cbn [rbind]. rewrite B3'.
    rewrite (bs_local2 hex1 hex1_bs _ _ _ (no_trunc_skipz' (2 + 3) A HAnt ltac:(lia)) HR Eh4) by (rewrite len_skipz by lia; lia). cbn [rbind]. rewrite B4'.
    reflexivity.
Qed.


Lemma ident_start_local2 : local_to R' (ident_start id_start).
Proof.
  intros A R k HA HR H Hk. unfold ident_start in *.
  destruct A as [|c A]; [change (len (@nil Z)) with 0 in Hk; lia|].
  assert (Hne : c :: A <> []) by discriminate.
  cbn [app] in *. rewrite pkl_cons_0 in H |- *. cbn [rbind] in *.
  destruct (tab_start c); [assumption|].
  destruct (192 <=? c).
  - destruct (peek_rune (c :: A ++ R)) as [[r n]| |] eqn:Er; cbn [rbind] in H; try discriminate.
    change (c :: A ++ R) with ((c :: A) ++ R) in Er. change (c :: A ++ R') with ((c :: A) ++ R').
    destruct (peek_rune_local2 _ _ R' _ _ HA Hne Er HR HR') as (Er' & _). rewrite Er'. exact H.
  - change (c :: A ++ R') with ((c :: A) ++ R'). change (c :: A ++ R) with ((c :: A) ++ R) in H.
    apply (uesc_local2 (c :: A) R k HA HR H Hk).
Qed.

Lemma ident_cont1_local2 : local_to R' (ident_cont1 id_cont).
Proof.
  intros A R k HA HR H Hk. unfold ident_cont1 in *.
  destruct A as [|c A]; [change (len (@nil Z)) with 0 in Hk; lia|].
  assert (Hne : c :: A <> []) by discriminate.
  cbn [app] in *. rewrite pkl_cons_0 in H |- *. cbn [rbind] in *.
  destruct (tab_cont c); [assumption|].
  destruct (192 <=? c).
  - destruct (peek_rune (c :: A ++ R)) as [[r n]| |] eqn:Er; cbn [rbind] in H; try discriminate.
    change (c :: A ++ R) with ((c :: A) ++ R) in Er. change (c :: A ++ R') with ((c :: A) ++ R').
    destruct (peek_rune_local2 _ _ R' _ _ HA Hne Er HR HR') as (Er' & _). rewrite Er'. exact H.
  - change (c :: A ++ R') with ((c :: A) ++ R'). change (c :: A ++ R) with ((c :: A) ++ R) in H.
    apply (uesc_local2 (c :: A) R k HA HR H Hk).
Qed.

(* consumeLineTerminator: a lone CR must not be followed by LF *)
Lemma lt1_local2 : hd 0 R' <> 10 -> local_to R' lt1.
Proof.
  intros Hh A R k HA HR H Hk. unfold lt1, ls_ps in *.
  destruct A as [|c A]; [change (len (@nil Z)) with 0 in Hk; lia|]. cbn [app] in *. rewrite pkl_cons_0 in H |- *. cbn [rbind] in *.
  rewrite len_cons in Hk.
  destruct (c =? 10); [assumption|].
  destruct (c =? 13).
  - destruct A as [|c1 A]; cbn [app] in *.
    + destruct R' as [|r0' R'']; [congruence|]. cbn [hd] in Hh. rewrite pkl_1. cbn [rbind].
      replace (r0' =? 10) with false by lia.
      destruct R as [|r0 R]; [congruence|]. rewrite pkl_1 in H. cbn [rbind] in H.
      destruct (r0 =? 10); [|assumption]. assert (k = 2) by congruence. change (len (@nil Z)) with 0 in Hk. lia.
    + rewrite pkl_1 in *. assumption.
  - destruct (c =? 226); [|congruence].
    destruct A as [|c1 A]; cbn [app] in *.
    + exfalso. crunch H; assert (k = 3 \/ k = 0) as [?|?] by (injection H; lia); change (len (@nil Z)) with 0 in Hk; lia.
    + rewrite pkl_1 in *. cbn [rbind] in *. destruct (c1 =? 128); [|assumption].
      destruct A as [|c2 A]; cbn [app] in *.
      * exfalso. crunch H; assert (k = 3 \/ k = 0) as [?|?] by (injection H; lia); rewrite len_cons in Hk; change (len (@nil Z)) with 0 in Hk; lia.
      * rewrite pkl_2 in *. assumption.
Qed.

(* consumeIdentifierToken *)
Lemma ident_exchange T R : no_trunc T = true -> R <> [] ->
  ident id_start id_cont (T ++ R) = Ok (len T) -> 0 < len T ->
  ident_cont1 id_cont R' = Ok 0 ->
  ident id_start id_cont (T ++ R') = Ok (len T).
Proof.
  intros HT HR H HTl Hstop. unfold ident in *.
  destruct (ident_start id_start (T ++ R)) as [n| |] eqn:En; cbn [rbind] in H; try discriminate.
  pose proof (ident_start_nonneg _ _ _ En) as Hn0.
  destruct (Z.leb_spec n 0) as [Hn|Hn]; [assert (len T = 0) by congruence; lia|].
  destruct (repl (ident_cont1 id_cont) (skipz n (T ++ R))) as [m| |] eqn:Em; cbn [rbind] in H; try discriminate.
  assert (Hlen : len T = n + m) by congruence.
  pose proof (rep_nonneg _ (ident_cont1_nonneg id_cont) _ _ _ Em) as Hm0.
  rewrite (ident_start_local2 T R n HT HR En) by lia. cbn [rbind]. replace (n <=? 0) with false by lia.
  unfold repl in *. rewrite skipz_app_le in * by lia.
  assert (Hm : m = len (skipz n T)) by (rewrite len_skipz by lia; lia).
  rewrite Hm in Em.
  rewrite (rep_exchange_all _ R' ident_cont1_local2 Hstop (ident_cont1_nonneg id_cont) _ _ _ (no_trunc_skipz' n T HT ltac:(lia)) HR Em).
  - cbn [rbind]. f_equal. lia.
  - pose proof (length_skipz_le n T). rewrite app_length. pose proof (nonempty_len R' HR'). unfold len in *. lia.
Qed.

End Steps2x.

(* --- operators: a follower that cannot extend any punctuator ---------------------------------------- *)
(* '/' may follow every punctuator but '/' itself ("//" opens a comment; SeqNext.stop_for adds that) *)
Definition op_stop (c : Z) : Prop :=
  c <> 61 /\ c <> 43 /\ c <> 45 /\ c <> 42 /\ c <> 38 /\ c <> 124 /\ c <> 63 /\ c <> 60 /\ c <> 62 /\
  c <> 46 /\ c <> 33 /\ ~ (48 <= c <= 57).

Lemma op_exchange1 t0 r0 R r0' R'' ty : op (t0 :: r0 :: R) = Ok (1, ty) -> op_stop r0' ->
  op (t0 :: r0' :: R'') = Ok (1, ty).
Proof.
  intros H Hs. unfold op_stop in Hs. unfold op in H;
    rewrite ?pkl_cons_0, ?pkl_1, ?pkl_2, ?pkl_3 in H; cbn [rbind] in H.
  crunch H; try (exfalso; match type of H with Ok (?a, _) = Ok (?b, _) => assert (a = b) by congruence; lia end);
      unfold op; rewrite ?pkl_cons_0, ?pkl_1, ?pkl_2, ?pkl_3; cbn [rbind]; repeat (pick; cbn [rbind]); congruence.
Qed.

Lemma op_exchange2 t0 t1 r0 R r0' R'' ty : op (t0 :: t1 :: r0 :: R) = Ok (2, ty) -> op_stop r0' ->
  op (t0 :: t1 :: r0' :: R'') = Ok (2, ty).
Proof.
  intros H Hs. unfold op_stop in Hs. unfold op in H;
    rewrite ?pkl_cons_0, ?pkl_1, ?pkl_2, ?pkl_3 in H; cbn [rbind] in H.
  crunch H; try (exfalso; match type of H with Ok (?a, _) = Ok (?b, _) => assert (a = b) by congruence; lia end);
      unfold op; rewrite ?pkl_cons_0, ?pkl_1, ?pkl_2, ?pkl_3; cbn [rbind]; repeat (pick; cbn [rbind]); congruence.
Qed.

Lemma op_exchange3 t0 t1 t2 r0 R r0' R'' ty : op (t0 :: t1 :: t2 :: r0 :: R) = Ok (3, ty) -> op_stop r0' ->
  op (t0 :: t1 :: t2 :: r0' :: R'') = Ok (3, ty).
Proof.
  intros H Hs. unfold op_stop in Hs. unfold op in H;
    rewrite ?pkl_cons_0, ?pkl_1, ?pkl_2, ?pkl_3 in H; cbn [rbind] in H.
  crunch H; try (exfalso; match type of H with Ok (?a, _) = Ok (?b, _) => assert (a = b) by congruence; lia end);
      unfold op; rewrite ?pkl_cons_0, ?pkl_1, ?pkl_2, ?pkl_3; cbn [rbind]; repeat (pick; cbn [rbind]); congruence.
Qed.

Lemma op_exchange4 t0 t1 t2 t3 r0 R r0' R'' ty : op (t0 :: t1 :: t2 :: t3 :: r0 :: R) = Ok (4, ty) -> op_stop r0' ->
  op (t0 :: t1 :: t2 :: t3 :: r0' :: R'') = Ok (4, ty).
Proof.
  intros H _. unfold op in *. rewrite ?pkl_cons_0, ?pkl_1, ?pkl_2, ?pkl_3 in *. exact H.
Qed.

Lemma op_len l n ty : op l = Ok (n, ty) -> 1 <= n <= 4.
Proof. intros H. unfold op in H. crunch H; injection H as <- _; lia. Qed.

Lemma op_exchange T R r0' R'' ty : R <> [] -> op (T ++ R) = Ok (len T, ty) -> op_stop r0' ->
  op (T ++ r0' :: R'') = Ok (len T, ty).
Proof.
  intros HR H Hs. destruct R as [|r0 R]; [congruence|]. clear HR.
  pose proof (op_len _ _ _ H) as Hl.
  destruct T as [|t0 [|t1 [|t2 [|t3 [|t4 T]]]]]; cbn [app] in *; rewrite ?len_cons in *;
    change (len (@nil Z)) with 0 in *; try lia.
  - replace (1 + 0) with 1 in * by lia. eapply op_exchange1; eassumption.
  - replace (1 + (1 + 0)) with 2 in * by lia. eapply op_exchange2; eassumption.
  - replace (1 + (1 + (1 + 0))) with 3 in * by lia. eapply op_exchange3; eassumption.
  - replace (1 + (1 + (1 + (1 + 0)))) with 4 in * by lia. eapply op_exchange4; eassumption.
  - pose proof (len_nonneg T). lia.
Qed.

(* a "for step() {}" loop that consumed the rest of T, started at offset k of T ++ [0] *)
Lemma repl_exchange_all f R' T k : local_to R' f -> f R' = Ok 0 -> nonneg f -> R' <> [] ->
  no_trunc T = true -> 0 <= k <= len T ->
  repl f (skipz k (T ++ [0])) = Ok (len T - k) ->
  repl f (skipz k (T ++ R')) = Ok (len T - k).
Proof.
  intros Hl Hs Hn HR' HT Hk H. unfold repl in *. rewrite skipz_app_le in * by lia.
  replace (len T - k) with (len (skipz k T)) in * by (rewrite len_skipz by lia; reflexivity).
  apply (rep_exchange_all f R' Hl Hs Hn _ _ [0] (no_trunc_skipz' k T HT ltac:(lia)) ltac:(discriminate) H).
  rewrite app_length. pose proof (nonempty_len R' HR'). unfold len in *. lia.
Qed.

Lemma op_ty_range l n ty : op l = Ok (n, ty) -> ty = ErrorToken \/ 512 < ty < 2048.
Proof.
  intros H. unfold op in H. crunch H; injection H as _ <-;
    unfold lookup_op, js_op_eq_tokens, js_op_op_eq_tokens, js_op_op_tokens, js_op_tokens;
    repeat match goal with |- context [if ?c then _ else _] => destruct c end;
    first [left; reflexivity | right; split; reflexivity].
Qed.

(* an operator token followed by a byte that cannot extend it is not the start of an HTML-like comment *)
Lemma html_decline2 plt T c R'' ty : op (T ++ [0]) = Ok (len T, ty) -> op_stop c ->
  html_comment plt (T ++ c :: R'') = Ok 0.
Proof.
  intros H Hs. unfold op_stop in Hs. pose proof (op_len _ _ _ H) as Hl.
  destruct T as [|t0 [|t1 [|t2 [|t3 [|t4 T]]]]]; cbn [app] in *; rewrite ?len_cons in *;
    change (len (@nil Z)) with 0 in *; try lia; try (pose proof (len_nonneg T); lia);
    unfold op in H; rewrite ?pkl_cons_0, ?pkl_1, ?pkl_2, ?pkl_3 in H; cbn [rbind] in H.
  - crunch H; try (exfalso; match type of H with Ok (?a, _) = Ok (?b, _) => assert (a = b) by congruence; lia end);
      unfold html_comment; rewrite ?pkl_cons_0, ?pkl_1; cbn [rbind]; repeat (pick; cbn [rbind]); reflexivity.
  - crunch H; try (exfalso; match type of H with Ok (?a, _) = Ok (?b, _) => assert (a = b) by congruence; lia end);
      unfold html_comment; rewrite ?pkl_cons_0, ?pkl_1, ?pkl_2; cbn [rbind]; repeat (pick; cbn [rbind]); reflexivity.
  - crunch H; try (exfalso; match type of H with Ok (?a, _) = Ok (?b, _) => assert (a = b) by congruence; lia end);
      unfold html_comment; rewrite ?pkl_cons_0, ?pkl_1, ?pkl_2, ?pkl_3; cbn [rbind]; repeat (pick; cbn [rbind]); reflexivity.
  - crunch H; try (exfalso; match type of H with Ok (?a, _) = Ok (?b, _) => assert (a = b) by congruence; lia end);
      unfold html_comment; rewrite ?pkl_cons_0, ?pkl_1, ?pkl_2, ?pkl_3; cbn [rbind]; repeat (pick; cbn [rbind]); reflexivity.
Qed.
