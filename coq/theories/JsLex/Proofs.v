(* JsLex/Proofs.v — C01/C02 clauses for the JS lexer model: totality, progress, sticky end,
   no over-read, tiling.  Every statement holds for all byte strings and for every
   classification of non-ASCII runes (the three Section variables). *)
From Verif Require Import Common.Base Common.Tactics Common.Lx Gen.Tables
  JsLex.Model JsLex.Lemmas JsLex.Total JsLex.Next.
From Coq Require Import ZifyBool.

(* histories of calls *)
Inductive jop := ONext | ORegExp.

Section Proofs.
Variables (id_start id_cont is_zs : Z -> bool).

Definition jstep (o : jop) (s : jst) : res (tok * jst) :=
  match o with ONext => next id_start id_cont is_zs s | ORegExp => regexp id_cont s end.

(* run a history; the tokens returned, in order *)
Fixpoint jrun (ops : list jop) (s : jst) : res (list tok * jst) :=
  match ops with
  | [] => Ok ([], s)
  | o :: rest =>
      ' (t, s1) <-- jstep o s ;;
      ' (ts, s2) <-- jrun rest s1 ;;
      Ok (t :: ts, s2)
  end.

Definition js_data (s : jst) : list Z := firstz (lx_len (jcur s)) (lbuf (jcur s)).

Lemma js_init_wf d : js_wf (js_init d).
Proof. apply lx_init_wf. Qed.

(* --- totality ------------------------------------------------------------------------------ *)
Lemma jstep_total o s : js_wf s ->
  exists t s', jstep o s = Ok (t, s') /\ js_wf s' /\ lbuf (jcur s') = lbuf (jcur s).
Proof.
  intros Hw. destruct o; cbn [jstep].
  - destruct (next_good id_start id_cont is_zs s Hw) as (t & s' & -> & H).
    exists t, s'. split; [reflexivity|]. split; [apply H|apply H].
  - destruct (regexp_good id_cont s Hw) as (t & s' & -> & H1 & H2 & _).
    exists t, s'. auto.
Qed.

Lemma jslex_total_proof s : js_wf s ->
  (exists t s', next id_start id_cont is_zs s = Ok (t, s') /\ js_wf s' /\ lbuf (jcur s') = lbuf (jcur s)) /\
  (exists t s', regexp id_cont s = Ok (t, s') /\ js_wf s' /\ lbuf (jcur s') = lbuf (jcur s)).
Proof. intros Hw. split; [apply (jstep_total ONext s Hw)|apply (jstep_total ORegExp s Hw)]. Qed.

Lemma jrun_total ops : forall s, js_wf s ->
  exists ts s', jrun ops s = Ok (ts, s') /\ js_wf s' /\ lbuf (jcur s') = lbuf (jcur s) /\ length ts = length ops.
Proof.
  induction ops as [|o rest IH]; intros s Hw; cbn [jrun].
  - exists [], s. auto.
  - destruct (jstep_total o s Hw) as (t & s1 & -> & Hw1 & Hb1). cbn [rbind].
    destruct (IH s1 Hw1) as (ts & s2 & -> & Hw2 & Hb2 & Hl). cbn [rbind].
    exists (t :: ts), s2. split; [reflexivity|]. split; [assumption|]. split; [congruence|].
    cbn [length]. lia.
Qed.

(* every history on every input: no panic, no fuel exhaustion, the cursor stays in [0, len] *)
Lemma jslex_total_run_proof d ops :
  exists ts s', jrun ops (js_init d) = Ok (ts, s') /\ length ts = length ops /\
    lbuf (jcur s') = d ++ [0] /\ 0 <= lstart (jcur s') <= lpos (jcur s') /\ lpos (jcur s') <= len d.
Proof.
  destruct (jrun_total ops (js_init d) (js_init_wf d)) as (ts & s' & H & Hw & Hb & Hl).
  exists ts, s'. split; [assumption|]. split; [assumption|]. cbn in Hb. split; [assumption|].
  destruct Hw as (_ & Hs & Hp). unfold lx_len in Hp. rewrite Hb, len_app in Hp. change (len [0]) with 1 in Hp.
  split; lia.
Qed.

(* --- progress ------------------------------------------------------------------------------ *)
Lemma jslex_progress_proof s t s' : js_wf s -> next id_start id_cont is_zs s = Ok (t, s') ->
  (fst t <> ErrorToken -> lpos (jcur s) < lpos (jcur s') <= lx_len (jcur s)) /\
  (lpos (jcur s) < lpos (jcur s') \/
   fst t = ErrorToken /\ lpos (jcur s') = lpos (jcur s) /\
   ((snd t = None /\ at_end (jcur s) = true /\ jerr s' = ENone) \/
    (snd t <> None /\ mark (jcur s) <> 0 /\ mark (jcur s') = 0))).
Proof.
  intros Hw H. destruct (next_good id_start id_cont is_zs s Hw) as (t0 & s0 & H0 & G).
  rewrite H in H0. injection H0 as <- <-. destruct G as [G1 G2 G3 G4 G5].
  assert (Hlen : lx_len (jcur s') = lx_len (jcur s)) by (unfold lx_len; rewrite G2; reflexivity).
  split.
  - intros Hne. destruct G5 as [G5|(G5 & _)]; [|congruence]. destruct G1 as (_ & _ & ?). lia.
  - destruct G5 as [G5|(E1 & E2 & [E3|(E3 & E4)])]; [left; assumption|right..].
    + split; [assumption|]. split; [assumption|]. left. assumption.
    + split; [assumption|]. split; [assumption|]. right. split; [assumption|]. split; [assumption|].
      destruct (snd t); [|congruence]. unfold mark. lia.
Qed.

(* the number of bytes not yet consumed, doubled, plus one if bytes are pending before the cursor:
   strictly decreasing with every call that does not report the end of the input *)
Definition jmeasure (s : jst) : Z :=
  2 * (lx_len (jcur s) - lpos (jcur s)) + (if mark (jcur s) =? 0 then 0 else 1).

Lemma jslex_progress_measure_proof s t s' : js_wf s -> next id_start id_cont is_zs s = Ok (t, s') ->
  jmeasure s' < jmeasure s \/
  (t = (ErrorToken, None) /\ at_end (jcur s) = true /\ js_err s' = 1 /\ jcur s' = jcur s).
Proof.
  intros Hw H. destruct (next_good id_start id_cont is_zs s Hw) as (t0 & s0 & H0 & G).
  rewrite H in H0. injection H0 as <- <-. destruct G as [G1 G2 G3 G4 G5].
  assert (Hlen : lx_len (jcur s') = lx_len (jcur s)) by (unfold lx_len; rewrite G2; reflexivity).
  unfold jmeasure. rewrite Hlen.
  destruct G5 as [G5|(E1 & E2 & [(E3 & E4 & E5)|(E3 & E4)])].
  - left. destruct (mark (jcur s') =? 0); destruct (mark (jcur s) =? 0); lia.
  - right. destruct t as [ty od]. cbn [fst snd] in *. subst. split; [reflexivity|]. split; [assumption|].
    destruct G4 as (G4 & _).
    split.
    + unfold js_err. rewrite E5. cbn [negb Z.eqb ENone]. unfold at_end in *. rewrite Hlen, E2. rewrite E4. reflexivity.
    + destruct (jcur s') as [b p st], (jcur s) as [b0 p0 st0]. cbn [lbuf lpos lstart] in *. congruence.
  - left. destruct (snd t) as [b|]; [|congruence]. destruct G4 as (G4 & _).
    replace (mark (jcur s') =? 0) with true by (unfold mark; lia).
    replace (mark (jcur s) =? 0) with false by lia. lia.
Qed.

(* --- sticky end --------------------------------------------------------------------------- *)
Lemma jslex_eof_sticky_proof s : js_wf s -> at_end (jcur s) = true ->
  exists s', next id_start id_cont is_zs s = Ok ((ErrorToken, None), s') /\
    jcur s' = jcur s /\ js_err s' = 1 /\
    next id_start id_cont is_zs s' = Ok ((ErrorToken, None), s').
Proof.
  intros Hw He.
  assert (Hone : forall s1, js_wf s1 -> at_end (jcur s1) = true ->
     next id_start id_cont is_zs s1 = Ok ((ErrorToken, None), mkJst (jcur s1) ENone false false (jlevel s1) (jtl s1))).
  { intros s1 Hw1 He1. destruct (suffix_wfl _ Hw1) as (Hwl & Hlen).
    assert (Hl1 : len (suffix (jcur s1)) = 1).
    { unfold at_end in He1. destruct Hw1 as (_ & _ & ?). lia. }
    assert (Hs : suffix (jcur s1) = [0]).
    { destruct Hwl as (d & Hd). rewrite Hd in *. rewrite len_app in Hl1. change (len [0]) with 1 in Hl1.
      destruct d; [reflexivity|]. rewrite len_cons in Hl1. pose proof (len_nonneg d). lia. }
    unfold next. cbv zeta. rewrite Hs. reflexivity. }
  rewrite (Hone s Hw He). eexists. split; [reflexivity|]. cbn [jcur]. split; [reflexivity|]. split.
  - unfold js_err. cbn [jerr jcur]. rewrite He. reflexivity.
  - rewrite Hone; [reflexivity|exact Hw|exact He].
Qed.

(* --- no over-read ---------------------------------------------------------------------------- *)
(* every slice handed out is a slice of the data (the terminator is never part of a token) *)
Lemma slice_data d lo hi : 0 <= lo <= hi -> hi <= len d -> slice (d ++ [0]) lo hi = slice d lo hi.
Proof. intros. apply slice_app_l; assumption. Qed.

Lemma jslex_no_overread_proof d s o ty b s' :
  js_wf s -> lbuf (jcur s) = d ++ [0] -> jstep o s = Ok ((ty, Some b), s') ->
  exists lo, 0 <= lo <= lpos (jcur s') /\ lpos (jcur s') <= len d /\ b = slice d lo (lpos (jcur s')) /\
    lstart (jcur s') = lpos (jcur s') /\ (o = ONext -> lo = lstart (jcur s)).
Proof.
  intros Hw Hd H.
  assert (Hlen : lx_len (jcur s) = len d).
  { unfold lx_len. rewrite Hd, len_app. change (len [0]) with 1. lia. }
  destruct o; cbn [jstep] in H.
  - destruct (next_good id_start id_cont is_zs s Hw) as (t0 & s0 & H0 & G).
    rewrite H in H0. injection H0 as <- <-. destruct G as [G1 G2 G3 G4 G5]. cbn [snd] in G4.
    destruct G4 as (G4 & G6). exists (lstart (jcur s)).
    destruct G1 as (_ & G1a & G1b). unfold lx_len in G1b. rewrite G2, Hd, len_app in G1b. change (len [0]) with 1 in G1b.
    destruct Hw as (_ & Hs & _).
    split; [lia|]. split; [lia|]. split; [|auto]. rewrite G6, Hd. apply slice_data; lia.
  - destruct (regexp_good id_cont s Hw) as (t0 & s0 & H0 & G1 & G2 & G4).
    rewrite H in H0. injection H0 as <- <-. cbn [snd fst] in G4.
    destruct G4 as (_ & G4 & back & B1 & B2 & B3 & _ & G6).
    destruct G1 as (_ & G1a & G1b). unfold lx_len in G1b. rewrite G2, Hd, len_app in G1b. change (len [0]) with 1 in G1b.
    exists (lpos (jcur s) - back). split; [lia|]. split; [lia|]. split; [|split; [assumption|discriminate]].
    rewrite G6, Hd. apply slice_data; lia.
Qed.

(* --- tiling ------------------------------------------------------------------------------------ *)
Definition tok_bytes (t : tok) : list Z := match snd t with Some b => b | None => [] end.

Fixpoint next_n (n : nat) (s : jst) : res (list tok * jst) :=
  match n with
  | O => Ok ([], s)
  | S k =>
      ' (t, s1) <-- next id_start id_cont is_zs s ;;
      ' (ts, s2) <-- next_n k s1 ;;
      Ok (t :: ts, s2)
  end.

Lemma slice_split {A} (l : list A) a b c : 0 <= a <= b -> b <= c -> c <= len l ->
  slice l a b ++ slice l b c = slice l a c.
Proof.
  intros H1 H2 H3. unfold slice, firstz, skipz.
  replace (Z.to_nat (c - a)) with (Z.to_nat (b - a) + Z.to_nat (c - b))%nat by lia.
  rewrite firstn_plus. f_equal. f_equal. rewrite skipn_skipn'. f_equal. lia.
Qed.

Lemma next_n_tiling n : forall s, js_wf s ->
  exists ts s', next_n n s = Ok (ts, s') /\ js_wf s' /\ lbuf (jcur s') = lbuf (jcur s) /\
    lstart (jcur s) <= lstart (jcur s') /\
    concat (map tok_bytes ts) = slice (lbuf (jcur s)) (lstart (jcur s)) (lstart (jcur s')) /\
    Forall (fun t => match snd t with Some b => b <> [] | None => fst t = ErrorToken end) ts /\
    (Forall (fun t => snd t <> None) ts -> lstart (jcur s) = lpos (jcur s) -> lstart (jcur s') = lpos (jcur s')).
Proof.
  induction n as [|n IH]; intros s Hw; cbn [next_n].
  - exists [], s. split; [reflexivity|]. split; [assumption|]. split; [reflexivity|]. split; [lia|].
    split; [|split; [constructor|auto]]. cbn [map concat]. unfold slice, firstz. rewrite Z.sub_diag. reflexivity.
  - destruct (next_good id_start id_cont is_zs s Hw) as (t & s1 & -> & G). cbn [rbind].
    destruct G as [G1 G2 G3 G4 G5].
    destruct (IH s1 G1) as (ts & s2 & -> & Hw2 & Hb2 & Hs2 & Hc2 & Hf2 & Hn2). cbn [rbind].
    exists (t :: ts), s2. split; [reflexivity|]. split; [assumption|]. split; [congruence|].
    pose proof Hw as (_ & Hs & Hp). pose proof G1 as (_ & Hs1 & Hp1). pose proof Hw2 as (_ & Hs3 & Hp3).
    assert (Hl1 : lx_len (jcur s1) = lx_len (jcur s)) by (unfold lx_len; rewrite G2; reflexivity).
    assert (Hl2 : lx_len (jcur s2) = lx_len (jcur s)) by (unfold lx_len; rewrite Hb2, G2; reflexivity).
    destruct t as [ty [b|]]; cbn [snd fst] in *.
    + destruct G4 as (G4 & G6).
      split; [lia|]. split; [|split].
      * cbn [map concat tok_bytes snd]. rewrite Hc2, G6, G2, G4.
        apply slice_split; try lia. unfold lx_len in *. lia.
      * constructor; [|assumption]. cbn [snd]. rewrite G6. intros Hnil.
        assert (Hlen0 : len (slice (lbuf (jcur s)) (lstart (jcur s)) (lpos (jcur s1))) = 0) by (rewrite Hnil; reflexivity).
        rewrite len_slice in Hlen0 by (unfold lx_len in *; lia).
        destruct G5 as [G5|(_ & G5 & [(G7 & _)|(_ & G7)])]; [lia|discriminate|unfold mark in G7; lia].
      * intros Hall Hst. inversion Hall; subst. apply Hn2; assumption.
    + destruct G4 as (G4 & G6).
      split; [lia|]. split; [|split].
      * cbn [map concat tok_bytes snd app]. rewrite Hc2, G2, G4. reflexivity.
      * constructor; assumption.
      * intros Hall. inversion Hall; subst. cbn [snd] in *. congruence.
Qed.

(* tokens returned by the first n calls on input d concatenate to d[0:start]; every token is
   non-empty; as long as no call returned the nil slice (the lexical errors that keep their bytes)
   the tokens tile exactly the bytes consumed *)
Lemma jslex_tiling_proof d n :
  exists ts s', next_n n (js_init d) = Ok (ts, s') /\
    0 <= lstart (jcur s') <= lpos (jcur s') /\ lpos (jcur s') <= len d /\
    concat (map tok_bytes ts) = firstz (lstart (jcur s')) d /\
    Forall (fun t => match snd t with Some b => b <> [] | None => fst t = ErrorToken end) ts /\
    (Forall (fun t => snd t <> None) ts ->
       lstart (jcur s') = lpos (jcur s') /\ concat (map tok_bytes ts) = firstz (lpos (jcur s')) d).
Proof.
  destruct (next_n_tiling n (js_init d) (js_init_wf d)) as (ts & s' & H & Hw & Hb & Hs & Hc & Hf & Hn).
  exists ts, s'. split; [assumption|]. cbn [js_init jcur lx_init lbuf lstart lpos] in *.
  destruct Hw as (_ & Hs1 & Hp). unfold lx_len in Hp. rewrite Hb, len_app in Hp. change (len [0]) with 1 in Hp.
  assert (Hcc : concat (map tok_bytes ts) = firstz (lstart (jcur s')) d).
  { rewrite Hc. rewrite slice_data by lia. unfold slice, skipz. cbn [Z.to_nat skipn]. f_equal. lia. }
  split; [lia|]. split; [lia|]. split; [assumption|]. split; [assumption|].
  intros Hall. specialize (Hn Hall eq_refl). split; [assumption|]. rewrite Hcc, Hn. reflexivity.
Qed.

End Proofs.

(* --- re-lexing a template continuation on its own: refuted -------------------------------------- *)
(* "`${}`" and "`${}${}`": the second token (TemplateEnd "}`" / TemplateMiddle "}${"), lexed on its
   own by a fresh lexer, is a CloseBraceToken "}" — for every classification of non-ASCII runes. *)
Definition relex_same (ids idc zs : Z -> bool) (t : tok) : Prop :=
  exists b s, snd t = Some b /\ next ids idc zs (js_init b) = Ok (t, s).

Lemma jslex_relex_template_refuted_proof : forall ids idc zs ty,
  ty = TemplateMiddleToken \/ ty = TemplateEndToken ->
  exists d t0 s1 t s2,
    next ids idc zs (js_init d) = Ok (t0, s1) /\ next ids idc zs s1 = Ok (t, s2) /\
    fst t = ty /\ ~ relex_same ids idc zs t.
Proof.
  intros ids idc zs ty [-> | ->].
  - exists [96; 36; 123; 125; 36; 123; 125; 96].
    eexists _, _, _, _. split; [vm_compute; reflexivity|]. split; [vm_compute; reflexivity|].
    split; [reflexivity|]. intros (b & s & Hb & Hn). cbn [snd] in Hb. injection Hb as <-.
    vm_compute in Hn. discriminate.
  - exists [96; 36; 123; 125; 96].
    eexists _, _, _, _. split; [vm_compute; reflexivity|]. split; [vm_compute; reflexivity|].
    split; [reflexivity|]. intros (b & s & Hb & Hn). cbn [snd] in Hb. injection Hb as <-.
    vm_compute in Hn. discriminate.
Qed.

(* --- non-vacuity examples ------------------------------------------------------------------------ *)
Definition nocls (_ : Z) : bool := false.

(* "a=/re/g" : Identifier, '=', '/', then RegExp() re-reads "/re/g" *)
Example ex_run :
  jrun nocls nocls nocls [ONext; ONext; ONext; ORegExp; ONext] (js_init [97; 61; 47; 114; 101; 47; 103]) =
  Ok ([(IdentifierToken, Some [97]); (1537, Some [61]); (DivToken, Some [47]);
       (RegExpToken, Some [47; 114; 101; 47; 103]); (ErrorToken, None)],
      mkJst (mkLx [97; 61; 47; 114; 101; 47; 103; 0] 7 7) ENone false false 0 []).
Proof. vm_compute. reflexivity. Qed.

(* a well-formed state in the middle of an input, with pending bytes before the cursor *)
Example ex_wf : js_wf (mkJst (mkLx [49; 97; 46; 0] 2 1) ENone false false 0 []) /\
  next nocls nocls nocls (mkJst (mkLx [49; 97; 46; 0] 2 1) ENone false false 0 []) =
  Ok ((ErrorToken, Some [97]), mkJst (mkLx [49; 97; 46; 0] 2 2) ENone false true 0 []).
Proof.
  split; [|vm_compute; reflexivity]. unfold js_wf, lx_wf, lx_len. cbn [jcur lbuf lstart lpos].
  split; [exists [49; 97; 46]; reflexivity|]. cbn. lia.
Qed.

Example ex_eof : at_end (jcur (mkJst (mkLx [97; 0] 1 1) ENone false false 0 [])) = true.
Proof. reflexivity. Qed.
