(* JsLex/RelexNext.v — C02 re-lexing: the text of a token returned by Next, lexed on its own by a
   fresh lexer, is that same token (all kinds except the template continuations). *)
From Verif Require Import Common.Base Common.Tactics Common.Lx Gen.Tables
  JsLex.Model JsLex.Lemmas JsLex.Total JsLex.Next JsLex.Canon JsLex.Comment JsLex.Relex JsLex.Proofs.
Require Verif.Cursor.Model.
From Coq Require Import ZifyBool.

Lemma suffix_init T : suffix (lx_init T) = T ++ [0].
Proof. reflexivity. Qed.

Lemma emit_init s1 T ty :
  emit s1 (mv (lx_init T) (len T)) ty = Ok ((ty, Some T), set_cur s1 (skip (mv (lx_init T) (len T)))).
Proof.
  unfold emit, shift, lexeme, slice_ok, mv, lx_init. cbn [lbuf lstart lpos].
  rewrite len_app. change (len [0]) with 1. pose proof (len_nonneg T).
  replace (0 <=? 0) with true by lia. replace (0 <=? 0 + len T) with true by lia.
  replace (0 + len T <=? len T + 1) with true by lia. cbn [andb].
  unfold slice. cbn [skipz Z.to_nat skipn]. replace (0 + len T - 0) with (len T) by lia.
  rewrite firstz_app_exact. reflexivity.
Qed.

Lemma single_byte b R a : len b = 1 -> pkl (b ++ R) 0 = Ok a -> b = [a].
Proof.
  destruct b as [|x [|y b]]; cbn [app]; intros Hl Hp.
  - change (len (@nil Z)) with 0 in Hl. lia.
  - rewrite pkl_cons_0 in Hp. congruence.
  - rewrite !len_cons in Hl. pose proof (len_nonneg b). lia.
Qed.

Lemma three_bytes b R x y z : len b = 3 -> pkl (b ++ R) 0 = Ok x -> pkl (b ++ R) 1 = Ok y -> pkl (b ++ R) 2 = Ok z ->
  b = [x; y; z].
Proof.
  destruct b as [|x0 [|y0 [|z0 [|w b]]]]; cbn [app]; intros Hl H0 H1 H2;
    rewrite ?len_cons in Hl; change (len (@nil Z)) with 0 in Hl; try (pose proof (len_nonneg b)); try lia.
  rewrite pkl_cons_0 in H0. rewrite pkl_1 in H1. rewrite pkl_2 in H2. congruence.
Qed.

(* rewrite with the branch conditions known from the original run *)
Ltac use_conds :=
  repeat match goal with
  | Hx : ?c = true |- context [if ?c then _ else _] => rewrite Hx; cbv iota
  | Hx : ?c = false |- context [if ?c then _ else _] => rewrite Hx; cbv iota
  end.

Ltac use_conds_in H :=
  repeat match goal with
  | Hx : ?c = true |- _ => match type of H with context [if c then _ else _] => rewrite Hx in H; cbv iota in H end
  | Hx : ?c = false |- _ => match type of H with context [if c then _ else _] => rewrite Hx in H; cbv iota in H end
  end.

Ltac fin_emit b :=
  match goal with
  | |- context [emit ?s1 (mv (lx_init b) ?k) ?ty] =>
      replace k with (len b) by lia; rewrite (emit_init s1 b ty)
  end;
  eexists; split; [reflexivity|]; split; cbn [jcur set_cur skip mv lx_init lpos lstart]; lia.

Lemma lexeme_init T : lexeme (mv (lx_init T) (len T)) = Some T.
Proof.
  unfold lexeme, slice_ok, mv, lx_init. cbn [lbuf lstart lpos].
  rewrite len_app. change (len [0]) with 1. pose proof (len_nonneg T).
  replace (0 <=? 0) with true by lia. replace (0 <=? 0 + len T) with true by lia.
  replace (0 + len T <=? len T + 1) with true by lia. cbn [andb].
  unfold slice. cbn [skipz Z.to_nat skipn]. replace (0 + len T - 0) with (len T) by lia.
  rewrite firstz_app_exact. reflexivity.
Qed.

Lemma firstz_len_app {A} (T R : list A) : firstz (len T) (T ++ R) = T.
Proof. apply firstz_app_exact. Qed.

Section RelexNext.
Variables (id_start id_cont is_zs : Z -> bool).

Definition relexes (ty : Z) (T : list Z) : Prop :=
  exists s2, next id_start id_cont is_zs (js_init T) = Ok ((ty, Some T), s2) /\
    lpos (jcur s2) = len T /\ lstart (jcur s2) = len T.

Ltac open_relex E :=
  unfold relexes, next, js_init; cbv zeta; cbn [jcur jerr jplt jpnl jlevel jtl];
  rewrite suffix_init; xfer E; use_conds.

(* the identifier scanner declines on a non-ASCII rune that lies inside T *)
Lemma ident_decline T R a a0 r n : R <> [] -> pkl (T ++ R) 0 = Ok a -> (192 <=? a) = true ->
  ident id_start id_cont (T ++ R) = Ok a0 -> (0 <? a0) = false ->
  peek_rune (T ++ R) = Ok (r, n) -> n <= len T ->
  ident id_start id_cont (T ++ [0]) = Ok 0.
Proof.
  intros HR Ha H192 H Ha0 Hr Hn. pose proof (peek_rune_pos _ _ _ Hr) as Hnp.
  unfold ident, ident_start in H |- *. rewrite Ha in H. cbn [rbind] in H. xfer Ha.
  destruct (tab_start a).
  { exfalso. cbn [rbind] in H. change (1 <=? 0) with false in H. cbv iota in H.
    destruct (repl (ident_cont1 id_cont) (skipz 1 (T ++ R))) as [m| |] eqn:Em; cbn [rbind] in H; try discriminate.
    pose proof (rep_nonneg _ (ident_cont1_nonneg id_cont) _ _ _ Em). assert (a0 = 1 + m) by congruence. lia. }
  rewrite H192 in H |- *. rewrite Hr in H. cbn [rbind] in H.
  rewrite (peek_rune_local _ _ _ _ Hr Hn HR). cbn [rbind].
  destruct (id_start r); [|reflexivity].
  exfalso. cbn [rbind] in H. replace (n <=? 0) with false in H by lia.
  destruct (repl (ident_cont1 id_cont) (skipz n (T ++ R))) as [m| |] eqn:Em; cbn [rbind] in H; try discriminate.
  pose proof (rep_nonneg _ (ident_cont1_nonneg id_cont) _ _ _ Em). assert (a0 = n + m) by congruence. lia.
Qed.

Lemma ws1_decline T R a r n : R <> [] -> pkl (T ++ R) 0 = Ok a -> (192 <=? a) = true ->
  ws1 is_zs (T ++ R) = Ok 0 -> peek_rune (T ++ R) = Ok (r, n) -> n <= len T ->
  ws1 is_zs (T ++ [0]) = Ok 0.
Proof.
  intros HR Ha H192 H Hr Hn. pose proof (peek_rune_pos _ _ _ Hr) as Hnp.
  unfold ws1 in H |- *. rewrite Ha in H. cbn [rbind] in H. xfer Ha.
  destruct ((a =? 32) || (a =? 9) || (a =? 11) || (a =? 12)); [discriminate|].
  rewrite H192 in H |- *. rewrite Hr in H. cbn [rbind] in H.
  rewrite (peek_rune_local _ _ _ _ Hr Hn HR). cbn [rbind].
  destruct ((r =? 160) || (r =? 65279) || is_zs r); [|reflexivity].
  exfalso. assert (n = 0) by congruence. lia.
Qed.

(* punctuators and other fixed spellings: by computation *)
Lemma relex_fixed ty T :
  (exists s2, next id_start id_cont is_zs (js_init T) = Ok ((ty, Some T), s2) /\
     lpos (jcur s2) = len T /\ lstart (jcur s2) = len T) -> relexes ty T.
Proof. auto. Qed.

Lemma next_relex s ty b s' : js_wf s -> lstart (jcur s) = lpos (jcur s) ->
  next id_start id_cont is_zs s = Ok ((ty, Some b), s') ->
  ty <> ErrorToken -> ty <> TemplateMiddleToken -> ty <> TemplateEndToken -> no_trunc b = true ->
  relexes ty b.
Proof.
  intros Hw Hst H Hty HtM HtE Hnt.
  (* the token is a proper non-empty prefix b of the suffix *)
  destruct (next_good id_start id_cont is_zs s Hw) as (t0 & s0 & H0 & G).
  rewrite H in H0. injection H0 as <- <-. destruct G as [G1 G2 G3 G4 G5]. cbn [fst snd] in *.
  destruct G4 as (G4 & Gb). destruct G5 as [G5|(G5 & _)]; [|congruence].
  destruct s as [z e0 plt0 pnl0 lev tl]. unfold js_wf in Hw. cbn [jcur] in *.
  destruct (suffix_wfl _ Hw) as (Hwl & Hlen).
  remember (lpos (jcur s') - lpos z) as N eqn:HNdef.
  assert (HN : 0 < N < len (suffix z)).
  { destruct G1 as (_ & _ & G1). unfold lx_len in *. rewrite G2 in G1. lia. }
  assert (Hb : b = firstz N (suffix z)).
  { rewrite Gb. unfold slice, suffix. rewrite Hst, HNdef. reflexivity. }
  set (R := skipz N (suffix z)).
  assert (Hl : suffix z = b ++ R) by (rewrite Hb; symmetry; apply firstz_skipz).
  assert (HlenT : len b = N) by (rewrite Hb; apply len_firstz; lia).
  assert (HR : R <> []).
  { apply len_pos_nonempty. unfold R. rewrite len_skipz by lia. lia. }
  assert (Hp0 : 0 <= lpos z) by (destruct Hw as (_ & ? & _); lia).
  clearbody R. clear Gb G1 G2 G3 G4 Hb.
  unfold next in H. cbv zeta in H. cbn [jcur jerr jplt jpnl jlevel jtl] in H.
  unfold op_or_err, template in H.
  rewrite ?suffix_mv in H by lia. rewrite Hl in H.
  crunch H; try discriminate; try (apply err_path_ty in H; congruence);
  (apply emit_inv in H; destruct H as (Hty0 & _ & Hs'); subst s';
   cbn [jcur set_cur skip mv lpos] in HNdef);
  (* template continuations and errors are excluded *)
  try (exfalso; subst ty; use_conds_in HtE; use_conds_in HtM; use_conds_in Hty; congruence);
  (* ASCII whitespace *)
  try match goal with
    | E : pkl (b ++ R) 0 = Ok ?a, E0 : repl (ws1 is_zs) (skipz 1 (b ++ R)) = Ok ?m |- _ =>
        subst ty; unfold relexes, next, js_init; cbv zeta; cbn [jcur jerr jplt jpnl jlevel jtl];
        rewrite suffix_init; xfer E; use_conds;
        assert (Hm : m = len b - 1) by lia; rewrite Hm in E0;
        rewrite (repl_restrict_all _ b R 1 (ws1_local is_zs) (ws1_stop0 is_zs) (ws1_nonneg is_zs) HR ltac:(lia) E0);
        cbn [rbind]; fin_emit b
    end;
  (* ASCII line terminators *)
  try match goal with
    | E : pkl (b ++ R) 0 = Ok ?a, E0 : repl lt1 (skipz 1 (b ++ R)) = Ok ?m |- _ =>
        subst ty; unfold relexes, next, js_init; cbv zeta; cbn [jcur jerr jplt jpnl jlevel jtl];
        rewrite suffix_init; xfer E; use_conds;
        assert (Hm : m = len b - 1) by lia; rewrite Hm in E0;
        rewrite (repl_restrict_all _ b R 1 lt1_local lt1_stop0 lt1_nonneg' HR ltac:(lia) E0);
        cbn [rbind]; fin_emit b
    end;
  (* single-byte punctuators *)
  try match goal with
    | E : pkl (b ++ R) 0 = Ok ?a |- _ =>
        let Hb1 := fresh in let Hbb := fresh in
        assert (Hb1 : len b = 1) by lia;
        pose proof (single_byte b R a Hb1 E) as Hbb;
        first [ assert (a = 44) by lia | assert (a = 59) by lia | assert (a = 40) by lia | assert (a = 41) by lia
              | assert (a = 123) by lia | assert (a = 125) by lia | assert (a = 58) by lia | assert (a = 93) by lia
              | assert (a = 91) by lia ];
        subst a; subst b; subst ty; unfold relexes; vm_compute;
        eexists; split; [reflexivity|split; reflexivity]
    end.
  - (* operators *)
    assert (z0 = len b) by lia. subst z0 ty.
    pose proof (op_restrict b R z1 HR E0) as E0'.
    open_relex E. unfold op_or_err. rewrite suffix_init, E0'. cbn [rbind]. use_conds. fin_emit b.
  - (* numeric literals *)
    assert (z1 = len b) by lia. subst z1 ty.
    pose proof (numeric_restrict b R _ _ _ HR ltac:(lia) E0 eq_refl Hty) as E0'.
    open_relex E. rewrite E0'. cbn [rbind].
    replace (negb (z2 =? ErrorToken)) with true by (unfold ErrorToken in *; lia). cbn [orb]. cbv iota. fin_emit b.
  - (* "..." *)
    assert (z1 = 0) by (unfold mark, mv in Eb3; cbn [lpos lstart] in Eb3; lia). subst z1.
    rewrite mv_0 in E1, E2. rewrite suffix_mv in E1, E2 by lia. rewrite Hl in E1, E2.
    rewrite !pkl_skipz in E1, E2 by lia. change (1 + 0) with 1 in E1. change (1 + 1) with 2 in E2.
    assert (a0 = 46) by (destruct (a0 =? 46) eqn:Ea; [lia|congruence]). subst a0.
    change (46 =? 46) with true in E2. cbv iota in E2.
    destruct (pkl (b ++ R) 2) as [c2| |] eqn:E3; cbn [rbind] in E2; try discriminate.
    assert (c2 = 46) by (assert ((c2 =? 46) = true) by congruence; lia). subst c2.
    assert (a = 46) by lia. subst a.
    pose proof (three_bytes b R 46 46 46 ltac:(lia) E E1 E3). subst b ty.
    unfold relexes. vm_compute. eexists; split; [reflexivity|split; reflexivity].
  - (* "." *)
    assert (z1 = 0) by (unfold mark, mv in Eb3; cbn [lpos lstart] in Eb3; lia). subst z1.
    assert (a = 46) by lia. subst a.
    pose proof (single_byte b R 46 ltac:(lia) E). subst b ty.
    unfold relexes. vm_compute. eexists; split; [reflexivity|split; reflexivity].
  - (* comments *)
    assert (z1 = len b) by lia. subst z1 ty.
    pose proof (comment_restrict b R _ _ _ _ HR Hnt E0 eq_refl Hty) as E0'.
    open_relex E. rewrite E0'. cbn [rbind]. use_conds. fin_emit b.
  - (* '/' and '/=' *)
    assert (z2 = ErrorToken /\ z0 = ENone) as (-> & ->) by (unfold ErrorToken, ENone in *; lia).
    destruct (comment_err_shape _ _ _ E0) as (c & Ec & E47 & E42 & -> & ->).
    rewrite mv_0 in E1. rewrite Hl in E1.
    assert (z3 = len b) by lia. subst z3 ty.
    pose proof (op_restrict b R z4 HR E1) as E1'.
    pose proof (comment_decline b R 0 ENone false ltac:(apply len_pos_nonempty; lia) E0 eq_refl) as E0'.
    open_relex E. rewrite E0'. cbn [rbind]. cbn [negb Z.eqb ErrorToken ENone orb]. cbv iota.
    unfold op_or_err. rewrite mv_0, suffix_init, E1'. cbn [rbind]. use_conds. fin_emit b.
  - (* strings *)
    assert (z1 = len b) by lia. subst z1 ty.
    pose proof (string_tok_restrict b R _ _ _ HR E0 eq_refl Hty) as E0'.
    open_relex E. rewrite E0'. cbn [rbind]. fin_emit b.
  - (* HTML-like comments *)
    assert (a0 = len b) by lia. subst a0 ty.
    pose proof (html_comment_restrict_true plt0 b R _ HR Hnt E0 eq_refl ltac:(lia)) as E0'.
    open_relex E. rewrite E0'. cbn [rbind]. use_conds. fin_emit b.
  - (* '<' and '-' operators *)
    assert (z0 = len b) by lia. subst z0 ty.
    pose proof (op_restrict b R z1 HR E1) as E1'.
    pose proof (html_decline true b R z1 HR E1) as E0'.
    open_relex E. rewrite E0'. cbn [rbind]. change (0 <? 0) with false. cbv iota.
    unfold op_or_err. rewrite suffix_init, E1'. cbn [rbind]. use_conds. fin_emit b.
  - (* templates without substitution *)
    assert (1 + z0 = len b) by lia. subst ty.
    rewrite skipz_app_le in E0 by lia.
    assert (Ho : z1 <> 2) by lia.
    pose proof (tpl_loop_restrict _ _ _ _ _ HR E0 ltac:(rewrite len_skipz by lia; lia) Ho (length (b ++ [0]))
                  ltac:(pose proof (length_skipz_le 1 b); rewrite app_length; cbn [length]; lia)) as E0'.
    open_relex E. unfold template. rewrite suffix_init. xfer E. rewrite skipz_app_le by lia. rewrite E0'.
    cbn [rbind]. use_conds. cbn [jtl set_tl]. fin_emit b.
  - (* template heads *)
    assert (1 + z0 = len b) by lia. subst ty.
    rewrite skipz_app_le in E0 by lia.
    assert (Ho : z1 <> 2) by lia.
    pose proof (tpl_loop_restrict _ _ _ _ _ HR E0 ltac:(rewrite len_skipz by lia; lia) Ho (length (b ++ [0]))
                  ltac:(pose proof (length_skipz_le 1 b); rewrite app_length; cbn [length]; lia)) as E0'.
    open_relex E. unfold template. rewrite suffix_init. xfer E. rewrite skipz_app_le by lia. rewrite E0'.
    cbn [rbind]. use_conds. fin_emit b.
  - (* private identifiers *)
    assert (1 + a0 = len b) by lia. subst ty.
    rewrite skipz_app_le in E0 by lia.
    assert (Ha0 : a0 = len (skipz 1 b)) by (rewrite len_skipz by lia; lia). rewrite Ha0 in E0.
    pose proof (ident_restrict id_start id_cont _ _ HR E0 ltac:(lia)) as E0'.
    open_relex E. rewrite suffix_mv by (cbn; lia). rewrite suffix_init. rewrite skipz_app_le by lia. rewrite E0'.
    cbn [rbind]. rewrite <- Ha0. use_conds. rewrite mv_mv. fin_emit b.
  - (* keywords *)
    assert (a0 = len b) by lia. subst a0.
    pose proof (ident_restrict id_start id_cont b R HR E0 ltac:(lia)) as E0'.
    apply lexeme_slice in Em. rewrite slice_mv in Em by assumption. rewrite Hl, firstz_len_app in Em. subst l ty.
    open_relex E. rewrite E0'. cbn [rbind]. use_conds. rewrite lexeme_init, Em0. fin_emit b.
  - (* identifiers *)
    assert (a0 = len b) by lia. subst a0.
    pose proof (ident_restrict id_start id_cont b R HR E0 ltac:(lia)) as E0'.
    apply lexeme_slice in Em. rewrite slice_mv in Em by assumption. rewrite Hl, firstz_len_app in Em. subst l ty.
    open_relex E. rewrite E0'. cbn [rbind]. use_conds. rewrite lexeme_init, Em0. fin_emit b.
  - (* whitespace that starts with a non-ASCII space *)
    pose proof (rep_nonneg _ (ws1_nonneg is_zs) _ _ _ E2) as Ha2.
    assert (Hr : exists r, peek_rune (b ++ R) = Ok (r, a1)).
    { unfold ws1 in E1. rewrite E in E1. cbn [rbind] in E1.
      destruct ((a =? 32) || (a =? 9) || (a =? 11) || (a =? 12)); [discriminate|]. rewrite Eb18 in E1.
      destruct (peek_rune (b ++ R)) as [[r n]| |]; cbn [rbind] in E1; try discriminate.
      destruct ((r =? 160) || (r =? 65279) || is_zs r); [|assert (a1 = 0) by congruence; lia].
      exists r. congruence. }
    destruct Hr as (r & Hr).
    pose proof (ident_decline b R a a0 r a1 HR E Eb18 E0 Eb17 Hr ltac:(lia)) as E0'.
    pose proof (ws1_local is_zs b R a1 HR E1 ltac:(lia)) as E1'.
    assert (Hm : a2 = len b - a1) by lia. rewrite Hm in E2.
    pose proof (repl_restrict_all _ b R a1 (ws1_local is_zs) (ws1_stop0 is_zs) (ws1_nonneg is_zs) HR ltac:(lia) E2) as E2'.
    subst ty. open_relex E. rewrite E0'. cbn [rbind]. change (0 <? 0) with false. cbv iota. use_conds.
    rewrite E1'. cbn [rbind]. use_conds. rewrite E2'. cbn [rbind]. fin_emit b.
  - (* U+2028 / U+2029 *)
    pose proof (rep_nonneg _ lt1_nonneg' _ _ _ E3) as Ha3.
    assert (a1 = 0) by (pose proof (ws1_nonneg is_zs _ _ E1); lia). subst a1.
    assert (Ha2 : a = 226 /\ a2 = 3).
    { unfold lt1 in E2. rewrite E in E2. cbn [rbind] in E2.
      destruct (a =? 10); [lia|]. destruct (a =? 13); [lia|]. destruct (a =? 226) eqn:E226; [|assert (a2 = 0) by congruence; lia].
      split; [lia|]. crunch E2; assert (a2 = 3 \/ a2 = 0) as [?|?] by (injection E2; lia); lia. }
    destruct Ha2 as (-> & ->).
    assert (Hr : exists r n, peek_rune (b ++ R) = Ok (r, n) /\ n <= 3).
    { unfold ws1 in E1. rewrite E in E1. cbn [rbind] in E1. cbn [Z.eqb orb] in E1. rewrite Eb18 in E1.
      destruct (peek_rune (b ++ R)) as [[r n]| |] eqn:Er; cbn [rbind] in E1; try discriminate.
      exists r, n. split; [reflexivity|].
      destruct b as [|c0 b']; [change (len (@nil Z)) with 0 in HlenT; lia|]. cbn [app] in *.
      rewrite pkl_cons_0 in E. assert (c0 = 226) by congruence. subst c0.
      destruct (peek_rune_len _ _ _ _ Er) as (_ & L3 & _). lia. }
    destruct Hr as (r & n & Hr & Hn3).
    pose proof (ident_decline b R 226 a0 r n HR E Eb18 E0 Eb17 Hr ltac:(lia)) as E0'.
    pose proof (ws1_decline b R 226 r n HR E Eb18 E1 Hr ltac:(lia)) as E1'.
    pose proof (lt1_local b R 3 HR E2 ltac:(lia)) as E2'.
    assert (Hm : a3 = len b - 3) by lia. rewrite Hm in E3.
    pose proof (repl_restrict_all _ b R 3 lt1_local lt1_stop0 lt1_nonneg' HR ltac:(lia) E3) as E3'.
    subst ty. open_relex E. rewrite E0'. cbn [rbind]. change (0 <? 0) with false. cbv iota. use_conds.
    rewrite E1'. cbn [rbind]. change (0 <? 0) with false. cbv iota.
    rewrite E2'. cbn [rbind]. change (0 <? 3) with true. cbv iota. rewrite E3'. cbn [rbind]. fin_emit b.
Qed.

(* the token text alone is lexed as that token followed by the end-of-input report *)
Lemma jslex_relex_proof s ty b s' : js_wf s -> lstart (jcur s) = lpos (jcur s) ->
  next id_start id_cont is_zs s = Ok ((ty, Some b), s') ->
  ty <> ErrorToken -> ty <> TemplateMiddleToken -> ty <> TemplateEndToken -> no_trunc b = true ->
  exists s2 s3, next id_start id_cont is_zs (js_init b) = Ok ((ty, Some b), s2) /\
    next id_start id_cont is_zs s2 = Ok ((ErrorToken, None), s3) /\ js_err s3 = 1.
Proof.
  intros Hw Hst H H1 H2 H3 H4.
  destruct (next_relex s ty b s' Hw Hst H H1 H2 H3 H4) as (s2 & Hn & Hp & Hs).
  destruct (next_good id_start id_cont is_zs (js_init b) (lx_init_wf b)) as (t0 & s0 & H0 & G).
  rewrite Hn in H0. injection H0 as <- <-. destruct G as [G1 G2 _ _ _].
  assert (He : at_end (jcur s2) = true).
  { unfold at_end, lx_len. rewrite G2. cbn [js_init jcur lx_init lbuf]. rewrite len_app. change (len [0]) with 1. lia. }
  destruct (jslex_eof_sticky_proof id_start id_cont is_zs s2 G1 He) as (s3 & Hn3 & _ & He3 & _).
  exists s2, s3. auto.
Qed.

End RelexNext.

(* every valid UTF-8 string (RFC 3629, Cursor/Model.v's utf8_decode) has no truncated sequence *)
Inductive valid_utf8 : list Z -> Prop :=
| vu_nil : valid_utf8 []
| vu_cons l r n : Cursor.Model.utf8_decode l = Some (r, n) -> valid_utf8 (skipz n l) -> valid_utf8 l.

Lemma valid_utf8_no_trunc l : valid_utf8 l -> no_trunc l = true.
Proof.
  induction 1 as [|l r n Hd Hv IH]; [reflexivity|].
  unfold Cursor.Model.utf8_decode, Cursor.Model.cont in Hd.
  destruct l as [|c t]; [discriminate|].
  destruct ((0 <=? c) && (c <=? 127)) eqn:E1.
  { injection Hd as _ <-. change (skipz 1 (c :: t)) with t in IH. cbn [no_trunc]. rewrite IH.
    replace (c <? 192) with true by lia. reflexivity. }
  destruct t as [|c1 t1]; [discriminate|].
  destruct ((194 <=? c) && (c <=? 223) && ((128 <=? c1) && (c1 <=? 191))) eqn:E2.
  { injection Hd as _ <-. change (skipz 2 (c :: c1 :: t1)) with t1 in IH. cbn [no_trunc]. rewrite IH.
    rewrite len_cons. pose proof (len_nonneg t1).
    replace (c <? 192) with false by lia. replace (c <? 224) with true by lia.
    replace (c1 <? 192) with true by lia. replace (1 <=? 1 + len t1) with true by lia. reflexivity. }
  destruct t1 as [|c2 t2]; [discriminate|].
  match type of Hd with (if ?cnd then _ else _) = _ => destruct cnd eqn:E3 end.
  { injection Hd as _ <-. change (skipz 3 (c :: c1 :: c2 :: t2)) with t2 in IH. cbn [no_trunc]. rewrite IH.
    rewrite !len_cons. pose proof (len_nonneg t2).
    replace (c <? 192) with false by lia. replace (c <? 224) with false by lia. replace (c <? 240) with true by lia.
    replace (c1 <? 192) with true by lia. replace (c2 <? 192) with true by lia.
    replace (2 <=? 1 + (1 + len t2)) with true by lia. reflexivity. }
  destruct t2 as [|c3 t3]; [discriminate|].
  match type of Hd with (if ?cnd then _ else _) = _ => destruct cnd eqn:E4 end; [|discriminate].
  injection Hd as _ <-. change (skipz 4 (c :: c1 :: c2 :: c3 :: t3)) with t3 in IH. cbn [no_trunc]. rewrite IH.
  rewrite !len_cons. pose proof (len_nonneg t3).
  replace (c <? 192) with false by lia. replace (c <? 224) with false by lia. replace (c <? 240) with false by lia.
  replace (c1 <? 192) with true by lia. replace (c2 <? 192) with true by lia. replace (c3 <? 192) with true by lia.
  replace (3 <=? 1 + (1 + (1 + len t3))) with true by lia. reflexivity.
Qed.
