(* JsLex/SeqNext.v — token sequences: every token class of the ECMAScript lexical grammar (punctuators,
   numeric literals, strings, identifiers and keywords, templates with nested substitutions, all comment
   forms, whitespace, line terminators, regular expression literals re-read by RegExp()), each followed
   by something that cannot extend it, is returned with exactly its type and text. *)
From Verif Require Import Common.Base Common.Tactics Common.Lx Gen.Tables
  JsLex.Model JsLex.Lemmas JsLex.Total JsLex.Next JsLex.Canon JsLex.Comment JsLex.Relex JsLex.Proofs
  JsLex.RelexNext JsLex.Exchange JsLex.Exchange2 JsLex.Exchange3 JsLex.NumExchange JsLex.Regexp JsLex.Stops JsLex.SeqRegex.
From Coq Require Import ZifyBool.

Inductive tclass := KPunct | KIdent | KWs | KLt | KString | KComment | KTemplate | KNum.

Definition class_of (ty : Z) : option tclass :=
  if ty =? WhitespaceToken then Some KWs
  else if ty =? LineTerminatorToken then Some KLt
  else if ty =? StringToken then Some KString
  else if (ty =? CommentToken) || (ty =? CommentLineTerminatorToken) then Some KComment
  else if (ty =? TemplateToken) || (ty =? TemplateStartToken) then Some KTemplate
  else if (256 <? ty) && (ty <? 512) then Some KNum
  else if ty =? PrivateIdentifierToken then Some KIdent
  else if 2048 <? ty then Some KIdent
  else if 512 <? ty then Some KPunct
  else None.

(* ( ) [ ] { } ; , : never combine with what follows *)
Definition punct1 (t : Z) : bool :=
  (t =? 44) || (t =? 59) || (t =? 40) || (t =? 41) || (t =? 123) || (t =? 125) || (t =? 58) || (t =? 93) || (t =? 91).

(* what follows the token T (R' = the rest of the input, terminator included) must not be able to extend it;
   for all classes but the single-line comments only the first byte c of R' matters *)
Definition stop_for (cls : tclass) (T : list Z) (R' : list Z) : Prop :=
  let c := hd 0 R' in
  match cls with
  | KPunct => match T with                       (* "/" "/" would be a comment *)
              | [t] => if punct1 t then True else op_stop c /\ (t = 47 -> c <> 47)
              | _ => op_stop c
              end
  | KIdent => tab_cont c = false /\ c < 192 /\ c <> 92
  | KWs => c <> 32 /\ c <> 9 /\ c <> 11 /\ c <> 12 /\ c < 192
  | KLt => c <> 10 /\ c <> 13 /\ c <> 226
  | KString | KTemplate => True                  (* closed tokens: any follower *)
  | KComment => firstz 2 T = [47; 42] \/ lc_stop R'   (* "/*...*/": any follower; "//", "<!--", "-->": a line
                                                          terminator (LF, CR, U+2028, U+2029) or the end of input *)
  | KNum => tab_cont c = false /\ c <> 46        (* no identifier character (digit, letter, '_', '$'), no '.' *)
  end.

Lemma stop_punct_op T R a R' : pkl (T ++ R) 0 = Ok a -> punct1 a = false -> stop_for KPunct T R' -> op_stop (hd 0 R').
Proof.
  intros Ha Hp H. cbn [stop_for] in H. cbv zeta in H. destruct T as [|t [|t' T']]; try exact H.
  cbn [app] in Ha. rewrite pkl_cons_0 in Ha. assert (t = a) by congruence. subst t. rewrite Hp in H. apply H.
Qed.

Lemma stop_punct_slash R' : stop_for KPunct [47] R' -> hd 0 R' <> 47.
Proof. intros H. cbn [stop_for] in H. cbv zeta in H. change (punct1 47) with false in H. apply H. reflexivity. Qed.

Definition is_num (cls : tclass) : bool := match cls with KNum => true | _ => false end.

(* the comment forms; "-->" is a comment only at the start of a line (pl: prevLineTerminator) *)
Definition text_ok (cls : tclass) (pl : bool) (T : list Z) : Prop :=
  match cls with
  | KComment => firstz 2 T = [47; 42] \/ firstz 2 T = [47; 47] \/ firstz 4 T = [60; 33; 45; 45] \/
                (firstz 3 T = [45; 45; 62] /\ pl = true)
  | _ => True
  end.

(* prevLineTerminator after a token: kept by whitespace, set by line terminators and by multi-line
   comments that contain one, cleared by everything else *)
Definition plt_after (ty : Z) (pl : bool) : bool :=
  if ty =? WhitespaceToken then pl else (ty =? LineTerminatorToken) || (ty =? CommentLineTerminatorToken).

Lemma emit_at s1 z T R' ty : lx_wf z -> lstart z = lpos z -> suffix z = T ++ R' -> R' <> [] ->
  emit s1 (mv z (len T)) ty = Ok ((ty, Some T), set_cur s1 (skip (mv z (len T)))) /\
  lx_wf (skip (mv z (len T))) /\ suffix (skip (mv z (len T))) = R'.
Proof.
  intros Hw Hst Hs HR. pose proof (len_nonneg T) as HT.
  destruct (suffix_wfl z Hw) as (_ & Hlen). rewrite Hs, len_app in Hlen. pose proof (nonempty_len R' HR).
  assert (Hw' : lx_wf (mv z (len T))) by (apply mv_wf; [assumption|lia|lia]).
  destruct (shift_wf _ Hw') as (b & Hsh & Hb & Hw2).
  unfold emit. rewrite Hsh. rewrite Hb. rewrite slice_mv by assumption. rewrite Hs, firstz_app_exact.
  split; [reflexivity|]. split; [assumption|].
  unfold suffix, skip, mv. cbn [lbuf lpos]. 
  destruct Hw as (_ & Hs0 & _). rewrite <- skipz_skipz by lia. fold (suffix z). rewrite Hs. apply skipz_app_exact.
Qed.

(* the states between the tokens of a sequence: nothing pending, no open template, the previous token
   was not a numeric literal *)
Definition seq_inv (pn pl : bool) (lev : Z) (tl : list Z) (s : jst) : Prop :=
  js_wf s /\ lstart (jcur s) = lpos (jcur s) /\ jlevel s = lev /\ jtl s = tl /\ jpnl s = pn /\ jplt s = pl.

(* the brace level / open-template bookkeeping, as a specification of what each token type does;
   None: the token type is impossible in that state ("}" that must resume a template, or a template
   continuation where no template is waiting at this brace level) *)
Definition step_state (ty lev : Z) (tl : list Z) : option (Z * list Z) :=
  if (ty =? OpenParenToken) || (ty =? OpenBraceToken) then Some (lev + 1, tl)
  else if ty =? CloseParenToken then Some (lev - 1, tl)
  else if ty =? CloseBraceToken then
    match tl with
    | top :: _ => if lev - 1 =? top then None else Some (lev - 1, tl)
    | [] => Some (lev - 1, tl)
    end
  else if ty =? TemplateStartToken then Some (lev + 1, lev :: tl)
  else if ty =? TemplateMiddleToken then
    match tl with
    | top :: _ => if lev - 1 =? top then Some (lev - 1 + 1, tl) else None
    | [] => None
    end
  else if ty =? TemplateEndToken then
    match tl with
    | top :: rest => if lev - 1 =? top then Some (lev - 1, rest) else None
    | [] => None
    end
  else Some (lev, tl).

Ltac step_simpl Hstep :=
  unfold step_state, OpenParenToken, OpenBraceToken, CloseParenToken, CloseBraceToken, TemplateStartToken,
    TemplateMiddleToken, TemplateEndToken, WhitespaceToken, LineTerminatorToken, StringToken, CommentToken,
    CommentLineTerminatorToken, TemplateToken, PrivateIdentifierToken, IdentifierToken, EllipsisToken, DotToken,
    CommaToken, SemicolonToken, ColonToken, OpenBracketToken, CloseBracketToken, ErrorToken in Hstep;
  repeat match type of Hstep with
  | context [if ?b then _ else _] =>
      first [replace b with false in Hstep by lia | replace b with true in Hstep by lia]
  end;
  injection Hstep as <- <-.

Ltac plt_solve :=
  unfold plt_after, OpenParenToken, OpenBraceToken, CloseParenToken, CloseBraceToken, TemplateStartToken,
    TemplateMiddleToken, TemplateEndToken, WhitespaceToken, LineTerminatorToken, StringToken, CommentToken,
    CommentLineTerminatorToken, TemplateToken, PrivateIdentifierToken, IdentifierToken, EllipsisToken, DotToken,
    CommaToken, SemicolonToken, ColonToken, OpenBracketToken, CloseBracketToken, ErrorToken;
  repeat match goal with
  | |- context [if ?b then _ else _] =>
      first [replace b with false by lia | replace b with true by lia]
  end;
  first [reflexivity | lia].

Ltac open_ext E R' Hsuf :=
  unfold next; cbv zeta; cbn [jcur jerr jplt jpnl jlevel jtl]; rewrite Hsuf; xfer2 E R'; use_conds.

Ltac fin_ext_gen z T R' Hw Hst Hsuf HR' :=
  match goal with
  | |- context [emit ?s1 (mv z ?k) ?ty] =>
      replace k with (len T) by lia;
      let He := fresh "He" in let Hw' := fresh "Hw'" in let Hs' := fresh "Hs'" in
      destruct (emit_at s1 z T R' ty Hw Hst Hsuf HR') as (He & Hw' & Hs'); rewrite He;
      eexists; split; [reflexivity|]; split; [|exact Hs'];
      unfold seq_inv, js_wf; cbn [jcur jtl jpnl jlevel jplt set_cur set_plt set_level set_err set_pnl set_tl is_num];
      split; [exact Hw'|]; split; [reflexivity|]; split; [reflexivity|]; split; [reflexivity|]; split; [reflexivity|];
      plt_solve
  end.

Ltac fin_ext z T R' Hw Hst Hsuf HR' Hstep := try step_simpl Hstep; fin_ext_gen z T R' Hw Hst Hsuf HR'.

Lemma op_ty_range2 l n ty : op l = Ok (n, ty) -> ty = ErrorToken \/ 516 < ty < 2048.
Proof.
  intros H. unfold op in H. crunch H; injection H as _ <-;
    unfold lookup_op, js_op_eq_tokens, js_op_op_eq_tokens, js_op_op_tokens, js_op_tokens;
    repeat match goal with |- context [if ?c then _ else _] => destruct c end;
    first [left; reflexivity | right; split; reflexivity].
Qed.

Lemma op_ty_punct l n ty : op l = Ok (n, ty) -> ty = ErrorToken \/ is_punct_ty ty = true.
Proof.
  intros H. unfold op in H. crunch H; injection H as _ <-;
    unfold lookup_op, js_op_eq_tokens, js_op_op_eq_tokens, js_op_op_tokens, js_op_tokens;
    repeat match goal with |- context [if ?c then _ else _] => destruct c end;
    first [left; reflexivity | right; reflexivity].
Qed.

Lemma hd_cons_nonempty R' : R' <> [] -> exists c R'', R' = c :: R'' /\ hd 0 R' = c.
Proof. destruct R' as [|c R'']; [congruence|]. eauto. Qed.

Lemma head_of_pkl T R a : 0 < len T -> pkl (T ++ R) 0 = Ok a -> exists T', T = a :: T'.
Proof.
  destruct T as [|t0 T']; [change (len (@nil Z)) with 0; lia|]. intros _ H. cbn [app] in H. rewrite pkl_cons_0 in H.
  exists T'. congruence.
Qed.

(* consumeCommentToken sets prevLineTerminator exactly for a CommentLineTerminatorToken *)
Lemma comment_sl l n t e sl : comment l = Ok (n, t, e, sl) -> t <> ErrorToken ->
  sl = (t =? CommentLineTerminatorToken).
Proof.
  intros H Hne. unfold comment in H. crunch H.
  - assert (t = CommentToken /\ sl = false) as (-> & ->) by (split; congruence). reflexivity.
  - assert (t = (if b then CommentLineTerminatorToken else CommentToken) /\ sl = b) as (-> & ->) by (split; congruence).
    destruct b; reflexivity.
  - exfalso. apply Hne. congruence.
  - exfalso. apply Hne. congruence.
Qed.

Section SeqNext.
Variables (id_start id_cont is_zs : Z -> bool).

(* the exact follower condition: what follows the token T of class cls (R' = the rest of the input, terminator
   included) does not extend it; pl: T starts a line.  stop_for above is a sufficient form (stop_for_stops). *)
Definition stops (cls : tclass) (pl : bool) (T : list Z) (R' : list Z) : Prop :=
  match cls with
  | KPunct => punct_stop pl T R'                  (* no longer punctuator, no comment opener, no ".5" *)
  | KIdent => ident_stop id_cont R'               (* no identifier character / ID_Continue rune / '\' *)
  | KWs => ws_stop is_zs R'                       (* no whitespace byte or rune *)
  | KLt => lt_stop R'                             (* no line terminator *)
  | KString | KTemplate => True                   (* closed tokens: any follower *)
  | KComment => firstz 2 T = [47; 42] \/ lc_stop R'
  | KNum => tab_cont (hd 0 R') = false /\          (* no digit, letter, '_', '$': they continue the literal or are the
                                                     error "identifier directly after a number" *)
            (hd 0 R' = 46 -> is_dec_int T = false) (* '.' continues plain decimal integers only *)
  end.

(* the identifier scanner and consumeWhitespace decline on a non-ASCII rune inside T, whatever follows T *)
Lemma ident_decline2 T R R' a a0 r n : R <> [] -> R' <> [] -> no_trunc T = true -> T <> [] ->
  pkl (T ++ R) 0 = Ok a -> (192 <=? a) = true ->
  ident id_start id_cont (T ++ R) = Ok a0 -> (0 <? a0) = false ->
  peek_rune (T ++ R) = Ok (r, n) ->
  ident id_start id_cont (T ++ R') = Ok 0.
Proof.
  intros HR HR' HT Hne Ha H192 H Ha0 Hr. pose proof (peek_rune_pos _ _ _ Hr) as Hnp.
  destruct (peek_rune_local2 T R R' r n HT Hne Hr HR HR') as (Hr' & Hn).
  unfold ident, ident_start in H |- *. rewrite Ha in H. cbn [rbind] in H.
  assert (Ha' : pkl (T ++ R') 0 = Ok a) by (apply (pkl_pre T R 0 a Ha); lia). rewrite Ha'. cbn [rbind].
  destruct (tab_start a).
  { exfalso. cbn [rbind] in H. change (1 <=? 0) with false in H. cbv iota in H.
    destruct (repl (ident_cont1 id_cont) (skipz 1 (T ++ R))) as [m| |] eqn:Em; cbn [rbind] in H; try discriminate.
    pose proof (rep_nonneg _ (ident_cont1_nonneg id_cont) _ _ _ Em). assert (a0 = 1 + m) by congruence. lia. }
  rewrite H192 in H |- *. rewrite Hr in H. cbn [rbind] in H. rewrite Hr'. cbn [rbind].
  destruct (id_start r); [|reflexivity].
  exfalso. cbn [rbind] in H. replace (n <=? 0) with false in H by lia.
  destruct (repl (ident_cont1 id_cont) (skipz n (T ++ R))) as [m| |] eqn:Em; cbn [rbind] in H; try discriminate.
  pose proof (rep_nonneg _ (ident_cont1_nonneg id_cont) _ _ _ Em). assert (a0 = n + m) by congruence. lia.
Qed.

Lemma ws1_decline2 T R R' a r n : R <> [] -> R' <> [] -> no_trunc T = true -> T <> [] ->
  pkl (T ++ R) 0 = Ok a -> (192 <=? a) = true ->
  ws1 is_zs (T ++ R) = Ok 0 -> peek_rune (T ++ R) = Ok (r, n) ->
  ws1 is_zs (T ++ R') = Ok 0.
Proof.
  intros HR HR' HT Hne Ha H192 H Hr. pose proof (peek_rune_pos _ _ _ Hr) as Hnp.
  destruct (peek_rune_local2 T R R' r n HT Hne Hr HR HR') as (Hr' & Hn).
  unfold ws1 in H |- *. rewrite Ha in H. cbn [rbind] in H.
  assert (Ha' : pkl (T ++ R') 0 = Ok a) by (apply (pkl_pre T R 0 a Ha); lia). rewrite Ha'. cbn [rbind].
  destruct ((a =? 32) || (a =? 9) || (a =? 11) || (a =? 12)); [discriminate|].
  rewrite H192 in H |- *. rewrite Hr in H. cbn [rbind] in H. rewrite Hr'. cbn [rbind].
  destruct ((r =? 160) || (r =? 65279) || is_zs r); [|reflexivity].
  exfalso. assert (n = 0) by congruence. lia.
Qed.

Lemma next_extend s pn pl lev tl lev' tl' ty T R' cls :
  relexes id_start id_cont is_zs ty T -> class_of ty = Some cls -> text_ok cls pl T -> no_trunc T = true ->
  seq_inv pn pl lev tl s -> step_state ty lev tl = Some (lev', tl') ->
  (pn = true -> cls <> KIdent) -> suffix (jcur s) = T ++ R' -> wfl R' -> stops cls pl T R' ->
  exists s', next id_start id_cont is_zs s = Ok ((ty, Some T), s') /\
    seq_inv (is_num cls) (plt_after ty pl) lev' tl' s' /\ suffix (jcur s') = R'.
Proof.
  intros (s2 & Hn & Hp & _) Hcls Htxt Hnt (Hw & Hst & Hlev & Htl & Hpnl & Hplt) Hstep Hpn Hsuf HwR' Hstop.
  assert (HR' : R' <> []) by (apply wfl_nonnil; assumption).
  destruct s as [z e0 plt0 pnl0 lev0 tl0]. unfold js_wf in Hw. cbn [jcur jtl jpnl jlevel jplt] in *. subst tl0 pnl0 lev0 pl.
  assert (HT : 0 < len T).
  { destruct T; [|rewrite len_cons; pose proof (len_nonneg T); lia]. exfalso. vm_compute in Hn. discriminate. }
  assert (H0R : [0] <> []) by discriminate.
  unfold next, js_init in Hn. cbv zeta in Hn. cbn [jcur jerr jplt jpnl jlevel jtl] in Hn.
  unfold op_or_err, template in Hn. rewrite ?suffix_mv in Hn by (cbn; lia). rewrite suffix_init in Hn.
  crunch Hn; try discriminate; try (apply err_path_ty in Hn; subst ty; discriminate);
  (apply emit_inv in Hn; destruct Hn as (Hty0 & _ & Hs'); subst s2;
   cbn [jcur set_cur skip mv lpos lx_init] in Hp);
  try (subst ty; discriminate);
  (* numeric literals *)
  try (match goal with
       | E0 : numeric (T ++ [0]) = Ok (?n, ?t, ?e), Hty0 : ty = ?t |- _ =>
           assert (n = len T) by lia; subst n ty;
           pose proof (numeric_ty _ _ _ _ E0) as Hnty;
           assert (Hne : t <> ErrorToken) by (intros ->; discriminate);
           assert (cls = KNum)
             by (unfold class_of, WhitespaceToken, LineTerminatorToken, PrivateIdentifierToken, ErrorToken,
                   CommentToken, CommentLineTerminatorToken, StringToken, TemplateToken, TemplateStartToken in *;
                 repeat match type of Hcls with context [if ?b then _ else _] => destruct b eqn:? end; try lia; congruence);
           subst cls; destruct Hstop as (S1 & S2);
           destruct (hd_cons_nonempty R' HR') as (c & R'' & HRc & Hc); rewrite Hc in *; subst R';
           pose proof (numeric_exchange c R'' S1 T [0] _ _ _ Hnt H0R HT E0 eq_refl Hne S2) as E0';
           open_ext E (c :: R'') Hsuf; rewrite E0'; cbn [rbind];
           replace (negb (t =? ErrorToken)) with true by (unfold ErrorToken in *; lia); cbn [orb]; cbv iota;
           unfold ErrorToken in Hnty, Hne;
           fin_ext z T (c :: R'') Hw Hst Hsuf HR' Hstep
       end);
  (* HTML-like comments "<!--..." and, at the start of a line, "-->..." *)
  try (match goal with
       | E0 : html_comment true (T ++ [0]) = Ok ?n , Hty0 : ty = CommentToken |- _ =>
           assert (n = len T) by lia; subst n ty; injection Hcls as <-; cbn [text_ok stops] in Htxt, Hstop;
           destruct (head_of_pkl T [0] a HT E) as (T' & HTa);
           assert (Hlc : lc_stop R')
             by (destruct Hstop as [Hstop|Hstop]; [exfalso|exact Hstop];
                 rewrite HTa in Hstop; destruct T' as [|t1 T'']; [discriminate|];
                 rewrite !firstz_cons in Hstop by lia; assert (a = 47) by congruence; lia);
           assert (Hform : firstz 4 T = [60; 33; 45; 45] \/ (firstz 3 T = [45; 45; 62] /\ plt0 = true))
             by (destruct Htxt as [Htxt|[Htxt|[Htxt|Htxt]]]; [exfalso|exfalso|left; exact Htxt|right; exact Htxt];
                 rewrite HTa in Htxt; rewrite firstz_cons in Htxt by lia; assert (a = 47) by congruence; lia);
           pose proof (html_comment_exchange_gen T [0] R' true plt0 _ HwR' Hlc H0R Hnt E0 eq_refl Hform) as E0';
           open_ext E R' Hsuf; rewrite E0'; cbn [rbind]; use_conds; fin_ext z T R' Hw Hst Hsuf HR' Hstep
       end);
  (* comments: "/*...*/" in front of anything, "//..." in front of a line terminator or the end of input *)
  try (match goal with
       | E0 : comment (T ++ [0]) = Ok (?n, ?t, ?e, ?sl), Hty0 : ty = ?t |- _ =>
           assert (n = len T) by lia; subst n ty;
           pose proof (comment_ty _ _ _ _ _ E0) as Hcty;
           assert (Hne : t <> ErrorToken) by (intros ->; discriminate);
           pose proof (comment_sl _ _ _ _ _ E0 Hne) as Hsl;
           assert (cls = KComment)
             by (destruct Hcty as [->|[->| ->]]; [congruence|injection Hcls as <-; reflexivity|injection Hcls as <-; reflexivity]);
           subst cls; cbn [text_ok stops] in Htxt, Hstop;
           destruct (head_of_pkl T [0] a HT E) as (T' & HTa);
           assert (E0' : comment (T ++ R') = Ok (len T, t, e, sl))
             by (destruct Htxt as [Htxt|[Htxt|[Htxt|(Htxt & _)]]];
                 [ apply (comment_exchange T [0] R' _ _ _ _ H0R HR' E0 eq_refl Hne Htxt)
                 | destruct Hstop as [Hstop|Hstop]; [rewrite Htxt in Hstop; discriminate|];
                   apply (comment_exchange_line_gen T [0] R' _ _ _ _ HwR' Hstop H0R Hnt E0 eq_refl Htxt)
                 | exfalso; rewrite HTa in Htxt; rewrite firstz_cons in Htxt by lia; assert (a = 60) by congruence; lia
                 | exfalso; rewrite HTa in Htxt; rewrite firstz_cons in Htxt by lia; assert (a = 45) by congruence; lia ]);
           unfold ErrorToken, CommentToken, CommentLineTerminatorToken in Hcty, Hne, Hsl;
           open_ext E R' Hsuf; rewrite E0'; cbn [rbind]; use_conds; destruct sl; fin_ext z T R' Hw Hst Hsuf HR' Hstep
       end);
  (* strings *)
  try (match goal with
       | E0 : string_tok (T ++ [0]) = Ok (?n, ?t, ?e) |- _ =>
           assert (n = len T) by lia; subst n ty;
           assert (Hq : hd 0 T = 34 \/ hd 0 T = 39)
             by (destruct T as [|t0 T']; [discriminate|]; cbn [app hd] in *; rewrite pkl_cons_0 in E;
                 assert (t0 = a) by congruence; lia);
           assert (Hne : t <> ErrorToken)
             by (intros ->; discriminate);
           destruct (string_tok_ty _ _ _ _ E0) as [Ht|Ht]; [exfalso; apply Hne; exact Ht|];
           rewrite Ht in *; injection Hcls as <-;
           pose proof (string_tok_exchange T [0] R' _ _ _ H0R HR' E0 eq_refl Hne Hq) as E0';
           open_ext E R' Hsuf; rewrite E0'; cbn [rbind]; fin_ext z T R' Hw Hst Hsuf HR' Hstep
       end);
  (* templates without substitution *)
  try (match goal with
       | E0 : tpl_loop _ (skipz 1 (T ++ [0])) = Ok (?n, ?o), Hty0 : ty = _ |- _ =>
           assert (1 + n = len T) by lia; subst ty; injection Hcls as <-;
           rewrite skipz_app_le in E0 by lia;
           pose proof (tpl_loop_exchange R' HR' _ _ _ _ _ H0R E0 ltac:(rewrite len_skipz by lia; lia) ltac:(lia)
                         (length (T ++ R')) ltac:(pose proof (length_skipz_le 1 T); rewrite app_length;
                                                   pose proof (nonempty_len R' HR'); unfold len in *; lia)) as E0';
           open_ext E R' Hsuf; unfold template; rewrite Hsuf; xfer2 E R'; rewrite skipz_app_le by lia; rewrite E0';
           cbn [rbind]; use_conds; cbn [jtl set_tl]; fin_ext z T R' Hw Hst Hsuf HR' Hstep
       end).
  - (* ASCII whitespace *)
    subst ty. injection Hcls as <-.
    assert (Hstop0 : ws1 is_zs R' = Ok 0) by (apply ws_stop_ok; assumption).
    assert (Hm : a0 = len T - 1) by lia. rewrite Hm in E0.
    unfold repl in E0. rewrite skipz_app_le in E0 by lia.
    replace (len T - 1) with (len (skipz 1 T)) in E0 by (rewrite len_skipz by lia; lia).
    pose proof (rep_exchange_all _ R' (ws1_local2 is_zs R' HR') Hstop0 (ws1_nonneg is_zs) _ _ _
                  (no_trunc_skipz' 1 T Hnt ltac:(lia)) H0R E0 (length (skipz 1 T ++ R'))
                  ltac:(rewrite app_length; pose proof (nonempty_len R' HR'); unfold len in *; lia)) as E0'.
    open_ext E R' Hsuf. unfold repl. rewrite skipz_app_le by lia. rewrite E0'. cbn [rbind].
    rewrite len_skipz by lia. fin_ext z T R' Hw Hst Hsuf HR' Hstep.
  - (* LF / CR *)
    subst ty. injection Hcls as <-.
    destruct (lt_stop_ok R' HwR' Hstop) as (Hstop0 & Hh10).
    assert (Hm : a0 = len T - 1) by lia. rewrite Hm in E0.
    pose proof (repl_exchange_all lt1 R' T 1 (lt1_local2 R' HR' Hh10) Hstop0 lt1_nonneg' HR' Hnt ltac:(lia) E0) as E0'.
    open_ext E R' Hsuf. rewrite E0'. cbn [rbind]. fin_ext z T R' Hw Hst Hsuf HR' Hstep.
  - (* operators *)
    assert (z0 = len T) by lia. subst z0 ty.
    destruct (op_ty_range2 _ _ _ E0) as [->|Hr]; [discriminate|].
    assert (cls = KPunct).
    { unfold class_of, WhitespaceToken, LineTerminatorToken, PrivateIdentifierToken, StringToken, CommentToken, CommentLineTerminatorToken, TemplateToken, TemplateStartToken in Hcls.
      repeat match type of Hcls with context [if ?b then _ else _] => destruct b eqn:? end; try lia; congruence. }
    subst cls. destruct Hstop as (P1 & P2 & P3 & P4 & P5).
    assert (Hne : z1 <> ErrorToken) by (unfold ErrorToken; lia).
    pose proof (op_canonical_op _ _ _ E0 Hne) as Hb. rewrite firstz_len_app in Hb.
    assert (Hpt : is_punct_ty z1 = true) by (destruct (op_ty_punct _ _ _ E0) as [Hx|Hx]; [congruence|exact Hx]).
    pose proof (op_exchange_exact T z1 R' HwR' Hb Hpt E0 P1 (fun e => P2 (or_introl e))) as E0'.
    open_ext E R' Hsuf. unfold op_or_err. rewrite Hsuf, E0'. cbn [rbind]. use_conds. fin_ext z T R' Hw Hst Hsuf HR' Hstep.
  - (* "..." *)
    subst ty. injection Hcls as <-.
    assert (z1 = 0) by (unfold mark, mv, lx_init in Eb3; cbn [lpos lstart] in Eb3; lia). subst z1.
    rewrite mv_0 in E1, E2. rewrite suffix_mv in E1, E2 by (cbn; lia). rewrite suffix_init in E1, E2.
    rewrite !pkl_skipz in E1, E2 by lia. change (1 + 0) with 1 in E1. change (1 + 1) with 2 in E2.
    assert (a0 = 46) by (destruct (a0 =? 46) eqn:Ea; [lia|congruence]). subst a0.
    change (46 =? 46) with true in E2. cbv iota in E2.
    destruct (pkl (T ++ [0]) 2) as [c2| |] eqn:E3; cbn [rbind] in E2; try discriminate.
    assert (c2 = 46) by (assert ((c2 =? 46) = true) by congruence; lia). subst c2.
    assert (a = 46) by lia. subst a.
    pose proof (three_bytes T [0] 46 46 46 ltac:(lia) E E1 E3). subst T.
    destruct (hd_cons_nonempty R' HR') as (c & R'' & HRc & Hc). subst R'.
    unfold next. cbv zeta. cbn [jcur jerr jplt jpnl jlevel jtl]. rewrite Hsuf. cbn [app]. rewrite pkl_cons_0. cbn [rbind].
    change ((46 =? 32) || (46 =? 9) || (46 =? 11) || (46 =? 12)) with false. cbv iota.
    change ((46 =? 10) || (46 =? 13)) with false. cbv iota. change (is_op_start 46) with false. cbv iota.
    change ((48 <=? 46) && (46 <=? 57) || (46 =? 46)) with true. cbv iota.
    unfold numeric. rewrite pkl_cons_0. cbn [rbind]. change (46 =? 48) with false. change (negb (46 =? 46)) with false. cbv iota.
    unfold num_tail. cbv zeta. rewrite !skipz_0, pkl_cons_0. cbn [rbind]. change (46 =? 46) with true. cbv iota.
    rewrite skipz_1_cons. unfold digit1 at 1. rewrite pkl_cons_0. cbn [rbind].
    change ((48 <=? 46) && (46 <=? 57)) with false. cbv iota. change (0 <? 0) with false. cbv iota. cbn [rbind].
    change (negb (ErrorToken =? ErrorToken)) with false. cbn [orb].
    rewrite mv_0. replace (mark z =? 0) with true by (unfold mark; lia). cbn [negb]. cbv iota.
    rewrite suffix_mv by (destruct Hw as (_ & ? & _); lia). rewrite Hsuf. cbn [app]. rewrite skipz_1_cons.
    rewrite pkl_cons_0, pkl_1. cbn [rbind]. change (46 =? 46) with true. cbv iota. cbn [rbind].
    rewrite mv_mv. change (1 + 2) with (len [46; 46; 46]). fin_ext z [46; 46; 46] (c :: R'') Hw Hst Hsuf HR' Hstep.
  - (* "." *)
    subst ty. injection Hcls as <-.
    assert (z1 = 0) by (unfold mark, mv, lx_init in Eb3; cbn [lpos lstart] in Eb3; lia). subst z1.
    assert (a = 46) by lia. subst a.
    pose proof (single_byte T [0] 46 ltac:(lia) E). subst T.
    destruct Hstop as (P1 & P2 & _). specialize (P2 (or_intror eq_refl)).
    destruct P1 as [P1|(P1 & _)]; [|discriminate P1].
    destruct (hd_cons_nonempty R' HR') as (c & R'' & HRc & Hc). rewrite Hc in *. subst R'.
    exts_compute P1.
    unfold next. cbv zeta. cbn [jcur jerr jplt jpnl jlevel jtl]. rewrite Hsuf. cbn [app]. rewrite pkl_cons_0. cbn [rbind].
    change ((46 =? 32) || (46 =? 9) || (46 =? 11) || (46 =? 12)) with false. cbv iota.
    change ((46 =? 10) || (46 =? 13)) with false. cbv iota. change (is_op_start 46) with false. cbv iota.
    change ((48 <=? 46) && (46 <=? 57) || (46 =? 46)) with true. cbv iota.
    unfold numeric. rewrite pkl_cons_0. cbn [rbind]. change (46 =? 48) with false. change (negb (46 =? 46)) with false. cbv iota.
    unfold num_tail. cbv zeta. rewrite !skipz_0, pkl_cons_0. cbn [rbind]. change (46 =? 46) with true. cbv iota.
    rewrite skipz_1_cons. unfold digit1 at 1. rewrite pkl_cons_0. cbn [rbind].
    replace ((48 <=? c) && (c <=? 57)) with false by lia. change (0 <? 0) with false. cbv iota. cbn [rbind].
    change (negb (ErrorToken =? ErrorToken)) with false. cbn [orb].
    rewrite mv_0. replace (mark z =? 0) with true by (unfold mark; lia). cbn [negb]. cbv iota.
    rewrite suffix_mv by (destruct Hw as (_ & ? & _); lia). rewrite Hsuf. cbn [app]. rewrite skipz_1_cons.
    rewrite pkl_cons_0. cbn [rbind].
    destruct (c =? 46) eqn:Ec46.
    + assert (c = 46) by lia. subst c. destruct (wfl_cons_nz 46 R'' HwR' ltac:(lia)) as (_ & HR''ne).
      destruct R'' as [|c2 R3]; [congruence|]. rewrite pkl_1. cbn [rbind].
      replace (c2 =? 46) with false by lia. cbv iota. cbn [rbind].
      change 1 with (len [46]) at 1. fin_ext z [46] (46 :: c2 :: R3) Hw Hst Hsuf HR' Hstep.
    + cbn [rbind]. change 1 with (len [46]) at 1. fin_ext z [46] (c :: R'') Hw Hst Hsuf HR' Hstep.
  - (* PUNCT *)
    subst ty. injection Hcls as <-.
    pose proof (single_byte T [0] a ltac:(lia) E) as HT1. subst T.
    open_ext E R' Hsuf. change 1 with (len [a]) at 1. fin_ext z [a] R' Hw Hst Hsuf HR' Hstep.
  - (* PUNCT *)
    subst ty. injection Hcls as <-.
    pose proof (single_byte T [0] a ltac:(lia) E) as HT1. subst T.
    open_ext E R' Hsuf. change 1 with (len [a]) at 1. fin_ext z [a] R' Hw Hst Hsuf HR' Hstep.
  - (* PUNCT *)
    subst ty. injection Hcls as <-.
    pose proof (single_byte T [0] a ltac:(lia) E) as HT1. subst T.
    open_ext E R' Hsuf. change 1 with (len [a]) at 1. fin_ext z [a] R' Hw Hst Hsuf HR' Hstep.
  - (* PUNCT *)
    subst ty. injection Hcls as <-.
    pose proof (single_byte T [0] a ltac:(lia) E) as HT1. subst T.
    open_ext E R' Hsuf. change 1 with (len [a]) at 1. fin_ext z [a] R' Hw Hst Hsuf HR' Hstep.
  - (* '/' and '/=' *)
    assert (z2 = ErrorToken /\ z0 = ENone) as (-> & ->) by (unfold ErrorToken, ENone in *; lia).
    destruct (comment_err_shape _ _ _ E0) as (c1 & Ec1 & E47 & E42 & -> & ->).
    rewrite mv_0 in E1. rewrite suffix_init in E1.
    assert (z3 = len T) by lia. subst z3 ty.
    destruct (op_ty_range2 _ _ _ E1) as [->|Hr]; [discriminate|].
    assert (cls = KPunct).
    { unfold class_of, WhitespaceToken, LineTerminatorToken, PrivateIdentifierToken, StringToken, CommentToken, CommentLineTerminatorToken, TemplateToken, TemplateStartToken in Hcls.
      repeat match type of Hcls with context [if ?b then _ else _] => destruct b eqn:? end; try lia; congruence. }
    subst cls. destruct Hstop as (P1 & P2 & P3 & P4 & P5).
    assert (Hne4 : z4 <> ErrorToken) by (unfold ErrorToken; lia).
    pose proof (op_canonical_op _ _ _ E1 Hne4) as Hb. rewrite firstz_len_app in Hb.
    assert (Hpt : is_punct_ty z4 = true) by (destruct (op_ty_punct _ _ _ E1) as [Hx|Hx]; [congruence|exact Hx]).
    pose proof (op_exchange_exact T z4 R' HwR' Hb Hpt E1 P1 (fun e => P2 (or_introl e))) as E1'.
    destruct (hd_cons_nonempty R' HR') as (c & R'' & HRc & Hc). rewrite Hc in *. subst R'.
    (* the comment scanner declines in front of c as well *)
    assert (E0' : comment (T ++ c :: R'') = Ok (0, ErrorToken, ENone, false)).
    { unfold comment.
      destruct T as [|t0 [|t1 T]]; [change (len (@nil Z)) with 0 in HT; lia| |]; cbn [app] in *.
      - assert (Hc47 : c <> 47 /\ c <> 42).
        { rewrite pkl_cons_0 in E. assert (Ht0 : t0 = 47) by (assert (t0 = a) by congruence; lia).
          apply P3. rewrite Ht0. reflexivity. }
        rewrite pkl_1. cbn [rbind]. replace (c =? 47) with false by lia. replace (c =? 42) with false by lia. reflexivity.
      - rewrite pkl_1 in Ec1 |- *. cbn [rbind]. assert (t1 = c1) by congruence. subst t1. rewrite E47, E42. reflexivity. }
    open_ext E (c :: R'') Hsuf. rewrite E0'. cbn [rbind]. cbn [negb Z.eqb ErrorToken ENone orb]. cbv iota.
    unfold op_or_err. rewrite mv_0, Hsuf, E1'. cbn [rbind]. use_conds. fin_ext z T (c :: R'') Hw Hst Hsuf HR' Hstep.
  - (* PUNCT *)
    subst ty. injection Hcls as <-.
    pose proof (single_byte T [0] a ltac:(lia) E) as HT1. subst T.
    open_ext E R' Hsuf. change 1 with (len [a]) at 1. fin_ext z [a] R' Hw Hst Hsuf HR' Hstep.
  - (* "}" that does not resume a template *)
    subst ty. injection Hcls as <-.
    pose proof (single_byte T [0] a ltac:(lia) E) as HT1. subst T.
    assert (Hs14 : step_state CloseBraceToken lev tl =
                   match tl with top :: _ => if lev - 1 =? top then None else Some (lev - 1, tl) | [] => Some (lev - 1, tl) end)
      by reflexivity.
    rewrite Hs14 in Hstep. clear Hs14.
    open_ext E R' Hsuf. cbn [jtl set_level jlevel].
    destruct tl as [|top rest].
    + injection Hstep as <- <-. change 1 with (len [a]) at 1. fin_ext_gen z [a] R' Hw Hst Hsuf HR'.
    + destruct (lev - 1 =? top) eqn:Et; [discriminate|]. injection Hstep as <- <-.
      change 1 with (len [a]) at 1. fin_ext_gen z [a] R' Hw Hst Hsuf HR'.
  - (* PUNCT *)
    subst ty. injection Hcls as <-.
    pose proof (single_byte T [0] a ltac:(lia) E) as HT1. subst T.
    open_ext E R' Hsuf. change 1 with (len [a]) at 1. fin_ext z [a] R' Hw Hst Hsuf HR' Hstep.
  - (* PUNCT *)
    subst ty. injection Hcls as <-.
    pose proof (single_byte T [0] a ltac:(lia) E) as HT1. subst T.
    open_ext E R' Hsuf. change 1 with (len [a]) at 1. fin_ext z [a] R' Hw Hst Hsuf HR' Hstep.
  - (* PUNCT *)
    subst ty. injection Hcls as <-.
    pose proof (single_byte T [0] a ltac:(lia) E) as HT1. subst T.
    open_ext E R' Hsuf. change 1 with (len [a]) at 1. fin_ext z [a] R' Hw Hst Hsuf HR' Hstep.
  - (* '<' and '-' operators *)
    assert (z0 = len T) by lia. subst z0 ty.
    destruct (op_ty_range2 _ _ _ E1) as [->|Hr]; [discriminate|].
    assert (cls = KPunct).
    { unfold class_of, WhitespaceToken, LineTerminatorToken, PrivateIdentifierToken, StringToken, CommentToken, CommentLineTerminatorToken, TemplateToken, TemplateStartToken in Hcls.
      repeat match type of Hcls with context [if ?b then _ else _] => destruct b eqn:? end; try lia; congruence. }
    subst cls. destruct Hstop as (P1 & P2 & P3 & P4 & P5).
    assert (Hne1 : z1 <> ErrorToken) by (unfold ErrorToken; lia).
    pose proof (op_canonical_op _ _ _ E1 Hne1) as Hb. rewrite firstz_len_app in Hb.
    assert (Hpt : is_punct_ty z1 = true) by (destruct (op_ty_punct _ _ _ E1) as [Hx|Hx]; [congruence|exact Hx]).
    pose proof (op_exchange_exact T z1 R' HwR' Hb Hpt E1 P1 (fun e => P2 (or_introl e))) as E1'.
    assert (P1' : longer_punct T R' = false).
    { destruct P1 as [P1|(P1 & _)]; [exact P1|]. exfalso. rewrite P1 in E. cbn [app] in E. rewrite pkl_cons_0 in E.
      assert (a = 63) by congruence. lia. }
    pose proof (html_decline_exact plt0 T z1 R' HwR' Hb Hpt E1 P1' P4 P5) as E0'.
    open_ext E R' Hsuf. rewrite E0'. cbn [rbind]. change (0 <? 0) with false. cbv iota.
    unfold op_or_err. rewrite Hsuf, E1'. cbn [rbind]. use_conds. fin_ext z T R' Hw Hst Hsuf HR' Hstep.
  - (* private identifiers *)
    subst ty. injection Hcls as <-.
    assert (Hstop0 : ident_cont1 id_cont R' = Ok 0) by (apply ident_stop_ok; assumption).
    rewrite skipz_app_le in E0 by lia.
    assert (Ha0 : a0 = len (skipz 1 T)) by (rewrite len_skipz by lia; lia). rewrite Ha0 in E0.
    pose proof (ident_exchange id_start id_cont R' HR' _ _ (no_trunc_skipz' 1 T Hnt ltac:(lia)) H0R E0 ltac:(lia) Hstop0) as E0'.
    open_ext E R' Hsuf. rewrite suffix_mv by (destruct Hw as (_ & ? & _); lia). rewrite Hsuf.
    rewrite skipz_app_le by lia. rewrite E0'. cbn [rbind]. rewrite <- Ha0. use_conds. rewrite mv_mv.
    fin_ext z T R' Hw Hst Hsuf HR' Hstep.
  - (* keywords *)
    assert (a0 = len T) by lia. subst a0.
    apply lexeme_slice in Em. rewrite slice_mv in Em by reflexivity. rewrite suffix_init, firstz_len_app in Em. subst l ty.
    pose proof (lookup_kw_in _ _ _ Em0) as Hin. pose proof kw_types as K. rewrite forallb_forall in K.
    specialize (K _ Hin). cbn [snd] in K. clear Hin.
    assert (cls = KIdent).
    { unfold class_of, WhitespaceToken, LineTerminatorToken, PrivateIdentifierToken, StringToken, CommentToken, CommentLineTerminatorToken, TemplateToken, TemplateStartToken in Hcls.
      repeat match type of Hcls with context [if ?b then _ else _] => destruct b eqn:? end; try lia; congruence. }
    subst cls.
    assert (Hstop0 : ident_cont1 id_cont R' = Ok 0) by (apply ident_stop_ok; assumption).
    pose proof (ident_exchange id_start id_cont R' HR' _ _ Hnt H0R E0 HT Hstop0) as E0'.
    assert (pn = false) by (destruct pn; [exfalso; apply Hpn; reflexivity|reflexivity]). subst pn.
    open_ext E R' Hsuf. rewrite E0'. cbn [rbind]. use_conds.
    assert (Hlex : lexeme (mv z (len T)) = Some T).
    { destruct (emit_at (mkJst z 0 false false 0 []) z T R' 0 Hw Hst Hsuf HR') as (He & _ & _).
      unfold emit, shift in He. destruct (lexeme (mv z (len T))) as [w|]; [|discriminate]. congruence. }
    rewrite Hlex, Em0. fin_ext z T R' Hw Hst Hsuf HR' Hstep.
  - (* identifiers *)
    assert (a0 = len T) by lia. subst a0.
    apply lexeme_slice in Em. rewrite slice_mv in Em by reflexivity. rewrite suffix_init, firstz_len_app in Em. subst l ty.
    injection Hcls as <-.
    assert (Hstop0 : ident_cont1 id_cont R' = Ok 0) by (apply ident_stop_ok; assumption).
    pose proof (ident_exchange id_start id_cont R' HR' _ _ Hnt H0R E0 HT Hstop0) as E0'.
    assert (pn = false) by (destruct pn; [exfalso; apply Hpn; reflexivity|reflexivity]). subst pn.
    open_ext E R' Hsuf. rewrite E0'. cbn [rbind]. use_conds.
    assert (Hlex : lexeme (mv z (len T)) = Some T).
    { destruct (emit_at (mkJst z 0 false false 0 []) z T R' 0 Hw Hst Hsuf HR') as (He & _ & _).
      unfold emit, shift in He. destruct (lexeme (mv z (len T))) as [w|]; [|discriminate]. congruence. }
    rewrite Hlex, Em0. fin_ext z T R' Hw Hst Hsuf HR' Hstep.
  - (* whitespace that starts with a non-ASCII space *)
    subst ty. injection Hcls as <-.
    assert (Hstop0 : ws1 is_zs R' = Ok 0) by (apply ws_stop_ok; assumption).
    assert (HTne : T <> []) by (apply len_pos_nonempty; lia).
    pose proof (rep_nonneg _ (ws1_nonneg is_zs) _ _ _ E2) as Ha2.
    assert (Hr : exists r, peek_rune (T ++ [0]) = Ok (r, a1)).
    { unfold ws1 in E1. rewrite E in E1. cbn [rbind] in E1.
      destruct ((a =? 32) || (a =? 9) || (a =? 11) || (a =? 12)); [discriminate|]. rewrite Eb18 in E1.
      destruct (peek_rune (T ++ [0])) as [[r n]| |]; cbn [rbind] in E1; try discriminate.
      destruct ((r =? 160) || (r =? 65279) || is_zs r); [|assert (a1 = 0) by congruence; lia].
      exists r. congruence. }
    destruct Hr as (r & Hr).
    pose proof (ident_decline2 T [0] R' a a0 r a1 H0R HR' Hnt HTne E Eb18 E0 Eb17 Hr) as E0'.
    pose proof (ws1_local2 is_zs R' HR' T [0] a1 Hnt H0R E1 ltac:(lia)) as E1'.
    assert (Hm : a2 = len T - a1) by lia. rewrite Hm in E2.
    pose proof (repl_exchange_all _ R' T a1 (ws1_local2 is_zs R' HR') Hstop0 (ws1_nonneg is_zs) HR' Hnt ltac:(lia) E2) as E2'.
    open_ext E R' Hsuf. rewrite E0'. cbn [rbind]. change (0 <? 0) with false. cbv iota. use_conds.
    rewrite E1'. cbn [rbind]. use_conds. rewrite E2'. cbn [rbind]. fin_ext z T R' Hw Hst Hsuf HR' Hstep.
  - (* U+2028 / U+2029 *)
    subst ty. injection Hcls as <-.
    destruct (lt_stop_ok R' HwR' Hstop) as (Hstop0 & Hh10).
    assert (HTne : T <> []) by (apply len_pos_nonempty; lia).
    pose proof (rep_nonneg _ lt1_nonneg' _ _ _ E3) as Ha3.
    assert (a1 = 0) by (pose proof (ws1_nonneg is_zs _ _ E1); lia). subst a1.
    assert (Ha2 : a = 226 /\ a2 = 3).
    { unfold lt1 in E2. rewrite E in E2. cbn [rbind] in E2.
      destruct (a =? 10); [lia|]. destruct (a =? 13); [lia|]. destruct (a =? 226) eqn:E226; [|assert (a2 = 0) by congruence; lia].
      split; [lia|]. crunch E2; assert (a2 = 3 \/ a2 = 0) as [?|?] by (injection E2; lia); lia. }
    destruct Ha2 as (-> & ->).
    assert (Hr : exists r n, peek_rune (T ++ [0]) = Ok (r, n)).
    { unfold ws1 in E1. rewrite E in E1. cbn [rbind] in E1. cbn [Z.eqb orb] in E1. rewrite Eb18 in E1.
      destruct (peek_rune (T ++ [0])) as [[r n]| |] eqn:Er; cbn [rbind] in E1; try discriminate. eauto. }
    destruct Hr as (r & n & Hr).
    pose proof (ident_decline2 T [0] R' 226 a0 r n H0R HR' Hnt HTne E Eb18 E0 Eb17 Hr) as E0'.
    pose proof (ws1_decline2 T [0] R' 226 r n H0R HR' Hnt HTne E Eb18 E1 Hr) as E1'.
    pose proof (lt1_local2 R' HR' Hh10 T [0] 3 Hnt H0R E2 ltac:(lia)) as E2'.
    assert (Hm : a3 = len T - 3) by lia. rewrite Hm in E3.
    pose proof (repl_exchange_all lt1 R' T 3 (lt1_local2 R' HR' Hh10) Hstop0 lt1_nonneg' HR' Hnt ltac:(lia) E3) as E3'.
    open_ext E R' Hsuf. rewrite E0'. cbn [rbind]. change (0 <? 0) with false. cbv iota. use_conds.
    rewrite E1'. cbn [rbind]. change (0 <? 0) with false. cbv iota.
    rewrite E2'. cbn [rbind]. change (0 <? 3) with true. cbv iota. rewrite E3'. cbn [rbind]. fin_ext z T R' Hw Hst Hsuf HR' Hstep.
Qed.

(* --- template continuations ------------------------------------------------------------------------ *)
(* a template head "`body${" (or a whole template "`body`") lexed on its own: what the body loop returned *)
Lemma tpl_of_relex ty0 body : relexes id_start id_cont is_zs ty0 (96 :: body) ->
  ty0 = TemplateStartToken \/ ty0 = TemplateToken ->
  tpl_loop (length ((96 :: body) ++ [0])) (body ++ [0]) = Ok (len body, if ty0 =? TemplateStartToken then 1 else 0).
Proof.
  intros (s2 & Hn & Hp & _) Hty.
  unfold next, js_init in Hn. cbv zeta in Hn. cbn [jcur jerr jplt jpnl jlevel jtl] in Hn.
  unfold op_or_err, template in Hn. rewrite ?suffix_mv in Hn by (cbn; lia). rewrite suffix_init in Hn.
  destruct (pkl ((96 :: body) ++ [0]) 0) as [a| |] eqn:E; cbn [rbind] in Hn; try discriminate.
  assert (a = 96) by (cbn [app] in E; rewrite pkl_cons_0 in E; congruence). subst a.
  crunch Hn; try discriminate; try (exfalso; unfold is_op_start in *; lia);
    try (apply err_path_ty in Hn; destruct Hty; subst; discriminate);
    (apply emit_inv in Hn; destruct Hn as (Hty0 & _ & Hs'); subst s2; cbn [jcur set_cur skip mv lpos lx_init] in Hp);
    try (exfalso; destruct Hty; subst ty0; discriminate).
  all: rewrite len_cons in Hp; change (skipz 1 ((96 :: body) ++ [0])) with (body ++ [0]) in *.
  - assert (z = len body) by lia. subst z. assert (z0 = 0) by lia. subst z0.
    destruct Hty as [->| ->]; [discriminate|]. exact E0.
  - assert (z = len body) by lia. subst z. assert (z0 = 1) by lia. subst z0.
    destruct Hty as [->| ->]; [|discriminate]. exact E0.
Qed.

(* "}body${" / "}body`" in a state where a template is waiting at this brace level *)
Lemma next_cont s pn pl lev tl lev' tl' ty ty0 body R' :
  (ty = TemplateMiddleToken /\ ty0 = TemplateStartToken) \/ (ty = TemplateEndToken /\ ty0 = TemplateToken) ->
  relexes id_start id_cont is_zs ty0 (96 :: body) ->
  seq_inv pn pl lev tl s -> step_state ty lev tl = Some (lev', tl') ->
  suffix (jcur s) = (125 :: body) ++ R' -> R' <> [] ->
  exists s', next id_start id_cont is_zs s = Ok ((ty, Some (125 :: body)), s') /\
    seq_inv false false lev' tl' s' /\ suffix (jcur s') = R'.
Proof.
  intros Hk Hre (Hw & Hst & Hlev & Htl & Hpnl & Hplt) Hstep Hsuf HR'.
  destruct s as [z e0 plt0 pnl0 lev0 tl0]. unfold js_wf in Hw. cbn [jcur jtl jpnl jlevel jplt] in *. subst tl0 pnl0 lev0 pl.
  assert (Hty0 : ty0 = TemplateStartToken \/ ty0 = TemplateToken) by (destruct Hk as [(_ & ->)|(_ & ->)]; auto).
  pose proof (tpl_of_relex ty0 body Hre Hty0) as Htp.
  assert (H0R : [0] <> []) by discriminate.
  assert (Ho2 : (if ty0 =? TemplateStartToken then 1 else 0) <> 2) by (destruct (ty0 =? TemplateStartToken); discriminate).
  pose proof (tpl_loop_exchange R' HR' _ _ _ _ _ H0R Htp eq_refl Ho2
                (length ((125 :: body) ++ R'))
                ltac:(cbn [app length]; rewrite app_length; pose proof (nonempty_len R' HR'); unfold len in *; lia)) as Htp'.
  (* a template is waiting at this level *)
  assert (Htop : exists top rest, tl = top :: rest /\ (lev - 1 =? top) = true).
  { unfold step_state in Hstep. destruct Hk as [(-> & _)|(-> & _)]; cbn in Hstep;
      (destruct tl as [|top rest]; [discriminate|]); exists top, rest; (split; [reflexivity|]);
      destruct (lev - 1 =? top); [reflexivity|discriminate|reflexivity|discriminate]. }
  destruct Htop as (top & rest & -> & Htop).
  unfold next. cbv zeta. cbn [jcur jerr jplt jpnl jlevel jtl]. rewrite Hsuf. cbn [app]. rewrite pkl_cons_0. cbn [rbind].
  change ((125 =? 32) || (125 =? 9) || (125 =? 11) || (125 =? 12)) with false. cbv iota.
  change ((125 =? 10) || (125 =? 13)) with false. cbv iota. change (is_op_start 125) with false. cbv iota.
  change ((48 <=? 125) && (125 <=? 57) || (125 =? 46)) with false. cbv iota.
  change (125 =? 44) with false. change (125 =? 59) with false. change (125 =? 40) with false. change (125 =? 41) with false.
  change (125 =? 47) with false. change (125 =? 123) with false. change (125 =? 125) with true. cbv iota.
  cbn [jtl set_level jlevel]. rewrite Htop.
  unfold template. change (suffix z) with (suffix z). rewrite Hsuf. cbn [app]. rewrite pkl_cons_0. cbn [rbind].
  change (125 =? 125) with true. rewrite skipz_1_cons. cbn [app] in Htp'. rewrite Htp'. cbn [rbind].
  assert (Hsuf' : suffix z = (125 :: body) ++ R') by exact Hsuf.
  assert (Hlen : 1 + len body = len (125 :: body)) by (rewrite len_cons; reflexivity).
  destruct Hk as [(-> & ->)|(-> & ->)].
  - change (TemplateStartToken =? TemplateStartToken) with true. cbv iota. change (1 =? 0) with false. change (1 =? 1) with true. cbv iota.
    rewrite Hlen.
    match goal with |- context [emit ?s1 (mv z _) ?t] =>
      destruct (emit_at s1 z (125 :: body) R' t Hw Hst Hsuf' HR') as (He & Hw' & Hs') end.
    rewrite He. eexists. split; [reflexivity|]. split; [|exact Hs'].
    unfold step_state in Hstep. cbn in Hstep. rewrite Htop in Hstep. injection Hstep as <- <-.
    unfold seq_inv, js_wf. cbn [jcur jtl jpnl jplt jlevel set_cur set_level]. split; [exact Hw'|]. repeat split; reflexivity.
  - change (TemplateToken =? TemplateStartToken) with false. cbv iota. change (0 =? 0) with true. cbv iota.
    cbn [jtl set_level]. rewrite Hlen.
    match goal with |- context [emit ?s1 (mv z _) ?t] =>
      destruct (emit_at s1 z (125 :: body) R' t Hw Hst Hsuf' HR') as (He & Hw' & Hs') end.
    rewrite He. eexists. split; [reflexivity|]. split; [|exact Hs'].
    unfold step_state in Hstep. cbn in Hstep. rewrite Htop in Hstep. injection Hstep as <- <-.
    unfold seq_inv, js_wf. cbn [jcur jtl jpnl jplt jlevel set_cur set_level set_tl]. split; [exact Hw'|]. repeat split; reflexivity.
Qed.

(* --- regular expression literals ------------------------------------------------------------------- *)
(* the token Next returns on the '/' that opens the literal *)
Definition slash_tok (body : list Z) : tok :=
  if hd 0 body =? 61 then (DivEqToken, Some [47; 61]) else (DivToken, Some [47]).

(* "/body/flags" followed by a byte that is not a flag character: Next returns '/' (or '/=' when the body
   starts with '='), RegExp() re-reads the whole literal; afterwards the lexer stands behind the flags,
   brace level and open templates are unchanged *)
Lemma next_regex s pn pl lev tl body flags R' :
  re_body false body -> body <> [] -> hd 0 body <> 42 ->
  re_flags id_cont flags -> flag_stop id_cont R' -> wfl R' ->
  seq_inv pn pl lev tl s -> suffix (jcur s) = re_lit body flags ++ R' ->
  exists s1 s2, next id_start id_cont is_zs s = Ok (slash_tok body, s1) /\
    regexp id_cont s1 = Ok ((RegExpToken, Some (re_lit body flags)), s2) /\
    seq_inv false false lev tl s2 /\ suffix (jcur s2) = R'.
Proof.
  intros Hb Hne H42 Hf Hfs HwR' (Hw & Hst & Hlev & Htl & Hpnl & Hplt) Hsuf.
  destruct (hd_cons_nonempty R' (wfl_nonnil _ HwR')) as (r0 & rest0 & -> & Hhd).
  pose proof (flags_run_gen id_cont flags r0 rest0 Hf HwR' Hfs) as Hrun.
  set (pre := firstz (lpos (jcur s)) (lbuf (jcur s))).
  assert (Hbuf : lbuf (jcur s) = pre ++ re_lit body flags ++ r0 :: rest0).
  { rewrite <- Hsuf. unfold pre, suffix. symmetry. apply firstz_skipz. }
  assert (Hpre : len pre = lpos (jcur s)).
  { unfold pre. apply len_firstz. destruct Hw as (_ & H1 & H2). unfold lx_len in H2. lia. }
  pose proof (re_body_head _ Hb) as H47.
  destruct body as [|b0 body']; [congruence|]. cbn [hd] in *.
  assert (HT : exists t0 T, body' ++ 47 :: flags ++ r0 :: rest0 = t0 :: T).
  { destruct body' as [|x body'']; cbn [app]; eauto. }
  destruct HT as (t0 & T & HT).
  assert (Hbuf' : lbuf (jcur s) = pre ++ 47 :: b0 :: t0 :: T).
  { rewrite Hbuf. unfold re_lit. cbn [app]. rewrite <- app_assoc. cbn [app]. rewrite HT. reflexivity. }
  destruct (next_slash id_start id_cont is_zs pre b0 t0 T s H42 H47 Hbuf' (eq_sym Hpre) ltac:(congruence))
    as (t1 & s1 & k & Hn & Hb1 & Hp1 & Hk).
  assert (Hk' : k = 1 \/ (k = 2 /\ exists b', b0 :: body' = 61 :: b')).
  { destruct Hk as [(-> & _ & _)|(-> & _ & ->)]; [left; reflexivity|right; split; [reflexivity|eauto]]. }
  destruct (regexp_at_gen id_cont pre (b0 :: body') flags r0 rest0 s1 k Hb Hrun HwR' ltac:(congruence) Hp1 Hk')
    as (s2 & Hre & Hp2 & Hs2 & Hb2).
  assert (Ht1 : t1 = slash_tok (b0 :: body')).
  { unfold slash_tok. cbn [hd]. destruct Hk as [(_ & -> & Hb0)|(_ & -> & Hb0)].
    - replace (b0 =? 61) with false by lia. reflexivity.
    - replace (b0 =? 61) with true by lia. reflexivity. }
  assert (Hdiv : fst t1 = DivToken \/ fst t1 = DivEqToken)
    by (destruct Hk as [(_ & -> & _)|(_ & -> & _)]; cbn [fst]; auto).
  destruct t1 as (ty1 & od1). cbn [fst] in Hdiv.
  destruct (next_flags_div id_start id_cont is_zs s ty1 od1 s1 Hn Hdiv) as (Hl1 & Htl1 & Hpn1 & Hpl1).
  destruct (regexp_flags id_cont s1 _ s2 Hre) as (Hl2 & Htl2 & Hpn2 & Hpl2).
  exists s1, s2. split; [rewrite <- Ht1; exact Hn|]. split; [exact Hre|].
  assert (Hb2' : lbuf (jcur s2) = pre ++ re_lit (b0 :: body') flags ++ r0 :: rest0) by congruence.
  assert (Hlen2 : len (lbuf (jcur s2)) = len pre + len (re_lit (b0 :: body') flags) + len (r0 :: rest0))
    by (rewrite Hb2', !len_app; lia).
  pose proof (len_nonneg pre). pose proof (len_nonneg (re_lit (b0 :: body') flags)).
  pose proof (len_nonneg rest0). rewrite len_cons in Hlen2.
  split.
  - unfold seq_inv, js_wf. split; [|repeat split; congruence].
    unfold lx_wf, lx_len. split; [|lia].
    destruct Hw as ((d & Hd) & _). exists d. congruence.
  - unfold suffix. rewrite Hp2, Hb2', app_assoc, <- len_app. apply skipz_app_exact.
Qed.

(* --- sequences -------------------------------------------------------------------------------------- *)
(* an item of a sequence: a token (type and text) or a regular expression literal /body/flags, for which
   the parser calls Next (giving '/' or '/=') and then RegExp *)
Inductive item := ITok (ty : Z) (T : list Z) | IRegex (body flags : list Z).
Definition item_text (it : item) : list Z := match it with ITok _ T => T | IRegex b f => re_lit b f end.
Definition item_ops (it : item) : list jop := match it with ITok _ _ => [ONext] | IRegex _ _ => [ONext; ORegExp] end.
Definition item_toks (it : item) : list tok :=
  match it with
  | ITok ty T => [(ty, Some T)]
  | IRegex b f => [slash_tok b; (RegExpToken, Some (re_lit b f))]
  end.
Definition texts (its : list item) : list Z := concat (map item_text its).
Definition ops_of (its : list item) : list jop := concat (map item_ops its).
Definition toks_of (its : list item) : list tok := concat (map item_toks its).
(* what follows an item: the texts of the rest of the sequence, then the terminator *)
Definition after (rest : list item) : list Z := texts rest ++ [0].

(* seq_ok pn pl lev tl its: its can be lexed from a state with brace level lev and open templates tl;
   pn says that the token before its is a numeric literal (then its must not start with an identifier:
   "1a" is a lexical error), pl that its starts a line (only then "-->" opens a comment) *)
Inductive seq_ok : bool -> bool -> Z -> list Z -> list item -> Prop :=
| sq_nil pn pl lev tl : seq_ok pn pl lev tl []
| sq_cons pn pl lev tl lev' tl' ty T rest cls :
    relexes id_start id_cont is_zs ty T -> class_of ty = Some cls -> text_ok cls pl T -> no_trunc T = true ->
    (pn = true -> cls <> KIdent) -> step_state ty lev tl = Some (lev', tl') ->
    stop_for cls T (after rest) -> seq_ok (is_num cls) (plt_after ty pl) lev' tl' rest ->
    seq_ok pn pl lev tl (ITok ty T :: rest)
| sq_cont pn pl lev tl lev' tl' ty ty0 body rest :
    (ty = TemplateMiddleToken /\ ty0 = TemplateStartToken) \/ (ty = TemplateEndToken /\ ty0 = TemplateToken) ->
    relexes id_start id_cont is_zs ty0 (96 :: body) -> step_state ty lev tl = Some (lev', tl') ->
    seq_ok false false lev' tl' rest -> seq_ok pn pl lev tl (ITok ty (125 :: body) :: rest)
| sq_regex pn pl lev tl body flags rest :
    re_body false body -> body <> [] -> hd 0 body <> 42 -> Forall (fun c => tab_cont c = true) flags ->
    tab_cont (hd 0 (after rest)) = false -> hd 0 (after rest) < 192 ->
    seq_ok false false lev tl rest -> seq_ok pn pl lev tl (IRegex body flags :: rest).

Lemma after_wfl rest : wfl (after rest).
Proof. exists (texts rest). reflexivity. Qed.

(* seq_exact: as seq_ok, with the exact follower conditions stops / flag_stop and all flags re_flags allows *)
Inductive seq_exact : bool -> bool -> Z -> list Z -> list item -> Prop :=
| sx_nil pn pl lev tl : seq_exact pn pl lev tl []
| sx_cons pn pl lev tl lev' tl' ty T rest cls :
    relexes id_start id_cont is_zs ty T -> class_of ty = Some cls -> text_ok cls pl T -> no_trunc T = true ->
    (pn = true -> cls <> KIdent) -> step_state ty lev tl = Some (lev', tl') ->
    stops cls pl T (after rest) -> seq_exact (is_num cls) (plt_after ty pl) lev' tl' rest ->
    seq_exact pn pl lev tl (ITok ty T :: rest)
| sx_cont pn pl lev tl lev' tl' ty ty0 body rest :
    (ty = TemplateMiddleToken /\ ty0 = TemplateStartToken) \/ (ty = TemplateEndToken /\ ty0 = TemplateToken) ->
    relexes id_start id_cont is_zs ty0 (96 :: body) -> step_state ty lev tl = Some (lev', tl') ->
    seq_exact false false lev' tl' rest -> seq_exact pn pl lev tl (ITok ty (125 :: body) :: rest)
| sx_regex pn pl lev tl body flags rest :
    re_body false body -> body <> [] -> hd 0 body <> 42 -> re_flags id_cont flags ->
    flag_stop id_cont (after rest) ->
    seq_exact false false lev tl rest -> seq_exact pn pl lev tl (IRegex body flags :: rest).

(* the sufficient conditions imply the exact ones *)
Lemma stop_for_stops cls pl ty T R' : relexes id_start id_cont is_zs ty T -> class_of ty = Some cls -> wfl R' ->
  stop_for cls T R' -> stops cls pl T R'.
Proof.
  intros (s2 & Hn & _) Hcls Hw Hs.
  assert (HT : T <> []) by (intros ->; vm_compute in Hn; discriminate).
  destruct (hd_cons_nonempty R' (wfl_nonnil _ Hw)) as (c & R'' & -> & Hc).
  unfold stop_for in Hs. cbv zeta in Hs. cbn [hd] in Hs. destruct cls; cbn [stops].
  - (* punctuators *)
    assert (Hgen : op_stop c -> (T = [47] -> c <> 47) -> punct_stop pl T (c :: R'')).
    { intros Ho H47. unfold punct_stop. cbv zeta. cbn [hd]. pose proof Ho as Ho'. unfold op_stop in Ho'.
      split; [left; apply op_stop_longer; assumption|]. split; [intros _; lia|]. split; [intros E; split; [auto|lia]|].
      split; [|intros _ _; lia].
      intros _ E. rewrite firstz_cons in E by lia. assert (c = 33) by congruence. lia. }
    destruct T as [|t [|t' T']]; [congruence| |apply Hgen; [exact Hs|intros; discriminate]].
    destruct (punct1 t) eqn:Ep; [|destruct Hs as (Ho & H47); apply Hgen; [exact Ho|intros E; apply H47; congruence]].
    unfold punct_stop. cbv zeta. cbn [hd]. unfold punct1 in Ep.
    split; [left; apply punct1_longer; exact Ep|].
    split; [intros [E|E]; exfalso; assert (t = 46) by congruence; lia|].
    split; [intros E; exfalso; assert (t = 47) by congruence; lia|].
    split; [intros E; exfalso; assert (t = 60) by congruence; lia|intros E; discriminate E].
  - destruct Hs as (S1 & S2 & S3). unfold ident_stop, rune_stop. cbn [hd]. repeat split; try assumption. intros; lia.
  - destruct Hs as (S1 & S2 & S3 & S4 & S5). unfold ws_stop, rune_stop. cbv zeta. cbn [hd]. repeat split; try assumption. intros; lia.
  - destruct Hs as (S1 & S2 & S3). unfold lt_stop, lt_at. lia.
  - exact I.
  - exact Hs.
  - exact I.
  - destruct Hs as (S1 & S2). cbn [hd]. split; [exact S1|intros; contradiction].
Qed.

Lemma seq_ok_exact pn pl lev tl its : seq_ok pn pl lev tl its -> seq_exact pn pl lev tl its.
Proof.
  induction 1 as [pn pl lev tl|pn pl lev tl lev' tl' ty T rest cls Hre Hcls Htxt Hnt Hpn Hstep Hstop Hrest IH
                 |pn pl lev tl lev' tl' ty ty0 body rest Hk Hre Hstep Hrest IH
                 |pn pl lev tl body flags rest Hb Hne H42 Hf Hr0 Hr1 Hrest IH].
  - apply sx_nil.
  - eapply sx_cons; try eassumption. eapply stop_for_stops; try eassumption. apply after_wfl.
  - eapply sx_cont; eassumption.
  - apply sx_regex; try assumption; [apply re_flags_ascii; assumption|].
    unfold flag_stop, rune_stop. split; [exact Hr0|intros; lia].
Qed.

Lemma seq_run pn pl lev tl its : seq_exact pn pl lev tl its ->
  forall s, seq_inv pn pl lev tl s -> suffix (jcur s) = after its ->
  exists s' pn' pl' lev' tl', jrun id_start id_cont is_zs (ops_of its) s = Ok (toks_of its, s') /\
    seq_inv pn' pl' lev' tl' s' /\ suffix (jcur s') = [0].
Proof.
  induction 1 as [pn pl lev tl|pn pl lev tl lev' tl' ty T rest cls Hre Hcls Htxt Hnt Hpn Hstep Hstop Hrest IH
                 |pn pl lev tl lev' tl' ty ty0 body rest Hk Hre Hstep Hrest IH
                 |pn pl lev tl body flags rest Hb Hne H42 Hf Hfs Hrest IH]; intros s Hinv Hsuf.
  - exists s, pn, pl, lev, tl. cbn. auto.
  - assert (Hsuf' : suffix (jcur s) = T ++ after rest).
    { rewrite Hsuf. unfold after, texts. cbn [map concat item_text]. rewrite <- app_assoc. reflexivity. }
    destruct (next_extend s pn pl lev tl lev' tl' ty T (after rest) cls Hre Hcls Htxt Hnt Hinv Hstep Hpn Hsuf'
                (after_wfl rest) Hstop) as (s1 & Hn & Hinv1 & Hsuf1).
    destruct (IH s1 Hinv1 Hsuf1) as (s2 & pn2 & pl2 & lev2 & tl2 & Hn2 & Hinv2 & Hsuf2).
    exists s2, pn2, pl2, lev2, tl2. split; [|auto].
    unfold ops_of, toks_of. cbn [map concat item_ops item_toks app jrun jstep]. rewrite Hn. cbn [rbind].
    fold (ops_of rest). fold (toks_of rest). rewrite Hn2. reflexivity.
  - assert (Hsuf' : suffix (jcur s) = (125 :: body) ++ after rest).
    { rewrite Hsuf. unfold after, texts. cbn [map concat item_text]. rewrite <- app_assoc. reflexivity. }
    destruct (next_cont s pn pl lev tl lev' tl' ty ty0 body (after rest) Hk Hre Hinv Hstep Hsuf'
                (wfl_nonnil _ (after_wfl rest))) as (s1 & Hn & Hinv1 & Hsuf1).
    destruct (IH s1 Hinv1 Hsuf1) as (s2 & pn2 & pl2 & lev2 & tl2 & Hn2 & Hinv2 & Hsuf2).
    exists s2, pn2, pl2, lev2, tl2. split; [|auto].
    unfold ops_of, toks_of. cbn [map concat item_ops item_toks app jrun jstep]. rewrite Hn. cbn [rbind].
    fold (ops_of rest). fold (toks_of rest). rewrite Hn2. reflexivity.
  - assert (Hsuf' : suffix (jcur s) = re_lit body flags ++ after rest).
    { rewrite Hsuf. unfold after, texts. cbn [map concat item_text]. rewrite <- app_assoc. reflexivity. }
    destruct (next_regex s pn pl lev tl body flags (after rest) Hb Hne H42 Hf Hfs (after_wfl rest) Hinv Hsuf')
      as (s1 & s2 & Hn & Hre & Hinv2 & Hsuf2).
    destruct (IH s2 Hinv2 Hsuf2) as (s3 & pn3 & pl3 & lev3 & tl3 & Hn3 & Hinv3 & Hsuf3).
    exists s3, pn3, pl3, lev3, tl3. split; [|auto].
    unfold ops_of, toks_of. cbn [map concat item_ops item_toks app jrun jstep]. rewrite Hn. cbn [rbind].
    rewrite Hre. cbn [rbind].
    fold (ops_of rest). fold (toks_of rest). rewrite Hn3. reflexivity.
Qed.

(* C06: the lexer, driven with Next (and RegExp after the '/' of a regular expression literal), returns
   exactly the token sequence; the input starts a line (prevLineTerminator is initially true) *)
Lemma jslex_token_sequences_proof its : seq_exact false true 0 [] its ->
  exists s', jrun id_start id_cont is_zs (ops_of its) (js_init (texts its)) = Ok (toks_of its, s') /\
    at_end (jcur s') = true /\ lstart (jcur s') = lpos (jcur s').
Proof.
  intros H.
  destruct (seq_run false true 0 [] its H (js_init (texts its))) as (s' & pn' & pl' & lev' & tl' & Hn & (Hw & Hst & _) & Hsuf).
  - unfold seq_inv. split; [apply js_init_wf|]. cbn. auto.
  - reflexivity.
  - exists s'. split; [assumption|]. split; [|assumption].
    destruct (suffix_wfl _ Hw) as (_ & Hlen). rewrite Hsuf in Hlen. unfold at_end. change (len [0]) with 1 in Hlen. lia.
Qed.

(* the same under the sufficient follower conditions of seq_ok *)
Lemma jslex_token_sequences_partial_proof its : seq_ok false true 0 [] its ->
  exists s', jrun id_start id_cont is_zs (ops_of its) (js_init (texts its)) = Ok (toks_of its, s') /\
    at_end (jcur s') = true /\ lstart (jcur s') = lpos (jcur s').
Proof. intros H. apply jslex_token_sequences_proof. apply seq_ok_exact. exact H. Qed.

End SeqNext.

(* non-vacuity, with no class for non-ASCII runes:
     -->s LF a 'x'/*c*/`t`>>>= LF SP -->x U+2028 if(0x1F_fn;1.5e+3//c CR LF x=/[/]\/=/g;/=a/;
     `a${{x}}b${`n${1}`}c`;<!--h LF //e
   "-->" comments at the start of the input and after LF + whitespace, single-line comments ended by CR LF,
   U+2028 and the end of input, a regular expression right after '=' with '/' in a class and escaped,
   one whose body starts with '=' (Next returns '/='), nested templates, a block inside a substitution,
   all literal kinds *)
Example ex_seq_ok : seq_ok nocls nocls nocls false true 0 []
  [ITok CommentToken [45; 45; 62; 115]; ITok LineTerminatorToken [10];
   ITok IdentifierToken [97]; ITok WhitespaceToken [32]; ITok StringToken [39; 120; 39];
   ITok CommentToken [47; 42; 99; 42; 47]; ITok TemplateToken [96; 116; 96];
   ITok GtGtGtEqToken [62; 62; 62; 61]; ITok LineTerminatorToken [10]; ITok WhitespaceToken [32];
   ITok CommentToken [45; 45; 62; 120]; ITok LineTerminatorToken [226; 128; 168];
   ITok 2068 [105; 102]; ITok OpenParenToken [40];
   ITok HexadecimalToken [48; 120; 49; 70; 95; 102; 110]; ITok SemicolonToken [59];
   ITok DecimalToken [49; 46; 53; 101; 43; 51]; ITok CommentToken [47; 47; 99]; ITok LineTerminatorToken [13; 10];
   ITok IdentifierToken [120]; ITok 1537 [61]; IRegex [91; 47; 93; 92; 47; 61] [103]; ITok SemicolonToken [59];
   IRegex [61; 97] []; ITok SemicolonToken [59];
   ITok TemplateStartToken [96; 97; 36; 123]; ITok OpenBraceToken [123]; ITok IdentifierToken [120]; ITok CloseBraceToken [125];
   ITok TemplateMiddleToken [125; 98; 36; 123]; ITok TemplateStartToken [96; 110; 36; 123]; ITok IntegerToken [49];
   ITok TemplateEndToken [125; 96]; ITok TemplateEndToken [125; 99; 96]; ITok SemicolonToken [59];
   ITok CommentToken [60; 33; 45; 45; 104]; ITok LineTerminatorToken [10]; ITok CommentToken [47; 47; 101]].
Proof.
  Ltac ex_side := cbn [text_ok stop_for after texts map concat item_text re_lit app hd is_num punct1 plt_after];
    unfold op_stop, lc_stop;
    repeat split; try lia; try reflexivity; try discriminate; try (intros; discriminate);
    try (left; reflexivity); try (right; reflexivity); try (right; left; reflexivity);
    try (right; right; left; reflexivity); try (right; right; reflexivity); try (right; right; right; split; reflexivity).
  Ltac ex_tok := eapply sq_cons;
    [unfold relexes; vm_compute; eexists; split; [reflexivity|split; reflexivity]
    | reflexivity | ex_side | reflexivity | ex_side | reflexivity | ex_side | cbn [is_num plt_after]; vm_compute plt_after ].
  Ltac ex_cont t0 := eapply sq_cont with (ty0 := t0);
    [ first [left; split; reflexivity | right; split; reflexivity]
    | unfold relexes; vm_compute; eexists; split; [reflexivity|split; reflexivity]
    | reflexivity | ].
  Ltac ex_plain := apply rb_plain; [lia|lia|lia|lia|lia|first [intros _; lia | intros Hx; discriminate Hx]|reflexivity|].
  Ltac ex_regex := eapply sq_regex;
    [ | discriminate | cbn [hd]; lia | repeat constructor | reflexivity | cbn; lia | ].
  do 21 ex_tok.
  ex_regex. { apply rb_open. ex_plain. apply rb_close. apply rb_esc; [lia|lia|reflexivity|]. ex_plain. apply rb_nil. }
  ex_tok.
  ex_regex. { ex_plain. ex_plain. apply rb_nil. }
  do 2 ex_tok. do 3 ex_tok.
  ex_cont TemplateStartToken. do 2 ex_tok. ex_cont TemplateToken. ex_cont TemplateToken. do 4 ex_tok. apply sq_nil.
Qed.
(* non-vacuity of the exact conditions, with U+00E9 as the only non-ASCII identifier character:
     x=-1;!-a;!!a;0x1F.a;a+ é;a NBSP /a/gé NBSP
   '-' directly after '=', a digit directly after '-', '-' and '!' directly after '!', '.' directly after a
   hexadecimal literal, a non-ASCII identifier directly after a space, a non-ASCII space directly after an
   identifier and after regular expression flags, a non-ASCII flag character *)
Definition ex_idc (r : Z) : bool := r =? 233.
Example ex_seq_exact : seq_exact ex_idc ex_idc nocls false true 0 []
  [ITok IdentifierToken [120]; ITok 1537 [61]; ITok 1556 [45]; ITok IntegerToken [49]; ITok SemicolonToken [59];
   ITok 1540 [33]; ITok 1556 [45]; ITok IdentifierToken [97]; ITok SemicolonToken [59];
   ITok 1540 [33]; ITok 1540 [33]; ITok IdentifierToken [97]; ITok SemicolonToken [59];
   ITok HexadecimalToken [48; 120; 49; 70]; ITok 519 [46]; ITok IdentifierToken [97]; ITok SemicolonToken [59];
   ITok IdentifierToken [97]; ITok 1553 [43]; ITok WhitespaceToken [32]; ITok IdentifierToken [195; 169]; ITok SemicolonToken [59];
   ITok IdentifierToken [97]; ITok WhitespaceToken [194; 160]; IRegex [97] [103; 195; 169]; ITok WhitespaceToken [194; 160]].
Proof.
  Ltac ex_rune := first [ intros Hx; exfalso; cbn in Hx; lia
                        | intros _ r n Hr; vm_compute in Hr; injection Hr as <- <-; reflexivity ].
  Ltac ex_stops :=
    cbn [stops]; unfold punct_stop, ident_stop, ws_stop, lt_stop, flag_stop, rune_stop; cbv zeta;
    match goal with |- context [after ?r] => let R := fresh "R" in set (R := after r); vm_compute in R; subst R end;
    cbn [hd];
    repeat match goal with
    | |- _ /\ _ => split
    | |- longer_punct _ _ = false \/ _ => left; vm_compute; reflexivity
    end;
    try reflexivity; try lia; try discriminate; try exact I;
    try (intros; discriminate);
    try (intros [E|E]; discriminate E);
    try (intros _; lia);
    try ex_rune.
  Ltac ex_tokx := eapply sx_cons;
    [unfold relexes; vm_compute; eexists; split; [reflexivity|split; reflexivity]
    | reflexivity | exact I | reflexivity | try (intros; discriminate) | reflexivity | ex_stops | cbn [is_num plt_after]; vm_compute plt_after ].
  do 24 ex_tokx.
  eapply sx_regex.
  - apply rb_plain; [lia|lia|lia|lia|lia|intros _; lia|reflexivity|apply rb_nil].
  - discriminate.
  - cbn [hd]; lia.
  - apply rf_ascii; [reflexivity|]. apply (rf_rune ex_idc [195; 169] 233 []); [cbn [hd]; lia|reflexivity|vm_compute; reflexivity|reflexivity|apply rf_nil].
  - ex_stops.
  - ex_tokx. apply sx_nil.
Qed.
