(* JsLex/Exchange2.v — exchange lemmas for the closed tokens (strings, templates without substitution,
   multi-line comments): they never look past their last byte, so any follower is safe. *)
From Verif Require Import Common.Base Common.Tactics Common.Lx Gen.Tables
  JsLex.Model JsLex.Lemmas JsLex.Total JsLex.Next JsLex.Canon JsLex.Comment JsLex.Relex JsLex.Exchange.
From Coq Require Import ZifyBool.

Lemma last_app_ne {A} (a b : list A) d : b <> [] -> last (a ++ b) d = last b d.
Proof.
  intros Hb. induction a as [|x a IH]; [reflexivity|]. cbn [app].
  destruct (a ++ b) eqn:E; [destruct a; [cbn in E; congruence|discriminate]|]. rewrite <- E in *. cbn [last]. rewrite E. rewrite <- E. exact IH.
Qed.

(* --- closed tokens: strings, templates, multi-line comments, in front of any R' ------------------- *)
(* consumeLineTerminator strictly inside A *)
Lemma lt1_local_strict A R R' k : R <> [] -> R' <> [] -> lt1 (A ++ R) = Ok k -> 0 < k < len A -> lt1 (A ++ R') = Ok k.
Proof.
  intros HR HR' H Hk. unfold lt1, ls_ps in *.
  destruct A as [|c A]; [change (len (@nil Z)) with 0 in Hk; lia|]. cbn [app] in *. rewrite pkl_cons_0 in H |- *. cbn [rbind] in *.
  rewrite len_cons in Hk.
  destruct (c =? 10); [assumption|].
  destruct (c =? 13).
  - destruct A as [|c1 A]; cbn [app] in *.
    + exfalso. crunch H; assert (k = 2 \/ k = 1) as [?|?] by (injection H; lia); change (len (@nil Z)) with 0 in Hk; lia.
    + rewrite pkl_1 in *. assumption.
  - destruct (c =? 226); [|congruence].
    destruct A as [|c1 A]; cbn [app] in *.
    + exfalso. crunch H; assert (k = 3 \/ k = 0) as [?|?] by (injection H; lia); change (len (@nil Z)) with 0 in Hk; lia.
    + rewrite pkl_1 in *. cbn [rbind] in *. destruct (c1 =? 128); [|assumption].
      destruct A as [|c2 A]; cbn [app] in *.
      * exfalso. crunch H; assert (k = 3 \/ k = 0) as [?|?] by (injection H; lia); rewrite len_cons in Hk; change (len (@nil Z)) with 0 in Hk; lia.
      * rewrite pkl_2 in *. assumption.
Qed.

(* when the last byte of A cannot be inside a line terminator that continues past A *)
Lemma lt1_agree A R R' : A <> [] -> R <> [] -> R' <> [] ->
  last A 0 <> 13 -> last A 0 <> 226 -> last A 0 <> 128 ->
  lt1 (A ++ R) = lt1 (A ++ R').
Proof.
  intros HA HR HR' L1 L2 L3. unfold lt1, ls_ps.
  destruct A as [|c [|c1 [|c2 A]]]; [congruence| | |]; cbn [app last] in *.
  - rewrite !pkl_cons_0. cbn [rbind]. replace (c =? 13) with false by lia. replace (c =? 226) with false by lia. reflexivity.
  - rewrite !pkl_cons_0, !pkl_1. cbn [rbind]. replace (c1 =? 128) with false by lia. reflexivity.
  - rewrite !pkl_cons_0, !pkl_1, !pkl_2. reflexivity.
Qed.

Lemma last_skipz (A : list Z) k d : 0 <= k < len A -> last (skipz k A) d = last A d.
Proof.
  intros Hk. rewrite <- (firstz_skipz k A) at 2.
  assert (Hne : skipz k A <> []) by (apply len_pos_nonempty; rewrite len_skipz by lia; lia).
  rewrite last_app_ne by assumption. reflexivity.
Qed.

(* a string body that was closed ends with the delimiter *)
Lemma str_loop_last d : forall fuel T R n, str_loop d fuel (T ++ R) = Ok (n, true) -> n = len T -> last T 0 = d.
Proof.
  induction fuel as [|fuel IH]; intros T R n H Hn; [discriminate|].
  destruct (str_loop_pos _ _ _ _ _ H) as (_ & Hpos). specialize (Hpos eq_refl).
  destruct T as [|c T]; [change (len (@nil Z)) with 0 in Hn; lia|].
  cbn [str_loop app] in H. rewrite pkl_cons_0 in H. cbn [rbind] in H. rewrite len_cons in Hn.
  pose proof (len_nonneg T) as HT.
  destruct (Z.eqb_spec c d) as [Hcd|Hcd].
  { assert (n = 1) by congruence. destruct T; [cbn; assumption|rewrite len_cons in Hn; pose proof (len_nonneg T); lia]. }
  assert (Hrec : forall k n', 1 <= k -> str_loop d fuel (skipz k (c :: T ++ R)) = Ok (n', true) -> n = k + n' -> last (c :: T) 0 = d).
  { intros k n' Hk Er Hn'. destruct (str_loop_pos _ _ _ _ _ Er) as (_ & Hp'). specialize (Hp' eq_refl).
    change (c :: T ++ R) with ((c :: T) ++ R) in Er. rewrite skipz_app_le in Er by (rewrite len_cons; lia).
    rewrite <- (last_skipz (c :: T) k 0) by (rewrite len_cons; lia).
    apply (IH _ _ _ Er). rewrite len_skipz by (rewrite len_cons; lia). rewrite len_cons. lia. }
  destruct (c =? 92).
  - crunch H. assert (n = 1 + a0 + z /\ b = true) as (Hn' & ->) by (split; congruence).
    assert (0 <= a0).
    { destruct (0 <? a) eqn:B; [assert (a0 = a) by congruence; pose proof (lt1_nonneg _ _ E); lia|]. crunch E0.
      destruct ((a1 =? d) || (a1 =? 92)); injection E0 as <-; lia. }
    apply (Hrec (1 + a0) z ltac:(lia) E1). lia.
  - crunch H; try discriminate. assert (n = 1 + z /\ b = true) as (Hn' & ->) by (split; congruence).
    apply (Hrec 1 z ltac:(lia) E). lia.
Qed.
Lemma str_loop_exchange d R' : R' <> [] -> d <> 13 -> d <> 226 -> d <> 128 -> forall fuel T R n, R <> [] ->
  str_loop d fuel (T ++ R) = Ok (n, true) -> n = len T ->
  forall fuel', (length T < fuel')%nat -> str_loop d fuel' (T ++ R') = Ok (n, true).
Proof.
  intros HR' Hd1 Hd2 Hd3. induction fuel as [|fuel IH]; intros T R n HR H Hn fuel' Hf; [discriminate|].
  pose proof (str_loop_last _ _ _ _ _ H Hn) as Hlast.
  destruct fuel' as [|fuel']; [lia|].
  destruct (str_loop_pos _ _ _ _ _ H) as (_ & Hpos). specialize (Hpos eq_refl).
  destruct T as [|c T]; [change (len (@nil Z)) with 0 in Hn; lia|].
  cbn [str_loop app] in *. rewrite pkl_cons_0 in H |- *. cbn [rbind] in *. rewrite len_cons in Hn.
  destruct (c =? d); [assumption|].
  destruct (c =? 92).
  - rewrite skipz_1_cons in H |- *.
    destruct (lt1 (T ++ R)) as [t| |] eqn:Et; cbn [rbind] in H; try discriminate.
    pose proof (lt1_nonneg _ _ Et) as Ht0.
    match type of H with rbind ?e _ = _ => destruct e as [k| |] eqn:Ek; cbn [rbind] in H; try discriminate end.
    destruct (str_loop d fuel (skipz (1 + k) (c :: T ++ R))) as [[n' ok']| |] eqn:Er; cbn [rbind] in H; try discriminate.
    assert (n = 1 + k + n' /\ ok' = true) as (Hn' & ->) by (split; congruence).
    destruct (str_loop_pos _ _ _ _ _ Er) as (_ & Hp'). specialize (Hp' eq_refl).
    assert (Hk0 : 0 <= k).
    { destruct (0 <? t); [assert (k = t) by congruence; lia|]. crunch Ek. destruct (_ || _); injection Ek as <-; lia. }
    (* the escape and what it covers lie inside T *)
    assert (Ek' : (if 0 <? t then Ok t else c' <-- pkl (T ++ R') 0;; Ok (if (c' =? d) || (c' =? 92) then 1 else 0)) = Ok k).
    { destruct (0 <? t); [assumption|].
      destruct T as [|c1 T]; [change (len (@nil Z)) with 0 in Hn; lia|]. cbn [app] in *. exact Ek. }
    assert (Et' : lt1 (T ++ R') = Ok t).
    { assert (HTne : T <> []) by (apply len_pos_nonempty; lia).
      rewrite <- (lt1_agree T R R' HTne HR HR'); [exact Et| | |];
        (destruct T as [|c1 T1]; [congruence|]; cbn [last] in Hlast |- *; destruct T1; [cbn in Hlast |- *|]; lia). }
    rewrite Et'. cbn [rbind]. rewrite Ek'. cbn [rbind].
    change (c :: T ++ R) with ((c :: T) ++ R) in Er. change (c :: T ++ R') with ((c :: T) ++ R').
    rewrite skipz_app_le in Er |- * by (rewrite len_cons; lia).
    rewrite (IH _ _ _ HR Er).
    + cbn [rbind]. rewrite Hn'. reflexivity.
    + rewrite len_skipz by (rewrite len_cons; lia). rewrite len_cons. lia.
    + pose proof (length_skipz_lt (1 + k) (c :: T) ltac:(lia) ltac:(discriminate)). cbn [length] in *. lia.
  - destruct ((c =? 10) || (c =? 13)) eqn:Ecr; cbn [orb] in *; [discriminate|].
    rewrite skipz_1_cons in H |- *.
    destruct T as [|c1 T].
    + (* c would be the last byte of the token, but it is not the delimiter *)
      exfalso. destruct ((c =? 0) && at_endl (c :: [] ++ R)); [discriminate|].
      destruct (str_loop d fuel ([] ++ R)) as [[n' ok']| |] eqn:Er; cbn [rbind] in H; try discriminate.
      assert (n = 1 + n' /\ ok' = true) as (Hn' & ->) by (split; congruence).
      destruct (str_loop_pos _ _ _ _ _ Er) as (_ & Hp'). specialize (Hp' eq_refl).
      change (len (@nil Z)) with 0 in Hn. lia.
    + cbn [app] in *. rewrite at_endl_app2 in H |- *. rewrite andb_false_r in H |- *.
      destruct (str_loop d fuel (c1 :: T ++ R)) as [[n' ok']| |] eqn:Er; cbn [rbind] in H; try discriminate.
      assert (n = 1 + n' /\ ok' = true) as (Hn' & ->) by (split; congruence).
      change (c1 :: T ++ R) with ((c1 :: T) ++ R) in Er. change (c1 :: T ++ R') with ((c1 :: T) ++ R').
      rewrite (IH _ _ _ HR Er).
      * cbn [rbind]. rewrite Hn'. reflexivity.
      * lia.
      * cbn [length] in *. lia.
Qed.

Lemma string_tok_exchange T R R' n ty e : R <> [] -> R' <> [] -> string_tok (T ++ R) = Ok (n, ty, e) -> n = len T ->
  ty <> ErrorToken -> (hd 0 T = 34 \/ hd 0 T = 39) -> string_tok (T ++ R') = Ok (n, ty, e).
Proof.
  intros HR HR' H Hn Hty Hq. unfold string_tok in *.
  destruct T as [|c T].
  { exfalso. change (len (@nil Z)) with 0 in Hn. crunch H; try congruence.
    destruct (str_loop_pos _ _ _ _ _ E0) as (Hp & _). assert (n = 1 + z) by congruence. lia. }
  cbn [app hd] in *. rewrite pkl_cons_0 in H |- *. cbn [rbind] in *. rewrite skipz_1_cons in H |- *.
  destruct (str_loop c (length (c :: T ++ R)) (T ++ R)) as [[n' ok]| |] eqn:Er; cbn [rbind] in H; try discriminate.
  destruct ok; [|exfalso; apply Hty; congruence].
  rewrite len_cons in Hn. assert (n = 1 + n') by congruence.
  rewrite (str_loop_exchange c R' HR' ltac:(lia) ltac:(lia) ltac:(lia) _ _ _ _ HR Er); [exact H|lia|].
  cbn [length]. rewrite app_length. pose proof (nonempty_len R' HR'). unfold len in *. lia.
Qed.

Lemma tpl_loop_exchange R' : R' <> [] -> forall fuel T R n o, R <> [] ->
  tpl_loop fuel (T ++ R) = Ok (n, o) -> n = len T -> o <> 2 ->
  forall fuel', (length T < fuel')%nat -> tpl_loop fuel' (T ++ R') = Ok (n, o).
Proof.
  intros HR'. induction fuel as [|fuel IH]; intros T R n o HR H Hn Ho fuel' Hf; [discriminate|].
  destruct fuel' as [|fuel']; [lia|].
  destruct (tpl_loop_pos _ _ _ _ H) as (_ & Hpos). specialize (Hpos Ho).
  destruct T as [|c T]; [change (len (@nil Z)) with 0 in Hn; lia|].
  cbn [tpl_loop app] in *. rewrite pkl_cons_0 in H |- *. cbn [rbind] in *. rewrite len_cons in Hn.
  destruct (c =? 96); [assumption|].
  (* a byte that is not the closing backtick is not the last byte of the token *)
  destruct T as [|c1 T].
  { exfalso. cbn [app] in H. destruct R as [|r0 R]; [congruence|]. rewrite pkl_1 in H.
    change (len (@nil Z)) with 0 in Hn.
    destruct (c =? 36).
    - cbn [rbind] in H. destruct (r0 =? 123); [assert (n = 2) by congruence; lia|].
      destruct (c =? 92).
      + crunch H. destruct (tpl_loop_pos _ _ _ _ E0) as (Hp & Hp2). assert (o = z0) by congruence. subst z0.
        specialize (Hp2 Ho).
        assert (n = (if negb (a =? 0) then 2 else 1) + z) by congruence. destruct (negb (a =? 0)); lia.
      + destruct ((c =? 0) && at_endl (c :: r0 :: R)); [assert (o = 2) by congruence; congruence|].
        crunch H. destruct (tpl_loop_pos _ _ _ _ E) as (_ & Hp). assert (o = z0) by congruence. subst z0.
        specialize (Hp Ho). assert (n = 1 + z) by congruence. lia.
    - cbn [rbind] in H. destruct (c =? 92).
      + crunch H. destruct (tpl_loop_pos _ _ _ _ E0) as (Hp & Hp2). assert (o = z0) by congruence. subst z0.
        specialize (Hp2 Ho).
        assert (n = (if negb (a =? 0) then 2 else 1) + z) by congruence. destruct (negb (a =? 0)); lia.
      + destruct ((c =? 0) && at_endl (c :: r0 :: R)); [assert (o = 2) by congruence; congruence|].
        crunch H. destruct (tpl_loop_pos _ _ _ _ E) as (_ & Hp). assert (o = z0) by congruence. subst z0.
        specialize (Hp Ho). assert (n = 1 + z) by congruence. lia. }
  cbn [app] in *. rewrite pkl_1 in H |- *. rewrite len_cons in Hn. pose proof (len_nonneg T) as HT.
  assert (Hrec : forall k, 1 <= k <= 2 -> forall n', tpl_loop fuel (skipz k (c :: c1 :: T ++ R)) = Ok (n', o) ->
            n = k + n' -> tpl_loop fuel' (skipz k (c :: c1 :: T ++ R')) = Ok (n', o)).
  { intros k Hk n' Er Hn'.
    change (c :: c1 :: T ++ R) with ((c :: c1 :: T) ++ R) in Er. change (c :: c1 :: T ++ R') with ((c :: c1 :: T) ++ R').
    rewrite skipz_app_le in Er |- * by (rewrite !len_cons; lia).
    apply (IH _ _ _ _ HR Er); [|assumption|].
    - rewrite len_skipz by (rewrite !len_cons; lia). rewrite !len_cons. lia.
    - pose proof (length_skipz_lt k (c :: c1 :: T) ltac:(lia) ltac:(discriminate)). cbn [length] in *. lia. }
  match type of H with rbind ?e _ = _ => destruct e as [sb| |] eqn:Es; cbn [rbind] in H; try discriminate end.
  destruct sb; [assumption|].
  destruct (c =? 92).
  - rewrite skipz_1_cons in H |- *. rewrite pkl_cons_0 in H |- *. cbn [rbind] in *.
    destruct (negb (c1 =? 0)).
    + destruct (tpl_loop fuel (skipz 2 (c :: c1 :: T ++ R))) as [[n' o']| |] eqn:Er; cbn [rbind] in H; try discriminate.
      assert (n = 2 + n' /\ o' = o) as (Hn' & ->) by (split; congruence).
      rewrite (Hrec 2 ltac:(lia) _ Er Hn'). cbn [rbind]. rewrite Hn'. reflexivity.
    + destruct (tpl_loop fuel (skipz 1 (c :: c1 :: T ++ R))) as [[n' o']| |] eqn:Er; cbn [rbind] in H; try discriminate.
      assert (n = 1 + n' /\ o' = o) as (Hn' & ->) by (split; congruence).
      rewrite (Hrec 1 ltac:(lia) _ Er Hn'). cbn [rbind]. rewrite Hn'. reflexivity.
  - rewrite at_endl_app2 in H |- *. rewrite andb_false_r in H |- *.
    destruct (tpl_loop fuel (skipz 1 (c :: c1 :: T ++ R))) as [[n' o']| |] eqn:Er; cbn [rbind] in H; try discriminate.
    assert (n = 1 + n' /\ o' = o) as (Hn' & ->) by (split; congruence).
    rewrite (Hrec 1 ltac:(lia) _ Er Hn'). cbn [rbind]. rewrite Hn'. reflexivity.
Qed.


Lemma mlc_loop_last : forall fuel T R n sl, mlc_loop fuel (T ++ R) = Ok (n, true, sl) -> n = len T -> last T 0 = 47.
Proof.
  induction fuel as [|fuel IH]; intros T R n sl H Hn; [discriminate|].
  destruct (mlc_loop_pos _ _ _ _ _ H) as (_ & Hpos). specialize (Hpos eq_refl).
  destruct T as [|c [|c1 T]]; try (cbn in Hn; lia).
  cbn [mlc_loop app] in H. rewrite pkl_cons_0, pkl_1 in H. cbn [rbind] in H. rewrite !len_cons in Hn.
  pose proof (len_nonneg T) as HT.
  match type of H with rbind ?e _ = _ => destruct e as [cl| |] eqn:Es; cbn [rbind] in H; try discriminate end.
  destruct cl.
  { assert (n = 2) by congruence. assert (T = []) by (destruct T; [reflexivity|rewrite len_cons in Hn; pose proof (len_nonneg T); lia]). subst T.
    destruct (c =? 42); [|discriminate]. cbn [rbind] in Es. cbn [last]. assert ((c1 =? 47) = true) by congruence. lia. }
  rewrite at_endl_app2 in H. rewrite andb_false_r in H.
  change (c :: c1 :: T ++ R) with ((c :: c1 :: T) ++ R) in H.
  assert (Hrec : forall k n' sl', 1 <= k -> mlc_loop fuel (skipz k ((c :: c1 :: T) ++ R)) = Ok (n', true, sl') -> n = k + n' -> last (c :: c1 :: T) 0 = 47).
  { intros k n' sl' Hk Er Hn'. destruct (mlc_loop_pos _ _ _ _ _ Er) as (_ & Hp'). specialize (Hp' eq_refl).
    rewrite skipz_app_le in Er by (rewrite !len_cons; lia).
    rewrite <- (last_skipz (c :: c1 :: T) k 0) by (rewrite !len_cons; lia).
    apply (IH _ _ _ _ Er). rewrite len_skipz by (rewrite !len_cons; lia). rewrite !len_cons. lia. }
  destruct (lt1 ((c :: c1 :: T) ++ R)) as [t| |] eqn:Et; cbn [rbind] in H; try discriminate.
  pose proof (lt1_nonneg _ _ Et).
  destruct (0 <? t) eqn:Bt.
  - crunch H. assert (n = t + z /\ b0 = true) as (Hn' & ->) by (split; congruence). apply (Hrec t z b ltac:(lia) E Hn').
  - crunch H. assert (n = 1 + z /\ b0 = true) as (Hn' & ->) by (split; congruence). apply (Hrec 1 z b ltac:(lia) E Hn').
Qed.

Lemma mlc_loop_exchange R' : R' <> [] -> forall fuel T R n sl, R <> [] ->
  mlc_loop fuel (T ++ R) = Ok (n, true, sl) -> n = len T ->
  forall fuel', (length T < fuel')%nat -> mlc_loop fuel' (T ++ R') = Ok (n, true, sl).
Proof.
  intros HR'. induction fuel as [|fuel IH]; intros T R n sl HR H Hn fuel' Hf; [discriminate|].
  pose proof (mlc_loop_last _ _ _ _ _ H Hn) as Hlast.
  destruct fuel' as [|fuel']; [lia|].
  destruct (mlc_loop_pos _ _ _ _ _ H) as (_ & Hpos). specialize (Hpos eq_refl).
  destruct T as [|c [|c1 T]]; try (cbn in Hn; lia).
  cbn [mlc_loop app] in *. rewrite pkl_cons_0, pkl_1 in H |- *. cbn [rbind] in *. rewrite !len_cons in Hn.
  pose proof (len_nonneg T) as HT.
  match type of H with rbind ?e _ = _ => destruct e as [cl| |] eqn:Es; cbn [rbind] in H; try discriminate end.
  destruct cl; [assumption|].
  rewrite at_endl_app2 in H |- *. rewrite andb_false_r in H |- *.
  change (c :: c1 :: T ++ R) with ((c :: c1 :: T) ++ R) in H. change (c :: c1 :: T ++ R') with ((c :: c1 :: T) ++ R').
  destruct (lt1 ((c :: c1 :: T) ++ R)) as [t| |] eqn:Et; cbn [rbind] in H; try discriminate.
  pose proof (lt1_nonneg _ _ Et) as Ht0.
  assert (Hrec : forall k n' sl', 1 <= k -> mlc_loop fuel (skipz k ((c :: c1 :: T) ++ R)) = Ok (n', true, sl') ->
            n = k + n' -> mlc_loop fuel' (skipz k ((c :: c1 :: T) ++ R')) = Ok (n', true, sl')).
  { intros k n' sl' Hk Er Hn'. destruct (mlc_loop_pos _ _ _ _ _ Er) as (_ & Hp'). specialize (Hp' eq_refl).
    rewrite skipz_app_le in Er |- * by (rewrite !len_cons; lia).
    apply (IH _ _ _ _ HR Er).
    - rewrite len_skipz by (rewrite !len_cons; lia). rewrite !len_cons. lia.
    - pose proof (length_skipz_lt k (c :: c1 :: T) ltac:(lia) ltac:(discriminate)). cbn [length] in *. lia. }
  destruct (Z.ltb_spec 0 t) as [Ht|Ht].
  - destruct (mlc_loop fuel (skipz t ((c :: c1 :: T) ++ R))) as [[[n' ok'] sl']| |] eqn:Er; cbn [rbind] in H; try discriminate.
    assert (n = t + n' /\ ok' = true /\ sl = true) as (Hn' & -> & ->) by (repeat split; congruence).
    destruct (mlc_loop_pos _ _ _ _ _ Er) as (_ & Hp'). specialize (Hp' eq_refl).
    rewrite (lt1_local_strict _ _ R' _ HR HR' Et) by (rewrite !len_cons; lia). cbn [rbind]. replace (0 <? t) with true by lia.
    rewrite (Hrec t n' sl' ltac:(lia) Er Hn'). cbn [rbind]. rewrite Hn'. reflexivity.
  - assert (t = 0) by lia. subst t.
    rewrite <- (lt1_agree (c :: c1 :: T) R R' ltac:(discriminate) HR HR') by (rewrite Hlast; lia). rewrite Et. cbn [rbind]. change (0 <? 0) with false. cbv iota.
    destruct (mlc_loop fuel (skipz 1 ((c :: c1 :: T) ++ R))) as [[[n' ok'] sl']| |] eqn:Er; cbn [rbind] in H; try discriminate.
    assert (n = 1 + n' /\ ok' = true /\ sl = sl') as (Hn' & -> & ->) by (repeat split; congruence).
    rewrite (Hrec 1 n' sl' ltac:(lia) Er Hn'). cbn [rbind]. rewrite Hn'. reflexivity.
Qed.

(* a multi-line comment, in front of any R' *)
Lemma comment_exchange T R R' n ty e sl : R <> [] -> R' <> [] ->
  comment (T ++ R) = Ok (n, ty, e, sl) -> n = len T -> ty <> ErrorToken -> firstz 2 T = [47; 42] ->
  comment (T ++ R') = Ok (n, ty, e, sl).
Proof.
  intros HR HR' H Hn Hty Htxt. unfold comment in H |- *.
  destruct T as [|t0 [|t1 T]]; try discriminate.
  assert (t0 = 47 /\ t1 = 42) as (-> & ->).
  { rewrite firstz_cons in Htxt by lia. rewrite firstz_cons in Htxt by lia. split; congruence. }
  cbn [app] in H |- *. rewrite pkl_1 in H |- *. cbn [rbind] in H |- *.
  change (42 =? 47) with false in H |- *. change (42 =? 42) with true in H |- *. cbv iota in H |- *.
  change (skipz 2 (47 :: 42 :: T ++ R)) with (T ++ R) in H. change (skipz 2 (47 :: 42 :: T ++ R')) with (T ++ R').
  destruct (mlc_loop (length (47 :: 42 :: T ++ R)) (T ++ R)) as [[[n' ok] sl']| |] eqn:Em; cbn [rbind] in H; try discriminate.
  destruct ok; [|exfalso; apply Hty; congruence].
  assert (Hnn : n = 2 + n') by congruence. rewrite !len_cons in Hn.
  rewrite (mlc_loop_exchange R' HR' _ _ _ _ _ HR Em).
  - cbn [rbind]. exact H.
  - lia.
  - cbn [length]. rewrite app_length. pose proof (nonempty_len R' HR'). unfold len in *. lia.
Qed.

(* --- single-line comments in front of LF / CR ------------------------------------------------------- *)
Lemma slc_loop_exchange c0 RR : c0 = 10 \/ c0 = 13 -> forall fuel T R, R <> [] -> no_trunc T = true ->
  slc_loop fuel (T ++ R) = Ok (len T) ->
  forall fuel', (length T < fuel')%nat -> slc_loop fuel' (T ++ c0 :: RR) = Ok (len T).
Proof.
  intros Hc0. induction fuel as [|fuel IH]; intros T R HR Hnt H fuel' Hf; [discriminate|].
  destruct fuel' as [|fuel']; [lia|].
  destruct T as [|c T].
  { cbn [slc_loop app]. rewrite pkl_cons_0. cbn [rbind]. replace ((c0 =? 13) || (c0 =? 10)) with true by lia. reflexivity. }
  assert (HR' : c0 :: RR <> []) by discriminate.
  cbn [slc_loop app] in *. rewrite pkl_cons_0 in H |- *. cbn [rbind] in *. rewrite len_cons in *.
  pose proof (len_nonneg T) as HT.
  assert (Hnt0 := Hnt). cbn [no_trunc] in Hnt. apply andb_true_iff in Hnt. destruct Hnt as (Hc & Hnt).
  destruct ((c =? 13) || (c =? 10)) eqn:Ecr; cbn [orb] in *; [assert (1 + len T = 0) by congruence; lia|].
  destruct ((c =? 0) && at_endl (c :: T ++ R)); [assert (1 + len T = 0) by congruence; lia|].
  replace ((c =? 0) && at_endl (c :: T ++ c0 :: RR)) with false by (destruct T; cbn [app at_endl]; rewrite andb_false_r; reflexivity).
  match type of H with rbind ?e _ = _ => destruct e as [st| |] eqn:Es; cbn [rbind] in H; try discriminate end.
  destruct st; [assert (1 + len T = 0) by congruence; lia|].
  assert (Es' : (if 192 <=? c then ' (r, _) <-- peek_rune (c :: T ++ c0 :: RR);; Ok ((r =? 8232) || (r =? 8233)) else Ok false) = Ok false).
  { destruct (192 <=? c) eqn:E192; [|reflexivity].
    destruct (peek_rune (c :: T ++ R)) as [[r n]| |] eqn:Er; cbn [rbind] in Es; try discriminate.
    change (c :: T ++ R) with ((c :: T) ++ R) in Er. change (c :: T ++ c0 :: RR) with ((c :: T) ++ c0 :: RR).
    destruct (peek_rune_local2 _ _ (c0 :: RR) _ _ Hnt0 ltac:(discriminate) Er HR HR') as (Er' & _).
    rewrite Er'. exact Es. }
  rewrite Es'. cbn [rbind]. rewrite skipz_1_cons in H |- *.
  destruct (slc_loop fuel (T ++ R)) as [n'| |] eqn:Er; cbn [rbind] in H; try discriminate.
  assert (1 + n' = 1 + len T) by congruence. assert (n' = len T) by lia. subst n'.
  rewrite (IH _ _ HR Hnt Er); [reflexivity|cbn [length] in Hf; lia].
Qed.

(* a single-line comment "//..." in front of LF / CR *)
Lemma comment_exchange_line T R c0 RR n ty e sl : R <> [] -> no_trunc T = true -> c0 = 10 \/ c0 = 13 ->
  comment (T ++ R) = Ok (n, ty, e, sl) -> n = len T -> firstz 2 T = [47; 47] ->
  comment (T ++ c0 :: RR) = Ok (n, ty, e, sl).
Proof.
  intros HR Hnt Hc0 H Hn Htxt. unfold comment in H |- *.
  destruct T as [|t0 [|t1 T]]; try discriminate.
  assert (t0 = 47 /\ t1 = 47) as (-> & ->).
  { rewrite firstz_cons in Htxt by lia. rewrite firstz_cons in Htxt by lia. split; congruence. }
  cbn [app] in H |- *. rewrite pkl_1 in H |- *. cbn [rbind] in H |- *.
  change (47 =? 47) with true in H |- *. cbv iota in H |- *.
  change (skipz 2 (47 :: 47 :: T ++ R)) with (T ++ R) in H. change (skipz 2 (47 :: 47 :: T ++ c0 :: RR)) with (T ++ c0 :: RR).
  unfold slc in *.
  destruct (slc_loop (length (T ++ R)) (T ++ R)) as [n'| |] eqn:Es; cbn [rbind] in H; try discriminate.
  assert (Hnn : n = 2 + n') by congruence. rewrite !len_cons in Hn. assert (n' = len T) by lia. subst n'.
  assert (HntT : no_trunc T = true).
  { cbn [no_trunc] in Hnt. apply andb_true_iff in Hnt. destruct Hnt as (_ & Hnt). apply andb_true_iff in Hnt. apply Hnt. }
  rewrite (slc_loop_exchange c0 RR Hc0 _ _ _ HR HntT Es).
  - cbn [rbind]. exact H.
  - rewrite app_length. cbn [length]. lia.
Qed.

(* an HTML-like comment "<!--..." in front of LF / CR; the prevLineTerminator flag is irrelevant for it *)
Lemma html_comment_exchange_open T R c0 RR plt plt' n : R <> [] -> no_trunc T = true -> c0 = 10 \/ c0 = 13 ->
  html_comment plt (T ++ R) = Ok n -> n = len T -> firstz 4 T = [60; 33; 45; 45] ->
  html_comment plt' (T ++ c0 :: RR) = Ok n.
Proof.
  intros HR Hnt Hc0 H Hn Htxt. unfold html_comment in H |- *.
  destruct T as [|t0 [|t1 [|t2 [|t3 T]]]]; try discriminate.
  assert (t0 = 60 /\ t1 = 33 /\ t2 = 45 /\ t3 = 45) as (-> & -> & -> & ->).
  { rewrite !firstz_cons in Htxt by lia. repeat split; congruence. }
  cbn [app] in H |- *. rewrite pkl_cons_0, pkl_1, pkl_2, pkl_3 in H |- *. cbn [rbind] in H |- *.
  change (60 =? 60) with true in H |- *. change (33 =? 33) with true in H |- *. change (45 =? 45) with true in H |- *.
  cbv iota in H |- *. cbn [rbind] in H |- *.
  change (skipz 4 (60 :: 33 :: 45 :: 45 :: T ++ R)) with (T ++ R) in H.
  change (skipz 4 (60 :: 33 :: 45 :: 45 :: T ++ c0 :: RR)) with (T ++ c0 :: RR).
  unfold slc in *.
  destruct (slc_loop (length (T ++ R)) (T ++ R)) as [n'| |] eqn:Es; cbn [rbind] in H; try discriminate.
  assert (Hnn : n = 4 + n') by congruence. rewrite !len_cons in Hn. assert (n' = len T) by lia. subst n'.
  assert (HntT : no_trunc T = true).
  { cbn [no_trunc] in Hnt. repeat (apply andb_true_iff in Hnt; destruct Hnt as (_ & Hnt)). exact Hnt. }
  rewrite (slc_loop_exchange c0 RR Hc0 _ _ _ HR HntT Es).
  - cbn [rbind]. exact H.
  - rewrite app_length. cbn [length]. lia.
Qed.
