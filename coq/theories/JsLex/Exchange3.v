(* JsLex/Exchange3.v — single-line comments ("//", "<!--", "-->") in front of any line terminator (LF, CR,
   U+2028, U+2029) or of the end of the input. *)
From Verif Require Import Common.Base Common.Tactics Common.Lx Gen.Tables
  JsLex.Model JsLex.Lemmas JsLex.Total JsLex.Next JsLex.Canon JsLex.Comment JsLex.Relex JsLex.Exchange JsLex.Exchange2.
From Coq Require Import ZifyBool.

(* what may follow a single-line comment: a line terminator, or nothing *)
Definition lc_stop (R' : list Z) : Prop := lt_at R' = true \/ R' = [0].

Lemma slc_loop_stop R' : wfl R' -> lc_stop R' -> forall fuel, slc_loop (S fuel) R' = Ok 0.
Proof.
  intros Hw [Hlt| ->] fuel; [|reflexivity].
  destruct R' as [|c l]; [discriminate|]. cbn [slc_loop]. rewrite pkl_cons_0. cbn [rbind].
  destruct ((c =? 13) || (c =? 10)) eqn:E; cbn [orb]; [reflexivity|].
  destruct (peek_rune_ls c l Hw Hlt ltac:(lia) ltac:(lia)) as (r & Hr & Hr2).
  assert (c = 226).
  { cbn [lt_at] in Hlt. replace (c =? 10) with false in Hlt by lia. replace (c =? 13) with false in Hlt by lia.
    cbn [orb] in Hlt. destruct (Z.eqb_spec c 226); [assumption|discriminate]. }
  subst c. change (226 =? 0) with false. cbn [andb]. change (192 <=? 226) with true. cbv iota.
  rewrite Hr. cbn [rbind]. rewrite Hr2. reflexivity.
Qed.

Lemma slc_loop_exchange_gen R' : wfl R' -> lc_stop R' -> forall fuel T R, R <> [] -> no_trunc T = true ->
  slc_loop fuel (T ++ R) = Ok (len T) ->
  forall fuel', (length T < fuel')%nat -> slc_loop fuel' (T ++ R') = Ok (len T).
Proof.
  intros Hw' Hst. assert (HR' : R' <> []) by (apply wfl_nonnil; assumption).
  induction fuel as [|fuel IH]; intros T R HR Hnt H fuel' Hf; [discriminate|].
  destruct fuel' as [|fuel']; [lia|].
  destruct T as [|c T].
  { cbn [app]. apply slc_loop_stop; assumption. }
  cbn [slc_loop app] in *. rewrite pkl_cons_0 in H |- *. cbn [rbind] in *. rewrite len_cons in *.
  pose proof (len_nonneg T) as HT.
  assert (Hnt0 := Hnt). cbn [no_trunc] in Hnt. apply andb_true_iff in Hnt. destruct Hnt as (Hc & Hnt).
  destruct ((c =? 13) || (c =? 10)) eqn:Ecr; cbn [orb] in *; [assert (1 + len T = 0) by congruence; lia|].
  destruct ((c =? 0) && at_endl (c :: T ++ R)); [assert (1 + len T = 0) by congruence; lia|].
  replace ((c =? 0) && at_endl (c :: T ++ R')) with false
    by (destruct T; [destruct R'; [congruence|]|]; cbn [app at_endl]; rewrite andb_false_r; reflexivity).
  match type of H with rbind ?e _ = _ => destruct e as [st| |] eqn:Es; cbn [rbind] in H; try discriminate end.
  destruct st; [assert (1 + len T = 0) by congruence; lia|].
  assert (Es' : (if 192 <=? c then ' (r, _) <-- peek_rune (c :: T ++ R');; Ok ((r =? 8232) || (r =? 8233)) else Ok false) = Ok false).
  { destruct (192 <=? c) eqn:E192; [|reflexivity].
    destruct (peek_rune (c :: T ++ R)) as [[r n]| |] eqn:Er; cbn [rbind] in Es; try discriminate.
    change (c :: T ++ R) with ((c :: T) ++ R) in Er. change (c :: T ++ R') with ((c :: T) ++ R').
    destruct (peek_rune_local2 _ _ R' _ _ Hnt0 ltac:(discriminate) Er HR HR') as (Er' & _).
    rewrite Er'. exact Es. }
  rewrite Es'. cbn [rbind]. rewrite skipz_1_cons in H |- *.
  destruct (slc_loop fuel (T ++ R)) as [n'| |] eqn:Er; cbn [rbind] in H; try discriminate.
  assert (1 + n' = 1 + len T) by congruence. assert (n' = len T) by lia. subst n'.
  rewrite (IH _ _ HR Hnt Er); [reflexivity|cbn [length] in Hf; lia].
Qed.

Lemma slc_exchange_gen R' T R : wfl R' -> lc_stop R' -> R <> [] -> no_trunc T = true ->
  slc (T ++ R) = Ok (len T) -> slc (T ++ R') = Ok (len T).
Proof.
  intros Hw Hst HR Hnt H. unfold slc in *. apply (slc_loop_exchange_gen R' Hw Hst _ _ _ HR Hnt H).
  rewrite app_length. pose proof (nonempty_len R' (wfl_nonnil _ Hw)). unfold len in *. lia.
Qed.

Lemma no_trunc_tail k T : no_trunc T = true -> 0 <= k -> no_trunc (skipz k T) = true.
Proof. apply no_trunc_skipz. Qed.

(* "//..." *)
Lemma comment_exchange_line_gen T R R' n ty e sl : wfl R' -> lc_stop R' -> R <> [] -> no_trunc T = true ->
  comment (T ++ R) = Ok (n, ty, e, sl) -> n = len T -> firstz 2 T = [47; 47] ->
  comment (T ++ R') = Ok (n, ty, e, sl).
Proof.
  intros Hw Hst HR Hnt H Hn Htxt. unfold comment in H |- *.
  destruct T as [|t0 [|t1 T]]; try discriminate.
  assert (t0 = 47 /\ t1 = 47) as (-> & ->).
  { rewrite firstz_cons in Htxt by lia. rewrite firstz_cons in Htxt by lia. split; congruence. }
  cbn [app] in H |- *. rewrite pkl_1 in H |- *. cbn [rbind] in H |- *.
  change (47 =? 47) with true in H |- *. cbv iota in H |- *.
  change (skipz 2 (47 :: 47 :: T ++ R)) with (T ++ R) in H. change (skipz 2 (47 :: 47 :: T ++ R')) with (T ++ R').
  destruct (slc (T ++ R)) as [n'| |] eqn:Es; cbn [rbind] in H; try discriminate.
  assert (Hnn : n = 2 + n') by congruence. rewrite !len_cons in Hn. assert (n' = len T) by lia. subst n'.
  rewrite (slc_exchange_gen R' T R Hw Hst HR (no_trunc_tail 2 (47 :: 47 :: T) Hnt ltac:(lia)) Es).
  cbn [rbind]. exact H.
Qed.

(* "<!--..." (the prevLineTerminator flag is irrelevant) and "-->..." (the flag must be set) *)
Lemma html_comment_exchange_gen T R R' plt plt' n : wfl R' -> lc_stop R' -> R <> [] -> no_trunc T = true ->
  html_comment plt (T ++ R) = Ok n -> n = len T ->
  (firstz 4 T = [60; 33; 45; 45] \/ (firstz 3 T = [45; 45; 62] /\ plt' = true)) ->
  html_comment plt' (T ++ R') = Ok n.
Proof.
  intros Hw Hst HR Hnt H Hn [Htxt|(Htxt & ->)]; unfold html_comment in H |- *.
  - destruct T as [|t0 [|t1 [|t2 [|t3 T]]]]; try discriminate.
    assert (t0 = 60 /\ t1 = 33 /\ t2 = 45 /\ t3 = 45) as (-> & -> & -> & ->).
    { rewrite !firstz_cons in Htxt by lia. repeat split; congruence. }
    cbn [app] in H |- *. rewrite pkl_cons_0, pkl_1, pkl_2, pkl_3 in H |- *. cbn [rbind] in H |- *.
    change (60 =? 60) with true in H |- *. change (33 =? 33) with true in H |- *. change (45 =? 45) with true in H |- *.
    cbv iota in H |- *. cbn [rbind] in H |- *.
    change (skipz 4 (60 :: 33 :: 45 :: 45 :: T ++ R)) with (T ++ R) in H.
    change (skipz 4 (60 :: 33 :: 45 :: 45 :: T ++ R')) with (T ++ R').
    destruct (slc (T ++ R)) as [n'| |] eqn:Es; cbn [rbind] in H; try discriminate.
    assert (Hnn : n = 4 + n') by congruence. rewrite !len_cons in Hn. assert (n' = len T) by lia. subst n'.
    rewrite (slc_exchange_gen R' T R Hw Hst HR (no_trunc_tail 4 (60 :: 33 :: 45 :: 45 :: T) Hnt ltac:(lia)) Es).
    cbn [rbind]. exact H.
  - destruct T as [|t0 [|t1 [|t2 T]]]; try discriminate.
    assert (t0 = 45 /\ t1 = 45 /\ t2 = 62) as (-> & -> & ->).
    { rewrite !firstz_cons in Htxt by lia. repeat split; congruence. }
    cbn [app] in H |- *. rewrite pkl_cons_0, pkl_1, pkl_2 in H |- *. cbn [rbind] in H |- *.
    change (45 =? 60) with false in H |- *. cbv iota in H |- *. cbn [rbind] in H |- *.
    change (45 =? 45) with true in H |- *. change (62 =? 62) with true in H |- *. cbn [andb].
    destruct plt; cbn [andb] in H; cbv iota in H; cbn [rbind] in H.
    + cbv iota. cbn [rbind]. cbv iota in H.
      change (skipz 3 (45 :: 45 :: 62 :: T ++ R)) with (T ++ R) in H.
      change (skipz 3 (45 :: 45 :: 62 :: T ++ R')) with (T ++ R').
      destruct (slc (T ++ R)) as [n'| |] eqn:Es; cbn [rbind] in H; try discriminate.
      assert (Hnn : n = 3 + n') by congruence. rewrite !len_cons in Hn. assert (n' = len T) by lia. subst n'.
      rewrite (slc_exchange_gen R' T R Hw Hst HR (no_trunc_tail 3 (45 :: 45 :: 62 :: T) Hnt ltac:(lia)) Es).
      cbn [rbind]. exact H.
    + exfalso. assert (n = 0) by congruence. rewrite !len_cons in Hn. pose proof (len_nonneg T). lia.
Qed.
