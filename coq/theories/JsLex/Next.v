(* JsLex/Next.v — Lexer.Next and Lexer.RegExp never panic on a well-formed state; what a call does
   to the cursor (bounds, progress, the returned slice). *)
From Verif Require Import Common.Base Common.Tactics Common.Lx Gen.Tables JsLex.Model JsLex.Lemmas JsLex.Total.
From Coq Require Import ZifyBool.

Definition js_wf (s : jst) : Prop := lx_wf (jcur s).

(* what one call does, relative to the cursor z0 it started from *)
Record step_ok (z0 : lx) (t : tok) (s' : jst) : Prop := mk_step_ok {
  so_wf : lx_wf (jcur s');
  so_buf : lbuf (jcur s') = lbuf z0;
  so_pos : lpos z0 <= lpos (jcur s');
  so_data : match snd t with
            | Some b => lstart (jcur s') = lpos (jcur s') /\
                        b = slice (lbuf z0) (lstart z0) (lpos (jcur s'))
            | None => lstart (jcur s') = lstart z0 /\ fst t = ErrorToken
            end;
  so_prog : lpos z0 < lpos (jcur s') \/
            (fst t = ErrorToken /\ lpos (jcur s') = lpos z0 /\
             ((snd t = None /\ at_end z0 = true /\ jerr s' = ENone) \/ (snd t <> None /\ mark z0 <> 0)))
}.

Definition good (z0 : lx) (r : res (tok * jst)) : Prop :=
  exists t s', r = Ok (t, s') /\ step_ok z0 t s'.

Lemma suffix_len z : lx_wf z -> len (suffix z) = lx_len z - lpos z + 1.
Proof. intros H. apply suffix_wfl; assumption. Qed.

Lemma emit_good z0 s z ty :
  lx_wf z -> lbuf z = lbuf z0 -> lstart z = lstart z0 -> lpos z0 < lpos z ->
  good z0 (emit s z ty).
Proof.
  intros Hw Hb Hs Hp. unfold good, emit. destruct (shift_wf z Hw) as (b & -> & Hbv & Hw').
  eexists _, _. split; [reflexivity|].
  constructor; cbn [jcur set_cur skip lbuf lpos lstart fst snd]; try assumption; try lia.
  split; [reflexivity|]. rewrite Hbv, Hb, Hs. reflexivity.
Qed.

Lemma emit_good_stale z0 s z :
  lx_wf z -> lbuf z = lbuf z0 -> lstart z = lstart z0 -> lpos z = lpos z0 -> mark z0 <> 0 ->
  good z0 (emit s z ErrorToken).
Proof.
  intros Hw Hb Hs Hp Hm. unfold good, emit. destruct (shift_wf z Hw) as (b & -> & Hbv & Hw').
  eexists _, _. split; [reflexivity|].
  constructor; cbn [jcur set_cur skip lbuf lpos lstart fst snd]; try assumption; try lia.
  - split; [reflexivity|]. rewrite Hbv, Hb, Hs. reflexivity.
  - right. split; [reflexivity|]. split; [assumption|]. right. split; [discriminate|assumption].
Qed.

Lemma mv_facts z n : lx_wf z -> 0 <= n < len (suffix z) ->
  lx_wf (mv z n) /\ lbuf (mv z n) = lbuf z /\ lstart (mv z n) = lstart z /\ lpos (mv z n) = lpos z + n.
Proof.
  intros Hw Hn. rewrite suffix_len in Hn by assumption.
  split; [apply mv_wf; [assumption|lia|lia]|]. auto.
Qed.

Lemma emit_mv_good z0 s n ty : lx_wf z0 -> 0 < n < len (suffix z0) -> good z0 (emit s (mv z0 n) ty).
Proof.
  intros Hw Hn. destruct (mv_facts z0 n Hw ltac:(lia)) as (H1 & H2 & H3 & H4).
  apply emit_good; try assumption. lia.
Qed.

Ltac use_repl Hf l' :=
  let n := fresh "m" in let H := fresh "Hs" in let Hb := fresh "Hb" in
  let Hw' := fresh "Hw" in
  assert (Hw' : wfl l') by (apply wfl_skipz; [assumption | lia]);
  destruct (repl_ok _ Hf l' Hw') as (n & H & Hb); rewrite H; cbn [rbind];
  rewrite ?len_skipz in Hb by lia.

Section Next.
Variables (id_start id_cont is_zs : Z -> bool).

(* the generic error path, entered at z (z0 possibly moved forward) *)
Lemma err_path_good z0 s z :
  lx_wf z -> lbuf z = lbuf z0 -> lstart z = lstart z0 ->
  lpos z0 < lpos z \/ (lpos z = lpos z0 /\ 1 < len (suffix z)) ->
  good z0 (err_path s z).
Proof.
  intros Hw Hb Hs Hp. destruct (suffix_wfl z Hw) as (Hwl & Hlen). pose proof (wfl_len _ Hwl) as H1.
  unfold err_path. destruct (peek_rune_ok _ Hwl) as (r & n & -> & _). cbn [rbind].
  set (l := suffix z) in *. step_pk. rewrite at_endl_spec.
  assert (Hmv : forall k, 0 <= k < len l -> (lpos z0 < lpos z \/ 0 < k) ->
                good z0 (emit (set_err s EUnexpected) (mv z k) ErrorToken)).
  { intros k Hk Hk2. destruct (mv_facts z k Hw Hk) as (F1 & F2 & F3 & F4).
    apply emit_good; try congruence. lia. }
  brk.
  - destruct (move_rune_len_ok _ Hwl) as (m & -> & Hm1 & Hm2). cbn [rbind]. fold l in Hm2.
    apply Hmv; lia.
  - cbn [rbind]. apply Hmv; lia.
Qed.

Lemma op_or_err_good z0 s z c :
  lx_wf z -> lbuf z = lbuf z0 -> lstart z = lstart z0 -> lpos z0 <= lpos z ->
  pkl (suffix z) 0 = Ok c -> c <> 0 ->
  good z0 (op_or_err s z).
Proof.
  intros Hw Hb Hs Hp Hc Hnz. destruct (suffix_wfl z Hw) as (Hwl & Hlen).
  unfold op_or_err. destruct (op_ok _ _ Hwl Hc Hnz) as (n & ty & -> & Hn). cbn [rbind].
  destruct (mv_facts z n Hw ltac:(lia)) as (F1 & F2 & F3 & F4).
  brk.
  - apply emit_good; try congruence. lia.
  - apply err_path_good; try congruence. left. lia.
Qed.

Lemma template_good z0 s c :
  lx_wf z0 -> pkl (suffix z0) 0 = Ok c -> c <> 0 -> jtl s <> [] ->
  good z0 (template s z0).
Proof.
  intros Hw Hc Hnz Htl. destruct (suffix_wfl z0 Hw) as (Hwl & Hlen).
  pose proof (pkl_nz _ _ _ Hwl Hc Hnz) as H1.
  unfold template. rewrite Hc. cbn [rbind].
  assert (Hw' : wfl (skipz 1 (suffix z0))) by (apply wfl_skipz; [assumption|lia]).
  destruct (tpl_loop_ok (length (suffix z0)) _ Hw') as (n & o & -> & Hb).
  { apply length_skipz_le. }
  rewrite len_skipz in Hb by lia. cbn [rbind].
  brk.
  - destruct (jtl s) as [|top rest]; [congruence|]. apply emit_mv_good; [assumption|lia].
  - brk; apply emit_mv_good; try assumption; lia.
Qed.

Lemma next_good s0 : js_wf s0 -> good (jcur s0) (next id_start id_cont is_zs s0).
Proof.
  destruct s0 as [z e0 plt0 pnl0 lev tl]. unfold js_wf. cbn [jcur]. intros Hw.
  destruct (suffix_wfl _ Hw) as (Hwl & Hlen). pose proof (wfl_len _ Hwl) as H1.
  unfold next. cbv zeta. cbn [jcur jerr jplt jpnl jlevel jtl].
  remember (suffix z) as l eqn:El.
  set (s := mkJst z ENone false false lev tl).
  assert (EM : forall s' n ty, 0 < n < len l -> good z (emit s' (mv z n) ty)).
  { intros s' n ty Hn. apply emit_mv_good; [exact Hw | rewrite <- El; lia]. }
  step_pk.
  (* whitespace *)
  brk. { use_repl (ws1_ok is_zs) (skipz 1 l). apply EM. lia. }
  (* line terminators *)
  brk. { use_repl lt1_ok (skipz 1 l). apply EM. lia. }
  (* operators *)
  brk. { apply (op_or_err_good z s z c); try reflexivity; try assumption; try lia.
         - rewrite <- El. assumption.
         - unfold is_op_start in *. lia. }
  (* numbers, dot, ellipsis *)
  brk.
  { destruct (numeric_ok l c Hwl Hpk ltac:(lia)) as (n & ty & e & -> & Hn & Hn0). cbn [rbind].
    destruct (mv_facts z n Hw ltac:(rewrite <- El; lia)) as (F1 & F2 & F3 & F4).
    brk.
    - destruct (Z.eq_dec n 0) as [->|Hnz].
      + (* nothing consumed: only with a stale start *)
        destruct (Hn0 eq_refl) as (-> & ->).
        assert (mark z <> 0).
        { rewrite mv_0 in *. unfold ErrorToken in *. lia. }
        rewrite mv_0. apply emit_good_stale; auto.
      + apply EM. lia.
    - assert (n = 0).
      { destruct (Z.eq_dec n 0); [assumption|]. exfalso.
        unfold mark in *. rewrite F3, F4 in *. destruct Hw as (_ & Hs & _). lia. }
      subst n. destruct (Hn0 eq_refl) as (-> & ->). rewrite mv_0.
      change (46 =? 46) with true. cbv iota.
      rewrite suffix_mv by (destruct Hw as (_ & ? & _); lia). rewrite <- El.
      rewrite !pkl_skipz by lia. step_pk.
      brk; cbn [rbind].
      + step_pk. brk.
        * rewrite mv_mv. apply EM. lia.
        * apply EM. lia.
      + apply EM. lia. }
  brk. { apply EM. lia. }
  brk. { apply EM. lia. }
  brk. { apply EM. lia. }
  brk. { apply EM. lia. }
  (* comments, '/' and '/=' *)
  brk.
  { destruct (comment_ok l Hwl ltac:(lia)) as (n & ty & e & sl & -> & Hn & Hn2 & Hn3). cbn [rbind].
    destruct (mv_facts z n Hw ltac:(rewrite <- El; lia)) as (F1 & F2 & F3 & F4).
    brk.
    - assert (2 <= n) by (apply Hn2; unfold ErrorToken, ENone in *; lia).
      brk.
      + unfold good. eexists _, _. split; [reflexivity|].
        constructor; cbn [jcur set_cur set_err fst snd]; try assumption; try lia.
      + apply EM. lia.
    - apply (op_or_err_good z _ (mv z n) c); try assumption; try lia.
      rewrite suffix_mv by (destruct Hw as (_ & ? & _); lia). rewrite <- El.
      rewrite pkl_skipz by lia.
      (* the comment scanner moved nothing *)
      assert (n = 0) by (apply Hn3; unfold ErrorToken, ENone in *; lia).
      subst n. replace (0 + 0) with 0 by lia. assumption. }
  brk. { apply EM. lia. }
  (* '}' : closes a block or resumes a template *)
  brk.
  { subst s. cbn [jtl set_level jlevel]. destruct tl as [|top rest].
    - apply EM. lia.
    - brk.
      + apply (template_good z _ c); try assumption; try lia.
        * rewrite <- El. assumption.
        * cbn [jtl set_level]. discriminate.
      + apply EM. lia. }
  brk. { apply EM. lia. }
  (* strings *)
  brk.
  { destruct (string_tok_ok l c Hwl Hpk ltac:(lia)) as (n & ty & e & -> & Hn). cbn [rbind].
    apply EM. lia. }
  brk. { apply EM. lia. }
  brk. { apply EM. lia. }
  (* '<' and '-' *)
  brk.
  { destruct (html_comment_ok plt0 l Hwl) as (n & -> & Hn). cbn [rbind]. brk.
    - apply EM. lia.
    - apply (op_or_err_good z s z c); try reflexivity; try assumption; try lia.
      rewrite <- El. assumption. }
  (* '`' *)
  brk.
  { apply (template_good z _ c); try assumption; try lia.
    - rewrite <- El. assumption.
    - cbn [jtl set_tl]. discriminate. }
  (* '#' *)
  brk.
  { destruct (mv_facts z 1 Hw ltac:(rewrite <- El; lia)) as (F1 & F2 & F3 & F4).
    rewrite suffix_mv by (destruct Hw as (_ & ? & _); lia). rewrite <- El.
    assert (Hw1 : wfl (skipz 1 l)) by (apply wfl_skipz; [assumption|lia]).
    destruct (ident_ok id_start id_cont _ Hw1) as (n & -> & Hn). cbn [rbind].
    rewrite len_skipz in Hn by lia. brk.
    - rewrite mv_mv. apply EM. lia.
    - apply err_path_good; try assumption. left. lia. }
  (* identifiers, keywords, non-ASCII whitespace and line terminators, EOF *)
  destruct (ident_ok id_start id_cont l Hwl) as (n & -> & Hn). cbn [rbind]. brk.
  { destruct (mv_facts z n Hw ltac:(rewrite <- El; lia)) as (F1 & F2 & F3 & F4).
    destruct pnl0.
    - unfold good. eexists _, _. split; [reflexivity|].
      constructor; cbn [jcur set_cur set_err fst snd]; try assumption; try lia.
    - destruct (shift_wf _ F1) as (b & Hsh & _). unfold shift in Hsh.
      destruct (lexeme (mv z n)) as [w|]; [|discriminate].
      destruct (lookup_kw js_keywords w); apply EM; lia. }
  assert (HE : 1 < len l -> good z (err_path s z)).
  { intros Hl. apply err_path_good; try reflexivity; try assumption. right. rewrite <- El. lia. }
  brk.
  { destruct (ws1_ok is_zs l Hwl) as (w & -> & Hw0). cbn [rbind]. brk.
    - use_repl (ws1_ok is_zs) (skipz w l). apply EM. lia.
    - destruct (lt1_ok l Hwl) as (t & -> & Ht). cbn [rbind]. brk.
      + use_repl lt1_ok (skipz t l). apply EM. lia.
      + apply HE. lia. }
  rewrite at_endl_spec. brk.
  - unfold good. eexists _, _. split; [reflexivity|]. subst s.
    constructor; cbn [jcur jerr fst snd]; try assumption; try lia.
    + split; reflexivity.
    + right. split; [reflexivity|]. split; [reflexivity|]. left. split; [reflexivity|].
      split; [|reflexivity]. unfold at_end. lia.
  - apply HE. lia.
Qed.

(* Lexer.RegExp never panics; the cursor stays inside the input *)
Lemma regexp_good s : js_wf s ->
  exists t s', regexp id_cont s = Ok (t, s') /\ js_wf s' /\ lbuf (jcur s') = lbuf (jcur s) /\
    match snd t with
    | Some b => fst t = RegExpToken /\ lstart (jcur s') = lpos (jcur s') /\
                exists back, 1 <= back <= 2 /\ back <= lpos (jcur s) /\ lpos (jcur s) - back < lpos (jcur s') /\
                  getz (lbuf (jcur s)) (lpos (jcur s) - back) = 47 /\
                  b = slice (lbuf (jcur s)) (lpos (jcur s) - back) (lpos (jcur s'))
    | None => fst t = ErrorToken
    end.
Proof.
  destruct s as [z e0 plt0 pnl0 lev tl]. unfold js_wf. cbn [jcur]. intros Hw.
  unfold regexp. cbn [jcur]. cbv zeta.
  assert (Hpk : forall i, 0 <= lpos z + i <= lx_len z -> exists c, pk z i = Some c /\ c = getz (lbuf z) (lpos z + i)).
  { intros i Hi. destruct (pk_in_range z i Hw Hi) as (c & Hc). exists c. split; [assumption|].
    unfold pk in Hc. unfold getz. rewrite Hc. reflexivity. }
  assert (Hback : forall back, 1 <= back <= 2 -> back <= lpos z ->
     getz (lbuf z) (lpos z - back) = 47 ->
     exists t s', (
      ' (n, ok) <-- regexp_tok id_cont (suffix (skip (mv z (- back)))) ;;
      (if ok then emit (mkJst z e0 plt0 pnl0 lev tl) (mv (skip (mv z (- back))) n) RegExpToken
       else Ok (ErrorToken, None, set_cur (set_err (mkJst z e0 plt0 pnl0 lev tl) ERegExp) (mv (skip (mv z (- back))) n)))) = Ok (t, s') /\
      lx_wf (jcur s') /\ lbuf (jcur s') = lbuf z /\
      match snd t with
      | Some b => fst t = RegExpToken /\ lstart (jcur s') = lpos (jcur s') /\
                  exists back, 1 <= back <= 2 /\ back <= lpos z /\ lpos z - back < lpos (jcur s') /\
                  getz (lbuf z) (lpos z - back) = 47 /\ b = slice (lbuf z) (lpos z - back) (lpos (jcur s'))
      | None => fst t = ErrorToken
      end).
  { intros back Hb Hbl Hnz. cbv zeta.
    assert (Hw2 : lx_wf (skip (mv z (- back)))).
    { destruct Hw as (Hd & Hs & Hp). unfold lx_wf, skip, mv, lx_len in *. cbn [lbuf lpos lstart]. repeat split; try assumption; lia. }
    set (z2 := skip (mv z (- back))) in *.
    destruct (suffix_wfl z2 Hw2) as (Hwl & Hlen).
    assert (Hp2 : lpos z2 = lpos z - back) by (subst z2; cbn; lia).
    assert (Hs2 : lstart z2 = lpos z - back) by (subst z2; cbn; lia).
    assert (Hb2 : lbuf z2 = lbuf z) by reflexivity.
    assert (Hl2 : lx_len z2 = lx_len z) by reflexivity.
    (* the byte under the cursor is not the terminator *)
    assert (H1 : 1 < len (suffix z2)).
    { destruct (pkl_ok (suffix z2) 0) as (c & Hc). { pose proof (wfl_len _ Hwl). lia. }
      apply (pkl_nz _ 0 c Hwl Hc). intros ->.
      unfold suffix in Hc. rewrite pkl_skipz, pkl_peekz in Hc by (destruct Hw2 as (_ & ? & _); lia).
      unfold getz in Hnz. rewrite Hb2, Hp2 in Hc. replace (lpos z - back + 0) with (lpos z - back) in Hc by lia.
      destruct (peekz (lbuf z) (lpos z - back)) as [cc|]; [|discriminate]. assert (cc = 0) by congruence. lia. }
    destruct (regexp_tok_ok id_cont _ Hwl H1) as (n & ok & -> & Hn). cbn [rbind].
    destruct (mv_facts z2 n Hw2 ltac:(lia)) as (F1 & F2 & F3 & F4).
    destruct ok.
    - unfold emit. destruct (shift_wf _ F1) as (b & -> & Hbv & Hw3).
      eexists _, _. split; [reflexivity|]. cbn [jcur set_cur skip lbuf lpos lstart fst snd].
      split; [assumption|]. split; [congruence|]. split; [reflexivity|]. split; [reflexivity|].
      exists back. split; [lia|]. split; [lia|]. split; [lia|]. split; [assumption|].
      rewrite Hbv, F2, F3, Hs2. reflexivity.
    - eexists _, _. split; [reflexivity|]. cbn [jcur set_cur set_err fst snd].
      split; [assumption|]. split; [congruence|]. reflexivity. }
  destruct (Z.ltb_spec 0 (lpos z)) as [Hp0|Hp0].
  - destruct (Hpk (-1)) as (c & -> & Hc). { destruct Hw as (_ & ? & ?). lia. }
    cbn [rbind]. replace (lpos z + -1) with (lpos z - 1) in Hc by lia.
    destruct (Z.eqb_spec c 47) as [E47|E47].
    + cbn [rbind]. change (1 =? 0) with false. cbv iota.
      destruct (Hback 1 ltac:(lia) ltac:(lia) ltac:(lia)) as (t & s' & -> & R1 & R2 & R4).
      exists t, s'. split; [reflexivity|]. split; [assumption|]. split; [assumption|]. assumption.
    + cbn [rbind]. destruct (Z.ltb_spec 1 (lpos z)) as [Hp1|Hp1].
      * destruct (Z.eqb_spec c 61) as [E61|E61]; cbn [rbind].
        -- destruct (Hpk (-2)) as (c2 & -> & Hc2). { destruct Hw as (_ & ? & ?). lia. }
           cbn [rbind]. replace (lpos z + -2) with (lpos z - 2) in Hc2 by lia.
           destruct (Z.eqb_spec c2 47) as [E2|E2]; cbn [rbind].
           ++ change (2 =? 0) with false. cbv iota.
              destruct (Hback 2 ltac:(lia) ltac:(lia) ltac:(lia)) as (t & s' & -> & R1 & R2 & R4).
              exists t, s'. split; [reflexivity|]. split; [assumption|]. split; [assumption|]. assumption.
           ++ change (0 =? 0) with true. cbv iota. eexists _, _. split; [reflexivity|].
              cbn [jcur set_err fst snd]. split; [assumption|]. split; reflexivity.
        -- change (0 =? 0) with true. cbv iota. eexists _, _. split; [reflexivity|].
           cbn [jcur set_err fst snd]. split; [assumption|]. split; reflexivity.
      * change (0 =? 0) with true. cbv iota. eexists _, _. split; [reflexivity|].
        cbn [jcur set_err fst snd]. split; [assumption|]. split; reflexivity.
  - cbn [rbind]. replace (1 <? lpos z) with false by lia. cbn [rbind]. change (0 =? 0) with true. cbv iota.
    eexists _, _. split; [reflexivity|].
    cbn [jcur set_err fst snd]. split; [assumption|]. split; reflexivity.
Qed.

End Next.
