(* JsLex/NumExchange.v — numeric literals in front of a follower that cannot extend them
   (not an identifier character, not '.', ASCII): generalises the restriction lemmas of Relex.v. *)
From Verif Require Import Common.Base Common.Tactics Common.Lx Gen.Tables
  JsLex.Model JsLex.Lemmas JsLex.Total JsLex.Next JsLex.Canon JsLex.Comment JsLex.Relex JsLex.Exchange.
From Coq Require Import ZifyBool.

(* digits, hex digits, '_', 'n', 'e', 'x' ... are all identifier characters *)
Lemma tab_cont_digits : forallb (fun c => tab_cont c) (zrange 48 57 ++ zrange 65 70 ++ zrange 97 102) = true.
Proof. vm_compute. reflexivity. Qed.

Lemma tab_cont_hex c : (48 <= c <= 57 \/ 65 <= c <= 70 \/ 97 <= c <= 102) -> tab_cont c = true.
Proof.
  intros H. pose proof tab_cont_digits as T. rewrite forallb_forall in T. apply T.
  rewrite !in_app_iff. destruct H as [H|[H|H]]; [left|right; left|right; right]; apply zrange_in; lia.
Qed.

(* a plain decimal integer: digits and separators only; the only numeric literals that a '.' continues *)
Definition is_dec_int (T : list Z) : bool := forallb (fun b => ((48 <=? b) && (b <=? 57)) || (b =? 95)) T.

Lemma dos_digit_step l n : dig_or_sep digit1 l = Ok n -> 0 < n -> 0 <= n /\ is_dec_int (firstz n l) = true.
Proof.
  unfold dig_or_sep, digit1, num_sep. destruct l as [|c l']; [discriminate|]. rewrite pkl_cons_0. cbn [rbind].
  destruct ((48 <=? c) && (c <=? 57)) eqn:Ed.
  - change (0 <? 1) with true. cbv iota. intros Hx _. assert (n = 1) by (injection Hx; lia). subst n. split; [lia|].
    change (firstz 1 (c :: l')) with [c]. unfold is_dec_int. cbn [forallb]. rewrite Ed. reflexivity.
  - change (0 <? 0) with false. cbv iota. destruct (negb (c =? 95)) eqn:E95; [intros [= <-]; lia|].
    rewrite skipz_1_cons. destruct l' as [|c1 l'']; [discriminate|]. rewrite pkl_cons_0. cbn [rbind].
    destruct ((48 <=? c1) && (c1 <=? 57)) eqn:Ed1.
    + change (1 <=? 0) with false. cbv iota. intros Hx _. assert (n = 2) by (injection Hx; lia). subst n. split; [lia|].
      change (firstz 2 (c :: c1 :: l'')) with [c; c1]. unfold is_dec_int. cbn [forallb]. rewrite Ed1.
      replace (c =? 95) with true by lia. rewrite orb_true_r. reflexivity.
    + change (0 <=? 0) with true. cbv iota. intros [= <-]. lia.
Qed.

Lemma is_dec_int_app a b : is_dec_int (a ++ b) = is_dec_int a && is_dec_int b.
Proof. apply forallb_app. Qed.

Lemma rep_dos_dec_int : forall fuel l m, rep (dig_or_sep digit1) fuel l = Ok m -> 0 <= m /\ is_dec_int (firstz m l) = true.
Proof.
  induction fuel as [|f IH]; intros l m H; [discriminate|]. cbn [rep] in H.
  destruct (dig_or_sep digit1 l) as [n| |] eqn:En; cbn [rbind] in H; try discriminate.
  destruct (n <=? 0) eqn:E0.
  - assert (m = 0) by congruence. subst m. split; [lia|reflexivity].
  - destruct (rep (dig_or_sep digit1) f (skipz n l)) as [m'| |] eqn:Em; cbn [rbind] in H; try discriminate.
    assert (m = n + m') by congruence. subst m.
    destruct (dos_digit_step l n En ltac:(lia)) as (Hn & Hd). destruct (IH _ _ Em) as (Hm & Hd').
    split; [lia|]. rewrite firstz_plus by lia. rewrite is_dec_int_app, Hd, Hd'. reflexivity.
Qed.

Section NumExchange.
Variables (c0 : Z) (RR : list Z).
Hypothesis Hs1 : tab_cont c0 = false.
Let R' := c0 :: RR.

Lemma HR' : R' <> []. Proof. discriminate. Qed.

Lemma nd : ~ (48 <= c0 <= 57 \/ 65 <= c0 <= 70 \/ 97 <= c0 <= 102).
Proof. intros H. rewrite (tab_cont_hex c0 H) in Hs1. discriminate. Qed.

(* c0 is none of the letters the numeric scanner tests for *)
Ltac nc k := replace (c0 =? k) with false
  by (symmetry; apply Z.eqb_neq; first [assumption | intros Hx; rewrite Hx in Hs1; vm_compute in Hs1; discriminate]).

Lemma pkl_at_end2 T k : k = len T -> pkl (T ++ R') k = Ok c0.
Proof.
  intros ->. rewrite pkl_app_r by lia. replace (len T - len T) with 0 by lia. reflexivity.
Qed.

(* the four digit steps decline on c0 *)
Lemma Hz_digit1 : digit1 R' = Ok 0.
Proof. pose proof nd as N. unfold R', digit1. rewrite pkl_cons_0. cbn [rbind]. replace ((48 <=? c0) && (c0 <=? 57)) with false by lia. reflexivity. Qed.
Lemma Hz_hex1 : hex1 R' = Ok 0.
Proof.
  pose proof nd as N. unfold R', hex1. rewrite pkl_cons_0. cbn [rbind].
  replace (((48 <=? c0) && (c0 <=? 57)) || ((97 <=? c0) && (c0 <=? 102)) || ((65 <=? c0) && (c0 <=? 70))) with false by lia. reflexivity.
Qed.
Lemma Hz_bin1 : bin1 R' = Ok 0.
Proof. pose proof nd as N. unfold R', bin1. rewrite pkl_cons_0. cbn [rbind]. replace ((c0 =? 48) || (c0 =? 49)) with false by lia. reflexivity. Qed.
Lemma Hz_oct1 : oct1 R' = Ok 0.
Proof. pose proof nd as N. unfold R', oct1. rewrite pkl_cons_0. cbn [rbind]. replace ((48 <=? c0) && (c0 <=? 55)) with false by lia. reflexivity. Qed.

(* digit, or '_' digit: local and stopping in front of R' *)
Lemma dos_local2 f : is_byte_step f -> local_to R' (dig_or_sep f).
Proof.
  intros Hf A R k _ HR H Hk. unfold dig_or_sep, num_sep in *.
  destruct A as [|c A]; [change (len (@nil Z)) with 0 in Hk; lia|]. cbn [app] in *. rewrite len_cons in Hk.
  rewrite (bs_head f c (A ++ R') (A ++ R) Hf).
  destruct (f (c :: A ++ R)) as [n| |] eqn:En; cbn [rbind] in *; try discriminate.
  destruct (0 <? n); [assumption|].
  rewrite pkl_cons_0 in H |- *. cbn [rbind] in *. destruct (negb (c =? 95)); [assumption|].
  rewrite skipz_1_cons in *.
  destruct A as [|c1 A]; cbn [app] in *.
  - exfalso. destruct (f R) as [n1| |] eqn:E1; cbn [rbind] in H; try discriminate.
    pose proof (bs_bit f Hf _ _ E1). change (len (@nil Z)) with 0 in Hk.
    destruct (Z.leb_spec n1 0); [assert (k = 0) by congruence|assert (k = 1 + n1) by congruence]; lia.
  - rewrite (bs_head f c1 (A ++ R') (A ++ R) Hf). assumption.
Qed.

Lemma dos_stopR f : is_byte_step f -> f R' = Ok 0 -> dig_or_sep f R' = Ok 0.
Proof.
  intros Hf Hz. unfold dig_or_sep, num_sep. rewrite Hz. cbn [rbind]. change (0 <? 0) with false. cbv iota.
  unfold R'. rewrite pkl_cons_0. cbn [rbind]. nc 95. reflexivity.
Qed.

Lemma dos_stops2 f : is_byte_step f -> f R' = Ok 0 -> stops_to R' (dig_or_sep f).
Proof.
  intros Hf Hz A R HA HR H. unfold dig_or_sep, num_sep in *.
  destruct A as [|c A]; [congruence|]. cbn [app] in *.
  rewrite (bs_head f c (A ++ R') (A ++ R) Hf).
  destruct (f (c :: A ++ R)) as [n| |] eqn:En; cbn [rbind] in *; try discriminate.
  destruct (0 <? n); [assumption|].
  rewrite pkl_cons_0 in H |- *. cbn [rbind] in *. destruct (negb (c =? 95)); [assumption|].
  rewrite skipz_1_cons in *.
  destruct A as [|c1 A]; cbn [app] in *.
  - rewrite Hz. cbn [rbind]. reflexivity.
  - rewrite (bs_head f c1 (A ++ R') (A ++ R) Hf). assumption.
Qed.

Lemma dos_loop_all2 f T R k : is_byte_step f -> f R' = Ok 0 -> no_trunc T = true -> R <> [] -> 0 <= k <= len T ->
  repl (dig_or_sep f) (skipz k (T ++ R)) = Ok (len T - k) ->
  repl (dig_or_sep f) (skipz k (T ++ R')) = Ok (len T - k).
Proof.
  intros Hf Hz HT HR Hk H. unfold repl in *. rewrite skipz_app_le in * by lia.
  replace (len T - k) with (len (skipz k T)) in * by (rewrite len_skipz by lia; reflexivity).
  apply (rep_exchange_all _ R' (dos_local2 f Hf) (dos_stopR f Hf Hz) (dos_nonneg f Hf) _ _ _ (no_trunc_skipz' k T HT ltac:(lia)) HR H).
  rewrite app_length. pose proof (nonempty_len R' HR'). unfold len in *. lia.
Qed.

(* the digit loop stopped inside T or at its end *)
Lemma dos_loop_part2 f T R k m : is_byte_step f -> f R' = Ok 0 -> no_trunc T = true -> R <> [] -> 0 <= k <= len T ->
  repl (dig_or_sep f) (skipz k (T ++ R)) = Ok m -> k + m <= len T ->
  repl (dig_or_sep f) (skipz k (T ++ R')) = Ok m.
Proof.
  intros Hf Hz HT HR Hk H Hm.
  destruct (Z.eq_dec (k + m) (len T)) as [Heq|Hne].
  { assert (m = len T - k) by lia. subst m. apply (dos_loop_all2 f T R k Hf Hz HT HR Hk H). }
  unfold repl in *. rewrite skipz_app_le in * by lia.
  apply (rep_exchange_part _ R' (dos_local2 f Hf) (dos_stops2 f Hf Hz) (dos_nonneg f Hf) _ _ _ _ (no_trunc_skipz' k T HT ltac:(lia)) HR H).
  - rewrite len_skipz by lia. lia.
  - rewrite app_length. pose proof (nonempty_len R' HR'). unfold len in *. lia.
Qed.


(* a byte step at position k of T ++ X *)
Lemma bs_at2 f T X k : is_byte_step f -> 0 <= k < len T -> f (skipz k (T ++ X)) = f (skipz k (T ++ R')).
Proof.
  intros Hf Hk. rewrite !skipz_app_le by lia.
  assert (Hne : skipz k T <> []) by (apply len_pos_nonempty; rewrite len_skipz by lia; lia).
  destruct (skipz k T) as [|c t]; [congruence|]. cbn [app]. apply bs_head. assumption.
Qed.

Lemma bs_at_end2 f T k : f R' = Ok 0 -> k = len T -> f (skipz k (T ++ R')) = Ok 0.
Proof. intros Hz ->. rewrite skipz_app_exact. exact Hz. Qed.


Lemma num_exp_exchange T R k c n ty e : no_trunc T = true -> R <> [] -> 0 <= k <= len T ->
  pkl (T ++ R) k = Ok c ->
  num_exp (T ++ R) k c = Ok (n, ty, e) -> n = len T -> ty <> ErrorToken ->
  exists c', pkl (T ++ R') k = Ok c' /\ num_exp (T ++ R') k c' = Ok (n, ty, e) /\ (k < len T -> c' = c).
Proof.
  intros HT HR Hk Hc H Hn Hty. unfold num_exp in H.
  destruct (Z.eq_dec k (len T)) as [Hkl|Hkl].
  - (* the exponent marker would lie outside T *)
    exists c0. split; [apply pkl_at_end2; assumption|]. split; [|lia].
    destruct ((c =? 101) || (c =? 69)).
    + exfalso. crunch H; [apply Hty; congruence|].
      pose proof (dos_loop_nonneg _ _ _ digit1_bs E1). assert (n = k + 1 + (if (a =? 43) || (a =? 45) then 1 else 0) + 1 + a1) by congruence.
      destruct ((a =? 43) || (a =? 45)); lia.
    + unfold num_exp. nc 101. nc 69. cbn [orb]. exact H.
  - exists c. split; [apply (pkl_pre _ _ _ _ Hc); lia|]. split; [|auto].
    unfold num_exp. destruct ((c =? 101) || (c =? 69)); [|exact H].
    rewrite pkl_skipz in H |- * by lia. replace (k + 1 + 0) with (k + 1) in * by lia.
    destruct (pkl (T ++ R) (k + 1)) as [c1| |] eqn:E1; cbn [rbind] in H; try discriminate.
    set (s := if (c1 =? 43) || (c1 =? 45) then 1 else 0) in *.
    assert (Hs : 0 <= s <= 1) by (subst s; destruct ((c1 =? 43) || (c1 =? 45)); lia).
    rewrite skipz_skipz in H by lia.
    destruct (digit1 (skipz (k + 1 + s) (T ++ R))) as [d| |] eqn:Ed; cbn [rbind] in H; try discriminate.
    destruct (Z.eqb_spec d 0) as [Hd|Hd]; [exfalso; apply Hty; congruence|].
    rewrite skipz_skipz in H by lia.
    destruct (repl (dig_or_sep digit1) (skipz (k + 1 + s + 1) (T ++ R))) as [m| |] eqn:Em; cbn [rbind] in H; try discriminate.
    pose proof (dos_loop_nonneg _ _ _ digit1_bs Em) as Hm0.
    assert (Hnn : n = k + 1 + s + 1 + m) by congruence.
    xfer2 E1 R'. fold s. rewrite !skipz_skipz by lia.
    rewrite <- (bs_at2 digit1 T R (k + 1 + s) digit1_bs) by lia. rewrite Ed. cbn [rbind].
    replace (d =? 0) with false by lia.
    assert (Hm : m = len T - (k + 1 + s + 1)) by lia. rewrite Hm in Em.
    rewrite (dos_loop_all2 digit1 T R (k + 1 + s + 1) digit1_bs Hz_digit1 HT HR ltac:(lia) Em). cbn [rbind].
    rewrite <- H. f_equal. f_equal. f_equal. lia.
Qed.



Lemma num_tail_exchange first T R k n ty e : no_trunc T = true -> R <> [] -> 0 <= k <= len T ->
  num_tail first (T ++ R) k = Ok (n, ty, e) -> n = len T -> ty <> ErrorToken ->
  (k = len T -> c0 <> 46) ->
  num_tail first (T ++ R') k = Ok (n, ty, e).
Proof.
  intros HT HR Hk H Hn Hty Hdot. unfold num_tail in H |- *. rewrite pkl_skipz in H |- * by lia.
  replace (k + 0) with k in * by lia.
  destruct (pkl (T ++ R) k) as [c| |] eqn:Ec; cbn [rbind] in H; try discriminate.
  destruct (Z.eq_dec k (len T)) as [Hkl|Hkl].
  - (* nothing of the tail lies in T *)
    pose proof (Hdot Hkl) as H46.
    rewrite pkl_at_end2 by assumption. cbn [rbind]. nc 46. nc 110. nc 101. nc 69. cbn [negb andb]. cbv iota.
    destruct (c =? 46) eqn:E46.
    { exfalso. crunch H.
      - pose proof (dos_loop_nonneg _ _ _ digit1_bs E0). apply num_exp_ge in H. lia.
      - apply Hty. congruence.
      - apply num_exp_ge in H. lia. }
    destruct (c =? 110); [exfalso; assert (n = k + 1) by congruence; lia|].
    destruct (negb (c =? 101) && negb (c =? 69)) eqn:Ee; [exact H|].
    exfalso. unfold num_exp in H. replace ((c =? 101) || (c =? 69)) with true in H by lia.
    crunch H; [apply Hty; congruence|].
    pose proof (dos_loop_nonneg _ _ _ digit1_bs E1).
    assert (n = k + 1 + (if (a =? 43) || (a =? 45) then 1 else 0) + 1 + a1) by congruence. destruct ((a =? 43) || (a =? 45)); lia.
  - xfer2 Ec R'. destruct (c =? 46) eqn:E46.
    + rewrite skipz_skipz in H |- * by lia.
      destruct (digit1 (skipz (k + 1) (T ++ R))) as [d| |] eqn:Ed; cbn [rbind] in H; try discriminate.
      pose proof (bs_bit _ digit1_bs _ _ Ed) as Hd.
      destruct (Z.eq_dec (k + 1) (len T)) as [Hk1|Hk1].
      * (* "." is the last byte of T *)
        rewrite (bs_at_end2 digit1 T (k + 1) Hz_digit1 Hk1). cbn [rbind]. change (0 <? 0) with false. cbv iota.
        destruct (0 <? d) eqn:Bd.
        { exfalso. crunch H. pose proof (dos_loop_nonneg _ _ _ digit1_bs E). apply num_exp_ge in H. lia. }
        destruct (first =? 46); [exfalso; apply Hty; congruence|].
        rewrite pkl_skipz in H |- * by lia. replace (k + 1 + 0) with (k + 1) in * by lia.
        destruct (pkl (T ++ R) (k + 1)) as [c2| |] eqn:E2; cbn [rbind] in H; try discriminate.
        destruct (num_exp_exchange T R (k + 1) c2 n ty e HT HR ltac:(lia) E2 H Hn Hty) as (c' & Hc' & He' & _).
        rewrite Hc'. cbn [rbind]. exact He'.
      * rewrite <- (bs_at2 digit1 T R (k + 1) digit1_bs) by lia. rewrite Ed. cbn [rbind].
        destruct (0 <? d) eqn:Bd.
        -- rewrite skipz_skipz in H |- * by lia.
           destruct (repl (dig_or_sep digit1) (skipz (k + 1 + 1) (T ++ R))) as [m| |] eqn:Em; cbn [rbind] in H; try discriminate.
           pose proof (dos_loop_nonneg _ _ _ digit1_bs Em) as Hm0.
           rewrite pkl_skipz in H by lia.
           destruct (pkl (T ++ R) (k + 1 + 1 + m + 0)) as [c2| |] eqn:E2; cbn [rbind] in H; try discriminate.
           pose proof (num_exp_ge _ _ _ _ _ _ H) as Hge.
           rewrite (dos_loop_part2 digit1 T R (k + 1 + 1) m digit1_bs Hz_digit1 HT HR ltac:(lia) Em) by lia. cbn [rbind].
           rewrite pkl_skipz by lia.
           replace (k + 1 + 1 + m + 0) with (k + 1 + 1 + m) in * by lia.
           destruct (num_exp_exchange T R (k + 1 + 1 + m) c2 n ty e HT HR ltac:(lia) E2 H Hn Hty) as (c' & Hc' & He' & _).
           rewrite Hc'. cbn [rbind]. exact He'.
        -- destruct (first =? 46); [exfalso; apply Hty; congruence|].
           rewrite pkl_skipz in H |- * by lia. replace (k + 1 + 0) with (k + 1) in * by lia.
           destruct (pkl (T ++ R) (k + 1)) as [c2| |] eqn:E2; cbn [rbind] in H; try discriminate.
           destruct (num_exp_exchange T R (k + 1) c2 n ty e HT HR ltac:(lia) E2 H Hn Hty) as (c' & Hc' & He' & _).
           rewrite Hc'. cbn [rbind]. exact He'.
    + destruct (c =? 110); [exact H|].
      destruct (negb (c =? 101) && negb (c =? 69)); [exact H|].
      destruct (num_exp_exchange T R k c n ty e HT HR ltac:(lia) Ec H Hn Hty) as (c' & Hc' & He' & Hcc).
      rewrite <- (Hcc ltac:(lia)). exact He'.
Qed.

Lemma num_radix_exchange f t T R n ty e : is_byte_step f -> f R' = Ok 0 -> no_trunc T = true -> R <> [] -> 2 <= len T ->
  num_radix f t (T ++ R) = Ok (n, ty, e) -> n = len T ->
  num_radix f t (T ++ R') = Ok (n, ty, e).
Proof.
  intros Hf Hz HT HR H2 H Hn. unfold num_radix in H |- *.
  destruct (f (skipz 2 (T ++ R))) as [h| |] eqn:Eh; cbn [rbind] in H; try discriminate.
  pose proof (bs_bit f Hf _ _ Eh) as Hh.
  destruct (Z.ltb_spec 0 h) as [Hh0|Hh0]; [|exfalso; assert (n = 1) by congruence; lia].
  rewrite skipz_skipz in H |- * by lia.
  destruct (repl (dig_or_sep f) (skipz (2 + 1) (T ++ R))) as [m| |] eqn:Em; cbn [rbind] in H; try discriminate.
  pose proof (dos_loop_nonneg _ _ _ Hf Em) as Hm0.
  rewrite !pkl_skipz in H by lia. replace (2 + (1 + m + 0)) with (2 + 1 + m) in H by lia.
  destruct (pkl (T ++ R) (2 + 1 + m)) as [c| |] eqn:Ec; cbn [rbind] in H; try discriminate.
  assert (Hnn : n = 2 + 1 + m + (if c =? 110 then 1 else 0)) by congruence.
  assert (H3 : 2 < len T) by (destruct (c =? 110); lia).
  rewrite <- (bs_at2 f T R 2 Hf) by lia. rewrite Eh. cbn [rbind]. replace (0 <? h) with true by lia.
  rewrite (dos_loop_part2 f T R (2 + 1) m Hf Hz HT HR ltac:(lia) Em) by (destruct (c =? 110); lia). cbn [rbind].
  rewrite !pkl_skipz by lia. replace (2 + (1 + m + 0)) with (2 + 1 + m) by lia.
  destruct (c =? 110) eqn:E110.
  - xfer2 Ec R'. rewrite E110. exact H.
  - rewrite pkl_at_end2 by lia. cbn [rbind]. nc 110. cbv iota. rewrite <- H. reflexivity.
Qed.

Lemma numeric_exchange T R n ty e : no_trunc T = true -> R <> [] -> 0 < len T ->
  numeric (T ++ R) = Ok (n, ty, e) -> n = len T -> ty <> ErrorToken ->
  (c0 = 46 -> is_dec_int T = false) ->
  numeric (T ++ R') = Ok (n, ty, e).
Proof.
  intros HTn HR HT H Hn Hty Hdot. unfold numeric in H |- *.
  destruct T as [|t0 T]; [change (len (@nil Z)) with 0 in HT; lia|]. cbn [app] in H |- *.
  rewrite pkl_cons_0 in H |- *. cbn [rbind] in H |- *.
  change (t0 :: T ++ R) with ((t0 :: T) ++ R) in H. change (t0 :: T ++ R') with ((t0 :: T) ++ R').
  set (TT := t0 :: T) in *. pose proof (len_nonneg T) as HT0. assert (HTn' : no_trunc TT = true) by exact HTn.
  assert (HTT : len TT = 1 + len T) by (unfold TT; apply len_cons).
  destruct (t0 =? 48) eqn:E48.
  - destruct (pkl (TT ++ R) 1) as [c| |] eqn:Ec; cbn [rbind] in H; try discriminate.
    destruct (Z.eq_dec (len TT) 1) as [H1|H1].
    + (* the token is "0" *)
      rewrite pkl_at_end2 by lia. cbn [rbind].
      nc 120. nc 88. nc 98. nc 66. nc 111. nc 79. nc 110. cbn [orb]. cbv iota.
      replace ((48 <=? c0) && (c0 <=? 57)) with false by (pose proof nd; lia). cbv iota.
      assert (Hres : n = 1 /\ ty = IntegerToken /\ e = ENone \/ num_tail t0 (TT ++ R) 1 = Ok (n, ty, e)).
      { destruct ((c =? 120) || (c =? 88)).
        { left. unfold num_radix in H. crunch H; try (repeat split; congruence).
          exfalso. pose proof (dos_loop_nonneg _ _ _ hex1_bs E0).
          assert (n = 2 + 1 + a0 + (if a1 =? 110 then 1 else 0)) by congruence. destruct (a1 =? 110); lia. }
        destruct ((c =? 98) || (c =? 66)).
        { left. unfold num_radix in H. crunch H; try (repeat split; congruence).
          exfalso. pose proof (dos_loop_nonneg _ _ _ bin1_bs E0).
          assert (n = 2 + 1 + a0 + (if a1 =? 110 then 1 else 0)) by congruence. destruct (a1 =? 110); lia. }
        destruct ((c =? 111) || (c =? 79)).
        { left. unfold num_radix in H. crunch H; try (repeat split; congruence).
          exfalso. pose proof (dos_loop_nonneg _ _ _ oct1_bs E0).
          assert (n = 2 + 1 + a0 + (if a1 =? 110 then 1 else 0)) by congruence. destruct (a1 =? 110); lia. }
        destruct (c =? 110); [exfalso; assert (n = 2) by congruence; lia|].
        destruct ((48 <=? c) && (c <=? 57)); [exfalso; apply Hty; congruence|].
        right. exact H. }
      assert (H46 : c0 <> 46).
      { intros E46. specialize (Hdot E46). destruct T as [|x T']; [|rewrite len_cons in HTT; pose proof (len_nonneg T'); lia].
        assert (t0 = 48) by lia. subst t0. discriminate Hdot. }
      destruct Hres as [(-> & -> & ->)|Hres].
      * unfold num_tail. rewrite pkl_skipz by lia. rewrite pkl_at_end2 by lia. cbn [rbind]. nc 46. nc 110. nc 101. nc 69. reflexivity.
      * apply (num_tail_exchange t0 TT R 1 n ty e HTn' HR ltac:(lia) Hres Hn Hty). intros _. exact H46.
    + assert (H2 : 2 <= len TT) by lia.
      xfer2 Ec R'.
      destruct ((c =? 120) || (c =? 88)); [apply (num_radix_exchange _ _ _ _ _ _ _ hex1_bs Hz_hex1 HTn' HR H2 H Hn)|].
      destruct ((c =? 98) || (c =? 66)); [apply (num_radix_exchange _ _ _ _ _ _ _ bin1_bs Hz_bin1 HTn' HR H2 H Hn)|].
      destruct ((c =? 111) || (c =? 79)); [apply (num_radix_exchange _ _ _ _ _ _ _ oct1_bs Hz_oct1 HTn' HR H2 H Hn)|].
      destruct (c =? 110); [exact H|].
      destruct ((48 <=? c) && (c <=? 57)); [exact H|].
      apply (num_tail_exchange t0 TT R 1 n ty e HTn' HR ltac:(lia) H Hn Hty). intros; lia.
  - destruct (negb (t0 =? 46)).
    + destruct (repl (dig_or_sep digit1) (TT ++ R)) as [m| |] eqn:Em; cbn [rbind] in H; try discriminate.
      pose proof (dos_loop_nonneg _ _ _ digit1_bs Em) as Hm0.
      pose proof (num_tail_ge _ _ _ _ _ _ H) as Hge.
      change (TT ++ R) with (skipz 0 (TT ++ R)) in Em.
      pose proof (dos_loop_part2 digit1 TT R 0 m digit1_bs Hz_digit1 HTn' HR ltac:(lia) Em ltac:(lia)) as Em'.
      change (skipz 0 (TT ++ R')) with (TT ++ R') in Em'. rewrite Em'. cbn [rbind].
      apply (num_tail_exchange t0 TT R m n ty e HTn' HR ltac:(lia) H Hn Hty).
      intros Hm E46. specialize (Hdot E46). unfold repl in Em. destruct (rep_dos_dec_int _ _ _ Em) as (_ & Hd).
      change (skipz 0 (TT ++ R)) with (TT ++ R) in Hd. rewrite Hm, firstz_app_exact in Hd. fold TT in Hdot. congruence.
    + apply (num_tail_exchange t0 TT R 0 n ty e HTn' HR ltac:(lia) H Hn Hty). intros; lia.
Qed.


End NumExchange.
