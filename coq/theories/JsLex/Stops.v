(* JsLex/Stops.v — exact follower conditions: what may directly follow a token without extending it.
   Punctuators: table-driven from the generated token table (no longer punctuator is a prefix of what is
   there), plus the places where the lexical grammar joins a punctuator with what follows into another
   kind of token (comments, ".5", "?." before a digit).  Identifiers, whitespace, regular expression
   flags: the rune that follows, decoded, is not of the class. *)
From Verif Require Import Common.Base Common.Tactics Common.Lx Gen.Tables
  JsLex.Model JsLex.Lemmas JsLex.Total JsLex.Next JsLex.Canon JsLex.Comment JsLex.Relex JsLex.Exchange.
From Coq Require Import ZifyBool.

Fixpoint prefixb (P l : list Z) : bool :=
  match P, l with
  | [], _ => true
  | p :: P', x :: l' => (p =? x) && prefixb P' l'
  | _ :: _, [] => false
  end.

(* the spellings of the punctuator types in TokenType.Bytes (1536 is the group marker OperatorToken) *)
Definition is_punct_ty (ty : Z) : bool := (512 <? ty) && (ty <? 2048) && negb (ty =? 1536).
Definition punct_spellings : list (list Z) := map snd (filter (fun p => is_punct_ty (fst p)) js_token_bytes).
(* the punctuators that properly extend T *)
Definition exts (T : list Z) : list (list Z) := filter (fun P => (len T <? len P) && prefixb T P) punct_spellings.
(* some punctuator that properly extends T is a prefix of T ++ R' *)
Definition longer_punct (T R' : list Z) : bool := existsb (fun P => prefixb P (T ++ R')) (exts T).

(* pl: T starts a line (prevLineTerminator) *)
Definition punct_stop (pl : bool) (T R' : list Z) : Prop :=
  let c := hd 0 R' in
  (longer_punct T R' = false \/
   (T = [63] /\ exists d rest, R' = 46 :: d :: rest /\ 48 <= d <= 57))      (* "?." [lookahead = digit] is '?' ".5" *)
  /\ (T = [63; 46] \/ T = [46] -> ~ (48 <= c <= 57))                       (* "?.5" is '?' ".5"; ".5" is a number *)
  /\ (T = [47] -> c <> 47 /\ c <> 42)                                      (* "//", "/*" *)
  /\ (T = [60] -> firstz 3 R' <> [33; 45; 45])                             (* "<!--" *)
  /\ (T = [45; 45] -> pl = true -> c <> 62).                               (* "-->" at the start of a line *)

Lemma lookup_bytes_in m ty T : lookup_bytes m ty = Some T -> In (ty, T) m.
Proof.
  induction m as [|(k, v) m IH]; cbn [lookup_bytes]; [discriminate|].
  destruct (Z.eqb_spec k ty) as [->|_]; [intros [= ->]; left; reflexivity|intros H; right; auto].
Qed.

Lemma wfl_cons_nz c t : wfl (c :: t) -> c <> 0 -> wfl t /\ t <> [].
Proof.
  intros (d & Hd) Hc. destruct d as [|x d]; cbn [app] in Hd.
  - exfalso. apply Hc. congruence.
  - assert (t = d ++ [0]) by congruence. subst t. split; [exists d; reflexivity|destruct d; discriminate].
Qed.

Ltac exts_compute H :=
  unfold longer_punct in H;
  match type of H with context [exts ?T] =>
    let e := fresh "e" in set (e := exts T) in H; vm_compute in e; subst e end;
  cbn [existsb prefixb app] in H.

(* the operator scanner in front of R' *)
Lemma op_exchange_exact T ty R' : wfl R' ->
  token_bytes ty = Some T -> is_punct_ty ty = true -> op (T ++ [0]) = Ok (len T, ty) ->
  (longer_punct T R' = false \/ (T = [63] /\ exists d rest, R' = 46 :: d :: rest /\ 48 <= d <= 57)) ->
  (T = [63; 46] -> ~ (48 <= hd 0 R' <= 57)) ->
  op (T ++ R') = Ok (len T, ty).
Proof.
  intros Hw Hb Hty Hop Hcond Hoc. apply lookup_bytes_in in Hb.
  destruct R' as [|c R'']; [exfalso; apply (wfl_nonnil _ Hw); reflexivity|]. cbn [hd] in Hoc.
  unfold js_token_bytes in Hb. cbn [In] in Hb.
  repeat (destruct Hb as [Hb|Hb];
    [ injection Hb as <- <-; try discriminate Hty;
      try (vm_compute in Hop; discriminate Hop); clear Hop Hty
    | ]); [..|contradiction].
  all: destruct Hcond as [Hcond|(HT & d & rest & HR & Hd)];
    [ exts_compute Hcond | try discriminate HT ].
  all: try (injection HR as -> ->).
  all: try (specialize (Hoc eq_refl)).
  all: cbn [app]; unfold op; rewrite ?pkl_cons_0, ?pkl_1, ?pkl_2, ?pkl_3; cbn [rbind].
  all: repeat (pick; cbn [rbind]).
  all: try reflexivity.
Qed.

Lemma wfl_1 c : wfl [c] -> c = 0.
Proof. intros (d & Hd). destruct d as [|x [|y d]]; cbn [app] in Hd; congruence. Qed.
Lemma wfl_2 c c1 : wfl [c; c1] -> c1 = 0.
Proof. intros (d & Hd). destruct d as [|x [|y [|w d]]]; cbn [app] in Hd; congruence. Qed.

(* a punctuator in front of R' is not the start of an HTML-like comment *)
Lemma html_decline_exact plt T ty R' : wfl R' ->
  token_bytes ty = Some T -> is_punct_ty ty = true -> op (T ++ [0]) = Ok (len T, ty) ->
  longer_punct T R' = false ->
  (T = [60] -> firstz 3 R' <> [33; 45; 45]) -> (T = [45; 45] -> plt = true -> hd 0 R' <> 62) ->
  html_comment plt (T ++ R') = Ok 0.
Proof.
  intros Hw Hb Hty Hop Hcond H60 H45. apply lookup_bytes_in in Hb.
  unfold js_token_bytes in Hb. cbn [In] in Hb.
  repeat (destruct Hb as [Hb|Hb];
    [ injection Hb as <- <-; try discriminate Hty;
      try (vm_compute in Hop; discriminate Hop); clear Hop Hty
    | ]); [..|contradiction].
  all: try (solve [unfold html_comment; cbn [app]; rewrite ?pkl_cons_0, ?pkl_1, ?pkl_2, ?pkl_3; cbn [rbind];
                   repeat (pick; cbn [rbind]); reflexivity]).
  all: try specialize (H60 eq_refl); try specialize (H45 eq_refl).
  all: destruct R' as [|c [|c1 [|c2 R3]]]; [exfalso; apply (wfl_nonnil _ Hw); reflexivity|apply wfl_1 in Hw|apply wfl_2 in Hw|];
    exts_compute Hcond; cbn [hd] in *;
    try (assert (Hn : ~ (c = 33 /\ c1 = 45 /\ c2 = 45)) by (intros (-> & -> & ->); apply H60; reflexivity));
    unfold html_comment; cbn [app]; rewrite ?pkl_cons_0, ?pkl_1, ?pkl_2, ?pkl_3; cbn [rbind];
    repeat (pick; cbn [rbind]); try reflexivity.
  all: try (destruct plt; [specialize (H45 eq_refl)|]; cbn [andb] in *; try lia; try discriminate).
Qed.

(* --- followers given by a decoded rune ---------------------------------------------------------------- *)
(* where R' starts with a lead byte >= 0xC0, the rune PeekRune decodes there is not of the class p *)
Definition rune_stop (p : Z -> bool) (R' : list Z) : Prop :=
  192 <= hd 0 R' -> forall r n, peek_rune R' = Ok (r, n) -> p r = false.

Definition lt_stop (R' : list Z) : Prop := lt_at R' = false.

Lemma lt_stop_ok R' : wfl R' -> lt_stop R' -> lt1 R' = Ok 0 /\ hd 0 R' <> 10.
Proof.
  unfold lt_stop. intros Hw H.
  destruct R' as [|c [|c1 [|c2 R3]]]; [exfalso; apply (wfl_nonnil _ Hw); reflexivity|apply wfl_1 in Hw|apply wfl_2 in Hw|];
    unfold lt1, ls_ps; unfold lt_at in H; cbn [hd]; rewrite ?pkl_cons_0; cbn [rbind];
    repeat (pick; rewrite ?pkl_1, ?pkl_2; cbn [rbind]); (split; [reflexivity || (f_equal; lia)|lia]).
Qed.

Section RuneStops.
Variables (id_cont is_zs : Z -> bool).

Definition idc_rune (r : Z) : bool := (r =? 8204) || (r =? 8205) || id_cont r.
Definition ws_rune (r : Z) : bool := (r =? 160) || (r =? 65279) || is_zs r.

(* no identifier character: not ASCII [A-Za-z0-9_$], no '\' (it would start a \u escape), no ID_Continue rune, ZWNJ, ZWJ *)
Definition ident_stop (R' : list Z) : Prop :=
  tab_cont (hd 0 R') = false /\ hd 0 R' <> 92 /\ rune_stop idc_rune R'.
(* no whitespace: not SP, TAB, VT, FF, no NBSP, BOM or Zs rune *)
Definition ws_stop (R' : list Z) : Prop :=
  let c := hd 0 R' in c <> 32 /\ c <> 9 /\ c <> 11 /\ c <> 12 /\ rune_stop ws_rune R'.
(* no regular expression flag character *)
Definition flag_stop (R' : list Z) : Prop :=
  tab_cont (hd 0 R') = false /\ rune_stop idc_rune R'.

Lemma ident_stop_ok R' : wfl R' -> ident_stop R' -> ident_cont1 id_cont R' = Ok 0.
Proof.
  intros Hw (S1 & S2 & S3). destruct R' as [|c R'']; [exfalso; apply (wfl_nonnil _ Hw); reflexivity|]. cbn [hd] in *.
  unfold ident_cont1. rewrite pkl_cons_0. cbn [rbind]. rewrite S1.
  destruct (192 <=? c) eqn:E.
  - destruct (peek_rune_ok _ Hw) as (r & n & Hr & _). rewrite Hr. cbn [rbind].
    specialize (S3 ltac:(cbn [hd]; lia) r n Hr). unfold idc_rune in S3. rewrite S3. reflexivity.
  - unfold uesc. rewrite pkl_cons_0. cbn [rbind]. replace (negb (c =? 92)) with true by lia. reflexivity.
Qed.

Lemma ws_stop_ok R' : wfl R' -> ws_stop R' -> ws1 is_zs R' = Ok 0.
Proof.
  intros Hw (S1 & S2 & S3 & S4 & S5). destruct R' as [|c R'']; [exfalso; apply (wfl_nonnil _ Hw); reflexivity|]. cbn [hd] in *.
  unfold ws1. rewrite pkl_cons_0. cbn [rbind].
  replace ((c =? 32) || (c =? 9) || (c =? 11) || (c =? 12)) with false by lia.
  destruct (192 <=? c) eqn:E; [|reflexivity].
  destruct (peek_rune_ok _ Hw) as (r & n & Hr & _). rewrite Hr. cbn [rbind].
  specialize (S5 ltac:(cbn [hd]; lia) r n Hr). unfold ws_rune in S5. rewrite S5. reflexivity.
Qed.

Lemma flag_stop_ok R' : wfl R' -> flag_stop R' -> re_flag1 id_cont R' = Ok 0.
Proof.
  intros Hw (S1 & S3). destruct R' as [|c R'']; [exfalso; apply (wfl_nonnil _ Hw); reflexivity|]. cbn [hd] in *.
  unfold re_flag1. rewrite pkl_cons_0. cbn [rbind]. rewrite S1.
  destruct (192 <=? c) eqn:E; [|reflexivity].
  destruct (peek_rune_ok _ Hw) as (r & n & Hr & _). rewrite Hr. cbn [rbind].
  specialize (S3 ltac:(cbn [hd]; lia) r n Hr). unfold idc_rune in S3. rewrite S3. reflexivity.
Qed.

End RuneStops.

(* --- the sufficient condition op_stop implies the exact one ----------------------------------------------- *)
Definition opset (c : Z) : bool := existsb (Z.eqb c) [61; 43; 45; 42; 38; 124; 63; 60; 62; 46; 33].

Lemma spellings_tails : forallb (fun P => forallb opset (tl P)) punct_spellings = true.
Proof. vm_compute. reflexivity. Qed.

Lemma prefixb_nth P : forall T c R'', prefixb P (T ++ c :: R'') = true -> (length T < length P)%nat ->
  nth (length T) P 0 = c.
Proof.
  induction P as [|p P IH]; intros T c R'' H Hl; [cbn [length] in Hl; lia|].
  destruct T as [|t T]; cbn [app prefixb length nth] in *.
  - apply andb_true_iff in H. destruct H as (H & _). lia.
  - apply andb_true_iff in H. destruct H as (_ & H). apply (IH T c R'' H). lia.
Qed.

Lemma op_stop_longer_gen (sp : list (list Z)) : forallb (fun P => forallb opset (tl P)) sp = true ->
  forall T c R'', T <> [] -> op_stop c ->
  existsb (fun P => prefixb P (T ++ c :: R'')) (filter (fun P => (len T <? len P) && prefixb T P) sp) = false.
Proof.
  intros St T c R'' HT Hs.
  destruct (existsb (fun P => prefixb P (T ++ c :: R'')) (filter (fun P => (len T <? len P) && prefixb T P) sp)) eqn:E;
    [exfalso|reflexivity].
  apply existsb_exists in E. destruct E as (P & HinP & Hpre).
  apply filter_In in HinP. destruct HinP as (Hin & Hc).
  apply andb_true_iff in Hc. destruct Hc as (Hlen & _).
  assert (Hl : (length T < length P)%nat) by (unfold len in Hlen; lia).
  pose proof (prefixb_nth P T c R'' Hpre Hl) as Hn.
  rewrite forallb_forall in St. specialize (St P Hin).
  rewrite forallb_forall in St.
  destruct P as [|p P']; [cbn [length] in Hl; lia|]. cbn [tl] in St.
  destruct T as [|t T']; [congruence|]. cbn [length nth] in Hn, Hl.
  assert (Hin' : In c P') by (rewrite <- Hn; apply nth_In; lia).
  specialize (St c Hin'). unfold opset in St. cbn [existsb] in St. unfold op_stop in Hs. lia.
Qed.

Lemma op_stop_longer T c R'' : T <> [] -> op_stop c -> longer_punct T (c :: R'') = false.
Proof. exact (op_stop_longer_gen punct_spellings spellings_tails T c R''). Qed.

Lemma punct1_longer t R' :
  (t =? 44) || (t =? 59) || (t =? 40) || (t =? 41) || (t =? 123) || (t =? 125) || (t =? 58) || (t =? 93) || (t =? 91) = true ->
  longer_punct [t] R' = false.
Proof.
  intros H.
  assert (Ht : t = 44 \/ t = 59 \/ t = 40 \/ t = 41 \/ t = 123 \/ t = 125 \/ t = 58 \/ t = 93 \/ t = 91) by lia.
  repeat (destruct Ht as [->|Ht];
    [unfold longer_punct; match goal with |- context [exts ?T] => let e := fresh "e" in set (e := exts T); vm_compute in e; subst e end; reflexivity|]).
  subst t. unfold longer_punct. match goal with |- context [exts ?T] => let e := fresh "e" in set (e := exts T); vm_compute in e; subst e end. reflexivity.
Qed.
