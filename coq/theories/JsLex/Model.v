(* JsLex/Model.v — executable model of js/lex.go (Lexer.Next, Lexer.RegExp and every consume*
   function), transcribed statement by statement from the code as it is after the fixes for '#' at
   EOF and '~=' / '?='.  Definitions only.

   Conventions (DESIGN.md section 3):
   - the cursor is Common/Lx.v's [lx]; every scanning function works on the remaining suffix
     [l = suffix z] (the not yet consumed bytes *including* the NUL terminator) and returns the
     number of bytes it moved;  Peek(k) is the checked [pkl l k];
   - a Go panic (index out of range, slicing an empty templateLevels) is [Panic];
   - loops run on fuel = length of the suffix they start on; [Fuel] is the distinct out-of-fuel
     result (excluded by the totality theorem);
   - unicode.IsOneOf(identifierStart), unicode.IsOneOf(identifierContinue), unicode.Is(Zs) are the
     Section variables [id_start], [id_cont], [is_zs] (applied to the rune computed by PeekRune);
   - the keyword map, the four operator maps and the two identifier byte tables come from the
     generated Gen/Tables.v. *)
From Verif Require Import Common.Base Common.Lx Gen.Tables.

(* --- results ------------------------------------------------------------------------------- *)
Inductive res (A : Type) : Type := Ok (a : A) | Panic | Fuel.
Arguments Ok {A} a.
Arguments Panic {A}.
Arguments Fuel {A}.

Definition rbind {A B} (r : res A) (f : A -> res B) : res B :=
  match r with Ok a => f a | Panic => Panic | Fuel => Fuel end.
Notation "x <-- e ;; k" := (rbind e (fun x => k)) (at level 61, e at next level, right associativity).
Notation "' p <-- e ;; k" := (rbind e (fun x => match x with p => k end))
  (at level 61, p pattern, e at next level, right associativity).

(* --- token types (js/tokentype.go) --------------------------------------------------------- *)
Definition ErrorToken := 0.
Definition WhitespaceToken := 1.
Definition LineTerminatorToken := 2.
Definition CommentToken := 3.
Definition CommentLineTerminatorToken := 4.
Definition StringToken := 5.
Definition TemplateToken := 6.
Definition TemplateStartToken := 7.
Definition TemplateMiddleToken := 8.
Definition TemplateEndToken := 9.
Definition RegExpToken := 10.
Definition PrivateIdentifierToken := 11.
Definition DecimalToken := 257.
Definition BinaryToken := 258.
Definition OctalToken := 259.
Definition HexadecimalToken := 260.
Definition IntegerToken := 261.
Definition OpenBraceToken := 513.
Definition CloseBraceToken := 514.
Definition OpenParenToken := 515.
Definition CloseParenToken := 516.
Definition OpenBracketToken := 517.
Definition CloseBracketToken := 518.
Definition DotToken := 519.
Definition SemicolonToken := 520.
Definition CommaToken := 521.
Definition ColonToken := 523.
Definition ArrowToken := 524.
Definition EllipsisToken := 525.
Definition EqEqEqToken := 1539.
Definition NotEqEqToken := 1542.
Definition GtGtToken := 1549.
Definition GtGtEqToken := 1550.
Definition GtGtGtToken := 1551.
Definition GtGtGtEqToken := 1552.
Definition DivToken := 1563.
Definition DivEqToken := 1564.
Definition OptChainToken := 1580.
Definition IdentifierToken := 4096.

(* --- error kinds (the message of l.err, projected) ----------------------------------------- *)
Definition ENone := 0.
Definition EUnexpected := 2.          (* "unexpected %s" *)
Definition EIdentAfterNumber := 3.    (* "unexpected identifier after number" *)
Definition ECommentEOF := 4.          (* "unexpected EOF in comment" *)
Definition ELegacyOctal := 5.         (* "legacy octal numbers are not supported" *)
Definition EInvalidNumber := 6.       (* "invalid number" *)
Definition EString := 7.              (* "unterminated string literal" *)
Definition ETemplate := 8.            (* "unterminated template literal" *)
Definition EExpectedSlash := 9.       (* "expected / or /=" *)
Definition ERegExp := 10.             (* "unexpected EOF or newline" *)

(* --- generated tables ----------------------------------------------------------------------- *)
Definition tab_start (c : Z) : bool :=
  if c <? 0 then false else nth (Z.to_nat c) js_identifier_start_table false.
Definition tab_cont (c : Z) : bool :=
  if c <? 0 then false else nth (Z.to_nat c) js_identifier_table false.

Fixpoint lookup_op (m : list (Z * Z)) (c : Z) : Z :=       (* a missing key is the zero value *)
  match m with
  | [] => ErrorToken
  | (k, v) :: t => if k =? c then v else lookup_op t c
  end.

Fixpoint bytes_eqb (a b : list Z) : bool :=
  match a, b with
  | [], [] => true
  | x :: a', y :: b' => (x =? y) && bytes_eqb a' b'
  | _, _ => false
  end.

Fixpoint lookup_kw (m : list (list Z * Z)) (w : list Z) : option Z :=
  match m with
  | [] => None
  | (k, v) :: t => if bytes_eqb k w then Some v else lookup_kw t w
  end.

(* --- the suffix view ------------------------------------------------------------------------ *)
(* Peek(k) for k >= 0 relative to the head of the suffix *)
Definition pkl (l : list Z) (k : Z) : res Z :=
  if k <? 0 then Panic else
  match nth_error l (Z.to_nat k) with Some c => Ok c | None => Panic end.

(* Err() != nil : the cursor is on the terminator (or beyond) *)
Definition at_endl (l : list Z) : bool :=
  match l with _ :: _ :: _ => false | _ => true end.

Definition rune2 (c c1 : Z) : Z := Z.lor (Z.shiftl (Z.land c 31) 6) (Z.land c1 63).
Definition rune3 (c c1 c2 : Z) : Z :=
  Z.lor (Z.lor (Z.shiftl (Z.land c 15) 12) (Z.shiftl (Z.land c1 63) 6)) (Z.land c2 63).
Definition rune4 (c c1 c2 c3 : Z) : Z :=
  Z.lor (Z.lor (Z.lor (Z.shiftl (Z.land c 7) 18) (Z.shiftl (Z.land c1 63) 12))
               (Z.shiftl (Z.land c2 63) 6)) (Z.land c3 63).

(* Input.PeekRune(0): (rune, length) *)
Definition peek_rune (l : list Z) : res (Z * Z) :=
  c <-- pkl l 0 ;;
  if c <? 192 then Ok (c, 1) else
  let rem := len l - 1 in
  if rem <? 2 then Ok (c, 1)
  else if (c <? 224) || (rem <? 3) then c1 <-- pkl l 1 ;; Ok (rune2 c c1, 2)
  else if (c <? 240) || (rem <? 4) then c1 <-- pkl l 1 ;; c2 <-- pkl l 2 ;; Ok (rune3 c c1 c2, 3)
  else c1 <-- pkl l 1 ;; c2 <-- pkl l 2 ;; c3 <-- pkl l 3 ;; Ok (rune4 c c1 c2 c3, 4).

(* Input.MoveRune(): the number of bytes moved *)
Definition move_rune_len (l : list Z) : res Z :=
  c <-- pkl l 0 ;;
  if c <? 192 then Ok 1 else
  let rem := len l - 1 in
  if rem <? 2 then Ok 1
  else if (c <? 224) || (rem <? 3) then Ok 2
  else if (c <? 240) || (rem <? 4) then Ok 3
  else Ok 4.

(* "for step() { }" : step returns the bytes it moved, 0 = it returned false *)
Fixpoint rep (step : list Z -> res Z) (fuel : nat) (l : list Z) : res Z :=
  match fuel with
  | O => Fuel
  | S f =>
      n <-- step l ;;
      if n <=? 0 then Ok 0 else m <-- rep step f (skipz n l) ;; Ok (n + m)
  end.
Definition repl (step : list Z -> res Z) (l : list Z) : res Z := rep step (length l) l.

Section Model.
Variables (id_start id_cont is_zs : Z -> bool).

(* consumeWhitespace: bytes moved (0 = false) *)
Definition ws1 (l : list Z) : res Z :=
  c <-- pkl l 0 ;;
  if (c =? 32) || (c =? 9) || (c =? 11) || (c =? 12) then Ok 1
  else if 192 <=? c then
    ' (r, n) <-- peek_rune l ;;
    if (r =? 160) || (r =? 65279) || is_zs r then Ok n else Ok 0
  else Ok 0.

(* c == 0xE2 && Peek(1) == 0x80 && (Peek(2) == 0xA8 || Peek(2) == 0xA9), c already known to be 0xE2 *)
Definition ls_ps (l : list Z) : res bool :=
  c1 <-- pkl l 1 ;;
  if c1 =? 128 then c2 <-- pkl l 2 ;; Ok ((c2 =? 168) || (c2 =? 169)) else Ok false.

Definition is_lt (l : list Z) : res bool :=
  c <-- pkl l 0 ;;
  if (c =? 10) || (c =? 13) then Ok true
  else if c =? 226 then ls_ps l
  else Ok false.

(* consumeLineTerminator: bytes moved (0 = false) *)
Definition lt1 (l : list Z) : res Z :=
  c <-- pkl l 0 ;;
  if c =? 10 then Ok 1
  else if c =? 13 then c1 <-- pkl l 1 ;; if c1 =? 10 then Ok 2 else Ok 1
  else if c =? 226 then b <-- ls_ps l ;; if b then Ok 3 else Ok 0
  else Ok 0.

Definition digit1 (l : list Z) : res Z :=
  c <-- pkl l 0 ;; Ok (if (48 <=? c) && (c <=? 57) then 1 else 0).
Definition hex1 (l : list Z) : res Z :=
  c <-- pkl l 0 ;;
  Ok (if ((48 <=? c) && (c <=? 57)) || ((97 <=? c) && (c <=? 102)) || ((65 <=? c) && (c <=? 70)) then 1 else 0).
Definition bin1 (l : list Z) : res Z :=
  c <-- pkl l 0 ;; Ok (if (c =? 48) || (c =? 49) then 1 else 0).
Definition oct1 (l : list Z) : res Z :=
  c <-- pkl l 0 ;; Ok (if (48 <=? c) && (c <=? 55) then 1 else 0).

(* consumeUnicodeEscape: bytes moved (0 = false, position restored by Rewind(mark)) *)
Definition uesc (l : list Z) : res Z :=
  c0 <-- pkl l 0 ;;
  if negb (c0 =? 92) then Ok 0 else
  c1 <-- pkl l 1 ;;
  if negb (c1 =? 117) then Ok 0 else
  let l2 := skipz 2 l in
  c <-- pkl l2 0 ;;
  if c =? 123 then
    let l3 := skipz 1 l2 in
    h <-- hex1 l3 ;;
    if 0 <? h then
      m <-- repl hex1 (skipz 1 l3) ;;
      c' <-- pkl (skipz (1 + m) l3) 0 ;;
      if c' =? 125 then Ok (2 + 1 + 1 + m + 1) else Ok 0
    else Ok 0
  else
    h1 <-- hex1 l2 ;;
    if h1 =? 0 then Ok 0 else
    h2 <-- hex1 (skipz 1 l2) ;;
    if h2 =? 0 then Ok 0 else
    h3 <-- hex1 (skipz 2 l2) ;;
    if h3 =? 0 then Ok 0 else
    h4 <-- hex1 (skipz 3 l2) ;;
    if h4 =? 0 then Ok 0 else Ok 6.

(* consumeSingleLineComment: bytes moved *)
Fixpoint slc_loop (fuel : nat) (l : list Z) : res Z :=
  match fuel with
  | O => Fuel
  | S f =>
      c <-- pkl l 0 ;;
      if (c =? 13) || (c =? 10) || ((c =? 0) && at_endl l) then Ok 0
      else
        stop <-- (if 192 <=? c then ' (r, _) <-- peek_rune l ;; Ok ((r =? 8232) || (r =? 8233))
                  else Ok false) ;;
        if stop then Ok 0 else n <-- slc_loop f (skipz 1 l) ;; Ok (1 + n)
  end.
Definition slc (l : list Z) : res Z := slc_loop (length l) l.

(* consumeHTMLLikeCommentToken: bytes moved (0 = false) *)
Definition html_comment (prev_lt : bool) (l : list Z) : res Z :=
  c <-- pkl l 0 ;;
  opening <-- (if c =? 60 then c1 <-- pkl l 1 ;;
                 if c1 =? 33 then c2 <-- pkl l 2 ;;
                   if c2 =? 45 then c3 <-- pkl l 3 ;; Ok (c3 =? 45) else Ok false
                 else Ok false
               else Ok false) ;;
  if opening then n <-- slc (skipz 4 l) ;; Ok (4 + n)
  else
    closing <-- (if prev_lt && (c =? 45) then c1 <-- pkl l 1 ;;
                   if c1 =? 45 then c2 <-- pkl l 2 ;; Ok (c2 =? 62) else Ok false
                 else Ok false) ;;
    if closing then n <-- slc (skipz 3 l) ;; Ok (3 + n) else Ok 0.

(* the multi-line comment loop: (bytes moved, closed by "*/", a line terminator was consumed) *)
Fixpoint mlc_loop (fuel : nat) (l : list Z) : res (Z * bool * bool) :=
  match fuel with
  | O => Fuel
  | S f =>
      c <-- pkl l 0 ;;
      close <-- (if c =? 42 then c1 <-- pkl l 1 ;; Ok (c1 =? 47) else Ok false) ;;
      if close then Ok (2, true, false)
      else if (c =? 0) && at_endl l then Ok (0, false, false)
      else
        t <-- lt1 l ;;
        if 0 <? t then ' (n, ok, _) <-- mlc_loop f (skipz t l) ;; Ok (t + n, ok, true)
        else ' (n, ok, sawlt) <-- mlc_loop f (skipz 1 l) ;; Ok (1 + n, ok, sawlt)
  end.

(* consumeCommentToken: (bytes moved, token type, l.err, l.prevLineTerminator was set) *)
Definition comment (l : list Z) : res (Z * Z * Z * bool) :=
  c <-- pkl l 1 ;;
  if c =? 47 then n <-- slc (skipz 2 l) ;; Ok (2 + n, CommentToken, ENone, false)
  else if c =? 42 then
    ' (n, ok, sawlt) <-- mlc_loop (length l) (skipz 2 l) ;;
    if ok then Ok (2 + n, (if sawlt then CommentLineTerminatorToken else CommentToken), ENone, sawlt)
    else Ok (2 + n, ErrorToken, ECommentEOF, sawlt)
  else Ok (0, ErrorToken, ENone, false).

(* consumeOperatorToken: (bytes moved, token type) *)
Definition op (l : list Z) : res (Z * Z) :=
  c <-- pkl l 0 ;;
  c1 <-- pkl l 1 ;;
  if (c1 =? 61) && negb (c =? 126) && negb (c =? 63) then
    c2 <-- pkl l 2 ;;
    if (c2 =? 61) && ((c =? 33) || (c =? 61)) then
      Ok (3, if c =? 33 then NotEqEqToken else EqEqEqToken)
    else Ok (2, lookup_op js_op_eq_tokens c)
  else if (c1 =? c) && ((c =? 43) || (c =? 45) || (c =? 42) || (c =? 38) || (c =? 124) || (c =? 63) || (c =? 60)) then
    c2 <-- pkl l 2 ;;
    if (c2 =? 61) && negb (c =? 43) && negb (c =? 45) then Ok (3, lookup_op js_op_op_eq_tokens c)
    else Ok (2, lookup_op js_op_op_tokens c)
  else
    optchain <-- (if (c =? 63) && (c1 =? 46) then c2 <-- pkl l 2 ;; Ok ((c2 <? 48) || (57 <? c2))
                  else Ok false) ;;
    if optchain then Ok (2, OptChainToken)
    else if (c =? 61) && (c1 =? 62) then Ok (2, ArrowToken)
    else if (c =? 62) && (c1 =? 62) then
      c2 <-- pkl l 2 ;;
      if c2 =? 62 then
        c3 <-- pkl l 3 ;;
        if c3 =? 61 then Ok (4, GtGtGtEqToken) else Ok (3, GtGtGtToken)
      else if c2 =? 61 then Ok (3, GtGtEqToken)
      else Ok (2, GtGtToken)
    else Ok (1, lookup_op js_op_tokens c).

(* consumeIdentifierToken: bytes moved (0 = false) *)
Definition ident_start (l : list Z) : res Z :=
  c <-- pkl l 0 ;;
  if tab_start c then Ok 1
  else if 192 <=? c then ' (r, n) <-- peek_rune l ;; if id_start r then Ok n else Ok 0
  else uesc l.

(* one round of the continuation loop: bytes moved, 0 = break *)
Definition ident_cont1 (l : list Z) : res Z :=
  c <-- pkl l 0 ;;
  if tab_cont c then Ok 1
  else if 192 <=? c then
    ' (r, n) <-- peek_rune l ;;
    if (r =? 8204) || (r =? 8205) || id_cont r then Ok n else Ok 0
  else uesc l.

Definition ident (l : list Z) : res Z :=
  n <-- ident_start l ;;
  if n <=? 0 then Ok 0 else m <-- repl ident_cont1 (skipz n l) ;; Ok (n + m).

(* consumeNumericSeparator(f) *)
Definition num_sep (f : list Z -> res Z) (l : list Z) : res Z :=
  c <-- pkl l 0 ;;
  if negb (c =? 95) then Ok 0 else
  n <-- f (skipz 1 l) ;;
  if n <=? 0 then Ok 0 else Ok (1 + n).

(* f() || consumeNumericSeparator(f) *)
Definition dig_or_sep (f : list Z -> res Z) (l : list Z) : res Z :=
  n <-- f l ;; if 0 <? n then Ok n else num_sep f l.

(* "0x" / "0b" / "0o" prefix already seen at l (2 bytes): (bytes moved, type) *)
Definition num_radix (f : list Z -> res Z) (ty : Z) (l : list Z) : res (Z * Z * Z) :=
  let l2 := skipz 2 l in
  h <-- f l2 ;;
  if 0 <? h then
    m <-- repl (dig_or_sep f) (skipz 1 l2) ;;
    c <-- pkl (skipz (1 + m) l2) 0 ;;
    Ok (2 + 1 + m + (if c =? 110 then 1 else 0), ty, ENone)
  else Ok (1, IntegerToken, ENone).            (* Move(-1): back on the letter *)

(* the exponent part; k bytes moved so far, c = the byte at k *)
Definition num_exp (l : list Z) (k c : Z) : res (Z * Z * Z) :=
  if (c =? 101) || (c =? 69) then
    let l1 := skipz (k + 1) l in
    c' <-- pkl l1 0 ;;
    let s := if (c' =? 43) || (c' =? 45) then 1 else 0 in
    let l2 := skipz s l1 in
    d <-- digit1 l2 ;;
    if d =? 0 then Ok (k + 1 + s, ErrorToken, EInvalidNumber)
    else m <-- repl (dig_or_sep digit1) (skipz 1 l2) ;; Ok (k + 1 + s + 1 + m, DecimalToken, ENone)
  else Ok (k, DecimalToken, ENone).

(* "we have parsed a 0 or an integer number": k bytes moved so far *)
Definition num_tail (first : Z) (l : list Z) (k : Z) : res (Z * Z * Z) :=
  let lk := skipz k l in
  c <-- pkl lk 0 ;;
  if c =? 46 then
    let l' := skipz 1 lk in
    d <-- digit1 l' ;;
    if 0 <? d then
      m <-- repl (dig_or_sep digit1) (skipz 1 l') ;;
      let k2 := k + 1 + 1 + m in
      c2 <-- pkl (skipz k2 l) 0 ;;
      num_exp l k2 c2
    else if first =? 46 then Ok (k + 1 - 1, ErrorToken, ENone)   (* may be dot or ellipsis *)
    else c2 <-- pkl l' 0 ;; num_exp l (k + 1) c2
  else if c =? 110 then Ok (k + 1, IntegerToken, ENone)
  else if negb (c =? 101) && negb (c =? 69) then Ok (k, IntegerToken, ENone)
  else num_exp l k c.

(* consumeNumericToken: (bytes moved, token type, l.err) *)
Definition numeric (l : list Z) : res (Z * Z * Z) :=
  first <-- pkl l 0 ;;
  if first =? 48 then
    c <-- pkl l 1 ;;
    if (c =? 120) || (c =? 88) then num_radix hex1 HexadecimalToken l
    else if (c =? 98) || (c =? 66) then num_radix bin1 BinaryToken l
    else if (c =? 111) || (c =? 79) then num_radix oct1 OctalToken l
    else if c =? 110 then Ok (2, IntegerToken, ENone)
    else if (48 <=? c) && (c <=? 57) then Ok (1, ErrorToken, ELegacyOctal)
    else num_tail first l 1
  else if negb (first =? 46) then
    m <-- repl (dig_or_sep digit1) l ;; num_tail first l m
  else num_tail first l 0.

(* the string loop: (bytes moved, closed by the delimiter) *)
Fixpoint str_loop (delim : Z) (fuel : nat) (l : list Z) : res (Z * bool) :=
  match fuel with
  | O => Fuel
  | S f =>
      c <-- pkl l 0 ;;
      if c =? delim then Ok (1, true)
      else if c =? 92 then
        let l1 := skipz 1 l in
        t <-- lt1 l1 ;;
        k <-- (if 0 <? t then Ok t
               else c' <-- pkl l1 0 ;; Ok (if (c' =? delim) || (c' =? 92) then 1 else 0)) ;;
        ' (n, ok) <-- str_loop delim f (skipz (1 + k) l) ;; Ok (1 + k + n, ok)
      else if (c =? 10) || (c =? 13) || ((c =? 0) && at_endl l) then Ok (0, false)
      else ' (n, ok) <-- str_loop delim f (skipz 1 l) ;; Ok (1 + n, ok)
  end.

(* consumeStringToken: (bytes moved, token type, l.err) *)
Definition string_tok (l : list Z) : res (Z * Z * Z) :=
  delim <-- pkl l 0 ;;
  ' (n, ok) <-- str_loop delim (length l) (skipz 1 l) ;;
  if ok then Ok (1 + n, StringToken, ENone) else Ok (1 + n, ErrorToken, EString).

(* the body loop of consumeRegExpToken: (bytes moved, closed by '/') *)
Fixpoint re_loop (fuel : nat) (in_class : bool) (l : list Z) : res (Z * bool) :=
  match fuel with
  | O => Fuel
  | S f =>
      c <-- pkl l 0 ;;
      if negb in_class && (c =? 47) then Ok (1, true)
      else if c =? 91 then ' (n, ok) <-- re_loop f true (skipz 1 l) ;; Ok (1 + n, ok)
      else if c =? 93 then ' (n, ok) <-- re_loop f false (skipz 1 l) ;; Ok (1 + n, ok)
      else if c =? 92 then
        let l1 := skipz 1 l in
        t <-- is_lt l1 ;;
        c1 <-- pkl l1 0 ;;
        if t || ((c1 =? 0) && at_endl l1) then Ok (1, false)
        else ' (n, ok) <-- re_loop f in_class (skipz 2 l) ;; Ok (2 + n, ok)
      else
        t <-- is_lt l ;;
        if t || ((c =? 0) && at_endl l) then Ok (0, false)
        else ' (n, ok) <-- re_loop f in_class (skipz 1 l) ;; Ok (1 + n, ok)
  end.

(* one round of the flags loop *)
Definition re_flag1 (l : list Z) : res Z :=
  c <-- pkl l 0 ;;
  if tab_cont c then Ok 1
  else if 192 <=? c then
    ' (r, n) <-- peek_rune l ;;
    if (r =? 8204) || (r =? 8205) || id_cont r then Ok n else Ok 0
  else Ok 0.

(* consumeRegExpToken, on the '/': (bytes moved, result) *)
Definition regexp_tok (l : list Z) : res (Z * bool) :=
  ' (n, ok) <-- re_loop (length l) false (skipz 1 l) ;;
  if ok then m <-- repl re_flag1 (skipz (1 + n) l) ;; Ok (1 + n + m, true)
  else Ok (1 + n, false).

(* the loop of consumeTemplateToken: (bytes moved, outcome 0 = "`", 1 = "${", 2 = EOF) *)
Fixpoint tpl_loop (fuel : nat) (l : list Z) : res (Z * Z) :=
  match fuel with
  | O => Fuel
  | S f =>
      c <-- pkl l 0 ;;
      if c =? 96 then Ok (1, 0)
      else
        subst <-- (if c =? 36 then c1 <-- pkl l 1 ;; Ok (c1 =? 123) else Ok false) ;;
        if subst then Ok (2, 1)
        else if c =? 92 then
          c1 <-- pkl (skipz 1 l) 0 ;;
          let k := if negb (c1 =? 0) then 2 else 1 in
          ' (n, o) <-- tpl_loop f (skipz k l) ;; Ok (k + n, o)
        else if (c =? 0) && at_endl l then Ok (0, 2)
        else ' (n, o) <-- tpl_loop f (skipz 1 l) ;; Ok (1 + n, o)
  end.

(* --- lexer state ---------------------------------------------------------------------------- *)
Record jst := mkJst {
  jcur : lx;            (* l.r *)
  jerr : Z;             (* l.err, as an error kind; ENone = nil *)
  jplt : bool;          (* prevLineTerminator *)
  jpnl : bool;          (* prevNumericLiteral *)
  jlevel : Z;           (* level *)
  jtl : list Z          (* templateLevels, last element first *)
}.

Definition js_init (d : list Z) : jst := mkJst (lx_init d) ENone true false 0 [].

Definition set_cur (s : jst) (z : lx) := mkJst z (jerr s) (jplt s) (jpnl s) (jlevel s) (jtl s).
Definition set_err (s : jst) (e : Z) := mkJst (jcur s) e (jplt s) (jpnl s) (jlevel s) (jtl s).
Definition set_plt (s : jst) (b : bool) := mkJst (jcur s) (jerr s) b (jpnl s) (jlevel s) (jtl s).
Definition set_pnl (s : jst) (b : bool) := mkJst (jcur s) (jerr s) (jplt s) b (jlevel s) (jtl s).
Definition set_level (s : jst) (v : Z) := mkJst (jcur s) (jerr s) (jplt s) (jpnl s) v (jtl s).
Definition set_tl (s : jst) (t : list Z) := mkJst (jcur s) (jerr s) (jplt s) (jpnl s) (jlevel s) t.

(* a token: type and data; None = the nil slice of "return ErrorToken, nil" *)
Definition tok := (Z * option (list Z))%type.

(* "return ty, l.r.Shift()" with the cursor at z *)
Definition emit (s : jst) (z : lx) (ty : Z) : res (tok * jst) :=
  match shift z with
  | Some (b, z') => Ok ((ty, Some b), set_cur s z')
  | None => Panic
  end.

(* the generic error path at the end of Next (after fix D2) *)
Definition err_path (s : jst) (z : lx) : res (tok * jst) :=
  let l := suffix z in
  _ <-- peek_rune l ;;
  c <-- pkl l 0 ;;
  n <-- (if negb (c =? 0) || negb (at_endl l) then move_rune_len l else Ok 0) ;;
  emit (set_err s EUnexpected) (mv z n) ErrorToken.

(* consumeTemplateToken followed by Shift *)
Definition template (s : jst) (z : lx) : res (tok * jst) :=
  let l := suffix z in
  c <-- pkl l 0 ;;
  let continuation := c =? 125 in
  ' (n, o) <-- tpl_loop (length l) (skipz 1 l) ;;
  let z1 := mv z (1 + n) in
  if o =? 0 then
    match jtl s with
    | [] => Panic                                   (* templateLevels[:len-1] with len = 0 *)
    | _ :: rest => emit (set_tl s rest) z1 (if continuation then TemplateEndToken else TemplateToken)
    end
  else if o =? 1 then
    emit (set_level s (jlevel s + 1)) z1 (if continuation then TemplateMiddleToken else TemplateStartToken)
  else emit (set_err s ETemplate) z1 ErrorToken.

Definition op_or_err (s : jst) (z : lx) : res (tok * jst) :=
  ' (n, ty) <-- op (suffix z) ;;
  if negb (ty =? ErrorToken) then emit s (mv z n) ty else err_path s (mv z n).

Definition is_op_start (c : Z) : bool :=
  (c =? 62) || (c =? 61) || (c =? 33) || (c =? 43) || (c =? 42) || (c =? 37) || (c =? 38)
  || (c =? 124) || (c =? 94) || (c =? 126) || (c =? 63).

(* Lexer.Next *)
Definition next (s0 : jst) : res (tok * jst) :=
  let plt0 := jplt s0 in
  let pnl0 := jpnl s0 in
  let s := mkJst (jcur s0) ENone false false (jlevel s0) (jtl s0) in
  let z := jcur s0 in
  let l := suffix z in
  c <-- pkl l 0 ;;
  if (c =? 32) || (c =? 9) || (c =? 11) || (c =? 12) then
    m <-- repl ws1 (skipz 1 l) ;; emit (set_plt s plt0) (mv z (1 + m)) WhitespaceToken
  else if (c =? 10) || (c =? 13) then
    m <-- repl lt1 (skipz 1 l) ;; emit (set_plt s true) (mv z (1 + m)) LineTerminatorToken
  else if is_op_start c then op_or_err s z
  else if ((48 <=? c) && (c <=? 57)) || (c =? 46) then
    ' (n, ty, e) <-- numeric l ;;
    let z1 := mv z n in
    let s1 := set_err s e in
    if negb (ty =? ErrorToken) || negb (mark z1 =? 0) then emit (set_pnl s1 true) z1 ty
    else if c =? 46 then
      let z2 := mv z1 1 in
      let l2 := suffix z2 in
      a <-- pkl l2 0 ;;
      ell <-- (if a =? 46 then b <-- pkl l2 1 ;; Ok (b =? 46) else Ok false) ;;
      if ell then emit s1 (mv z2 2) EllipsisToken else emit s1 z2 DotToken
    else err_path s1 z1
  else if c =? 44 then emit s (mv z 1) CommaToken
  else if c =? 59 then emit s (mv z 1) SemicolonToken
  else if c =? 40 then emit (set_level s (jlevel s + 1)) (mv z 1) OpenParenToken
  else if c =? 41 then emit (set_level s (jlevel s - 1)) (mv z 1) CloseParenToken
  else if c =? 47 then
    ' (n, ty, e, sawlt) <-- comment l ;;
    let s1 := set_err (if sawlt then set_plt s true else s) e in
    let z1 := mv z n in
    if negb (ty =? ErrorToken) || negb (e =? ENone) then
      if negb (e =? ENone) then Ok ((ErrorToken, None), set_cur s1 z1)
      else emit s1 z1 ty
    else op_or_err s1 z1
  else if c =? 123 then emit (set_level s (jlevel s + 1)) (mv z 1) OpenBraceToken
  else if c =? 125 then
    let s1 := set_level s (jlevel s - 1) in
    match jtl s1 with
    | top :: _ => if jlevel s1 =? top then template s1 z else emit s1 (mv z 1) CloseBraceToken
    | [] => emit s1 (mv z 1) CloseBraceToken
    end
  else if c =? 58 then emit s (mv z 1) ColonToken
  else if (c =? 39) || (c =? 34) then
    ' (n, ty, e) <-- string_tok l ;; emit (set_err s e) (mv z n) ty
  else if c =? 93 then emit s (mv z 1) CloseBracketToken
  else if c =? 91 then emit s (mv z 1) OpenBracketToken
  else if (c =? 60) || (c =? 45) then
    n <-- html_comment plt0 l ;;
    if 0 <? n then emit s (mv z n) CommentToken else op_or_err s z
  else if c =? 96 then template (set_tl s (jlevel s :: jtl s)) z
  else if c =? 35 then
    let z1 := mv z 1 in
    n <-- ident (suffix z1) ;;
    if 0 <? n then emit s (mv z1 n) PrivateIdentifierToken else err_path s z1
  else
    n <-- ident l ;;
    if 0 <? n then
      let z1 := mv z n in
      if pnl0 then Ok ((ErrorToken, None), set_cur (set_err s EIdentAfterNumber) z1)
      else
        match lexeme z1 with
        | None => Panic
        | Some w =>
            match lookup_kw js_keywords w with
            | Some k => emit s z1 k
            | None => emit s z1 IdentifierToken
            end
        end
    else if 192 <=? c then
      w <-- ws1 l ;;
      if 0 <? w then
        m <-- repl ws1 (skipz w l) ;; emit (set_plt s plt0) (mv z (w + m)) WhitespaceToken
      else
        t <-- lt1 l ;;
        if 0 <? t then
          m <-- repl lt1 (skipz t l) ;; emit (set_plt s true) (mv z (t + m)) LineTerminatorToken
        else err_path s z
    else if (c =? 0) && at_endl l then Ok ((ErrorToken, None), s)
    else err_path s z.

(* Lexer.RegExp *)
Definition regexp (s : jst) : res (tok * jst) :=
  let z := jcur s in
  let pkb (i : Z) : res Z := match pk z i with Some c => Ok c | None => Panic end in
  a <-- (if 0 <? lpos z then c <-- pkb (-1) ;; Ok (c =? 47) else Ok false) ;;
  back <-- (if a then Ok 1
            else b <-- (if 1 <? lpos z then c <-- pkb (-1) ;;
                          if c =? 61 then c2 <-- pkb (-2) ;; Ok (c2 =? 47) else Ok false
                        else Ok false) ;;
                 if b then Ok 2 else Ok 0) ;;
  if back =? 0 then Ok ((ErrorToken, None), set_err s EExpectedSlash)
  else
    let z2 := skip (mv z (- back)) in
    ' (n, ok) <-- regexp_tok (suffix z2) ;;
    let z3 := mv z2 n in
    if ok then emit s z3 RegExpToken
    else Ok ((ErrorToken, None), set_cur (set_err s ERegExp) z3).

(* Lexer.Err(): l.err, else the input's error (io.EOF = 1 at the end) *)
Definition js_err (s : jst) : Z :=
  if negb (jerr s =? ENone) then jerr s else if at_end (jcur s) then 1 else 0.

End Model.
