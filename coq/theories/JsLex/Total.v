(* JsLex/Total.v — no scanning function of the JS lexer model panics, runs out of fuel or moves
   past the terminator, for every byte string and every Unicode classification. *)
From Verif Require Import Common.Base Common.Tactics Common.Lx Gen.Tables JsLex.Model JsLex.Lemmas.
From Coq Require Import ZifyBool.

(* peek at a position that lia can show to be inside the suffix; remembers that a non-zero byte
   is not the terminator *)
Ltac step_pk :=
  match goal with
  | Hw : wfl ?l |- context [pkl ?l ?k] =>
      let c := fresh "c" in
      let H := fresh "Hpk" in
      destruct (pkl_ok l k) as [c H]; [lia|];
      rewrite H; cbn [rbind];
      pose proof (pkl_nz l k c Hw H)
  end.

Ltac brk :=
  match goal with
  | |- context [if ?b then _ else _] => destruct b eqn:?
  end.

Ltac fin := repeat eexists; first [reflexivity | lia | idtac].

Ltac run_ok := repeat first [step_pk | brk]; cbn [rbind].

Section Total.
Variables (id_start id_cont is_zs : Z -> bool).

Lemma peek_rune_ok l : wfl l ->
  exists r n, peek_rune l = Ok (r, n) /\ 1 <= n <= 4 /\ (1 < len l -> n < len l).
Proof.
  intros Hw. pose proof (wfl_len _ Hw). unfold peek_rune. run_ok; fin.
Qed.

Lemma move_rune_len_ok l : wfl l ->
  exists n, move_rune_len l = Ok n /\ 1 <= n <= 4 /\ (1 < len l -> n < len l).
Proof.
  intros Hw. pose proof (wfl_len _ Hw). unfold move_rune_len. run_ok; fin.
Qed.

(* use a lemma "exists r n, f l = Ok (r, n) /\ P" for the call f l in the goal *)
Ltac use_rune l Hw :=
  let r := fresh "r" in let n := fresh "n" in let H := fresh "Hr" in let Hb := fresh "Hb" in
  destruct (peek_rune_ok l Hw) as (r & n & H & Hb); rewrite H; cbn [rbind].

Lemma ws1_ok : ok_step (ws1 is_zs).
Proof.
  intros l Hw. pose proof (wfl_len _ Hw). unfold ws1. step_pk.
  brk; [fin|]. brk; [|fin]. use_rune l Hw. brk; fin.
Qed.

Lemma ls_ps_ok l : wfl l -> 1 < len l ->
  exists b, ls_ps l = Ok b /\ (b = true -> 3 < len l).
Proof.
  intros Hw H1. unfold ls_ps. run_ok; fin.
Qed.

Lemma is_lt_ok l : wfl l -> exists b, is_lt l = Ok b /\ (b = true -> 1 < len l).
Proof.
  intros Hw. pose proof (wfl_len _ Hw). unfold is_lt. step_pk. brk; [fin|]. brk; [|fin].
  destruct (ls_ps_ok l Hw ltac:(lia)) as (b & -> & Hb). fin.
Qed.

Lemma lt1_ok : ok_step lt1.
Proof.
  intros l Hw. pose proof (wfl_len _ Hw). unfold lt1. step_pk. brk; [fin|]. brk.
  - step_pk. brk; fin.
  - brk; [|fin]. destruct (ls_ps_ok l Hw ltac:(lia)) as (b & -> & Hb). cbn [rbind].
    destruct b; fin.
Qed.

Lemma byte_step_ok (p : Z -> bool) : p 0 = false ->
  ok_step (fun l => c <-- pkl l 0 ;; Ok (if p c then 1 else 0)).
Proof.
  intros Hp l Hw. pose proof (wfl_len _ Hw). step_pk.
  destruct (p c) eqn:E; [|fin].
  assert (c <> 0) by (intros ->; congruence). fin.
Qed.

Lemma digit1_ok : ok_step digit1.
Proof. apply (byte_step_ok (fun c => (48 <=? c) && (c <=? 57))). reflexivity. Qed.
Lemma hex1_ok : ok_step hex1.
Proof.
  apply (byte_step_ok (fun c => ((48 <=? c) && (c <=? 57)) || ((97 <=? c) && (c <=? 102)) || ((65 <=? c) && (c <=? 70)))).
  reflexivity.
Qed.
Lemma bin1_ok : ok_step bin1.
Proof. apply (byte_step_ok (fun c => (c =? 48) || (c =? 49))). reflexivity. Qed.
Lemma oct1_ok : ok_step oct1.
Proof. apply (byte_step_ok (fun c => (48 <=? c) && (c <=? 55))). reflexivity. Qed.

(* the digit functions return 0 or 1 *)
Definition bit_step (f : list Z -> res Z) : Prop := forall l n, f l = Ok n -> n = 0 \/ n = 1.
Lemma byte_step_bit (p : Z -> bool) : bit_step (fun l => c <-- pkl l 0 ;; Ok (if p c then 1 else 0)).
Proof.
  intros l n. destruct (pkl l 0); cbn [rbind]; try discriminate. destruct (p a); intros [= <-]; auto.
Qed.
Lemma digit1_bit : bit_step digit1.
Proof. apply (byte_step_bit (fun c => (48 <=? c) && (c <=? 57))). Qed.
Lemma hex1_bit : bit_step hex1.
Proof. apply (byte_step_bit (fun c => ((48 <=? c) && (c <=? 57)) || ((97 <=? c) && (c <=? 102)) || ((65 <=? c) && (c <=? 70)))). Qed.
Lemma bin1_bit : bit_step bin1.
Proof. apply (byte_step_bit (fun c => (c =? 48) || (c =? 49))). Qed.
Lemma oct1_bit : bit_step oct1.
Proof. apply (byte_step_bit (fun c => (48 <=? c) && (c <=? 55))). Qed.

(* call a step function known to be ok on a suffix of the current list *)
Ltac use_step Hf l' :=
  let n := fresh "n" in let H := fresh "Hs" in let Hb := fresh "Hb" in
  let Hw' := fresh "Hw" in
  assert (Hw' : wfl l') by (apply wfl_skipz; [assumption | lia]);
  destruct (Hf l' Hw') as (n & H & Hb); rewrite H; cbn [rbind];
  rewrite ?len_skipz in Hb by lia.

Ltac use_repl Hf l' :=
  let n := fresh "m" in let H := fresh "Hs" in let Hb := fresh "Hb" in
  let Hw' := fresh "Hw" in
  assert (Hw' : wfl l') by (apply wfl_skipz; [assumption | lia]);
  destruct (repl_ok _ Hf l' Hw') as (n & H & Hb); rewrite H; cbn [rbind];
  rewrite ?len_skipz in Hb by lia.

Lemma uesc_ok : ok_step uesc.
Proof.
  intros l Hw. pose proof (wfl_len _ Hw). unfold uesc. step_pk. brk; [fin|]. step_pk. brk; [fin|].
  rewrite pkl_skipz by lia. step_pk. brk.
  - rewrite skipz_skipz by lia. use_step hex1_ok (skipz (2 + 1) l).
    pose proof (hex1_bit _ _ Hs). brk; [|fin].
    rewrite skipz_skipz by lia. use_repl hex1_ok (skipz (2 + 1 + 1) l).
    rewrite skipz_skipz by lia. rewrite pkl_skipz by lia. step_pk. brk; fin.
  - use_step hex1_ok (skipz 2 l). pose proof (hex1_bit _ _ Hs). brk; [fin|].
    rewrite skipz_skipz by lia. use_step hex1_ok (skipz (2 + 1) l). pose proof (hex1_bit _ _ Hs0). brk; [fin|].
    rewrite skipz_skipz by lia. use_step hex1_ok (skipz (2 + 2) l). pose proof (hex1_bit _ _ Hs1). brk; [fin|].
    rewrite skipz_skipz by lia. use_step hex1_ok (skipz (2 + 3) l). pose proof (hex1_bit _ _ Hs2). brk; fin.
Qed.

Lemma slc_loop_ok : forall fuel l, wfl l -> (length l <= fuel)%nat ->
  exists n, slc_loop fuel l = Ok n /\ 0 <= n < len l.
Proof.
  induction fuel as [|fuel IH]; intros l Hw Hl; pose proof (wfl_len _ Hw) as H1.
  - unfold len in *. lia.
  - cbn [slc_loop]. rewrite at_endl_spec. step_pk. brk; [fin|].
    assert (Hrec : exists n, (n0 <-- slc_loop fuel (skipz 1 l) ;; Ok (1 + n0)) = Ok n /\ 0 <= n < len l).
    { assert (Hw' : wfl (skipz 1 l)) by (apply wfl_skipz; [assumption|lia]).
      destruct (IH _ Hw') as (n & -> & Hb).
      { pose proof (length_skipz_lt 1 l ltac:(lia) (wfl_nonnil _ Hw)). lia. }
      rewrite len_skipz in Hb by lia. cbn [rbind]. fin. }
    brk.
    + use_rune l Hw. brk; [fin|exact Hrec].
    + cbn [rbind]. exact Hrec.
Qed.

Lemma slc_ok l : wfl l -> exists n, slc l = Ok n /\ 0 <= n < len l.
Proof. intros Hw. apply slc_loop_ok; auto. Qed.

Ltac use_slc l' :=
  let n := fresh "n" in let H := fresh "Hs" in let Hb := fresh "Hb" in
  let Hw' := fresh "Hw" in
  assert (Hw' : wfl l') by (apply wfl_skipz; [assumption | lia]);
  destruct (slc_ok l' Hw') as (n & H & Hb); rewrite H; cbn [rbind];
  rewrite ?len_skipz in Hb by lia.

Lemma html_comment_ok plt : ok_step (html_comment plt).
Proof.
  intros l Hw. pose proof (wfl_len _ Hw). unfold html_comment. step_pk.
  destruct (c =? 60) eqn:E60.
  - replace (c =? 45) with false by lia. rewrite andb_false_r. cbn [rbind].
    step_pk. brk; cbn [rbind]; [|fin]. step_pk. brk; cbn [rbind]; [|fin]. step_pk. brk; [|fin].
    use_slc (skipz 4 l). fin.
  - cbn [rbind]. brk; cbn [rbind]; [|fin]. step_pk. brk; cbn [rbind]; [|fin]. step_pk. brk; [|fin].
    use_slc (skipz 3 l). fin.
Qed.

Lemma mlc_loop_ok : forall fuel l, wfl l -> (length l <= fuel)%nat ->
  exists n ok sawlt, mlc_loop fuel l = Ok (n, ok, sawlt) /\ 0 <= n < len l.
Proof.
  induction fuel as [|fuel IH]; intros l Hw Hl; pose proof (wfl_len _ Hw) as H1.
  - unfold len in *. lia.
  - cbn [mlc_loop]. rewrite at_endl_spec. step_pk.
    assert (Hrec : forall k, 0 < k < len l -> exists n ok sawlt, mlc_loop fuel (skipz k l) = Ok (n, ok, sawlt) /\ 0 <= n < len l - k).
    { intros k Hk. assert (Hw' : wfl (skipz k l)) by (apply wfl_skipz; [assumption|lia]).
      destruct (IH _ Hw') as (n & ok & sl & -> & Hb).
      { pose proof (length_skipz_lt k l ltac:(lia) (wfl_nonnil _ Hw)). lia. }
      rewrite len_skipz in Hb by lia. fin. }
    assert (Hrest : exists n ok sawlt,
      (if (c =? 0) && (len l <=? 1) then Ok (0, false, false)
       else t <-- lt1 l ;;
         if 0 <? t then ' (n, ok, _) <-- mlc_loop fuel (skipz t l) ;; Ok (t + n, ok, true)
         else ' (n, ok, sawlt) <-- mlc_loop fuel (skipz 1 l) ;; Ok (1 + n, ok, sawlt)) = Ok (n, ok, sawlt) /\ 0 <= n < len l).
    { brk; [fin|]. destruct (lt1_ok l Hw) as (t & -> & Ht). cbn [rbind]. brk.
      - destruct (Hrec t ltac:(lia)) as (n & ok & sl & -> & Hb). cbn [rbind]. fin.
      - destruct (Hrec 1 ltac:(lia)) as (n & ok & sl & -> & Hb). cbn [rbind]. fin. }
    brk; cbn [rbind].
    + step_pk. brk; [fin|exact Hrest].
    + exact Hrest.
Qed.

Lemma comment_ok l : wfl l -> 1 < len l ->
  exists n ty e sawlt, comment l = Ok (n, ty, e, sawlt) /\ 0 <= n < len l /\
    (ty <> ErrorToken \/ e <> ENone -> 2 <= n) /\ (ty = ErrorToken /\ e = ENone -> n = 0).
Proof.
  intros Hw H1. unfold comment. step_pk. brk.
  - use_slc (skipz 2 l). eexists _, _, _, _. split; [reflexivity|]. split; [lia|]. split; [lia|].
    intros (? & ?). discriminate.
  - brk.
    + assert (Hw' : wfl (skipz 2 l)) by (apply wfl_skipz; [assumption|lia]).
      destruct (mlc_loop_ok (length l) (skipz 2 l) Hw') as (n & ok & sl & -> & Hb).
      { apply length_skipz_le. }
      rewrite len_skipz in Hb by lia. cbn [rbind].
      destruct ok; eexists _, _, _, _; (split; [reflexivity|]); (split; [lia|]); (split; [lia|]).
      * intros (? & ?). destruct sl; discriminate.
      * intros (? & ?). discriminate.
    + eexists _, _, _, _. split; [reflexivity|]. split; [lia|]. split; [|reflexivity].
      intros [?|?]; congruence.
Qed.

Lemma op_ok l c : wfl l -> pkl l 0 = Ok c -> c <> 0 ->
  exists n ty, op l = Ok (n, ty) /\ 1 <= n < len l.
Proof.
  intros Hw Hc Hnz. pose proof (pkl_nz _ _ _ Hw Hc Hnz). unfold op. rewrite Hc. cbn [rbind].
  step_pk. brk.
  - step_pk. brk; fin.
  - brk.
    + step_pk. brk; fin.
    + brk; cbn [rbind].
      * step_pk. brk; [fin|]. brk; [fin|]. brk; [|fin]. brk; [|brk; fin]. step_pk. brk; fin.
      * brk; [fin|]. brk; [|fin]. step_pk. brk; [|brk; fin]. step_pk. brk; fin.
Qed.

Lemma ident_start_ok : ok_step (ident_start id_start).
Proof.
  intros l Hw. pose proof (wfl_len _ Hw). unfold ident_start. step_pk.
  destruct (tab_start c) eqn:Et.
  - assert (c <> 0) by (intros ->; discriminate). fin.
  - brk; [|apply uesc_ok; assumption]. use_rune l Hw. brk; fin.
Qed.

Lemma ident_cont1_ok : ok_step (ident_cont1 id_cont).
Proof.
  intros l Hw. pose proof (wfl_len _ Hw). unfold ident_cont1. step_pk.
  destruct (tab_cont c) eqn:Et.
  - assert (c <> 0) by (intros ->; discriminate). fin.
  - brk; [|apply uesc_ok; assumption]. use_rune l Hw. brk; fin.
Qed.

Lemma re_flag1_ok : ok_step (re_flag1 id_cont).
Proof.
  intros l Hw. pose proof (wfl_len _ Hw). unfold re_flag1. step_pk.
  destruct (tab_cont c) eqn:Et.
  - assert (c <> 0) by (intros ->; discriminate). fin.
  - brk; [|fin]. use_rune l Hw. brk; fin.
Qed.

Lemma ident_ok : ok_step (ident id_start id_cont).
Proof.
  intros l Hw. pose proof (wfl_len _ Hw). unfold ident.
  destruct (ident_start_ok l Hw) as (n & -> & Hn). cbn [rbind]. brk; [fin|].
  use_repl ident_cont1_ok (skipz n l). fin.
Qed.

Lemma num_sep_ok f : ok_step f -> ok_step (num_sep f).
Proof.
  intros Hf l Hw. pose proof (wfl_len _ Hw). unfold num_sep. step_pk. brk; [fin|].
  use_step Hf (skipz 1 l). brk; fin.
Qed.

Lemma dig_or_sep_ok f : ok_step f -> ok_step (dig_or_sep f).
Proof.
  intros Hf l Hw. unfold dig_or_sep. destruct (Hf l Hw) as (n & -> & Hn). cbn [rbind].
  brk; [fin|]. apply num_sep_ok; assumption.
Qed.

Definition num_res_ok (l : list Z) (k0 : Z) (r : res (Z * Z * Z)) : Prop :=
  exists n ty e, r = Ok (n, ty, e) /\ k0 <= n < len l.

Lemma num_radix_ok f ty l : ok_step f -> bit_step f -> wfl l -> 2 < len l ->
  num_res_ok l 1 (num_radix f ty l).
Proof.
  clear id_start id_cont is_zs.
  intros Hf Hbit Hw H2. unfold num_radix, num_res_ok. use_step Hf (skipz 2 l).
  pose proof (Hbit _ _ Hs). brk; [|fin].
  rewrite skipz_skipz by lia. use_repl (dig_or_sep_ok f Hf) (skipz (2 + 1) l).
  rewrite skipz_skipz by lia. rewrite pkl_skipz by lia. step_pk. brk; fin.
Qed.

Lemma num_exp_ok l k c : wfl l -> 0 <= k -> pkl l k = Ok c -> num_res_ok l k (num_exp l k c).
Proof.
  clear id_start id_cont is_zs.
  intros Hw Hk Hc. pose proof (pkl_range _ _ _ Hc). pose proof (pkl_nz _ _ _ Hw Hc).
  unfold num_exp, num_res_ok. brk; [|fin].
  rewrite pkl_skipz by lia. step_pk.
  set (s := if (c0 =? 43) || (c0 =? 45) then 1 else 0).
  assert (Hs : 0 <= s <= 1 /\ (s = 1 -> c0 <> 0)) by (subst s; brk; lia).
  rewrite skipz_skipz by lia. use_step digit1_ok (skipz (k + 1 + s) l).
  pose proof (digit1_bit _ _ Hs0). brk; [fin|].
  rewrite skipz_skipz by lia. use_repl (dig_or_sep_ok _ digit1_ok) (skipz (k + 1 + s + 1) l). fin.
Qed.

Lemma num_tail_ok first l k : wfl l -> 0 <= k < len l ->
  (exists n ty e, num_tail first l k = Ok (n, ty, e) /\ k <= n < len l /\ (pkl l k = Ok 46 -> k < n)) \/
  (exists e, num_tail first l k = Ok (k, ErrorToken, e) /\ first = 46).
Proof.
  clear id_start id_cont is_zs.
  intros Hw Hk. unfold num_tail. rewrite pkl_skipz by lia. replace (k + 0) with k by lia. step_pk. brk.
  - rewrite skipz_skipz by lia. use_step digit1_ok (skipz (k + 1) l). pose proof (digit1_bit _ _ Hs). brk.
    + rewrite skipz_skipz by lia. use_repl (dig_or_sep_ok _ digit1_ok) (skipz (k + 1 + 1) l).
      rewrite pkl_skipz by lia. step_pk. left.
      destruct (num_exp_ok l (k + 1 + 1 + m + 0) c0 Hw ltac:(lia) Hpk0) as (n' & ty & e & Hn & Hb1).
      replace (k + 1 + 1 + m + 0) with (k + 1 + 1 + m) in * by lia. rewrite Hn. exists n', ty, e.
      split; [reflexivity|lia].
    + brk.
      * right. replace (k + 1 - 1) with k by lia. exists ENone. split; [reflexivity|lia].
      * rewrite pkl_skipz by lia. step_pk. left.
        destruct (num_exp_ok l (k + 1 + 0) c0 Hw ltac:(lia) Hpk0) as (n' & ty & e & Hn & Hb1).
        replace (k + 1 + 0) with (k + 1) in * by lia. rewrite Hn. exists n', ty, e. split; [reflexivity|lia].
  - left.
    assert (Hn46 : Ok c = Ok 46 -> False) by (intros [= ->]; discriminate).
    brk; [fin; tauto|]. brk; [fin; tauto|].
    destruct (num_exp_ok l k c Hw ltac:(lia) Hpk) as (n' & ty & e & Hn & Hb1).
    rewrite Hn. exists n', ty, e. split; [reflexivity|]. split; [lia|tauto].
Qed.

(* consumeNumericToken on a digit or '.' *)
Lemma numeric_ok l c : wfl l -> pkl l 0 = Ok c -> 48 <= c <= 57 \/ c = 46 ->
  exists n ty e, numeric l = Ok (n, ty, e) /\ 0 <= n < len l /\
    (n = 0 -> ty = ErrorToken /\ c = 46).
Proof.
  clear id_start id_cont is_zs.
  intros Hw Hc Hcl. pose proof (pkl_nz _ _ _ Hw Hc ltac:(lia)) as H1. unfold numeric. rewrite Hc. cbn [rbind].
  assert (Htail : forall k, 0 <= k < len l -> (k = 0 -> c = 46) ->
     exists n ty e, num_tail c l k = Ok (n, ty, e) /\ 0 <= n < len l /\ (n = 0 -> ty = ErrorToken /\ c = 46)).
  { intros k Hk Hk0. destruct (num_tail_ok c l k Hw Hk) as [(n & ty & e & -> & Hb & Hd)|(e & -> & He)].
    - exists n, ty, e. split; [reflexivity|]. split; [lia|]. intros ->. assert (k = 0) by lia. subst k.
      exfalso. rewrite (Hk0 eq_refl) in Hc. specialize (Hd Hc). lia.
    - exists k, ErrorToken, e. split; [reflexivity|]. split; [lia|]. auto. }
  brk.
  - step_pk.
    assert (Hrad : forall f ty, ok_step f -> bit_step f -> 2 < len l ->
       exists n ty' e, num_radix f ty l = Ok (n, ty', e) /\ 0 <= n < len l /\ (n = 0 -> ty' = ErrorToken /\ c = 46)).
    { intros f ty Hf Hbit H2. destruct (num_radix_ok f ty l Hf Hbit Hw H2) as (n & ty' & e & -> & Hb).
      exists n, ty', e. split; [reflexivity|]. split; lia. }
    brk; [apply Hrad; [apply hex1_ok|apply hex1_bit|lia]|].
    brk; [apply Hrad; [apply bin1_ok|apply bin1_bit|lia]|].
    brk; [apply Hrad; [apply oct1_ok|apply oct1_bit|lia]|].
    brk; [fin; lia|]. brk; [fin; lia|].
    apply Htail; lia.
  - brk.
    + destruct (repl_ok _ (dig_or_sep_ok _ digit1_ok) l Hw) as (m & Hm & Hmb). rewrite Hm. cbn [rbind].
      (* the first byte is a digit, so the loop consumed it *)
      assert (1 <= m).
      { unfold repl in Hm. destruct (length l) as [|fuel] eqn:El; [discriminate|]. cbn [rep] in Hm.
        unfold dig_or_sep at 1 in Hm. unfold digit1 at 1 in Hm. rewrite Hc in Hm. cbn [rbind] in Hm.
        replace ((48 <=? c) && (c <=? 57)) with true in Hm by lia. cbn [rbind] in Hm.
        change (0 <? 1) with true in Hm. cbn [rbind] in Hm. change (1 <=? 0) with false in Hm.
        destruct (rep (dig_or_sep digit1) fuel (skipz 1 l)) as [m'| |] eqn:E; cbn [rbind] in Hm; try discriminate.
        assert (Em : m = 1 + m') by congruence.
        assert (Hw' : wfl (skipz 1 l)) by (apply wfl_skipz; [assumption|lia]).
        destruct (rep_ok _ (dig_or_sep_ok _ digit1_ok) fuel (skipz 1 l) Hw') as (m2 & Hm2 & Hb2).
        { pose proof (length_skipz_lt 1 l ltac:(lia) (wfl_nonnil _ Hw)). lia. }
        rewrite E in Hm2. assert (m2 = m') by congruence. lia. }
      apply Htail; lia.
    + apply Htail; lia.
Qed.

Lemma str_loop_ok delim : delim <> 0 -> forall fuel l, wfl l -> (length l <= fuel)%nat ->
  exists n ok, str_loop delim fuel l = Ok (n, ok) /\ 0 <= n < len l.
Proof.
  intros Hd. induction fuel as [|fuel IH]; intros l Hw Hl; pose proof (wfl_len _ Hw) as H1.
  - unfold len in *. lia.
  - cbn [str_loop]. rewrite at_endl_spec. step_pk.
    assert (Hrec : forall k, 0 < k < len l -> exists n ok, str_loop delim fuel (skipz k l) = Ok (n, ok) /\ 0 <= n < len l - k).
    { intros k Hk. assert (Hw' : wfl (skipz k l)) by (apply wfl_skipz; [assumption|lia]).
      destruct (IH _ Hw') as (n & ok & -> & Hb).
      { pose proof (length_skipz_lt k l ltac:(lia) (wfl_nonnil _ Hw)). lia. }
      rewrite len_skipz in Hb by lia. fin. }
    brk; [fin|]. brk.
    + use_step lt1_ok (skipz 1 l). brk; cbn [rbind].
      * destruct (Hrec (1 + n) ltac:(lia)) as (n' & ok & -> & Hb'). cbn [rbind]. fin.
      * rewrite pkl_skipz by lia. step_pk. brk.
        -- destruct (Hrec (1 + 1) ltac:(lia)) as (n' & ok & -> & Hb'). cbn [rbind]. fin.
        -- destruct (Hrec (1 + 0) ltac:(lia)) as (n' & ok & -> & Hb'). cbn [rbind]. fin.
    + brk; [fin|]. destruct (Hrec 1 ltac:(lia)) as (n' & ok & -> & Hb'). cbn [rbind]. fin.
Qed.

Lemma string_tok_ok l c : wfl l -> pkl l 0 = Ok c -> c <> 0 ->
  exists n ty e, string_tok l = Ok (n, ty, e) /\ 1 <= n < len l.
Proof.
  intros Hw Hc Hnz. pose proof (pkl_nz _ _ _ Hw Hc Hnz). unfold string_tok. rewrite Hc. cbn [rbind].
  assert (Hw' : wfl (skipz 1 l)) by (apply wfl_skipz; [assumption|lia]).
  destruct (str_loop_ok c Hnz (length l) (skipz 1 l) Hw') as (n & ok & -> & Hb).
  { apply length_skipz_le. }
  rewrite len_skipz in Hb by lia. cbn [rbind]. destruct ok; fin.
Qed.

Lemma re_loop_ok : forall fuel ic l, wfl l -> (length l <= fuel)%nat ->
  exists n ok, re_loop fuel ic l = Ok (n, ok) /\ 0 <= n < len l.
Proof.
  induction fuel as [|fuel IH]; intros ic l Hw Hl; pose proof (wfl_len _ Hw) as H1.
  - unfold len in *. lia.
  - cbn [re_loop]. step_pk.
    assert (Hrec : forall ic' k, 0 < k < len l -> exists n ok, re_loop fuel ic' (skipz k l) = Ok (n, ok) /\ 0 <= n < len l - k).
    { intros ic' k Hk. assert (Hw' : wfl (skipz k l)) by (apply wfl_skipz; [assumption|lia]).
      destruct (IH ic' _ Hw') as (n & ok & -> & Hb).
      { pose proof (length_skipz_lt k l ltac:(lia) (wfl_nonnil _ Hw)). lia. }
      rewrite len_skipz in Hb by lia. fin. }
    brk; [fin|]. brk.
    { destruct (Hrec true 1 ltac:(lia)) as (n' & ok & -> & Hb'). cbn [rbind]. fin. }
    brk.
    { destruct (Hrec false 1 ltac:(lia)) as (n' & ok & -> & Hb'). cbn [rbind]. fin. }
    brk.
    + assert (Hw1 : wfl (skipz 1 l)) by (apply wfl_skipz; [assumption|lia]).
      destruct (is_lt_ok _ Hw1) as (t & -> & Ht). cbn [rbind]. rewrite len_skipz in Ht by lia.
      rewrite pkl_skipz by lia. step_pk. rewrite at_endl_spec. rewrite len_skipz by lia.
      brk; [fin|]. destruct (Hrec ic 2 ltac:(lia)) as (n' & ok & -> & Hb'). cbn [rbind]. fin.
    + destruct (is_lt_ok _ Hw) as (t & -> & Ht). cbn [rbind]. rewrite at_endl_spec.
      brk; [fin|]. destruct (Hrec ic 1 ltac:(lia)) as (n' & ok & -> & Hb'). cbn [rbind]. fin.
Qed.

Lemma regexp_tok_ok l : wfl l -> 1 < len l ->
  exists n ok, regexp_tok id_cont l = Ok (n, ok) /\ 1 <= n < len l.
Proof.
  intros Hw H1. unfold regexp_tok.
  assert (Hw' : wfl (skipz 1 l)) by (apply wfl_skipz; [assumption|lia]).
  destruct (re_loop_ok (length l) false (skipz 1 l) Hw') as (n & ok & -> & Hb).
  { apply length_skipz_le. }
  rewrite len_skipz in Hb by lia. cbn [rbind]. destruct ok; [|fin].
  use_repl re_flag1_ok (skipz (1 + n) l). fin.
Qed.

Lemma tpl_loop_ok : forall fuel l, wfl l -> (length l <= fuel)%nat ->
  exists n o, tpl_loop fuel l = Ok (n, o) /\ 0 <= n < len l.
Proof.
  induction fuel as [|fuel IH]; intros l Hw Hl; pose proof (wfl_len _ Hw) as H1.
  - unfold len in *. lia.
  - cbn [tpl_loop]. rewrite at_endl_spec. step_pk.
    assert (Hrec : forall k, 0 < k < len l -> exists n o, tpl_loop fuel (skipz k l) = Ok (n, o) /\ 0 <= n < len l - k).
    { intros k Hk. assert (Hw' : wfl (skipz k l)) by (apply wfl_skipz; [assumption|lia]).
      destruct (IH _ Hw') as (n & o & -> & Hb).
      { pose proof (length_skipz_lt k l ltac:(lia) (wfl_nonnil _ Hw)). lia. }
      rewrite len_skipz in Hb by lia. fin. }
    brk; [fin|].
    assert (Hrest : exists n o,
      (if c =? 92 then
          c1 <-- pkl (skipz 1 l) 0 ;;
          let k := if negb (c1 =? 0) then 2 else 1 in
          ' (n, o) <-- tpl_loop fuel (skipz k l) ;; Ok (k + n, o)
        else if (c =? 0) && (len l <=? 1) then Ok (0, 2)
        else ' (n, o) <-- tpl_loop fuel (skipz 1 l) ;; Ok (1 + n, o)) = Ok (n, o) /\ 0 <= n < len l).
    { brk.
      - rewrite pkl_skipz by lia. step_pk. cbv zeta. brk.
        + destruct (Hrec 2 ltac:(lia)) as (n' & o & -> & Hb'). cbn [rbind]. fin.
        + destruct (Hrec 1 ltac:(lia)) as (n' & o & -> & Hb'). cbn [rbind]. fin.
      - brk; [fin|]. destruct (Hrec 1 ltac:(lia)) as (n' & o & -> & Hb'). cbn [rbind]. fin. }
    brk; cbn [rbind].
    + step_pk. brk; [fin|exact Hrest].
    + exact Hrest.
Qed.

End Total.
