(* JsLex/SeqRegex.v — what the calls Next (returning '/' or '/=') and RegExp do to the lexer flags. *)
From Verif Require Import Common.Base Common.Tactics Common.Lx Gen.Tables
  JsLex.Model JsLex.Lemmas JsLex.Total JsLex.Next JsLex.Canon JsLex.Comment JsLex.Relex JsLex.Exchange JsLex.Regexp JsLex.Stops.
From Coq Require Import ZifyBool.

Lemma emit_inv' s z ty ty' od s' : emit s z ty = Ok ((ty', od), s') -> ty' = ty /\ s' = set_cur s (skip z).
Proof.
  unfold emit, shift. destruct (lexeme z) as [w|]; [|discriminate]. intros H. split; congruence.
Qed.

Section SeqRegex.
Variables (id_start id_cont is_zs : Z -> bool).

Lemma regexp_flags s t s2 : regexp id_cont s = Ok (t, s2) ->
  jlevel s2 = jlevel s /\ jtl s2 = jtl s /\ jpnl s2 = jpnl s /\ jplt s2 = jplt s.
Proof.
  intros H. unfold regexp in H. cbv zeta in H. crunch H;
    try (injection H as _ <-; cbn; auto);
    try (destruct t as [ty od]; apply emit_inv' in H; destruct H as (_ & ->); cbn; auto).
Qed.

Lemma next_flags_div s ty od s1 : next id_start id_cont is_zs s = Ok ((ty, od), s1) ->
  ty = DivToken \/ ty = DivEqToken ->
  jlevel s1 = jlevel s /\ jtl s1 = jtl s /\ jpnl s1 = false /\ jplt s1 = false.
Proof.
  intros H Hty. destruct s as [z e0 plt0 pnl0 lev tl].
  unfold next in H. cbv zeta in H. cbn [jcur jerr jplt jpnl jlevel jtl] in H.
  unfold op_or_err, template in H.
  crunch H; try (exfalso; destruct Hty; subst ty; discriminate);
    try (apply err_path_ty in H; exfalso; destruct Hty; subst ty; discriminate);
    (apply emit_inv' in H; destruct H as (Ht & ->));
    try (exfalso; destruct Hty as [Hty|Hty]; rewrite Hty in Ht; discriminate).
  - cbn. auto.
  - exfalso. apply numeric_ty in E0. unfold ErrorToken, DivToken, DivEqToken in *. lia.
  - exfalso. apply comment_ty in E0. unfold ErrorToken, CommentToken, CommentLineTerminatorToken, DivToken, DivEqToken in *. lia.
  - assert (z2 = ErrorToken /\ z0 = ENone) as (-> & ->) by (unfold ErrorToken, ENone in *; lia).
    destruct (comment_err_shape _ _ _ E0) as (c1 & _ & _ & _ & _ & ->). cbn. auto.
  - exfalso. apply string_tok_ty in E0. unfold ErrorToken, StringToken, DivToken, DivEqToken in *. lia.
  - cbn. auto.
  - exfalso. pose proof (lookup_kw_in _ _ _ Em0) as Hin. pose proof kw_types as K. rewrite forallb_forall in K.
    specialize (K _ Hin). cbn [snd] in K. unfold DivToken, DivEqToken in *. lia.
Qed.
End SeqRegex.

(* --- regular expression flags: ASCII identifier characters and ID_Continue runes ------------------------ *)
Lemma tab_cont_ascii c : 128 <= c -> tab_cont c = false.
Proof.
  intros H. destruct (Z.ltb_spec c 256) as [Hc|Hc].
  - assert (F : forallb (fun c => negb (tab_cont c)) (zrange 128 255) = true) by (vm_compute; reflexivity).
    rewrite forallb_forall in F. specialize (F c (zrange_in 128 255 c ltac:(lia))). destruct (tab_cont c); [discriminate|reflexivity].
  - unfold tab_cont. replace (c <? 0) with false by lia. apply nth_overflow.
    assert (L : length js_identifier_table = 256%nat) by (vm_compute; reflexivity). rewrite L. lia.
Qed.

Section Flags.
Variable id_cont : Z -> bool.

(* RegularExpressionFlags at byte level: ASCII identifier characters, and complete non-ASCII characters ch
   (decoded on their own: PeekRune gives r and the length of ch) that are ID_Continue, ZWNJ or ZWJ *)
Inductive re_flags : list Z -> Prop :=
| rf_nil : re_flags []
| rf_ascii c fl : tab_cont c = true -> re_flags fl -> re_flags (c :: fl)
| rf_rune ch r fl : 192 <= hd 0 ch -> no_trunc ch = true -> peek_rune (ch ++ [0]) = Ok (r, len ch) ->
    idc_rune id_cont r = true -> re_flags fl -> re_flags (ch ++ fl).

Lemma re_flags_ascii flags : Forall (fun c => tab_cont c = true) flags -> re_flags flags.
Proof. induction 1; [apply rf_nil|apply rf_ascii; assumption]. Qed.

Lemma flags_loop_gen flags R' : re_flags flags -> R' <> [] -> re_flag1 id_cont R' = Ok 0 ->
  forall fuel, (length flags < fuel)%nat -> rep (re_flag1 id_cont) fuel (flags ++ R') = Ok (len flags).
Proof.
  intros Hf HR' Hstop. induction Hf as [|c fl Hc Hf IH|ch r fl H192 Hnt Hr Hidc Hf IH]; intros fuel Hl;
    (destruct fuel as [|fuel]; [cbn [length] in Hl; lia|]); cbn [rep].
  - cbn [app]. rewrite Hstop. cbn [rbind]. reflexivity.
  - cbn [app]. unfold re_flag1 at 1. rewrite pkl_cons_0. cbn [rbind]. rewrite Hc. cbn [rbind]. change (1 <=? 0) with false. cbv iota.
    rewrite skipz_1_cons. rewrite IH by (cbn [length] in Hl; lia). cbn [rbind]. rewrite len_cons. reflexivity.
  - assert (Hne : ch <> []) by (intros ->; cbn [hd] in H192; lia).
    assert (HR2 : fl ++ R' <> []) by (destruct fl; [cbn [app]; assumption|discriminate]).
    destruct (peek_rune_local2 ch [0] (fl ++ R') r (len ch) Hnt Hne Hr ltac:(discriminate) HR2) as (Hr' & _).
    pose proof (peek_rune_pos _ _ _ Hr) as Hpos.
    rewrite <- app_assoc. unfold re_flag1 at 1.
    destruct ch as [|c0 ch']; [congruence|]. cbn [hd] in H192. cbn [app]. rewrite pkl_cons_0. cbn [rbind].
    rewrite (tab_cont_ascii c0) by lia. replace (192 <=? c0) with true by lia.
    change (c0 :: ch' ++ fl ++ R') with ((c0 :: ch') ++ fl ++ R'). rewrite Hr'. cbn [rbind].
    unfold idc_rune in Hidc. rewrite Hidc. cbn [rbind].
    replace (len (c0 :: ch') <=? 0) with false by lia. rewrite skipz_app_exact.
    rewrite IH by (rewrite app_length in Hl; unfold len in Hpos; lia). cbn [rbind]. f_equal. rewrite !len_cons, len_app. lia.
Qed.

Lemma flags_run_gen flags r0 rest : re_flags flags -> wfl (r0 :: rest) -> flag_stop id_cont (r0 :: rest) ->
  flags_run id_cont flags r0 rest.
Proof.
  intros Hf Hw Hs fuel Hl. apply flags_loop_gen; [assumption|discriminate| |assumption].
  apply flag_stop_ok; assumption.
Qed.

End Flags.
