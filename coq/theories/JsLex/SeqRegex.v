(* JsLex/SeqRegex.v — what the calls Next (returning '/' or '/=') and RegExp do to the lexer flags. *)
From Verif Require Import Common.Base Common.Tactics Common.Lx Gen.Tables
  JsLex.Model JsLex.Lemmas JsLex.Total JsLex.Next JsLex.Canon JsLex.Comment JsLex.Relex.
From Coq Require Import ZifyBool.

Lemma emit_inv' s z ty ty' od s' : emit s z ty = Ok ((ty', od), s') -> ty' = ty /\ s' = set_cur s (skip z).
Proof.
  unfold emit, shift. destruct (lexeme z) as [w|]; [|discriminate]. intros H. split; congruence.
Qed.

Section SeqRegex.
Variables (id_start id_cont is_zs : Z -> bool).

Lemma regexp_flags s t s2 : regexp id_cont s = Ok (t, s2) ->
  jlevel s2 = jlevel s /\ jtl s2 = jtl s /\ jpnl s2 = jpnl s /\ jplt s2 = jplt s.
Proof.
  intros H. unfold regexp in H. cbv zeta in H. crunch H;
    try (injection H as _ <-; cbn; auto);
    try (destruct t as [ty od]; apply emit_inv' in H; destruct H as (_ & ->); cbn; auto).
Qed.

Lemma next_flags_div s ty od s1 : next id_start id_cont is_zs s = Ok ((ty, od), s1) ->
  ty = DivToken \/ ty = DivEqToken ->
  jlevel s1 = jlevel s /\ jtl s1 = jtl s /\ jpnl s1 = false /\ jplt s1 = false.
Proof.
  intros H Hty. destruct s as [z e0 plt0 pnl0 lev tl].
  unfold next in H. cbv zeta in H. cbn [jcur jerr jplt jpnl jlevel jtl] in H.
  unfold op_or_err, template in H.
  crunch H; try (exfalso; destruct Hty; subst ty; discriminate);
    try (apply err_path_ty in H; exfalso; destruct Hty; subst ty; discriminate);
    (apply emit_inv' in H; destruct H as (Ht & ->));
    try (exfalso; destruct Hty as [Hty|Hty]; rewrite Hty in Ht; discriminate).
  - cbn. auto.
  - exfalso. apply numeric_ty in E0. unfold ErrorToken, DivToken, DivEqToken in *. lia.
  - exfalso. apply comment_ty in E0. unfold ErrorToken, CommentToken, CommentLineTerminatorToken, DivToken, DivEqToken in *. lia.
  - assert (z2 = ErrorToken /\ z0 = ENone) as (-> & ->) by (unfold ErrorToken, ENone in *; lia).
    destruct (comment_err_shape _ _ _ E0) as (c1 & _ & _ & _ & _ & ->). cbn. auto.
  - exfalso. apply string_tok_ty in E0. unfold ErrorToken, StringToken, DivToken, DivEqToken in *. lia.
  - cbn. auto.
  - exfalso. pose proof (lookup_kw_in _ _ _ Em0) as Hin. pose proof kw_types as K. rewrite forallb_forall in K.
    specialize (K _ Hin). cbn [snd] in K. unfold DivToken, DivEqToken in *. lia.
Qed.
End SeqRegex.
