(* JsLex/Lemmas.v — basic facts about the suffix view used by the JS lexer model. *)
From Verif Require Import Common.Base Common.Tactics Common.Lx JsLex.Model.
From Coq Require Import ZifyBool.

(* --- the suffix of a well-formed cursor is "rest of the data, then the terminator" ------------ *)
Definition wfl (l : list Z) : Prop := exists d, l = d ++ [0].

Lemma wfl_len l : wfl l -> 1 <= len l.
Proof. intros [d ->]. rewrite len_app. change (len [0]) with 1. pose proof (len_nonneg d). lia. Qed.

Lemma pkl_peekz l k : pkl l k = match peekz l k with Some c => Ok c | None => Panic end.
Proof.
  unfold pkl, peekz. destruct (Z.ltb_spec k 0) as [H|H].
  - replace (0 <=? k) with false by lia. reflexivity.
  - replace (0 <=? k) with true by lia. cbn [andb].
    destruct (Z.ltb_spec k (len l)) as [H2|H2]; [reflexivity|].
    destruct (nth_error l (Z.to_nat k)) eqn:E; [|reflexivity].
    assert (nth_error l (Z.to_nat k) <> None) as Hn by congruence.
    apply nth_error_Some in Hn. unfold len in H2. lia.
Qed.

Lemma pkl_range l k c : pkl l k = Ok c -> 0 <= k < len l.
Proof.
  rewrite pkl_peekz. destruct (peekz l k) eqn:E; [|discriminate].
  intros _. eapply peekz_some; eassumption.
Qed.

Lemma pkl_ok l k : 0 <= k < len l -> exists c, pkl l k = Ok c.
Proof.
  intros H. rewrite pkl_peekz. destruct (peekz_in_range l k H) as [c ->]. eauto.
Qed.

Lemma pkl_app_l a b k : 0 <= k < len a -> pkl (a ++ b) k = pkl a k.
Proof. intros H. rewrite !pkl_peekz, peekz_app_l by assumption. reflexivity. Qed.

Lemma pkl_app_r a b k : len a <= k -> pkl (a ++ b) k = pkl b (k - len a).
Proof. intros H. rewrite !pkl_peekz, peekz_app_r by assumption. reflexivity. Qed.

Lemma pkl_cons_0 c t : pkl (c :: t) 0 = Ok c.
Proof. reflexivity. Qed.

Lemma pkl_cons_S c t k : 0 < k -> pkl (c :: t) k = pkl t (k - 1).
Proof.
  intros H. unfold pkl. replace (k <? 0) with false by lia. replace (k - 1 <? 0) with false by lia.
  replace (Z.to_nat k) with (S (Z.to_nat (k - 1))) by lia. reflexivity.
Qed.

Lemma pkl_last l : wfl l -> pkl l (len l - 1) = Ok 0.
Proof.
  intros [d ->]. rewrite len_app. change (len [0]) with 1.
  rewrite pkl_app_r by lia. replace (len d + 1 - 1 - len d) with 0 by lia. reflexivity.
Qed.

(* a non-zero byte is not the terminator: one more byte can be peeked *)
Lemma pkl_nz l k c : wfl l -> pkl l k = Ok c -> c <> 0 -> k + 1 < len l.
Proof.
  intros Hw H Hc. pose proof (pkl_range _ _ _ H) as Hr.
  destruct (Z.eq_dec k (len l - 1)) as [E|E]; [|lia].
  subst k. rewrite (pkl_last _ Hw) in H. congruence.
Qed.

(* --- skipz ------------------------------------------------------------------------------------ *)
Lemma skipn_skipn' {A} a b (l : list A) : skipn a (skipn b l) = skipn (b + a) l.
Proof.
  revert l. induction b as [|b IH]; intros l; [reflexivity|].
  destruct l as [|x l]; [rewrite !skipn_nil; reflexivity|]. cbn [skipn Nat.add]. apply IH.
Qed.

Lemma skipz_skipz {A} a b (l : list A) : 0 <= a -> 0 <= b -> skipz a (skipz b l) = skipz (b + a) l.
Proof. intros Ha Hb. unfold skipz. rewrite skipn_skipn'. f_equal. lia. Qed.

Lemma skipz_0 {A} (l : list A) : skipz 0 l = l.
Proof. reflexivity. Qed.

Lemma skipz_cons {A} n (x : A) l : 0 < n -> skipz n (x :: l) = skipz (n - 1) l.
Proof. intros H. unfold skipz. replace (Z.to_nat n) with (S (Z.to_nat (n - 1))) by lia. reflexivity. Qed.

Lemma skipz_1_cons {A} (x : A) l : skipz 1 (x :: l) = l.
Proof. reflexivity. Qed.

Lemma nth_error_skipn' {A} n k (l : list A) : nth_error (skipn n l) k = nth_error l (n + k).
Proof.
  revert l. induction n as [|n IH]; intros l; [reflexivity|].
  destruct l as [|x l]; [destruct k; reflexivity|]. cbn [skipn Nat.add nth_error]. apply IH.
Qed.

Lemma pkl_skipz l n k : 0 <= n -> 0 <= k -> pkl (skipz n l) k = pkl l (n + k).
Proof.
  intros Hn Hk. unfold pkl, skipz. replace (k <? 0) with false by lia. replace (n + k <? 0) with false by lia.
  rewrite nth_error_skipn'. replace (Z.to_nat n + Z.to_nat k)%nat with (Z.to_nat (n + k)) by lia. reflexivity.
Qed.

Lemma len_skipz_le {A} n (l : list A) : 0 <= n <= len l -> len (skipz n l) = len l - n.
Proof. apply len_skipz. Qed.

Lemma skipz_app_l {A} n (a b : list A) : 0 <= n <= len a -> skipz n (a ++ b) = skipz n a ++ b.
Proof.
  intros H. unfold skipz. rewrite skipn_app.
  replace (Z.to_nat n - length a)%nat with 0%nat by (unfold len in H; lia). reflexivity.
Qed.

Lemma skipz_app_exact {A} (a b : list A) : skipz (len a) (a ++ b) = b.
Proof.
  unfold skipz, len. rewrite Nat2Z.id, skipn_app, skipn_all, Nat.sub_diag. reflexivity.
Qed.

Lemma wfl_skipz l n : wfl l -> 0 <= n < len l -> wfl (skipz n l).
Proof.
  intros [d ->] H. rewrite len_app in H. change (len [0]) with 1 in H.
  exists (skipz n d). apply skipz_app_l. lia.
Qed.

Lemma wfl_cons c t : wfl (c :: t) -> t <> [] -> wfl t.
Proof.
  intros [d H] Ht. destruct d as [|x d]; cbn in H.
  - injection H as _ H. congruence.
  - injection H as _ H. exists d. exact H.
Qed.

Lemma length_skipz_le {A} n (l : list A) : (length (skipz n l) <= length l)%nat.
Proof. unfold skipz. rewrite skipn_length. lia. Qed.

Lemma length_skipz_lt {A} n (l : list A) : 0 < n -> l <> [] -> (length (skipz n l) < length l)%nat.
Proof.
  intros Hn Hl. unfold skipz. rewrite skipn_length. destruct l; [congruence|]. cbn [length]. lia.
Qed.

Lemma wfl_nonnil l : wfl l -> l <> [].
Proof. intros [d ->]. destruct d; discriminate. Qed.

Lemma at_endl_spec l : at_endl l = (len l <=? 1).
Proof.
  destruct l as [|a [|b t]]; try reflexivity.
  rewrite !len_cons. pose proof (len_nonneg t). cbn [at_endl]. lia.
Qed.

Lemma firstn_plus {A} a b (l : list A) : firstn (a + b) l = firstn a l ++ firstn b (skipn a l).
Proof.
  revert l. induction a as [|a IH]; intros l; [reflexivity|].
  destruct l as [|x l]; [cbn; rewrite firstn_nil; reflexivity|]. cbn [Nat.add firstn skipn app]. f_equal. apply IH.
Qed.

Lemma firstz_app_exact {A} (a b : list A) : firstz (len a) (a ++ b) = a.
Proof.
  unfold firstz, len. rewrite Nat2Z.id. rewrite firstn_app, Nat.sub_diag, firstn_all. cbn. apply app_nil_r.
Qed.

(* --- the cursor's suffix ------------------------------------------------------------------------ *)
Lemma suffix_wfl z : lx_wf z -> wfl (suffix z) /\ len (suffix z) = lx_len z - lpos z + 1.
Proof.
  intros ((d & Hd) & Hs & Hp). unfold suffix, lx_len in *. rewrite Hd in *.
  rewrite len_app in *. change (len [0]) with 1 in *. split.
  - exists (skipz (lpos z) d). apply skipz_app_l. lia.
  - rewrite len_skipz by (rewrite len_app; change (len [0]) with 1; lia).
    rewrite len_app. change (len [0]) with 1. lia.
Qed.

Lemma suffix_mv z n : 0 <= lpos z -> 0 <= n -> suffix (mv z n) = skipz n (suffix z).
Proof.
  intros Hp Hn. unfold suffix, mv. cbn [lbuf lpos]. rewrite skipz_skipz by assumption. reflexivity.
Qed.

Lemma mv_wf z n : lx_wf z -> 0 <= n -> lpos z + n <= lx_len z -> lx_wf (mv z n).
Proof.
  intros (Hd & Hs & Hp) Hn Hm. unfold lx_wf, mv, lx_len in *. cbn [lbuf lpos lstart]. repeat split; try assumption; lia.
Qed.

Lemma mv_mv z a b : mv (mv z a) b = mv z (a + b).
Proof. unfold mv. cbn [lbuf lpos lstart]. f_equal. lia. Qed.

Lemma mv_0 z : mv z 0 = z.
Proof. destruct z. unfold mv. cbn. f_equal. lia. Qed.

(* Shift on a well-formed cursor *)
Lemma shift_wf z : lx_wf z ->
  exists b, shift z = Some (b, skip z) /\ b = slice (lbuf z) (lstart z) (lpos z) /\ lx_wf (skip z).
Proof.
  intros (Hd & Hs & Hp). unfold shift, lexeme, slice_ok, lx_len in *.
  replace (0 <=? lstart z) with true by lia. replace (lstart z <=? lpos z) with true by lia.
  replace (lpos z <=? len (lbuf z)) with true by lia. cbn [andb].
  eexists. split; [reflexivity|]. split; [reflexivity|].
  unfold lx_wf, skip, lx_len. cbn [lbuf lpos lstart]. repeat split; try assumption; lia.
Qed.

(* --- "for step() {}" ---------------------------------------------------------------------------- *)
(* a step function that never panics on a well-formed suffix and stays before the terminator *)
Definition ok_step (f : list Z -> res Z) : Prop :=
  forall l, wfl l -> exists n, f l = Ok n /\ 0 <= n < len l.

Lemma rep_ok f : ok_step f -> forall fuel l, wfl l -> (length l <= fuel)%nat ->
  exists n, rep f fuel l = Ok n /\ 0 <= n < len l.
Proof.
  intros Hf. induction fuel as [|fuel IH]; intros l Hw Hl.
  - pose proof (wfl_len _ Hw). unfold len in *. lia.
  - cbn [rep]. destruct (Hf l Hw) as (n & Hn & Hb). rewrite Hn. cbn [rbind].
    destruct (Z.leb_spec n 0) as [H0|H0].
    + exists 0. split; [reflexivity|]. pose proof (wfl_len _ Hw). lia.
    + assert (Hw' : wfl (skipz n l)) by (apply wfl_skipz; [assumption|lia]).
      assert (Hl' : (length (skipz n l) <= fuel)%nat).
      { pose proof (length_skipz_lt n l H0 (wfl_nonnil _ Hw)). lia. }
      destruct (IH _ Hw' Hl') as (m & Hm & Hmb). rewrite Hm. cbn [rbind].
      exists (n + m). split; [reflexivity|]. rewrite len_skipz in Hmb by lia. lia.
Qed.

Lemma repl_ok f : ok_step f -> forall l, wfl l -> exists n, repl f l = Ok n /\ 0 <= n < len l.
Proof. intros Hf l Hw. apply rep_ok; auto. Qed.

(* more fuel never changes a result *)
Lemma rep_fuel_mono f : forall fuel fuel' l n, rep f fuel l = Ok n -> (fuel <= fuel')%nat -> rep f fuel' l = Ok n.
Proof.
  induction fuel as [|fuel IH]; intros fuel' l n H Hle; [discriminate|].
  destruct fuel' as [|fuel']; [lia|]. cbn [rep] in *.
  destruct (f l) as [k| |]; cbn [rbind] in *; try discriminate.
  destruct (k <=? 0); [assumption|].
  destruct (rep f fuel (skipz k l)) as [m| |] eqn:E; cbn [rbind] in *; try discriminate.
  rewrite (IH fuel' _ _ E) by lia. exact H.
Qed.
