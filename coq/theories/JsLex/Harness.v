(* JsLex/Harness.v — correspondence driver for the JS lexer model (C06). *)
From Verif Require Import Common.Base Common.Codec Common.Lx JsLex.Model.

(* rune classification table of the case: pairs (rune, flags); flags bit 0 = identifierStart,
   bit 1 = identifierContinue, bit 2 = Zs.  A rune that is not listed has no class. *)
Fixpoint class_of (tab : list Z) (r : Z) : Z :=
  match tab with
  | k :: v :: t => if k =? r then v else class_of t r
  | _ => 0
  end.

Definition cls_start (tab : list Z) (r : Z) : bool := Z.odd (class_of tab r).
Definition cls_cont (tab : list Z) (r : Z) : bool := Z.odd (class_of tab r / 2).
Definition cls_zs (tab : list Z) (r : Z) : bool := Z.odd (class_of tab r / 4).

(* one call: tt, |data| (-1 = nil), data, Offset(), Pos(), Err() kind *)
Definition enc_tok (t : tok) (s : jst) : list Z :=
  let z := jcur s in
  match snd t with
  | None => [fst t; -1; lpos z; mark z; js_err s]
  | Some b => fst t :: len b :: b ++ [lpos z; mark z; js_err s]
  end.

(* ops: 0 = Next, 1 = RegExp, 2 = Next and, if it returned '/' or '/=', RegExp.
   -1 at a panic, -3 when a loop runs out of fuel; the run stops there. *)
Fixpoint run_js_ops (tab : list Z) (s : jst) (ops : list Z) : list Z :=
  match ops with
  | [] => []
  | o :: rest =>
      let nx := next (cls_start tab) (cls_cont tab) (cls_zs tab) in
      let re := regexp (cls_cont tab) in
      match (if o =? 1 then re s else nx s) with
      | Panic => [-1]
      | Fuel => [-3]
      | Ok (t, s1) =>
          if (o =? 2) && ((fst t =? DivToken) || (fst t =? DivEqToken)) then
            match re s1 with
            | Panic => enc_tok t s1 ++ [-1]
            | Fuel => enc_tok t s1 ++ [-3]
            | Ok (t2, s2) => enc_tok t s1 ++ enc_tok t2 s2 ++ run_js_ops tab s2 rest
            end
          else enc_tok t s1 ++ run_js_ops tab s1 rest
      end
  end.

(* case: |tab| tab  |data| data  ops... *)
Definition run_jslex (l : list Z) : list Z :=
  let '(tab, r1) := take_list l in
  let '(d, ops) := take_list r1 in
  run_js_ops tab (js_init d) ops.
