(* JsLex/Relex.v — restriction lemmas: a scanner that consumed exactly the prefix T of T ++ R
   consumes exactly T of T ++ [0] (the token text alone, followed by the terminator), with the same
   result.  "Closed" tokens (strings, templates, multi-line comments) never look past their last byte;
   "open" tokens stop at the terminator as they stopped at the first byte of R. *)
From Verif Require Import Common.Base Common.Tactics Common.Lx Gen.Tables
  JsLex.Model JsLex.Lemmas JsLex.Total JsLex.Next JsLex.Canon JsLex.Comment.
From Coq Require Import ZifyBool.

(* --- peeks into T ++ R ----------------------------------------------------------------------- *)
Lemma pkl_pre T R k c : pkl (T ++ R) k = Ok c -> k < len T -> forall R', pkl (T ++ R') k = Ok c.
Proof.
  intros H Hk R'. pose proof (pkl_range _ _ _ H) as Hr.
  rewrite pkl_app_l in * by lia. assumption.
Qed.

Lemma pkl_at_end T k : k = len T -> pkl (T ++ [0]) k = Ok 0.
Proof.
  intros ->. rewrite pkl_app_r by lia. replace (len T - len T) with 0 by lia. reflexivity.
Qed.

Lemma skipz_app_le {A} n (T R : list A) : 0 <= n <= len T -> skipz n (T ++ R) = skipz n T ++ R.
Proof. apply skipz_app_l. Qed.

Lemma len_skipz_T {A} n (T : list A) : 0 <= n <= len T -> len (skipz n T) = len T - n.
Proof. apply len_skipz. Qed.

(* --- "for step() {}" --------------------------------------------------------------------------- *)
(* a positive step that stays inside A does not depend on what follows A *)
Definition local (f : list Z -> res Z) : Prop :=
  forall A R k, R <> [] -> f (A ++ R) = Ok k -> 0 < k <= len A -> f (A ++ [0]) = Ok k.
(* a step that declines declines on the terminator too *)
Definition stops (f : list Z -> res Z) : Prop :=
  forall A R, f (A ++ R) = Ok 0 -> f (A ++ [0]) = Ok 0.
Definition stop0 (f : list Z -> res Z) : Prop := f [0] = Ok 0.
Definition nonneg (f : list Z -> res Z) : Prop := forall l k, f l = Ok k -> 0 <= k.

Lemma rep_nonneg f : nonneg f -> forall fuel l m, rep f fuel l = Ok m -> 0 <= m.
Proof.
  intros Hn. induction fuel as [|fuel IH]; intros l m H; [discriminate|]. cbn [rep] in H.
  destruct (f l) as [k| |] eqn:Ek; cbn [rbind] in H; try discriminate.
  destruct (Z.leb_spec k 0); [assert (m = 0) by congruence; lia|].
  destruct (rep f fuel (skipz k l)) as [m'| |] eqn:Er; cbn [rbind] in H; try discriminate.
  assert (m = k + m') by congruence. specialize (IH _ _ Er). lia.
Qed.

(* the loop consumed all of A (and stopped on the first byte of R) *)
Lemma rep_restrict_all f : local f -> stop0 f -> nonneg f ->
  forall fuel A R, R <> [] -> rep f fuel (A ++ R) = Ok (len A) ->
  forall fuel', (length A < fuel')%nat -> rep f fuel' (A ++ [0]) = Ok (len A).
Proof.
  intros Hl Hs Hn. induction fuel as [|fuel IH]; intros A R HR H fuel' Hf; [discriminate|].
  destruct fuel' as [|fuel']; [lia|]. cbn [rep] in *.
  destruct (f (A ++ R)) as [k| |] eqn:Ek; cbn [rbind] in H; try discriminate.
  destruct (Z.leb_spec k 0) as [Hk|Hk].
  - assert (len A = 0) by congruence. destruct A; [|rewrite len_cons in *; pose proof (len_nonneg A); lia].
    cbn [app]. rewrite Hs. cbn [rbind]. reflexivity.
  - destruct (rep f fuel (skipz k (A ++ R))) as [m| |] eqn:Er; cbn [rbind] in H; try discriminate.
    assert (Hm : len A = k + m) by congruence. pose proof (rep_nonneg f Hn _ _ _ Er) as Hm0.
    rewrite (Hl A R k HR Ek) by lia. cbn [rbind]. replace (k <=? 0) with false by lia.
    rewrite skipz_app_le in * by lia.
    rewrite (IH (skipz k A) R HR) with (fuel' := fuel').
    + cbn [rbind]. rewrite len_skipz by lia. f_equal. lia.
    + rewrite len_skipz by lia. rewrite Er. f_equal. lia.
    + pose proof (length_skipz_lt k A Hk). destruct A; [change (len (@nil Z)) with 0 in *; lia|].
      specialize (H0 ltac:(discriminate)). lia.
Qed.

(* the loop stopped somewhere inside A or at its end *)
Lemma rep_restrict_part f : local f -> stops f -> nonneg f ->
  forall fuel A R m, R <> [] -> rep f fuel (A ++ R) = Ok m -> m <= len A ->
  forall fuel', (length A < fuel')%nat -> rep f fuel' (A ++ [0]) = Ok m.
Proof.
  intros Hl Hs Hn. induction fuel as [|fuel IH]; intros A R m HR H Hm fuel' Hf; [discriminate|].
  destruct fuel' as [|fuel']; [lia|]. cbn [rep] in *.
  destruct (f (A ++ R)) as [k| |] eqn:Ek; cbn [rbind] in H; try discriminate.
  pose proof (Hn _ _ Ek) as Hk0.
  destruct (Z.leb_spec k 0) as [Hk|Hk].
  - assert (k = 0) by lia. subst k. rewrite (Hs A R Ek). cbn [rbind]. assumption.
  - destruct (rep f fuel (skipz k (A ++ R))) as [m'| |] eqn:Er; cbn [rbind] in H; try discriminate.
    assert (Hmm : m = k + m') by congruence. pose proof (rep_nonneg f Hn _ _ _ Er) as Hm0.
    rewrite (Hl A R k HR Ek) by lia. cbn [rbind]. replace (k <=? 0) with false by lia.
    rewrite skipz_app_le in * by lia.
    rewrite (IH (skipz k A) R m' HR) with (fuel' := fuel').
    + cbn [rbind]. f_equal. lia.
    + assumption.
    + rewrite len_skipz by lia. lia.
    + pose proof (length_skipz_lt k A Hk). destruct A; [change (len (@nil Z)) with 0 in *; lia|].
      specialize (H0 ltac:(discriminate)). lia.
Qed.

(* --- PeekRune ------------------------------------------------------------------------------------ *)
(* a rune that lies inside A decodes the same whatever follows *)
Lemma peek_rune_local A R r n : peek_rune (A ++ R) = Ok (r, n) -> n <= len A -> R <> [] ->
  peek_rune (A ++ [0]) = Ok (r, n).
Proof.
  intros H Hn HR. unfold peek_rune in *.
  assert (HlenR : 1 <= len R) by (destruct R; [congruence|rewrite len_cons; pose proof (len_nonneg R); lia]).
  rewrite len_app in *. change (len [0]) with 1.
  destruct A as [|c A]. { exfalso. rewrite len_nil in Hn. crunch H; injection H as _ <-; lia. }
  cbn [app] in *. rewrite pkl_cons_0 in H |- *. cbn [rbind] in *. rewrite len_cons in *.
  pose proof (len_nonneg A) as HA.
  destruct (c <? 192); [assumption|].
  destruct (Z.ltb_spec (1 + len A + len R - 1) 2) as [H2|H2].
  - replace (1 + len A + 1 - 1 <? 2) with true by lia. assumption.
  - destruct ((c <? 224) || (1 + len A + len R - 1 <? 3)) eqn:E3.
    + destruct (pkl (c :: A ++ R) 1) as [c1| |] eqn:E1; cbn [rbind] in H; try discriminate.
      assert (n = 2) by congruence. subst n.
      replace (1 + len A + 1 - 1 <? 2) with false by lia.
      replace ((c <? 224) || (1 + len A + 1 - 1 <? 3)) with true by lia.
      change (c :: A ++ R) with ((c :: A) ++ R) in E1. change (c :: A ++ [0]) with ((c :: A) ++ [0]).
      rewrite (pkl_pre _ _ _ _ E1) by (rewrite len_cons; lia). exact H.
    + destruct ((c <? 240) || (1 + len A + len R - 1 <? 4)) eqn:E4.
      * destruct (pkl (c :: A ++ R) 1) as [c1| |] eqn:E1; cbn [rbind] in H; try discriminate.
        destruct (pkl (c :: A ++ R) 2) as [c2| |] eqn:E2; cbn [rbind] in H; try discriminate.
        assert (n = 3) by congruence. subst n.
        replace (1 + len A + 1 - 1 <? 2) with false by lia.
        replace ((c <? 224) || (1 + len A + 1 - 1 <? 3)) with false by lia.
        replace ((c <? 240) || (1 + len A + 1 - 1 <? 4)) with true by lia.
        change (c :: A ++ R) with ((c :: A) ++ R) in E1, E2. change (c :: A ++ [0]) with ((c :: A) ++ [0]).
        rewrite (pkl_pre _ _ _ _ E1), (pkl_pre _ _ _ _ E2) by (rewrite len_cons; lia). exact H.
      * destruct (pkl (c :: A ++ R) 1) as [c1| |] eqn:E1; cbn [rbind] in H; try discriminate.
        destruct (pkl (c :: A ++ R) 2) as [c2| |] eqn:E2; cbn [rbind] in H; try discriminate.
        destruct (pkl (c :: A ++ R) 3) as [c3| |] eqn:E5; cbn [rbind] in H; try discriminate.
        assert (n = 4) by congruence. subst n.
        replace (1 + len A + 1 - 1 <? 2) with false by lia.
        replace ((c <? 224) || (1 + len A + 1 - 1 <? 3)) with false by lia.
        replace ((c <? 240) || (1 + len A + 1 - 1 <? 4)) with false by lia.
        change (c :: A ++ R) with ((c :: A) ++ R) in E1, E2, E5. change (c :: A ++ [0]) with ((c :: A) ++ [0]).
        rewrite (pkl_pre _ _ _ _ E1), (pkl_pre _ _ _ _ E2), (pkl_pre _ _ _ _ E5) by (rewrite len_cons; lia). exact H.
Qed.

(* --- step functions -------------------------------------------------------------------------------- *)
Lemma nonempty_len {A} (l : list A) : l <> [] -> 1 <= len l.
Proof. destruct l; [congruence|]. rewrite len_cons. pose proof (len_nonneg l). lia. Qed.

Lemma len_pos_nonempty {A} (l : list A) : 0 < len l -> l <> [].
Proof. destruct l; [intros H; change (len (@nil A)) with 0 in H; lia|discriminate]. Qed.

Lemma peek_rune_pos l r n : peek_rune l = Ok (r, n) -> 1 <= n <= 4.
Proof. intros H. unfold peek_rune in H. crunch H; injection H as _ <-; lia. Qed.

Section Steps.
Variables (id_start id_cont is_zs : Z -> bool).

Lemma ws1_local : local (ws1 is_zs).
Proof.
  intros A R k HR H Hk. unfold ws1 in *.
  destruct A as [|c A]; [change (len (@nil Z)) with 0 in Hk; lia|]. cbn [app] in *. rewrite pkl_cons_0 in H |- *. cbn [rbind] in *.
  destruct ((c =? 32) || (c =? 9) || (c =? 11) || (c =? 12)); [assumption|].
  destruct (192 <=? c); [|congruence].
  destruct (peek_rune (c :: A ++ R)) as [[r n]| |] eqn:Er; cbn [rbind] in H; try discriminate.
  destruct ((r =? 160) || (r =? 65279) || is_zs r) eqn:Ez; [|assert (k = 0) by congruence; lia].
  assert (n = k) by congruence. subst n.
  change (c :: A ++ R) with ((c :: A) ++ R) in Er. change (c :: A ++ [0]) with ((c :: A) ++ [0]).
  rewrite (peek_rune_local _ _ _ _ Er) by (try assumption; lia).
  cbn [rbind]. rewrite Ez. reflexivity.
Qed.

Lemma ws1_stop0 : stop0 (ws1 is_zs).
Proof. reflexivity. Qed.

Lemma ws1_nonneg : nonneg (ws1 is_zs).
Proof.
  intros l k H. unfold ws1 in H. crunch H; try (injection H as <-; lia).
  apply peek_rune_pos in E0. injection H as <-. lia.
Qed.

Lemma lt1_local : local lt1.
Proof.
  intros A R k HR H Hk. unfold lt1, ls_ps in *.
  destruct A as [|c A]; [change (len (@nil Z)) with 0 in Hk; lia|]. cbn [app] in *. rewrite pkl_cons_0 in H |- *. cbn [rbind] in *.
  rewrite len_cons in Hk.
  destruct (c =? 10); [assumption|].
  destruct (c =? 13).
  - destruct A as [|c1 A]; cbn [app] in *.
    + rewrite pkl_1. cbn [rbind]. change (0 =? 10) with false. cbv iota.
      destruct R as [|r0 R]; [congruence|]. rewrite pkl_1 in H. cbn [rbind] in H.
      destruct (r0 =? 10); [|assumption]. assert (k = 2) by congruence. change (len (@nil Z)) with 0 in Hk. lia.
    + rewrite pkl_1 in *. assumption.
  - destruct (c =? 226); [|congruence].
    destruct A as [|c1 A]; cbn [app] in *.
    + rewrite pkl_1. cbn [rbind]. change (0 =? 128) with false. cbv iota. cbn [rbind].
      crunch H; assert (k = 3 \/ k = 0) as [?|?] by (injection H; lia); change (len (@nil Z)) with 0 in Hk; lia.
    + rewrite pkl_1 in *. cbn [rbind] in *. destruct (c1 =? 128); [|assumption].
      destruct A as [|c2 A]; cbn [app] in *.
      * rewrite pkl_2. cbn [rbind orb]. change (0 =? 168) with false. change (0 =? 169) with false. cbn [orb rbind].
        crunch H; assert (k = 3 \/ k = 0) as [?|?] by (injection H; lia); rewrite len_cons in Hk; change (len (@nil Z)) with 0 in Hk; lia.
      * rewrite pkl_2 in *. assumption.
Qed.

Lemma lt1_stop0 : stop0 lt1.
Proof. reflexivity. Qed.

Lemma lt1_nonneg' : nonneg lt1.
Proof. intros l k H. eapply lt1_nonneg; eassumption. Qed.

(* single-byte class steps *)
Lemma byte_local (p : Z -> bool) : local (fun l => c <-- pkl l 0 ;; Ok (if p c then 1 else 0)).
Proof.
  intros A R k HR H Hk. destruct A as [|c A]; [change (len (@nil Z)) with 0 in Hk; lia|]. cbn [app] in *. exact H.
Qed.

Lemma byte_stops (p : Z -> bool) : p 0 = false -> stops (fun l => c <-- pkl l 0 ;; Ok (if p c then 1 else 0)).
Proof.
  intros Hp A R H. destruct A as [|c A]; cbn [app] in *.
  - rewrite pkl_cons_0. cbn [rbind]. rewrite Hp. reflexivity.
  - exact H.
Qed.

Lemma byte_nonneg (p : Z -> bool) : nonneg (fun l => c <-- pkl l 0 ;; Ok (if p c then 1 else 0)).
Proof. intros l k H. destruct (pkl l 0); cbn [rbind] in H; try discriminate. destruct (p a); injection H as <-; lia. Qed.

Definition is_byte_step (f : list Z -> res Z) : Prop :=
  exists p, p 0 = false /\ f = (fun l => c <-- pkl l 0 ;; Ok (if p c then 1 else 0)).

Lemma digit1_bs : is_byte_step digit1.
Proof. exists (fun c => (48 <=? c) && (c <=? 57)). split; reflexivity. Qed.
Lemma hex1_bs : is_byte_step hex1.
Proof.
  exists (fun c => ((48 <=? c) && (c <=? 57)) || ((97 <=? c) && (c <=? 102)) || ((65 <=? c) && (c <=? 70))).
  split; reflexivity.
Qed.
Lemma bin1_bs : is_byte_step bin1.
Proof. exists (fun c => (c =? 48) || (c =? 49)). split; reflexivity. Qed.
Lemma oct1_bs : is_byte_step oct1.
Proof. exists (fun c => (48 <=? c) && (c <=? 55)). split; reflexivity. Qed.

Lemma bs_local f : is_byte_step f -> local f.
Proof. intros (p & _ & ->). apply byte_local. Qed.
Lemma bs_stops f : is_byte_step f -> stops f.
Proof. intros (p & Hp & ->). apply byte_stops. assumption. Qed.
Lemma bs_nonneg f : is_byte_step f -> nonneg f.
Proof. intros (p & _ & ->). apply byte_nonneg. Qed.
Lemma bs_bit f : is_byte_step f -> bit_step f.
Proof. intros (p & _ & ->). apply byte_step_bit. Qed.
Lemma bs_head f c t t' : is_byte_step f -> f (c :: t) = f (c :: t').
Proof. intros (p & _ & ->). reflexivity. Qed.
Lemma bs_zero f t : is_byte_step f -> f (0 :: t) = Ok 0.
Proof. intros (p & Hp & ->). rewrite pkl_cons_0. cbn [rbind]. rewrite Hp. reflexivity. Qed.

(* digit, or '_' digit *)
Lemma dos_local f : is_byte_step f -> local (dig_or_sep f).
Proof.
  intros Hf A R k HR H Hk. unfold dig_or_sep, num_sep in *.
  destruct A as [|c A]; [change (len (@nil Z)) with 0 in Hk; lia|]. cbn [app] in *. rewrite len_cons in Hk.
  rewrite (bs_head f c (A ++ [0]) (A ++ R) Hf).
  destruct (f (c :: A ++ R)) as [n| |] eqn:En; cbn [rbind] in *; try discriminate.
  destruct (0 <? n); [assumption|].
  rewrite pkl_cons_0 in H |- *. cbn [rbind] in *. destruct (negb (c =? 95)); [assumption|].
  rewrite skipz_1_cons in *.
  destruct A as [|c1 A]; cbn [app] in *.
  - exfalso. destruct (f R) as [n1| |] eqn:E1; cbn [rbind] in H; try discriminate.
    pose proof (bs_bit f Hf _ _ E1). change (len (@nil Z)) with 0 in Hk.
    destruct (Z.leb_spec n1 0); [assert (k = 0) by congruence|assert (k = 1 + n1) by congruence]; lia.
  - rewrite (bs_head f c1 (A ++ [0]) (A ++ R) Hf). assumption.
Qed.

Lemma dos_stops f : is_byte_step f -> stops (dig_or_sep f).
Proof.
  intros Hf A R H. unfold dig_or_sep, num_sep in *.
  destruct A as [|c A]; cbn [app] in *.
  - rewrite (bs_zero f _ Hf). cbn [rbind]. reflexivity.
  - rewrite (bs_head f c (A ++ [0]) (A ++ R) Hf).
    destruct (f (c :: A ++ R)) as [n| |] eqn:En; cbn [rbind] in *; try discriminate.
    destruct (0 <? n); [assumption|].
    rewrite pkl_cons_0 in H |- *. cbn [rbind] in *. destruct (negb (c =? 95)); [assumption|].
    rewrite skipz_1_cons in *.
    destruct A as [|c1 A]; cbn [app] in *.
    + rewrite (bs_zero f _ Hf). cbn [rbind]. reflexivity.
    + rewrite (bs_head f c1 (A ++ [0]) (A ++ R) Hf). assumption.
Qed.

Lemma dos_nonneg f : is_byte_step f -> nonneg (dig_or_sep f).
Proof.
  intros Hf l k H. unfold dig_or_sep, num_sep in H. pose proof (bs_bit f Hf) as Hb.
  destruct (f l) as [n| |] eqn:En; cbn [rbind] in H; try discriminate.
  pose proof (Hb _ _ En).
  destruct (0 <? n); [assert (k = n) by congruence; lia|].
  destruct (pkl l 0); cbn [rbind] in H; try discriminate.
  destruct (negb (a =? 95)); [assert (k = 0) by congruence; lia|].
  destruct (f (skipz 1 l)) as [n1| |] eqn:E1; cbn [rbind] in H; try discriminate.
  pose proof (Hb _ _ E1). destruct (n1 <=? 0); [assert (k = 0) by congruence|assert (k = 1 + n1) by congruence]; lia.
Qed.

End Steps.

(* transfer a peek inside A from A ++ R to A ++ [0] and rewrite the goal with it *)
Ltac xfer E :=
  match type of E with
  | pkl (?A ++ ?R) ?i = Ok ?c =>
      let H := fresh "X" in
      assert (H : pkl (A ++ [0]) i = Ok c) by (apply (pkl_pre A R i c E); lia);
      rewrite H; cbn [rbind]
  end.

Section Steps2.
Variables (id_start id_cont is_zs : Z -> bool).

Lemma hex1_nonneg : nonneg hex1. Proof. apply bs_nonneg, hex1_bs. Qed.

Lemma uesc_local : local uesc.
Proof.
  intros A R k HR H Hk. unfold uesc in H. 
  destruct (pkl (A ++ R) 0) as [c0| |] eqn:E0; cbn [rbind] in H; try discriminate.
  destruct (negb (c0 =? 92)) eqn:N0; [assert (k = 0) by congruence; lia|].
  destruct (pkl (A ++ R) 1) as [c1| |] eqn:E1; cbn [rbind] in H; try discriminate.
  destruct (negb (c1 =? 117)) eqn:N1; [assert (k = 0) by congruence; lia|].
  rewrite pkl_skipz in H by lia.
  destruct (pkl (A ++ R) (2 + 0)) as [c2| |] eqn:E2; cbn [rbind] in H; try discriminate.
  pose proof (len_nonneg A) as HA.
  destruct (c2 =? 123) eqn:B2.
  - rewrite !skipz_skipz in H by lia. 
    destruct (hex1 (skipz (2 + 1) (A ++ R))) as [h| |] eqn:Eh; cbn [rbind] in H; try discriminate.
    destruct (0 <? h) eqn:Bh; [|assert (k = 0) by congruence; lia].
    destruct (repl hex1 (skipz (2 + 1 + 1) (A ++ R))) as [m| |] eqn:Em; cbn [rbind] in H; try discriminate.
    pose proof (rep_nonneg hex1 hex1_nonneg _ _ _ Em) as Hm0.
    rewrite !pkl_skipz in H by lia.
    match type of H with context [pkl (A ++ R) ?i] =>
      destruct (pkl (A ++ R) i) as [c3| |] eqn:E3; cbn [rbind] in H; try discriminate end.
    destruct (c3 =? 125) eqn:B3; [|assert (k = 0) by congruence; lia].
    assert (Hk5 : k = 2 + 1 + 1 + m + 1) by congruence.
    unfold uesc. xfer E0. rewrite N0. xfer E1. rewrite N1. rewrite pkl_skipz by lia. xfer E2. rewrite B2.
    rewrite !skipz_skipz by lia.
    rewrite skipz_app_le in Eh by lia. rewrite skipz_app_le by lia.
    pose proof (bs_bit hex1 hex1_bs _ _ Eh) as Hh.
    rewrite (bs_local hex1 hex1_bs _ _ _ HR Eh) by (rewrite len_skipz by lia; lia). cbn [rbind]. rewrite Bh.
    rewrite skipz_app_le by lia. unfold repl in *. rewrite skipz_app_le in Em by lia.
    rewrite (rep_restrict_part hex1 (bs_local _ hex1_bs) (bs_stops _ hex1_bs) hex1_nonneg _ _ _ _ HR Em).
    + cbn [rbind]. rewrite <- skipz_app_le by lia. rewrite !pkl_skipz by lia. xfer E3. rewrite B3. f_equal. lia.
    + rewrite len_skipz by lia. lia.
    + rewrite app_length. cbn [length]. lia.
  - destruct (hex1 (skipz 2 (A ++ R))) as [h1| |] eqn:Eh1; cbn [rbind] in H; try discriminate.
    destruct (h1 =? 0) eqn:B1; [assert (k = 0) by congruence; lia|].
    rewrite !skipz_skipz in H by lia.
    destruct (hex1 (skipz (2 + 1) (A ++ R))) as [h2| |] eqn:Eh2; cbn [rbind] in H; try discriminate.
    destruct (h2 =? 0) eqn:B2'; [assert (k = 0) by congruence; lia|].
    destruct (hex1 (skipz (2 + 2) (A ++ R))) as [h3| |] eqn:Eh3; cbn [rbind] in H; try discriminate.
    destruct (h3 =? 0) eqn:B3'; [assert (k = 0) by congruence; lia|].
    destruct (hex1 (skipz (2 + 3) (A ++ R))) as [h4| |] eqn:Eh4; cbn [rbind] in H; try discriminate.
    destruct (h4 =? 0) eqn:B4'; [assert (k = 0) by congruence; lia|].
    assert (k = 6) by congruence. subst k.
    pose proof (bs_bit hex1 hex1_bs _ _ Eh1). pose proof (bs_bit hex1 hex1_bs _ _ Eh2).
    pose proof (bs_bit hex1 hex1_bs _ _ Eh3). pose proof (bs_bit hex1 hex1_bs _ _ Eh4).
    unfold uesc. xfer E0. rewrite N0. xfer E1. rewrite N1. rewrite pkl_skipz by lia. xfer E2. rewrite B2.
    rewrite !skipz_skipz by lia.
    rewrite skipz_app_le in Eh1, Eh2, Eh3, Eh4 by lia. rewrite !skipz_app_le by lia.
    rewrite (bs_local hex1 hex1_bs _ _ _ HR Eh1) by (rewrite len_skipz by lia; lia). cbn [rbind]. rewrite B1.
    rewrite (bs_local hex1 hex1_bs _ _ _ HR Eh2) by (rewrite len_skipz by lia; lia). cbn [rbind]. rewrite B2'.
    rewrite (bs_local hex1 hex1_bs _ _ _ HR Eh3) by (rewrite len_skipz by lia; lia). cbn [rbind]. rewrite B3'.
    rewrite (bs_local hex1 hex1_bs _ _ _ HR Eh4) by (rewrite len_skipz by lia; lia). cbn [rbind]. rewrite B4'.
    reflexivity.
Qed.

Lemma uesc_zero t : uesc (0 :: t) = Ok 0.
Proof. reflexivity. Qed.

Lemma uesc_nonneg : nonneg uesc.
Proof.
  intros l k H. destruct (Z.le_gt_cases 0 k); [assumption|]. exfalso.
  unfold uesc in H. crunch H; try (injection H as <-; lia).
  pose proof (rep_nonneg hex1 hex1_nonneg _ _ _ E3). assert (k = 2 + 1 + 1 + a3 + 1) by congruence. lia.
Qed.

Lemma tab_start_0 : tab_start 0 = false. Proof. reflexivity. Qed.
Lemma tab_cont_0 : tab_cont 0 = false. Proof. reflexivity. Qed.

Lemma ident_start_local : local (ident_start id_start).
Proof.
  intros A R k HR H Hk. unfold ident_start in *.
  destruct A as [|c A]; [change (len (@nil Z)) with 0 in Hk; lia|]. cbn [app] in *.
  rewrite pkl_cons_0 in H |- *. cbn [rbind] in *.
  destruct (tab_start c); [assumption|].
  destruct (192 <=? c).
  - destruct (peek_rune (c :: A ++ R)) as [[r n]| |] eqn:Er; cbn [rbind] in H; try discriminate.
    destruct (id_start r) eqn:Ez; [|assert (k = 0) by congruence; lia].
    assert (n = k) by congruence. subst n.
    change (c :: A ++ R) with ((c :: A) ++ R) in Er. change (c :: A ++ [0]) with ((c :: A) ++ [0]).
    rewrite (peek_rune_local _ _ _ _ Er) by (try assumption; lia).
    cbn [rbind]. rewrite Ez. reflexivity.
  - change (c :: A ++ [0]) with ((c :: A) ++ [0]). change (c :: A ++ R) with ((c :: A) ++ R) in H.
    eapply uesc_local; eassumption.
Qed.

Lemma ident_cont1_local : local (ident_cont1 id_cont).
Proof.
  intros A R k HR H Hk. unfold ident_cont1 in *.
  destruct A as [|c A]; [change (len (@nil Z)) with 0 in Hk; lia|]. cbn [app] in *.
  rewrite pkl_cons_0 in H |- *. cbn [rbind] in *.
  destruct (tab_cont c); [assumption|].
  destruct (192 <=? c).
  - destruct (peek_rune (c :: A ++ R)) as [[r n]| |] eqn:Er; cbn [rbind] in H; try discriminate.
    destruct ((r =? 8204) || (r =? 8205) || id_cont r) eqn:Ez; [|assert (k = 0) by congruence; lia].
    assert (n = k) by congruence. subst n.
    change (c :: A ++ R) with ((c :: A) ++ R) in Er. change (c :: A ++ [0]) with ((c :: A) ++ [0]).
    rewrite (peek_rune_local _ _ _ _ Er) by (try assumption; lia).
    cbn [rbind]. rewrite Ez. reflexivity.
  - change (c :: A ++ [0]) with ((c :: A) ++ [0]). change (c :: A ++ R) with ((c :: A) ++ R) in H.
    eapply uesc_local; eassumption.
Qed.

Lemma ident_cont1_stop0 : stop0 (ident_cont1 id_cont).
Proof. reflexivity. Qed.

Lemma ident_cont1_nonneg : nonneg (ident_cont1 id_cont).
Proof.
  intros l k H. unfold ident_cont1 in H. crunch H; try (injection H as <-; lia).
  - apply peek_rune_pos in E0. injection H as <-. lia.
  - eapply uesc_nonneg; eassumption.
Qed.

Lemma ident_start_nonneg : nonneg (ident_start id_start).
Proof.
  intros l k H. unfold ident_start in H. crunch H; try (injection H as <-; lia).
  - apply peek_rune_pos in E0. injection H as <-. lia.
  - eapply uesc_nonneg; eassumption.
Qed.

(* consumeIdentifierToken *)
Lemma ident_restrict T R : R <> [] -> ident id_start id_cont (T ++ R) = Ok (len T) -> 0 < len T ->
  ident id_start id_cont (T ++ [0]) = Ok (len T).
Proof.
  intros HR H HT. unfold ident in *.
  destruct (ident_start id_start (T ++ R)) as [n| |] eqn:En; cbn [rbind] in H; try discriminate.
  pose proof (ident_start_nonneg _ _ En) as Hn0.
  destruct (Z.leb_spec n 0) as [Hn|Hn]; [assert (len T = 0) by congruence; lia|].
  destruct (repl (ident_cont1 id_cont) (skipz n (T ++ R))) as [m| |] eqn:Em; cbn [rbind] in H; try discriminate.
  assert (Hlen : len T = n + m) by congruence.
  pose proof (rep_nonneg _ ident_cont1_nonneg _ _ _ Em) as Hm0.
  rewrite (ident_start_local T R n HR En) by lia. cbn [rbind]. replace (n <=? 0) with false by lia.
  unfold repl in *. rewrite skipz_app_le in * by lia.
  assert (Hm : m = len (skipz n T)) by (rewrite len_skipz by lia; lia).
  rewrite Hm in Em.
  rewrite (rep_restrict_all _ ident_cont1_local ident_cont1_stop0 ident_cont1_nonneg _ _ _ HR Em).
  - cbn [rbind]. f_equal. lia.
  - rewrite app_length. cbn [length]. lia.
Qed.

End Steps2.

(* --- closed tokens: strings, templates, multi-line comments --------------------------------------- *)
Lemma lt1_stops : stops lt1.
Proof.
  intros A R H. unfold lt1, ls_ps in *.
  destruct A as [|c A]; [reflexivity|]. cbn [app] in *. rewrite pkl_cons_0 in H |- *. cbn [rbind] in *.
  destruct (c =? 10); [assumption|].
  destruct (c =? 13).
  { destruct (pkl (c :: A ++ R) 1); cbn [rbind] in H; try discriminate. destruct (a =? 10); discriminate. }
  destruct (c =? 226); [|assumption].
  destruct A as [|c1 A]; cbn [app] in *; [reflexivity|].
  rewrite pkl_1 in H |- *. cbn [rbind] in *. destruct (c1 =? 128); [|assumption].
  destruct A as [|c2 A]; cbn [app] in *; [reflexivity|].
  rewrite pkl_2 in H |- *. assumption.
Qed.

Lemma at_endl_app2 c c' T X : at_endl (c :: c' :: T ++ X) = false.
Proof. reflexivity. Qed.

Lemma str_loop_pos d : forall fuel l n ok, str_loop d fuel l = Ok (n, ok) -> 0 <= n /\ (ok = true -> 1 <= n).
Proof.
  induction fuel as [|fuel IH]; intros l n ok H; [discriminate|]. cbn [str_loop] in H. crunch H.
  - injection H as <- <-. lia.
  - assert (Ha1 : 0 <= a1).
    { destruct (0 <? a0) eqn:B0; [assert (a1 = a0) by congruence; lia|]. crunch E1.
      destruct (_ || _); injection E1 as <-; lia. }
    destruct (IH _ _ _ E2).
    assert (n = 1 + a1 + z) by congruence. assert (ok = b) by congruence. subst. lia.
  - injection H as <- <-. split; [lia|discriminate].
  - destruct (IH _ _ _ E0). assert (n = 1 + z) by congruence. assert (ok = b) by congruence. subst. lia.
Qed.

Lemma str_loop_restrict d : forall fuel T R n, R <> [] ->
  str_loop d fuel (T ++ R) = Ok (n, true) -> n = len T ->
  forall fuel', (length T < fuel')%nat -> str_loop d fuel' (T ++ [0]) = Ok (n, true).
Proof.
  induction fuel as [|fuel IH]; intros T R n HR H Hn fuel' Hf; [discriminate|].
  destruct fuel' as [|fuel']; [lia|].
  destruct (str_loop_pos _ _ _ _ _ H) as (_ & Hpos). specialize (Hpos eq_refl).
  destruct T as [|c T]; [change (len (@nil Z)) with 0 in Hn; lia|].
  cbn [str_loop app] in *. rewrite pkl_cons_0 in H |- *. cbn [rbind] in *. rewrite len_cons in Hn.
  destruct (c =? d); [assumption|].
  destruct (c =? 92).
  - rewrite skipz_1_cons in H |- *.
    destruct (lt1 (T ++ R)) as [t| |] eqn:Et; cbn [rbind] in H; try discriminate.
    pose proof (lt1_nonneg _ _ Et) as Ht0.
    match type of H with rbind ?e _ = _ => destruct e as [k| |] eqn:Ek; cbn [rbind] in H; try discriminate end.
    destruct (str_loop d fuel (skipz (1 + k) (c :: T ++ R))) as [[n' ok']| |] eqn:Er; cbn [rbind] in H; try discriminate.
    assert (n = 1 + k + n' /\ ok' = true) as (Hn' & ->) by (split; congruence).
    destruct (str_loop_pos _ _ _ _ _ Er) as (_ & Hp'). specialize (Hp' eq_refl).
    assert (Hk0 : 0 <= k).
    { destruct (0 <? t); [assert (k = t) by congruence; lia|]. crunch Ek. destruct (_ || _); injection Ek as <-; lia. }
    (* the escape and what it covers lie inside T *)
    assert (Ek' : (if 0 <? t then Ok t else c' <-- pkl (T ++ [0]) 0;; Ok (if (c' =? d) || (c' =? 92) then 1 else 0)) = Ok k).
    { destruct (0 <? t); [assumption|].
      destruct T as [|c1 T]; [change (len (@nil Z)) with 0 in Hn; lia|]. cbn [app] in *. exact Ek. }
    assert (Et' : lt1 (T ++ [0]) = Ok t).
    { destruct (Z.ltb_spec 0 t) as [Ht|Ht].
      - apply (lt1_local T R t HR Et). assert (k = t) by congruence. lia.
      - assert (t = 0) by lia. subst t. apply (lt1_stops T R Et). }
    rewrite Et'. cbn [rbind]. rewrite Ek'. cbn [rbind].
    change (c :: T ++ R) with ((c :: T) ++ R) in Er. change (c :: T ++ [0]) with ((c :: T) ++ [0]).
    rewrite skipz_app_le in Er |- * by (rewrite len_cons; lia).
    rewrite (IH _ _ _ HR Er).
    + cbn [rbind]. rewrite Hn'. reflexivity.
    + rewrite len_skipz by (rewrite len_cons; lia). rewrite len_cons. lia.
    + pose proof (length_skipz_lt (1 + k) (c :: T) ltac:(lia) ltac:(discriminate)). cbn [length] in *. lia.
  - destruct ((c =? 10) || (c =? 13)) eqn:Ecr; cbn [orb] in *; [discriminate|].
    rewrite skipz_1_cons in H |- *.
    destruct T as [|c1 T].
    + (* c would be the last byte of the token, but it is not the delimiter *)
      exfalso. destruct ((c =? 0) && at_endl (c :: [] ++ R)); [discriminate|].
      destruct (str_loop d fuel ([] ++ R)) as [[n' ok']| |] eqn:Er; cbn [rbind] in H; try discriminate.
      assert (n = 1 + n' /\ ok' = true) as (Hn' & ->) by (split; congruence).
      destruct (str_loop_pos _ _ _ _ _ Er) as (_ & Hp'). specialize (Hp' eq_refl).
      change (len (@nil Z)) with 0 in Hn. lia.
    + cbn [app] in *. rewrite at_endl_app2 in H |- *. rewrite andb_false_r in H |- *.
      destruct (str_loop d fuel (c1 :: T ++ R)) as [[n' ok']| |] eqn:Er; cbn [rbind] in H; try discriminate.
      assert (n = 1 + n' /\ ok' = true) as (Hn' & ->) by (split; congruence).
      change (c1 :: T ++ R) with ((c1 :: T) ++ R) in Er. change (c1 :: T ++ [0]) with ((c1 :: T) ++ [0]).
      rewrite (IH _ _ _ HR Er).
      * cbn [rbind]. rewrite Hn'. reflexivity.
      * lia.
      * cbn [length] in *. lia.
Qed.

Lemma string_tok_restrict T R n ty e : R <> [] -> string_tok (T ++ R) = Ok (n, ty, e) -> n = len T ->
  ty <> ErrorToken -> string_tok (T ++ [0]) = Ok (n, ty, e).
Proof.
  intros HR H Hn Hty. unfold string_tok in *.
  destruct T as [|c T].
  { exfalso. change (len (@nil Z)) with 0 in Hn. crunch H; try congruence.
    destruct (str_loop_pos _ _ _ _ _ E0) as (Hp & _). assert (n = 1 + z) by congruence. lia. }
  cbn [app] in *. rewrite pkl_cons_0 in H |- *. cbn [rbind] in *. rewrite skipz_1_cons in H |- *.
  destruct (str_loop c (length (c :: T ++ R)) (T ++ R)) as [[n' ok]| |] eqn:Er; cbn [rbind] in H; try discriminate.
  destruct ok; [|exfalso; apply Hty; congruence].
  rewrite len_cons in Hn. assert (n = 1 + n') by congruence.
  rewrite (str_loop_restrict c _ _ _ _ HR Er); [exact H|lia|cbn [length]; rewrite app_length; cbn [length]; lia].
Qed.

Lemma tpl_loop_pos : forall fuel l n o, tpl_loop fuel l = Ok (n, o) -> 0 <= n /\ (o <> 2 -> 1 <= n).
Proof.
  induction fuel as [|fuel IH]; intros l n o H; [discriminate|]. cbn [tpl_loop] in H. crunch H;
    try (injection H as <- <-; split; [lia|try lia; congruence]);
    match goal with
    | Er : tpl_loop fuel _ = Ok (?z, ?z0), H : Ok (?k + ?z, ?z0) = Ok (n, o) |- _ =>
        destruct (IH _ _ _ Er); assert (n = k + z /\ o = z0) as (-> & ->) by (split; congruence);
        repeat match goal with |- context [if ?b then _ else _] => destruct b end; lia
    end.
Qed.

Lemma tpl_loop_restrict : forall fuel T R n o, R <> [] ->
  tpl_loop fuel (T ++ R) = Ok (n, o) -> n = len T -> o <> 2 ->
  forall fuel', (length T < fuel')%nat -> tpl_loop fuel' (T ++ [0]) = Ok (n, o).
Proof.
  induction fuel as [|fuel IH]; intros T R n o HR H Hn Ho fuel' Hf; [discriminate|].
  destruct fuel' as [|fuel']; [lia|].
  destruct (tpl_loop_pos _ _ _ _ H) as (_ & Hpos). specialize (Hpos Ho).
  destruct T as [|c T]; [change (len (@nil Z)) with 0 in Hn; lia|].
  cbn [tpl_loop app] in *. rewrite pkl_cons_0 in H |- *. cbn [rbind] in *. rewrite len_cons in Hn.
  destruct (c =? 96); [assumption|].
  (* a byte that is not the closing backtick is not the last byte of the token *)
  destruct T as [|c1 T].
  { exfalso. cbn [app] in H. destruct R as [|r0 R]; [congruence|]. rewrite pkl_1 in H.
    change (len (@nil Z)) with 0 in Hn.
    destruct (c =? 36).
    - cbn [rbind] in H. destruct (r0 =? 123); [assert (n = 2) by congruence; lia|].
      destruct (c =? 92).
      + crunch H. destruct (tpl_loop_pos _ _ _ _ E0) as (Hp & Hp2). assert (o = z0) by congruence. subst z0.
        specialize (Hp2 Ho).
        assert (n = (if negb (a =? 0) then 2 else 1) + z) by congruence. destruct (negb (a =? 0)); lia.
      + destruct ((c =? 0) && at_endl (c :: r0 :: R)); [assert (o = 2) by congruence; congruence|].
        crunch H. destruct (tpl_loop_pos _ _ _ _ E) as (_ & Hp). assert (o = z0) by congruence. subst z0.
        specialize (Hp Ho). assert (n = 1 + z) by congruence. lia.
    - cbn [rbind] in H. destruct (c =? 92).
      + crunch H. destruct (tpl_loop_pos _ _ _ _ E0) as (Hp & Hp2). assert (o = z0) by congruence. subst z0.
        specialize (Hp2 Ho).
        assert (n = (if negb (a =? 0) then 2 else 1) + z) by congruence. destruct (negb (a =? 0)); lia.
      + destruct ((c =? 0) && at_endl (c :: r0 :: R)); [assert (o = 2) by congruence; congruence|].
        crunch H. destruct (tpl_loop_pos _ _ _ _ E) as (_ & Hp). assert (o = z0) by congruence. subst z0.
        specialize (Hp Ho). assert (n = 1 + z) by congruence. lia. }
  cbn [app] in *. rewrite pkl_1 in H |- *. rewrite len_cons in Hn. pose proof (len_nonneg T) as HT.
  assert (Hrec : forall k, 1 <= k <= 2 -> forall n', tpl_loop fuel (skipz k (c :: c1 :: T ++ R)) = Ok (n', o) ->
            n = k + n' -> tpl_loop fuel' (skipz k (c :: c1 :: T ++ [0])) = Ok (n', o)).
  { intros k Hk n' Er Hn'.
    change (c :: c1 :: T ++ R) with ((c :: c1 :: T) ++ R) in Er. change (c :: c1 :: T ++ [0]) with ((c :: c1 :: T) ++ [0]).
    rewrite skipz_app_le in Er |- * by (rewrite !len_cons; lia).
    apply (IH _ _ _ _ HR Er); [|assumption|].
    - rewrite len_skipz by (rewrite !len_cons; lia). rewrite !len_cons. lia.
    - pose proof (length_skipz_lt k (c :: c1 :: T) ltac:(lia) ltac:(discriminate)). cbn [length] in *. lia. }
  match type of H with rbind ?e _ = _ => destruct e as [sb| |] eqn:Es; cbn [rbind] in H; try discriminate end.
  destruct sb; [assumption|].
  destruct (c =? 92).
  - rewrite skipz_1_cons in H |- *. rewrite pkl_cons_0 in H |- *. cbn [rbind] in *.
    destruct (negb (c1 =? 0)).
    + destruct (tpl_loop fuel (skipz 2 (c :: c1 :: T ++ R))) as [[n' o']| |] eqn:Er; cbn [rbind] in H; try discriminate.
      assert (n = 2 + n' /\ o' = o) as (Hn' & ->) by (split; congruence).
      rewrite (Hrec 2 ltac:(lia) _ Er Hn'). cbn [rbind]. rewrite Hn'. reflexivity.
    + destruct (tpl_loop fuel (skipz 1 (c :: c1 :: T ++ R))) as [[n' o']| |] eqn:Er; cbn [rbind] in H; try discriminate.
      assert (n = 1 + n' /\ o' = o) as (Hn' & ->) by (split; congruence).
      rewrite (Hrec 1 ltac:(lia) _ Er Hn'). cbn [rbind]. rewrite Hn'. reflexivity.
  - rewrite at_endl_app2 in H |- *. rewrite andb_false_r in H |- *.
    destruct (tpl_loop fuel (skipz 1 (c :: c1 :: T ++ R))) as [[n' o']| |] eqn:Er; cbn [rbind] in H; try discriminate.
    assert (n = 1 + n' /\ o' = o) as (Hn' & ->) by (split; congruence).
    rewrite (Hrec 1 ltac:(lia) _ Er Hn'). cbn [rbind]. rewrite Hn'. reflexivity.
Qed.

Lemma mlc_loop_pos : forall fuel l n ok sl, mlc_loop fuel l = Ok (n, ok, sl) -> 0 <= n /\ (ok = true -> 2 <= n).
Proof.
  induction fuel as [|fuel IH]; intros l n ok sl H; [discriminate|]. cbn [mlc_loop] in H. crunch H;
    try (injection H as <- <- <-; split; [lia|try lia; congruence]);
    match goal with
    | Er : mlc_loop fuel _ = Ok (?z, ?b0, ?b1), El : lt1 _ = Ok ?t, H : Ok (?k + ?z, ?b0, _) = Ok (n, ok, sl) |- _ =>
        destruct (IH _ _ _ _ Er); pose proof (lt1_nonneg _ _ El);
        assert (n = k + z /\ ok = b0) as (-> & ->) by (split; congruence); lia
    end.
Qed.

Lemma mlc_loop_restrict : forall fuel T R n sl, R <> [] ->
  mlc_loop fuel (T ++ R) = Ok (n, true, sl) -> n = len T ->
  forall fuel', (length T < fuel')%nat -> mlc_loop fuel' (T ++ [0]) = Ok (n, true, sl).
Proof.
  induction fuel as [|fuel IH]; intros T R n sl HR H Hn fuel' Hf; [discriminate|].
  destruct fuel' as [|fuel']; [lia|].
  destruct (mlc_loop_pos _ _ _ _ _ H) as (_ & Hpos). specialize (Hpos eq_refl).
  destruct T as [|c [|c1 T]]; try (cbn in Hn; lia).
  cbn [mlc_loop app] in *. rewrite pkl_cons_0, pkl_1 in H |- *. cbn [rbind] in *. rewrite !len_cons in Hn.
  pose proof (len_nonneg T) as HT.
  match type of H with rbind ?e _ = _ => destruct e as [cl| |] eqn:Es; cbn [rbind] in H; try discriminate end.
  destruct cl; [assumption|].
  rewrite at_endl_app2 in H |- *. rewrite andb_false_r in H |- *.
  change (c :: c1 :: T ++ R) with ((c :: c1 :: T) ++ R) in H. change (c :: c1 :: T ++ [0]) with ((c :: c1 :: T) ++ [0]).
  destruct (lt1 ((c :: c1 :: T) ++ R)) as [t| |] eqn:Et; cbn [rbind] in H; try discriminate.
  pose proof (lt1_nonneg _ _ Et) as Ht0.
  assert (Hrec : forall k n' sl', 1 <= k -> mlc_loop fuel (skipz k ((c :: c1 :: T) ++ R)) = Ok (n', true, sl') ->
            n = k + n' -> mlc_loop fuel' (skipz k ((c :: c1 :: T) ++ [0])) = Ok (n', true, sl')).
  { intros k n' sl' Hk Er Hn'. destruct (mlc_loop_pos _ _ _ _ _ Er) as (_ & Hp'). specialize (Hp' eq_refl).
    rewrite skipz_app_le in Er |- * by (rewrite !len_cons; lia).
    apply (IH _ _ _ _ HR Er).
    - rewrite len_skipz by (rewrite !len_cons; lia). rewrite !len_cons. lia.
    - pose proof (length_skipz_lt k (c :: c1 :: T) ltac:(lia) ltac:(discriminate)). cbn [length] in *. lia. }
  destruct (Z.ltb_spec 0 t) as [Ht|Ht].
  - destruct (mlc_loop fuel (skipz t ((c :: c1 :: T) ++ R))) as [[[n' ok'] sl']| |] eqn:Er; cbn [rbind] in H; try discriminate.
    assert (n = t + n' /\ ok' = true /\ sl = true) as (Hn' & -> & ->) by (repeat split; congruence).
    destruct (mlc_loop_pos _ _ _ _ _ Er) as (_ & Hp'). specialize (Hp' eq_refl).
    rewrite (lt1_local _ _ _ HR Et) by (rewrite !len_cons; lia). cbn [rbind]. replace (0 <? t) with true by lia.
    rewrite (Hrec t n' sl' ltac:(lia) Er Hn'). cbn [rbind]. rewrite Hn'. reflexivity.
  - assert (t = 0) by lia. subst t. rewrite (lt1_stops _ _ Et). cbn [rbind]. change (0 <? 0) with false. cbv iota.
    destruct (mlc_loop fuel (skipz 1 ((c :: c1 :: T) ++ R))) as [[[n' ok'] sl']| |] eqn:Er; cbn [rbind] in H; try discriminate.
    assert (n = 1 + n' /\ ok' = true /\ sl = sl') as (Hn' & -> & ->) by (repeat split; congruence).
    rewrite (Hrec 1 n' sl' ltac:(lia) Er Hn'). cbn [rbind]. rewrite Hn'. reflexivity.
Qed.

(* --- single-line comments ------------------------------------------------------------------------ *)
(* no multi-byte sequence is cut off by the end of the text (true of every valid UTF-8 string) *)
Fixpoint no_trunc (l : list Z) : bool :=
  match l with
  | [] => true
  | c :: t =>
      (if c <? 192 then true else if c <? 224 then 1 <=? len t else if c <? 240 then 2 <=? len t else 3 <=? len t)
      && no_trunc t
  end.

Lemma peek_rune_len c t r n : peek_rune (c :: t) = Ok (r, n) ->
  (c < 224 -> n <= 2) /\ (c < 240 -> n <= 3) /\ n <= 4.
Proof.
  intros H. unfold peek_rune in H. rewrite pkl_cons_0 in H. cbn [rbind] in H.
  crunch H; injection H as _ <-; lia.
Qed.

Lemma slc_loop_nonneg : forall fuel l n, slc_loop fuel l = Ok n -> 0 <= n.
Proof.
  induction fuel as [|fuel IH]; intros l n H; [discriminate|]. cbn [slc_loop] in H. crunch H;
    try (injection H as <-; lia).
  specialize (IH _ _ E1). assert (n = 1 + a1) by congruence. lia.
Qed.

Lemma slc_loop_restrict : forall fuel T R, R <> [] -> no_trunc T = true ->
  slc_loop fuel (T ++ R) = Ok (len T) ->
  forall fuel', (length T < fuel')%nat -> slc_loop fuel' (T ++ [0]) = Ok (len T).
Proof.
  induction fuel as [|fuel IH]; intros T R HR Hnt H fuel' Hf; [discriminate|].
  destruct fuel' as [|fuel']; [lia|].
  destruct T as [|c T]; [reflexivity|].
  cbn [slc_loop app] in *. rewrite pkl_cons_0 in H |- *. cbn [rbind] in *. rewrite len_cons in *.
  pose proof (len_nonneg T) as HT.
  cbn [no_trunc] in Hnt. apply andb_true_iff in Hnt. destruct Hnt as (Hc & Hnt).
  destruct ((c =? 13) || (c =? 10)) eqn:Ecr; cbn [orb] in *; [assert (1 + len T = 0) by congruence; lia|].
  destruct ((c =? 0) && at_endl (c :: T ++ R)); [assert (1 + len T = 0) by congruence; lia|].
  replace ((c =? 0) && at_endl (c :: T ++ [0])) with false by (destruct T; cbn [app at_endl]; rewrite andb_false_r; reflexivity).
  match type of H with rbind ?e _ = _ => destruct e as [st| |] eqn:Es; cbn [rbind] in H; try discriminate end.
  destruct st; [assert (1 + len T = 0) by congruence; lia|].
  assert (Es' : (if 192 <=? c then ' (r, _) <-- peek_rune (c :: T ++ [0]);; Ok ((r =? 8232) || (r =? 8233)) else Ok false) = Ok false).
  { destruct (192 <=? c) eqn:E192; [|reflexivity].
    destruct (peek_rune (c :: T ++ R)) as [[r n]| |] eqn:Er; cbn [rbind] in Es; try discriminate.
    destruct (peek_rune_len _ _ _ _ Er) as (L2 & L3 & L4).
    change (c :: T ++ R) with ((c :: T) ++ R) in Er. change (c :: T ++ [0]) with ((c :: T) ++ [0]).
    rewrite (peek_rune_local _ _ _ _ Er); [exact Es| |assumption].
    rewrite len_cons. replace (c <? 192) with false in Hc by lia.
    destruct (c <? 224) eqn:E224; [lia|]. destruct (c <? 240) eqn:E240; lia. }
  rewrite Es'. cbn [rbind]. rewrite skipz_1_cons in H |- *.
  destruct (slc_loop fuel (T ++ R)) as [n'| |] eqn:Er; cbn [rbind] in H; try discriminate.
  assert (1 + n' = 1 + len T) by congruence. assert (n' = len T) by lia. subst n'.
  rewrite (IH _ _ HR Hnt Er); [reflexivity|cbn [length] in Hf; lia].
Qed.

Lemma no_trunc_skipz n T : no_trunc T = true -> 0 <= n -> no_trunc (skipz n T) = true.
Proof.
  intros H Hn. revert T H. 
  assert (G : forall k T, no_trunc T = true -> no_trunc (skipn k T) = true).
  { induction k as [|k IH]; intros T H; [assumption|]. destruct T as [|c T]; [reflexivity|].
    cbn [skipn]. apply IH. cbn [no_trunc] in H. apply andb_true_iff in H. apply H. }
  intros T H. apply G. assumption.
Qed.

Lemma slc_restrict T R : R <> [] -> no_trunc T = true -> slc (T ++ R) = Ok (len T) -> slc (T ++ [0]) = Ok (len T).
Proof.
  intros HR Hnt H. unfold slc in *. apply (slc_loop_restrict _ _ _ HR Hnt H).
  rewrite app_length. cbn [length]. lia.
Qed.

(* --- operators -------------------------------------------------------------------------------------- *)
Ltac pick :=
  match goal with
  | |- context [if ?b then _ else _] =>
      let E := fresh "Ep" in destruct b eqn:E; [try (exfalso; lia)|try (exfalso; lia)]
  end.

Lemma op_restrict T R ty : R <> [] -> op (T ++ R) = Ok (len T, ty) -> op (T ++ [0]) = Ok (len T, ty).
Proof.
  intros HR H. destruct R as [|r0 R]; [congruence|]. clear HR.
  destruct T as [|t0 [|t1 [|t2 [|t3 [|t4 T]]]]]; cbn [app] in *; rewrite ?len_cons in *;
    change (len (@nil Z)) with 0 in *; unfold op in H;
    rewrite ?pkl_cons_0, ?pkl_1, ?pkl_2, ?pkl_3 in H; cbn [rbind] in H.
  - crunch H; exfalso; match type of H with Ok (?a, _) = Ok (?b, _) => assert (a = b) by congruence; lia end.
  - crunch H; try (exfalso; match type of H with Ok (?a, _) = Ok (?b, _) => assert (a = b) by congruence; lia end);
      unfold op; rewrite ?pkl_cons_0, ?pkl_1; cbn [rbind]; repeat (pick; cbn [rbind]); congruence.
  - crunch H; try (exfalso; match type of H with Ok (?a, _) = Ok (?b, _) => assert (a = b) by congruence; lia end);
      unfold op; rewrite ?pkl_cons_0, ?pkl_1, ?pkl_2; cbn [rbind]; repeat (pick; cbn [rbind]); congruence.
  - crunch H; try (exfalso; match type of H with Ok (?a, _) = Ok (?b, _) => assert (a = b) by congruence; lia end);
      unfold op; rewrite ?pkl_cons_0, ?pkl_1, ?pkl_2, ?pkl_3; cbn [rbind]; repeat (pick; cbn [rbind]); congruence.
  - crunch H; try (exfalso; match type of H with Ok (?a, _) = Ok (?b, _) => assert (a = b) by congruence; lia end);
      unfold op; rewrite ?pkl_cons_0, ?pkl_1, ?pkl_2, ?pkl_3; cbn [rbind]; repeat (pick; cbn [rbind]); congruence.
  - pose proof (len_nonneg T). crunch H; exfalso; match type of H with Ok (?a, _) = Ok (?b, _) => assert (a = b) by congruence; lia end.
Qed.

(* --- numeric literals ---------------------------------------------------------------------------- *)
Lemma dos_stop0 f : is_byte_step f -> stop0 (dig_or_sep f).
Proof. intros Hf. unfold stop0, dig_or_sep, num_sep. rewrite (bs_zero f _ Hf). reflexivity. Qed.

(* the digit loop consumed the rest of T *)
Lemma dos_loop_all f T R k : is_byte_step f -> R <> [] -> 0 <= k <= len T ->
  repl (dig_or_sep f) (skipz k (T ++ R)) = Ok (len T - k) ->
  repl (dig_or_sep f) (skipz k (T ++ [0])) = Ok (len T - k).
Proof.
  intros Hf HR Hk H. unfold repl in *. rewrite skipz_app_le in * by lia.
  replace (len T - k) with (len (skipz k T)) in * by (rewrite len_skipz by lia; reflexivity).
  apply (rep_restrict_all _ (dos_local f Hf) (dos_stop0 f Hf) (dos_nonneg f Hf) _ _ _ HR H).
  rewrite app_length. cbn [length]. lia.
Qed.

(* the digit loop stopped inside T or at its end *)
Lemma dos_loop_part f T R k m : is_byte_step f -> R <> [] -> 0 <= k <= len T ->
  repl (dig_or_sep f) (skipz k (T ++ R)) = Ok m -> k + m <= len T ->
  repl (dig_or_sep f) (skipz k (T ++ [0])) = Ok m.
Proof.
  intros Hf HR Hk H Hm. unfold repl in *. rewrite skipz_app_le in * by lia.
  apply (rep_restrict_part _ (dos_local f Hf) (dos_stops f Hf) (dos_nonneg f Hf) _ _ _ _ HR H).
  - rewrite len_skipz by lia. lia.
  - rewrite app_length. cbn [length]. lia.
Qed.

Lemma dos_loop_nonneg f l m : is_byte_step f -> repl (dig_or_sep f) l = Ok m -> 0 <= m.
Proof. intros Hf H. eapply rep_nonneg; [apply dos_nonneg; eassumption|exact H]. Qed.

(* a byte step at position k of T ++ X *)
Lemma bs_at f T X k : is_byte_step f -> 0 <= k < len T -> f (skipz k (T ++ X)) = f (skipz k (T ++ [0])).
Proof.
  intros Hf Hk. rewrite !skipz_app_le by lia.
  assert (Hne : skipz k T <> []) by (apply len_pos_nonempty; rewrite len_skipz by lia; lia).
  destruct (skipz k T) as [|c t]; [congruence|]. cbn [app]. apply bs_head. assumption.
Qed.

Lemma bs_at_end f T k : is_byte_step f -> k = len T -> f (skipz k (T ++ [0])) = Ok 0.
Proof. intros Hf ->. rewrite skipz_app_exact. apply bs_zero. assumption. Qed.

Lemma bs_pos_in f T R k : is_byte_step f -> 0 <= k -> f (skipz k (T ++ R)) = Ok 1 -> True.
Proof. auto. Qed.

Lemma num_exp_restrict T R k c n ty e : R <> [] -> 0 <= k <= len T ->
  pkl (T ++ R) k = Ok c ->
  num_exp (T ++ R) k c = Ok (n, ty, e) -> n = len T -> ty <> ErrorToken ->
  exists c', pkl (T ++ [0]) k = Ok c' /\ num_exp (T ++ [0]) k c' = Ok (n, ty, e) /\ (k < len T -> c' = c).
Proof.
  intros HR Hk Hc H Hn Hty. unfold num_exp in H.
  destruct (Z.eq_dec k (len T)) as [Hkl|Hkl].
  - (* the exponent marker would lie outside T *)
    exists 0. split; [apply pkl_at_end; assumption|]. split; [|lia].
    destruct ((c =? 101) || (c =? 69)).
    + exfalso. crunch H; [apply Hty; congruence|].
      pose proof (dos_loop_nonneg _ _ _ digit1_bs E1). assert (n = k + 1 + (if (a =? 43) || (a =? 45) then 1 else 0) + 1 + a1) by congruence.
      destruct ((a =? 43) || (a =? 45)); lia.
    + unfold num_exp. cbn [Z.eqb orb]. exact H.
  - exists c. split; [apply (pkl_pre _ _ _ _ Hc); lia|]. split; [|auto].
    unfold num_exp. destruct ((c =? 101) || (c =? 69)); [|exact H].
    rewrite pkl_skipz in H |- * by lia. replace (k + 1 + 0) with (k + 1) in * by lia.
    destruct (pkl (T ++ R) (k + 1)) as [c1| |] eqn:E1; cbn [rbind] in H; try discriminate.
    set (s := if (c1 =? 43) || (c1 =? 45) then 1 else 0) in *.
    assert (Hs : 0 <= s <= 1) by (subst s; destruct ((c1 =? 43) || (c1 =? 45)); lia).
    rewrite skipz_skipz in H by lia.
    destruct (digit1 (skipz (k + 1 + s) (T ++ R))) as [d| |] eqn:Ed; cbn [rbind] in H; try discriminate.
    destruct (Z.eqb_spec d 0) as [Hd|Hd]; [exfalso; apply Hty; congruence|].
    rewrite skipz_skipz in H by lia.
    destruct (repl (dig_or_sep digit1) (skipz (k + 1 + s + 1) (T ++ R))) as [m| |] eqn:Em; cbn [rbind] in H; try discriminate.
    pose proof (dos_loop_nonneg _ _ _ digit1_bs Em) as Hm0.
    assert (Hnn : n = k + 1 + s + 1 + m) by congruence.
    xfer E1. fold s. rewrite !skipz_skipz by lia.
    rewrite <- (bs_at digit1 T R (k + 1 + s) digit1_bs) by lia. rewrite Ed. cbn [rbind].
    replace (d =? 0) with false by lia.
    assert (Hm : m = len T - (k + 1 + s + 1)) by lia. rewrite Hm in Em.
    rewrite (dos_loop_all digit1 T R (k + 1 + s + 1) digit1_bs HR ltac:(lia) Em). cbn [rbind].
    rewrite <- H. f_equal. f_equal. f_equal. lia.
Qed.

Lemma num_exp_ge l k c n ty e : num_exp l k c = Ok (n, ty, e) -> k <= n.
Proof.
  intros H. unfold num_exp in H. crunch H.
  - assert (n = k + 1 + (if (a =? 43) || (a =? 45) then 1 else 0)) by congruence. destruct ((a =? 43) || (a =? 45)); lia.
  - pose proof (dos_loop_nonneg _ _ _ digit1_bs E1).
    assert (n = k + 1 + (if (a =? 43) || (a =? 45) then 1 else 0) + 1 + a1) by congruence. destruct ((a =? 43) || (a =? 45)); lia.
  - assert (n = k) by congruence. lia.
Qed.

Lemma num_tail_ge f l k n ty e : num_tail f l k = Ok (n, ty, e) -> k <= n.
Proof.
  intros H. unfold num_tail in H. crunch H; try (assert (n = k + 1 - 1 \/ n = k + 1 \/ n = k) by (injection H; lia); lia).
  - pose proof (dos_loop_nonneg _ _ _ digit1_bs E1). apply num_exp_ge in H. lia.
  - apply num_exp_ge in H. lia.
  - apply num_exp_ge in H. lia.
Qed.

Lemma num_tail_restrict first T R k n ty e : R <> [] -> 0 <= k <= len T ->
  num_tail first (T ++ R) k = Ok (n, ty, e) -> n = len T -> ty <> ErrorToken ->
  num_tail first (T ++ [0]) k = Ok (n, ty, e).
Proof.
  intros HR Hk H Hn Hty. unfold num_tail in H |- *. rewrite pkl_skipz in H |- * by lia.
  replace (k + 0) with k in * by lia.
  destruct (pkl (T ++ R) k) as [c| |] eqn:Ec; cbn [rbind] in H; try discriminate.
  destruct (Z.eq_dec k (len T)) as [Hkl|Hkl].
  - (* nothing of the tail lies in T *)
    rewrite pkl_at_end by assumption. cbn [rbind]. change (0 =? 46) with false. change (0 =? 110) with false.
    change (negb (0 =? 101) && negb (0 =? 69)) with true. cbv iota.
    destruct (c =? 46) eqn:E46.
    { exfalso. crunch H.
      - pose proof (dos_loop_nonneg _ _ _ digit1_bs E0). apply num_exp_ge in H. lia.
      - apply Hty. congruence.
      - apply num_exp_ge in H. lia. }
    destruct (c =? 110); [exfalso; assert (n = k + 1) by congruence; lia|].
    destruct (negb (c =? 101) && negb (c =? 69)) eqn:Ee; [exact H|].
    exfalso. unfold num_exp in H. replace ((c =? 101) || (c =? 69)) with true in H by lia.
    crunch H; [apply Hty; congruence|].
    pose proof (dos_loop_nonneg _ _ _ digit1_bs E1).
    assert (n = k + 1 + (if (a =? 43) || (a =? 45) then 1 else 0) + 1 + a1) by congruence. destruct ((a =? 43) || (a =? 45)); lia.
  - xfer Ec. destruct (c =? 46) eqn:E46.
    + rewrite skipz_skipz in H |- * by lia.
      destruct (digit1 (skipz (k + 1) (T ++ R))) as [d| |] eqn:Ed; cbn [rbind] in H; try discriminate.
      pose proof (bs_bit _ digit1_bs _ _ Ed) as Hd.
      destruct (Z.eq_dec (k + 1) (len T)) as [Hk1|Hk1].
      * (* "." is the last byte of T *)
        rewrite (bs_at_end digit1 T (k + 1) digit1_bs Hk1). cbn [rbind]. change (0 <? 0) with false. cbv iota.
        destruct (0 <? d) eqn:Bd.
        { exfalso. crunch H. pose proof (dos_loop_nonneg _ _ _ digit1_bs E). apply num_exp_ge in H. lia. }
        destruct (first =? 46); [exfalso; apply Hty; congruence|].
        rewrite pkl_skipz in H |- * by lia. replace (k + 1 + 0) with (k + 1) in * by lia.
        destruct (pkl (T ++ R) (k + 1)) as [c2| |] eqn:E2; cbn [rbind] in H; try discriminate.
        destruct (num_exp_restrict T R (k + 1) c2 n ty e HR ltac:(lia) E2 H Hn Hty) as (c' & Hc' & He' & _).
        rewrite Hc'. cbn [rbind]. exact He'.
      * rewrite <- (bs_at digit1 T R (k + 1) digit1_bs) by lia. rewrite Ed. cbn [rbind].
        destruct (0 <? d) eqn:Bd.
        -- rewrite skipz_skipz in H |- * by lia.
           destruct (repl (dig_or_sep digit1) (skipz (k + 1 + 1) (T ++ R))) as [m| |] eqn:Em; cbn [rbind] in H; try discriminate.
           pose proof (dos_loop_nonneg _ _ _ digit1_bs Em) as Hm0.
           rewrite pkl_skipz in H by lia.
           destruct (pkl (T ++ R) (k + 1 + 1 + m + 0)) as [c2| |] eqn:E2; cbn [rbind] in H; try discriminate.
           pose proof (num_exp_ge _ _ _ _ _ _ H) as Hge.
           rewrite (dos_loop_part digit1 T R (k + 1 + 1) m digit1_bs HR ltac:(lia) Em) by lia. cbn [rbind].
           rewrite pkl_skipz by lia.
           replace (k + 1 + 1 + m + 0) with (k + 1 + 1 + m) in * by lia.
           destruct (num_exp_restrict T R (k + 1 + 1 + m) c2 n ty e HR ltac:(lia) E2 H Hn Hty) as (c' & Hc' & He' & _).
           rewrite Hc'. cbn [rbind]. exact He'.
        -- destruct (first =? 46); [exfalso; apply Hty; congruence|].
           rewrite pkl_skipz in H |- * by lia. replace (k + 1 + 0) with (k + 1) in * by lia.
           destruct (pkl (T ++ R) (k + 1)) as [c2| |] eqn:E2; cbn [rbind] in H; try discriminate.
           destruct (num_exp_restrict T R (k + 1) c2 n ty e HR ltac:(lia) E2 H Hn Hty) as (c' & Hc' & He' & _).
           rewrite Hc'. cbn [rbind]. exact He'.
    + destruct (c =? 110); [exact H|].
      destruct (negb (c =? 101) && negb (c =? 69)); [exact H|].
      destruct (num_exp_restrict T R k c n ty e HR ltac:(lia) Ec H Hn Hty) as (c' & Hc' & He' & Hcc).
      rewrite <- (Hcc ltac:(lia)). exact He'.
Qed.

Lemma num_radix_restrict f t T R n ty e : is_byte_step f -> R <> [] -> 2 <= len T ->
  num_radix f t (T ++ R) = Ok (n, ty, e) -> n = len T ->
  num_radix f t (T ++ [0]) = Ok (n, ty, e).
Proof.
  intros Hf HR H2 H Hn. unfold num_radix in H |- *.
  destruct (f (skipz 2 (T ++ R))) as [h| |] eqn:Eh; cbn [rbind] in H; try discriminate.
  pose proof (bs_bit f Hf _ _ Eh) as Hh.
  destruct (Z.ltb_spec 0 h) as [Hh0|Hh0]; [|exfalso; assert (n = 1) by congruence; lia].
  rewrite skipz_skipz in H |- * by lia.
  destruct (repl (dig_or_sep f) (skipz (2 + 1) (T ++ R))) as [m| |] eqn:Em; cbn [rbind] in H; try discriminate.
  pose proof (dos_loop_nonneg _ _ _ Hf Em) as Hm0.
  rewrite !pkl_skipz in H by lia. replace (2 + (1 + m + 0)) with (2 + 1 + m) in H by lia.
  destruct (pkl (T ++ R) (2 + 1 + m)) as [c| |] eqn:Ec; cbn [rbind] in H; try discriminate.
  assert (Hnn : n = 2 + 1 + m + (if c =? 110 then 1 else 0)) by congruence.
  assert (H3 : 2 < len T) by (destruct (c =? 110); lia).
  rewrite <- (bs_at f T R 2 Hf) by lia. rewrite Eh. cbn [rbind]. replace (0 <? h) with true by lia.
  rewrite (dos_loop_part f T R (2 + 1) m Hf HR ltac:(lia) Em) by (destruct (c =? 110); lia). cbn [rbind].
  rewrite !pkl_skipz by lia. replace (2 + (1 + m + 0)) with (2 + 1 + m) by lia.
  destruct (c =? 110) eqn:E110.
  - xfer Ec. rewrite E110. exact H.
  - rewrite pkl_at_end by lia. cbn [rbind]. change (0 =? 110) with false. cbv iota. rewrite <- H. reflexivity.
Qed.

Lemma numeric_restrict T R n ty e : R <> [] -> 0 < len T ->
  numeric (T ++ R) = Ok (n, ty, e) -> n = len T -> ty <> ErrorToken ->
  numeric (T ++ [0]) = Ok (n, ty, e).
Proof.
  intros HR HT H Hn Hty. unfold numeric in H |- *.
  destruct T as [|t0 T]; [change (len (@nil Z)) with 0 in HT; lia|]. cbn [app] in H |- *.
  rewrite pkl_cons_0 in H |- *. cbn [rbind] in H |- *.
  change (t0 :: T ++ R) with ((t0 :: T) ++ R) in H. change (t0 :: T ++ [0]) with ((t0 :: T) ++ [0]).
  set (TT := t0 :: T) in *. pose proof (len_nonneg T) as HT0.
  assert (HTT : len TT = 1 + len T) by (unfold TT; apply len_cons).
  destruct (t0 =? 48) eqn:E48.
  - destruct (pkl (TT ++ R) 1) as [c| |] eqn:Ec; cbn [rbind] in H; try discriminate.
    destruct (Z.eq_dec (len TT) 1) as [H1|H1].
    + (* the token is "0" *)
      rewrite pkl_at_end by lia. cbn [rbind]. cbn [Z.eqb orb andb Z.leb Z.compare]. 
      change (0 =? 120) with false. change (0 =? 88) with false. change (0 =? 98) with false. change (0 =? 66) with false.
      change (0 =? 111) with false. change (0 =? 79) with false. change (0 =? 110) with false. cbn [orb]. cbv iota.
      change ((48 <=? 0) && (0 <=? 57)) with false. cbv iota.
      assert (Hres : n = 1 /\ ty = IntegerToken /\ e = ENone \/ num_tail t0 (TT ++ R) 1 = Ok (n, ty, e)).
      { destruct ((c =? 120) || (c =? 88)).
        { left. unfold num_radix in H. crunch H; try (repeat split; congruence).
          exfalso. pose proof (dos_loop_nonneg _ _ _ hex1_bs E0).
          assert (n = 2 + 1 + a0 + (if a1 =? 110 then 1 else 0)) by congruence. destruct (a1 =? 110); lia. }
        destruct ((c =? 98) || (c =? 66)).
        { left. unfold num_radix in H. crunch H; try (repeat split; congruence).
          exfalso. pose proof (dos_loop_nonneg _ _ _ bin1_bs E0).
          assert (n = 2 + 1 + a0 + (if a1 =? 110 then 1 else 0)) by congruence. destruct (a1 =? 110); lia. }
        destruct ((c =? 111) || (c =? 79)).
        { left. unfold num_radix in H. crunch H; try (repeat split; congruence).
          exfalso. pose proof (dos_loop_nonneg _ _ _ oct1_bs E0).
          assert (n = 2 + 1 + a0 + (if a1 =? 110 then 1 else 0)) by congruence. destruct (a1 =? 110); lia. }
        destruct (c =? 110); [exfalso; assert (n = 2) by congruence; lia|].
        destruct ((48 <=? c) && (c <=? 57)); [exfalso; apply Hty; congruence|].
        right. exact H. }
      destruct Hres as [(-> & -> & ->)|Hres].
      * unfold num_tail. rewrite pkl_skipz by lia. rewrite pkl_at_end by lia. cbn [rbind]. reflexivity.
      * apply (num_tail_restrict t0 TT R 1 n ty e HR ltac:(lia) Hres Hn Hty).
    + assert (H2 : 2 <= len TT) by lia.
      xfer Ec.
      destruct ((c =? 120) || (c =? 88)); [apply (num_radix_restrict _ _ _ _ _ _ _ hex1_bs HR H2 H Hn)|].
      destruct ((c =? 98) || (c =? 66)); [apply (num_radix_restrict _ _ _ _ _ _ _ bin1_bs HR H2 H Hn)|].
      destruct ((c =? 111) || (c =? 79)); [apply (num_radix_restrict _ _ _ _ _ _ _ oct1_bs HR H2 H Hn)|].
      destruct (c =? 110); [exact H|].
      destruct ((48 <=? c) && (c <=? 57)); [exact H|].
      apply (num_tail_restrict t0 TT R 1 n ty e HR ltac:(lia) H Hn Hty).
  - destruct (negb (t0 =? 46)).
    + destruct (repl (dig_or_sep digit1) (TT ++ R)) as [m| |] eqn:Em; cbn [rbind] in H; try discriminate.
      pose proof (dos_loop_nonneg _ _ _ digit1_bs Em) as Hm0.
      pose proof (num_tail_ge _ _ _ _ _ _ H) as Hge.
      change (TT ++ R) with (skipz 0 (TT ++ R)) in Em.
      pose proof (dos_loop_part digit1 TT R 0 m digit1_bs HR ltac:(lia) Em ltac:(lia)) as Em'.
      change (skipz 0 (TT ++ [0])) with (TT ++ [0]) in Em'. rewrite Em'. cbn [rbind].
      apply (num_tail_restrict t0 TT R m n ty e HR ltac:(lia) H Hn Hty).
    + apply (num_tail_restrict t0 TT R 0 n ty e HR ltac:(lia) H Hn Hty).
Qed.

(* --- comments ---------------------------------------------------------------------------------------- *)
Lemma comment_restrict T R n ty e sl : R <> [] -> no_trunc T = true ->
  comment (T ++ R) = Ok (n, ty, e, sl) -> n = len T -> ty <> ErrorToken ->
  comment (T ++ [0]) = Ok (n, ty, e, sl).
Proof.
  intros HR Hnt H Hn Hty. unfold comment in H |- *.
  destruct (pkl (T ++ R) 1) as [c| |] eqn:Ec; cbn [rbind] in H; try discriminate.
  destruct (c =? 47) eqn:E47.
  - destruct (slc (skipz 2 (T ++ R))) as [n'| |] eqn:Es; cbn [rbind] in H; try discriminate.
    assert (Hnn : n = 2 + n') by congruence.
    pose proof (slc_loop_nonneg _ _ _ Es) as Hn0.
    xfer Ec. rewrite E47. rewrite skipz_app_le in Es |- * by lia.
    assert (Hn' : n' = len (skipz 2 T)) by (rewrite len_skipz by lia; lia). rewrite Hn' in Es.
    rewrite (slc_restrict _ _ HR (no_trunc_skipz 2 T Hnt ltac:(lia)) Es). cbn [rbind]. rewrite <- Hn'. exact H.
  - destruct (c =? 42) eqn:E42; [|exfalso; apply Hty; congruence].
    destruct (mlc_loop (length (T ++ R)) (skipz 2 (T ++ R))) as [[[n' ok] sl']| |] eqn:Em; cbn [rbind] in H; try discriminate.
    destruct ok; [|exfalso; apply Hty; congruence].
    assert (Hnn : n = 2 + n') by congruence.
    destruct (mlc_loop_pos _ _ _ _ _ Em) as (Hn0 & _).
    xfer Ec. rewrite E47, E42. rewrite skipz_app_le in Em |- * by lia.
    rewrite (mlc_loop_restrict _ _ _ _ _ HR Em).
    + cbn [rbind]. exact H.
    + rewrite len_skipz by lia. lia.
    + pose proof (length_skipz_le 2 T). rewrite app_length. cbn [length]. lia.
Qed.

Lemma html_comment_restrict plt T R n : R <> [] -> no_trunc T = true ->
  html_comment plt (T ++ R) = Ok n -> n = len T -> 0 < n ->
  html_comment plt (T ++ [0]) = Ok n.
Proof.
  intros HR Hnt H Hn Hpos. unfold html_comment in H |- *.
  destruct (pkl (T ++ R) 0) as [c| |] eqn:E0; cbn [rbind] in H; try discriminate.
  xfer E0.
  match type of H with rbind ?e _ = _ => destruct e as [op| |] eqn:Eo; cbn [rbind] in H; try discriminate end.
  destruct op.
  - (* "<!--" *)
    destruct (slc (skipz 4 (T ++ R))) as [n'| |] eqn:Es; cbn [rbind] in H; try discriminate.
    assert (Hnn : n = 4 + n') by congruence. pose proof (slc_loop_nonneg _ _ _ Es) as Hn0.
    destruct (c =? 60); [|discriminate].
    destruct (pkl (T ++ R) 1) as [c1| |] eqn:E1; cbn [rbind] in Eo; try discriminate. xfer E1.
    destruct (c1 =? 33); [|discriminate].
    destruct (pkl (T ++ R) 2) as [c2| |] eqn:E2; cbn [rbind] in Eo; try discriminate. xfer E2.
    destruct (c2 =? 45); [|discriminate].
    destruct (pkl (T ++ R) 3) as [c3| |] eqn:E3; cbn [rbind] in Eo; try discriminate. xfer E3.
    assert (Eo' : (c3 =? 45) = true) by congruence. rewrite Eo'. rewrite skipz_app_le in Es |- * by lia.
    assert (Hn' : n' = len (skipz 4 T)) by (rewrite len_skipz by lia; lia). rewrite Hn' in Es.
    rewrite (slc_restrict _ _ HR (no_trunc_skipz 4 T Hnt ltac:(lia)) Es). cbn [rbind]. rewrite <- Hn'. exact H.
  - match type of H with rbind ?e _ = _ => destruct e as [cl| |] eqn:Ecl; cbn [rbind] in H; try discriminate end.
    destruct cl; [|assert (n = 0) by congruence; lia].
    destruct (slc (skipz 3 (T ++ R))) as [n'| |] eqn:Es; cbn [rbind] in H; try discriminate.
    assert (Hnn : n = 3 + n') by congruence. pose proof (slc_loop_nonneg _ _ _ Es) as Hn0.
    destruct (plt && (c =? 45)) eqn:Ep; [|discriminate].
    assert (c = 45) by (apply andb_true_iff in Ep; lia). subst c.
    change (45 =? 60) with false. cbv iota. cbn [rbind].
    destruct (pkl (T ++ R) 1) as [c1| |] eqn:E1; cbn [rbind] in Ecl; try discriminate. xfer E1.
    destruct (c1 =? 45); [|discriminate].
    destruct (pkl (T ++ R) 2) as [c2| |] eqn:E2; cbn [rbind] in Ecl; try discriminate. xfer E2.
    assert (Ecl' : (c2 =? 62) = true) by congruence. rewrite Ecl'. rewrite skipz_app_le in Es |- * by lia.
    assert (Hn' : n' = len (skipz 3 T)) by (rewrite len_skipz by lia; lia). rewrite Hn' in Es.
    rewrite (slc_restrict _ _ HR (no_trunc_skipz 3 T Hnt ltac:(lia)) Es). cbn [rbind]. rewrite <- Hn'. exact H.
Qed.

(* --- generic: a "for step() {}" loop that consumed the rest of T, started at offset k -------------- *)
Lemma repl_restrict_all f T R k : local f -> stop0 f -> nonneg f -> R <> [] -> 0 <= k <= len T ->
  repl f (skipz k (T ++ R)) = Ok (len T - k) ->
  repl f (skipz k (T ++ [0])) = Ok (len T - k).
Proof.
  intros Hl Hs Hn HR Hk H. unfold repl in *. rewrite skipz_app_le in * by lia.
  replace (len T - k) with (len (skipz k T)) in * by (rewrite len_skipz by lia; reflexivity).
  apply (rep_restrict_all _ Hl Hs Hn _ _ _ HR H).
  rewrite app_length. cbn [length]. lia.
Qed.

(* the comment scanner declines on '/' followed by neither '/' nor '*' *)
Lemma comment_err_shape l n sl : comment l = Ok (n, ErrorToken, ENone, sl) ->
  exists c, pkl l 1 = Ok c /\ (c =? 47) = false /\ (c =? 42) = false /\ n = 0 /\ sl = false.
Proof.
  intros H. unfold comment in H. destruct (pkl l 1) as [c| |] eqn:Ec; cbn [rbind] in H; try discriminate.
  exists c. split; [reflexivity|].
  destruct (c =? 47).
  { exfalso. crunch H. assert (CommentToken = ErrorToken) by congruence. discriminate. }
  destruct (c =? 42).
  { exfalso. crunch H.
    - assert ((if b then CommentLineTerminatorToken else CommentToken) = ErrorToken) by congruence. destruct b; discriminate.
    - assert (ECommentEOF = ENone) by congruence. discriminate. }
  repeat split; congruence.
Qed.

Lemma comment_decline T R n e sl : T <> [] ->
  comment (T ++ R) = Ok (n, ErrorToken, e, sl) -> e = ENone ->
  comment (T ++ [0]) = Ok (n, ErrorToken, e, sl).
Proof.
  intros HT H ->. destruct (comment_err_shape _ _ _ H) as (c & Ec & E47 & E42 & -> & ->).
  unfold comment. destruct T as [|t0 T]; [congruence|]. cbn [app] in *.
  destruct T as [|t1 T]; cbn [app] in *.
  - rewrite pkl_1. cbn [rbind]. reflexivity.
  - rewrite pkl_1 in Ec |- *. cbn [rbind]. assert (t1 = c) by congruence. subst t1. rewrite E47, E42. reflexivity.
Qed.

(* an operator token is never the start of an HTML-like comment when nothing follows it *)
Lemma html_decline plt T R ty : R <> [] -> op (T ++ R) = Ok (len T, ty) -> html_comment plt (T ++ [0]) = Ok 0.
Proof.
  intros HR H. destruct R as [|r0 R]; [congruence|]. clear HR.
  destruct T as [|t0 [|t1 [|t2 [|t3 [|t4 T]]]]]; cbn [app] in *; rewrite ?len_cons in *;
    change (len (@nil Z)) with 0 in *; unfold op in H;
    rewrite ?pkl_cons_0, ?pkl_1, ?pkl_2, ?pkl_3 in H; cbn [rbind] in H.
  - crunch H; exfalso; match type of H with Ok (?a, _) = Ok (?b, _) => assert (a = b) by congruence; lia end.
  - crunch H; try (exfalso; match type of H with Ok (?a, _) = Ok (?b, _) => assert (a = b) by congruence; lia end);
      unfold html_comment; rewrite ?pkl_cons_0, ?pkl_1; cbn [rbind]; repeat (pick; cbn [rbind]); reflexivity.
  - crunch H; try (exfalso; match type of H with Ok (?a, _) = Ok (?b, _) => assert (a = b) by congruence; lia end);
      unfold html_comment; rewrite ?pkl_cons_0, ?pkl_1, ?pkl_2; cbn [rbind]; repeat (pick; cbn [rbind]); reflexivity.
  - crunch H; try (exfalso; match type of H with Ok (?a, _) = Ok (?b, _) => assert (a = b) by congruence; lia end);
      unfold html_comment; rewrite ?pkl_cons_0, ?pkl_1, ?pkl_2, ?pkl_3; cbn [rbind]; repeat (pick; cbn [rbind]); reflexivity.
  - crunch H; try (exfalso; match type of H with Ok (?a, _) = Ok (?b, _) => assert (a = b) by congruence; lia end);
      unfold html_comment; rewrite ?pkl_cons_0, ?pkl_1, ?pkl_2, ?pkl_3; cbn [rbind]; repeat (pick; cbn [rbind]); reflexivity.
  - pose proof (len_nonneg T). crunch H; exfalso; match type of H with Ok (?a, _) = Ok (?b, _) => assert (a = b) by congruence; lia end.
Qed.

(* an HTML-like comment token, lexed at the start of an input (where prevLineTerminator is true) *)
Lemma html_comment_restrict_true plt T R n : R <> [] -> no_trunc T = true ->
  html_comment plt (T ++ R) = Ok n -> n = len T -> 0 < n ->
  html_comment true (T ++ [0]) = Ok n.
Proof.
  intros HR Hnt H Hn Hpos. destruct plt; [eapply html_comment_restrict; eassumption|].
  (* prevLineTerminator was false: the token starts with "<!--", for which the flag is irrelevant *)
  pose proof (html_comment_restrict false T R n HR Hnt H Hn Hpos) as H'.
  unfold html_comment in H' |- *. cbn [andb] in H'.
  destruct (pkl (T ++ [0]) 0) as [c| |] eqn:E0; cbn [rbind] in H' |- *; try discriminate.
  match type of H' with rbind ?e _ = _ => destruct e as [op| |] eqn:Eo; cbn [rbind] in H' |- *; try discriminate end.
  destruct op; [exact H'|]. cbn [rbind] in H'. assert (n = 0) by congruence. lia.
Qed.
