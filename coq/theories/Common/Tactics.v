(* Common/Tactics.v — small proof automation shared by all proof files. *)
From Verif Require Import Common.Base.

(* Decide boolean integer comparisons occurring in the goal with lia. *)
Ltac zb1 :=
  match goal with
  | |- context [?a <? ?b] =>
      first [ replace (a <? b) with true by (symmetry; apply Z.ltb_lt; lia)
            | replace (a <? b) with false by (symmetry; apply Z.ltb_ge; lia) ]
  | |- context [?a <=? ?b] =>
      first [ replace (a <=? b) with true by (symmetry; apply Z.leb_le; lia)
            | replace (a <=? b) with false by (symmetry; apply Z.leb_gt; lia) ]
  | |- context [?a =? ?b] =>
      first [ replace (a =? b) with true by (symmetry; apply Z.eqb_eq; lia)
            | replace (a =? b) with false by (symmetry; apply Z.eqb_neq; lia) ]
  end.
Ltac zb := repeat zb1.

(* Same in a hypothesis. *)
Ltac zbh1 H :=
  match type of H with
  | context [?a <? ?b] =>
      first [ replace (a <? b) with true in H by (symmetry; apply Z.ltb_lt; lia)
            | replace (a <? b) with false in H by (symmetry; apply Z.ltb_ge; lia) ]
  | context [?a <=? ?b] =>
      first [ replace (a <=? b) with true in H by (symmetry; apply Z.leb_le; lia)
            | replace (a <=? b) with false in H by (symmetry; apply Z.leb_gt; lia) ]
  | context [?a =? ?b] =>
      first [ replace (a =? b) with true in H by (symmetry; apply Z.eqb_eq; lia)
            | replace (a =? b) with false in H by (symmetry; apply Z.eqb_neq; lia) ]
  end.
Ltac zbh H := repeat zbh1 H.

(* Turn boolean hypotheses about Z comparisons into Props. *)
Ltac b2p :=
  repeat match goal with
  | H : (_ && _) = true |- _ => apply andb_true_iff in H; destruct H
  | H : (_ || _) = false |- _ => apply orb_false_iff in H; destruct H
  | H : negb _ = true |- _ => apply negb_true_iff in H
  | H : negb _ = false |- _ => apply negb_false_iff in H
  | H : (_ <? _) = true |- _ => apply Z.ltb_lt in H
  | H : (_ <? _) = false |- _ => apply Z.ltb_ge in H
  | H : (_ <=? _) = true |- _ => apply Z.leb_le in H
  | H : (_ <=? _) = false |- _ => apply Z.leb_gt in H
  | H : (_ =? _) = true |- _ => apply Z.eqb_eq in H
  | H : (_ =? _) = false |- _ => apply Z.eqb_neq in H
  end.

(* Finite sweeps over an integer range, lifted to a universally quantified statement. *)
Fixpoint zrange_from (lo : Z) (n : nat) : list Z :=
  match n with O => [] | S k => lo :: zrange_from (lo + 1) k end.
Definition zrange (lo hi : Z) : list Z := zrange_from lo (Z.to_nat (hi - lo + 1)).

Lemma zrange_from_in lo n x : lo <= x < lo + Z.of_nat n -> In x (zrange_from lo n).
Proof.
  revert lo. induction n as [|n IH]; intros lo H; [lia|].
  cbn [zrange_from]. destruct (Z.eq_dec lo x) as [->|Hne]; [left; reflexivity|].
  right. apply IH. lia.
Qed.

Lemma zrange_in lo hi x : lo <= x <= hi -> In x (zrange lo hi).
Proof. intros H. unfold zrange. apply zrange_from_in. lia. Qed.

Lemma zrange_forall (P : Z -> bool) lo hi :
  forallb P (zrange lo hi) = true -> forall x, lo <= x <= hi -> P x = true.
Proof. intros H x Hx. rewrite forallb_forall in H. apply H. apply zrange_in. exact Hx. Qed.
