(* Common/Base.v — byte lists indexed by Z, shared by every model.
   Definitions and their basic lemmas only; no property theorem lives here. *)
From Coq Require Export List ZArith Lia Bool.
Export ListNotations.
Open Scope Z_scope.

Definition len {A} (l : list A) : Z := Z.of_nat (length l).

(* Checked indexing: None exactly where Go's l[i] panics. *)
Definition peekz (l : list Z) (i : Z) : option Z :=
  if (0 <=? i) && (i <? len l) then nth_error l (Z.to_nat i) else None.

(* Total indexing with default 0 (only used in specifications). *)
Definition getz (l : list Z) (i : Z) : Z :=
  match peekz l i with Some c => c | None => 0 end.

Definition skipz {A} (n : Z) (l : list A) : list A := skipn (Z.to_nat n) l.
Definition firstz {A} (n : Z) (l : list A) : list A := firstn (Z.to_nat n) l.

(* l[lo:hi] ; meaningful for 0 <= lo <= hi <= len l *)
Definition slice {A} (l : list A) (lo hi : Z) : list A := firstz (hi - lo) (skipz lo l).

(* Checked slicing l[lo:hi:hi'] with capacity bound cap: None where Go panics. *)
Definition slice_ok (lo hi cap : Z) : bool := (0 <=? lo) && (lo <=? hi) && (hi <=? cap).

Definition setz (l : list Z) (i : Z) (v : Z) : list Z :=
  if (0 <=? i) && (i <? len l) then firstz i l ++ v :: skipz (i + 1) l else l.

Definition option_bind {A B} (o : option A) (f : A -> option B) : option B :=
  match o with Some a => f a | None => None end.
Notation "x <- e ;; k" := (option_bind e (fun x => k)) (at level 61, e at next level, right associativity).

Lemma len_nonneg {A} (l : list A) : 0 <= len l.
Proof. unfold len; lia. Qed.

Lemma len_app {A} (a b : list A) : len (a ++ b) = len a + len b.
Proof. unfold len; rewrite app_length; lia. Qed.

Lemma len_cons {A} (x : A) (l : list A) : len (x :: l) = 1 + len l.
Proof. unfold len; cbn [length]; lia. Qed.

Lemma len_nil {A} : len (@nil A) = 0.
Proof. reflexivity. Qed.

Lemma peekz_some l i c : peekz l i = Some c -> 0 <= i < len l.
Proof.
  unfold peekz. destruct (0 <=? i) eqn:H1; destruct (i <? len l) eqn:H2; cbn; try discriminate.
  intros _. apply Z.leb_le in H1. apply Z.ltb_lt in H2. lia.
Qed.

Lemma peekz_in_range l i : 0 <= i < len l -> exists c, peekz l i = Some c.
Proof.
  intros H. unfold peekz.
  replace (0 <=? i) with true by (symmetry; apply Z.leb_le; lia).
  replace (i <? len l) with true by (symmetry; apply Z.ltb_lt; lia). cbn.
  destruct (nth_error l (Z.to_nat i)) eqn:E; [eauto|].
  apply nth_error_None in E. unfold len in H. lia.
Qed.

Lemma peekz_none_iff l i : peekz l i = None <-> ~ (0 <= i < len l).
Proof.
  split.
  - intros H [H1 H2]. destruct (peekz_in_range l i (conj H1 H2)) as [c Hc]. congruence.
  - intros H. destruct (peekz l i) eqn:E; [|reflexivity]. apply peekz_some in E. tauto.
Qed.

Lemma peekz_app_l a b i : 0 <= i < len a -> peekz (a ++ b) i = peekz a i.
Proof.
  intros H. unfold peekz. rewrite len_app.
  replace (0 <=? i) with true by (symmetry; apply Z.leb_le; lia).
  replace (i <? len a + len b) with true by (symmetry; apply Z.ltb_lt; pose proof (len_nonneg b); lia).
  replace (i <? len a) with true by (symmetry; apply Z.ltb_lt; lia). cbn.
  apply nth_error_app1. unfold len in H. lia.
Qed.

Lemma peekz_app_r a b i : len a <= i -> peekz (a ++ b) i = peekz b (i - len a).
Proof.
  intros H. pose proof (len_nonneg a). unfold peekz. rewrite len_app.
  replace (0 <=? i) with true by (symmetry; apply Z.leb_le; lia).
  replace (0 <=? i - len a) with true by (symmetry; apply Z.leb_le; lia).
  replace (i - len a <? len b) with (i <? len a + len b).
  2:{ destruct (Z.ltb_spec i (len a + len b)); destruct (Z.ltb_spec (i - len a) (len b)); try reflexivity; lia. }
  destruct (i <? len a + len b); cbn; [|reflexivity].
  rewrite nth_error_app2 by (unfold len in H; lia). f_equal. unfold len. lia.
Qed.

Lemma peekz_sentinel d : peekz (d ++ [0]) (len d) = Some 0.
Proof.
  rewrite peekz_app_r by lia. replace (len d - len d) with 0 by lia. reflexivity.
Qed.

Lemma getz_app_l a b i : 0 <= i < len a -> getz (a ++ b) i = getz a i.
Proof. intros H. unfold getz. rewrite peekz_app_l by assumption. reflexivity. Qed.

Lemma len_firstz {A} n (l : list A) : 0 <= n <= len l -> len (firstz n l) = n.
Proof. intros H. unfold len, firstz in *. rewrite firstn_length. lia. Qed.

Lemma len_skipz {A} n (l : list A) : 0 <= n <= len l -> len (skipz n l) = len l - n.
Proof. intros H. unfold len, skipz in *. rewrite skipn_length. lia. Qed.

Lemma len_slice {A} (l : list A) lo hi : 0 <= lo <= hi -> hi <= len l -> len (slice l lo hi) = hi - lo.
Proof.
  intros H1 H2. unfold slice. rewrite len_firstz; [lia|]. rewrite len_skipz by lia. lia.
Qed.

Lemma slice_app_l {A} (a b : list A) lo hi : 0 <= lo <= hi -> hi <= len a -> slice (a ++ b) lo hi = slice a lo hi.
Proof.
  intros H1 H2. unfold slice, firstz, skipz, len in *.
  rewrite skipn_app. rewrite firstn_app.
  replace (Z.to_nat (hi - lo) - length (skipn (Z.to_nat lo) a))%nat with 0%nat.
  2:{ rewrite skipn_length. lia. }
  replace (Z.to_nat lo - length a)%nat with 0%nat by lia.
  cbn. rewrite app_nil_r. reflexivity.
Qed.

Lemma skipn_S_tl {A} n (l : list A) : skipn (S n) l = tl (skipn n l).
Proof.
  revert l. induction n as [|n IH]; intros l.
  - destruct l; reflexivity.
  - destruct l as [|x l]; [reflexivity|]. cbn [skipn] in *. apply IH.
Qed.
