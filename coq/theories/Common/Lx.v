(* Common/Lx.v — the cursor as the lexers and streaming parsers use it.
   This is the abstract cursor of C12 (Cursor/Model.v proves parse.Input refines it) specialised to
   what a lexer does: checked Peek, Move, Shift, "at end" test.  A read outside data ++ [0] is None:
   that is where Go indexes outside the buffer and panics.  Definitions and basic lemmas only. *)
From Verif Require Import Common.Base.

Record lx := mkLx { lbuf : list Z;   (* data ++ [0] *)
                    lpos : Z; lstart : Z }.

Definition lx_init (data : list Z) : lx := mkLx (data ++ [0]) 0 0.

(* length of the data (without the terminator) *)
Definition lx_len (z : lx) : Z := len (lbuf z) - 1.

(* Peek(i): None = out of the buffer (Go panics) *)
Definition pk (z : lx) (i : Z) : option Z := peekz (lbuf z) (lpos z + i).

(* Err() != nil for an in-memory input, i.e. io.EOF: the cursor is at or past the terminator *)
Definition at_end (z : lx) : bool := lx_len z <=? lpos z.

(* PeekErr(i) != nil *)
Definition at_end_i (z : lx) (i : Z) : bool := lx_len z <=? lpos z + i.

Definition mv (z : lx) (n : Z) : lx := mkLx (lbuf z) (lpos z + n) (lstart z).
Definition rewind (z : lx) (m : Z) : lx := mkLx (lbuf z) (lstart z + m) (lstart z).
Definition mark (z : lx) : Z := lpos z - lstart z.          (* Pos() *)
Definition skip (z : lx) : lx := mkLx (lbuf z) (lpos z) (lpos z).

(* Lexeme(): bytes start..pos; None where Go's slice expression panics *)
Definition lexeme (z : lx) : option (list Z) :=
  if slice_ok (lstart z) (lpos z) (len (lbuf z)) then Some (slice (lbuf z) (lstart z) (lpos z)) else None.

(* Shift(): the lexeme, then start := pos *)
Definition shift (z : lx) : option (list Z * lx) :=
  match lexeme z with Some b => Some (b, skip z) | None => None end.

(* the not yet consumed bytes including the terminator; [] once the cursor is past the terminator *)
Definition suffix (z : lx) : list Z := skipz (lpos z) (lbuf z).

(* number of leading elements satisfying p (a "for p(Peek(0)) { Move(1) }" loop on the suffix);
   None if the loop would run off the end of the buffer (p holds for the terminator too) *)
Fixpoint scan_while (p : Z -> bool) (l : list Z) : option Z :=
  match l with
  | [] => None
  | c :: t => if p c then match scan_while p t with Some n => Some (1 + n) | None => None end else Some 0
  end.

(* well-formedness: buffer is data ++ [0], 0 <= start <= pos <= len data *)
Definition lx_wf (z : lx) : Prop :=
  (exists d, lbuf z = d ++ [0]) /\ 0 <= lstart z <= lpos z /\ lpos z <= lx_len z.

Lemma lx_init_wf d : lx_wf (lx_init d).
Proof.
  unfold lx_wf, lx_init, lx_len. cbn [lbuf lpos lstart]. split; [eauto|].
  rewrite len_app. change (len [0]) with 1. pose proof (len_nonneg d). lia.
Qed.

Lemma pk_in_range z i : lx_wf z -> 0 <= lpos z + i <= lx_len z -> exists c, pk z i = Some c.
Proof.
  intros (_ & _ & _) H. unfold pk. apply peekz_in_range. unfold lx_len in H. lia.
Qed.

Lemma pk_at_terminator z : lx_wf z -> lpos z = lx_len z -> pk z 0 = Some 0.
Proof.
  intros ((d & Hd) & _ & _) H. unfold pk, lx_len in *. rewrite Hd in *.
  rewrite len_app in H. change (len [0]) with 1 in H.
  replace (lpos z + 0) with (len d) by lia. apply peekz_sentinel.
Qed.

Lemma scan_while_bound p l n : scan_while p l = Some n -> 0 <= n < len l.
Proof.
  revert n. induction l as [|c t IH]; intros n H; cbn [scan_while] in H; [discriminate|].
  rewrite len_cons. destruct (p c).
  - destruct (scan_while p t) as [m|]; [|discriminate].
    assert (E : n = 1 + m) by congruence. specialize (IH m eq_refl). lia.
  - assert (E : n = 0) by congruence. pose proof (len_nonneg t). lia.
Qed.

(* if p rejects the terminator the loop never runs off a well-formed buffer *)
Lemma scan_while_total p d : p 0 = false -> exists n, scan_while p (d ++ [0]) = Some n.
Proof.
  intros Hp. induction d as [|c t [n IH]]; cbn [app scan_while].
  - rewrite Hp. eauto.
  - destruct (p c); [rewrite IH|]; eauto.
Qed.
