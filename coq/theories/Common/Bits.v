(* Common/Bits.v — masks and shifts as arithmetic (used by the UTF-8 and binary codecs). *)
From Verif Require Import Common.Base Common.Tactics.

Lemma land_low_zero x n b : 0 <= n -> 0 <= b < 2 ^ n -> Z.land (x * 2 ^ n) b = 0.
Proof.
  intros Hn Hb. apply Z.bits_inj'. intros m Hm.
  rewrite Z.land_spec, Z.bits_0.
  destruct (Z.lt_ge_cases m n) as [Hlt|Hge].
  - rewrite Z.mul_pow2_bits_low by assumption. reflexivity.
  - rewrite <- (Z.mod_small b (2 ^ n)) by assumption.
    rewrite Z.mod_pow2_bits_high by lia. apply andb_false_r.
Qed.

Lemma lor_add x n b : 0 <= n -> 0 <= b < 2 ^ n -> Z.lor (x * 2 ^ n) b = x * 2 ^ n + b.
Proof.
  intros Hn Hb. pose proof (land_low_zero x n b Hn Hb) as H.
  rewrite <- Z.lxor_lor by exact H. symmetry. apply Z.add_nocarry_lxor. exact H.
Qed.

Lemma lor_shiftl_add x n b : 0 <= n -> 0 <= b < 2 ^ n -> Z.lor (Z.shiftl x n) b = x * 2 ^ n + b.
Proof. intros Hn Hb. rewrite Z.shiftl_mul_pow2 by exact Hn. apply lor_add; assumption. Qed.

Lemma land_mask a n : 0 <= n -> Z.land a (2 ^ n - 1) = a mod 2 ^ n.
Proof. intros Hn. rewrite <- Z.land_ones by exact Hn. f_equal. rewrite Z.ones_equiv. lia. Qed.

Lemma land63 c : Z.land c 63 = c mod 64.   Proof. exact (land_mask c 6 ltac:(lia)). Qed.
Lemma land31 c : Z.land c 31 = c mod 32.   Proof. exact (land_mask c 5 ltac:(lia)). Qed.
Lemma land15 c : Z.land c 15 = c mod 16.   Proof. exact (land_mask c 4 ltac:(lia)). Qed.
Lemma land7 c : Z.land c 7 = c mod 8.      Proof. exact (land_mask c 3 ltac:(lia)). Qed.
Lemma land255 c : Z.land c 255 = c mod 256. Proof. exact (land_mask c 8 ltac:(lia)). Qed.
