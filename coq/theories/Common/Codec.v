(* Common/Codec.v — decoding of harness case lines (lists of integers) into model inputs.
   Used only by the correspondence drivers; nothing here is part of a theorem statement. *)
From Verif Require Import Common.Base.

(* read a length-prefixed list: n x1..xn rest  ->  ([x1..xn], rest) *)
Definition take_list (l : list Z) : list Z * list Z :=
  match l with
  | n :: t => (firstz n t, skipz n t)
  | [] => ([], [])
  end.

Definition hdz (l : list Z) : Z := match l with x :: _ => x | [] => 0 end.
Definition tlz (l : list Z) : list Z := match l with _ :: t => t | [] => [] end.
