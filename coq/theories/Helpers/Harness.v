(* Helpers/Harness.v — correspondence drivers for the helper models (C16).
   Each entry point decodes a case line, runs the model and encodes the observation exactly as
   harness/c16.go does for the implementation.  -1 = panic, -2 = out of fuel. *)
From Verif Require Import Common.Base Common.Codec Common.Tactics Helpers.Model.
From Verif Require Gen.Tables.

Definition enc_bytes (l : list Z) : list Z := len l :: l.

Definition enc_optz (o : option Z) : list Z := match o with Some n => [n] | None => [-1] end.
Definition b2z (b : bool) : Z := if b then 1 else 0.

(* case: |b| b *)
Definition run_c16_number (l : list Z) : list Z :=
  let '(b, _) := take_list l in enc_optz (number b).

Definition run_c16_dimension (l : list Z) : list Z :=
  let '(b, _) := take_list l in
  match dimension b with Some (n, u) => [n; u] | None => [-1] end.

(* table selector: 0 URLEncodingTable, 1 DataURIEncodingTable, 2 then |marked| marked: custom *)
Definition custom_table (marked : list Z) : list bool :=
  map (fun c => existsb (Z.eqb c) marked) (zrange 0 255).

Definition enc_res (r : res (list Z)) : list Z :=
  match r with Ok b => 0 :: b | Panic => [-1] | OutOfFuel => [-2] end.

(* case: tid [|marked| marked] |b| b *)
Definition run_c16_encode (l : list Z) : list Z :=
  let tid := hdz l in
  if tid =? 2 then
    let '(marked, r) := take_list (tlz l) in
    let '(b, _) := take_list r in enc_res (encode_url b (custom_table marked))
  else
    let '(b, _) := take_list (tlz l) in
    enc_res (encode_url b (if tid =? 0 then Tables.url_encoding_table else Tables.datauri_encoding_table)).

Definition run_c16_decode (l : list Z) : list Z :=
  let '(b, _) := take_list l in enc_res (decode_url b).

(* observation: kind (0 ok, 1 ErrBadDataURI, 2 base64 error) then mediatype and data *)
Definition run_c16_datauri (l : list Z) : list Z :=
  let '(b, _) := take_list l in
  match data_uri b64_decode b with
  | Ok (DOk m d) => 0 :: enc_bytes m ++ enc_bytes d
  | Ok DBad => [1]
  | Ok DB64Err => [2]
  | Panic => [-1]
  | OutOfFuel => [-2]
  end.

(* --- Mediatype: the map is observed as its entries sorted by key (bytewise) ------------------ *)
Fixpoint lex_lt (a b : list Z) : bool :=
  match a, b with
  | [], [] => false
  | [], _ :: _ => true
  | _ :: _, [] => false
  | x :: a', y :: b' => if x <? y then true else if y <? x then false else lex_lt a' b'
  end.

Fixpoint insert_kv (kv : list Z * list Z) (l : list (list Z * list Z)) : list (list Z * list Z) :=
  match l with
  | [] => [kv]
  | kv' :: t =>
      if list_eqb (fst kv) (fst kv') then l                  (* an older assignment to the same key is dropped *)
      else if lex_lt (fst kv) (fst kv') then kv :: l
      else kv' :: insert_kv kv t
  end.

(* params holds the most recent assignment first: insert oldest last so that it loses *)
Definition norm_params (ps : list (list Z * list Z)) : list (list Z * list Z) :=
  fold_left (fun acc kv => insert_kv kv acc) ps [].

Definition enc_params (ps : list (list Z * list Z)) : list Z :=
  let n := norm_params ps in
  len n :: flat_map (fun kv => enc_bytes (fst kv) ++ enc_bytes (snd kv)) n.

Definition run_c16_mediatype (l : list Z) : list Z :=
  let '(b, _) := take_list l in
  match mediatype b with
  | Ok (off, mlen, None) => [0; off; mlen; 0]
  | Ok (off, mlen, Some ps) => 0 :: off :: mlen :: 1 :: enc_params ps
  | Panic => [-1]
  | OutOfFuel => [-2]
  end.

(* case: op args.  0 ToLower b; 1 EqualFold s t; 2 TrimWhitespace b; 3 IsAllWhitespace b;
   4 IsWhitespace c, IsNewline c *)
Definition run_c16_util (l : list Z) : list Z :=
  let op := hdz l in
  let '(b, r) := take_list (tlz l) in
  if op =? 0 then enc_bytes (to_lower b)
  else if op =? 1 then
    let '(t, _) := take_list r in
    match equal_fold b t with Some x => [b2z x] | None => [-1] end
  else if op =? 2 then
    match trim_whitespace b with Some (lo, hi) => [lo; hi] | None => [-1] end
  else if op =? 3 then
    match all_ws b with Some x => [b2z x] | None => [-1] end
  else
    match is_whitespace (hdz (tlz l)), is_newline (hdz (tlz l)) with
    | Some w, Some n => [b2z w; b2z n]
    | _, _ => [-1]
    end.

(* case: which (0 css, 1 html) op args.  0: ToHash s -> hash, Hash.Bytes of it; 1: Hash(h).Bytes() *)
Definition run_c16_hash (l : list Z) : list Z :=
  let css := hdz l =? 0 in
  let op := hdz (tlz l) in
  if op =? 0 then
    let '(s, _) := take_list (tlz (tlz l)) in
    match (if css then css_to_hash s else html_to_hash s) with
    | Some h => h :: enc_bytes (if css then css_hash_bytes h else html_hash_bytes h)
    | None => [-1]
    end
  else
    let h := hdz (tlz (tlz l)) in
    enc_bytes (if css then css_hash_bytes h else html_hash_bytes h).
