(* Helpers/Lists.v — list/index lemmas used by the C16 proofs (the shared Common/ files are not
   edited; everything extra lives here). *)
From Verif Require Import Common.Base Common.Tactics Helpers.Model.
From Coq Require Import ZifyBool.

Definition is_byte (c : Z) : Prop := 0 <= c < 256.

Lemma len_zero_nil {A} (l : list A) : len l = 0 -> l = [].
Proof. destruct l; [reflexivity|]. rewrite len_cons. pose proof (len_nonneg l). lia. Qed.

Lemma skipz_0 {A} (l : list A) : skipz 0 l = l.
Proof. reflexivity. Qed.

Lemma skipz_neg {A} i (l : list A) : i <= 0 -> skipz i l = l.
Proof. intros H. unfold skipz. replace (Z.to_nat i) with 0%nat by lia. reflexivity. Qed.

Lemma skipz_nil {A} i : skipz i (@nil A) = [].
Proof. unfold skipz. apply skipn_nil. Qed.

Lemma firstz_nil {A} i : firstz i (@nil A) = [].
Proof. unfold firstz. apply firstn_nil. Qed.

Lemma firstz_0 {A} (l : list A) : firstz 0 l = [].
Proof. reflexivity. Qed.

Lemma skipz_cons {A} i (c : A) t : 0 <= i -> skipz (i + 1) (c :: t) = skipz i t.
Proof. intros H. unfold skipz. replace (Z.to_nat (i + 1)) with (S (Z.to_nat i)) by lia. reflexivity. Qed.

Lemma firstz_cons {A} i (c : A) t : 0 <= i -> firstz (i + 1) (c :: t) = c :: firstz i t.
Proof. intros H. unfold firstz. replace (Z.to_nat (i + 1)) with (S (Z.to_nat i)) by lia. reflexivity. Qed.

Lemma skipn_add_nat {A} (n m : nat) (l : list A) : skipn (n + m) l = skipn m (skipn n l).
Proof.
  revert l. induction n as [|n IH]; intros l; [reflexivity|].
  destruct l as [|x l]; [cbn; rewrite skipn_nil; reflexivity|]. cbn. apply IH.
Qed.

Lemma skipz_add {A} i k (l : list A) : 0 <= i -> 0 <= k -> skipz (i + k) l = skipz k (skipz i l).
Proof.
  intros Hi Hk. unfold skipz. rewrite Z2Nat.inj_add by assumption. apply skipn_add_nat.
Qed.

Lemma skipz_succ_tl {A} i (l : list A) : 0 <= i -> skipz (i + 1) l = tl (skipz i l).
Proof.
  intros H. unfold skipz. replace (Z.to_nat (i + 1)) with (S (Z.to_nat i)) by lia. apply skipn_S_tl.
Qed.

Lemma firstz_skipz {A} i (l : list A) : firstz i l ++ skipz i l = l.
Proof. unfold firstz, skipz. apply firstn_skipn. Qed.

Lemma firstz_all {A} i (l : list A) : len l <= i -> firstz i l = l.
Proof. intros H. unfold firstz, len in *. apply firstn_all2. lia. Qed.

Lemma skipz_all {A} i (l : list A) : len l <= i -> skipz i l = [].
Proof. intros H. unfold skipz, len in *. apply skipn_all2. lia. Qed.

Lemma skipz_nil_iff {A} i (l : list A) : 0 <= i -> (skipz i l = [] <-> len l <= i).
Proof.
  intros Hi. split; [|apply skipz_all].
  intros H. assert (E : len (skipz i l) = 0) by (rewrite H; reflexivity).
  destruct (Z_le_gt_dec (len l) i) as [|Hgt]; [assumption|].
  rewrite len_skipz in E by lia. lia.
Qed.

Lemma firstz_app_len {A} (a b : list A) : firstz (len a) (a ++ b) = a.
Proof.
  unfold firstz, len. rewrite Nat2Z.id. rewrite firstn_app, Nat.sub_diag, firstn_all. cbn. apply app_nil_r.
Qed.

Lemma skipz_app_len {A} (a b : list A) : skipz (len a) (a ++ b) = b.
Proof.
  unfold skipz, len. rewrite Nat2Z.id. rewrite skipn_app, Nat.sub_diag, skipn_all. reflexivity.
Qed.

Lemma firstz_app_more {A} (a b : list A) k : 0 <= k -> firstz (len a + k) (a ++ b) = a ++ firstz k b.
Proof.
  intros Hk. unfold firstz, len. rewrite Z2Nat.inj_add by lia. rewrite Nat2Z.id.
  rewrite firstn_app_2. reflexivity.
Qed.

Lemma skipz_app_more {A} (a b : list A) k : 0 <= k -> skipz (len a + k) (a ++ b) = skipz k b.
Proof.
  intros Hk. rewrite skipz_add by (try apply len_nonneg; assumption). rewrite skipz_app_len. reflexivity.
Qed.

Lemma firstz_add {A} i k (l : list A) : 0 <= i -> 0 <= k -> firstz (i + k) l = firstz i l ++ firstz k (skipz i l).
Proof.
  intros Hi Hk. destruct (Z_le_gt_dec (len l) i) as [Hle|Hgt].
  - rewrite (firstz_all i), (firstz_all (i + k)), (skipz_all i) by lia. rewrite firstz_nil, app_nil_r. reflexivity.
  - rewrite <- (firstz_skipz i l) at 1.
    replace i with (len (firstz i l)) at 1 by (apply len_firstz; lia).
    apply firstz_app_more. assumption.
Qed.

Lemma peekz_hd b i : 0 <= i -> peekz b i = hd_error (skipz i b).
Proof.
  intros Hi. unfold peekz, skipz. zb. cbn [andb].
  destruct (Z.ltb_spec i (len b)) as [Hlt|Hge].
  - revert b Hlt. generalize (Z.to_nat i) as n. intros n b _.
    revert b. induction n as [|n IH]; intros b; destruct b as [|c t]; try reflexivity. cbn. apply IH.
  - rewrite skipn_all2 by (unfold len in Hge; lia). reflexivity.
Qed.

Lemma peekz_cons_0 c t : peekz (c :: t) 0 = Some c.
Proof. rewrite peekz_hd by lia. reflexivity. Qed.

Lemma peekz_view pre suf : peekz (pre ++ suf) (len pre) = hd_error suf.
Proof. rewrite peekz_hd by apply len_nonneg. rewrite skipz_app_len. reflexivity. Qed.

Lemma guarded_hd p b i : 0 <= i ->
  guarded p b i = Some (match skipz i b with c :: _ => p c | [] => false end).
Proof.
  intros Hi. unfold guarded. destruct (Z.ltb_spec i (len b)) as [Hlt|Hge].
  - rewrite peekz_hd by assumption. destruct (skipz i b) as [|c t] eqn:E; [|reflexivity].
    apply skipz_nil_iff in E; [lia|assumption].
  - rewrite skipz_all by assumption. reflexivity.
Qed.

(* --- run ------------------------------------------------------------------------------- *)
Lemma run_bound p l : 0 <= run p l <= len l.
Proof.
  induction l as [|c t IH]; cbn [run]; [unfold len; cbn; lia|]. rewrite len_cons. destruct (p c); lia.
Qed.

Lemma run_app_all p a r : forallb p a = true -> run p (a ++ r) = len a + run p r.
Proof.
  induction a as [|c a IH]; cbn [forallb app run]; intros H; [unfold len; cbn; lia|].
  apply andb_true_iff in H. destruct H as [Hc Ha]. rewrite Hc, len_cons, IH by assumption. lia.
Qed.

Lemma run_stop p c t : p c = false -> run p (c :: t) = 0.
Proof. intros H. cbn [run]. rewrite H. reflexivity. Qed.

Lemma run_firstz_all p l : forallb p (firstz (run p l) l) = true.
Proof.
  induction l as [|c t IH]; cbn [run]; [reflexivity|]. destruct (p c) eqn:E; [|reflexivity].
  replace (1 + run p t) with (run p t + 1) by lia. rewrite firstz_cons by apply run_bound.
  cbn [forallb]. rewrite E, IH. reflexivity.
Qed.

Lemma run_skipz_head p l : match skipz (run p l) l with c :: _ => p c = false | [] => True end.
Proof.
  induction l as [|c t IH]; cbn [run]; [exact I|]. destruct (p c) eqn:E.
  - replace (1 + run p t) with (run p t + 1) by lia. rewrite skipz_cons by apply run_bound. exact IH.
  - rewrite skipz_0. exact E.
Qed.

Lemma run_pos_head p l : 0 < run p l -> exists c t, l = c :: t /\ p c = true /\ run p l = 1 + run p t.
Proof.
  destruct l as [|c t]; cbn [run]; [lia|]. destruct (p c) eqn:E; [|lia]. intros _. eauto.
Qed.

Lemma run_zero_head p c t : run p (c :: t) = 0 -> p c = false.
Proof. cbn [run]. destruct (p c); [|reflexivity]. pose proof (run_bound p t). lia. Qed.

Lemma run_all p l : forallb p l = true -> run p l = len l.
Proof.
  intros H. rewrite <- (app_nil_r l) at 1. rewrite run_app_all by assumption. cbn [run]. lia.
Qed.

Lemma forallb_app_iff {A} (p : A -> bool) a b : forallb p (a ++ b) = true <-> forallb p a = true /\ forallb p b = true.
Proof. rewrite forallb_app. apply andb_true_iff. Qed.

Lemma scan_eq p b i : scan p b i = i + run p (skipz i b).
Proof. reflexivity. Qed.

(* --- list_eqb ---------------------------------------------------------------------------- *)
Lemma list_eqb_eq a b : list_eqb a b = true <-> a = b.
Proof.
  revert b. induction a as [|x a IH]; intros [|y b]; cbn [list_eqb]; split; intros H; try reflexivity; try discriminate.
  - apply andb_true_iff in H. destruct H as [H1 H2]. apply Z.eqb_eq in H1. apply IH in H2. congruence.
  - injection H as -> ->. rewrite Z.eqb_refl. apply IH. reflexivity.
Qed.

Lemma list_eqb_refl a : list_eqb a a = true.
Proof. apply list_eqb_eq. reflexivity. Qed.

Lemma list_eqb_neq a b : list_eqb a b = false <-> a <> b.
Proof.
  split.
  - intros H E. apply list_eqb_eq in E. congruence.
  - intros H. destruct (list_eqb a b) eqn:E; [|reflexivity]. apply list_eqb_eq in E. contradiction.
Qed.

Lemma slice_full {A} (l : list A) : slice l 0 (len l) = l.
Proof. unfold slice. rewrite skipz_0, Z.sub_0_r. apply firstz_all. lia. Qed.

Lemma slice_app_mid {A} (a m r : list A) : slice (a ++ m ++ r) (len a) (len a + len m) = m.
Proof.
  unfold slice. rewrite skipz_app_len. replace (len a + len m - len a) with (len m) by lia.
  apply firstz_app_len.
Qed.
