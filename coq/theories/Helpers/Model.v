(* Helpers/Model.v — executable model of the small helpers of the root package (C16):
   common.go: Number, Dimension, Mediatype, DataURI, EncodeURL, DecodeURL;
   util.go:   ToLower, EqualFold, IsWhitespace, IsNewline, IsAllWhitespace, TrimWhitespace;
   css/hash.go, html/hash.go: ToHash, Hash.Bytes (one model, parameterised by the generated tables);
   and of encoding/base64.StdEncoding.Decode as DataURI uses it (decoded bytes or "an error").
   Definitions only.  A Go panic (index / slice out of range) is [None] / [Panic]; a loop whose
   termination is not structural runs on fuel and reports [OutOfFuel] (never the case for the
   tables of /repo: see Proofs.v). *)
From Verif Require Import Common.Base.
From Verif Require Gen.Tables.

Inductive res (A : Type) : Type := Ok (a : A) | Panic | OutOfFuel.
Arguments Ok {A} a.
Arguments Panic {A}.
Arguments OutOfFuel {A}.

(* --- byte classes -------------------------------------------------------------------- *)
Definition is_digit (c : Z) : bool := (48 <=? c) && (c <=? 57).                 (* '0'..'9' *)
Definition is_sign (c : Z) : bool := (c =? 43) || (c =? 45).                    (* + - *)
Definition is_exp (c : Z) : bool := (c =? 101) || (c =? 69).                    (* e E *)
Definition is_dot (c : Z) : bool := c =? 46.
Definition is_alpha (c : Z) : bool := ((97 <=? c) && (c <=? 122)) || ((65 <=? c) && (c <=? 90)).
Definition is_sp (c : Z) : bool := c =? 32.

(* number of leading elements satisfying p *)
Fixpoint run (p : Z -> bool) (l : list Z) : Z :=
  match l with
  | c :: t => if p c then 1 + run p t else 0
  | [] => 0
  end.

(* "for i < len(b) && p(b[i]) { i++ }": the index after the loop *)
Definition scan (p : Z -> bool) (b : list Z) (i : Z) : Z := i + run p (skipz i b).

(* "i < len(b) && p(b[i])": b[i] is only evaluated under the guard *)
Definition guarded (p : Z -> bool) (b : list Z) (i : Z) : option bool :=
  if i <? len b then c <- peekz b i ;; Some (p c) else Some false.

(* --- Number (common.go:21-71) --------------------------------------------------------- *)
(* the exponent part, entered with i after the mantissa *)
Definition number_exp (b : list Z) (i : Z) : option Z :=
  let i_old := i in
  e <- guarded is_exp b i ;;
  if e then
    let i := i + 1 in
    sg <- guarded is_sign b i ;;
    let i := if sg then i + 1 else i in
    if len b <=? i then Some i_old else
    c <- peekz b i ;;
    if negb (is_digit c) then Some i_old      (* e could belong to the next token *)
    else Some (scan is_digit b i)
  else Some i.

Definition number (b : list Z) : option Z :=
  if len b =? 0 then Some 0 else
  c0 <- peekz b 0 ;;
  let i := if is_sign c0 then 1 else 0 in
  if is_sign c0 && (len b <=? i) then Some 0 else
  ci <- peekz b i ;;
  let first_digit := is_digit ci in
  let i := if first_digit then scan is_digit b (i + 1) else i in
  dot <- guarded is_dot b i ;;
  if dot then
    let i := i + 1 in
    dig <- guarded is_digit b i ;;
    if dig then number_exp b (scan is_digit b (i + 1))
    else if first_digit then Some (i - 1)     (* . could belong to the next token *)
    else Some 0
  else if negb first_digit then Some 0
  else number_exp b i.

(* --- Dimension (common.go:74-88) ------------------------------------------------------ *)
Definition dimension (b : list Z) : option (Z * Z) :=
  num <- number b ;;
  if (num =? 0) || (num =? len b) then Some (num, 0) else
  c <- peekz b num ;;
  if c =? 37 then Some (num, 1)
  else if is_alpha c then Some (num, scan is_alpha b (num + 1) - num)
  else Some (num, 0).

(* --- byte tables (util.go) ------------------------------------------------------------ *)
(* t[c] for a [256]bool table: None outside the table *)
Definition tbl (t : list bool) (c : Z) : option bool :=
  if 0 <=? c then nth_error t (Z.to_nat c) else None.

Definition is_whitespace (c : Z) : option bool := tbl Tables.whitespace_table c.
Definition is_newline (c : Z) : option bool := tbl Tables.newline_table c.

Fixpoint all_ws (b : list Z) : option bool :=
  match b with
  | [] => Some true
  | c :: t => w <- is_whitespace c ;; if w then all_ws t else Some false
  end.

(* first loop of TrimWhitespace: l is the suffix at index i *)
Fixpoint trim_start (l : list Z) (i n : Z) : option Z :=
  match l with
  | [] => Some n
  | c :: t => w <- is_whitespace c ;; if w then trim_start t (i + 1) n else Some i
  end.

(* second loop: i runs from start+k-1 down to start *)
Fixpoint trim_end (b : list Z) (start : Z) (k : nat) (n : Z) : option Z :=
  match k with
  | O => Some n
  | S k' =>
      let i := start + Z.of_nat k' in
      c <- peekz b i ;;
      w <- is_whitespace c ;;
      if w then trim_end b start k' n else Some (i + 1)
  end.

(* the returned slice b[start:end] as its two indices *)
Definition trim_whitespace (b : list Z) : option (Z * Z) :=
  let n := len b in
  start <- trim_start b 0 n ;;
  e <- trim_end b start (Z.to_nat (n - start)) n ;;
  if slice_ok start e n then Some (start, e) else None.

Definition trim_bytes (b : list Z) : option (list Z) :=
  r <- trim_whitespace b ;; Some (slice b (fst r) (snd r)).

(* --- ToLower, EqualFold (util.go) ----------------------------------------------------- *)
Definition lower (c : Z) : Z := if (65 <=? c) && (c <=? 90) then c + 32 else c.
Definition to_lower (b : list Z) : list Z := map lower b.

(* "for i, c := range targetLower { d := s[i] ..." *)
Fixpoint equal_fold_from (s : list Z) (i : Z) (t : list Z) : option bool :=
  match t with
  | [] => Some true
  | c :: t' =>
      d <- peekz s i ;;
      if negb (d =? c) && ((d <? 65) || (90 <? d) || negb (d + 32 =? c)) then Some false
      else equal_fold_from s (i + 1) t'
  end.

Definition equal_fold (s t : list Z) : option bool :=
  if negb (len s =? len t) then Some false else equal_fold_from s 0 t.

(* --- EncodeURL / DecodeURL (common.go:508-546) ----------------------------------------- *)
Definition hex_upper : list Z := [48; 49; 50; 51; 52; 53; 54; 55; 56; 57; 65; 66; 67; 68; 69; 70].

(* the loop re-reads len(b) and looks at EVERY index, including the two hex digits just written *)
Fixpoint encode_loop (fuel : nat) (t : list bool) (b : list Z) (i : Z) : res (list Z) :=
  match fuel with
  | O => OutOfFuel
  | S f =>
      if len b <=? i then Ok b else
      match peekz b i with
      | None => Panic
      | Some c =>
          match tbl t c with
          | None => Panic
          | Some false => encode_loop f t b (i + 1)
          | Some true =>
              match peekz hex_upper (Z.shiftr c 4), peekz hex_upper (Z.land c 15) with
              | Some h, Some l => encode_loop f t (firstz i b ++ 37 :: h :: l :: skipz (i + 1) b) (i + 1)
              | _, _ => Panic
              end
          end
      end
  end.

Definition encode_url (b : list Z) (t : list bool) : res (list Z) :=
  encode_loop (Z.to_nat (3 * len b + 1)) t b 0.

Definition is_hex (c : Z) : bool :=
  is_digit c || ((97 <=? c) && (c <=? 102)) || ((65 <=? c) && (c <=? 70)).
Definition hex_val (c : Z) : Z :=
  if c <=? 57 then c - 48 else if c <=? 70 then c - 65 + 10 else c - 97 + 10.

(* decodeURL(b, plus): '+' becomes a space only if plus is set *)
Fixpoint decode_loop (plus : bool) (fuel : nat) (b : list Z) (i : Z) : res (list Z) :=
  match fuel with
  | O => OutOfFuel
  | S f =>
      if len b <=? i then Ok b else
      match peekz b i with
      | None => Panic
      | Some c =>
          if (c =? 37) && (i + 2 <? len b) then
            (* inner loop over j = i+1, i+2 *)
            match peekz b (i + 1) with
            | None => Panic
            | Some h1 =>
                if is_hex h1 then
                  match peekz b (i + 2) with
                  | None => Panic
                  | Some h2 =>
                      if is_hex h2
                      then decode_loop plus f (firstz i b ++ ((hex_val h1 * 16 + hex_val h2) mod 256) :: skipz (i + 3) b) (i + 1)
                      else decode_loop plus f b (i + 1)
                  end
                else decode_loop plus f b (i + 1)
            end
          else if plus && (c =? 43) then decode_loop plus f (setz b i 32) (i + 1)
          else decode_loop plus f b (i + 1)
      end
  end.

Definition decode_url_gen (plus : bool) (b : list Z) : res (list Z) := decode_loop plus (Z.to_nat (len b + 1)) b 0.
(* DecodeURL(b) = decodeURL(b, true) *)
Definition decode_url (b : list Z) : res (list Z) := decode_url_gen true b.

(* --- encoding/base64 StdEncoding.Decode: Some bytes, or None for any CorruptInputError ----- *)
Definition b64_val (c : Z) : Z :=
  if (65 <=? c) && (c <=? 90) then c - 65
  else if (97 <=? c) && (c <=? 122) then c - 71
  else if (48 <=? c) && (c <=? 57) then c + 4
  else if c =? 43 then 62
  else if c =? 47 then 63
  else -1.
Definition is_crlf (c : Z) : bool := (c =? 10) || (c =? 13).

(* after the padding: only newlines may follow *)
Definition only_crlf (l : list Z) : bool := len l =? run is_crlf l.

(* j = number of sextets collected in the current quantum (acc, most significant first) *)
Fixpoint b64_decode_from (src : list Z) (j : nat) (acc : Z) : option (list Z) :=
  match src with
  | [] => match j with O => Some [] | _ => None end
  | c :: t =>
      if 0 <=? b64_val c then
        match j with
        | S (S (S _)) =>
            let v := acc * 64 + b64_val c in
            match b64_decode_from t O 0 with
            | Some r => Some ((v / 65536) mod 256 :: (v / 256) mod 256 :: v mod 256 :: r)
            | None => None
            end
        | _ => b64_decode_from t (S j) (acc * 64 + b64_val c)
        end
      else if is_crlf c then b64_decode_from t j acc
      else if negb (c =? 61) then None
      else match j with
           | S (S O) =>      (* xx== : one byte *)
               let t1 := skipz (run is_crlf t) t in
               match t1 with
               | [] => None
               | c1 :: t2 => if (c1 =? 61) && only_crlf t2 then Some [(acc / 16) mod 256] else None
               end
           | S (S (S O)) =>  (* xxx= : two bytes *)
               if only_crlf t then Some [(acc / 1024) mod 256; (acc / 4) mod 256] else None
           | _ => None
           end
  end.

Definition b64_decode (src : list Z) : option (list Z) := b64_decode_from src O 0.

(* --- DataURI (common.go:154-196) ------------------------------------------------------- *)
Fixpoint list_eqb (a b : list Z) : bool :=
  match a, b with
  | [], [] => true
  | x :: a', y :: b' => (x =? y) && list_eqb a' b'
  | _, _ => false
  end.

Definition data_scheme : list Z := [100; 97; 116; 97; 58].                           (* data: *)
Definition base64_bytes : list Z := [98; 97; 115; 101; 54; 52].                      (* base64 *)
Definition text_mime : list Z := [116; 101; 120; 116; 47; 112; 108; 97; 105; 110].    (* text/plain *)

Inductive dres := DOk (mediatype data : list Z) | DBad | DB64Err.

Section DataURI.
  (* base64.StdEncoding.Decode: None = error *)
  Variable b64dec : list Z -> option (list Z).

  (* rest is dataURI[j:]; i, the media type built so far, inBase64 and prev (the previous delimiter,
     0 at the start) are the loop's variables *)
  Fixpoint datauri_loop (u rest : list Z) (j i : Z) (mt : list Z) (inb : bool) (prev : Z) : res dres :=
    match rest with
    | [] => Ok DBad
    | c :: rest' =>
        if (c =? 61) || (c =? 59) || (c =? 44) then
          if negb (slice_ok i j (len u)) then Panic else
          match trim_bytes (slice u i j) with
          | None => Panic
          | Some seg =>
              let '(mt1, inb1, i1) :=
                if negb (c =? 61) && negb (prev =? 61) && list_eqb seg base64_bytes then
                  ((if 0 <? len mt then firstz (len mt - 1) mt else mt), true, j)
                else if negb (c =? 44) then (mt ++ seg ++ [c], inb, j + 1)
                else (mt ++ seg, inb, i) in
              if c =? 44 then
                match (if len mt1 =? 0 then Some true else m0 <- peekz mt1 0 ;; Some (m0 =? 59)) with
                | None => Panic
                | Some dflt =>
                    let mt2 := if dflt then text_mime else mt1 in
                    if inb1 then
                      match b64dec rest' with
                      | Some d => Ok (DOk mt2 d)
                      | None => Ok DB64Err
                      end
                    else
                      match decode_url_gen false rest' with        (* a plus sign is not a space in a data URI *)
                      | Ok d => Ok (DOk mt2 d)
                      | Panic => Panic
                      | OutOfFuel => OutOfFuel
                      end
                end
              else datauri_loop u rest' (j + 1) i1 mt1 inb1 c
          end
        else datauri_loop u rest' (j + 1) i mt inb prev
    end.

  Definition data_uri (b : list Z) : res dres :=
    if (5 <? len b) && list_eqb (firstz 5 b) data_scheme then
      let u := skipz 5 b in datauri_loop u u 0 0 [] false 0
    else Ok DBad.
End DataURI.

(* --- Mediatype (common.go:92-151) ------------------------------------------------------- *)
Definition is_semi_or_sp (c : Z) : bool := (c =? 59) || (c =? 32).
Definition key_char (c : Z) : bool := negb ((c =? 61) || (c =? 59) || (c =? 32)).
Definition val_char (c : Z) : bool := negb ((c =? 59) || (c =? 32)).

Definition checked_slice (s : list Z) (lo hi : Z) : option (list Z) :=
  if slice_ok lo hi (len s) then Some (slice s lo hi) else None.

(* the PARAM: loop; entered with i at a ';'.  params: most recent assignment first *)
Fixpoint mediatype_params (fuel : nat) (s : list Z) (i : Z) (params : list (list Z * list Z))
  : res (list (list Z * list Z)) :=
  match fuel with
  | O => OutOfFuel
  | S f =>
      let i := i + 1 in
      let i := scan is_sp s i in
      let start := i in
      let i := scan key_char s i in
      match checked_slice s start i with
      | None => Panic
      | Some key =>
          let i := scan is_sp s i in
          match guarded (fun c => c =? 61) s i with
          | None => Panic
          | Some eq =>
              let '(start, i) :=
                if eq then let i := scan is_sp s (i + 1) in (i, scan val_char s i) else (i, i) in
              match checked_slice s start i with
              | None => Panic
              | Some v =>
                  let params := (key, v) :: params in
                  let i := scan is_sp s i in
                  match guarded (fun c => c =? 59) s i with
                  | None => Panic
                  | Some true => mediatype_params f s i params
                  | Some false => Ok params
                  end
              end
          end
      end
  end.

(* result: offset and length of the mimetype in the argument, and the parameter map (None = nil) *)
Definition mediatype (b0 : list Z) : res (Z * Z * option (list (list Z * list Z))) :=
  let off := scan is_sp b0 0 in
  if negb (slice_ok off (len b0) (len b0)) then Panic else
  let b := skipz off b0 in
  let n := len b in
  (* for i := 3; i < n; i++ { if b[i] == ';' || b[i] == ' ' *)
  let i := scan (fun c => negb (is_semi_or_sp c)) b 3 in
  if n <=? i then Ok (off, n, None) else
  match peekz b i with
  | None => Panic
  | Some c =>
      let mlen := i in
      let go (i : Z) :=
        match mediatype_params (Z.to_nat (n + 1)) b i [] with
        | Ok ps => Ok (off, mlen, Some ps)
        | Panic => Panic
        | OutOfFuel => OutOfFuel
        end in
      if c =? 32 then
        let i := scan is_sp b (i + 1) in
        if n <=? i then Ok (off, mlen, None) else
        match peekz b i with
        | None => Panic
        | Some c1 => if negb (c1 =? 59) then Ok (off, mlen, None) else go i
        end
      else go i
  end.

(* --- ToHash, Hash.Bytes (css/hash.go, html/hash.go) -------------------------------------- *)
Definition two32 : Z := 4294967296.

(* h ^= uint32(s[i]); h *= 16777619  in uint32 arithmetic *)
Definition fnv_step (h c : Z) : Z := (Z.lxor h c * 16777619) mod two32.
Definition fnv (h0 : Z) (s : list Z) : Z := fold_left fnv_step s h0.

Section Hash.
  Variable text : list Z.      (* _Hash_text *)
  Variable table : list Z.     (* _Hash_table *)
  Variable hash0 maxlen : Z.

  (* one probe: None = panic; Some (Some i) = matched entry; Some None = no match *)
  Definition probe (s : list Z) (idx : Z) : option (option Z) :=
    e <- peekz table idx ;;
    if Z.land e 255 =? len s then
      t <- checked_slice text (Z.shiftr e 8) (Z.shiftr e 8 + Z.land e 255) ;;
      if list_eqb t s then Some (Some e) else Some None
    else Some None.

  Definition to_hash (s : list Z) : option Z :=
    if (len s =? 0) || (maxlen <? len s) then Some 0 else
    let h := fnv hash0 s in
    let mask := len table - 1 in
    p1 <- probe s (Z.land h mask) ;;
    match p1 with
    | Some e => Some e
    | None =>
        (* NEXT: the second probe is tried both when the length differs and when a byte differs *)
        p2 <- probe s (Z.land (Z.shiftr h 16) mask) ;;
        match p2 with Some e => Some e | None => Some 0 end
    end.

  (* Hash.Bytes *)
  Definition hash_bytes (h : Z) : list Z :=
    let start := Z.shiftr h 8 in
    let n := Z.land h 255 in
    if len text <? (start + n) mod two32 then [] else slice text start (start + n).
End Hash.

Definition css_to_hash := to_hash Tables.css_hash_text Tables.css_hash_table Tables.css_hash_hash0 Tables.css_hash_maxlen.
Definition html_to_hash := to_hash Tables.html_hash_text Tables.html_hash_table Tables.html_hash_hash0 Tables.html_hash_maxlen.
Definition css_hash_bytes := hash_bytes Tables.css_hash_text.
Definition html_hash_bytes := hash_bytes Tables.html_hash_text.
