(* Helpers/NumberProofs.v — Number and Dimension return the longest prefix of the documented grammar. *)
From Verif Require Import Common.Base Common.Tactics Helpers.Model Helpers.Lists.
From Coq Require Import ZifyBool.

(* --- the documented regular expression, as an inductive grammar ------------------------------
   (+|-)?([0-9]+(\.[0-9]+)?|\.[0-9]+)((e|E)(+|-)?[0-9]+)?                                      *)
Definition digit (c : Z) : Prop := 48 <= c <= 57.

Inductive digits1 : list Z -> Prop :=              (* [0-9]+ *)
| digits1_one c : digit c -> digits1 [c]
| digits1_cons c l : digit c -> digits1 l -> digits1 (c :: l).

Inductive opt_sign : list Z -> Prop :=             (* (+|-)? *)
| sign_none : opt_sign []
| sign_plus : opt_sign [43]
| sign_minus : opt_sign [45].

Inductive mantissa : list Z -> Prop :=             (* [0-9]+(\.[0-9]+)? | \.[0-9]+ *)
| mant_int a : digits1 a -> mantissa a
| mant_frac a c : digits1 a -> digits1 c -> mantissa (a ++ 46 :: c)
| mant_dot c : digits1 c -> mantissa (46 :: c).

Inductive opt_exponent : list Z -> Prop :=         (* ((e|E)(+|-)?[0-9]+)? *)
| exp_none : opt_exponent []
| exp_some e s d : e = 101 \/ e = 69 -> opt_sign s -> digits1 d -> opt_exponent (e :: s ++ d).

Inductive is_number : list Z -> Prop :=
| number_intro s m e : opt_sign s -> mantissa m -> opt_exponent e -> is_number (s ++ m ++ e).

(* '%' or [a-zA-Z]+ *)
Definition alpha (c : Z) : Prop := 97 <= c <= 122 \/ 65 <= c <= 90.
Inductive is_unit : list Z -> Prop :=
| unit_percent : is_unit [37]
| unit_alpha l : l <> [] -> Forall alpha l -> is_unit l.

(* --- digits1 as a boolean fact ---------------------------------------------------------------- *)
Lemma is_digit_iff c : is_digit c = true <-> digit c.
Proof. unfold is_digit, digit. lia. Qed.

Lemma digits1_iff l : digits1 l <-> l <> [] /\ forallb is_digit l = true.
Proof.
  split.
  - induction 1 as [c Hc|c l Hc _ [_ IH]]; (split; [discriminate|]); cbn [forallb].
    + apply is_digit_iff in Hc. rewrite Hc. reflexivity.
    + apply is_digit_iff in Hc. rewrite Hc, IH. reflexivity.
  - intros [Hne Hall]. induction l as [|c l IH]; [contradiction|].
    cbn [forallb] in Hall. apply andb_true_iff in Hall. destruct Hall as [Hc Hl].
    apply is_digit_iff in Hc. destruct l as [|c' l']; [apply digits1_one; assumption|].
    apply digits1_cons; [assumption|]. apply IH; [discriminate|assumption].
Qed.

Lemma digits1_len d : digits1 d -> 0 < len d.
Proof. intros H. apply digits1_iff in H. destruct H as [Hne _]. destruct d; [contradiction|]. rewrite len_cons. pose proof (len_nonneg d). lia. Qed.

Lemma digits1_head d : digits1 d -> exists c t, d = c :: t /\ is_digit c = true.
Proof.
  intros H. apply digits1_iff in H. destruct H as [Hne Hall]. destruct d as [|c t]; [contradiction|].
  cbn [forallb] in Hall. apply andb_true_iff in Hall. destruct Hall. eauto.
Qed.

Lemma run_digits_app d r : digits1 d -> run is_digit (d ++ r) = len d + run is_digit r.
Proof. intros H. apply digits1_iff in H. destruct H. apply run_app_all. assumption. Qed.

(* the digits found by the scanner form [0-9]+ when there is at least one *)
Lemma digits1_run l : 0 < run is_digit l -> digits1 (firstz (run is_digit l) l).
Proof.
  intros H. apply digits1_iff. split; [|apply run_firstz_all].
  intros E. assert (L : len (firstz (run is_digit l) l) = 0) by (rewrite E; reflexivity).
  rewrite len_firstz in L by (pose proof (run_bound is_digit l); lia). lia.
Qed.

(* --- list-level reading of the scanner ---------------------------------------------------------- *)
(* bytes taken by the optional sign *)
Definition sign_l (l : list Z) : Z := match l with c :: _ => if is_sign c then 1 else 0 | [] => 0 end.

(* bytes taken by the exponent part at suffix l *)
Definition exp_l (l : list Z) : Z :=
  match l with
  | c :: t =>
      if is_exp c then
        let sl := sign_l t in
        let d := run is_digit (skipz sl t) in
        if 0 <? d then 1 + sl + d else 0
      else 0
  | [] => 0
  end.

Definition number_l (b : list Z) : Z :=
  let sl := sign_l b in
  let b1 := skipz sl b in
  let d1 := run is_digit b1 in
  let b2 := skipz d1 b1 in
  match b2 with
  | c :: b3 =>
      if is_dot c then
        let d2 := run is_digit b3 in
        if 0 <? d2 then sl + d1 + 1 + d2 + exp_l (skipz d2 b3)
        else if 0 <? d1 then sl + d1 else 0
      else if 0 <? d1 then sl + d1 + exp_l b2 else 0
  | [] => if 0 <? d1 then sl + d1 else 0
  end.

Lemma sign_l_range l : 0 <= sign_l l <= 1.
Proof. unfold sign_l. destruct l as [|c t]; [lia|]. destruct (is_sign c); lia. Qed.

Lemma sign_l_len l : sign_l l <= len l.
Proof. unfold sign_l. destruct l as [|c t]; [unfold len; cbn; lia|]. rewrite len_cons. pose proof (len_nonneg t). destruct (is_sign c); lia. Qed.

Lemma exp_l_range l : 0 <= exp_l l <= len l.
Proof.
  unfold exp_l. destruct l as [|c t]; [unfold len; cbn; lia|]. rewrite len_cons. pose proof (len_nonneg t).
  destruct (is_exp c); [|lia].
  pose proof (sign_l_range t). pose proof (sign_l_len t).
  pose proof (run_bound is_digit (skipz (sign_l t) t)) as Hr. rewrite len_skipz in Hr by lia.
  destruct (0 <? run is_digit (skipz (sign_l t) t)); lia.
Qed.

(* --- the index-level model computes the list-level reading ---------------------------------------- *)
Lemma is_sign_cases c : is_sign c = true <-> c = 43 \/ c = 45.
Proof. unfold is_sign. lia. Qed.

Lemma number_exp_l b i : 0 <= i -> number_exp b i = Some (i + exp_l (skipz i b)).
Proof.
  intros Hi. unfold number_exp. rewrite guarded_hd by assumption.
  destruct (skipz i b) as [|c t] eqn:E; cbn [option_bind exp_l]; [f_equal; lia|].
  destruct (is_exp c) eqn:Ec; [|f_equal; lia].
  assert (Et : skipz (i + 1) b = t) by (rewrite skipz_succ_tl, E by assumption; reflexivity).
  rewrite guarded_hd by lia. rewrite Et. cbn [option_bind].
  assert (Hs : (if match t with c0 :: _ => is_sign c0 | [] => false end then i + 1 + 1 else i + 1) = i + 1 + sign_l t).
  { unfold sign_l. destruct t as [|c0 t0]; [lia|]. destruct (is_sign c0); lia. }
  rewrite Hs. clear Hs.
  pose proof (sign_l_range t) as Hsr.
  assert (Et2 : skipz (i + 1 + sign_l t) b = skipz (sign_l t) t).
  { rewrite skipz_add by lia. rewrite Et. reflexivity. }
  destruct (Z.leb_spec (len b) (i + 1 + sign_l t)) as [Hle|Hgt].
  - rewrite skipz_all in Et2 by assumption. rewrite <- Et2. cbn [run]. cbn. f_equal. lia.
  - rewrite peekz_hd by lia. rewrite Et2.
    destruct (skipz (sign_l t) t) as [|d t2] eqn:E2.
    { apply skipz_nil_iff in Et2; lia. }
    cbn [hd_error option_bind]. unfold scan. rewrite Et2.
    cbn [run]. destruct (is_digit d) eqn:Ed; cbn [negb].
    + pose proof (run_bound is_digit t2). replace (0 <? 1 + run is_digit t2) with true by lia. f_equal. lia.
    + cbn. f_equal. lia.
Qed.

Lemma number_is_number_l b : number b = Some (number_l b).
Proof.
  unfold number. destruct (Z.eqb_spec (len b) 0) as [E0|E0].
  { destruct b; [reflexivity|]. rewrite len_cons in E0. pose proof (len_nonneg b). lia. }
  destruct b as [|c0 t0]; [contradiction E0; reflexivity|].
  rewrite peekz_cons_0. cbn [option_bind].
  unfold number_l. cbn [sign_l].
  set (sl := if is_sign c0 then 1 else 0).
  assert (Hsl : 0 <= sl <= 1) by (unfold sl; destruct (is_sign c0); lia).
  pose proof (len_nonneg t0) as Ht0.
  destruct (is_sign c0 && (len (c0 :: t0) <=? sl)) eqn:Eshort.
  { (* a sign and nothing else *)
    apply andb_true_iff in Eshort. destruct Eshort as [Es Hl]. unfold sl in *. rewrite Es in *.
    rewrite len_cons in Hl. assert (t0 = []) by (destruct t0; [reflexivity|rewrite len_cons in Hl; pose proof (len_nonneg t0); lia]).
    subst t0. reflexivity. }
  set (b := c0 :: t0) in *.
  assert (Hlen : sl < len b).
  { unfold b. rewrite len_cons. apply andb_false_iff in Eshort. destruct Eshort as [Es|Hl].
    - unfold sl. rewrite Es. lia.
    - unfold b in Hl. rewrite len_cons in Hl. lia. }
  rewrite peekz_hd by lia.
  set (b1 := skipz sl b).
  destruct b1 as [|ci t1] eqn:Eb1.
  { unfold b1 in Eb1. apply skipz_nil_iff in Eb1; lia. }
  cbn [hd_error option_bind].
  set (d1 := run is_digit (ci :: t1)).
  assert (Hscan : (if is_digit ci then scan is_digit b (sl + 1) else sl) = sl + d1).
  { unfold d1. cbn [run]. destruct (is_digit ci); [|lia].
    unfold scan. rewrite skipz_succ_tl by lia. fold b1. rewrite Eb1. cbn [tl]. lia. }
  rewrite Hscan. clear Hscan.
  assert (Hd1 : 0 <= d1 <= len (ci :: t1)) by apply run_bound.
  assert (Hfd : is_digit ci = (0 <? d1)).
  { unfold d1. cbn [run]. destruct (is_digit ci); [|reflexivity]. pose proof (run_bound is_digit t1). lia. }
  assert (Eb2 : skipz (sl + d1) b = skipz d1 (ci :: t1)).
  { rewrite skipz_add by lia. fold b1. rewrite Eb1. reflexivity. }
  rewrite guarded_hd by lia. rewrite Eb2.
  destruct (skipz d1 (ci :: t1)) as [|c b3] eqn:E2; cbn [option_bind].
  { (* end of input after the digits *)
    rewrite Hfd. destruct (0 <? d1) eqn:Epos; cbn [negb]; [|reflexivity].
    rewrite number_exp_l by lia. rewrite Eb2. cbn [exp_l]. f_equal. lia. }
  destruct (is_dot c) eqn:Edot.
  - assert (Eb3 : skipz (sl + d1 + 1) b = b3).
    { rewrite skipz_succ_tl by lia. rewrite Eb2. reflexivity. }
    rewrite guarded_hd by lia. rewrite Eb3.
    set (d2 := run is_digit b3).
    assert (Hd2 : 0 <= d2 <= len b3) by apply run_bound.
    assert (Hdig : match b3 with c1 :: _ => is_digit c1 | [] => false end = (0 <? d2)).
    { unfold d2. destruct b3 as [|c1 t3]; [reflexivity|]. cbn [run]. destruct (is_digit c1); [|reflexivity].
      pose proof (run_bound is_digit t3). lia. }
    rewrite Hdig. cbn [option_bind]. destruct (0 <? d2) eqn:E2pos.
    + assert (Hsc : scan is_digit b (sl + d1 + 1 + 1) = sl + d1 + 1 + d2).
      { unfold scan. rewrite skipz_succ_tl by lia. rewrite Eb3. unfold d2.
        destruct b3 as [|c1 t3]; [cbn [run] in *; lia|]. cbn [tl run].
        cbn [run] in E2pos. destruct (is_digit c1); [lia|lia]. }
      rewrite Hsc. rewrite number_exp_l by lia.
      assert (Erest : skipz (sl + d1 + 1 + d2) b = skipz d2 b3).
      { rewrite skipz_add by lia. rewrite Eb3. reflexivity. }
      rewrite Erest. f_equal; lia.
    + rewrite Hfd. destruct (0 <? d1); f_equal; lia.
  - rewrite Hfd. destruct (0 <? d1) eqn:Epos; cbn [negb]; [|reflexivity].
    rewrite number_exp_l by lia. rewrite Eb2. reflexivity.
Qed.

Lemma number_no_panic_proof : forall b, exists n, number b = Some n.
Proof. intros b. exists (number_l b). apply number_is_number_l. Qed.

(* --- soundness: what the scanner takes is a number --------------------------------------------------- *)
Lemma sign_l_sound l : opt_sign (firstz (sign_l l) l).
Proof.
  unfold sign_l. destruct l as [|c t]; [apply sign_none|].
  destruct (is_sign c) eqn:E; [|apply sign_none].
  apply is_sign_cases in E. change (firstz 1 (c :: t)) with [c]. destruct E as [->| ->]; constructor.
Qed.

Lemma exp_l_sound l : opt_exponent (firstz (exp_l l) l).
Proof.
  unfold exp_l. destruct l as [|c t]; [apply exp_none|].
  destruct (is_exp c) eqn:Ec; [|apply exp_none].
  set (sl := sign_l t). set (d := run is_digit (skipz sl t)).
  destruct (0 <? d) eqn:Ed; [|apply exp_none].
  pose proof (sign_l_range t). pose proof (run_bound is_digit (skipz sl t)) as Hd. fold d in Hd.
  replace (1 + sl + d) with ((sl + d) + 1) by lia. rewrite firstz_cons by lia.
  rewrite firstz_add by lia.
  apply exp_some.
  - unfold is_exp in Ec. lia.
  - apply sign_l_sound.
  - apply digits1_run. fold d. lia.
Qed.

Lemma number_l_range b : 0 <= number_l b <= len b.
Proof.
  unfold number_l.
  set (sl := sign_l b). set (b1 := skipz sl b). set (d1 := run is_digit b1).
  pose proof (sign_l_range b) as Hs. pose proof (sign_l_len b) as Hsl. fold sl in Hs, Hsl.
  pose proof (run_bound is_digit b1) as Hd1. fold d1 in Hd1.
  assert (Lb1 : len b1 = len b - sl) by (unfold b1; apply len_skipz; lia).
  destruct (skipz d1 b1) as [|c b3] eqn:E2.
  - destruct (0 <? d1); lia.
  - assert (L2 : len (c :: b3) = len b1 - d1) by (rewrite <- E2; apply len_skipz; lia).
    rewrite len_cons in L2. pose proof (len_nonneg b3).
    destruct (is_dot c).
    + pose proof (run_bound is_digit b3) as Hd2.
      destruct (0 <? run is_digit b3).
      * pose proof (exp_l_range (skipz (run is_digit b3) b3)) as He.
        rewrite len_skipz in He by lia. lia.
      * destruct (0 <? d1); lia.
    + destruct (0 <? d1); [|lia]. pose proof (exp_l_range (c :: b3)) as He. rewrite len_cons in He. lia.
Qed.

Lemma firstz_decomp3 {A} (l : list A) a k :
  0 <= a -> 0 <= k -> firstz (a + k) l = firstz a l ++ firstz k (skipz a l).
Proof. apply firstz_add. Qed.

Lemma number_l_sound b : 0 < number_l b -> is_number (firstz (number_l b) b).
Proof.
  unfold number_l.
  set (sl := sign_l b). set (b1 := skipz sl b). set (d1 := run is_digit b1).
  pose proof (sign_l_range b) as Hs. fold sl in Hs.
  pose proof (run_bound is_digit b1) as Hd1. fold d1 in Hd1.
  pose proof (sign_l_sound b) as Hsign. fold sl in Hsign.
  destruct (skipz d1 b1) as [|c b3] eqn:E2.
  - destruct (0 <? d1) eqn:Epos; [|lia]. intros _.
    rewrite firstz_add by lia. fold b1.
    rewrite <- (app_nil_r (firstz d1 b1)).
    apply number_intro; [assumption| |apply exp_none].
    apply mant_int. apply digits1_run. fold d1. lia.
  - destruct (is_dot c) eqn:Edot.
    + set (d2 := run is_digit b3). pose proof (run_bound is_digit b3) as Hd2. fold d2 in Hd2.
      assert (Ec : c = 46) by (unfold is_dot in Edot; lia). subst c.
      destruct (0 <? d2) eqn:E2pos.
      * intros _. pose proof (exp_l_range (skipz d2 b3)) as He.
        replace (sl + d1 + 1 + d2 + exp_l (skipz d2 b3)) with (sl + (d1 + (1 + (d2 + exp_l (skipz d2 b3))))) by lia.
        rewrite firstz_add by lia. fold b1.
        rewrite firstz_add by lia. rewrite E2.
        replace (1 + (d2 + exp_l (skipz d2 b3))) with ((d2 + exp_l (skipz d2 b3)) + 1) by lia.
        rewrite firstz_cons by lia. rewrite firstz_add by lia.
        assert (Hc : digits1 (firstz d2 b3)) by (apply digits1_run; fold d2; lia).
        destruct (0 <? d1) eqn:E1pos.
        -- replace (firstz d1 b1 ++ 46 :: firstz d2 b3 ++ firstz (exp_l (skipz d2 b3)) (skipz d2 b3))
             with ((firstz d1 b1 ++ 46 :: firstz d2 b3) ++ firstz (exp_l (skipz d2 b3)) (skipz d2 b3))
             by (rewrite <- app_assoc; reflexivity).
           apply number_intro; [assumption| |apply exp_l_sound].
           apply mant_frac; [|assumption]. apply digits1_run. fold d1. lia.
        -- assert (d1 = 0) by lia. replace (firstz d1 b1) with (@nil Z) by (rewrite H; reflexivity).
           cbn [app].
           replace (46 :: firstz d2 b3 ++ firstz (exp_l (skipz d2 b3)) (skipz d2 b3))
             with ((46 :: firstz d2 b3) ++ firstz (exp_l (skipz d2 b3)) (skipz d2 b3)) by reflexivity.
           apply number_intro; [assumption| |apply exp_l_sound].
           apply mant_dot. assumption.
      * destruct (0 <? d1) eqn:E1pos; [|lia]. intros _.
        rewrite firstz_add by lia. fold b1. rewrite <- (app_nil_r (firstz d1 b1)).
        apply number_intro; [assumption| |apply exp_none].
        apply mant_int. apply digits1_run. fold d1. lia.
    + destruct (0 <? d1) eqn:E1pos; [|lia]. intros _.
      pose proof (exp_l_range (c :: b3)) as He.
      replace (sl + d1 + exp_l (c :: b3)) with (sl + (d1 + exp_l (c :: b3))) by lia.
      rewrite firstz_add by lia. fold b1. rewrite firstz_add by lia. rewrite E2.
      apply number_intro; [assumption| |apply exp_l_sound].
      apply mant_int. apply digits1_run. fold d1. lia.
Qed.

(* --- completeness: the scanner takes at least every number that is a prefix ------------------------------ *)
Lemma digits1_not_sign d r : digits1 d -> sign_l (d ++ r) = 0.
Proof.
  intros H. apply digits1_head in H. destruct H as (c & t & -> & Hc). cbn [app sign_l].
  unfold is_digit, is_sign in *. replace ((c =? 43) || (c =? 45)) with false by lia. reflexivity.
Qed.

Lemma mantissa_head m : mantissa m -> exists c t, m = c :: t /\ is_sign c = false.
Proof.
  intros [a Ha|a c Ha Hc|c Hc].
  - apply digits1_head in Ha. destruct Ha as (x & t & -> & Hx). exists x, t. split; [reflexivity|].
    unfold is_digit, is_sign in *. lia.
  - apply digits1_head in Ha. destruct Ha as (x & t & -> & Hx). exists x, (t ++ 46 :: c). split; [reflexivity|].
    unfold is_digit, is_sign in *. lia.
  - exists 46, c. split; reflexivity.
Qed.

(* the sign the scanner takes is the sign of the parse *)
Lemma sign_l_parse s m r : opt_sign s -> mantissa m -> sign_l (s ++ m ++ r) = len s.
Proof.
  intros Hs Hm. destruct (mantissa_head m Hm) as (c & t & -> & Hc).
  destruct Hs; cbn [app sign_l]; [rewrite Hc|..]; reflexivity.
Qed.

Lemma exp_l_complete e q : opt_exponent e -> len e <= exp_l (e ++ q).
Proof.
  intros [|c s d Hc Hs Hd]; [pose proof (exp_l_range q); unfold len; cbn [length app]; lia|].
  cbn [app exp_l]. replace (is_exp c) with true by (unfold is_exp; lia).
  rewrite <- app_assoc.
  assert (Es : sign_l (s ++ d ++ q) = len s).
  { destruct (digits1_head d Hd) as (x & t & -> & Hx).
    destruct Hs; cbn [app sign_l]; try reflexivity.
    unfold is_digit, is_sign in *. replace ((x =? 43) || (x =? 45)) with false by lia. reflexivity. }
  rewrite Es. rewrite skipz_app_len. rewrite run_digits_app by assumption.
  pose proof (digits1_len d Hd). pose proof (run_bound is_digit q).
  replace (0 <? len d + run is_digit q) with true by lia.
  rewrite len_cons, len_app. lia.
Qed.

Lemma exponent_head_not_digit e q : opt_exponent e -> e <> [] -> run is_digit (e ++ q) = 0.
Proof.
  intros [|c s d Hc _ _] Hne; [contradiction|]. cbn [app run].
  replace (is_digit c) with false by (unfold is_digit; lia). reflexivity.
Qed.

Lemma exponent_head_not_dot e q : opt_exponent e -> match e ++ q with c :: _ => e <> [] -> is_dot c = false | [] => True end.
Proof.
  intros [|c s d Hc _ _]; cbn [app].
  - destruct q; [exact I|]. intros H. contradiction.
  - intros _. unfold is_dot. lia.
Qed.

Lemma number_l_complete p q : is_number p -> len p <= number_l (p ++ q).
Proof.
  intros [s m e Hs Hm He].
  repeat rewrite <- app_assoc.
  unfold number_l.
  rewrite (sign_l_parse s m (e ++ q) Hs Hm).
  rewrite skipz_app_len.
  repeat rewrite len_app.
  pose proof (exp_l_complete e q He) as Hexp.
  pose proof (exp_l_range (e ++ q)) as Hexpr.
  destruct Hm as [a Ha|a c Ha Hc|c Hc].
  - (* [0-9]+ *)
    rewrite run_digits_app by assumption.
    pose proof (digits1_len a Ha) as La.
    destruct e as [|ec et].
    + (* no exponent: whatever else is taken, it is at least s ++ a *)
      cbn [app] in *. set (k := run is_digit q). pose proof (run_bound is_digit q) as Hk. fold k in Hk.
      replace (len (@nil Z)) with 0 by reflexivity.
      destruct (skipz (len a + k) (a ++ q)) as [|c b3].
      * replace (0 <? len a + k) with true by lia. lia.
      * destruct (is_dot c).
        -- pose proof (run_bound is_digit b3).
           destruct (0 <? run is_digit b3).
           ++ pose proof (exp_l_range (skipz (run is_digit b3) b3)). lia.
           ++ replace (0 <? len a + k) with true by lia. lia.
        -- replace (0 <? len a + k) with true by lia. pose proof (exp_l_range (c :: b3)). lia.
    + rewrite (exponent_head_not_digit (ec :: et) q He) by discriminate.
      rewrite Z.add_0_r. rewrite skipz_app_len.
      pose proof (exponent_head_not_dot (ec :: et) q He) as Hnd.
      cbn [app] in *. rewrite (Hnd ltac:(discriminate)).
      replace (0 <? len a) with true by lia. lia.
  - (* [0-9]+\.[0-9]+ *)
    rewrite <- app_assoc. rewrite run_digits_app by assumption.
    cbn [app run]. replace (is_digit 46) with false by reflexivity. rewrite Z.add_0_r.
    rewrite skipz_app_len. replace (is_dot 46) with true by reflexivity.
    rewrite run_digits_app by assumption.
    pose proof (digits1_len a Ha). pose proof (digits1_len c Hc).
    destruct e as [|ec et].
    + cbn [app] in *. pose proof (run_bound is_digit q).
      replace (0 <? len c + run is_digit q) with true by lia.
      pose proof (exp_l_range (skipz (len c + run is_digit q) (c ++ q))).
      rewrite len_app, len_cons. replace (len (@nil Z)) with 0 by reflexivity. lia.
    + rewrite (exponent_head_not_digit (ec :: et) q He) by discriminate.
      rewrite Z.add_0_r. rewrite skipz_app_len.
      replace (0 <? len c) with true by lia.
      rewrite len_app, len_cons. lia.
  - (* \.[0-9]+ *)
    cbn [app run]. replace (is_digit 46) with false by reflexivity.
    rewrite skipz_0. replace (is_dot 46) with true by reflexivity.
    rewrite run_digits_app by assumption.
    pose proof (digits1_len c Hc).
    destruct e as [|ec et].
    + cbn [app] in *. pose proof (run_bound is_digit q).
      replace (0 <? len c + run is_digit q) with true by lia.
      pose proof (exp_l_range (skipz (len c + run is_digit q) (c ++ q))).
      rewrite len_cons. replace (len (@nil Z)) with 0 by reflexivity. lia.
    + rewrite (exponent_head_not_digit (ec :: et) q He) by discriminate.
      rewrite Z.add_0_r. rewrite skipz_app_len.
      replace (0 <? len c) with true by lia.
      rewrite len_cons. lia.
Qed.

(* --- the theorem ------------------------------------------------------------------------------------------- *)
Lemma number_longest_prefix_proof :
  forall b n, number b = Some n ->
    0 <= n <= len b /\
    (0 < n -> is_number (firstz n b)) /\
    (forall m, n < m <= len b -> ~ is_number (firstz m b)) /\
    (n = 0 <-> forall m, 0 < m <= len b -> ~ is_number (firstz m b)).
Proof.
  intros b n H. rewrite number_is_number_l in H. injection H as <-.
  pose proof (number_l_range b) as Hr.
  assert (Hlong : forall m, number_l b < m <= len b -> ~ is_number (firstz m b)).
  { intros m Hm Hnum. pose proof (number_l_complete _ (skipz m b) Hnum) as Hc.
    rewrite firstz_skipz in Hc. rewrite len_firstz in Hc by lia. lia. }
  split; [assumption|]. split; [apply number_l_sound|]. split; [assumption|].
  split.
  - intros E m Hm. apply Hlong. lia.
  - intros Hno. destruct (Z.eq_dec (number_l b) 0) as [|Hne]; [assumption|].
    exfalso. apply (Hno (number_l b)); [lia|]. apply number_l_sound. lia.
Qed.

Example number_example :
  number [45; 46; 53; 69; 51; 120] = Some 5 /\ is_number [45; 46; 53; 69; 51] /\
  number [49; 46] = Some 1 /\ number [49; 101; 43] = Some 1 /\ number [43] = Some 0.
Proof.
  repeat split; try reflexivity.
  apply (number_intro [45] [46; 53] [69; 51]).
  - apply sign_minus.
  - apply mant_dot. apply digits1_one. unfold digit. lia.
  - apply (exp_some 69 [] [51]); [right; reflexivity|apply sign_none|apply digits1_one; unfold digit; lia].
Qed.

(* --- Dimension ------------------------------------------------------------------------------------------------- *)
Lemma is_alpha_iff c : is_alpha c = true <-> alpha c.
Proof. unfold is_alpha, alpha. lia. Qed.

Lemma forallb_alpha l : forallb is_alpha l = true <-> Forall alpha l.
Proof.
  rewrite forallb_forall, Forall_forall. split; intros H x Hx; apply is_alpha_iff; apply H; assumption.
Qed.

(* the unit the scanner takes at suffix l *)
Definition unit_l (l : list Z) : Z :=
  match l with
  | c :: t => if c =? 37 then 1 else run is_alpha l
  | [] => 0
  end.

Lemma dimension_l b :
  dimension b = Some (number_l b, if number_l b =? 0 then 0 else unit_l (skipz (number_l b) b)).
Proof.
  unfold dimension. rewrite number_is_number_l. cbn [option_bind].
  pose proof (number_l_range b) as Hr. set (n := number_l b) in *.
  destruct (Z.eqb_spec n 0) as [E0|E0]; cbn [orb]; [reflexivity|].
  destruct (Z.eqb_spec n (len b)) as [El|El].
  - rewrite skipz_all by lia. reflexivity.
  - rewrite peekz_hd by lia. destruct (skipz n b) as [|c t] eqn:E.
    { apply skipz_nil_iff in E; lia. }
    cbn [hd_error option_bind unit_l]. destruct (c =? 37) eqn:E37; [reflexivity|].
    cbn [run]. destruct (is_alpha c) eqn:Ea; [|reflexivity].
    unfold scan. rewrite skipz_succ_tl by lia. rewrite E. cbn [tl]. f_equal. f_equal. lia.
Qed.

Lemma unit_l_range l : 0 <= unit_l l <= len l.
Proof.
  unfold unit_l. destruct l as [|c t]; [unfold len; cbn; lia|].
  destruct (c =? 37); [rewrite len_cons; pose proof (len_nonneg t); lia|apply run_bound].
Qed.

Lemma unit_l_sound l : 0 < unit_l l -> is_unit (firstz (unit_l l) l).
Proof.
  unfold unit_l. destruct l as [|c t]; [lia|]. destruct (Z.eqb_spec c 37) as [->|Hne]; intros H.
  - change (firstz 1 (37 :: t)) with [37]. apply unit_percent.
  - apply unit_alpha.
    + intros E. assert (L : len (firstz (run is_alpha (c :: t)) (c :: t)) = 0) by (rewrite E; reflexivity).
      rewrite len_firstz in L by apply run_bound. lia.
    + apply forallb_alpha. apply run_firstz_all.
Qed.

Lemma unit_l_complete u q : is_unit u -> len u <= unit_l (u ++ q).
Proof.
  intros [|l Hne Hall].
  - cbn. lia.
  - destruct l as [|c t]; [contradiction|]. cbn [app unit_l].
    apply forallb_alpha in Hall.
    destruct (c =? 37) eqn:E37.
    + cbn [forallb] in Hall. apply andb_true_iff in Hall. destruct Hall as [Hc _]. unfold is_alpha in Hc. lia.
    + change (c :: t ++ q) with ((c :: t) ++ q). rewrite run_app_all by assumption.
      pose proof (run_bound is_alpha q). lia.
Qed.

Lemma slice_as_firstz {A} (l : list A) n u : slice l n (n + u) = firstz u (skipz n l).
Proof. unfold slice. replace (n + u - n) with u by lia. reflexivity. Qed.

Lemma dimension_spec_proof :
  forall b n u, dimension b = Some (n, u) ->
    number b = Some n /\ 0 <= u /\ n + u <= len b /\
    (n = 0 -> u = 0) /\
    (0 < u -> is_unit (slice b n (n + u))) /\
    (0 < n -> forall m, u < m -> n + m <= len b -> ~ is_unit (slice b n (n + m))).
Proof.
  intros b n u H. rewrite dimension_l in H. injection H as <- <-.
  pose proof (number_l_range b) as Hr. set (n := number_l b) in *.
  split; [apply number_is_number_l|].
  destruct (Z.eqb_spec n 0) as [E0|E0].
  - repeat split; try lia.
  - pose proof (unit_l_range (skipz n b)) as Hu. rewrite len_skipz in Hu by lia.
    split; [lia|]. split; [lia|]. split; [lia|]. split.
    + intros Hpos. rewrite slice_as_firstz. apply unit_l_sound. assumption.
    + intros _ m Hm Hle Hunit. rewrite slice_as_firstz in Hunit.
      pose proof (unit_l_complete _ (skipz m (skipz n b)) Hunit) as Hc.
      rewrite firstz_skipz in Hc. rewrite len_firstz in Hc by (rewrite len_skipz; lia). lia.
Qed.

Lemma dimension_no_panic_proof : forall b, exists n u, dimension b = Some (n, u).
Proof. intros b. rewrite dimension_l. eauto. Qed.

Example dimension_example :
  dimension [53; 112; 120; 32] = Some (1, 2) /\ is_unit [112; 120] /\
  dimension [53; 37; 37] = Some (1, 1) /\ dimension [112; 120] = Some (0, 0).
Proof.
  repeat split; try reflexivity. apply unit_alpha; [discriminate|].
  repeat constructor; unfold alpha; lia.
Qed.
