(* Helpers/HashProofs.v — ToHash is sound for any table contents; totality on well-formed tables;
   membership for the two generated tables. *)
From Verif Require Import Common.Base Common.Tactics Common.Bits Helpers.Model Helpers.Lists.
From Verif Require Gen.Tables.
From Coq Require Import ZifyBool.
Ltac Zify.zify_post_hook ::= Z.div_mod_to_equations.

Definition is_u32 (e : Z) : Prop := 0 <= e < two32.

Lemma fnv_step_u32 h c : is_u32 (fnv_step h c).
Proof. unfold fnv_step, is_u32, two32. apply Z.mod_pos_bound. lia. Qed.

Lemma fnv_u32 h0 s : is_u32 h0 -> is_u32 (fnv h0 s).
Proof.
  unfold fnv. revert h0. induction s as [|c s IH]; intros h0 H; [exact H|].
  cbn [fold_left]. apply IH. apply fnv_step_u32.
Qed.

Lemma checked_slice_some s lo hi r :
  checked_slice s lo hi = Some r -> 0 <= lo <= hi /\ hi <= len s /\ r = slice s lo hi.
Proof.
  unfold checked_slice, slice_ok. destruct ((0 <=? lo) && (lo <=? hi) && (hi <=? len s)) eqn:E; [|discriminate].
  intros H. injection H as <-. b2p. repeat split; try lia.
Qed.

Section HashSound.
  Variable text table : list Z.
  Variable hash0 maxlen : Z.

  Lemma probe_sound s idx e :
    probe text table s idx = Some (Some e) ->
    In e table /\ checked_slice text (Z.shiftr e 8) (Z.shiftr e 8 + Z.land e 255) = Some s.
  Proof.
    unfold probe. destruct (peekz table idx) as [e'|] eqn:Ep; [|discriminate]. cbn [option_bind].
    destruct (Z.land e' 255 =? len s); [|discriminate].
    destruct (checked_slice text (Z.shiftr e' 8) (Z.shiftr e' 8 + Z.land e' 255)) as [t|] eqn:Es; [|discriminate].
    cbn [option_bind]. destruct (list_eqb t s) eqn:Eq; [|discriminate].
    intros H. injection H as <-. apply list_eqb_eq in Eq. subst t. split; [|exact Es].
    unfold peekz in Ep. destruct ((0 <=? idx) && (idx <? len table)); [|discriminate].
    eapply nth_error_In. eassumption.
  Qed.

  Lemma to_hash_result s h :
    to_hash text table hash0 maxlen s = Some h -> h <> 0 ->
    In h table /\ checked_slice text (Z.shiftr h 8) (Z.shiftr h 8 + Z.land h 255) = Some s /\
    0 < len s <= maxlen.
  Proof.
    unfold to_hash. intros H Hne.
    destruct ((len s =? 0) || (maxlen <? len s)) eqn:Eg; [congruence|].
    pose proof (len_nonneg s).
    assert (Hl : 0 < len s <= maxlen) by lia.
    destruct (probe text table s (Z.land (fnv hash0 s) (len table - 1))) as [[e|]|] eqn:E1; cbn [option_bind] in H; try discriminate.
    - injection H as <-. destruct (probe_sound _ _ _ E1). auto.
    - destruct (probe text table s (Z.land (Z.shiftr (fnv hash0 s) 16) (len table - 1))) as [[e|]|] eqn:E2; cbn [option_bind] in H; try discriminate.
      + injection H as <-. destruct (probe_sound _ _ _ E2). auto.
      + congruence.
  Qed.

  Lemma hash_bytes_of_slice h s :
    is_u32 h -> checked_slice text (Z.shiftr h 8) (Z.shiftr h 8 + Z.land h 255) = Some s ->
    hash_bytes text h = s.
  Proof.
    intros Hu Hs. apply checked_slice_some in Hs. destruct Hs as (H1 & H2 & ->).
    unfold hash_bytes. unfold is_u32, two32 in *.
    rewrite Z.shiftr_div_pow2 in * by lia. rewrite land255 in *.
    change (2 ^ 8) with 256 in *.
    rewrite Z.mod_small by (unfold two32; lia).
    replace (len text <? h / 256 + h mod 256) with false by lia. reflexivity.
  Qed.

  (* for EVERY byte string and any table contents: a non-zero result is a table entry whose text is the argument *)
  Lemma tohash_sound_proof :
    Forall is_u32 table ->
    forall s h, to_hash text table hash0 maxlen s = Some h -> h <> 0 ->
      In h table /\ hash_bytes text h = s /\ 0 < len s <= maxlen.
  Proof.
    intros Ht s h H Hne. destruct (to_hash_result s h H Hne) as (Hin & Hs & Hl).
    split; [assumption|]. split; [|assumption].
    apply hash_bytes_of_slice; [|assumption]. rewrite Forall_forall in Ht. apply Ht. assumption.
  Qed.

  (* so a string that is the text of no table entry hashes to 0 *)
  Lemma tohash_nonmember_proof :
    Forall is_u32 table ->
    forall s h, (forall e, In e table -> e <> 0 -> hash_bytes text e <> s) ->
      to_hash text table hash0 maxlen s = Some h -> h = 0.
  Proof.
    intros Ht s h Hno H. destruct (Z.eq_dec h 0) as [|Hne]; [assumption|].
    destruct (tohash_sound_proof Ht s h H Hne) as (Hin & Hb & _). exfalso. exact (Hno h Hin Hne Hb).
  Qed.

  (* totality: a table whose length is a power of two and whose entries all point inside the text *)
  Definition entry_ok (e : Z) : Prop :=
    0 <= Z.shiftr e 8 <= Z.shiftr e 8 + Z.land e 255 /\ Z.shiftr e 8 + Z.land e 255 <= len text.

  Lemma probe_total s idx :
    Forall entry_ok table -> 0 <= idx < len table -> exists r, probe text table s idx = Some r.
  Proof.
    intros Hok Hidx. unfold probe. destruct (peekz_in_range table idx Hidx) as [e He]. rewrite He.
    cbn [option_bind]. destruct (Z.land e 255 =? len s); [|eauto].
    assert (Hin : In e table).
    { unfold peekz in He. destruct ((0 <=? idx) && (idx <? len table)); [|discriminate]. eapply nth_error_In; eassumption. }
    rewrite Forall_forall in Hok. destruct (Hok e Hin) as [H1 H2].
    unfold checked_slice, slice_ok.
    replace ((0 <=? Z.shiftr e 8) && (Z.shiftr e 8 <=? Z.shiftr e 8 + Z.land e 255) && (Z.shiftr e 8 + Z.land e 255 <=? len text)) with true by lia.
    cbn [option_bind]. destruct (list_eqb _ s); eauto.
  Qed.

  Lemma tohash_no_panic_proof :
    (exists k, 0 <= k /\ len table = 2 ^ k) -> Forall entry_ok table ->
    forall s, exists h, to_hash text table hash0 maxlen s = Some h.
  Proof.
    intros (k & Hk & Hlen) Hok s. unfold to_hash.
    destruct ((len s =? 0) || (maxlen <? len s)); [eauto|].
    assert (Hmask : forall x, 0 <= Z.land x (len table - 1) < len table).
    { intros x. rewrite Hlen. rewrite land_mask by assumption. apply Z.mod_pos_bound. lia. }
    destruct (probe_total s _ Hok (Hmask (fnv hash0 s))) as [[e|] ->]; cbn [option_bind]; [eauto|].
    destruct (probe_total s _ Hok (Hmask (Z.shiftr (fnv hash0 s) 16))) as [[e|] ->]; cbn [option_bind]; eauto.
  Qed.
End HashSound.

(* --- the two generated tables ------------------------------------------------------------------------ *)
Definition entry_okb (text : list Z) (e : Z) : bool :=
  (0 <=? Z.shiftr e 8) && (Z.shiftr e 8 <=? Z.shiftr e 8 + Z.land e 255) && (Z.shiftr e 8 + Z.land e 255 <=? len text).
Definition is_u32b (e : Z) : bool := (0 <=? e) && (e <? two32).
Definition memberb (consts : list Z) (e : Z) : bool := (e =? 0) || existsb (Z.eqb e) consts.

Lemma forallb_Forall {A} (p : A -> bool) (P : A -> Prop) l :
  (forall x, p x = true -> P x) -> forallb p l = true -> Forall P l.
Proof. intros Hp H. rewrite forallb_forall in H. apply Forall_forall. intros x Hx. apply Hp. apply H. assumption. Qed.

Lemma css_table_wf :
  Forall is_u32 Tables.css_hash_table /\ Forall (entry_ok Tables.css_hash_text) Tables.css_hash_table /\
  (exists k, 0 <= k /\ len Tables.css_hash_table = 2 ^ k) /\
  (forall e, In e Tables.css_hash_table -> e = 0 \/ In e Tables.css_hash_consts).
Proof.
  split; [|split; [|split]].
  - apply (forallb_Forall is_u32b); [|vm_compute; reflexivity]. unfold is_u32b, is_u32. intros x H. lia.
  - apply (forallb_Forall (entry_okb Tables.css_hash_text)); [|vm_compute; reflexivity].
    unfold entry_okb, entry_ok. intros x H. lia.
  - exists 3. split; [lia|reflexivity].
  - assert (H : forallb (memberb Tables.css_hash_consts) Tables.css_hash_table = true) by (vm_compute; reflexivity).
    intros e He. rewrite forallb_forall in H. specialize (H e He). unfold memberb in H.
    apply orb_true_iff in H. destruct H as [H|H]; [left; lia|right].
    apply existsb_exists in H. destruct H as (x & Hx & Hxe). apply Z.eqb_eq in Hxe. subst. assumption.
Qed.

Lemma html_table_wf :
  Forall is_u32 Tables.html_hash_table /\ Forall (entry_ok Tables.html_hash_text) Tables.html_hash_table /\
  (exists k, 0 <= k /\ len Tables.html_hash_table = 2 ^ k) /\
  (forall e, In e Tables.html_hash_table -> e = 0 \/ In e Tables.html_hash_consts).
Proof.
  split; [|split; [|split]].
  - apply (forallb_Forall is_u32b); [|vm_compute; reflexivity]. unfold is_u32b, is_u32. intros x H. lia.
  - apply (forallb_Forall (entry_okb Tables.html_hash_text)); [|vm_compute; reflexivity].
    unfold entry_okb, entry_ok. intros x H. lia.
  - exists 4. split; [lia|reflexivity].
  - assert (H : forallb (memberb Tables.html_hash_consts) Tables.html_hash_table = true) by (vm_compute; reflexivity).
    intros e He. rewrite forallb_forall in H. specialize (H e He). unfold memberb in H.
    apply orb_true_iff in H. destruct H as [H|H]; [left; lia|right].
    apply existsb_exists in H. destruct H as (x & Hx & Hxe). apply Z.eqb_eq in Hxe. subst. assumption.
Qed.

(* ToHash on the generated tables: total, and a non-zero result is a declared constant whose text is the argument *)
Lemma tohash_generated_proof :
  (forall s, exists h, css_to_hash s = Some h /\
     (h <> 0 -> In h Tables.css_hash_consts /\ css_hash_bytes h = s)) /\
  (forall s, exists h, html_to_hash s = Some h /\
     (h <> 0 -> In h Tables.html_hash_consts /\ html_hash_bytes h = s)).
Proof.
  split; intros s.
  - destruct css_table_wf as (Hu & Hok & Hpow & Hmem).
    destruct (tohash_no_panic_proof _ _ Tables.css_hash_hash0 Tables.css_hash_maxlen Hpow Hok s) as [h Hh].
    exists h. split; [exact Hh|]. intros Hne.
    destruct (tohash_sound_proof _ _ _ _ Hu s h Hh Hne) as (Hin & Hb & _).
    split; [|exact Hb]. destruct (Hmem h Hin); [contradiction|assumption].
  - destruct html_table_wf as (Hu & Hok & Hpow & Hmem).
    destruct (tohash_no_panic_proof _ _ Tables.html_hash_hash0 Tables.html_hash_maxlen Hpow Hok s) as [h Hh].
    exists h. split; [exact Hh|]. intros Hne.
    destruct (tohash_sound_proof _ _ _ _ Hu s h Hh Hne) as (Hin & Hb & _).
    split; [|exact Hb]. destruct (Hmem h Hin); [contradiction|assumption].
Qed.

Example tohash_example :
  css_to_hash [109; 101; 100; 105; 97] = Some Tables.css_hash_Media /\
  css_to_hash [109; 101; 100; 105; 98] = Some 0 /\
  html_to_hash [83; 67; 82; 73; 80; 84] = Some 0 /\
  to_hash [97; 98] [1282] 0 9 [97; 98] = None.     (* an ill-formed table: the entry points outside the text *)
Proof. vm_compute. repeat split; reflexivity. Qed.
