(* Helpers/DataURIProofs.v — DataURI: no panic, ErrBadDataURI exactly without "data:" + comma,
   and the round trip of base64- and percent-encoded payloads for every media type. *)
From Verif Require Import Common.Base Common.Tactics Helpers.Model Helpers.Lists Helpers.Proofs
  Helpers.UrlProofs Helpers.Base64Proofs.
From Verif Require Gen.Tables.
From Coq Require Import ZifyBool.

Definition special (c : Z) : bool := (c =? 61) || (c =? 59) || (c =? 44).      (* = ; , *)

(* a header segment: bytes other than = ; , *)
Definition plain (seg : list Z) : Prop := Forall (fun c => is_byte c /\ c <> 61 /\ c <> 59 /\ c <> 44) seg.

(* "text/plain" when the media type is empty or starts with ';' *)
Definition mt_default (mt : list Z) : list Z :=
  match mt with
  | [] => text_mime
  | c :: _ => if c =? 59 then text_mime else mt
  end.

Lemma plain_bytes seg : plain seg -> Forall is_byte seg.
Proof. intros H. eapply Forall_impl; [|exact H]. cbv beta. tauto. Qed.

Lemma forall_byte_firstz i l : Forall is_byte l -> Forall is_byte (firstz i l).
Proof.
  intros H. rewrite Forall_forall in *. intros x Hx. apply H. unfold firstz in Hx.
  rewrite <- (firstn_skipn (Z.to_nat i) l). apply in_or_app. left. exact Hx.
Qed.

Lemma forall_byte_slice l lo hi : Forall is_byte l -> Forall is_byte (slice l lo hi).
Proof. intros H. unfold slice. apply forall_byte_firstz. apply forall_byte_skipz. assumption. Qed.

Lemma trim_bytes_ref b : Forall is_byte b -> trim_bytes b = Some (trim_ref b).
Proof.
  intros Hb. unfold trim_bytes. destruct (trim_spec_proof b Hb) as (lo & hi & H & _ & _ & Hs).
  rewrite H. cbn [option_bind fst snd]. rewrite Hs. reflexivity.
Qed.

Lemma trim_ref_base64 : trim_ref base64_bytes = base64_bytes.
Proof. vm_compute. reflexivity. Qed.

Section DataURI.
  Variable b64dec : list Z -> option (list Z).

  (* what DataURI returns once it has reached the comma *)
  Definition finish (mt : list Z) (inb : bool) (payload : list Z) : res dres :=
    if inb then
      match b64dec payload with
      | Some d => Ok (DOk (mt_default mt) d)
      | None => Ok DB64Err
      end
    else Ok (DOk (mt_default mt) (pct_unescape payload)).

  (* the loop skips bytes other than = ; , *)
  Lemma loop_plain seg : plain seg -> forall u rest j i mt inb prev,
    datauri_loop b64dec u (seg ++ rest) j i mt inb prev = datauri_loop b64dec u rest (j + len seg) i mt inb prev.
  Proof.
    induction 1 as [|c seg (Hb & H61 & H59 & H44) _ IH]; intros u rest j i mt inb prev.
    - cbn [app]. f_equal. unfold len; cbn; lia.
    - cbn [app datauri_loop].
      replace ((c =? 61) || (c =? 59) || (c =? 44)) with false by lia.
      rewrite IH. f_equal. rewrite len_cons. lia.
  Qed.

  (* is the segment in front of delimiter c, after delimiter prev, the base64 marker? *)
  Definition is_marker (c prev : Z) (tr : list Z) : bool :=
    negb (c =? 61) && negb (prev =? 61) && list_eqb tr base64_bytes.

  (* one iteration at a = ; , whose segment u[i:j] is known *)
  Lemma loop_at_special u c rest' j i mt inb prev seg :
    special c = true -> slice_ok i j (len u) = true -> slice u i j = seg -> Forall is_byte seg ->
    datauri_loop b64dec u (c :: rest') j i mt inb prev =
      let tr := trim_ref seg in
      let '(mt1, inb1, i1) :=
        if is_marker c prev tr then
          ((if 0 <? len mt then firstz (len mt - 1) mt else mt), true, j)
        else if negb (c =? 44) then (mt ++ tr ++ [c], inb, j + 1)
        else (mt ++ tr, inb, i) in
      if c =? 44 then finish mt1 inb1 rest'
      else datauri_loop b64dec u rest' (j + 1) i1 mt1 inb1 c.
  Proof.
    intros Hsp Hok Hs Hseg. cbn [datauri_loop]. unfold special in Hsp. rewrite Hsp, Hok. cbn [negb].
    rewrite Hs. rewrite trim_bytes_ref by assumption. cbv zeta. unfold is_marker.
    destruct (if negb (c =? 61) && negb (prev =? 61) && list_eqb (trim_ref seg) base64_bytes
              then (if 0 <? len mt then firstz (len mt - 1) mt else mt, true, j)
              else if negb (c =? 44) then (mt ++ trim_ref seg ++ [c], inb, j + 1) else (mt ++ trim_ref seg, inb, i))
      as [[mt1 inb1] i1].
    destruct (c =? 44); [|reflexivity].
    unfold finish, mt_default. destruct mt1 as [|m0 mt1'].
    - cbn. rewrite pct_decode_spec_proof. reflexivity.
    - rewrite len_cons. pose proof (len_nonneg mt1'). replace (1 + len mt1' =? 0) with false by lia.
      rewrite peekz_cons_0. cbn [option_bind]. rewrite pct_decode_spec_proof. reflexivity.
  Qed.

  (* --- no panic; ErrBadDataURI exactly when there is no comma ------------------------------------ *)
  Lemma loop_total rest : forall pre i mt inb prev,
    Forall is_byte (pre ++ rest) -> 0 <= i <= len pre ->
    exists r, datauri_loop b64dec (pre ++ rest) rest (len pre) i mt inb prev = Ok r /\ (r = DBad <-> ~ In 44 rest).
  Proof.
    induction rest as [|c rest IH]; intros pre i mt inb prev Hb Hi.
    - exists DBad. split; [reflexivity|]. split; auto.
    - assert (Hu : pre ++ c :: rest = (pre ++ [c]) ++ rest) by (rewrite <- app_assoc; reflexivity).
      assert (Hl : len (pre ++ [c]) = len pre + 1) by (rewrite len_app; reflexivity).
      assert (Hlen : len (pre ++ c :: rest) = len pre + 1 + len rest) by (rewrite len_app, len_cons; lia).
      pose proof (len_nonneg rest) as Hr.
      destruct (special c) eqn:Hsp.
      + rewrite (loop_at_special _ c rest (len pre) i mt inb prev (slice (pre ++ c :: rest) i (len pre))); try assumption; try reflexivity.
        2:{ unfold slice_ok. rewrite Hlen. lia. }
        2:{ apply forall_byte_slice. assumption. }
        cbv zeta.
        set (tr := trim_ref (slice (pre ++ c :: rest) i (len pre))).
        destruct (Z.eqb_spec c 44) as [->|Hne].
        * (* the comma: DataURI returns *)
          destruct (is_marker 44 prev tr); cbn [negb]; unfold finish;
            [destruct (b64dec rest)|destruct inb; [destruct (b64dec rest)|]]; eexists; (split; [reflexivity|]);
            (split; [discriminate|intros H; exfalso; apply H; left; reflexivity]).
        * assert (Hin : In 44 (c :: rest) <-> In 44 rest).
          { split; [intros [E|H]; [congruence|assumption]|intros H; right; assumption]. }
          rewrite Hu, <- Hl.
          destruct (is_marker c prev tr).
          -- destruct (IH (pre ++ [c]) (len pre) (if 0 <? len mt then firstz (len mt - 1) mt else mt) true c) as (r & Hr1 & Hr2);
               [rewrite <- Hu; assumption|lia|].
             exists r. split; [rewrite <- Hr1; f_equal; lia|]. rewrite Hr2, Hin. tauto.
          -- replace (negb (c =? 44)) with true by lia.
             destruct (IH (pre ++ [c]) (len (pre ++ [c])) (mt ++ tr ++ [c]) inb c) as (r & Hr1 & Hr2);
               [rewrite <- Hu; assumption|lia|].
             exists r. split; [exact Hr1|]. rewrite Hr2, Hin. tauto.
      + cbn [datauri_loop]. unfold special in Hsp. rewrite Hsp.
        assert (Hne : c <> 44) by lia.
        assert (Hin : In 44 (c :: rest) <-> In 44 rest).
        { split; [intros [E|H]; [congruence|assumption]|intros H; right; assumption]. }
        rewrite Hu, <- Hl.
        destruct (IH (pre ++ [c]) i mt inb prev) as (r & Hr1 & Hr2); [rewrite <- Hu; assumption|lia|].
        exists r. split; [exact Hr1|]. rewrite Hr2, Hin. tauto.
  Qed.

  Lemma datauri_total_proof :
    forall b, Forall is_byte b ->
      exists r, data_uri b64dec b = Ok r /\
        (r = DBad <-> ~ (5 < len b /\ firstz 5 b = data_scheme /\ In 44 (skipz 5 b))).
  Proof.
    intros b Hb. unfold data_uri.
    destruct ((5 <? len b) && list_eqb (firstz 5 b) data_scheme) eqn:E.
    - apply andb_true_iff in E. destruct E as [E1 E2]. apply list_eqb_eq in E2.
      destruct (loop_total (skipz 5 b) [] 0 [] false 0) as (r & Hr1 & Hr2).
      { cbn [app]. apply forall_byte_skipz. assumption. }
      { unfold len; cbn; lia. }
      cbn [app] in Hr1. exists r. split; [exact Hr1|]. rewrite Hr2. split; [tauto|].
      intros H Hin. apply H. split; [lia|]. split; assumption.
    - exists DBad. split; [reflexivity|]. split; [|reflexivity]. intros _ (H1 & H2 & _).
      apply andb_false_iff in E. destruct E as [E|E]; [lia|]. apply list_eqb_neq in E. contradiction.
  Qed.

  (* --- the header in general ------------------------------------------------------------------------ *)
  (* params pv p np pv': p is (segment delimiter)*, delimiter ';' or '='; pv is the delimiter in front
     of p (0 at the start), pv' the last one.  A segment in front of ';' that does not follow a '='
     (i.e. that is neither a parameter name nor a parameter value) must not read "base64".  np is
     what DataURI makes of p: every segment trimmed. *)
  Inductive params : Z -> list Z -> list Z -> Z -> Prop :=
  | params_nil pv : params pv [] [] pv
  | params_cons pv seg d rest nrest pv' :
      plain seg -> d = 59 \/ d = 61 -> (d = 59 -> pv <> 61 -> trim_ref seg <> base64_bytes) ->
      params d rest nrest pv' -> params pv (seg ++ d :: rest) (trim_ref seg ++ d :: nrest) pv'.

  Lemma slice_ok_mid (pre seg tail : list Z) :
    slice_ok (len pre) (len pre + len seg) (len (pre ++ seg ++ tail)) = true.
  Proof.
    unfold slice_ok. repeat rewrite len_app.
    pose proof (len_nonneg pre). pose proof (len_nonneg seg). pose proof (len_nonneg tail). lia.
  Qed.

  Lemma loop_params pv p np pv' : params pv p np pv' -> forall pre tail mt inb,
    datauri_loop b64dec (pre ++ p ++ tail) (p ++ tail) (len pre) (len pre) mt inb pv =
    datauri_loop b64dec (pre ++ p ++ tail) tail (len pre + len p) (len pre + len p) (mt ++ np) inb pv'.
  Proof.
    induction 1 as [pv|pv seg d rest nrest pv' Hseg Hd Hb64 _ IH]; intros pre tail mt inb.
    - cbn [app]. rewrite app_nil_r. f_equal; unfold len; cbn; lia.
    - assert (Hu : pre ++ (seg ++ d :: rest) ++ tail = pre ++ seg ++ (d :: rest ++ tail)).
      { repeat rewrite <- app_assoc. reflexivity. }
      rewrite Hu. replace ((seg ++ d :: rest) ++ tail) with (seg ++ d :: rest ++ tail)
        by (rewrite <- app_assoc; reflexivity).
      rewrite loop_plain by assumption.
      rewrite (loop_at_special _ d (rest ++ tail) _ _ mt inb pv seg).
      2:{ unfold special. destruct Hd; subst d; reflexivity. }
      2:{ apply slice_ok_mid. }
      2:{ apply slice_app_mid. }
      2:{ apply plain_bytes. assumption. }
      cbv zeta.
      replace (is_marker d pv (trim_ref seg)) with false.
      2:{ symmetry. unfold is_marker. destruct Hd as [->| ->]; [|reflexivity]. cbn [negb andb Z.eqb Pos.eqb].
          destruct (Z.eqb_spec pv 61) as [E|E]; [reflexivity|]. cbn [negb andb]. apply list_eqb_neq. apply Hb64; [reflexivity|assumption]. }
      replace (negb (d =? 44)) with true by (destruct Hd; subst d; reflexivity).
      replace (d =? 44) with false by (destruct Hd; subst d; reflexivity).
      (* continue behind the delimiter *)
      replace (pre ++ seg ++ d :: rest ++ tail) with ((pre ++ seg ++ [d]) ++ rest ++ tail)
        by (repeat rewrite <- app_assoc; reflexivity).
      replace (len pre + len seg + 1) with (len (pre ++ seg ++ [d])) by (repeat rewrite len_app; change (len [d]) with 1; lia).
      rewrite IH. f_equal.
      + repeat rewrite len_app. repeat rewrite len_cons. replace (len (@nil Z)) with 0 by reflexivity. lia.
      + repeat rewrite len_app. repeat rewrite len_cons. replace (len (@nil Z)) with 0 by reflexivity. lia.
      + repeat rewrite <- app_assoc. reflexivity.
  Qed.

  Lemma data_uri_unfold u : In 44 u ->
    data_uri b64dec (data_scheme ++ u) = datauri_loop b64dec u u 0 0 [] false 0.
  Proof.
    intros Hin. unfold data_uri.
    assert (L : 5 < len (data_scheme ++ u)).
    { rewrite len_app. change (len data_scheme) with 5. destruct u; [contradiction|]. rewrite len_cons. pose proof (len_nonneg u). lia. }
    replace (5 <? len (data_scheme ++ u)) with true by lia.
    change 5 with (len data_scheme). rewrite firstz_app_len, skipz_app_len, list_eqb_refl. reflexivity.
  Qed.

  (* --- the round trips --------------------------------------------------------------------------------- *)
  (* header = p ++ last: a parameter list followed by a last segment; the last segment is the marker
     only if it reads "base64" and does not follow a '=' *)
  Lemma datauri_percent_proof :
    forall p np pv last payload, params 0 p np pv -> plain last -> (pv <> 61 -> trim_ref last <> base64_bytes) ->
      data_uri b64dec (data_scheme ++ (p ++ last) ++ 44 :: payload) =
      Ok (DOk (mt_default (np ++ trim_ref last)) (pct_unescape payload)).
  Proof.
    intros p np pv last payload Hp Hlast Hnb.
    rewrite data_uri_unfold by (apply in_or_app; right; left; reflexivity).
    rewrite <- app_assoc.
    pose proof (loop_params 0 p np pv Hp [] (last ++ 44 :: payload) [] false) as H.
    cbn [app] in H. change (len (@nil Z)) with 0 in H. rewrite Z.add_0_l in H. rewrite H. clear H.
    rewrite loop_plain by assumption.
    rewrite (loop_at_special _ 44 payload _ _ _ false pv last); try reflexivity.
    2:{ apply (slice_ok_mid p last (44 :: payload)). }
    2:{ apply (slice_app_mid p last (44 :: payload)). }
    2:{ apply plain_bytes. assumption. }
    cbv zeta. replace (is_marker 44 pv (trim_ref last)) with false.
    2:{ symmetry. unfold is_marker. cbn [negb andb Z.eqb Pos.eqb]. destruct (Z.eqb_spec pv 61) as [E|E]; [reflexivity|].
        cbn [negb andb]. apply list_eqb_neq. apply Hnb. assumption. }
    cbn [negb andb Z.eqb Pos.eqb app]. unfold finish. reflexivity.
  Qed.

  Lemma datauri_base64_proof :
    forall p np pv last payload, params 0 p np pv -> plain last -> (pv <> 61 -> trim_ref last <> base64_bytes) ->
      data_uri b64dec (data_scheme ++ (p ++ last) ++ 59 :: base64_bytes ++ 44 :: payload) =
      match b64dec payload with
      | Some d => Ok (DOk (mt_default (np ++ trim_ref last)) d)
      | None => Ok DB64Err
      end.
  Proof.
    intros p np pv last payload Hp Hlast Hnb.
    rewrite data_uri_unfold.
    2:{ apply in_or_app; right; right. apply in_or_app. right. left. reflexivity. }
    set (tail := 59 :: base64_bytes ++ 44 :: payload).
    rewrite <- app_assoc.
    pose proof (loop_params 0 p np pv Hp [] (last ++ tail) [] false) as H.
    cbn [app] in H. change (len (@nil Z)) with 0 in H. rewrite Z.add_0_l in H. rewrite H. clear H.
    rewrite loop_plain by assumption.
    (* the ';' after the last segment *)
    unfold tail at 2.
    rewrite (loop_at_special _ 59 (base64_bytes ++ 44 :: payload) _ _ _ false pv last); try reflexivity.
    2:{ apply (slice_ok_mid p last tail). }
    2:{ apply (slice_app_mid p last tail). }
    2:{ apply plain_bytes. assumption. }
    cbv zeta. replace (is_marker 59 pv (trim_ref last)) with false.
    2:{ symmetry. unfold is_marker. cbn [negb andb Z.eqb Pos.eqb]. destruct (Z.eqb_spec pv 61) as [E|E]; [reflexivity|].
        cbn [negb andb]. apply list_eqb_neq. apply Hnb. assumption. }
    cbn [negb andb Z.eqb Pos.eqb].
    (* the word base64 *)
    assert (Hpb : plain base64_bytes) by (repeat constructor; unfold is_byte; lia).
    rewrite loop_plain by assumption.
    (* the comma: u = (p ++ last ++ [59]) ++ base64 ++ 44 :: payload; the previous delimiter is the ';' *)
    assert (Hu : p ++ last ++ tail = (p ++ last ++ [59]) ++ base64_bytes ++ (44 :: payload)).
    { unfold tail. repeat rewrite <- app_assoc. reflexivity. }
    rewrite Hu.
    replace (len p + len last + 1) with (len (p ++ last ++ [59])) by (repeat rewrite len_app; change (len [59]) with 1; lia).
    rewrite (loop_at_special _ 44 payload _ _ _ false 59 base64_bytes); try reflexivity.
    2:{ apply slice_ok_mid. }
    2:{ apply slice_app_mid. }
    2:{ apply plain_bytes. assumption. }
    cbv zeta. rewrite trim_ref_base64. unfold is_marker. rewrite list_eqb_refl. cbn [negb andb Z.eqb Pos.eqb].
    (* the ';' appended after the last segment is removed again *)
    assert (Hmt : (if 0 <? len (np ++ trim_ref last ++ [59])
                   then firstz (len (np ++ trim_ref last ++ [59]) - 1) (np ++ trim_ref last ++ [59])
                   else np ++ trim_ref last ++ [59]) = np ++ trim_ref last).
    { replace (np ++ trim_ref last ++ [59]) with ((np ++ trim_ref last) ++ [59]) by (rewrite <- app_assoc; reflexivity).
      rewrite len_app. change (len [59]) with 1. pose proof (len_nonneg (np ++ trim_ref last)).
      replace (0 <? len (np ++ trim_ref last) + 1) with true by lia.
      replace (len (np ++ trim_ref last) + 1 - 1) with (len (np ++ trim_ref last)) by lia.
      apply firstz_app_len. }
    rewrite Hmt. unfold finish. reflexivity.
  Qed.
End DataURI.

(* the general theorem: any base64 decoder that inverts its encoder; ANY percent-encoding table that marks '%' *)
Lemma datauri_roundtrip_proof :
  forall (b64dec : list Z -> option (list Z)) (b64enc : list Z -> list Z),
    (forall d, Forall is_byte d -> b64dec (b64enc d) = Some d) ->
    forall p np pv last d t, params 0 p np pv -> plain last -> (pv <> 61 -> trim_ref last <> base64_bytes) -> Forall is_byte d ->
      let mt := mt_default (np ++ trim_ref last) in
      data_uri b64dec (data_scheme ++ (p ++ last) ++ 59 :: base64_bytes ++ 44 :: b64enc d) = Ok (DOk mt d) /\
      (tbl t 37 = Some true ->
       data_uri b64dec (data_scheme ++ (p ++ last) ++ 44 :: encode_ref t d) = Ok (DOk mt d)).
Proof.
  intros b64dec b64enc Hb64 p np pv last d t Hp Hlast Hnb Hd mt. split.
  - rewrite (datauri_base64_proof b64dec p np pv last _ Hp Hlast Hnb). rewrite Hb64 by assumption. reflexivity.
  - intros H37. rewrite (datauri_percent_proof b64dec p np pv last _ Hp Hlast Hnb).
    rewrite pct_unescape_encode_ref by assumption. reflexivity.
Qed.

(* --- every media type: type/subtype *( ";" name "=" value ) ----------------------------------------------- *)
(* no leading or trailing whitespace *)
Definition tight (seg : list Z) : Prop := trim_ref seg = seg.
Definition param_ok (kv : list Z * list Z) : Prop :=
  plain (fst kv) /\ plain (snd kv) /\ tight (fst kv) /\ tight (snd kv).
Definition render_params (ps : list (list Z * list Z)) : list Z :=
  flat_map (fun kv => 59 :: fst kv ++ 61 :: snd kv) ps.
(* the media type as written: names and values are arbitrary (they may read "base64") *)
Definition media_type (ty : list Z) (ps : list (list Z * list Z)) : list Z := ty ++ render_params ps.

(* a first segment followed by n >= 1 parameters splits into a params list ending in '=' and a last value *)
Lemma params_of_media_type : forall ps seg pv kv,
  plain seg -> (pv <> 61 -> trim_ref seg <> base64_bytes) -> tight seg -> Forall param_ok (kv :: ps) ->
  exists p last, seg ++ render_params (kv :: ps) = p ++ last /\ plain last /\
                 exists np, params pv p np 61 /\ np ++ trim_ref last = seg ++ render_params (kv :: ps).
Proof.
  induction ps as [|kv' ps IH]; intros seg pv [n v] Hseg Hnb Hts Hall.
  - inversion Hall as [|? ? (Hn & Hv & Htn & Htv) _]; subst. cbn [fst snd] in *.
    exists (seg ++ 59 :: n ++ 61 :: []), v. split.
    { cbn [render_params flat_map fst snd]. rewrite app_nil_r. repeat (rewrite <- app_assoc; cbn [app]). reflexivity. }
    split; [assumption|].
    exists (trim_ref seg ++ 59 :: trim_ref n ++ 61 :: []). split.
    { apply params_cons; [assumption|left; reflexivity|intros _; assumption|].
      apply params_cons; [assumption|right; reflexivity|intros H; discriminate|apply params_nil]. }
    cbn [render_params flat_map fst snd]. rewrite app_nil_r. rewrite Hts, Htn, Htv.
    repeat (rewrite <- app_assoc; cbn [app]). reflexivity.
  - inversion Hall as [|? ? (Hn & Hv & Htn & Htv) Hrest]; subst. cbn [fst snd] in *.
    destruct (IH v 61 kv' Hv ltac:(intros H; contradiction) Htv Hrest) as (p' & last & Heq & Hlast & np' & Hp' & Hnp').
    exists (seg ++ 59 :: n ++ 61 :: p'), last. split.
    { change (render_params ((n, v) :: kv' :: ps)) with ((59 :: n ++ 61 :: v) ++ render_params (kv' :: ps)).
      cbn [app]. rewrite <- app_assoc. cbn [app]. rewrite Heq. repeat (rewrite <- app_assoc; cbn [app]). reflexivity. }
    split; [assumption|].
    exists (trim_ref seg ++ 59 :: trim_ref n ++ 61 :: np'). split.
    { apply params_cons; [assumption|left; reflexivity|intros _; assumption|].
      apply params_cons; [assumption|right; reflexivity|intros H; discriminate|assumption]. }
    change (render_params ((n, v) :: kv' :: ps)) with ((59 :: n ++ 61 :: v) ++ render_params (kv' :: ps)).
    rewrite Hts, Htn. repeat (rewrite <- app_assoc; cbn [app]). rewrite Hnp'. reflexivity.
Qed.

(* a type with a '/' does not read "base64" *)
Lemma slash_not_base64 ty : In 47 ty -> trim_ref ty <> base64_bytes.
Proof.
  intros Hin E. destruct (trim_ref_char ty) as (pre & post & Hty & Hpre & Hpost & _).
  rewrite E in Hty. rewrite Hty in Hin.
  apply in_app_or in Hin. destruct Hin as [Hin|Hin].
  - unfold ws in Hpre. rewrite Forall_forall in Hpre. specialize (Hpre 47 Hin). lia.
  - apply in_app_or in Hin. destruct Hin as [Hin|Hin].
    + cbn in Hin. intuition discriminate.
    + rewrite Forall_forall in Hpost. specialize (Hpost 47 Hin). unfold ws in Hpost. lia.
Qed.

Lemma mt_default_type ty rest : plain ty -> ty <> [] -> mt_default (ty ++ rest) = ty ++ rest.
Proof.
  intros Hp Hne. destruct ty as [|c t]; [contradiction|]. cbn [app mt_default].
  inversion Hp as [|? ? (_ & _ & H59 & _) _]; subst. replace (c =? 59) with false by lia. reflexivity.
Qed.

Lemma datauri_mediatype_roundtrip_proof :
  forall (b64dec : list Z -> option (list Z)) (b64enc : list Z -> list Z),
    (forall d, Forall is_byte d -> b64dec (b64enc d) = Some d) ->
    forall ty ps d t, plain ty -> In 47 ty -> tight ty -> Forall param_ok ps -> Forall is_byte d ->
      let mt := media_type ty ps in
      data_uri b64dec (data_scheme ++ mt ++ 59 :: base64_bytes ++ 44 :: b64enc d) = Ok (DOk mt d) /\
      (tbl t 37 = Some true ->
       data_uri b64dec (data_scheme ++ mt ++ 44 :: encode_ref t d) = Ok (DOk mt d)).
Proof.
  intros b64dec b64enc Hb64 ty ps d t Hty Hslash Htight Hps Hd mt.
  assert (Hne : ty <> []) by (intros E; subst ty; contradiction).
  pose proof (slash_not_base64 ty Hslash) as Hnb.
  destruct ps as [|kv ps].
  - (* no parameters: p = [], last = ty *)
    pose proof (datauri_roundtrip_proof b64dec b64enc Hb64 [] [] 0 ty d t (params_nil 0) Hty (fun _ => Hnb) Hd) as H.
    cbv zeta in H. cbn [app] in H. rewrite Htight in H.
    unfold mt, media_type. cbn [render_params flat_map]. rewrite app_nil_r.
    replace (mt_default ty) with ty in H by (rewrite <- (app_nil_r ty) at 2; rewrite mt_default_type by assumption; rewrite app_nil_r; reflexivity).
    exact H.
  - destruct (params_of_media_type ps ty 0 kv Hty (fun _ => Hnb) Htight Hps) as (p & last & Heq & Hlast & np & Hp & Hnp).
    pose proof (datauri_roundtrip_proof b64dec b64enc Hb64 p np 61 last d t Hp Hlast ltac:(intros H; contradiction) Hd) as H.
    cbv zeta in H. rewrite Hnp in H. rewrite <- Heq in H.
    rewrite mt_default_type in H by assumption. exact H.
Qed.

(* instance: the executable model of base64.StdEncoding.Decode, the RFC 4648 encoder, and BOTH tables of /repo *)
Lemma datauri_roundtrip_std_proof :
  forall ty ps d, plain ty -> In 47 ty -> tight ty -> Forall param_ok ps -> Forall is_byte d ->
    let mt := media_type ty ps in
    data_uri b64_decode (data_scheme ++ mt ++ 59 :: base64_bytes ++ 44 :: b64_encode d) = Ok (DOk mt d) /\
    (forall r, encode_url d Tables.datauri_encoding_table = Ok r -> data_uri b64_decode (data_scheme ++ mt ++ 44 :: r) = Ok (DOk mt d)) /\
    (forall r, encode_url d Tables.url_encoding_table = Ok r -> data_uri b64_decode (data_scheme ++ mt ++ 44 :: r) = Ok (DOk mt d)).
Proof.
  intros ty ps d Hty Hslash Htight Hps Hd mt.
  destruct (encode_exact_repo_tables d Hd) as [Eu Ed].
  split; [|split].
  - apply (datauri_mediatype_roundtrip_proof b64_decode b64_encode b64_roundtrip_proof ty ps d Tables.url_encoding_table); assumption.
  - intros r Hr. rewrite Ed in Hr. injection Hr as <-.
    apply (datauri_mediatype_roundtrip_proof b64_decode b64_encode b64_roundtrip_proof ty ps d Tables.datauri_encoding_table); try assumption.
    apply datauri_table_facts.
  - intros r Hr. rewrite Eu in Hr. injection Hr as <-.
    apply (datauri_mediatype_roundtrip_proof b64_decode b64_encode b64_roundtrip_proof ty ps d Tables.url_encoding_table); try assumption.
    apply url_table_facts.
Qed.

(* an absent media type is text/plain *)
Lemma datauri_no_mediatype_proof :
  forall (b64dec : list Z -> option (list Z)) (b64enc : list Z -> list Z),
    (forall d, Forall is_byte d -> b64dec (b64enc d) = Some d) ->
    forall d t, Forall is_byte d ->
      data_uri b64dec (data_scheme ++ 59 :: base64_bytes ++ 44 :: b64enc d) = Ok (DOk text_mime d) /\
      (tbl t 37 = Some true -> data_uri b64dec (data_scheme ++ 44 :: encode_ref t d) = Ok (DOk text_mime d)).
Proof.
  intros b64dec b64enc Hb64 d t Hd.
  assert (Hnil : plain []) by constructor.
  assert (Hnb : (0:Z) <> 61 -> trim_ref [] <> base64_bytes) by (intros _; vm_compute; discriminate).
  pose proof (datauri_roundtrip_proof b64dec b64enc Hb64 [] [] 0 [] d t (params_nil 0) Hnil Hnb Hd) as H.
  cbv zeta in H. cbn [app] in H. exact H.
Qed.

(* hypotheses are satisfiable: "data:text/html;charset=base64;base64,dGV4dA==" and "data:text/html;charset=base64,a+b%07" *)
Example datauri_example :
  let ty := [116; 101; 120; 116; 47; 104; 116; 109; 108] in                        (* text/html *)
  let ps := [([99; 104; 97; 114; 115; 101; 116], base64_bytes)] in                 (* charset=base64 *)
  plain ty /\ In 47 ty /\ tight ty /\ Forall param_ok ps /\
  data_uri b64_decode (data_scheme ++ media_type ty ps ++ 59 :: base64_bytes ++ 44 :: b64_encode [116; 101; 120; 116]) =
    Ok (DOk (media_type ty ps) [116; 101; 120; 116]) /\
  data_uri b64_decode (data_scheme ++ media_type ty ps ++ [44; 97; 43; 98; 37; 48; 55]) = Ok (DOk (media_type ty ps) [97; 43; 98; 7]) /\
  data_uri b64_decode (data_scheme ++ [44]) = Ok (DOk text_mime []) /\
  data_uri b64_decode data_scheme = Ok DBad.
Proof.
  cbv zeta. split; [|split; [|split; [|split; [|split; [|split; [|split]]]]]].
  - repeat constructor; unfold is_byte; lia.
  - cbn. tauto.
  - vm_compute. reflexivity.
  - constructor; [|constructor]. unfold param_ok, tight. cbn [fst snd]. split; [|split; [|split]].
    + repeat constructor; unfold is_byte; lia.
    + repeat constructor; unfold is_byte; lia.
    + vm_compute. reflexivity.
    + vm_compute. reflexivity.
  - vm_compute. reflexivity.
  - vm_compute. reflexivity.
  - vm_compute. reflexivity.
  - vm_compute. reflexivity.
Qed.

Lemma no_panic_datauri_proof :
  forall b64dec b, Forall is_byte b -> exists r, data_uri b64dec b = Ok r.
Proof. intros b64dec b Hb. destruct (datauri_total_proof b64dec b Hb) as (r & Hr & _). eauto. Qed.
