(* Helpers/DataURIProofs.v — DataURI: no panic, ErrBadDataURI exactly without "data:" + comma,
   and the round trip of base64- and percent-encoded payloads with an arbitrary parameter list. *)
From Verif Require Import Common.Base Common.Tactics Helpers.Model Helpers.Lists Helpers.Proofs
  Helpers.UrlProofs Helpers.Base64Proofs.
From Verif Require Gen.Tables.
From Coq Require Import ZifyBool.

Definition special (c : Z) : bool := (c =? 61) || (c =? 59) || (c =? 44).      (* = ; , *)

(* a header segment: bytes other than = ; , *)
Definition plain (seg : list Z) : Prop := Forall (fun c => is_byte c /\ c <> 61 /\ c <> 59 /\ c <> 44) seg.

(* "text/plain" when the media type is empty or starts with ';' *)
Definition mt_default (mt : list Z) : list Z :=
  match mt with
  | [] => text_mime
  | c :: _ => if c =? 59 then text_mime else mt
  end.

Lemma plain_bytes seg : plain seg -> Forall is_byte seg.
Proof. intros H. eapply Forall_impl; [|exact H]. cbv beta. tauto. Qed.

Lemma forall_byte_firstz i l : Forall is_byte l -> Forall is_byte (firstz i l).
Proof.
  intros H. rewrite Forall_forall in *. intros x Hx. apply H. unfold firstz in Hx.
  rewrite <- (firstn_skipn (Z.to_nat i) l). apply in_or_app. left. exact Hx.
Qed.

Lemma forall_byte_slice l lo hi : Forall is_byte l -> Forall is_byte (slice l lo hi).
Proof. intros H. unfold slice. apply forall_byte_firstz. apply forall_byte_skipz. assumption. Qed.

Lemma trim_bytes_ref b : Forall is_byte b -> trim_bytes b = Some (trim_ref b).
Proof.
  intros Hb. unfold trim_bytes. destruct (trim_spec_proof b Hb) as (lo & hi & H & _ & _ & Hs).
  rewrite H. cbn [option_bind fst snd]. rewrite Hs. reflexivity.
Qed.

Lemma trim_ref_base64 : trim_ref base64_bytes = base64_bytes.
Proof. vm_compute. reflexivity. Qed.

Section DataURI.
  Variable b64dec : list Z -> option (list Z).

  (* what DataURI returns once it has reached the comma *)
  Definition finish (mt : list Z) (inb : bool) (payload : list Z) : res dres :=
    if inb then
      match b64dec payload with
      | Some d => Ok (DOk (mt_default mt) d)
      | None => Ok DB64Err
      end
    else Ok (DOk (mt_default mt) (unescape payload)).

  (* the loop skips bytes other than = ; , *)
  Lemma loop_plain seg : plain seg -> forall u rest j i mt inb,
    datauri_loop b64dec u (seg ++ rest) j i mt inb = datauri_loop b64dec u rest (j + len seg) i mt inb.
  Proof.
    induction 1 as [|c seg (Hb & H61 & H59 & H44) _ IH]; intros u rest j i mt inb.
    - cbn [app]. f_equal. unfold len; cbn; lia.
    - cbn [app datauri_loop].
      replace ((c =? 61) || (c =? 59) || (c =? 44)) with false by lia.
      rewrite IH. f_equal. rewrite len_cons. lia.
  Qed.

  (* one iteration at a = ; , whose segment u[i:j] is known *)
  Lemma loop_at_special u c rest' j i mt inb seg :
    special c = true -> slice_ok i j (len u) = true -> slice u i j = seg -> Forall is_byte seg ->
    datauri_loop b64dec u (c :: rest') j i mt inb =
      let tr := trim_ref seg in
      let '(mt1, inb1, i1) :=
        if negb (c =? 61) && list_eqb tr base64_bytes then
          ((if 0 <? len mt then firstz (len mt - 1) mt else mt), true, j)
        else if negb (c =? 44) then (mt ++ tr ++ [c], inb, j + 1)
        else (mt ++ tr, inb, i) in
      if c =? 44 then finish mt1 inb1 rest'
      else datauri_loop b64dec u rest' (j + 1) i1 mt1 inb1.
  Proof.
    intros Hsp Hok Hs Hseg. cbn [datauri_loop]. unfold special in Hsp. rewrite Hsp, Hok. cbn [negb].
    rewrite Hs. rewrite trim_bytes_ref by assumption. cbv zeta.
    destruct (if negb (c =? 61) && list_eqb (trim_ref seg) base64_bytes
              then (if 0 <? len mt then firstz (len mt - 1) mt else mt, true, j)
              else if negb (c =? 44) then (mt ++ trim_ref seg ++ [c], inb, j + 1) else (mt ++ trim_ref seg, inb, i))
      as [[mt1 inb1] i1].
    destruct (c =? 44); [|reflexivity].
    unfold finish, mt_default. destruct mt1 as [|m0 mt1'].
    - cbn. rewrite decode_spec_proof. reflexivity.
    - rewrite len_cons. pose proof (len_nonneg mt1'). replace (1 + len mt1' =? 0) with false by lia.
      rewrite peekz_cons_0. cbn [option_bind]. rewrite decode_spec_proof. reflexivity.
  Qed.

  (* --- no panic; ErrBadDataURI exactly when there is no comma ------------------------------------ *)
  Lemma loop_total rest : forall pre i mt inb,
    Forall is_byte (pre ++ rest) -> 0 <= i <= len pre ->
    exists r, datauri_loop b64dec (pre ++ rest) rest (len pre) i mt inb = Ok r /\ (r = DBad <-> ~ In 44 rest).
  Proof.
    induction rest as [|c rest IH]; intros pre i mt inb Hb Hi.
    - exists DBad. split; [reflexivity|]. split; auto.
    - assert (Hu : pre ++ c :: rest = (pre ++ [c]) ++ rest) by (rewrite <- app_assoc; reflexivity).
      assert (Hl : len (pre ++ [c]) = len pre + 1) by (rewrite len_app; reflexivity).
      assert (Hlen : len (pre ++ c :: rest) = len pre + 1 + len rest) by (rewrite len_app, len_cons; lia).
      pose proof (len_nonneg rest) as Hr.
      destruct (special c) eqn:Hsp.
      + rewrite (loop_at_special _ c rest (len pre) i mt inb (slice (pre ++ c :: rest) i (len pre))); try assumption; try reflexivity.
        2:{ unfold slice_ok. rewrite Hlen. lia. }
        2:{ apply forall_byte_slice. assumption. }
        cbv zeta.
        set (tr := trim_ref (slice (pre ++ c :: rest) i (len pre))).
        destruct (Z.eqb_spec c 44) as [->|Hne].
        * (* the comma: DataURI returns *)
          destruct (negb (44 =? 61) && list_eqb tr base64_bytes); cbn [negb]; unfold finish;
            [destruct (b64dec rest)|destruct inb; [destruct (b64dec rest)|]]; eexists; (split; [reflexivity|]);
            (split; [discriminate|intros H; exfalso; apply H; left; reflexivity]).
        * assert (Hin : In 44 (c :: rest) <-> In 44 rest).
          { split; [intros [E|H]; [congruence|assumption]|intros H; right; assumption]. }
          rewrite Hu, <- Hl.
          destruct (negb (c =? 61) && list_eqb tr base64_bytes).
          -- destruct (IH (pre ++ [c]) (len pre) (if 0 <? len mt then firstz (len mt - 1) mt else mt) true) as (r & Hr1 & Hr2);
               [rewrite <- Hu; assumption|lia|].
             exists r. split; [rewrite <- Hr1; f_equal; lia|]. rewrite Hr2, Hin. tauto.
          -- replace (negb (c =? 44)) with true by lia.
             destruct (IH (pre ++ [c]) (len (pre ++ [c])) (mt ++ tr ++ [c]) inb) as (r & Hr1 & Hr2);
               [rewrite <- Hu; assumption|lia|].
             exists r. split; [exact Hr1|]. rewrite Hr2, Hin. tauto.
      + cbn [datauri_loop]. unfold special in Hsp. rewrite Hsp.
        assert (Hne : c <> 44) by lia.
        assert (Hin : In 44 (c :: rest) <-> In 44 rest).
        { split; [intros [E|H]; [congruence|assumption]|intros H; right; assumption]. }
        rewrite Hu, <- Hl.
        destruct (IH (pre ++ [c]) i mt inb) as (r & Hr1 & Hr2); [rewrite <- Hu; assumption|lia|].
        exists r. split; [exact Hr1|]. rewrite Hr2, Hin. tauto.
  Qed.

  Lemma datauri_total_proof :
    forall b, Forall is_byte b ->
      exists r, data_uri b64dec b = Ok r /\
        (r = DBad <-> ~ (5 < len b /\ firstz 5 b = data_scheme /\ In 44 (skipz 5 b))).
  Proof.
    intros b Hb. unfold data_uri.
    destruct ((5 <? len b) && list_eqb (firstz 5 b) data_scheme) eqn:E.
    - apply andb_true_iff in E. destruct E as [E1 E2]. apply list_eqb_eq in E2.
      destruct (loop_total (skipz 5 b) [] 0 [] false) as (r & Hr1 & Hr2).
      { cbn [app]. apply forall_byte_skipz. assumption. }
      { unfold len; cbn; lia. }
      cbn [app] in Hr1. exists r. split; [exact Hr1|]. rewrite Hr2. split; [tauto|].
      intros H Hin. apply H. split; [lia|]. split; assumption.
    - exists DBad. split; [reflexivity|]. split; [|reflexivity]. intros _ (H1 & H2 & _).
      apply andb_false_iff in E. destruct E as [E|E]; [lia|]. apply list_eqb_neq in E. contradiction.
  Qed.

  (* --- the parameter list --------------------------------------------------------------------------- *)
  (* (segment delimiter)*, delimiter ';' or '='; a segment in front of ';' must not read "base64".
     The second index is what DataURI makes of it: every segment trimmed. *)
  Inductive params : list Z -> list Z -> Prop :=
  | params_nil : params [] []
  | params_cons seg d rest nrest :
      plain seg -> d = 59 \/ d = 61 -> (d = 59 -> trim_ref seg <> base64_bytes) ->
      params rest nrest -> params (seg ++ d :: rest) (trim_ref seg ++ d :: nrest).

  Lemma slice_ok_mid (pre seg tail : list Z) :
    slice_ok (len pre) (len pre + len seg) (len (pre ++ seg ++ tail)) = true.
  Proof.
    unfold slice_ok. repeat rewrite len_app.
    pose proof (len_nonneg pre). pose proof (len_nonneg seg). pose proof (len_nonneg tail). lia.
  Qed.

  Lemma loop_params p np : params p np -> forall pre tail mt inb,
    datauri_loop b64dec (pre ++ p ++ tail) (p ++ tail) (len pre) (len pre) mt inb =
    datauri_loop b64dec (pre ++ p ++ tail) tail (len pre + len p) (len pre + len p) (mt ++ np) inb.
  Proof.
    induction 1 as [|seg d rest nrest Hseg Hd Hb64 _ IH]; intros pre tail mt inb.
    - cbn [app]. rewrite app_nil_r. f_equal; unfold len; cbn; lia.
    - assert (Hu : pre ++ (seg ++ d :: rest) ++ tail = pre ++ seg ++ (d :: rest ++ tail)).
      { repeat rewrite <- app_assoc. reflexivity. }
      rewrite Hu. replace ((seg ++ d :: rest) ++ tail) with (seg ++ d :: rest ++ tail)
        by (rewrite <- app_assoc; reflexivity).
      rewrite loop_plain by assumption.
      rewrite (loop_at_special _ d (rest ++ tail) _ _ mt inb seg).
      2:{ unfold special. destruct Hd; subst d; reflexivity. }
      2:{ apply slice_ok_mid. }
      2:{ apply slice_app_mid. }
      2:{ apply plain_bytes. assumption. }
      cbv zeta.
      replace (negb (d =? 61) && list_eqb (trim_ref seg) base64_bytes) with false.
      2:{ symmetry. destruct Hd as [->| ->]; [|reflexivity]. cbn [negb andb Z.eqb Pos.eqb]. apply list_eqb_neq. apply Hb64. reflexivity. }
      replace (negb (d =? 44)) with true by (destruct Hd; subst d; reflexivity).
      replace (d =? 44) with false by (destruct Hd; subst d; reflexivity).
      (* continue behind the delimiter *)
      replace (pre ++ seg ++ d :: rest ++ tail) with ((pre ++ seg ++ [d]) ++ rest ++ tail)
        by (repeat rewrite <- app_assoc; reflexivity).
      replace (len pre + len seg + 1) with (len (pre ++ seg ++ [d])) by (repeat rewrite len_app; change (len [d]) with 1; lia).
      rewrite IH. f_equal.
      + repeat rewrite len_app. repeat rewrite len_cons. replace (len (@nil Z)) with 0 by reflexivity. lia.
      + repeat rewrite len_app. repeat rewrite len_cons. replace (len (@nil Z)) with 0 by reflexivity. lia.
      + repeat rewrite <- app_assoc. reflexivity.
  Qed.

  Lemma data_uri_unfold u : In 44 u ->
    data_uri b64dec (data_scheme ++ u) = datauri_loop b64dec u u 0 0 [] false.
  Proof.
    intros Hin. unfold data_uri.
    assert (L : 5 < len (data_scheme ++ u)).
    { rewrite len_app. change (len data_scheme) with 5. destruct u; [contradiction|]. rewrite len_cons. pose proof (len_nonneg u). lia. }
    replace (5 <? len (data_scheme ++ u)) with true by lia.
    change 5 with (len data_scheme). rewrite firstz_app_len, skipz_app_len, list_eqb_refl. reflexivity.
  Qed.

  (* --- the round trips --------------------------------------------------------------------------------- *)
  (* header = p ++ last: a parameter list followed by a last segment *)
  Lemma datauri_percent_proof :
    forall p np last payload, params p np -> plain last -> trim_ref last <> base64_bytes ->
      data_uri b64dec (data_scheme ++ (p ++ last) ++ 44 :: payload) =
      Ok (DOk (mt_default (np ++ trim_ref last)) (unescape payload)).
  Proof.
    intros p np last payload Hp Hlast Hnb.
    rewrite data_uri_unfold by (apply in_or_app; right; left; reflexivity).
    rewrite <- app_assoc.
    pose proof (loop_params p np Hp [] (last ++ 44 :: payload) [] false) as H.
    cbn [app] in H. change (len (@nil Z)) with 0 in H. rewrite Z.add_0_l in H. rewrite H. clear H.
    rewrite loop_plain by assumption.
    rewrite (loop_at_special _ 44 payload _ _ _ false last); try reflexivity.
    2:{ apply (slice_ok_mid p last (44 :: payload)). }
    2:{ apply (slice_app_mid p last (44 :: payload)). }
    2:{ apply plain_bytes. assumption. }
    cbv zeta. replace (list_eqb (trim_ref last) base64_bytes) with false by (symmetry; apply list_eqb_neq; assumption).
    cbn [negb andb Z.eqb Pos.eqb app]. unfold finish. reflexivity.
  Qed.

  Lemma datauri_base64_proof :
    forall p np last payload, params p np -> plain last -> trim_ref last <> base64_bytes ->
      data_uri b64dec (data_scheme ++ (p ++ last) ++ 59 :: base64_bytes ++ 44 :: payload) =
      match b64dec payload with
      | Some d => Ok (DOk (mt_default (np ++ trim_ref last)) d)
      | None => Ok DB64Err
      end.
  Proof.
    intros p np last payload Hp Hlast Hnb.
    rewrite data_uri_unfold.
    2:{ apply in_or_app; right; right. apply in_or_app. right. left. reflexivity. }
    set (tail := 59 :: base64_bytes ++ 44 :: payload).
    rewrite <- app_assoc.
    pose proof (loop_params p np Hp [] (last ++ tail) [] false) as H.
    cbn [app] in H. change (len (@nil Z)) with 0 in H. rewrite Z.add_0_l in H. rewrite H. clear H.
    rewrite loop_plain by assumption.
    (* the ';' after the last segment *)
    unfold tail at 2.
    rewrite (loop_at_special _ 59 (base64_bytes ++ 44 :: payload) _ _ _ false last); try reflexivity.
    2:{ apply (slice_ok_mid p last tail). }
    2:{ apply (slice_app_mid p last tail). }
    2:{ apply plain_bytes. assumption. }
    cbv zeta. replace (list_eqb (trim_ref last) base64_bytes) with false by (symmetry; apply list_eqb_neq; assumption).
    cbn [negb andb Z.eqb Pos.eqb].
    (* the word base64 *)
    assert (Hpb : plain base64_bytes) by (repeat constructor; unfold is_byte; lia).
    rewrite loop_plain by assumption.
    (* the comma: u = (p ++ last ++ [59]) ++ base64 ++ 44 :: payload *)
    assert (Hu : p ++ last ++ tail = (p ++ last ++ [59]) ++ base64_bytes ++ (44 :: payload)).
    { unfold tail. repeat rewrite <- app_assoc. reflexivity. }
    rewrite Hu.
    replace (len p + len last + 1) with (len (p ++ last ++ [59])) by (repeat rewrite len_app; change (len [59]) with 1; lia).
    rewrite (loop_at_special _ 44 payload _ _ _ false base64_bytes); try reflexivity.
    2:{ apply slice_ok_mid. }
    2:{ apply slice_app_mid. }
    2:{ apply plain_bytes. assumption. }
    cbv zeta. rewrite trim_ref_base64, list_eqb_refl. cbn [negb andb Z.eqb Pos.eqb].
    (* the ';' appended after the last segment is removed again *)
    assert (Hmt : (if 0 <? len (np ++ trim_ref last ++ [59])
                   then firstz (len (np ++ trim_ref last ++ [59]) - 1) (np ++ trim_ref last ++ [59])
                   else np ++ trim_ref last ++ [59]) = np ++ trim_ref last).
    { replace (np ++ trim_ref last ++ [59]) with ((np ++ trim_ref last) ++ [59]) by (rewrite <- app_assoc; reflexivity).
      rewrite len_app. change (len [59]) with 1. pose proof (len_nonneg (np ++ trim_ref last)).
      replace (0 <? len (np ++ trim_ref last) + 1) with true by lia.
      replace (len (np ++ trim_ref last) + 1 - 1) with (len (np ++ trim_ref last)) by lia.
      apply firstz_app_len. }
    rewrite Hmt. unfold finish. reflexivity.
  Qed.
End DataURI.

(* the theorem: with a base64 decoder that inverts the encoder, and a percent-encoding table like the URL table *)
Lemma datauri_roundtrip_proof :
  forall (b64dec : list Z -> option (list Z)) (b64enc : list Z -> list Z),
    (forall d, Forall is_byte d -> b64dec (b64enc d) = Some d) ->
    forall p np last d t, params p np -> plain last -> trim_ref last <> base64_bytes -> Forall is_byte d ->
      let mt := mt_default (np ++ trim_ref last) in
      data_uri b64dec (data_scheme ++ (p ++ last) ++ 59 :: base64_bytes ++ 44 :: b64enc d) = Ok (DOk mt d) /\
      (tbl t 37 = Some true -> tbl t 43 = Some true ->
       data_uri b64dec (data_scheme ++ (p ++ last) ++ 44 :: encode_ref t d) = Ok (DOk mt d)).
Proof.
  intros b64dec b64enc Hb64 p np last d t Hp Hlast Hnb Hd mt. split.
  - rewrite (datauri_base64_proof b64dec p np last _ Hp Hlast Hnb). rewrite Hb64 by assumption. reflexivity.
  - intros H37 H43. rewrite (datauri_percent_proof b64dec p np last _ Hp Hlast Hnb).
    rewrite unescape_encode_ref by assumption. reflexivity.
Qed.

(* instance: the executable model of base64.StdEncoding.Decode, the RFC 4648 encoder, the URL table *)
Lemma datauri_roundtrip_std_proof :
  forall p np last d, params p np -> plain last -> trim_ref last <> base64_bytes -> Forall is_byte d ->
    let mt := mt_default (np ++ trim_ref last) in
    data_uri b64_decode (data_scheme ++ (p ++ last) ++ 59 :: base64_bytes ++ 44 :: b64_encode d) = Ok (DOk mt d) /\
    data_uri b64_decode (data_scheme ++ (p ++ last) ++ 44 :: encode_ref Tables.url_encoding_table d) = Ok (DOk mt d).
Proof.
  intros p np last d Hp Hlast Hnb Hd mt.
  destruct (datauri_roundtrip_proof b64_decode b64_encode b64_roundtrip_proof p np last d Tables.url_encoding_table Hp Hlast Hnb Hd) as [H1 H2].
  split; [exact H1|]. apply H2; apply url_table_facts.
Qed.

(* hypotheses are satisfiable: "data:text/html; charset=utf-8;base64,dGV4dA==" *)
Example datauri_example :
  let p := [116; 101; 120; 116; 47; 104; 116; 109; 108; 59; 32; 99; 104; 97; 114; 115; 101; 116; 61] in   (* text/html; charset= *)
  let np := [116; 101; 120; 116; 47; 104; 116; 109; 108; 59; 99; 104; 97; 114; 115; 101; 116; 61] in      (* text/html;charset=  *)
  let last := [117; 116; 102; 45; 56] in                                                                  (* utf-8 *)
  params p np /\ plain last /\ trim_ref last <> base64_bytes /\
  data_uri b64_decode (data_scheme ++ (p ++ last) ++ 59 :: base64_bytes ++ 44 :: b64_encode [116; 101; 120; 116]) =
    Ok (DOk (np ++ last) [116; 101; 120; 116]) /\
  data_uri b64_decode (data_scheme ++ [44]) = Ok (DOk text_mime []) /\
  data_uri b64_decode data_scheme = Ok DBad.
Proof.
  cbv zeta. split; [|split; [|split; [|split; [|split]]]].
  - apply (params_cons [116; 101; 120; 116; 47; 104; 116; 109; 108] 59 [32; 99; 104; 97; 114; 115; 101; 116; 61] [99; 104; 97; 114; 115; 101; 116; 61]).
    + repeat constructor; unfold is_byte; lia.
    + left; reflexivity.
    + intros _. vm_compute. discriminate.
    + apply (params_cons [32; 99; 104; 97; 114; 115; 101; 116] 61 [] []).
      * repeat constructor; unfold is_byte; lia.
      * right; reflexivity.
      * intros H. discriminate.
      * apply params_nil.
  - repeat constructor; unfold is_byte; lia.
  - vm_compute. discriminate.
  - vm_compute. reflexivity.
  - vm_compute. reflexivity.
  - vm_compute. reflexivity.
Qed.

(* the two deviations the Go oracle reports, on the model *)
Lemma datauri_findings_proof :
  (* a literal '+' in a percent-encoded payload becomes a space *)
  data_uri b64_decode (data_scheme ++ [44; 97; 43; 98]) = Ok (DOk text_mime [97; 32; 98]) /\
  (* a parameter VALUE "base64" is taken for the marker: "data:x/y;a=base64,%07" *)
  data_uri b64_decode (data_scheme ++ [120; 47; 121; 59; 97; 61] ++ base64_bytes ++ [44; 37; 48; 55]) = Ok DB64Err.
Proof. vm_compute. split; reflexivity. Qed.

Lemma no_panic_datauri_proof :
  forall b64dec b, Forall is_byte b -> exists r, data_uri b64dec b = Ok r.
Proof. intros b64dec b Hb. destruct (datauri_total_proof b64dec b Hb) as (r & Hr & _). eauto. Qed.

(* percent-encoding with the library's own DataURIEncodingTable: everything but '+' comes back *)
Lemma datauri_percent_datauri_table_proof :
  forall b64dec p np last d, params p np -> plain last -> trim_ref last <> base64_bytes -> Forall is_byte d ->
    data_uri b64dec (data_scheme ++ (p ++ last) ++ 44 :: encode_ref Tables.datauri_encoding_table d) =
    Ok (DOk (mt_default (np ++ trim_ref last)) (map plus_to_space d)).
Proof.
  intros b64dec p np last d Hp Hlast Hnb Hd.
  rewrite (datauri_percent_proof b64dec p np last _ Hp Hlast Hnb).
  destruct datauri_table_facts as (_ & _ & H37 & H43).
  rewrite unescape_encode_ref_plus by assumption. reflexivity.
Qed.
