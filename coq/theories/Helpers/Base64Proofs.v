(* Helpers/Base64Proofs.v — the model of base64.StdEncoding.Decode inverts the RFC 4648 encoder. *)
From Verif Require Import Common.Base Common.Tactics Helpers.Model Helpers.Lists.
From Coq Require Import ZifyBool.
Ltac Zify.zify_post_hook ::= Z.div_mod_to_equations.

(* RFC 4648 section 4: the alphabet A-Z a-z 0-9 + / and '=' padding *)
Definition b64_chr (k : Z) : Z :=
  if k <? 26 then 65 + k else if k <? 52 then 71 + k else if k <? 62 then k - 4
  else if k =? 62 then 43 else 47.

Fixpoint b64_encode (d : list Z) : list Z :=
  match d with
  | [] => []
  | [a] => [b64_chr (a / 4); b64_chr ((a mod 4) * 16); 61; 61]
  | [a; b] => [b64_chr (a / 4); b64_chr ((a mod 4) * 16 + b / 16); b64_chr ((b mod 16) * 4); 61]
  | a :: b :: c :: t =>
      b64_chr (a / 4) :: b64_chr ((a mod 4) * 16 + b / 16) :: b64_chr ((b mod 16) * 4 + c / 64)
      :: b64_chr (c mod 64) :: b64_encode t
  end.

Example b64_encode_example :
  b64_encode [116; 101; 120; 116] = [100; 71; 86; 52; 100; 65; 61; 61] /\      (* "text" -> "dGV4dA==" *)
  b64_decode [100; 71; 86; 52; 100; 65; 61; 61] = Some [116; 101; 120; 116] /\
  b64_decode [100; 71; 86; 52; 10; 100; 65; 61; 13; 10; 61; 10] = Some [116; 101; 120; 116] /\
  b64_decode [100; 71; 86; 52; 100; 65; 61] = None /\ b64_decode [40; 41] = None.
Proof. vm_compute. repeat split; reflexivity. Qed.

Lemma b64_chr_sweep :
  forallb (fun k => (b64_val (b64_chr k) =? k) && negb (b64_chr k =? 61) && (0 <=? b64_chr k) && (b64_chr k <? 256)
                    && negb (b64_chr k =? 44)) (zrange 0 63) = true.
Proof. vm_compute. reflexivity. Qed.

Lemma b64_val_chr k : 0 <= k < 64 -> b64_val (b64_chr k) = k.
Proof.
  intros Hk. pose proof (zrange_forall _ 0 63 b64_chr_sweep k ltac:(lia)) as H. cbv beta in H. b2p. assumption.
Qed.

Lemma b64_chr_byte k : 0 <= k < 64 -> is_byte (b64_chr k) /\ b64_chr k <> 44.
Proof.
  intros Hk. pose proof (zrange_forall _ 0 63 b64_chr_sweep k ltac:(lia)) as H. cbv beta in H. b2p.
  unfold is_byte. lia.
Qed.

(* one more sextet in a quantum that is not yet full *)
Lemma b64_step_partial k t j acc : 0 <= k < 64 -> (j < 3)%nat ->
  b64_decode_from (b64_chr k :: t) j acc = b64_decode_from t (S j) (acc * 64 + k).
Proof.
  intros Hk Hj. cbn [b64_decode_from]. rewrite b64_val_chr by assumption.
  replace (0 <=? k) with true by lia.
  destruct j as [|[|[|j]]]; try reflexivity. lia.
Qed.

Lemma b64_step_full k t acc : 0 <= k < 64 ->
  b64_decode_from (b64_chr k :: t) 3 acc =
  match b64_decode_from t 0 0 with
  | Some r => let v := acc * 64 + k in Some ((v / 65536) mod 256 :: (v / 256) mod 256 :: v mod 256 :: r)
  | None => None
  end.
Proof.
  intros Hk. cbn [b64_decode_from]. rewrite b64_val_chr by assumption.
  replace (0 <=? k) with true by lia. reflexivity.
Qed.

Lemma list_ind3 {A} (P : list A -> Prop) :
  P [] -> (forall a, P [a]) -> (forall a b, P [a; b]) ->
  (forall a b c t, P t -> P (a :: b :: c :: t)) -> forall l, P l.
Proof.
  intros H0 H1 H2 H3.
  assert (H : forall l, P l /\ (forall a, P (a :: l)) /\ (forall a b, P (a :: b :: l))).
  { induction l as [|x l (IH0 & IH1 & IH2)].
    - auto.
    - split; [apply IH1|]. split; [intros a; apply IH2|]. intros a b. apply H3. exact IH0. }
  intros l. apply H.
Qed.

Lemma b64_roundtrip_from d : Forall is_byte d -> b64_decode_from (b64_encode d) 0 0 = Some d.
Proof.
  induction d as [|a|a b|a b c t IH] using list_ind3; intros Hd.
  - reflexivity.
  - inversion Hd as [|? ? Ha _]; subst. unfold is_byte in Ha. cbn [b64_encode].
    rewrite b64_step_partial by lia. rewrite b64_step_partial by lia.
    cbn. f_equal. f_equal. lia.
  - inversion Hd as [|? ? Ha Hd']; subst. inversion Hd' as [|? ? Hb _]; subst. unfold is_byte in *.
    cbn [b64_encode].
    rewrite b64_step_partial by lia. rewrite b64_step_partial by lia. rewrite b64_step_partial by lia.
    cbn. f_equal. f_equal; [lia|]. f_equal. lia.
  - inversion Hd as [|? ? Ha Hd1]; subst. inversion Hd1 as [|? ? Hb Hd2]; subst. inversion Hd2 as [|? ? Hc Ht]; subst.
    unfold is_byte in *. cbn [b64_encode].
    rewrite b64_step_partial by lia. rewrite b64_step_partial by lia. rewrite b64_step_partial by lia.
    rewrite b64_step_full by lia. rewrite (IH Ht). cbv zeta.
    f_equal. f_equal; [lia|]. f_equal; [lia|]. f_equal. lia.
Qed.

Lemma b64_roundtrip_proof : forall d, Forall is_byte d -> b64_decode (b64_encode d) = Some d.
Proof. intros d Hd. apply b64_roundtrip_from. assumption. Qed.

(* the encoding consists of bytes and contains no comma (so it sits after the first comma of a data URI) *)
Lemma b64_encode_bytes d : Forall is_byte d -> Forall (fun c => is_byte c /\ c <> 44) (b64_encode d).
Proof.
  assert (P61 : is_byte 61 /\ 61 <> 44) by (unfold is_byte; lia).
  induction d as [|a|a b|a b c t IH] using list_ind3; intros Hd.
  - constructor.
  - inversion Hd as [|? ? Ha _]; subst. unfold is_byte in Ha. cbn [b64_encode].
    repeat constructor; try (apply b64_chr_byte; lia); try (unfold is_byte; lia).
  - inversion Hd as [|? ? Ha Hd']; subst. inversion Hd' as [|? ? Hb _]; subst. unfold is_byte in Ha, Hb.
    cbn [b64_encode]. repeat constructor; try (apply b64_chr_byte; lia); try (unfold is_byte; lia).
  - inversion Hd as [|? ? Ha Hd1]; subst. inversion Hd1 as [|? ? Hb Hd2]; subst. inversion Hd2 as [|? ? Hc Ht]; subst.
    unfold is_byte in Ha, Hb, Hc. cbn [b64_encode].
    repeat (constructor; [apply b64_chr_byte; lia|]). apply IH. assumption.
Qed.
