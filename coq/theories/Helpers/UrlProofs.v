(* Helpers/UrlProofs.v — EncodeURL escapes exactly the marked bytes; DecodeURL is the left-to-right
   unescape; DecodeURL inverts EncodeURL for tables that mark '%' and '+'. *)
From Verif Require Import Common.Base Common.Tactics Helpers.Model Helpers.Lists.
From Verif Require Gen.Tables.
From Coq Require Import ZifyBool.

(* --- reference definitions ---------------------------------------------------------------------- *)
(* the upper-case hex digit of k in 0..15 *)
Definition hexd (k : Z) : Z := if k <? 10 then 48 + k else 55 + k.

(* %HH for a marked byte, the byte itself otherwise *)
Definition enc1 (t : list bool) (c : Z) : list Z :=
  match tbl t c with
  | Some true => [37; hexd (c / 16); hexd (c mod 16)]
  | _ => [c]
  end.
Definition encode_ref (t : list bool) (b : list Z) : list Z := flat_map (enc1 t) b.

(* left-to-right unescape: %XY with two hex digits is one byte, '+' is a space, the rest is kept *)
Fixpoint unescape (l : list Z) : list Z :=
  match l with
  | [] => []
  | c :: t =>
      if c =? 37 then
        match t with
        | h1 :: h2 :: t2 =>
            if is_hex h1 && is_hex h2 then (hex_val h1 * 16 + hex_val h2) :: unescape t2
            else c :: unescape t
        | _ => c :: unescape t
        end
      else if c =? 43 then 32 :: unescape t
      else c :: unescape t
  end.

(* the same for decodeURL(b, plus): with plus = false (DataURI) a '+' is kept *)
Fixpoint unescape_gen (plus : bool) (l : list Z) : list Z :=
  match l with
  | [] => []
  | c :: t =>
      if c =? 37 then
        match t with
        | h1 :: h2 :: t2 =>
            if is_hex h1 && is_hex h2 then (hex_val h1 * 16 + hex_val h2) :: unescape_gen plus t2
            else c :: unescape_gen plus t
        | _ => c :: unescape_gen plus t
        end
      else if plus && (c =? 43) then 32 :: unescape_gen plus t
      else c :: unescape_gen plus t
  end.

(* percent-decoding only: %XY with two hex digits is one byte, EVERYTHING else is kept *)
Definition pct_unescape (l : list Z) : list Z := unescape_gen false l.

Lemma unescape_gen_true : forall l, unescape_gen true l = unescape l.
Proof.
  assert (H : forall n l, (length l <= n)%nat -> unescape_gen true l = unescape l).
  { induction n as [|n IH]; intros l Hn.
    - destruct l; [reflexivity|cbn in Hn; lia].
    - destruct l as [|c t]; [reflexivity|]. cbn [length] in Hn. cbn [unescape_gen unescape andb].
      rewrite (IH t) by lia.
      destruct t as [|h1 [|h2 t2]]; try reflexivity.
      rewrite (IH t2) by (cbn [length] in Hn; lia). reflexivity. }
  intros l. apply (H (length l)). lia.
Qed.

Definition table256 (t : list bool) : Prop := length t = 256%nat.

(* EncodeURL looks again at the two digits it has written: they must not be marked themselves *)
Definition enc_stable (t : list bool) : Prop :=
  forall c, is_byte c -> tbl t c = Some true ->
    tbl t (hexd (c / 16)) = Some false /\ tbl t (hexd (c mod 16)) = Some false.

Definition enc_stableb (t : list bool) : bool :=
  forallb (fun c => match tbl t c with
                    | Some true => match tbl t (hexd (c / 16)), tbl t (hexd (c mod 16)) with
                                   | Some false, Some false => true
                                   | _, _ => false
                                   end
                    | _ => true
                    end) (zrange 0 255).

Lemma enc_stableb_sound t : enc_stableb t = true -> enc_stable t.
Proof.
  intros H c Hc Hm. pose proof (zrange_forall _ 0 255 H c ltac:(unfold is_byte in Hc; lia)) as Hx.
  cbv beta in Hx. rewrite Hm in Hx.
  destruct (tbl t (hexd (c / 16))) as [[|]|]; try discriminate.
  destruct (tbl t (hexd (c mod 16))) as [[|]|]; try discriminate. split; reflexivity.
Qed.

Lemma tbl_total t c : table256 t -> is_byte c -> exists x, tbl t c = Some x.
Proof.
  intros Ht Hc. unfold tbl, is_byte, table256 in *. zb.
  destruct (nth_error t (Z.to_nat c)) eqn:E; [eauto|]. apply nth_error_None in E. lia.
Qed.

(* --- the hex digits --------------------------------------------------------------------------------- *)
Lemma hex_digit_sweep :
  forallb (fun c => match peekz hex_upper (Z.shiftr c 4), peekz hex_upper (Z.land c 15) with
                    | Some h, Some l => (h =? hexd (c / 16)) && (l =? hexd (c mod 16))
                    | _, _ => false
                    end) (zrange 0 255) = true.
Proof. vm_compute. reflexivity. Qed.

Lemma hex_digits_of_byte c : is_byte c ->
  peekz hex_upper (Z.shiftr c 4) = Some (hexd (c / 16)) /\ peekz hex_upper (Z.land c 15) = Some (hexd (c mod 16)).
Proof.
  intros Hc. pose proof (zrange_forall _ 0 255 hex_digit_sweep c ltac:(unfold is_byte in Hc; lia)) as H.
  cbv beta in H.
  destruct (peekz hex_upper (Z.shiftr c 4)) as [h|]; [|discriminate].
  destruct (peekz hex_upper (Z.land c 15)) as [l|]; [|discriminate].
  apply andb_true_iff in H. destruct H as [H1 H2]. apply Z.eqb_eq in H1, H2. subst. split; reflexivity.
Qed.

Lemma hexd_sweep : forallb (fun k => is_hex (hexd k) && (hex_val (hexd k) =? k) && (0 <=? hexd k) && (hexd k <? 256)
                                     && negb (hexd k =? 37) && negb (hexd k =? 43)) (zrange 0 15) = true.
Proof. vm_compute. reflexivity. Qed.

Lemma hexd_facts k : 0 <= k < 16 ->
  is_hex (hexd k) = true /\ hex_val (hexd k) = k /\ is_byte (hexd k) /\ hexd k <> 37 /\ hexd k <> 43.
Proof.
  intros Hk. pose proof (zrange_forall _ 0 15 hexd_sweep k ltac:(lia)) as H. cbv beta in H.
  unfold is_byte. b2p. repeat split; try assumption; lia.
Qed.

Lemma byte_nibbles c : is_byte c -> 0 <= c / 16 < 16 /\ 0 <= c mod 16 < 16 /\ (c / 16) * 16 + c mod 16 = c.
Proof. unfold is_byte. intros H. pose proof (Z.div_mod c 16 ltac:(lia)). pose proof (Z.mod_pos_bound c 16 ltac:(lia)). lia. Qed.

Lemma is_hex_val_range h : is_hex h = true -> 0 <= hex_val h < 16.
Proof.
  unfold is_hex, is_digit, hex_val. intros H.
  destruct (Z.leb_spec h 57); [lia|]. destruct (Z.leb_spec h 70); lia.
Qed.

(* --- EncodeURL ------------------------------------------------------------------------------------------ *)
Lemma len_snoc {A} (l : list A) x : len (l ++ [x]) = len l + 1.
Proof. rewrite len_app. reflexivity. Qed.

Lemma encode_step_unmarked f t pre c rest :
  tbl t c = Some false ->
  encode_loop (S f) t (pre ++ c :: rest) (len pre) = encode_loop f t ((pre ++ [c]) ++ rest) (len (pre ++ [c])).
Proof.
  intros Hc. cbn [encode_loop]. rewrite len_app, len_cons. pose proof (len_nonneg rest).
  replace (len pre + (1 + len rest) <=? len pre) with false by lia.
  rewrite peekz_view. cbn [hd_error]. rewrite Hc.
  rewrite <- app_assoc. cbn [app]. rewrite len_snoc. reflexivity.
Qed.

Lemma encode_step_marked f t pre c rest :
  tbl t c = Some true -> is_byte c ->
  encode_loop (S f) t (pre ++ c :: rest) (len pre) =
  encode_loop f t ((pre ++ [37]) ++ hexd (c / 16) :: hexd (c mod 16) :: rest) (len (pre ++ [37])).
Proof.
  intros Hc Hb. cbn [encode_loop]. rewrite len_app, len_cons. pose proof (len_nonneg rest).
  replace (len pre + (1 + len rest) <=? len pre) with false by lia.
  rewrite peekz_view. cbn [hd_error]. rewrite Hc.
  destruct (hex_digits_of_byte c Hb) as [-> ->].
  rewrite firstz_app_len.
  replace (skipz (len pre + 1) (pre ++ c :: rest)) with rest.
  2:{ rewrite skipz_app_more by lia. reflexivity. }
  rewrite <- app_assoc. cbn [app]. rewrite len_snoc. reflexivity.
Qed.

Lemma encode_loop_spec t : table256 t -> enc_stable t ->
  forall rest pre fuel, Forall is_byte rest -> 3 * len rest + 1 <= Z.of_nat fuel ->
    encode_loop fuel t (pre ++ rest) (len pre) = Ok (pre ++ encode_ref t rest).
Proof.
  intros Ht Hst rest. induction rest as [|c rest IH]; intros pre fuel Hb Hf.
  - destruct fuel as [|f]; [unfold len in Hf; cbn in Hf; lia|]. cbn [encode_loop encode_ref flat_map].
    rewrite app_nil_r. replace (len pre <=? len pre) with true by lia. reflexivity.
  - inversion Hb as [|? ? Hc Hrest]; subst. rewrite len_cons in Hf. pose proof (len_nonneg rest) as Hlr.
    destruct fuel as [|f]; [lia|].
    destruct (tbl_total t c Ht Hc) as [x Hx]. cbn [encode_ref flat_map]. unfold enc1 at 1. rewrite Hx.
    destruct x.
    + (* marked: the '%', then the two digits, which are not marked *)
      rewrite encode_step_marked by assumption.
      destruct (Hst c Hc Hx) as [H1 H2].
      destruct f as [|f]; [lia|]. rewrite encode_step_unmarked by assumption.
      destruct f as [|f]; [lia|]. rewrite encode_step_unmarked by assumption.
      rewrite IH by (try assumption; lia).
      repeat rewrite <- app_assoc. reflexivity.
    + rewrite encode_step_unmarked by assumption.
      rewrite IH by (try assumption; lia).
      rewrite <- app_assoc. reflexivity.
Qed.

Lemma encode_exact_proof :
  forall t b, table256 t -> enc_stable t -> Forall is_byte b -> encode_url b t = Ok (encode_ref t b).
Proof.
  intros t b Ht Hst Hb. unfold encode_url.
  apply (encode_loop_spec t Ht Hst b [] _ Hb). pose proof (len_nonneg b). lia.
Qed.

(* the two tables of /repo *)
Lemma url_table_facts :
  table256 Tables.url_encoding_table /\ enc_stable Tables.url_encoding_table /\
  tbl Tables.url_encoding_table 37 = Some true /\ tbl Tables.url_encoding_table 43 = Some true.
Proof.
  split; [reflexivity|]. split; [apply enc_stableb_sound; vm_compute; reflexivity|]. split; reflexivity.
Qed.

Lemma datauri_table_facts :
  table256 Tables.datauri_encoding_table /\ enc_stable Tables.datauri_encoding_table /\
  tbl Tables.datauri_encoding_table 37 = Some true /\ tbl Tables.datauri_encoding_table 43 = Some false.
Proof.
  split; [reflexivity|]. split; [apply enc_stableb_sound; vm_compute; reflexivity|]. split; reflexivity.
Qed.

Lemma encode_exact_repo_tables :
  forall b, Forall is_byte b ->
    encode_url b Tables.url_encoding_table = Ok (encode_ref Tables.url_encoding_table b) /\
    encode_url b Tables.datauri_encoding_table = Ok (encode_ref Tables.datauri_encoding_table b).
Proof.
  intros b Hb. split; apply encode_exact_proof; try assumption;
    first [apply url_table_facts | apply datauri_table_facts].
Qed.

(* for an arbitrary table the loop need not terminate: a table that marks '4' (0x34) *)
Definition table_marking_4 : list bool := map (fun c => c =? 52) (zrange 0 255).

Lemma encode_diverges_step pre f :
  encode_loop (S (S f)) table_marking_4 (pre ++ [52]) (len pre) =
  encode_loop f table_marking_4 ((pre ++ [37; 51]) ++ [52]) (len (pre ++ [37; 51])).
Proof.
  rewrite encode_step_marked by (try reflexivity; unfold is_byte; lia).
  change (hexd (52 / 16)) with 51. change (hexd (52 mod 16)) with 52.
  rewrite encode_step_unmarked by reflexivity.
  repeat rewrite <- app_assoc. reflexivity.
Qed.

Lemma encode_diverges : forall fuel pre, encode_loop fuel table_marking_4 (pre ++ [52]) (len pre) = OutOfFuel.
Proof.
  intros fuel. induction fuel as [fuel IH] using (well_founded_induction lt_wf). intros pre.
  destruct fuel as [|[|f]].
  - reflexivity.
  - rewrite encode_step_marked by (try reflexivity; unfold is_byte; lia). reflexivity.
  - rewrite encode_diverges_step. apply IH. lia.
Qed.

Lemma encode_any_table_refuted_proof :
  exists t b, table256 t /\ Forall is_byte b /\ forall fuel, encode_loop fuel t b 0 = OutOfFuel.
Proof.
  exists table_marking_4, [52]. split; [reflexivity|]. split; [repeat constructor; unfold is_byte; lia|].
  intros fuel. apply (encode_diverges fuel []).
Qed.

Example encode_example :
  encode_url [97; 32; 37; 43; 233] Tables.url_encoding_table = Ok [97; 37; 50; 48; 37; 50; 53; 37; 50; 66; 37; 69; 57] /\
  encode_ref Tables.url_encoding_table [97; 32] = [97; 37; 50; 48].
Proof. vm_compute. split; reflexivity. Qed.

(* --- DecodeURL -------------------------------------------------------------------------------------------- *)
Lemma decode_loop_spec plus :
  forall fuel rest pre, len rest < Z.of_nat fuel ->
    decode_loop plus fuel (pre ++ rest) (len pre) = Ok (pre ++ unescape_gen plus rest).
Proof.
  induction fuel as [|f IH]; intros rest pre Hf; [pose proof (len_nonneg rest); lia|].
  cbn [decode_loop]. destruct rest as [|c t].
  - cbn [unescape_gen]. rewrite app_nil_r. replace (len pre <=? len pre) with true by lia. reflexivity.
  - rewrite len_app, len_cons. pose proof (len_nonneg t) as Ht. rewrite len_cons in Hf.
    replace (len pre + (1 + len t) <=? len pre) with false by lia.
    rewrite peekz_view. cbn [hd_error unescape_gen].
    assert (Hnext : forall x, decode_loop plus f (pre ++ x :: t) (len pre + 1) = Ok (pre ++ x :: unescape_gen plus t)).
    { intros x. replace (pre ++ x :: t) with ((pre ++ [x]) ++ t) by (rewrite <- app_assoc; reflexivity).
      rewrite <- len_snoc with (x := x). rewrite IH by lia. rewrite <- app_assoc. reflexivity. }
    destruct (Z.eqb_spec c 37) as [->|Hne37].
    + replace (plus && (37 =? 43)) with false by (rewrite andb_false_r; reflexivity).
      destruct t as [|h1 [|h2 t2]].
      * (* "%" at the end *)
        replace (len pre + 2 <? len pre + (1 + len (@nil Z))) with false by (unfold len; cbn [length]; lia).
        cbn [andb]. apply Hnext.
      * replace (len pre + 2 <? len pre + (1 + len [h1])) with false by (unfold len; cbn [length]; lia).
        cbn [andb]. apply Hnext.
      * repeat rewrite len_cons in *. pose proof (len_nonneg t2).
        replace (len pre + 2 <? len pre + (1 + (1 + (1 + len t2)))) with true by lia. cbn [andb].
        replace (peekz (pre ++ 37 :: h1 :: h2 :: t2) (len pre + 1)) with (Some h1).
        2:{ replace (pre ++ 37 :: h1 :: h2 :: t2) with ((pre ++ [37]) ++ h1 :: h2 :: t2) by (rewrite <- app_assoc; reflexivity).
            rewrite <- len_snoc with (x := 37). rewrite peekz_view. reflexivity. }
        destruct (is_hex h1) eqn:E1; cbn [andb]; [|apply Hnext].
        replace (peekz (pre ++ 37 :: h1 :: h2 :: t2) (len pre + 2)) with (Some h2).
        2:{ replace (pre ++ 37 :: h1 :: h2 :: t2) with ((pre ++ [37; h1]) ++ h2 :: t2) by (rewrite <- app_assoc; reflexivity).
            replace (len pre + 2) with (len (pre ++ [37; h1])) by (rewrite len_app; reflexivity).
            rewrite peekz_view. reflexivity. }
        destruct (is_hex h2) eqn:E2; [|apply Hnext].
        rewrite firstz_app_len.
        replace (skipz (len pre + 3) (pre ++ 37 :: h1 :: h2 :: t2)) with t2.
        2:{ rewrite skipz_app_more by lia. reflexivity. }
        pose proof (is_hex_val_range h1 E1). pose proof (is_hex_val_range h2 E2).
        rewrite Z.mod_small by lia.
        set (v := hex_val h1 * 16 + hex_val h2).
        replace (pre ++ v :: t2) with ((pre ++ [v]) ++ t2) by (rewrite <- app_assoc; reflexivity).
        rewrite <- len_snoc with (x := v). rewrite IH by lia. rewrite <- app_assoc. reflexivity.
    + replace ((c =? 37) && (len pre + 2 <? len pre + (1 + len t))) with false
        by (symmetry; apply andb_false_iff; left; lia).
      destruct (plus && (c =? 43)) eqn:E43.
      * apply andb_true_iff in E43. destruct E43 as [_ E43]. apply Z.eqb_eq in E43. subst c.
        replace (setz (pre ++ 43 :: t) (len pre) 32) with (pre ++ 32 :: t).
        2:{ unfold setz. rewrite len_app, len_cons. pose proof (len_nonneg pre).
            replace ((0 <=? len pre) && (len pre <? len pre + (1 + len t))) with true by lia.
            rewrite firstz_app_len. rewrite skipz_app_more by lia. reflexivity. }
        apply Hnext.
      * apply Hnext.
Qed.

Lemma decode_gen_spec_proof : forall plus b, decode_url_gen plus b = Ok (unescape_gen plus b).
Proof.
  intros plus b. unfold decode_url_gen. apply (decode_loop_spec plus _ b []). pose proof (len_nonneg b). lia.
Qed.

Lemma decode_spec_proof : forall b, decode_url b = Ok (unescape b).
Proof. intros b. unfold decode_url. rewrite decode_gen_spec_proof. rewrite unescape_gen_true. reflexivity. Qed.

(* decodeURL(b, false), the decoder DataURI uses *)
Lemma pct_decode_spec_proof : forall b, decode_url_gen false b = Ok (pct_unescape b).
Proof. intros b. apply decode_gen_spec_proof. Qed.

Lemma unescape_len l : len (unescape l) <= len l.
Proof.
  assert (H : forall n l, (length l <= n)%nat -> len (unescape l) <= len l).
  { induction n as [|n IH]; intros l' Hn.
    - destruct l'; [cbn; lia|cbn in Hn; lia].
    - destruct l' as [|c t]; [cbn; lia|]. cbn [unescape]. cbn [length] in Hn.
      assert (Ht : len (unescape t) <= len t) by (apply IH; lia).
      destruct (c =? 37).
      + destruct t as [|h1 [|h2 t2]]; try (repeat rewrite len_cons in *; lia).
        destruct (is_hex h1 && is_hex h2).
        * repeat rewrite len_cons. assert (len (unescape t2) <= len t2) by (apply IH; cbn [length] in Hn; lia). lia.
        * repeat rewrite len_cons in *. lia.
      + destruct (c =? 43); repeat rewrite len_cons; lia. }
  apply (H (length l)). lia.
Qed.

Example decode_example :
  decode_url [97; 37; 50; 48; 43; 37; 52; 37; 122; 122; 37] = Ok [97; 32; 32; 37; 52; 37; 122; 122; 37].
Proof. vm_compute. reflexivity. Qed.

(* --- DecodeURL inverts EncodeURL ---------------------------------------------------------------------------- *)
Lemma unescape_plain c r : c <> 37 -> c <> 43 -> unescape (c :: r) = c :: unescape r.
Proof. intros H1 H2. cbn [unescape]. replace (c =? 37) with false by lia. replace (c =? 43) with false by lia. reflexivity. Qed.

Lemma unescape_escape c r : is_byte c -> unescape (37 :: hexd (c / 16) :: hexd (c mod 16) :: r) = c :: unescape r.
Proof.
  intros Hc. destruct (byte_nibbles c Hc) as (Hh & Hl & Hsum).
  destruct (hexd_facts _ Hh) as (Hx1 & Hv1 & _). destruct (hexd_facts _ Hl) as (Hx2 & Hv2 & _).
  cbn [unescape]. replace (37 =? 37) with true by reflexivity. rewrite Hx1, Hx2. cbn [andb].
  rewrite Hv1, Hv2, Hsum. reflexivity.
Qed.

Lemma unescape_encode_ref t b :
  tbl t 37 = Some true -> tbl t 43 = Some true -> Forall is_byte b -> unescape (encode_ref t b) = b.
Proof.
  intros H37 H43 Hb. induction Hb as [|c b Hc _ IH]; [reflexivity|].
  cbn [encode_ref flat_map]. unfold enc1. destruct (tbl t c) as [[|]|] eqn:E.
  - cbn [app]. rewrite unescape_escape by assumption. f_equal. exact IH.
  - cbn [app]. rewrite unescape_plain by congruence. f_equal. exact IH.
  - cbn [app]. rewrite unescape_plain by congruence. f_equal. exact IH.
Qed.

Lemma decode_encode_proof :
  forall t b r, table256 t -> enc_stable t -> tbl t 37 = Some true -> tbl t 43 = Some true ->
    Forall is_byte b -> encode_url b t = Ok r -> decode_url r = Ok b.
Proof.
  intros t b r Ht Hst H37 H43 Hb He. rewrite encode_exact_proof in He by assumption.
  injection He as <-. rewrite decode_spec_proof. f_equal. apply unescape_encode_ref; assumption.
Qed.

Lemma decode_encode_url_proof :
  forall b, Forall is_byte b ->
    exists r, encode_url b Tables.url_encoding_table = Ok r /\ decode_url r = Ok b.
Proof.
  intros b Hb. destruct url_table_facts as (Ht & Hst & H37 & H43).
  exists (encode_ref Tables.url_encoding_table b). split.
  - apply encode_exact_proof; assumption.
  - rewrite decode_spec_proof. f_equal. apply unescape_encode_ref; assumption.
Qed.

(* --- url.QueryUnescape as a reference: it fails on a '%' that is not followed by two hex digits ----- *)
Fixpoint query_unescape (l : list Z) : option (list Z) :=
  match l with
  | [] => Some []
  | c :: t =>
      if c =? 37 then
        match t with
        | h1 :: h2 :: t2 =>
            if is_hex h1 && is_hex h2
            then match query_unescape t2 with Some r => Some ((hex_val h1 * 16 + hex_val h2) :: r) | None => None end
            else None
        | _ => None
        end
      else match query_unescape t with
           | Some r => Some ((if c =? 43 then 32 else c) :: r)
           | None => None
           end
  end.

Lemma query_unescape_agrees_n : forall n l r, (length l <= n)%nat -> query_unescape l = Some r -> unescape l = r.
Proof.
  induction n as [|n IH]; intros l r Hn H.
  - destruct l; [cbn in *; congruence|cbn in Hn; lia].
  - destruct l as [|c t]; [cbn in *; congruence|]. cbn [length] in Hn. cbn [query_unescape unescape] in *.
    destruct (c =? 37).
    + destruct t as [|h1 [|h2 t2]]; try discriminate.
      destruct (is_hex h1 && is_hex h2); [|discriminate].
      destruct (query_unescape t2) as [r2|] eqn:E2; [|discriminate]. injection H as <-.
      f_equal. apply IH; [cbn [length] in Hn; lia|assumption].
    + destruct (query_unescape t) as [r2|] eqn:E2; [|discriminate]. injection H as <-.
      rewrite (IH t r2) by (try lia; assumption). destruct (c =? 43); reflexivity.
Qed.

Lemma decode_agrees_queryunescape_proof :
  forall b r, query_unescape b = Some r -> decode_url b = Ok r.
Proof.
  intros b r H. rewrite decode_spec_proof. f_equal. apply (query_unescape_agrees_n (length b)); [lia|assumption].
Qed.

Example query_unescape_example :
  query_unescape [97; 37; 50; 48; 43; 98] = Some [97; 32; 32; 98] /\ query_unescape [37; 52] = None /\
  decode_url [37; 52] = Ok [37; 52].
Proof. vm_compute. repeat split; reflexivity. Qed.

Lemma no_panic_url_proof :
  forall b, Forall is_byte b ->
    (exists r, encode_url b Tables.url_encoding_table = Ok r) /\
    (exists r, encode_url b Tables.datauri_encoding_table = Ok r) /\
    (exists r, decode_url b = Ok r).
Proof.
  intros b Hb. destruct (encode_exact_repo_tables b Hb) as [H1 H2].
  split; [eauto|]. split; [eauto|]. rewrite decode_spec_proof. eauto.
Qed.

(* --- what exactly happens with a table that marks '%' but not '+' (DataURIEncodingTable) --------------- *)
Definition plus_to_space (c : Z) : Z := if c =? 43 then 32 else c.

Lemma unescape_encode_ref_plus t b :
  tbl t 37 = Some true -> tbl t 43 = Some false -> Forall is_byte b ->
  unescape (encode_ref t b) = map plus_to_space b.
Proof.
  intros H37 H43 Hb. induction Hb as [|c b Hc _ IH]; [reflexivity|].
  cbn [encode_ref flat_map map]. unfold enc1. destruct (tbl t c) as [[|]|] eqn:E.
  - cbn [app]. rewrite unescape_escape by assumption. unfold plus_to_space at 1.
    replace (c =? 43) with false by (destruct (Z.eqb_spec c 43); [congruence|reflexivity]). f_equal. exact IH.
  - cbn [app]. assert (c <> 37) by congruence. cbn [unescape]. replace (c =? 37) with false by lia.
    unfold plus_to_space at 1. destruct (c =? 43); f_equal; exact IH.
  - cbn [app]. assert (c <> 37) by congruence. cbn [unescape]. replace (c =? 37) with false by lia.
    unfold plus_to_space at 1. destruct (c =? 43); f_equal; exact IH.
Qed.

Lemma decode_encode_datauri_table_proof :
  forall b, Forall is_byte b ->
    exists r, encode_url b Tables.datauri_encoding_table = Ok r /\ decode_url r = Ok (map plus_to_space b).
Proof.
  intros b Hb. destruct datauri_table_facts as (Ht & Hst & H37 & H43).
  exists (encode_ref Tables.datauri_encoding_table b). split.
  - apply encode_exact_proof; assumption.
  - rewrite decode_spec_proof. f_equal. apply unescape_encode_ref_plus; assumption.
Qed.

Lemma decode_not_longer_proof : forall b r, decode_url b = Ok r -> len r <= len b.
Proof. intros b r H. rewrite decode_spec_proof in H. injection H as <-. apply unescape_len. Qed.

(* --- percent-decoding only (the DataURI payload): inverts EncodeURL for ANY table that marks '%' ------------ *)
Lemma pct_unescape_plain c r : c <> 37 -> pct_unescape (c :: r) = c :: pct_unescape r.
Proof. intros H. unfold pct_unescape. cbn [unescape_gen andb]. replace (c =? 37) with false by lia. reflexivity. Qed.

Lemma pct_unescape_escape c r : is_byte c -> pct_unescape (37 :: hexd (c / 16) :: hexd (c mod 16) :: r) = c :: pct_unescape r.
Proof.
  intros Hc. destruct (byte_nibbles c Hc) as (Hh & Hl & Hsum).
  destruct (hexd_facts _ Hh) as (Hx1 & Hv1 & _). destruct (hexd_facts _ Hl) as (Hx2 & Hv2 & _).
  unfold pct_unescape. cbn [unescape_gen]. replace (37 =? 37) with true by reflexivity. rewrite Hx1, Hx2. cbn [andb].
  rewrite Hv1, Hv2, Hsum. reflexivity.
Qed.

Lemma pct_unescape_encode_ref t b :
  tbl t 37 = Some true -> Forall is_byte b -> pct_unescape (encode_ref t b) = b.
Proof.
  intros H37 Hb. induction Hb as [|c b Hc _ IH]; [reflexivity|].
  cbn [encode_ref flat_map]. unfold enc1. destruct (tbl t c) as [[|]|] eqn:E.
  - cbn [app]. rewrite pct_unescape_escape by assumption. f_equal. exact IH.
  - cbn [app]. rewrite pct_unescape_plain by congruence. f_equal. exact IH.
  - cbn [app]. rewrite pct_unescape_plain by congruence. f_equal. exact IH.
Qed.

(* the condition is exact: a table that leaves '%' alone does not round-trip "%41" *)
Lemma pct_needs_percent_marked t :
  table256 t -> tbl t 37 = Some false -> tbl t 52 = Some false -> tbl t 49 = Some false ->
  encode_ref t [37; 52; 49] = [37; 52; 49] /\ pct_unescape [37; 52; 49] = [65].
Proof.
  intros _ H37 H52 H49. split; [|reflexivity].
  cbn [encode_ref flat_map]. unfold enc1. rewrite H37, H52, H49. reflexivity.
Qed.

Lemma pct_decode_encode_proof :
  forall t b r, table256 t -> enc_stable t -> tbl t 37 = Some true -> Forall is_byte b ->
    encode_url b t = Ok r -> decode_url_gen false r = Ok b.
Proof.
  intros t b r Ht Hst H37 Hb He. rewrite encode_exact_proof in He by assumption.
  injection He as <-. rewrite pct_decode_spec_proof. f_equal. apply pct_unescape_encode_ref; assumption.
Qed.
