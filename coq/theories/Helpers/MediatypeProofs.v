(* Helpers/MediatypeProofs.v — Mediatype never panics, never runs out of fuel, and everything it
   returns is a sub-slice of its argument. *)
From Verif Require Import Common.Base Common.Tactics Helpers.Model Helpers.Lists.
From Coq Require Import ZifyBool.

Definition is_slice_of (s x : list Z) : Prop :=
  exists lo hi, 0 <= lo <= hi /\ hi <= len s /\ x = slice s lo hi.

Lemma scan_range p s i : 0 <= i <= len s -> i <= scan p s i <= len s.
Proof.
  intros H. unfold scan. pose proof (run_bound p (skipz i s)) as Hr. rewrite len_skipz in Hr by lia. lia.
Qed.

Lemma guarded_total p s i : 0 <= i -> exists x, guarded p s i = Some x /\ (x = true -> i < len s).
Proof.
  intros Hi. rewrite guarded_hd by assumption. eexists. split; [reflexivity|].
  destruct (skipz i s) eqn:E; [discriminate|]. intros _.
  destruct (Z_lt_ge_dec i (len s)) as [|Hge]; [assumption|]. rewrite skipz_all in E by lia. discriminate.
Qed.

Lemma checked_slice_ok s lo hi : 0 <= lo <= hi -> hi <= len s -> checked_slice s lo hi = Some (slice s lo hi).
Proof. intros H1 H2. unfold checked_slice, slice_ok. replace ((0 <=? lo) && (lo <=? hi) && (hi <=? len s)) with true by lia. reflexivity. Qed.

Definition kv_ok (s : list Z) (kv : list Z * list Z) : Prop := is_slice_of s (fst kv) /\ is_slice_of s (snd kv).

Lemma mediatype_params_total : forall fuel s i ps,
  0 <= i < len s -> len s - i <= Z.of_nat fuel -> Forall (kv_ok s) ps ->
  exists ps', mediatype_params fuel s i ps = Ok ps' /\ Forall (kv_ok s) ps' /\ (length ps < length ps')%nat.
Proof.
  induction fuel as [|f IH]; intros s i ps Hi Hf Hps; [lia|].
  cbn [mediatype_params].
  set (i1 := scan is_sp s (i + 1)).
  assert (H1 : i + 1 <= i1 <= len s) by (apply scan_range; lia).
  set (i2 := scan key_char s i1).
  assert (H2 : i1 <= i2 <= len s) by (apply scan_range; lia).
  rewrite checked_slice_ok by lia.
  set (i3 := scan is_sp s i2).
  assert (H3 : i2 <= i3 <= len s) by (apply scan_range; lia).
  destruct (guarded_total (fun c => c =? 61) s i3 ltac:(lia)) as (eq & -> & Heq).
  (* both shapes of the value *)
  assert (Hval : exists st e, (if eq then (scan is_sp s (i3 + 1), scan val_char s (scan is_sp s (i3 + 1))) else (i3, i3)) = (st, e)
                              /\ i3 <= st <= e /\ e <= len s).
  { destruct eq.
    - specialize (Heq eq_refl).
      set (i4 := scan is_sp s (i3 + 1)).
      assert (H4 : i3 + 1 <= i4 <= len s) by (apply scan_range; lia).
      pose proof (scan_range val_char s i4 ltac:(lia)). exists i4, (scan val_char s i4). split; [reflexivity|lia].
    - exists i3, i3. split; [reflexivity|lia]. }
  destruct Hval as (st & e & -> & Hst & He).
  rewrite checked_slice_ok by lia.
  set (i5 := scan is_sp s e).
  assert (H5 : e <= i5 <= len s) by (apply scan_range; lia).
  assert (Hnew : Forall (kv_ok s) ((slice s i1 i2, slice s st e) :: ps)).
  { constructor; [|assumption]. split; cbn [fst snd]; [exists i1, i2|exists st, e]; repeat split; lia. }
  destruct (guarded_total (fun c => c =? 59) s i5 ltac:(lia)) as (semi & -> & Hsemi).
  destruct semi.
  - specialize (Hsemi eq_refl).
    destruct (IH s i5 _ ltac:(lia) ltac:(lia) Hnew) as (ps' & Hr & Hok & Hlen).
    exists ps'. split; [exact Hr|]. split; [exact Hok|]. cbn [length] in Hlen. lia.
  - eexists. split; [reflexivity|]. split; [exact Hnew|]. cbn [length]. lia.
Qed.

Lemma mediatype_no_panic_proof :
  forall b, exists off mlen ps,
    mediatype b = Ok (off, mlen, ps) /\
    off = run is_sp b /\ 0 <= mlen /\ off + mlen <= len b /\
    match ps with
    | None => True
    | Some l => l <> [] /\ Forall (kv_ok (skipz off b)) l
    end.
Proof.
  intros b. unfold mediatype.
  pose proof (run_bound is_sp b) as Hoff. unfold scan. rewrite skipz_0, Z.add_0_l.
  set (off := run is_sp b) in *.
  unfold slice_ok. replace ((0 <=? off) && (off <=? len b) && (len b <=? len b)) with true by lia. cbn [negb].
  set (s := skipz off b).
  assert (Hs : len s = len b - off) by (apply len_skipz; lia).
  set (i := 3 + run (fun c => negb (is_semi_or_sp c)) (skipz 3 s)).
  destruct (Z.leb_spec (len s) i) as [Hle|Hlt].
  { exists off, (len s), None. repeat split; try lia. }
  assert (Hi : 3 <= i) by (unfold i; pose proof (run_bound (fun c => negb (is_semi_or_sp c)) (skipz 3 s)); lia).
  destruct (peekz_in_range s i ltac:(lia)) as [c ->].
  assert (Hgo : forall k, 0 <= k < len s ->
            exists r, match mediatype_params (Z.to_nat (len s + 1)) s k [] with
                      | Ok ps => Ok (off, i, Some ps) | Panic => Panic | OutOfFuel => OutOfFuel end = Ok (off, i, Some r)
                      /\ r <> [] /\ Forall (kv_ok s) r).
  { intros k Hk. destruct (mediatype_params_total (Z.to_nat (len s + 1)) s k [] Hk ltac:(lia) ltac:(constructor)) as (ps' & -> & Hok & Hlen).
    exists ps'. split; [reflexivity|]. split; [|assumption]. intros E. subst ps'. cbn in Hlen. lia. }
  destruct (c =? 32).
  - set (i' := i + 1 + run is_sp (skipz (i + 1) s)).
    assert (Hi' : i + 1 <= i' <= len s) by (apply (scan_range is_sp s (i + 1)); lia).
    destruct (Z.leb_spec (len s) i') as [Hle'|Hlt'].
    { exists off, i, None. repeat split; lia. }
    destruct (peekz_in_range s i' ltac:(lia)) as [c1 ->].
    destruct (negb (c1 =? 59)).
    { exists off, i, None. repeat split; lia. }
    destruct (Hgo i' ltac:(lia)) as (r & -> & Hne & Hok).
    exists off, i, (Some r). repeat split; try lia; assumption.
  - destruct (Hgo i ltac:(lia)) as (r & -> & Hne & Hok).
    exists off, i, (Some r). repeat split; try lia; assumption.
Qed.

Example mediatype_example :
  (* " text/plain  ; charset = US-ASCII " *)
  mediatype [32; 116; 101; 120; 116; 47; 112; 108; 97; 105; 110; 32; 32; 59; 32; 99; 104; 97; 114; 115; 101; 116; 32; 61; 32; 85; 83; 45; 65; 83; 67; 73; 73; 32]
  = Ok (1, 10, Some [([99; 104; 97; 114; 115; 101; 116], [85; 83; 45; 65; 83; 67; 73; 73])]) /\
  mediatype [116; 101; 120; 116] = Ok (0, 4, None) /\ mediatype [] = Ok (0, 0, None).
Proof. vm_compute. repeat split; reflexivity. Qed.

(* --- well-formed unquoted values: type *( ";" key "=" value ) -------------------------------------- *)
Definition token (t : list Z) : Prop := Forall (fun c => c <> 59 /\ c <> 32 /\ c <> 61) t.
Definition render (ps : list (list Z * list Z)) : list Z :=
  flat_map (fun kv => 59 :: fst kv ++ 61 :: snd kv) ps.

Lemma token_forallb p t : (forall c, c <> 59 /\ c <> 32 /\ c <> 61 -> p c = true) -> token t -> forallb p t = true.
Proof. intros Hp Ht. rewrite forallb_forall. unfold token in Ht. rewrite Forall_forall in Ht. intros x Hx. apply Hp. apply Ht. assumption. Qed.

Lemma run_sp_token t R : token t -> (match R with c :: _ => c <> 32 | [] => True end) -> run is_sp (t ++ R) = 0.
Proof.
  intros Ht HR. destruct t as [|c t].
  - cbn [app]. destruct R as [|c R]; [reflexivity|]. apply run_stop. unfold is_sp. lia.
  - cbn [app]. apply run_stop. inversion Ht as [|? ? Hc _]; subst. unfold is_sp. lia.
Qed.

(* rest is empty or the next parameter *)
Definition param_follows (rest : list Z) : Prop := rest = [] \/ exists r, rest = 59 :: r.

Lemma params_step f pre k v rest acc :
  token k -> token v -> param_follows rest ->
  mediatype_params (S f) (pre ++ 59 :: k ++ 61 :: v ++ rest) (len pre) acc =
  match rest with
  | [] => Ok ((k, v) :: acc)
  | _ => mediatype_params f (pre ++ 59 :: k ++ 61 :: v ++ rest) (len pre + 2 + len k + len v) ((k, v) :: acc)
  end.
Proof.
  intros Hk Hv Hrest.
  set (X := 59 :: k ++ 61 :: v ++ rest). set (s := pre ++ X).
  pose proof (len_nonneg pre) as Lp. pose proof (len_nonneg k) as Lk. pose proof (len_nonneg v) as Lv.
  assert (Hsk : forall n, 0 <= n -> skipz (len pre + n) s = skipz n X).
  { intros n Hn. unfold s. apply skipz_app_more. assumption. }
  assert (X1 : skipz 1 X = k ++ 61 :: v ++ rest) by reflexivity.
  assert (X2 : skipz (1 + len k) X = 61 :: v ++ rest).
  { unfold X. replace (1 + len k) with (len k + 1) by lia. rewrite skipz_cons by lia. apply skipz_app_len. }
  assert (X3 : skipz (1 + len k + 1) X = v ++ rest).
  { rewrite skipz_succ_tl by lia. rewrite X2. reflexivity. }
  assert (X4 : skipz (1 + len k + 1 + len v) X = rest).
  { rewrite skipz_add by lia. rewrite X3. apply skipz_app_len. }
  assert (Hrest_sp : match rest with c :: _ => c <> 32 | [] => True end).
  { destruct Hrest as [->|(r & ->)]; [exact I|lia]. }
  assert (Hrest_val : run val_char rest = 0).
  { destruct Hrest as [->|(r & ->)]; [reflexivity|]. apply run_stop. reflexivity. }
  set (i1 := len pre + 1). set (i2 := i1 + len k). set (i3 := i2 + 1). set (i4 := i3 + len v).
  assert (S1 : skipz i1 s = k ++ 61 :: v ++ rest) by (unfold i1; rewrite (Hsk 1) by lia; exact X1).
  assert (S2 : skipz i2 s = 61 :: v ++ rest).
  { unfold i2, i1. replace (len pre + 1 + len k) with (len pre + (1 + len k)) by lia. rewrite Hsk by lia. exact X2. }
  assert (S3 : skipz i3 s = v ++ rest).
  { unfold i3, i2, i1. replace (len pre + 1 + len k + 1) with (len pre + (1 + len k + 1)) by lia. rewrite Hsk by lia. exact X3. }
  assert (S4 : skipz i4 s = rest).
  { unfold i4, i3, i2, i1. replace (len pre + 1 + len k + 1 + len v) with (len pre + (1 + len k + 1 + len v)) by lia.
    rewrite Hsk by lia. exact X4. }
  assert (E1 : scan is_sp s i1 = i1).
  { unfold scan. rewrite S1. rewrite (run_sp_token k (61 :: v ++ rest) Hk) by lia. lia. }
  assert (E2 : scan key_char s i1 = i2).
  { unfold scan. rewrite S1.
    rewrite run_app_all by (apply token_forallb; [|assumption]; intros c Hc; unfold key_char; lia).
    rewrite (run_stop key_char 61) by reflexivity. unfold i2. lia. }
  assert (E3 : scan is_sp s i2 = i2).
  { unfold scan. rewrite S2. rewrite (run_stop is_sp 61) by reflexivity. lia. }
  assert (E4 : scan is_sp s (i2 + 1) = i3).
  { unfold scan. fold i3. rewrite S3. rewrite (run_sp_token v rest Hv Hrest_sp). lia. }
  assert (E5 : scan val_char s i3 = i4).
  { unfold scan. rewrite S3.
    rewrite run_app_all by (apply token_forallb; [|assumption]; intros c Hc; unfold val_char; lia).
    rewrite Hrest_val. unfold i4. lia. }
  assert (E6 : scan is_sp s i4 = i4).
  { unfold scan. rewrite S4. replace (run is_sp rest) with 0; [lia|].
    destruct Hrest as [->|(r & ->)]; [reflexivity|]. symmetry. apply run_stop. reflexivity. }
  assert (Ls : len s = len pre + 1 + len k + 1 + len v + len rest).
  { unfold s, X. rewrite len_app, len_cons, len_app, len_cons, len_app. lia. }
  pose proof (len_nonneg rest) as Lr.
  assert (Hkey : checked_slice s i1 i2 = Some k).
  { rewrite checked_slice_ok by (unfold i2, i1; lia).
    f_equal. unfold s, X. replace (pre ++ 59 :: k ++ 61 :: v ++ rest) with ((pre ++ [59]) ++ k ++ (61 :: v ++ rest))
      by (rewrite <- app_assoc; reflexivity).
    unfold i2, i1. replace (len pre + 1) with (len (pre ++ [59])) by (rewrite len_app; reflexivity). apply slice_app_mid. }
  assert (Hvalue : checked_slice s i3 i4 = Some v).
  { rewrite checked_slice_ok by (unfold i4, i3, i2, i1; lia).
    f_equal. unfold s, X.
    replace (pre ++ 59 :: k ++ 61 :: v ++ rest) with ((pre ++ 59 :: k ++ [61]) ++ v ++ rest)
      by (repeat (rewrite <- app_assoc; cbn [app]); reflexivity).
    unfold i4, i3, i2, i1. replace (len pre + 1 + len k + 1) with (len (pre ++ 59 :: k ++ [61]))
      by (rewrite len_app, len_cons, len_app; change (len [61]) with 1; lia).
    apply slice_app_mid. }
  assert (G1 : guarded (fun c => c =? 61) s i2 = Some true).
  { rewrite guarded_hd by (unfold i2, i1; lia). rewrite S2. reflexivity. }
  assert (G2 : guarded (fun c => c =? 59) s i4 = Some (match rest with [] => false | _ => true end)).
  { rewrite guarded_hd by (unfold i4, i3, i2, i1; lia). rewrite S4.
    destruct Hrest as [->|(r & ->)]; reflexivity. }
  cbn [mediatype_params]. fold i1. rewrite E1, E2, Hkey, E3, G1, E4, E5, Hvalue, E6, G2.
  destruct rest as [|c0 r0]; [reflexivity|]. f_equal. unfold i4, i3, i2, i1. lia.
Qed.

Definition kv_token (kv : list Z * list Z) : Prop := token (fst kv) /\ token (snd kv).

Lemma render_follows ps : param_follows (render ps).
Proof. destruct ps as [|kv ps]; [left; reflexivity|right]. cbn [render flat_map app]. eauto. Qed.

Lemma params_render : forall ps pre acc fuel kv,
  Forall kv_token (kv :: ps) -> (length ps < fuel)%nat ->
  mediatype_params fuel (pre ++ render (kv :: ps)) (len pre) acc = Ok (rev (kv :: ps) ++ acc).
Proof.
  induction ps as [|kv' ps IH]; intros pre acc fuel [k v] Hall Hf.
  - destruct fuel as [|f]; [cbn in Hf; lia|].
    inversion Hall as [|? ? [Hk Hv] _]; subst. cbn [fst snd] in *.
    cbn [render flat_map fst snd]. rewrite app_nil_r.
    replace (59 :: k ++ 61 :: v) with (59 :: k ++ 61 :: v ++ []) by (rewrite app_nil_r; reflexivity).
    rewrite params_step by (try assumption; left; reflexivity). reflexivity.
  - destruct fuel as [|f]; [cbn in Hf; lia|]. cbn [length] in Hf.
    inversion Hall as [|? ? [Hk Hv] Hrest]; subst. cbn [fst snd] in *.
    change (render ((k, v) :: kv' :: ps)) with ((59 :: k ++ 61 :: v) ++ render (kv' :: ps)).
    replace ((59 :: k ++ 61 :: v) ++ render (kv' :: ps)) with (59 :: k ++ 61 :: v ++ render (kv' :: ps))
      by (cbn [app]; rewrite <- app_assoc; reflexivity).
    rewrite params_step by (try assumption; apply render_follows).
    destruct (render (kv' :: ps)) as [|c0 r0] eqn:Er; [destruct kv'; discriminate|]. rewrite <- Er.
    replace (pre ++ 59 :: k ++ 61 :: v ++ render (kv' :: ps)) with ((pre ++ 59 :: k ++ 61 :: v) ++ render (kv' :: ps))
      by (repeat (rewrite <- app_assoc; cbn [app]); reflexivity).
    replace (len pre + 2 + len k + len v) with (len (pre ++ 59 :: k ++ 61 :: v))
      by (rewrite len_app, len_cons, len_app, len_cons; lia).
    rewrite IH by (try assumption; lia).
    cbn [rev]. repeat rewrite <- app_assoc. reflexivity.
Qed.

(* a mimetype of at least three bytes without ';' and ' ', followed by n >= 1 parameters key=value whose
   keys and values contain no ';', ' ', '=': Mediatype returns the mimetype and exactly these pairs
   (most recent first; as a map: later assignments to the same key win) *)
Lemma mediatype_wellformed_proof :
  forall ty kv ps, 3 <= len ty -> Forall (fun c => c <> 59 /\ c <> 32) ty -> Forall kv_token (kv :: ps) ->
    mediatype (ty ++ render (kv :: ps)) = Ok (0, len ty, Some (rev (kv :: ps))).
Proof.
  intros ty kv ps Hlen Hty Hall. unfold mediatype.
  set (b := ty ++ render (kv :: ps)).
  assert (Hhead : exists c0 t0, ty = c0 :: t0 /\ c0 <> 32).
  { destruct ty as [|c0 t0]; [unfold len in Hlen; cbn in Hlen; lia|]. inversion Hty as [|? ? Hc _]; subst. exists c0, t0. split; [reflexivity|lia]. }
  destruct Hhead as (c0 & t0 & Ety & Hc0).
  assert (Hoff : scan is_sp b 0 = 0).
  { unfold scan. rewrite skipz_0. unfold b. rewrite Ety. cbn [app]. rewrite run_stop; [reflexivity|]. unfold is_sp. lia. }
  rewrite Hoff. rewrite skipz_0.
  unfold slice_ok. pose proof (len_nonneg b). replace ((0 <=? 0) && (0 <=? len b) && (len b <=? len b)) with true by lia. cbn [negb].
  (* the first ';' or ' ' at or after index 3 is the ';' of the first parameter *)
  assert (Hrender : exists r, render (kv :: ps) = 59 :: r) by (cbn [render flat_map app]; eauto).
  destruct Hrender as [r Er].
  assert (Hi : scan (fun c => negb (is_semi_or_sp c)) b 3 = len ty).
  { unfold scan. unfold b.
    assert (Hsk3 : skipz 3 (ty ++ render (kv :: ps)) = skipz 3 ty ++ render (kv :: ps)).
    { unfold skipz. rewrite skipn_app. replace (Z.to_nat 3 - length ty)%nat with 0%nat by (unfold len in Hlen; lia). reflexivity. }
    rewrite Hsk3. rewrite run_app_all.
    - rewrite Er. rewrite run_stop by reflexivity. rewrite len_skipz by lia. lia.
    - rewrite forallb_forall. intros x Hx. rewrite Forall_forall in Hty.
      assert (In x ty) by (rewrite <- (firstz_skipz 3 ty); apply in_or_app; right; exact Hx).
      specialize (Hty x H0). unfold is_semi_or_sp. lia. }
  rewrite Hi.
  assert (Lb : len b = len ty + len (render (kv :: ps))) by (unfold b; apply len_app).
  assert (Lr : 0 < len (render (kv :: ps))) by (rewrite Er, len_cons; pose proof (len_nonneg r); lia).
  replace (len b <=? len ty) with false by lia.
  unfold b at 1. rewrite peekz_view. rewrite Er. cbn [hd_error]. replace (59 =? 32) with false by reflexivity.
  rewrite Lb. unfold b.
  rewrite params_render; [rewrite app_nil_r; reflexivity|assumption|].
  (* fuel: one iteration per parameter, each parameter is at least two bytes *)
  assert (Hfuel : forall l, Z.of_nat (length l) <= len (render l)).
  { induction l as [|x l IHl]; [unfold len; cbn; lia|].
    cbn [render flat_map length]. fold (render l). rewrite len_app, len_cons.
    pose proof (len_nonneg (fst x ++ 61 :: snd x)). lia. }
  specialize (Hfuel (kv :: ps)). cbn [length] in Hfuel. lia.
Qed.

Example mediatype_wellformed_example :
  (* text/plain;charset=utf-8;a=b *)
  mediatype ([116; 101; 120; 116; 47; 112; 108; 97; 105; 110] ++
             render [([99; 104; 97; 114; 115; 101; 116], [117; 116; 102; 45; 56]); ([97], [98])]) =
  Ok (0, 10, Some [([97], [98]); ([99; 104; 97; 114; 115; 101; 116], [117; 116; 102; 45; 56])]).
Proof. vm_compute. reflexivity. Qed.

Lemma no_panic_mediatype_proof : forall b, exists r, mediatype b = Ok r.
Proof. intros b. destruct (mediatype_no_panic_proof b) as (off & mlen & ps & H & _). eauto. Qed.

(* --- the same with optional spaces: type *( OWS ";" OWS key "=" value ) OWS ------------------------- *)
Definition spaces (l : list Z) : Prop := Forall (fun c => c = 32) l.

(* one parameter: spaces after the ';', key, value, spaces after the value *)
Definition wparam : Type := list Z * list Z * list Z * list Z.
Definition wp_ok (p : wparam) : Prop :=
  let '(spa, k, v, spb) := p in spaces spa /\ token k /\ token v /\ v <> [] /\ spaces spb.
Definition wp_render (p : wparam) : list Z := let '(spa, k, v, spb) := p in 59 :: spa ++ k ++ 61 :: v ++ spb.
Definition wp_kv (p : wparam) : list Z * list Z := let '(spa, k, v, spb) := p in (k, v).
Definition render_ows (ps : list wparam) : list Z := flat_map wp_render ps.

Lemma spaces_forallb l : spaces l -> forallb is_sp l = true.
Proof. intros H. rewrite forallb_forall. unfold spaces in H. rewrite Forall_forall in H. intros x Hx. rewrite (H x Hx). reflexivity. Qed.

Lemma run_sp_spaces l R : spaces l -> (match R with c :: _ => c <> 32 | [] => True end) -> run is_sp (l ++ R) = len l.
Proof.
  intros Hl HR. rewrite run_app_all by (apply spaces_forallb; assumption).
  destruct R as [|c R]; [cbn [run]; lia|]. rewrite run_stop; [lia|]. unfold is_sp. lia.
Qed.

Lemma slice_of_skipz (s : list Z) i x R : skipz i s = x ++ R -> slice s i (i + len x) = x.
Proof. intros H. unfold slice. rewrite H. replace (i + len x - i) with (len x) by lia. apply firstz_app_len. Qed.

Lemma skipz_step (s : list Z) i x R : 0 <= i -> skipz i s = x ++ R -> skipz (i + len x) s = R.
Proof. intros Hi H. rewrite skipz_add by (try apply len_nonneg; assumption). rewrite H. apply skipz_app_len. Qed.

Lemma skipz_len_bound (s : list Z) i R : 0 <= i -> skipz i s = R -> R <> [] -> i + len R = len s.
Proof.
  intros Hi H Hne. destruct (Z_le_gt_dec (len s) i) as [Hle|Hgt].
  - rewrite skipz_all in H by assumption. congruence.
  - rewrite <- H. rewrite len_skipz by lia. lia.
Qed.

Lemma params_step_ows f pre spa k v spb rest acc :
  wp_ok (spa, k, v, spb) -> param_follows rest ->
  let s := pre ++ wp_render (spa, k, v, spb) ++ rest in
  mediatype_params (S f) s (len pre) acc =
  match rest with
  | [] => Ok ((k, v) :: acc)
  | _ => mediatype_params f s (len pre + len (wp_render (spa, k, v, spb))) ((k, v) :: acc)
  end.
Proof.
  intros (Hspa & Hk & Hv & Hvne & Hspb) Hrest s.
  pose proof (len_nonneg pre) as Lp. pose proof (len_nonneg spa) as La. pose proof (len_nonneg k) as Lk.
  pose proof (len_nonneg v) as Lv. pose proof (len_nonneg spb) as Lb. pose proof (len_nonneg rest) as Lr.
  set (R4 := spb ++ rest). set (R3 := v ++ R4). set (R2 := 61 :: R3). set (R1 := k ++ R2). set (R0 := spa ++ R1).
  assert (Es : s = pre ++ 59 :: R0).
  { unfold s, wp_render, R0, R1, R2, R3, R4. cbn [app]. repeat (rewrite <- app_assoc; cbn [app]). reflexivity. }
  set (i0 := len pre + 1). set (i1 := i0 + len spa). set (i2 := i1 + len k). set (i3 := i2 + 1).
  set (i4 := i3 + len v). set (i5 := i4 + len spb).
  assert (S0 : skipz i0 s = R0).
  { unfold i0. rewrite Es. rewrite skipz_app_more by lia. reflexivity. }
  assert (S1 : skipz i1 s = R1) by (apply (skipz_step s i0 spa R1); [unfold i0; lia|exact S0]).
  assert (S2 : skipz i2 s = R2) by (apply (skipz_step s i1 k R2); [unfold i1, i0; lia|exact S1]).
  assert (S3 : skipz i3 s = R3).
  { unfold i3. rewrite skipz_succ_tl by (unfold i2, i1, i0; lia). rewrite S2. reflexivity. }
  assert (S4 : skipz i4 s = R4) by (apply (skipz_step s i3 v R4); [unfold i3, i2, i1, i0; lia|exact S3]).
  assert (S5 : skipz i5 s = rest) by (apply (skipz_step s i4 spb rest); [unfold i4, i3, i2, i1, i0; lia|exact S4]).
  assert (Ls : i3 + len R3 = len s).
  { apply skipz_len_bound; [unfold i3, i2, i1, i0; lia|exact S3|]. unfold R3. destruct v; [contradiction|discriminate]. }
  assert (LR3 : len R3 = len v + len spb + len rest) by (unfold R3, R4; repeat rewrite len_app; lia).
  assert (Hrest_sp : match rest with c :: _ => c <> 32 | [] => True end).
  { destruct Hrest as [->|(r & ->)]; [exact I|lia]. }
  assert (Hrest_val : run val_char rest = 0).
  { destruct Hrest as [->|(r & ->)]; [reflexivity|]. apply run_stop. reflexivity. }
  assert (Hv_head : exists c t, v = c :: t /\ c <> 32).
  { destruct v as [|c t]; [contradiction|]. pose proof (Forall_inv Hv) as Hc. cbv beta in Hc. exists c, t. split; [reflexivity|lia]. }
  assert (E0 : scan is_sp s i0 = i1).
  { unfold scan. rewrite S0. unfold R0. rewrite run_sp_spaces; [reflexivity|assumption|].
    unfold R1. destruct k as [|c t]; [cbn [app]; unfold R2; lia|]. cbn [app]. pose proof (Forall_inv Hk) as Hc. cbv beta in Hc. lia. }
  assert (E1 : scan key_char s i1 = i2).
  { unfold scan. rewrite S1. unfold R1.
    rewrite run_app_all by (apply token_forallb; [|assumption]; intros c Hc; unfold key_char; lia).
    unfold R2. rewrite (run_stop key_char 61) by reflexivity. unfold i2. lia. }
  assert (E2 : scan is_sp s i2 = i2).
  { unfold scan. rewrite S2. unfold R2. rewrite (run_stop is_sp 61) by reflexivity. lia. }
  assert (E3 : scan is_sp s (i2 + 1) = i3).
  { unfold scan. fold i3. rewrite S3. unfold R3. destruct Hv_head as (c & t & -> & Hc). cbn [app].
    rewrite run_stop; [lia|]. unfold is_sp. lia. }
  assert (E4 : scan val_char s i3 = i4).
  { unfold scan. rewrite S3. unfold R3.
    rewrite run_app_all by (apply token_forallb; [|assumption]; intros c Hc; unfold val_char; lia).
    unfold R4. replace (run val_char (spb ++ rest)) with 0; [unfold i4; lia|].
    destruct spb as [|c t]; [cbn [app]; symmetry; exact Hrest_val|].
    cbn [app]. symmetry. apply run_stop. pose proof (Forall_inv Hspb) as Hc. cbv beta in Hc. rewrite Hc. reflexivity. }
  assert (E5 : scan is_sp s i4 = i5).
  { unfold scan. rewrite S4. unfold R4. rewrite run_sp_spaces by assumption. reflexivity. }
  assert (Hkey : checked_slice s i1 i2 = Some k).
  { rewrite checked_slice_ok by (unfold i3, i2, i1, i0 in *; lia). f_equal. unfold i2. apply (slice_of_skipz s i1 k R2). exact S1. }
  assert (Hvalue : checked_slice s i3 i4 = Some v).
  { rewrite checked_slice_ok by (unfold i4, i3, i2, i1, i0 in *; lia). f_equal. unfold i4. apply (slice_of_skipz s i3 v R4). exact S3. }
  assert (G1 : guarded (fun c => c =? 61) s i2 = Some true).
  { rewrite guarded_hd by (unfold i2, i1, i0; lia). rewrite S2. reflexivity. }
  assert (G2 : guarded (fun c => c =? 59) s i5 = Some (match rest with [] => false | _ => true end)).
  { rewrite guarded_hd by (unfold i5, i4, i3, i2, i1, i0; lia). rewrite S5.
    destruct Hrest as [->|(r & ->)]; reflexivity. }
  cbn [mediatype_params]. fold i0. rewrite E0, E1, Hkey, E2, G1, E3, E4, Hvalue, E5, G2.
  destruct rest as [|c0 r0]; [reflexivity|]. f_equal.
  unfold i5, i4, i3, i2, i1, i0, wp_render. rewrite len_cons. repeat rewrite len_app. rewrite len_cons. repeat rewrite len_app. lia.
Qed.

Lemma render_ows_follows ps : param_follows (render_ows ps).
Proof.
  destruct ps as [|[[[spa k] v] spb] ps]; [left; reflexivity|right]. cbn [render_ows flat_map wp_render app]. eauto.
Qed.

Lemma params_render_ows : forall ps pre acc fuel p,
  Forall wp_ok (p :: ps) -> (length ps < fuel)%nat ->
  mediatype_params fuel (pre ++ render_ows (p :: ps)) (len pre) acc = Ok (rev (map wp_kv (p :: ps)) ++ acc).
Proof.
  induction ps as [|p' ps IH]; intros pre acc fuel [[[spa k] v] spb] Hall Hf.
  - destruct fuel as [|f]; [cbn in Hf; lia|].
    inversion Hall as [|? ? Hp _]; subst.
    pose proof (params_step_ows f pre spa k v spb [] acc Hp ltac:(left; reflexivity)) as H. cbv zeta in H.
    cbn [render_ows flat_map]. rewrite app_nil_r in *. rewrite H. reflexivity.
  - destruct fuel as [|f]; [cbn in Hf; lia|]. cbn [length] in Hf.
    inversion Hall as [|? ? Hp Hrest]; subst.
    pose proof (params_step_ows f pre spa k v spb (render_ows (p' :: ps)) acc Hp (render_ows_follows _)) as H. cbv zeta in H.
    change (render_ows ((spa, k, v, spb) :: p' :: ps)) with (wp_render (spa, k, v, spb) ++ render_ows (p' :: ps)).
    rewrite H.
    destruct (render_ows (p' :: ps)) as [|c0 r0] eqn:Er.
    { destruct p' as [[[a b] c] d]. discriminate. }
    rewrite <- Er.
    replace (pre ++ wp_render (spa, k, v, spb) ++ render_ows (p' :: ps))
      with ((pre ++ wp_render (spa, k, v, spb)) ++ render_ows (p' :: ps)) by (rewrite <- app_assoc; reflexivity).
    rewrite <- len_app.
    rewrite IH by (try assumption; lia).
    cbn [map rev wp_kv]. repeat rewrite <- app_assoc. reflexivity.
Qed.

Lemma mediatype_wellformed_ows_proof :
  forall sp0 ty sp1 p ps,
    spaces sp0 -> 3 <= len ty -> Forall (fun c => c <> 59 /\ c <> 32) ty -> spaces sp1 -> Forall wp_ok (p :: ps) ->
    mediatype (sp0 ++ ty ++ sp1 ++ render_ows (p :: ps)) = Ok (len sp0, len ty, Some (rev (map wp_kv (p :: ps)))).
Proof.
  intros sp0 ty sp1 p ps Hsp0 Hlen Hty Hsp1 Hall. unfold mediatype.
  set (R := render_ows (p :: ps)). set (b := ty ++ sp1 ++ R).
  assert (Hhead : exists c0 t0, ty = c0 :: t0 /\ c0 <> 32).
  { destruct ty as [|c0 t0]; [unfold len in Hlen; cbn in Hlen; lia|]. inversion Hty as [|? ? Hc _]; subst. exists c0, t0. split; [reflexivity|lia]. }
  destruct Hhead as (c0 & t0 & Ety & Hc0).
  assert (Hoff : scan is_sp (sp0 ++ b) 0 = len sp0).
  { unfold scan. rewrite skipz_0. rewrite run_sp_spaces; [lia|assumption|]. unfold b. rewrite Ety. cbn [app]. exact Hc0. }
  rewrite Hoff. rewrite skipz_app_len.
  unfold slice_ok. rewrite len_app. pose proof (len_nonneg sp0). pose proof (len_nonneg b).
  replace ((0 <=? len sp0) && (len sp0 <=? len sp0 + len b) && (len sp0 + len b <=? len sp0 + len b)) with true by lia.
  cbn [negb].
  assert (HR : exists r, R = 59 :: r).
  { unfold R. destruct p as [[[spa k] v] spb]. cbn [render_ows flat_map wp_render app]. eauto. }
  destruct HR as [r Er].
  assert (Hsk3 : skipz 3 b = skipz 3 ty ++ sp1 ++ R).
  { unfold b, skipz. rewrite skipn_app. replace (Z.to_nat 3 - length ty)%nat with 0%nat by (unfold len in Hlen; lia). reflexivity. }
  assert (Hi : scan (fun c => negb (is_semi_or_sp c)) b 3 = len ty).
  { unfold scan. rewrite Hsk3. rewrite run_app_all.
    - replace (run (fun c => negb (is_semi_or_sp c)) (sp1 ++ R)) with 0; [rewrite len_skipz by lia; lia|].
      symmetry. destruct sp1 as [|c t]; cbn [app]; [rewrite Er|]; apply run_stop; [reflexivity|].
      inversion Hsp1 as [|? ? Hc _]; subst. reflexivity.
    - rewrite forallb_forall. intros x Hx. rewrite Forall_forall in Hty.
      assert (Hin : In x ty) by (rewrite <- (firstz_skipz 3 ty); apply in_or_app; right; exact Hx).
      specialize (Hty x Hin). unfold is_semi_or_sp. lia. }
  rewrite Hi.
  assert (Lb : len b = len ty + len sp1 + len R) by (unfold b; repeat rewrite len_app; lia).
  assert (LR : 0 < len R) by (rewrite Er, len_cons; pose proof (len_nonneg r); lia).
  pose proof (len_nonneg sp1) as Lsp1.
  replace (len b <=? len ty) with false by lia.
  (* fuel: one iteration per parameter, each parameter is at least one byte *)
  assert (Hfuel : forall l, Z.of_nat (length l) <= len (render_ows l)).
  { induction l as [|x l IHl]; [unfold len; cbn; lia|].
    cbn [render_ows flat_map length]. fold (render_ows l). rewrite len_app.
    destruct x as [[[a k0] v0] d]. cbn [wp_render]. rewrite len_cons. pose proof (len_nonneg (a ++ k0 ++ 61 :: v0 ++ d)). lia. }
  specialize (Hfuel (p :: ps)). fold R in Hfuel. cbn [length] in Hfuel.
  assert (Hgo : mediatype_params (Z.to_nat (len b + 1)) b (len ty + len sp1) [] = Ok (rev (map wp_kv (p :: ps)))).
  { unfold b. replace (ty ++ sp1 ++ R) with ((ty ++ sp1) ++ R) by (rewrite <- app_assoc; reflexivity).
    rewrite <- len_app. unfold R. rewrite params_render_ows; [rewrite app_nil_r; reflexivity|assumption|].
    rewrite (len_app (ty ++ sp1)). fold R. pose proof (len_nonneg (ty ++ sp1)). lia. }
  destruct sp1 as [|c1 t1].
  - (* the ';' follows the mimetype directly *)
    unfold b at 1. cbn [app]. rewrite peekz_view. rewrite Er. cbn [hd_error]. replace (59 =? 32) with false by reflexivity.
    change (len (@nil Z)) with 0 in Hgo. rewrite Z.add_0_r in Hgo. rewrite Hgo. reflexivity.
  - inversion Hsp1 as [|? ? Hc1 Ht1]; subst c1.
    unfold b at 1. rewrite peekz_view. cbn [app hd_error]. replace (32 =? 32) with true by reflexivity.
    assert (Hscan : scan is_sp b (len ty + 1) = len ty + len (32 :: t1)).
    { unfold scan. unfold b. replace (ty ++ (32 :: t1) ++ R) with ((ty ++ [32]) ++ t1 ++ R) by (rewrite <- app_assoc; reflexivity).
      replace (len ty + 1) with (len (ty ++ [32])) by (rewrite len_app; reflexivity). rewrite skipz_app_len.
      rewrite run_sp_spaces; [rewrite len_app; repeat rewrite len_cons; replace (len (@nil Z)) with 0 by reflexivity; lia|assumption|]. rewrite Er. lia. }
    rewrite Hscan. rewrite len_cons in *. pose proof (len_nonneg t1).
    replace (len b <=? len ty + (1 + len t1)) with false by lia.
    replace (peekz b (len ty + (1 + len t1))) with (Some 59).
    2:{ unfold b. replace (ty ++ (32 :: t1) ++ R) with ((ty ++ 32 :: t1) ++ R) by (rewrite <- app_assoc; reflexivity).
        replace (len ty + (1 + len t1)) with (len (ty ++ 32 :: t1)) by (rewrite len_app, len_cons; lia).
        rewrite peekz_view. rewrite Er. reflexivity. }
    replace (negb (59 =? 59)) with false by reflexivity. rewrite Hgo. reflexivity.
Qed.

Example mediatype_wellformed_ows_example :
  let p1 : wparam := ([32], [99; 104; 97; 114; 115; 101; 116], [85; 83], [32; 32]) in        (* "; charset=US  " *)
  let p2 : wparam := ([], [97], [98], [32]) in                                                 (* ";a=b " *)
  Forall wp_ok [p1; p2] /\
  mediatype ([32] ++ [116; 101; 120; 116; 47; 112] ++ [32; 32] ++ render_ows [p1; p2]) =
  Ok (1, 6, Some [([97], [98]); ([99; 104; 97; 114; 115; 101; 116], [85; 83])]).
Proof.
  cbv zeta. split; [|vm_compute; reflexivity].
  repeat constructor; try discriminate; lia.
Qed.
