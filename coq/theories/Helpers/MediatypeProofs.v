(* Helpers/MediatypeProofs.v — Mediatype never panics, never runs out of fuel, and everything it
   returns is a sub-slice of its argument. *)
From Verif Require Import Common.Base Common.Tactics Helpers.Model Helpers.Lists.
From Coq Require Import ZifyBool.

Definition is_slice_of (s x : list Z) : Prop :=
  exists lo hi, 0 <= lo <= hi /\ hi <= len s /\ x = slice s lo hi.

Lemma scan_range p s i : 0 <= i <= len s -> i <= scan p s i <= len s.
Proof.
  intros H. unfold scan. pose proof (run_bound p (skipz i s)) as Hr. rewrite len_skipz in Hr by lia. lia.
Qed.

Lemma guarded_total p s i : 0 <= i -> exists x, guarded p s i = Some x /\ (x = true -> i < len s).
Proof.
  intros Hi. rewrite guarded_hd by assumption. eexists. split; [reflexivity|].
  destruct (skipz i s) eqn:E; [discriminate|]. intros _.
  destruct (Z_lt_ge_dec i (len s)) as [|Hge]; [assumption|]. rewrite skipz_all in E by lia. discriminate.
Qed.

Lemma checked_slice_ok s lo hi : 0 <= lo <= hi -> hi <= len s -> checked_slice s lo hi = Some (slice s lo hi).
Proof. intros H1 H2. unfold checked_slice, slice_ok. replace ((0 <=? lo) && (lo <=? hi) && (hi <=? len s)) with true by lia. reflexivity. Qed.

Definition kv_ok (s : list Z) (kv : list Z * list Z) : Prop := is_slice_of s (fst kv) /\ is_slice_of s (snd kv).

Lemma mediatype_params_total : forall fuel s i ps,
  0 <= i < len s -> len s - i <= Z.of_nat fuel -> Forall (kv_ok s) ps ->
  exists ps', mediatype_params fuel s i ps = Ok ps' /\ Forall (kv_ok s) ps' /\ (length ps < length ps')%nat.
Proof.
  induction fuel as [|f IH]; intros s i ps Hi Hf Hps; [lia|].
  cbn [mediatype_params].
  set (i1 := scan is_sp s (i + 1)).
  assert (H1 : i + 1 <= i1 <= len s) by (apply scan_range; lia).
  set (i2 := scan key_char s i1).
  assert (H2 : i1 <= i2 <= len s) by (apply scan_range; lia).
  rewrite checked_slice_ok by lia.
  set (i3 := scan is_sp s i2).
  assert (H3 : i2 <= i3 <= len s) by (apply scan_range; lia).
  destruct (guarded_total (fun c => c =? 61) s i3 ltac:(lia)) as (eq & -> & Heq).
  (* both shapes of the value *)
  assert (Hval : exists st e, (if eq then (scan is_sp s (i3 + 1), scan val_char s (scan is_sp s (i3 + 1))) else (i3, i3)) = (st, e)
                              /\ i3 <= st <= e /\ e <= len s).
  { destruct eq.
    - specialize (Heq eq_refl).
      set (i4 := scan is_sp s (i3 + 1)).
      assert (H4 : i3 + 1 <= i4 <= len s) by (apply scan_range; lia).
      pose proof (scan_range val_char s i4 ltac:(lia)). exists i4, (scan val_char s i4). split; [reflexivity|lia].
    - exists i3, i3. split; [reflexivity|lia]. }
  destruct Hval as (st & e & -> & Hst & He).
  rewrite checked_slice_ok by lia.
  set (i5 := scan is_sp s e).
  assert (H5 : e <= i5 <= len s) by (apply scan_range; lia).
  assert (Hnew : Forall (kv_ok s) ((slice s i1 i2, slice s st e) :: ps)).
  { constructor; [|assumption]. split; cbn [fst snd]; [exists i1, i2|exists st, e]; repeat split; lia. }
  destruct (guarded_total (fun c => c =? 59) s i5 ltac:(lia)) as (semi & -> & Hsemi).
  destruct semi.
  - specialize (Hsemi eq_refl).
    destruct (IH s i5 _ ltac:(lia) ltac:(lia) Hnew) as (ps' & Hr & Hok & Hlen).
    exists ps'. split; [exact Hr|]. split; [exact Hok|]. cbn [length] in Hlen. lia.
  - eexists. split; [reflexivity|]. split; [exact Hnew|]. cbn [length]. lia.
Qed.

Lemma mediatype_no_panic_proof :
  forall b, exists off mlen ps,
    mediatype b = Ok (off, mlen, ps) /\
    off = run is_sp b /\ 0 <= mlen /\ off + mlen <= len b /\
    match ps with
    | None => True
    | Some l => l <> [] /\ Forall (kv_ok (skipz off b)) l
    end.
Proof.
  intros b. unfold mediatype.
  pose proof (run_bound is_sp b) as Hoff. unfold scan. rewrite skipz_0, Z.add_0_l.
  set (off := run is_sp b) in *.
  unfold slice_ok. replace ((0 <=? off) && (off <=? len b) && (len b <=? len b)) with true by lia. cbn [negb].
  set (s := skipz off b).
  assert (Hs : len s = len b - off) by (apply len_skipz; lia).
  set (i := 3 + run (fun c => negb (is_semi_or_sp c)) (skipz 3 s)).
  destruct (Z.leb_spec (len s) i) as [Hle|Hlt].
  { exists off, (len s), None. repeat split; try lia. }
  assert (Hi : 3 <= i) by (unfold i; pose proof (run_bound (fun c => negb (is_semi_or_sp c)) (skipz 3 s)); lia).
  destruct (peekz_in_range s i ltac:(lia)) as [c ->].
  assert (Hgo : forall k, 0 <= k < len s ->
            exists r, match mediatype_params (Z.to_nat (len s + 1)) s k [] with
                      | Ok ps => Ok (off, i, Some ps) | Panic => Panic | OutOfFuel => OutOfFuel end = Ok (off, i, Some r)
                      /\ r <> [] /\ Forall (kv_ok s) r).
  { intros k Hk. destruct (mediatype_params_total (Z.to_nat (len s + 1)) s k [] Hk ltac:(lia) ltac:(constructor)) as (ps' & -> & Hok & Hlen).
    exists ps'. split; [reflexivity|]. split; [|assumption]. intros E. subst ps'. cbn in Hlen. lia. }
  destruct (c =? 32).
  - set (i' := i + 1 + run is_sp (skipz (i + 1) s)).
    assert (Hi' : i + 1 <= i' <= len s) by (apply (scan_range is_sp s (i + 1)); lia).
    destruct (Z.leb_spec (len s) i') as [Hle'|Hlt'].
    { exists off, i, None. repeat split; lia. }
    destruct (peekz_in_range s i' ltac:(lia)) as [c1 ->].
    destruct (negb (c1 =? 59)).
    { exists off, i, None. repeat split; lia. }
    destruct (Hgo i' ltac:(lia)) as (r & -> & Hne & Hok).
    exists off, i, (Some r). repeat split; try lia; assumption.
  - destruct (Hgo i ltac:(lia)) as (r & -> & Hne & Hok).
    exists off, i, (Some r). repeat split; try lia; assumption.
Qed.

Example mediatype_example :
  (* " text/plain  ; charset = US-ASCII " *)
  mediatype [32; 116; 101; 120; 116; 47; 112; 108; 97; 105; 110; 32; 32; 59; 32; 99; 104; 97; 114; 115; 101; 116; 32; 61; 32; 85; 83; 45; 65; 83; 67; 73; 73; 32]
  = Ok (1, 10, Some [([99; 104; 97; 114; 115; 101; 116], [85; 83; 45; 65; 83; 67; 73; 73])]) /\
  mediatype [116; 101; 120; 116] = Ok (0, 4, None) /\ mediatype [] = Ok (0, 0, None).
Proof. vm_compute. repeat split; reflexivity. Qed.
