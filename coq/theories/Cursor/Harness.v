(* Cursor/Harness.v — correspondence driver for the cursor model (C12). *)
From Verif Require Import Common.Base Common.Codec Cursor.Model.

Definition decode_op (code arg : Z) : op :=
  if code =? 0 then OPeek arg else if code =? 1 then OPeekErr arg else if code =? 2 then OErr
  else if code =? 3 then OPeekRune arg else if code =? 4 then OMove arg else if code =? 5 then OMoveRune
  else if code =? 6 then OPos else if code =? 7 then ORewind arg else if code =? 8 then OLexeme
  else if code =? 9 then OSkip else if code =? 10 then OShift else if code =? 11 then OOffset
  else if code =? 12 then OBytes else if code =? 13 then OLen else if code =? 14 then OReset
  else ORestore.

Fixpoint decode_ops (l : list Z) : list op :=
  match l with
  | code :: arg :: t => decode_op code arg :: decode_ops t
  | _ => []
  end.

(* per op: its observation length then the observation; -1 at a panic; at the end -2 then the
   caller's array *)
Fixpoint run_enc (f : flavour) (z : input) (ops : list op) : list Z :=
  match ops with
  | [] => -2 :: arr z
  | o :: rest =>
      match step f z o with
      | None => [-1]
      | Some (z', obs) => len obs :: obs ++ run_enc f z' rest
      end
  end.

(* case: flavour ctor err |d| d |spare| spare ops...   ctor: 0 bytes, 1 string, 2 reader *)
Definition run_cursor (l : list Z) : list Z :=
  let f := if hdz l =? 0 then FInput else FLexer in
  let ctor := hdz (tlz l) in
  let e := hdz (tlz (tlz l)) in
  let '(d, r1) := take_list (tlz (tlz (tlz l))) in
  let '(sp, r2) := take_list r1 in
  let z := if ctor =? 0 then new_bytes d sp else if ctor =? 1 then new_string d else new_reader [d] e in
  run_enc f z (decode_ops r2).
