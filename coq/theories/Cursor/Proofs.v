(* Cursor/Proofs.v — proofs about the cursor model (C12). *)
From Verif Require Import Common.Base Common.Tactics Common.Bits Cursor.Model.
From Coq Require Import ZifyBool.
Ltac Zify.zify_post_hook ::= Z.div_mod_to_equations.

(* Well-formed implementation state: the buffer is the data followed by the NUL terminator,
   and a reader error means no data. *)
Definition wf (z : input) : Prop :=
  exists d, buf z = d ++ [0] /\ (ierr z <> 0 -> d = []).

Definition data_of (z : input) : list Z := firstz (len (buf z) - 1) (buf z).

Lemma firstz_app_exact {A} (a b : list A) : firstz (len a) (a ++ b) = a.
Proof.
  unfold firstz, len. rewrite Nat2Z.id. rewrite firstn_app, Nat.sub_diag, firstn_all. cbn. apply app_nil_r.
Qed.

Lemma wf_data z d : buf z = d ++ [0] -> data_of z = d /\ len (buf z) - 1 = len d.
Proof.
  intros H. unfold data_of. rewrite H, len_app. change (len [0]) with 1.
  replace (len d + 1 - 1) with (len d) by lia. split; [apply firstz_app_exact|reflexivity].
Qed.

Lemma peek_data z d i :
  buf z = d ++ [0] -> 0 <= pos z + i <= len d ->
  peek z i = Some (if pos z + i =? len d then 0 else getz d (pos z + i)).
Proof.
  intros Hb Hr. unfold peek. rewrite Hb.
  destruct (Z.eqb_spec (pos z + i) (len d)) as [E|E].
  - rewrite E. apply peekz_sentinel.
  - rewrite peekz_app_l by lia. unfold getz.
    destruct (peekz_in_range d (pos z + i)) as [c Hc]; [lia|]. rewrite Hc. reflexivity.
Qed.

(* --- slices ------------------------------------------------------------------------ *)
Lemma obs_slice_data d lo hi :
  0 <= lo <= hi -> hi <= len d ->
  obs_slice (d ++ [0]) lo hi = Some (lo :: hi :: (hi - lo) :: slice d lo hi).
Proof.
  intros H1 H2. unfold obs_slice, slice_ok. rewrite len_app. change (len [0]) with 1.
  zb. cbn. rewrite slice_app_l by lia. reflexivity.
Qed.

(* --- UTF-8 -------------------------------------------------------------------------- *)
Lemma land63_cont c : cont c = true -> Z.land c 63 = c - 128.
Proof. unfold cont. intros H. b2p. rewrite land63. lia. Qed.

Lemma rune2_arith c c1 : 192 <= c <= 223 -> cont c1 = true -> rune2 c c1 = (c - 192) * 64 + (c1 - 128).
Proof.
  intros Hc H1. unfold rune2. rewrite (land63_cont _ H1), land31.
  unfold cont in H1. b2p.
  rewrite (lor_shiftl_add _ 6) by lia. lia.
Qed.

Lemma rune3_arith c c1 c2 : 224 <= c <= 239 -> cont c1 = true -> cont c2 = true ->
  rune3 c c1 c2 = (c - 224) * 4096 + (c1 - 128) * 64 + (c2 - 128).
Proof.
  intros Hc H1 H2. unfold rune3. rewrite (land63_cont _ H1), (land63_cont _ H2), land15.
  unfold cont in *. b2p.
  rewrite (Z.shiftl_mul_pow2 _ 12), (Z.shiftl_mul_pow2 _ 6) by lia.
  rewrite (lor_add _ 12) by (change (2 ^ 12) with 4096; change (2 ^ 6) with 64; lia).
  change (2 ^ 12) with 4096. change (2 ^ 6) with 64.
  replace (c mod 16 * 4096 + (c1 - 128) * 64) with ((c mod 16 * 64 + (c1 - 128)) * 2 ^ 6)
    by (change (2 ^ 6) with 64; lia).
  rewrite (lor_add _ 6) by (change (2 ^ 6) with 64; lia).
  change (2 ^ 6) with 64. lia.
Qed.

Lemma rune4_arith c c1 c2 c3 : 240 <= c <= 247 -> cont c1 = true -> cont c2 = true -> cont c3 = true ->
  rune4 c c1 c2 c3 = (c - 240) * 262144 + (c1 - 128) * 4096 + (c2 - 128) * 64 + (c3 - 128).
Proof.
  intros Hc H1 H2 H3. unfold rune4.
  rewrite (land63_cont _ H1), (land63_cont _ H2), (land63_cont _ H3), land7.
  unfold cont in *. b2p.
  rewrite (Z.shiftl_mul_pow2 _ 18), (Z.shiftl_mul_pow2 _ 12), (Z.shiftl_mul_pow2 _ 6) by lia.
  rewrite (lor_add _ 18) by (change (2 ^ 18) with 262144; change (2 ^ 12) with 4096; lia).
  change (2 ^ 18) with 262144. change (2 ^ 12) with 4096. change (2 ^ 6) with 64.
  replace (c mod 8 * 262144 + (c1 - 128) * 4096) with ((c mod 8 * 64 + (c1 - 128)) * 2 ^ 12)
    by (change (2 ^ 12) with 4096; lia).
  rewrite (lor_add _ 12) by (change (2 ^ 12) with 4096; lia).
  change (2 ^ 12) with 4096.
  replace ((c mod 8 * 64 + (c1 - 128)) * 4096 + (c2 - 128) * 64)
    with (((c mod 8 * 64 + (c1 - 128)) * 64 + (c2 - 128)) * 2 ^ 6) by (change (2 ^ 6) with 64; lia).
  rewrite (lor_add _ 6) by (change (2 ^ 6) with 64; lia).
  change (2 ^ 6) with 64. lia.
Qed.

(* utf8_decode consumes only bytes that exist *)
Lemma utf8_decode_len l r k : utf8_decode l = Some (r, k) -> 1 <= k <= len l.
Proof.
  unfold utf8_decode. intros H.
  destruct l as [|c t]; [discriminate|].
  destruct ((0 <=? c) && (c <=? 127)); [inversion H; subst; rewrite len_cons; pose proof (len_nonneg t); lia|].
  destruct t as [|c1 t1]; [discriminate|].
  destruct ((194 <=? c) && (c <=? 223) && cont c1);
    [inversion H; subst; rewrite !len_cons; pose proof (len_nonneg t1); lia|].
  destruct t1 as [|c2 t2]; [discriminate|].
  match type of H with (if ?b then _ else _) = _ => destruct b end;
    [inversion H; subst; rewrite !len_cons; pose proof (len_nonneg t2); lia|].
  destruct t2 as [|c3 t3]; [discriminate|].
  match type of H with (if ?b then _ else _) = _ => destruct b end; [|discriminate].
  inversion H; subst; rewrite !len_cons; pose proof (len_nonneg t3); lia.
Qed.

Lemma skipz_cons_peek d p c t :
  0 <= p -> skipz p d = c :: t -> peekz d p = Some c /\ skipz (p + 1) d = t /\ p < len d.
Proof.
  intros Hp H. unfold skipz in *.
  assert (Hlt : (Z.to_nat p < length d)%nat).
  { destruct (Nat.lt_ge_cases (Z.to_nat p) (length d)) as [L|G]; [exact L|].
    rewrite skipn_all2 in H by exact G. discriminate. }
  split; [|split].
  - unfold peekz, len. zb. cbn.
    rewrite <- (firstn_skipn (Z.to_nat p) d) at 1. rewrite H.
    rewrite nth_error_app2 by (rewrite firstn_length; lia).
    rewrite firstn_length. replace (Z.to_nat p - Nat.min (Z.to_nat p) (length d))%nat with 0%nat by lia.
    reflexivity.
  - replace (Z.to_nat (p + 1)) with (S (Z.to_nat p)) by lia.
    rewrite skipn_S_tl. rewrite H. reflexivity.
  - unfold len. lia.
Qed.

Lemma peek_in_data z d i c :
  buf z = d ++ [0] -> 0 <= pos z + i -> peekz d (pos z + i) = Some c -> peek z i = Some c.
Proof.
  intros Hb Hp H. unfold peek. rewrite Hb. pose proof (peekz_some _ _ _ H).
  rewrite peekz_app_l by lia. exact H.
Qed.

(* PeekRune on a valid sequence returns what RFC 3629 prescribes. *)
Lemma peek_rune_valid f z d i r k :
  buf z = d ++ [0] -> 0 <= pos z + i ->
  utf8_decode (skipz (pos z + i) d) = Some (r, k) ->
  peek_rune f z i = Some (r, k).
Proof.
  intros Hb Hp Hdec. pose proof (wf_data z d Hb) as [_ Hlen].
  unfold utf8_decode in Hdec.
  destruct (skipz (pos z + i) d) as [|c t] eqn:E0; [discriminate|].
  destruct (skipz_cons_peek d _ c t Hp E0) as (P0 & E1 & L0).
  pose proof (peek_in_data z d i c Hb Hp P0) as K0.
  unfold peek_rune. rewrite K0. cbn [option_bind].
  destruct ((0 <=? c) && (c <=? 127)) eqn:A1.
  { inversion Hdec; subst. b2p. zb. reflexivity. }
  destruct t as [|c1 t1]; [discriminate|].
  destruct (skipz_cons_peek d (pos z + i + 1) c1 t1 ltac:(lia) E1) as (P1 & E2 & L1).
  assert (K1 : peek z (i + 1) = Some c1).
  { apply (peek_in_data z d (i + 1) c1 Hb); [lia|]. replace (pos z + (i + 1)) with (pos z + i + 1) by lia. exact P1. }
  destruct ((194 <=? c) && (c <=? 223) && cont c1) eqn:A2.
  { inversion Hdec; subst. b2p.
    assert (Hs : short f z i 2 = Some false).
    { destruct f; unfold short.
      - rewrite Hlen. f_equal. apply Z.ltb_ge. lia.
      - replace (i + 2 - 1) with (i + 1) by lia. rewrite K1. cbn. f_equal. unfold cont in *. b2p. apply Z.eqb_neq. lia. }
    rewrite Hs. cbn [option_bind]. zb. rewrite K1. cbn [option_bind].
    rewrite rune2_arith by (assumption || lia). reflexivity. }
  destruct t1 as [|c2 t2]; [discriminate|].
  destruct (skipz_cons_peek d (pos z + i + 1 + 1) c2 t2 ltac:(lia) E2) as (P2 & E3 & L2).
  assert (K2 : peek z (i + 2) = Some c2).
  { apply (peek_in_data z d (i + 2) c2 Hb); [lia|]. replace (pos z + (i + 2)) with (pos z + i + 1 + 1) by lia. exact P2. }
  match type of Hdec with (if ?b then _ else _) = _ => destruct b eqn:A3 end.
  { inversion Hdec; subst. b2p.
    assert (Hs2 : short f z i 2 = Some false).
    { destruct f; unfold short.
      - rewrite Hlen. f_equal. apply Z.ltb_ge. lia.
      - replace (i + 2 - 1) with (i + 1) by lia. rewrite K1. cbn. f_equal. unfold cont in *. b2p. apply Z.eqb_neq. lia. }
    assert (Hs3 : short f z i 3 = Some false).
    { destruct f; unfold short.
      - rewrite Hlen. f_equal. apply Z.ltb_ge. lia.
      - replace (i + 3 - 1) with (i + 2) by lia. rewrite K2. cbn. f_equal. unfold cont in *. b2p. apply Z.eqb_neq. lia. }
    rewrite Hs2. cbn [option_bind]. zb. rewrite Hs3. cbn [option_bind]. zb.
    rewrite K1, K2. cbn [option_bind].
    rewrite rune3_arith by (assumption || lia). reflexivity. }
  destruct t2 as [|c3 t3]; [discriminate|].
  destruct (skipz_cons_peek d (pos z + i + 1 + 1 + 1) c3 t3 ltac:(lia) E3) as (P3 & E4 & L3).
  assert (K3 : peek z (i + 3) = Some c3).
  { apply (peek_in_data z d (i + 3) c3 Hb); [lia|]. replace (pos z + (i + 3)) with (pos z + i + 1 + 1 + 1) by lia. exact P3. }
  match type of Hdec with (if ?b then _ else _) = _ => destruct b eqn:A4 end; [|discriminate].
  inversion Hdec; subst. b2p.
  assert (Hs2 : short f z i 2 = Some false).
  { destruct f; unfold short.
    - rewrite Hlen. f_equal. apply Z.ltb_ge. lia.
    - replace (i + 2 - 1) with (i + 1) by lia. rewrite K1. cbn. f_equal. unfold cont in *. b2p. apply Z.eqb_neq. lia. }
  assert (Hs3 : short f z i 3 = Some false).
  { destruct f; unfold short.
    - rewrite Hlen. f_equal. apply Z.ltb_ge. lia.
    - replace (i + 3 - 1) with (i + 2) by lia. rewrite K2. cbn. f_equal. unfold cont in *. b2p. apply Z.eqb_neq. lia. }
  assert (Hs4 : short f z i 4 = Some false).
  { destruct f; unfold short.
    - rewrite Hlen. f_equal. apply Z.ltb_ge. lia.
    - replace (i + 4 - 1) with (i + 3) by lia. rewrite K3. cbn. f_equal. unfold cont in *. b2p. apply Z.eqb_neq. lia. }
  rewrite Hs2. cbn [option_bind]. zb. rewrite Hs3. cbn [option_bind]. zb. rewrite Hs4. cbn [option_bind].
  rewrite K1, K2, K3. cbn [option_bind].
  rewrite rune4_arith by (assumption || lia). reflexivity.
Qed.

(* MoveRune (Input) advances by the length RFC 3629 prescribes on a valid sequence. *)
Lemma move_rune_valid z d r k :
  buf z = d ++ [0] -> 0 <= pos z ->
  utf8_decode (skipz (pos z) d) = Some (r, k) ->
  move_rune_len z = Some k.
Proof.
  intros Hb Hp Hdec. pose proof (wf_data z d Hb) as [_ Hlen].
  unfold utf8_decode in Hdec.
  destruct (skipz (pos z) d) as [|c t] eqn:E0; [discriminate|].
  destruct (skipz_cons_peek d _ c t Hp E0) as (P0 & E1 & L0).
  assert (K0 : peek z 0 = Some c).
  { apply (peek_in_data z d 0 c Hb); [lia|]. replace (pos z + 0) with (pos z) by lia. exact P0. }
  unfold move_rune_len. rewrite K0. cbn [option_bind]. rewrite Hlen.
  destruct ((0 <=? c) && (c <=? 127)) eqn:A1.
  { inversion Hdec; subst. b2p. zb. reflexivity. }
  destruct t as [|c1 t1]; [discriminate|].
  destruct (skipz_cons_peek d (pos z + 1) c1 t1 ltac:(lia) E1) as (P1 & E2 & L1).
  destruct ((194 <=? c) && (c <=? 223) && cont c1) eqn:A2.
  { inversion Hdec; subst. b2p. zb. reflexivity. }
  destruct t1 as [|c2 t2]; [discriminate|].
  destruct (skipz_cons_peek d (pos z + 1 + 1) c2 t2 ltac:(lia) E2) as (P2 & E3 & L2).
  match type of Hdec with (if ?b then _ else _) = _ => destruct b eqn:A3 end.
  { inversion Hdec; subst. b2p. zb. reflexivity. }
  destruct t2 as [|c3 t3]; [discriminate|].
  destruct (skipz_cons_peek d (pos z + 1 + 1 + 1) c3 t3 ltac:(lia) E3) as (P3 & E4 & L3).
  match type of Hdec with (if ?b then _ else _) = _ => destruct b eqn:A4 end; [|discriminate].
  inversion Hdec; subst. b2p. zb. reflexivity.
Qed.

(* --- refinement of the documented cursor --------------------------------------------- *)
Definition cur_bounds (c : cur) : Prop := 0 <= cstart c <= cpos c /\ cpos c <= len (cdata c).

Definition R (z : input) (c : cur) : Prop :=
  cdone c = false -> wf z /\ abs z = c /\ cur_bounds c.

Definition op_for (f : flavour) (o : op) : Prop :=
  match f, o with FLexer, OMoveRune => False | _, _ => True end.

Lemma abs_eq z d : buf z = d ++ [0] -> abs z = mkCur d (start z) (pos z) (ierr z) false.
Proof. intros Hb. unfold abs. destruct (wf_data z d Hb) as [H _]. unfold data_of in H. rewrite H. reflexivity. Qed.

Lemma R_intro z d s p :
  buf z = d ++ [0] -> (ierr z <> 0 -> d = []) -> start z = s -> pos z = p ->
  0 <= s <= p -> p <= len d ->
  R z (mkCur d s p (ierr z) false).
Proof.
  intros Hb He Hs Hp B1 B2 _. split; [exists d; split; assumption|]. split.
  - rewrite (abs_eq z d Hb). subst. reflexivity.
  - unfold cur_bounds. cbn. lia.
Qed.

Lemma step_refines f z c o c1 obs :
  R z c -> op_for f o -> spec_step c o = Some (c1, obs) ->
  exists z1, step f z o = Some (z1, obs) /\ R z1 c1.
Proof.
  intros HR Hop Hs. unfold spec_step in Hs.
  destruct (cdone c) eqn:Hd; [discriminate|].
  destruct (HR Hd) as ((d & Hb & He) & Habs & (B1 & B2)).
  rewrite (abs_eq z d Hb) in Habs. subst c. cbn [cdata cstart cpos cerr cdone] in *.
  destruct (wf_data z d Hb) as [_ Hlen].
  destruct o; cbn [step].
  - (* Peek *)
    destruct ((0 <=? pos z + i) && (pos z + i <=? len d)) eqn:G; [|discriminate]. b2p.
    inversion Hs; subst. rewrite (peek_data z d i Hb) by lia. cbn [option_bind].
    eexists; split; [reflexivity|]. apply R_intro; auto; lia.
  - (* PeekErr *)
    inversion Hs; subst. eexists; split.
    + unfold peek_err, spec_err. cbn [cerr cdata cpos]. rewrite Hlen. reflexivity.
    + apply R_intro; auto; lia.
  - (* Err *)
    inversion Hs; subst. eexists; split.
    + unfold peek_err, spec_err. cbn [cerr cdata cpos]. rewrite Hlen. reflexivity.
    + apply R_intro; auto; lia.
  - (* PeekRune *)
    destruct ((0 <=? pos z + i) && (pos z + i <=? len d)) eqn:G; [|discriminate]. b2p.
    destruct (pos z + i =? len d) eqn:E.
    + b2p. inversion Hs; subst.
      assert (K : peek z i = Some 0).
      { rewrite (peek_data z d i Hb) by lia. zb. reflexivity. }
      unfold peek_rune. rewrite K. cbn. eexists; split; [reflexivity|]. apply R_intro; auto; lia.
    + destruct (utf8_decode (skipz (pos z + i) d)) as [[r k]|] eqn:Dec; [|discriminate].
      inversion Hs; subst.
      rewrite (peek_rune_valid f z d i r k Hb ltac:(lia) Dec). cbn.
      eexists; split; [reflexivity|]. apply R_intro; auto; lia.
  - (* Move *)
    destruct ((start z <=? pos z + n) && (pos z + n <=? len d)) eqn:G; [|discriminate]. b2p.
    inversion Hs; subst. eexists; split; [reflexivity|].
    apply (R_intro (with_pos z (pos z + n)) d (start z) (pos z + n)); auto; cbn; lia.
  - (* MoveRune *)
    destruct f; [|contradiction].
    destruct (pos z <? len d) eqn:G; [|discriminate]. b2p.
    destruct (utf8_decode (skipz (pos z) d)) as [[r k]|] eqn:Dec; [|discriminate].
    inversion Hs; subst.
    rewrite (move_rune_valid z d r k Hb ltac:(lia) Dec). cbn [option_bind].
    pose proof (utf8_decode_len _ _ _ Dec) as Hk.
    rewrite len_skipz in Hk by lia.
    eexists; split; [reflexivity|].
    apply (R_intro (with_pos z (pos z + k)) d (start z) (pos z + k)); auto; cbn; lia.
  - (* Pos *)
    inversion Hs; subst. eexists; split; [reflexivity|]. apply R_intro; auto; lia.
  - (* Rewind *)
    destruct ((0 <=? m) && (start z + m <=? len d)) eqn:G; [|discriminate]. b2p.
    inversion Hs; subst. eexists; split; [reflexivity|].
    apply (R_intro (with_pos z (start z + m)) d (start z) (start z + m)); auto; cbn; lia.
  - (* Lexeme *)
    inversion Hs; subst. rewrite Hb, obs_slice_data by lia. cbn [option_bind].
    eexists; split; [reflexivity|]. apply R_intro; auto; lia.
  - (* Skip *)
    inversion Hs; subst. eexists; split; [reflexivity|].
    apply (R_intro (with_start z (pos z)) d (pos z) (pos z)); auto; cbn; lia.
  - (* Shift *)
    inversion Hs; subst. rewrite Hb, obs_slice_data by lia. cbn [option_bind].
    eexists; split; [reflexivity|].
    apply (R_intro (with_start z (pos z)) d (pos z) (pos z)); auto; cbn; lia.
  - (* Offset *)
    inversion Hs; subst. eexists; split; [reflexivity|]. apply R_intro; auto; lia.
  - (* Bytes *)
    inversion Hs; subst. rewrite Hlen, Hb. pose proof (len_nonneg d).
    rewrite obs_slice_data by lia. cbn [option_bind].
    eexists; split; [reflexivity|]. apply R_intro; auto; lia.
  - (* Len *)
    inversion Hs; subst. rewrite Hlen. eexists; split; [reflexivity|]. apply R_intro; auto; lia.
  - (* Reset *)
    inversion Hs; subst. eexists; split; [reflexivity|]. pose proof (len_nonneg d).
    apply (R_intro (mkInput (buf z) 0 0 (ierr z) (arr z) (saved z)) d 0 0); auto; cbn; lia.
  - (* Restore: the contract ends here *)
    inversion Hs; subst.
    destruct (saved z) as [[n c]|]; eexists; (split; [reflexivity|]); intros Hdone; discriminate.
Qed.

Theorem run_refines f ops : forall z c c' outs,
  R z c -> Forall (op_for f) ops -> spec_run c ops = Some (c', outs) ->
  exists z', run f z ops = Some (z', outs) /\ R z' c'.
Proof.
  induction ops as [|o ops IH]; intros z c c' outs HR Hf Hs.
  - cbn in *. inversion Hs; subst. eauto.
  - cbn [spec_run] in Hs. inversion Hf as [|? ? Ho Hrest]; subst.
    destruct (spec_step c o) as [[c1 obs]|] eqn:S1; [|discriminate]. cbn [option_bind fst snd] in Hs.
    destruct (spec_run c1 ops) as [[c2 outs2]|] eqn:S2; [|discriminate]. cbn [option_bind fst snd] in Hs.
    inversion Hs; subst.
    destruct (step_refines f z c o c1 obs HR Ho S1) as (z1 & E1 & R1).
    destruct (IH z1 c1 c' outs2 R1 Hrest S2) as (z2 & E2 & R2).
    exists z2. cbn [run]. rewrite E1. cbn [option_bind fst snd]. rewrite E2. cbn. auto.
Qed.

(* every constructor establishes the relation with the cursor over the delivered bytes *)
Inductive ctor := CBytes (spare : list Z) | CString | CReader (chunks : list (list Z)) (e : Z).

Definition construct (k : ctor) (d : list Z) : input :=
  match k with
  | CBytes spare => new_bytes d spare
  | CString => new_string d
  | CReader chunks e => new_reader chunks e
  end.

(* what the documentation promises the constructor delivers *)
Definition delivered (k : ctor) (d : list Z) : cur :=
  match k with
  | CReader chunks e => if e =? 0 then mkCur (concat chunks) 0 0 0 false else mkCur [] 0 0 e false
  | _ => mkCur d 0 0 0 false
  end.

Lemma new_bytes_R d spare : R (new_bytes d spare) (mkCur d 0 0 0 false).
Proof.
  unfold new_bytes. destruct (len d =? 0) eqn:E.
  - b2p. assert (d = []) by (destruct d; [reflexivity|rewrite len_cons in E; pose proof (len_nonneg d); lia]).
    subst d. apply (R_intro (mkInput [0] 0 0 0 ([] ++ spare) None) [] 0 0); cbn; auto; try lia; reflexivity.
  - pose proof (len_nonneg d). destruct spare as [|c rest].
    + apply (R_intro (mkInput (d ++ [0]) 0 0 0 d None) d 0 0); cbn; auto; lia.
    + apply (R_intro (mkInput (d ++ [0]) 0 0 0 (d ++ 0 :: rest) (Some (len d, c))) d 0 0); cbn; auto; lia.
Qed.

Lemma construct_R k d : R (construct k d) (delivered k d).
Proof.
  destruct k as [spare| |chunks e]; cbn [construct delivered].
  - apply new_bytes_R.
  - apply new_bytes_R.
  - unfold new_reader. destruct (e =? 0) eqn:E.
    + apply new_bytes_R.
    + b2p. apply (R_intro (mkInput [0] 0 0 e [] None) [] 0 0); cbn; auto; try lia; reflexivity.
Qed.

Theorem cursor_refines_spec_proof :
  forall (f : flavour) (k : ctor) (d : list Z) (ops : list op) c' outs,
    Forall (op_for f) ops ->
    spec_run (delivered k d) ops = Some (c', outs) ->
    exists z', run f (construct k d) ops = Some (z', outs) /\ R z' c'.
Proof.
  intros f k d ops c' outs Hf Hs. eapply run_refines; eauto. apply construct_R.
Qed.

(* --- PeekRune is total and never reports a length reaching past the end ---------------- *)
Lemma peek_some_in z d i : buf z = d ++ [0] -> 0 <= pos z + i <= len d -> exists c, peek z i = Some c.
Proof. intros Hb H. rewrite (peek_data z d i Hb H). eauto. Qed.

Lemma peek_nonzero_before_end z d i c :
  buf z = d ++ [0] -> 0 <= pos z + i <= len d -> peek z i = Some c -> c <> 0 -> pos z + i < len d.
Proof.
  intros Hb H K Hc. rewrite (peek_data z d i Hb H) in K.
  destruct (Z.eqb_spec (pos z + i) (len d)); [inversion K; congruence|lia].
Qed.

Theorem peekrune_total_proof f z d i :
  buf z = d ++ [0] -> 0 <= pos z + i <= len d ->
  exists r n, peek_rune f z i = Some (r, n) /\ 1 <= n <= 4 /\
              (pos z + i + n <= len d \/ (n = 1 /\ pos z + i = len d)).
Proof.
  intros Hb Hr. destruct (wf_data z d Hb) as [_ Hlen].
  destruct (peek_some_in z d i Hb Hr) as [c K0].
  unfold peek_rune. rewrite K0. cbn [option_bind].
  destruct (c <? 192) eqn:C0.
  { exists c, 1. split; [reflexivity|]. split; [lia|].
    destruct (Z.eq_dec (pos z + i) (len d)); [right; lia|left; lia]. }
  b2p. assert (L0 : pos z + i < len d) by (eapply peek_nonzero_before_end; eauto; lia).
  (* a helper: the guard at distance k is defined, and if false, k bytes remain *)
  assert (Hshort : forall k, 2 <= k -> pos z + i + (k - 1) <= len d ->
            exists b, short f z i k = Some b /\ (b = false -> pos z + i + k <= len d)).
  { intros k Hk Hin. destruct f; unfold short.
    - rewrite Hlen. eexists; split; [reflexivity|]. intros Hf. b2p. lia.
    - destruct (peek_some_in z d (i + k - 1) Hb ltac:(lia)) as [ck Kk]. rewrite Kk. cbn [option_bind].
      eexists; split; [reflexivity|]. intros Hf. b2p.
      pose proof (peek_nonzero_before_end z d (i + k - 1) ck Hb ltac:(lia) Kk Hf). lia. }
  destruct (Hshort 2 ltac:(lia) ltac:(lia)) as (s2 & E2 & B2). rewrite E2. cbn [option_bind].
  destruct s2.
  { exists c, 1. split; [reflexivity|]. split; [lia|left; lia]. }
  specialize (B2 eq_refl).
  destruct (peek_some_in z d (i + 1) Hb ltac:(lia)) as [c1 K1]. rewrite K1. cbn [option_bind].
  destruct (c <? 224) eqn:C1.
  { eexists _, 2. split; [reflexivity|]. split; [lia|left; lia]. }
  destruct (Hshort 3 ltac:(lia) ltac:(lia)) as (s3 & E3 & B3). rewrite E3. cbn [option_bind].
  destruct s3.
  { eexists _, 2. split; [reflexivity|]. split; [lia|left; lia]. }
  specialize (B3 eq_refl).
  destruct (peek_some_in z d (i + 2) Hb ltac:(lia)) as [c2 K2]. rewrite K2. cbn [option_bind].
  destruct (c <? 240) eqn:C2.
  { eexists _, 3. split; [reflexivity|]. split; [lia|left; lia]. }
  destruct (Hshort 4 ltac:(lia) ltac:(lia)) as (s4 & E4 & B4). rewrite E4. cbn [option_bind].
  destruct s4.
  { eexists _, 3. split; [reflexivity|]. split; [lia|left; lia]. }
  specialize (B4 eq_refl).
  destruct (peek_some_in z d (i + 3) Hb ltac:(lia)) as [c3 K3]. rewrite K3. cbn [option_bind].
  eexists _, 4. split; [reflexivity|]. split; [lia|left; lia].
Qed.

(* --- the caller's array ---------------------------------------------------------------- *)
(* Either nothing is borrowed and the array is the caller's, or exactly the byte after the
   data holds the terminator and the original byte is remembered. *)
Definition restored (d spare : list Z) (z : input) : Prop := saved z = None /\ arr z = d ++ spare.

Lemma setz_app_mid d c x rest : setz (d ++ x :: rest) (len d) c = d ++ c :: rest.
Proof.
  unfold setz. rewrite len_app, len_cons. pose proof (len_nonneg d). pose proof (len_nonneg rest). zb. cbn.
  rewrite firstz_app_exact. unfold skipz, len.
  replace (Z.to_nat (Z.of_nat (length d) + 1)) with (length d + 1)%nat by lia.
  rewrite skipn_app. rewrite skipn_all2 by lia.
  replace (length d + 1 - length d)%nat with 1%nat by lia. reflexivity.
Qed.

Definition frame (d spare : list Z) (z : input) : Prop :=
  restored d spare z \/
  (exists c rest, spare = c :: rest /\ saved z = Some (len d, c) /\ arr z = d ++ 0 :: rest).

Lemma step_frame f d spare z o z1 obs :
  frame d spare z -> step f z o = Some (z1, obs) ->
  frame d spare z1 /\ (o = ORestore -> restored d spare z1).
Proof.
  intros Hf Hs.
  destruct o; cbn [step] in Hs;
    try (match type of Hs with
         | (_ <- ?e ;; _) = _ => destruct e; cbn [option_bind] in Hs; [|discriminate]
         end);
    try (inversion Hs; subst; split; [exact Hf|discriminate]).
  - (* MoveRune *) destruct f.
    + destruct (move_rune_len z); cbn [option_bind] in Hs; [|discriminate].
      inversion Hs; subst; split; [exact Hf|discriminate].
    + inversion Hs; subst; split; [exact Hf|discriminate].
  - (* Restore *)
    destruct Hf as [[Hn Ha]|(c & rest & Hsp & Hsv & Ha)].
    + rewrite Hn in Hs. inversion Hs; subst. split; [left; split; assumption|intros _; split; assumption].
    + rewrite Hsv in Hs. inversion Hs; subst. cbn.
      assert (Hr : restored d (c :: rest) (mkInput (setz (buf z) (len d) c) (pos z) (start z) (ierr z) (setz (arr z) (len d) c) None)).
      { split; [reflexivity|]. cbn. rewrite Ha. apply setz_app_mid. }
      split; [left; exact Hr|intros _; exact Hr].
Qed.

Lemma new_bytes_frame d spare : frame d spare (new_bytes d spare).
Proof.
  unfold new_bytes. destruct (len d =? 0).
  - left. split; reflexivity.
  - destruct spare as [|c rest].
    + left. split; [reflexivity|]. cbn. rewrite app_nil_r. reflexivity.
    + right. exists c, rest. cbn. auto.
Qed.

(* the first n bytes of the caller's array are never written; at most the byte after them *)
Lemma frame_prefix d spare z : frame d spare z -> firstz (len d) (arr z) = d.
Proof.
  intros [[_ Ha]|(c & rest & _ & _ & Ha)]; rewrite Ha; apply firstz_app_exact.
Qed.

Lemma frame_tail d spare z : frame d spare z -> skipz (len d + 1) (arr z) = skipz (len d + 1) (d ++ spare).
Proof.
  intros [[_ Ha]|(c & rest & Hsp & _ & Ha)]; rewrite Ha; [reflexivity|]. subst spare.
  unfold skipz, len. replace (Z.to_nat (Z.of_nat (length d) + 1)) with (length d + 1)%nat by lia.
  rewrite !skipn_app. rewrite !skipn_all2 by lia.
  replace (length d + 1 - length d)%nat with 1%nat by lia. reflexivity.
Qed.

Theorem restore_frame_proof f d spare : forall ops z' outs,
  run f (new_bytes d spare) ops = Some (z', outs) ->
  firstz (len d) (arr z') = d /\
  skipz (len d + 1) (arr z') = skipz (len d + 1) (d ++ spare) /\
  (forall pre, ops = pre ++ [ORestore] -> arr z' = d ++ spare).
Proof.
  assert (G : forall ops z z' outs, frame d spare z -> run f z ops = Some (z', outs) ->
              frame d spare z' /\ (forall pre, ops = pre ++ [ORestore] -> restored d spare z')).
  { induction ops as [|o ops IH]; intros z z' outs Hf Hr.
    - cbn in Hr. inversion Hr; subst. split; [exact Hf|]. intros pre E. destruct pre; discriminate.
    - cbn [run] in Hr. destruct (step f z o) as [[z1 obs]|] eqn:S1; [|discriminate]. cbn [option_bind fst snd] in Hr.
      destruct (run f z1 ops) as [[z2 outs2]|] eqn:S2; [|discriminate]. cbn [option_bind fst snd] in Hr.
      inversion Hr; subst.
      destruct (step_frame f d spare z o z1 obs Hf S1) as [F1 Hres].
      destruct (IH z1 z' outs2 F1 S2) as [F2 Hlast]. split; [exact F2|].
      intros pre E. destruct pre as [|p pre].
      + cbn in E. inversion E; subst. cbn in S2. inversion S2; subst. apply Hres. reflexivity.
      + cbn in E. inversion E; subst. apply (Hlast pre). reflexivity. }
  intros ops z' outs Hr.
  destruct (G ops _ z' outs (new_bytes_frame d spare) Hr) as [F Hl].
  split; [apply (frame_prefix d spare z' F)|]. split; [apply (frame_tail d spare z' F)|].
  intros pre E. destruct (Hl pre E) as [_ Ha]. exact Ha.
Qed.

(* every slice handed out has capacity = length (three-index slicing) *)
Lemma obs_slice_cap b lo hi o : obs_slice b lo hi = Some o -> exists bytes, o = lo :: hi :: (hi - lo) :: bytes /\ len bytes = hi - lo.
Proof.
  unfold obs_slice, slice_ok. destruct ((0 <=? lo) && (lo <=? hi) && (hi <=? len b)) eqn:G; [|discriminate].
  intros H. inversion H; subst. b2p. eexists; split; [reflexivity|]. apply len_slice; lia.
Qed.

(* --- reader errors --------------------------------------------------------------------- *)
Theorem reader_error_spec_proof f chunks e :
  e <> 0 ->
  let z := new_reader chunks e in
  step f z OErr = Some (z, [e]) /\ step f z (OPeek 0) = Some (z, [0]) /\ step f z OLen = Some (z, [0]).
Proof.
  intros He z. unfold z, new_reader. replace (e =? 0) with false by (symmetry; apply Z.eqb_neq; exact He).
  cbn [step]. unfold peek_err. cbn [ierr]. replace (e =? 0) with false by (symmetry; apply Z.eqb_neq; exact He).
  cbn. auto.
Qed.

(* --- non-vacuity ----------------------------------------------------------------------- *)
Example refines_nonvacuous :
  exists c' outs,
    spec_run (delivered (CBytes [7]) [104; 195; 169; 0; 33])
      [OPeek 0; OMoveRune; OPeekRune 0; OMoveRune; OLexeme; OShift; OPeek 0; OMove 2; OErr; OPos; ORestore] = Some (c', outs)
    /\ outs = [[104]; []; [233; 2]; []; [0; 3; 3; 104; 195; 169]; [0; 3; 3; 104; 195; 169]; [0]; []; [1]; [2]; []].
Proof. eexists _, _. split; vm_compute; reflexivity. Qed.
