(* Cursor/Model.v — executable model of parse.Input (input.go) and buffer.Lexer
   (buffer/lexer.go).  Definitions only.  A Go panic is [None]. *)
From Verif Require Import Common.Base.

(* Which of the two implementations (they differ in PeekErr's spelling and PeekRune's guard). *)
Inductive flavour := FInput | FLexer.

(* err: 0 = nil, otherwise the reader's error code.
   arr/saved model the caller's backing array for NewInputBytes with spare capacity:
   arr = the caller's array (length = cap), saved = Some (n, old byte) while the NUL is borrowed. *)
Record input := mkInput {
  buf : list Z; pos : Z; start : Z; ierr : Z;
  arr : list Z; saved : option (Z * Z)
}.

(* --- constructors ------------------------------------------------------------------ *)
(* NewInputBytes(b) with len(b)=n=len d and cap(b)=len a, a = d ++ spare. *)
Definition new_bytes (d spare : list Z) : input :=
  let n := len d in
  if n =? 0 then mkInput [0] 0 0 0 (d ++ spare) None
  else match spare with
       | c :: rest => mkInput (d ++ [0]) 0 0 0 (d ++ 0 :: rest) (Some (n, c))
       | [] => mkInput (d ++ [0]) 0 0 0 d None
       end.

Definition new_string (d : list Z) : input := new_bytes d [].

(* io.ReadAll over a schedule: chunks delivered, then either EOF (err code 0) or error e<>0.
   ReadAll returns the data read so far and the error; NewInput discards the data on error. *)
Definition new_reader (chunks : list (list Z)) (e : Z) : input :=
  if e =? 0 then new_bytes (concat chunks) [] else mkInput [0] 0 0 e [] None.

(* --- operations ---------------------------------------------------------------------- *)
Inductive op :=
| OPeek (i : Z) | OPeekErr (i : Z) | OErr | OPeekRune (i : Z) | OMove (n : Z) | OMoveRune
| OPos | ORewind (m : Z) | OLexeme | OSkip | OShift | OOffset | OBytes | OLen | OReset | ORestore.

Definition peek (z : input) (i : Z) : option Z := peekz (buf z) (pos z + i).

(* error observation: 0 = nil, 1 = io.EOF, otherwise the reader's code *)
Definition peek_err (z : input) (i : Z) : Z :=
  if negb (ierr z =? 0) then ierr z
  else if len (buf z) - 1 <=? pos z + i then 1 else 0.

Definition rune2 (c c1 : Z) : Z := Z.lor (Z.shiftl (Z.land c 31) 6) (Z.land c1 63).
Definition rune3 (c c1 c2 : Z) : Z :=
  Z.lor (Z.lor (Z.shiftl (Z.land c 15) 12) (Z.shiftl (Z.land c1 63) 6)) (Z.land c2 63).
Definition rune4 (c c1 c2 c3 : Z) : Z :=
  Z.lor (Z.lor (Z.lor (Z.shiftl (Z.land c 7) 18) (Z.shiftl (Z.land c1 63) 12))
               (Z.shiftl (Z.land c2 63) 6)) (Z.land c3 63).

(* The guard "fewer than k bytes remain".  Input: len(buf)-1-pos-i < k  (after fix D1);
   Lexer: Peek(i+k-1) == 0 (which itself may panic). *)
Definition short (f : flavour) (z : input) (i k : Z) : option bool :=
  match f with
  | FInput => Some (len (buf z) - 1 - pos z - i <? k)
  | FLexer => c <- peek z (i + k - 1) ;; Some (c =? 0)
  end.

Definition peek_rune (f : flavour) (z : input) (i : Z) : option (Z * Z) :=
  c <- peek z i ;;
  if c <? 192 then Some (c, 1) else
  s2 <- short f z i 2 ;;
  if s2 then Some (c, 1) else
  if c <? 224 then c1 <- peek z (i + 1) ;; Some (rune2 c c1, 2) else
  s3 <- short f z i 3 ;;
  if s3 then c1 <- peek z (i + 1) ;; Some (rune2 c c1, 2) else
  if c <? 240 then c1 <- peek z (i + 1) ;; c2 <- peek z (i + 2) ;; Some (rune3 c c1 c2, 3) else
  s4 <- short f z i 4 ;;
  if s4 then c1 <- peek z (i + 1) ;; c2 <- peek z (i + 2) ;; Some (rune3 c c1 c2, 3) else
  c1 <- peek z (i + 1) ;; c2 <- peek z (i + 2) ;; c3 <- peek z (i + 3) ;; Some (rune4 c c1 c2 c3, 4).

(* MoveRune (Input only): same guards, no continuation bytes are read. *)
Definition move_rune_len (z : input) : option Z :=
  c <- peek z 0 ;;
  let rem := len (buf z) - 1 - pos z in
  if (c <? 192) || (rem <? 2) then Some 1
  else if (c <? 224) || (rem <? 3) then Some 2
  else if (c <? 240) || (rem <? 4) then Some 3
  else Some 4.

Definition with_pos (z : input) (p : Z) : input := mkInput (buf z) p (start z) (ierr z) (arr z) (saved z).
Definition with_start (z : input) (s : Z) : input := mkInput (buf z) (pos z) s (ierr z) (arr z) (saved z).

(* A returned slice buf[lo:hi:hi] is observed as lo, hi, cap-lo = hi-lo, then its bytes.
   Go's three-index slice s[lo:hi:max] panics unless 0 <= lo <= hi <= max <= cap(s).
   cap(buf) >= len(buf) is all the model knows, so it is only exact for hi <= len buf;
   the harness never drives pos beyond len buf. *)
Definition obs_slice (b : list Z) (lo hi : Z) : option (list Z) :=
  if slice_ok lo hi (len b) then Some (lo :: hi :: (hi - lo) :: slice b lo hi) else None.

Definition step (f : flavour) (z : input) (o : op) : option (input * list Z) :=
  match o with
  | OPeek i => c <- peek z i ;; Some (z, [c])
  | OPeekErr i => Some (z, [peek_err z i])
  | OErr => Some (z, [peek_err z 0])
  | OPeekRune i => rn <- peek_rune f z i ;; Some (z, [fst rn; snd rn])
  | OMove n => Some (with_pos z (pos z + n), [])
  | OMoveRune =>
      match f with
      | FInput => n <- move_rune_len z ;; Some (with_pos z (pos z + n), [])
      | FLexer => Some (z, [])    (* buffer.Lexer has no MoveRune: not generated *)
      end
  | OPos => Some (z, [pos z - start z])
  | ORewind m => Some (with_pos z (start z + m), [])
  | OLexeme => o <- obs_slice (buf z) (start z) (pos z) ;; Some (z, o)
  | OSkip => Some (with_start z (pos z), [])
  | OShift => o <- obs_slice (buf z) (start z) (pos z) ;; Some (with_start z (pos z), o)
  | OOffset => Some (z, [pos z])
  | OBytes => o <- obs_slice (buf z) 0 (len (buf z) - 1) ;; Some (z, o)
  | OLen => Some (z, [len (buf z) - 1])
  | OReset => Some (mkInput (buf z) 0 0 (ierr z) (arr z) (saved z), [])
  | ORestore =>
      match saved z with
      | Some (n, c) =>
          (* buf aliases the caller's array: the terminator itself is overwritten *)
          Some (mkInput (setz (buf z) n c) (pos z) (start z) (ierr z) (setz (arr z) n c) None, [])
      | None => Some (z, [])
      end
  end.

(* Run an operation list; observations are concatenated, one list per op. *)
Fixpoint run (f : flavour) (z : input) (ops : list op) : option (input * list (list Z)) :=
  match ops with
  | [] => Some (z, [])
  | o :: rest =>
      r <- step f z o ;;
      r' <- run f (fst r) rest ;;
      Some (fst r', snd r :: snd r')
  end.

(* --- the abstract cursor of the documentation (specification) ----------------------- *)
(* cdone: Restore has been called; the documentation allows it only "when done". *)
Record cur := mkCur { cdata : list Z; cstart : Z; cpos : Z; cerr : Z; cdone : bool }.

Definition cur_ok (c : cur) : bool :=
  (0 <=? cstart c) && (cstart c <=? cpos c) && (cpos c <=? len (cdata c)).

(* RFC 3629 decoder, written from the standard: shortest form, no surrogates, <= U+10FFFF. *)
Definition cont (c : Z) : bool := (128 <=? c) && (c <=? 191).
Definition utf8_decode (l : list Z) : option (Z * Z) :=
  match l with
  | c :: t =>
      if (0 <=? c) && (c <=? 127) then Some (c, 1) else
      match t with
      | c1 :: t1 =>
          if (194 <=? c) && (c <=? 223) && cont c1 then Some ((c - 192) * 64 + (c1 - 128), 2) else
          match t1 with
          | c2 :: t2 =>
              if (224 <=? c) && (c <=? 239) && cont c1 && cont c2
                 && negb ((c =? 224) && (c1 <? 160)) && negb ((c =? 237) && (159 <? c1))
              then Some ((c - 224) * 4096 + (c1 - 128) * 64 + (c2 - 128), 3) else
              match t2 with
              | c3 :: _ =>
                  if (240 <=? c) && (c <=? 244) && cont c1 && cont c2 && cont c3
                     && negb ((c =? 240) && (c1 <? 144)) && negb ((c =? 244) && (143 <? c1))
                  then Some ((c - 240) * 262144 + (c1 - 128) * 4096 + (c2 - 128) * 64 + (c3 - 128), 4)
                  else None
              | [] => None
              end
          | [] => None
          end
      | [] => None
      end
  | [] => None
  end.

(* spec_step: None when the documented contract is broken by the caller. *)
Definition spec_slice (c : cur) (lo hi : Z) : list Z := lo :: hi :: (hi - lo) :: slice (cdata c) lo hi.

Definition spec_err (c : cur) (i : Z) : Z :=
  if negb (cerr c =? 0) then cerr c else if len (cdata c) <=? cpos c + i then 1 else 0.

Definition spec_step (c : cur) (o : op) : option (cur * list Z) :=
  let n := len (cdata c) in
  if cdone c then None else
  match o with
  | OPeek i => if (0 <=? cpos c + i) && (cpos c + i <=? n)
               then Some (c, [if cpos c + i =? n then 0 else getz (cdata c) (cpos c + i)]) else None
  | OPeekErr i => Some (c, [spec_err c i])
  | OErr => Some (c, [spec_err c 0])
  | OPeekRune i =>
      (* specified on valid UTF-8 only; at the end it is (0,1) *)
      if (0 <=? cpos c + i) && (cpos c + i <=? n) then
        if cpos c + i =? n then Some (c, [0; 1]) else
        match utf8_decode (skipz (cpos c + i) (cdata c)) with
        | Some (r, k) => Some (c, [r; k])
        | None => None
        end
      else None
  | OMove k => let p := cpos c + k in
               if (cstart c <=? p) && (p <=? n) then Some (mkCur (cdata c) (cstart c) p (cerr c) false, []) else None
  | OMoveRune =>
      if cpos c <? n then
        match utf8_decode (skipz (cpos c) (cdata c)) with
        | Some (_, k) => Some (mkCur (cdata c) (cstart c) (cpos c + k) (cerr c) false, [])
        | None => None
        end
      else None
  | OPos => Some (c, [cpos c - cstart c])
  | ORewind m => let p := cstart c + m in
                 if (0 <=? m) && (p <=? n) then Some (mkCur (cdata c) (cstart c) p (cerr c) false, []) else None
  | OLexeme => Some (c, spec_slice c (cstart c) (cpos c))
  | OSkip => Some (mkCur (cdata c) (cpos c) (cpos c) (cerr c) false, [])
  | OShift => Some (mkCur (cdata c) (cpos c) (cpos c) (cerr c) false, spec_slice c (cstart c) (cpos c))
  | OOffset => Some (c, [cpos c])
  | OBytes => Some (c, spec_slice c 0 n)
  | OLen => Some (c, [n])
  | OReset => Some (mkCur (cdata c) 0 0 (cerr c) false, [])
  | ORestore => Some (mkCur (cdata c) (cstart c) (cpos c) (cerr c) true, [])
  end.

Fixpoint spec_run (c : cur) (ops : list op) : option (cur * list (list Z)) :=
  match ops with
  | [] => Some (c, [])
  | o :: rest =>
      r <- spec_step c o ;;
      r' <- spec_run (fst r) rest ;;
      Some (fst r', snd r :: snd r')
  end.

Definition abs (z : input) : cur := mkCur (firstz (len (buf z) - 1) (buf z)) (start z) (pos z) (ierr z) false.
