(* Binary/Arith.v — the fixed-width codecs of binary.go as arithmetic: decoding a byte list is the
   positional sum, encoding is repeated division, and decoding inverts encoding for every value of
   the type (both byte orders, signed and unsigned, 8..64 bits). *)
From Verif Require Import Common.Base Common.Tactics Common.Bits Binary.Model.
From Coq Require Import ZifyBool.
Ltac Zify.zify_post_hook ::= Z.div_mod_to_equations.

Ltac pow_consts :=
  change (2 ^ 7) with 128 in *; change (2 ^ 8) with 256 in *;
  change (2 ^ 15) with 32768 in *; change (2 ^ 16) with 65536 in *;
  change (2 ^ 23) with 8388608 in *; change (2 ^ 24) with 16777216 in *;
  change (2 ^ 31) with 2147483648 in *; change (2 ^ 32) with 4294967296 in *;
  change (2 ^ 40) with 1099511627776 in *; change (2 ^ 48) with 281474976710656 in *;
  change (2 ^ 56) with 72057594037927936 in *;
  change (2 ^ 63) with 9223372036854775808 in *; change (2 ^ 64) with 18446744073709551616 in *.

Lemma byte_range x : 0 <= byte x < 256.
Proof. unfold byte. lia. Qed.

(* a | b = a + b when a has no bit below n and b has none from n on *)
Lemma lor_add_low a b n : 0 <= n -> a mod 2 ^ n = 0 -> 0 <= b < 2 ^ n -> Z.lor a b = a + b.
Proof.
  intros Hn Ha Hb.
  assert (E : a = a / 2 ^ n * 2 ^ n).
  { pose proof (Z.div_mod a (2 ^ n) ltac:(lia)). lia. }
  rewrite E at 1. rewrite lor_add by assumption. lia.
Qed.

Lemma lor_add_high a b n : 0 <= n -> b mod 2 ^ n = 0 -> 0 <= a < 2 ^ n -> Z.lor a b = a + b.
Proof. intros. rewrite Z.lor_comm, (lor_add_low b a n) by assumption. lia. Qed.

Lemma shl_mul x n : 0 <= n -> shl x n = x * 2 ^ n.
Proof. intros. unfold shl. apply Z.shiftl_mul_pow2. assumption. Qed.

Ltac lor_side := pow_consts; lia.
Ltac lor_try a b n :=
  first [ rewrite (lor_add_low a b n) by lor_side | rewrite (lor_add_high a b n) by lor_side ].
Ltac lor_step :=
  match goal with
  | |- context [Z.lor ?a ?b] =>
      first [ lor_try a b 8 | lor_try a b 16 | lor_try a b 24 | lor_try a b 32
            | lor_try a b 40 | lor_try a b 48 | lor_try a b 56 ]
  end.
Ltac shl_consts :=
  rewrite ?(shl_mul _ 8), ?(shl_mul _ 16), ?(shl_mul _ 24), ?(shl_mul _ 32),
          ?(shl_mul _ 40), ?(shl_mul _ 48), ?(shl_mul _ 56) by lia; pow_consts.

(* ---- decoding is the positional sum ---------------------------------------------------------- *)
Definition isb (b : Z) : Prop := 0 <= b < 256.

Lemma dec_u16_be b0 b1 : isb b0 -> isb b1 -> dec_u16 false [b0; b1] = b0 * 256 + b1.
Proof.
  unfold isb. intros. change (dec_u16 false [b0; b1]) with (Z.lor (shl b0 8) b1).
  shl_consts. repeat lor_step. lia.
Qed.
Lemma dec_u16_le b0 b1 : isb b0 -> isb b1 -> dec_u16 true [b0; b1] = b1 * 256 + b0.
Proof.
  unfold isb. intros. change (dec_u16 true [b0; b1]) with (Z.lor (shl b1 8) b0).
  shl_consts. repeat lor_step. lia.
Qed.

Lemma dec_u24_be b0 b1 b2 : isb b0 -> isb b1 -> isb b2 ->
  dec_u24 false [b0; b1; b2] = b0 * 65536 + b1 * 256 + b2.
Proof.
  unfold isb. intros.
  change (dec_u24 false [b0; b1; b2]) with (Z.lor (Z.lor b2 (shl b1 8)) (shl b0 16)).
  shl_consts. repeat lor_step. lia.
Qed.
Lemma dec_u24_le b0 b1 b2 : isb b0 -> isb b1 -> isb b2 ->
  dec_u24 true [b0; b1; b2] = b2 * 65536 + b1 * 256 + b0.
Proof.
  unfold isb. intros.
  change (dec_u24 true [b0; b1; b2]) with (Z.lor (Z.lor b0 (shl b1 8)) (shl b2 16)).
  shl_consts. repeat lor_step. lia.
Qed.

Lemma dec_u32_be b0 b1 b2 b3 : isb b0 -> isb b1 -> isb b2 -> isb b3 ->
  dec_u32 false [b0; b1; b2; b3] = b0 * 16777216 + b1 * 65536 + b2 * 256 + b3.
Proof.
  unfold isb. intros.
  change (dec_u32 false [b0; b1; b2; b3])
    with (Z.lor (Z.lor (Z.lor (shl b0 24) (shl b1 16)) (shl b2 8)) b3).
  shl_consts. repeat lor_step. lia.
Qed.
Lemma dec_u32_le b0 b1 b2 b3 : isb b0 -> isb b1 -> isb b2 -> isb b3 ->
  dec_u32 true [b0; b1; b2; b3] = b3 * 16777216 + b2 * 65536 + b1 * 256 + b0.
Proof.
  unfold isb. intros.
  change (dec_u32 true [b0; b1; b2; b3])
    with (Z.lor (Z.lor (Z.lor (shl b3 24) (shl b2 16)) (shl b1 8)) b0).
  shl_consts. repeat lor_step. lia.
Qed.

Lemma dec_u64_be b0 b1 b2 b3 b4 b5 b6 b7 :
  isb b0 -> isb b1 -> isb b2 -> isb b3 -> isb b4 -> isb b5 -> isb b6 -> isb b7 ->
  dec_u64 false [b0; b1; b2; b3; b4; b5; b6; b7] =
  b0 * 72057594037927936 + b1 * 281474976710656 + b2 * 1099511627776 + b3 * 4294967296
  + b4 * 16777216 + b5 * 65536 + b6 * 256 + b7.
Proof.
  unfold isb. intros.
  change (dec_u64 false [b0; b1; b2; b3; b4; b5; b6; b7])
    with (Z.lor (Z.lor (Z.lor (Z.lor (Z.lor (Z.lor (Z.lor
      (shl b0 56) (shl b1 48)) (shl b2 40)) (shl b3 32)) (shl b4 24)) (shl b5 16)) (shl b6 8)) b7).
  shl_consts. repeat lor_step. lia.
Qed.
Lemma dec_u64_le b0 b1 b2 b3 b4 b5 b6 b7 :
  isb b0 -> isb b1 -> isb b2 -> isb b3 -> isb b4 -> isb b5 -> isb b6 -> isb b7 ->
  dec_u64 true [b0; b1; b2; b3; b4; b5; b6; b7] =
  b7 * 72057594037927936 + b6 * 281474976710656 + b5 * 1099511627776 + b4 * 4294967296
  + b3 * 16777216 + b2 * 65536 + b1 * 256 + b0.
Proof.
  unfold isb. intros.
  change (dec_u64 true [b0; b1; b2; b3; b4; b5; b6; b7])
    with (Z.lor (Z.lor (Z.lor (Z.lor (Z.lor (Z.lor (Z.lor
      (shl b7 56) (shl b6 48)) (shl b5 40)) (shl b4 32)) (shl b3 24)) (shl b2 16)) (shl b1 8)) b0).
  shl_consts. repeat lor_step. lia.
Qed.

(* ---- encoding: byte k of v is (v / 256^k) mod 256 ----------------------------------------------- *)
Lemma shr_div x n : 0 <= n -> shr x n = x / 2 ^ n.
Proof. intros. unfold shr. apply Z.shiftr_div_pow2. assumption. Qed.

(* v >> 8k as k successive divisions by 256, so that lia sees one chain *)
Lemma shr8 v : shr v 8 = v / 256.   Proof. rewrite shr_div by lia. reflexivity. Qed.
Lemma shr16 v : shr v 16 = v / 256 / 256.
Proof. rewrite shr_div, Z.div_div by lia. reflexivity. Qed.
Lemma shr24 v : shr v 24 = v / 256 / 256 / 256.
Proof. rewrite shr_div, !Z.div_div by lia. reflexivity. Qed.
Lemma shr32 v : shr v 32 = v / 256 / 256 / 256 / 256.
Proof. rewrite shr_div, !Z.div_div by lia. reflexivity. Qed.
Lemma shr40 v : shr v 40 = v / 256 / 256 / 256 / 256 / 256.
Proof. rewrite shr_div, !Z.div_div by lia. reflexivity. Qed.
Lemma shr48 v : shr v 48 = v / 256 / 256 / 256 / 256 / 256 / 256.
Proof. rewrite shr_div, !Z.div_div by lia. reflexivity. Qed.
Lemma shr56 v : shr v 56 = v / 256 / 256 / 256 / 256 / 256 / 256 / 256.
Proof. rewrite shr_div, !Z.div_div by lia. reflexivity. Qed.

Ltac shr_chain := rewrite ?shr8, ?shr16, ?shr24, ?shr32, ?shr40, ?shr48, ?shr56.

(* ---- decode (encode v) = v ------------------------------------------------------------------------ *)
Lemma dec_enc_u16 little v : 0 <= v < 2 ^ 16 -> dec_u16 little (enc_u16 little v) = v.
Proof.
  intros H. pow_consts. destruct little; unfold enc_u16.
  - rewrite dec_u16_le by apply byte_range. unfold byte. shr_chain. lia.
  - rewrite dec_u16_be by apply byte_range. unfold byte. shr_chain. lia.
Qed.

(* WriteUint24 takes a uint32 and keeps its low 24 bits *)
Lemma dec_enc_u24 little v : 0 <= v -> dec_u24 little (enc_u24 little v) = v mod 2 ^ 24.
Proof.
  intros H. pow_consts. destruct little; unfold enc_u24.
  - rewrite dec_u24_le by apply byte_range. unfold byte. shr_chain. lia.
  - rewrite dec_u24_be by apply byte_range. unfold byte. shr_chain. lia.
Qed.

Lemma dec_enc_u32 little v : 0 <= v < 2 ^ 32 -> dec_u32 little (enc_u32 little v) = v.
Proof.
  intros H. pow_consts. destruct little; unfold enc_u32.
  - rewrite dec_u32_le by apply byte_range. unfold byte. shr_chain. lia.
  - rewrite dec_u32_be by apply byte_range. unfold byte. shr_chain. lia.
Qed.

Lemma dec_enc_u64 little v : 0 <= v < 2 ^ 64 -> dec_u64 little (enc_u64 little v) = v.
Proof.
  intros H. pow_consts. destruct little; unfold enc_u64.
  - rewrite dec_u64_le by apply byte_range. unfold byte. shr_chain. lia.
  - rewrite dec_u64_be by apply byte_range. unfold byte. shr_chain. lia.
Qed.

(* ---- signed conversions ------------------------------------------------------------------------------ *)
Lemma signed_wrap8 x : - 2 ^ 7 <= x < 2 ^ 7 -> to_signed 8 (byte (wrap 8 x)) = x.
Proof.
  intros H. unfold to_signed, wrap, byte. change (8 - 1) with 7. pow_consts.
  destruct (Z.ltb_spec (x mod 256 mod 256) 128); lia.
Qed.
Lemma signed_wrap16 x : - 2 ^ 15 <= x < 2 ^ 15 -> to_signed 16 (wrap 16 x) = x.
Proof.
  intros H. unfold to_signed, wrap. change (16 - 1) with 15. pow_consts.
  destruct (Z.ltb_spec (x mod 65536) 32768); lia.
Qed.
Lemma signed_wrap32 x : - 2 ^ 31 <= x < 2 ^ 31 -> to_signed 32 (wrap 32 x) = x.
Proof.
  intros H. unfold to_signed, wrap. change (32 - 1) with 31. pow_consts.
  destruct (Z.ltb_spec (x mod 4294967296) 2147483648); lia.
Qed.
Lemma signed_wrap64 x : - 2 ^ 63 <= x < 2 ^ 63 -> to_signed 64 (wrap 64 x) = x.
Proof.
  intros H. unfold to_signed, wrap. change (64 - 1) with 63. pow_consts.
  destruct (Z.ltb_spec (x mod 18446744073709551616) 9223372036854775808); lia.
Qed.
(* ReadInt24: int32(u<<8)>>8 of the low 24 bits of uint32(x) *)
Lemma sext24_wrap x : - 2 ^ 23 <= x < 2 ^ 23 -> sext24 (wrap 32 x mod 2 ^ 24) = x.
Proof.
  intros H. unfold sext24, to_signed, wrap. change (32 - 1) with 31.
  rewrite Z.shiftr_div_pow2 by lia. pow_consts.
  destruct (Z.ltb_spec (x mod 4294967296 mod 16777216 * 256 mod 4294967296) 2147483648); lia.
Qed.
Lemma wrap_range bits x : 0 < bits -> 0 <= wrap bits x < 2 ^ bits.
Proof. intros. unfold wrap. apply Z.mod_pos_bound. apply Z.pow_pos_nonneg; lia. Qed.

(* ---- the value-level round trip: the read function of the type applied to the written bytes ---------- *)
(* what ReadXxx computes from the bytes ReadBytes(width) returned *)
Definition dec_value (little : bool) (v : value) (d : list Z) : Z :=
  match v with
  | VU8 _ => getz d 0 | VI8 _ => to_signed 8 (getz d 0)
  | VU16 _ => dec_u16 little d | VI16 _ => to_signed 16 (dec_u16 little d)
  | VU24 _ => dec_u24 little d | VI24 _ => sext24 (dec_u24 little d)
  | VU32 _ => dec_u32 little d | VI32 _ => to_signed 32 (dec_u32 little d)
  | VU64 _ => dec_u64 little d | VI64 _ => to_signed 64 (dec_u64 little d)
  | VBytes _ => 0
  end.

Definition value_int (v : value) : Z :=
  match v with
  | VU8 x | VU16 x | VU24 x | VU32 x | VU64 x | VI8 x | VI16 x | VI24 x | VI32 x | VI64 x => x
  | VBytes _ => 0
  end.

Lemma dec_enc_value little v :
  valid_value v -> dec_value little v (enc_value little v) = value_int v.
Proof.
  destruct v as [x|x|x|x|x|x|x|x|x|x|l]; cbn [valid_value dec_value enc_value value_int]; intros H.
  - change (getz [byte x] 0) with (byte x). unfold byte. pow_consts. lia.
  - apply dec_enc_u16. exact H.
  - rewrite dec_enc_u24 by lia. pow_consts. lia.
  - apply dec_enc_u32. exact H.
  - apply dec_enc_u64. exact H.
  - change (getz [byte (wrap 8 x)] 0) with (byte (wrap 8 x)). apply signed_wrap8. exact H.
  - rewrite dec_enc_u16 by (apply wrap_range; lia). apply signed_wrap16. exact H.
  - rewrite dec_enc_u24 by (apply wrap_range; lia). apply sext24_wrap. exact H.
  - rewrite dec_enc_u32 by (apply wrap_range; lia). apply signed_wrap32. exact H.
  - rewrite dec_enc_u64 by (apply wrap_range; lia). apply signed_wrap64. exact H.
  - reflexivity.
Qed.

Lemma enc_value_len little v : len (enc_value little v) = value_size v.
Proof.
  destruct v; cbn [enc_value value_size]; try reflexivity;
    unfold enc_u16, enc_u24, enc_u32, enc_u64; destruct little; reflexivity.
Qed.
