(* Binary/Model.v — executable model of /repo/binary.go and /repo/binary_unix.go:
   the five IBinaryReader backends, BinaryReader, BinaryWriter, BitmapReader, BitmapWriter.
   Definitions only.  A Go panic is [None].  Transcribed statement by statement from the code
   as it is after the fix: commits (Seek from the end, mmap exact fit, BitmapReader last bit,
   ReadInt24 sign extension, 8-bit reads test len(data) < 1, EOF together with the last bytes is not
   an error for a satisfied request, mmap n == 0, (0, nil) reads are retried up to 100 times), quirks
   included. *)
From Verif Require Import Common.Base.

(* ---- error kinds (projection of Go's error values) -------------------------------------- *)
Definition E_NIL : Z := 0.
Definition E_EOF : Z := 1.       (* io.EOF *)
Definition E_RANGE : Z := 2.     (* "bytes: invalid range" / "mmap: invalid range" *)
Definition E_NOSEEK : Z := 3.    (* "reader: does not implement io.Seeker or io.ReaderAt" *)
Definition E_SHORT : Z := 4.     (* "reader: could not read all bytes" (ReaderAt backend) *)
Definition E_SRC : Z := 5.       (* an error of the underlying io.Reader / Seeker / ReaderAt *)
Definition E_CLOSED : Z := 6.    (* "mmap: closed" *)
Definition E_OFFSET : Z := 7.    (* Seek: "invalid offset" *)
Definition E_WHENCE : Z := 8.    (* Seek: "invalid whence" *)
Definition E_NOPROGRESS : Z := 9. (* io.ErrNoProgress: 100 consecutive (0, nil) reads *)
Definition E_FUEL : Z := 99.     (* model only: loop fuel exhausted (proved unreachable) *)

(* ---- what IBinaryReader.Bytes returns --------------------------------------------------- *)
(* br_nil: the returned slice is nil (observable through ReadBytes) *)
Record bres := mkBR { br_data : list Z; br_nil : bool; br_err : Z }.
Definition nil_res (e : Z) : bres := mkBR [] true e.

(* A backend is a record of behaviours over its own state type.
   bbytes s bnil n off  models  s.Bytes(b, n, off)  with  bnil <-> b == nil  (and len(b) = n
   when b != nil, which is how BinaryReader.Read/ReadAt call it); None = panic. *)
Record backend (S : Type) := mkBackend {
  blen : S -> Z;
  bbytes : S -> bool -> Z -> Z -> option (S * bres);
  bclose : S -> S * Z
}.
Arguments blen {S}. Arguments bbytes {S}. Arguments bclose {S}.

(* ---- binaryReaderBytes (binary.go:19-61) ------------------------------------------------ *)
Definition bytes_bytes (d : list Z) (bnil : bool) (n off : Z) : option (list Z * bres) :=
  if (off <? 0) || (n <? 0) then Some (d, nil_res E_RANGE)
  else if n =? 0 then Some (d, nil_res E_NIL)
  else if len d <=? off then Some (d, nil_res E_EOF)
  else
    let short := len d - off <? n in
    let n' := if short then len d - off else n in
    let e := if short then E_EOF else E_NIL in
    (* data := r.data[off:off+n:off+n]; with b != nil: copy(b, data); b[:len(data)] *)
    Some (d, mkBR (slice d off (off + n')) false e).

Definition bytes_backend : backend (list Z) :=
  mkBackend (list Z) (fun d => len d) bytes_bytes (fun d => (d, E_NIL)).

(* ---- binaryReaderMmap (binary_unix.go) -------------------------------------------------- *)
(* mdata = None after Close (r.data == nil); size 0 files have data = make([]byte,0), size 0 *)
Record mstate := mkM { mdata : option (list Z); msize : Z }.

Definition mmap_bytes (s : mstate) (bnil : bool) (n off : Z) : option (mstate * bres) :=
  match mdata s with
  | None => Some (s, nil_res E_CLOSED)
  | Some d =>
      if (off <? 0) || (n <? 0) then Some (s, nil_res E_RANGE)
      else if n =? 0 then Some (s, nil_res E_NIL)
      else if len d <=? off then Some (s, nil_res E_EOF)
      else
        let short := len d - off <? n in
        let n' := if short then len d - off else n in
        let e := if short then E_EOF else E_NIL in
        Some (s, mkBR (slice d off (off + n')) false e)
  end.

Definition mmap_backend : backend mstate :=
  mkBackend mstate msize mmap_bytes (fun s => (mkM None (msize s), E_NIL)).

Definition mmap_open (d : list Z) : mstate := mkM (Some d) (len d).

(* ---- the underlying io.Reader / io.ReadSeeker / io.ReaderAt: a read schedule ------------ *)
(* One call Read(p), len p = k, on the unread suffix rem.
   sched: upper bound on the bytes delivered by the next calls (consumed one entry per call that
   finds data; when exhausted the reader fills p); an entry 0 is a (0, nil) read.
   ewl: the final error is delivered together with the last bytes.
   fe: the final error (E_EOF for a healthy source, E_SRC for a failing one). *)
Record rd := mkRd { rd_out : list Z; rd_rem : list Z; rd_sched : list Z; rd_err : Z }.

Definition src_read (rem sched : list Z) (ewl : bool) (fe : Z) (k : Z) : rd :=
  match rem with
  | [] => mkRd [] [] sched fe
  | _ :: _ =>
      let want := match sched with [] => k | c :: _ => Z.min c k end in
      let m := Z.min want (len rem) in
      let rem' := skipz m rem in
      mkRd (firstz m rem) rem' (tl sched) (if (len rem' =? 0) && ewl then fe else E_NIL)
  end.

(* maxConsecutiveEmptyReads *)
Definition MAX_EMPTY : Z := 100.

(* for i, empty := 0, 0; i < int(n); { m, err := r.Read(b[i:]); i += m;
     if err == io.EOF && i == int(n) {break} else if err != nil {return b[:i], err}
     else if 0 < m {empty = 0}
     else if empty++; maxConsecutiveEmptyReads <= empty {return b[:i], io.ErrNoProgress} }; return b, nil
   need = n - i, acc = b[:i].  Every iteration either delivers a byte or counts an empty read, so
   100*(n+1) iterations suffice: the fuel is never exhausted. *)
Fixpoint read_loop (fuel : nat) (rem sched : list Z) (ewl : bool) (fe : Z) (need empty : Z) (acc : list Z) : rd :=
  if need <=? 0 then mkRd acc rem sched E_NIL else
  match fuel with
  | O => mkRd acc rem sched E_FUEL
  | S f =>
      let r := src_read rem sched ewl fe need in
      let acc' := acc ++ rd_out r in
      if (rd_err r =? E_EOF) && (need - len (rd_out r) =? 0) then mkRd acc' (rd_rem r) (rd_sched r) E_NIL
      else if negb (rd_err r =? 0) then mkRd acc' (rd_rem r) (rd_sched r) (rd_err r)
      else if 0 <? len (rd_out r) then
        read_loop f (rd_rem r) (rd_sched r) ewl fe (need - len (rd_out r)) 0 acc'
      else if MAX_EMPTY <=? empty + 1 then mkRd acc' (rd_rem r) (rd_sched r) E_NOPROGRESS
      else read_loop f (rd_rem r) (rd_sched r) ewl fe need (empty + 1) acc'
  end.

Definition loop_fuel (n : Z) : nat := S (Z.to_nat (100 * n + 100)).

(* ---- binaryReaderReader (binary.go:63-105) ---------------------------------------------- *)
Record rstate := mkR { r_rem : list Z; r_sched : list Z; r_ewl : bool; r_fe : Z; r_pos : Z; r_size : Z }.

Definition reader_bytes (s : rstate) (bnil : bool) (n off : Z) : option (rstate * bres) :=
  if negb (off =? r_pos s) then Some (s, nil_res E_NOSEEK)
  else if n =? 0 then Some (s, nil_res E_NIL)
  else if bnil && (n <? 0) then None                      (* make([]byte, n) panics *)
  else
    let r := read_loop (loop_fuel n) (r_rem s) (r_sched s) (r_ewl s) (r_fe s) n 0 [] in
    Some (mkR (rd_rem r) (rd_sched r) (r_ewl s) (r_fe s) (r_pos s + len (rd_out r)) (r_size s),
          mkBR (rd_out r) false (rd_err r)).

Definition reader_backend : backend rstate :=
  mkBackend rstate r_size reader_bytes (fun s => (s, E_NIL)).

(* ---- binaryReaderSeeker (binary.go:107-156); *os.File is this backend -------------------- *)
(* k_closed: the underlying file was closed (its Seek then fails) *)
Record kstate := mkK { k_data : list Z; k_sched : list Z; k_ewl : bool; k_fe : Z; k_size : Z;
                       k_closed : bool; k_closer : bool }.

Definition seeker_bytes (s : kstate) (bnil : bool) (n off : Z) : option (kstate * bres) :=
  if n =? 0 then Some (s, nil_res E_NIL)
  else if bnil && (n <? 0) then None
  else if k_closed s || (off <? 0) then Some (s, nil_res E_SRC)   (* r.r.Seek(off, 0) fails *)
  else
    let r := read_loop (loop_fuel n) (skipz off (k_data s)) (k_sched s) (k_ewl s) (k_fe s) n 0 [] in
    Some (mkK (k_data s) (rd_sched r) (k_ewl s) (k_fe s) (k_size s) (k_closed s) (k_closer s),
          mkBR (rd_out r) false (rd_err r)).

Definition seeker_close (s : kstate) : kstate * Z :=
  if k_closer s then
    if k_closed s then (s, E_SRC)
    else (mkK (k_data s) (k_sched s) (k_ewl s) (k_fe s) (k_size s) true true, E_NIL)
  else (s, E_NIL).

Definition seeker_backend : backend kstate :=
  mkBackend kstate k_size seeker_bytes seeker_close.

(* ---- binaryReaderReaderAt (binary.go:158-192) ------------------------------------------- *)
Record astate := mkA { a_data : list Z; a_sched : list Z; a_ewl : bool; a_fe : Z; a_size : Z }.

(* one call ReadAt(b, off), len b = n > 0: (bytes, err).  A schedule entry makes the call return
   fewer bytes without an error (not io.ReaderAt compliant; exercises "could not read all bytes"). *)
Definition src_readat (s : astate) (n off : Z) : list Z * Z * list Z :=
  if off <? 0 then ([], E_SRC, a_sched s)
  else if len (a_data s) <=? off then ([], a_fe s, a_sched s)
  else
    let avail := len (a_data s) - off in
    let m0 := Z.min n avail in
    let m := match a_sched s with [] => m0 | c :: _ => Z.min c m0 end in
    let e := if m <? m0 then E_NIL
             else if m0 <? n then a_fe s
             else if a_ewl s && (off + m0 =? len (a_data s)) then a_fe s
             else E_NIL in
    (slice (a_data s) off (off + m), e, tl (a_sched s)).

Definition readerat_bytes (s : astate) (bnil : bool) (n off : Z) : option (astate * bres) :=
  if n =? 0 then Some (s, nil_res E_NIL)
  else if bnil && (n <? 0) then None
  else
    let '(out, e, sch) := src_readat s n off in
    let s' := mkA (a_data s) sch (a_ewl s) (a_fe s) (a_size s) in
    (* err != nil && (err != io.EOF || int64(m) != n) *)
    if negb (e =? 0) && (negb (e =? E_EOF) || negb (len out =? n)) then Some (s', mkBR out false e)
    else if negb (len out =? n) then Some (s', mkBR out false E_SHORT)
    else Some (s', mkBR out false E_NIL).

Definition readerat_backend : backend astate :=
  mkBackend astate a_size readerat_bytes (fun s => (s, E_NIL)).

(* ---- BinaryReader (binary.go:194-470) ---------------------------------------------------- *)
Record reader := mkReader { rpos : Z; rerr : Z; rlittle : bool }.

(* One IBinaryReader shared by the reader and its Clone(): cur is the reader the next operation is
   applied to, oth is the other one. *)
Record sys (S : Type) := mkSys { bst : S; cur : reader; oth : reader }.
Arguments mkSys {S}. Arguments bst {S}. Arguments cur {S}. Arguments oth {S}.

Definition new_sys {S} (s : S) : sys S := mkSys s (mkReader 0 0 false) (mkReader 0 0 false).

(* fixed-width decoding exactly as the Go expressions are written *)
Definition shl (x n : Z) : Z := Z.shiftl x n.
Definition dec_u16 (little : bool) (d : list Z) : Z :=
  if len d <? 2 then 0
  else if little then Z.lor (shl (getz d 1) 8) (getz d 0)
  else Z.lor (shl (getz d 0) 8) (getz d 1).
Definition dec_u24 (little : bool) (d : list Z) : Z :=
  if len d <? 3 then 0
  else if little then Z.lor (Z.lor (getz d 0) (shl (getz d 1) 8)) (shl (getz d 2) 16)
  else Z.lor (Z.lor (getz d 2) (shl (getz d 1) 8)) (shl (getz d 0) 16).
Definition dec_u32 (little : bool) (d : list Z) : Z :=
  if len d <? 4 then 0
  else if little then
    Z.lor (Z.lor (Z.lor (shl (getz d 3) 24) (shl (getz d 2) 16)) (shl (getz d 1) 8)) (getz d 0)
  else
    Z.lor (Z.lor (Z.lor (shl (getz d 0) 24) (shl (getz d 1) 16)) (shl (getz d 2) 8)) (getz d 3).
Definition dec_u64 (little : bool) (d : list Z) : Z :=
  if len d <? 8 then 0
  else if little then
    Z.lor (Z.lor (Z.lor (Z.lor (Z.lor (Z.lor (Z.lor
      (shl (getz d 7) 56) (shl (getz d 6) 48)) (shl (getz d 5) 40)) (shl (getz d 4) 32))
      (shl (getz d 3) 24)) (shl (getz d 2) 16)) (shl (getz d 1) 8)) (getz d 0)
  else
    Z.lor (Z.lor (Z.lor (Z.lor (Z.lor (Z.lor (Z.lor
      (shl (getz d 0) 56) (shl (getz d 1) 48)) (shl (getz d 2) 40)) (shl (getz d 3) 32))
      (shl (getz d 4) 24)) (shl (getz d 5) 16)) (shl (getz d 6) 8)) (getz d 7).

(* intN(x) for 0 <= x < 2^N *)
Definition to_signed (bits x : Z) : Z := if x <? 2 ^ (bits - 1) then x else x - 2 ^ bits.
(* int32(u<<8) >> 8 with u a uint32: the shift wraps in 32 bits, >> is arithmetic *)
Definition sext24 (u : Z) : Z := Z.shiftr (to_signed 32 ((u * 256) mod 2 ^ 32)) 8.

Inductive op :=
| OSeek (off whence : Z) | ORead (n : Z) | OReadAt (n off : Z) | OReadBytes (n : Z) | OReadByte
| OU8 | OU16 | OU24 | OU32 | OU64 | OI8 | OI16 | OI24 | OI32 | OI64
| OPos | OLen | OErr | OOrder (little : bool) | OClone | OSwap | OClose
| OInPageCache (a b : Z) | OReadString (n : Z).

(* what the caller observes *)
Inductive obs :=
| VNone
| VInt (v : Z)                         (* a value / Pos / Len / Err *)
| VData (isnil : bool) (d : list Z)    (* ReadBytes *)
| VIntErr (v e : Z)                    (* Seek, ReadByte *)
| VRead (n e : Z) (d : list Z).        (* Read, ReadAt: count, error, b[:count] *)

Section Reader.
Context {S : Type} (B : backend S).

Definition set_cur (st : sys S) (s : S) (c : reader) : sys S := mkSys s c (oth st).

(* data, err := r.f.Bytes(nil, n, r.pos); r.pos += len(data); if r.err == nil { r.err = err } *)
Definition read_bytes (st : sys S) (n : Z) : option (sys S * bres) :=
  x <- bbytes B (bst st) true n (rpos (cur st)) ;;
  let c := cur st in
  let res := snd x in
  Some (set_cur st (fst x)
          (mkReader (rpos c + len (br_data res)) (if rerr c =? 0 then br_err res else rerr c) (rlittle c)),
        res).

Definition read_fixed (st : sys S) (w : Z) (dec : bool -> list Z -> Z) : option (sys S * obs) :=
  x <- read_bytes st w ;;
  Some (fst x, VInt (dec (rlittle (cur st)) (br_data (snd x)))).

(* ReadUint8: data := r.ReadBytes(1); if len(data) < 1 { return 0 }; return data[0] *)
Definition read_u8 (st : sys S) : option (sys S * Z) :=
  x <- read_bytes st 1 ;;
  if len (br_data (snd x)) <? 1 then Some (fst x, 0)
  else c <- peekz (br_data (snd x)) 0 ;; Some (fst x, c).

(* Seek.  Go computes in int64; Z is exact here: Len() >= 0 for every constructor and 0 <= r.pos <= Len()
   is kept by Seek, so the only sum that can overflow is r.pos+off with a huge positive off, which wraps to a
   negative number and is rejected by "r.pos+off < 0" - the same verdict as "Len() < r.pos+off" over Z.
   -r.f.Len() and r.f.Len()+off (evaluated only for -Len <= off <= 0) cannot overflow.  The harness drives
   off = MaxInt64 / MinInt64 through every whence. *)
Definition seek (st : sys S) (off whence : Z) : sys S * obs :=
  let c := cur st in
  let L := blen B (bst st) in
  let moved p := (set_cur st (bst st) (mkReader p (rerr c) (rlittle c)), VIntErr p E_NIL) in
  if whence =? 0 then
    if (off <? 0) || (L <? off) then (st, VIntErr 0 E_OFFSET) else moved off
  else if whence =? 1 then
    if (rpos c + off <? 0) || (L <? rpos c + off) then (st, VIntErr 0 E_OFFSET) else moved (rpos c + off)
  else if whence =? 2 then
    if (off <? - L) || (0 <? off) then (st, VIntErr 0 E_OFFSET) else moved (L + off)
  else (st, VIntErr 0 E_WHENCE).

Definition step (st : sys S) (o : op) : option (sys S * obs) :=
  let c := cur st in
  match o with
  | OSeek off whence => Some (seek st off whence)
  | ORead n =>
      (* data, err := r.f.Bytes(b, len(b), r.pos); r.pos += len(data); r.err is not touched *)
      x <- bbytes B (bst st) false n (rpos c) ;;
      let res := snd x in
      Some (set_cur st (fst x) (mkReader (rpos c + len (br_data res)) (rerr c) (rlittle c)),
            VRead (len (br_data res)) (br_err res) (br_data res))
  | OReadAt n off =>
      x <- bbytes B (bst st) false n off ;;
      let res := snd x in
      Some (set_cur st (fst x) c, VRead (len (br_data res)) (br_err res) (br_data res))
  | OReadBytes n => x <- read_bytes st n ;; Some (fst x, VData (br_nil (snd x)) (br_data (snd x)))
  | OReadString n => x <- read_bytes st n ;; Some (fst x, VData false (br_data (snd x)))
  | OReadByte =>
      x <- read_bytes st 1 ;;
      if len (br_data (snd x)) <? 1 then Some (fst x, VIntErr 0 (rerr (cur (fst x))))
      else b <- peekz (br_data (snd x)) 0 ;; Some (fst x, VIntErr b E_NIL)
  | OU8 => x <- read_u8 st ;; Some (fst x, VInt (snd x))
  | OI8 => x <- read_u8 st ;; Some (fst x, VInt (to_signed 8 (snd x)))
  | OU16 => read_fixed st 2 dec_u16
  | OU24 => read_fixed st 3 dec_u24
  | OU32 => read_fixed st 4 dec_u32
  | OU64 => read_fixed st 8 dec_u64
  | OI16 => read_fixed st 2 (fun l d => to_signed 16 (dec_u16 l d))
  | OI24 => read_fixed st 3 (fun l d => sext24 (dec_u24 l d))
  | OI32 => read_fixed st 4 (fun l d => to_signed 32 (dec_u32 l d))
  | OI64 => read_fixed st 8 (fun l d => to_signed 64 (dec_u64 l d))
  | OPos => Some (st, VInt (rpos c))
  | OLen => Some (st, VInt (blen B (bst st) - rpos c))
  | OErr => Some (st, VInt (rerr c))
  | OOrder l => Some (set_cur st (bst st) (mkReader (rpos c) (rerr c) l), VNone)
  | OClone => Some (mkSys (bst st) c c, VNone)       (* oth := cur.Clone() *)
  | OSwap => Some (mkSys (bst st) (oth st) c, VNone)
  | OClose =>
      (* if err := r.f.Close(); err != nil { return err }; return r.err *)
      let x := bclose B (bst st) in
      Some (set_cur st (fst x) c, VInt (if snd x =? 0 then rerr c else snd x))
  | OInPageCache a b =>
      let index := Z.quot (rpos c) 4096 in
      Some (st, VInt (if (Z.quot a 4096 =? index) && (Z.quot b 4096 =? index) then 1 else 0))
  end.

Fixpoint run (st : sys S) (ops : list op) : option (sys S * list obs) :=
  match ops with
  | [] => Some (st, [])
  | o :: rest =>
      r <- step st o ;;
      r' <- run (fst r) rest ;;
      Some (fst r', snd r :: snd r')
  end.
End Reader.

(* ---- constructors: NewBinaryReaderBytes / File / MmapFile / NewBinaryReaderReader --------- *)
(* The five backends as one sum, so that a constructor can return any of them. *)
Inductive bstate := SBytes (d : list Z) | SMmap (s : mstate) | SReader (s : rstate)
                  | SSeeker (s : kstate) | SReaderAt (s : astate).

Definition lift {A} (f : A -> bstate) (x : option (A * bres)) : option (bstate * bres) :=
  match x with Some (a, r) => Some (f a, r) | None => None end.

Definition any_backend : backend bstate :=
  mkBackend bstate
    (fun s => match s with SBytes d => len d | SMmap s => msize s | SReader s => r_size s
                         | SSeeker s => k_size s | SReaderAt s => a_size s end)
    (fun s bnil n off => match s with
       | SBytes d => lift SBytes (bytes_bytes d bnil n off)
       | SMmap s => lift SMmap (mmap_bytes s bnil n off)
       | SReader s => lift SReader (reader_bytes s bnil n off)
       | SSeeker s => lift SSeeker (seeker_bytes s bnil n off)
       | SReaderAt s => lift SReaderAt (readerat_bytes s bnil n off) end)
    (fun s => match s with
       | SBytes d => (s, E_NIL)
       | SMmap m => (SMmap (mkM None (msize m)), E_NIL)
       | SReader _ => (s, E_NIL)
       | SSeeker k => (SSeeker (fst (seeker_close k)), snd (seeker_close k))
       | SReaderAt _ => (s, E_NIL) end).

(* what is handed to the constructor *)
Inductive ctor :=
| CBytes                  (* NewBinaryReaderBytes(data) *)
| CMmap                   (* NewBinaryReaderMmapFile / MmapPath on a file holding data *)
| CFile (size : Z)        (* NewBinaryReaderFile: Stat().Size() = size, the file holds data when read *)
| CPlain (n : Z)          (* NewBinaryReaderReader(r, n), r only an io.Reader *)
| CSeeker (n : Z)         (* r an io.ReadSeeker *)
| CReaderAt (n : Z)       (* r an io.ReaderAt (and io.Reader, not io.Seeker) *)
| CHasBytes (n : Z).      (* r has Bytes() []byte, e.g. *bytes.Buffer *)

Definition fe_of (failing : bool) : Z := if failing then E_SRC else E_EOF.

(* data: the bytes the source holds; sched/ewl/failing: how it delivers them.
   None = the constructor returned an error. *)
Definition construct (c : ctor) (data sched : list Z) (ewl failing : bool) : option bstate :=
  let fe := fe_of failing in
  match c with
  | CBytes => Some (SBytes data)
  | CMmap => Some (SMmap (mmap_open data))
  | CFile size => Some (SSeeker (mkK data [] false E_EOF size false true))
  | CHasBytes _ => Some (SBytes data)
  | CSeeker n =>
      (* n < 0: n = seeker.Seek(0, io.SeekEnd) *)
      Some (SSeeker (mkK data sched ewl fe (if n <? 0 then len data else n) false false))
  | CReaderAt n =>
      if 0 <? n then Some (SReaderAt (mkA data sched ewl fe n))
      else if n <? 0 then (if failing then None else Some (SBytes data))   (* io.ReadAll *)
      else Some (SReader (mkR data sched ewl fe 0 n))
  | CPlain n =>
      if n <? 0 then (if failing then None else Some (SBytes data))       (* io.ReadAll *)
      else Some (SReader (mkR data sched ewl fe 0 n))
  end.

(* ---- BinaryWriter (binary.go:472-585) ----------------------------------------------------- *)
Definition byte (x : Z) : Z := x mod 256.
Definition shr (x n : Z) : Z := Z.shiftr x n.

(* binary.BigEndian / LittleEndian .AppendUintNN *)
Definition enc_u16 (little : bool) (v : Z) : list Z :=
  if little then [byte v; byte (shr v 8)] else [byte (shr v 8); byte v].
Definition enc_u24 (little : bool) (v : Z) : list Z :=
  if little then [byte v; byte (shr v 8); byte (shr v 16)] else [byte (shr v 16); byte (shr v 8); byte v].
Definition enc_u32 (little : bool) (v : Z) : list Z :=
  if little then [byte v; byte (shr v 8); byte (shr v 16); byte (shr v 24)]
  else [byte (shr v 24); byte (shr v 16); byte (shr v 8); byte v].
Definition enc_u64 (little : bool) (v : Z) : list Z :=
  if little then [byte v; byte (shr v 8); byte (shr v 16); byte (shr v 24);
                  byte (shr v 32); byte (shr v 40); byte (shr v 48); byte (shr v 56)]
  else [byte (shr v 56); byte (shr v 48); byte (shr v 40); byte (shr v 32);
        byte (shr v 24); byte (shr v 16); byte (shr v 8); byte v].

(* typed values; the Go parameter types bound them (valid_value) *)
Inductive value :=
| VU8 (v : Z) | VU16 (v : Z) | VU24 (v : Z) | VU32 (v : Z) | VU64 (v : Z)
| VI8 (v : Z) | VI16 (v : Z) | VI24 (v : Z) | VI32 (v : Z) | VI64 (v : Z)
| VBytes (l : list Z).

(* uintN(v) of a signed v, and the truncation WriteUint24 applies to its uint32 *)
Definition wrap (bits v : Z) : Z := v mod 2 ^ bits.

(* w.WriteXxx(v) appends: *)
Definition enc_value (little : bool) (v : value) : list Z :=
  match v with
  | VU8 x => [byte x]
  | VU16 x => enc_u16 little x
  | VU24 x => enc_u24 little x
  | VU32 x => enc_u32 little x
  | VU64 x => enc_u64 little x
  | VI8 x => [byte (wrap 8 x)]
  | VI16 x => enc_u16 little (wrap 16 x)
  | VI24 x => enc_u24 little (wrap 32 x)
  | VI32 x => enc_u32 little (wrap 32 x)
  | VI64 x => enc_u64 little (wrap 64 x)
  | VBytes l => l
  end.

Inductive wop := WVal (v : value) | WOrder (little : bool) | WWrite (l : list Z).

Record writer := mkW { wbuf : list Z; wlittle : bool }.

Definition wstep (w : writer) (o : wop) : writer * obs :=
  match o with
  | WVal v => (mkW (wbuf w ++ enc_value (wlittle w) v) (wlittle w), VNone)
  | WOrder l => (mkW (wbuf w) l, VNone)
  | WWrite l => (mkW (wbuf w ++ l) (wlittle w), VIntErr (len l) E_NIL)
  end.

Fixpoint wrun (w : writer) (ops : list wop) : writer :=
  match ops with [] => w | o :: rest => wrun (fst (wstep w o)) rest end.

(* all values written with one byte order to a fresh writer *)
Definition write_all (little : bool) (vs : list value) : list Z :=
  wbuf (wrun (mkW [] little) (map WVal vs)).

(* the read operation of the same type, and what it must return *)
Definition read_op (v : value) : op :=
  match v with
  | VU8 _ => OU8 | VU16 _ => OU16 | VU24 _ => OU24 | VU32 _ => OU32 | VU64 _ => OU64
  | VI8 _ => OI8 | VI16 _ => OI16 | VI24 _ => OI24 | VI32 _ => OI32 | VI64 _ => OI64
  | VBytes l => OReadBytes (len l)
  end.

Definition is_byte (b : Z) : Prop := 0 <= b < 256.

Definition valid_value (v : value) : Prop :=
  match v with
  | VU8 x => 0 <= x < 2 ^ 8 | VU16 x => 0 <= x < 2 ^ 16 | VU24 x => 0 <= x < 2 ^ 24
  | VU32 x => 0 <= x < 2 ^ 32 | VU64 x => 0 <= x < 2 ^ 64
  | VI8 x => - 2 ^ 7 <= x < 2 ^ 7 | VI16 x => - 2 ^ 15 <= x < 2 ^ 15 | VI24 x => - 2 ^ 23 <= x < 2 ^ 23
  | VI32 x => - 2 ^ 31 <= x < 2 ^ 31 | VI64 x => - 2 ^ 63 <= x < 2 ^ 63
  | VBytes l => Forall is_byte l
  end.

Definition value_size (v : value) : Z :=
  match v with
  | VU8 _ | VI8 _ => 1 | VU16 _ | VI16 _ => 2 | VU24 _ | VI24 _ => 3 | VU32 _ | VI32 _ => 4
  | VU64 _ | VI64 _ => 8 | VBytes l => len l
  end.

Fixpoint values_size (vs : list value) : Z :=
  match vs with [] => 0 | v :: t => value_size v + values_size t end.

(* the observation that returns the value (the nil-ness of an empty byte string is not part of it) *)
Definition returns (o : obs) (v : value) : Prop :=
  match v, o with
  | VBytes l, VData _ d => d = l
  | VBytes _, _ => False
  | VU8 x, VInt y | VU16 x, VInt y | VU24 x, VInt y | VU32 x, VInt y | VU64 x, VInt y
  | VI8 x, VInt y | VI16 x, VInt y | VI24 x, VInt y | VI32 x, VInt y | VI64 x, VInt y => y = x
  | _, _ => False
  end.

(* ---- BitmapReader (binary.go:587-620): pos is a uint32 ------------------------------------ *)
Record bmr := mkBmr { bm_buf : list Z; bm_pos : Z; bm_eof : bool }.

Definition bmr_new (buf : list Z) : bmr := mkBmr buf 0 false.

(* Read: None = index out of range *)
Definition bmr_read (r : bmr) : option (bmr * bool) :=
  if bm_eof r || ((len (bm_buf r)) mod 2 ^ 32 <=? Z.quot (bm_pos r) 8)
  then Some (mkBmr (bm_buf r) (bm_pos r) true, false)
  else
    c <- peekz (bm_buf r) (Z.shiftr (bm_pos r) 3) ;;
    let bit := negb (Z.land c (Z.shiftr 128 (Z.land (bm_pos r) 7)) =? 0) in
    Some (mkBmr (bm_buf r) ((bm_pos r + 1) mod 2 ^ 32) (bm_eof r), bit).

(* k reads: the bits returned, each with Pos() and EOF() afterwards *)
Fixpoint bmr_reads (k : nat) (r : bmr) : option (bmr * list (bool * Z * bool)) :=
  match k with
  | O => Some (r, [])
  | S k' =>
      x <- bmr_read r ;;
      y <- bmr_reads k' (fst x) ;;
      Some (fst y, (snd x, bm_pos (fst x), bm_eof (fst x)) :: snd y)
  end.

(* ---- BitmapWriter (binary.go:622-656): pos is a uint64 ------------------------------------ *)
Record bmw := mkBmw { bw_buf : list Z; bw_pos : Z }.

Definition bmw_new (buf : list Z) : bmw := mkBmw buf 0.

Definition bmw_write (w : bmw) (bit : bool) : option bmw :=
  let buf := if len (bw_buf w) <=? Z.quot ((bw_pos w + 1) mod 2 ^ 64) 8 then bw_buf w ++ [0] else bw_buf w in
  let i := Z.shiftr (bw_pos w) 3 in
  if bit then
    c <- peekz buf i ;;
    Some (mkBmw (setz buf i (Z.lor c (Z.shiftr 128 (Z.land (bw_pos w) 7)))) ((bw_pos w + 1) mod 2 ^ 64))
  else Some (mkBmw buf ((bw_pos w + 1) mod 2 ^ 64)).

Fixpoint bmw_writes (w : bmw) (bits : list bool) : option bmw :=
  match bits with
  | [] => Some w
  | b :: t => w' <- bmw_write w b ;; bmw_writes w' t
  end.
