(* Binary/Proofs.v — C19: the reader over every healthy backend equals the reader over the in-memory
   bytes; write/read round trip; EOF exactly past the end; Seek; witnesses of the deviations. *)
From Verif Require Import Common.Base Common.Tactics Binary.Model Binary.Spec Binary.Lists
  Binary.Arith Binary.Backends.
From Coq Require Import ZifyBool.

(* ---- Seek ------------------------------------------------------------------------------------------- *)
Definition seek_target (L p off whence : Z) : Z :=
  if whence =? 0 then off else if whence =? 1 then p + off else L + off.

Lemma seek_spec_proof {S : Type} (B : backend S) (st : sys S) off whence :
  let L := blen B (bst st) in
  let p := rpos (cur st) in
  let t := seek_target L p off whence in
  (0 <= whence <= 2 -> 0 <= t <= L ->
     seek B st off whence =
       (mkSys (bst st) (mkReader t (rerr (cur st)) (rlittle (cur st))) (oth st), VIntErr t E_NIL)) /\
  (0 <= whence <= 2 -> ~ (0 <= t <= L) -> seek B st off whence = (st, VIntErr 0 E_OFFSET)) /\
  (~ (0 <= whence <= 2) -> seek B st off whence = (st, VIntErr 0 E_WHENCE)).
Proof.
  cbn zeta. unfold seek, seek_target, set_cur.
  destruct (Z.eqb_spec whence 0) as [W0|W0]; [|destruct (Z.eqb_spec whence 1) as [W1|W1];
    [|destruct (Z.eqb_spec whence 2) as [W2|W2]]].
  - split; [|split]; intros; try lia.
    + replace ((off <? 0) || (blen B (bst st) <? off)) with false by (symmetry; apply orb_false_iff; split; [apply Z.ltb_ge|apply Z.ltb_ge]; lia). reflexivity.
    + destruct (Z.ltb_spec off 0); [reflexivity|]. destruct (Z.ltb_spec (blen B (bst st)) off); [reflexivity|]. lia.
  - split; [|split]; intros; try lia.
    + replace ((rpos (cur st) + off <? 0) || (blen B (bst st) <? rpos (cur st) + off)) with false by (symmetry; apply orb_false_iff; split; [apply Z.ltb_ge|apply Z.ltb_ge]; lia). reflexivity.
    + destruct (Z.ltb_spec (rpos (cur st) + off) 0); [reflexivity|]. destruct (Z.ltb_spec (blen B (bst st)) (rpos (cur st) + off)); [reflexivity|]. lia.
  - split; [|split]; intros; try lia.
    + replace ((off <? - blen B (bst st)) || (0 <? off)) with false by (symmetry; apply orb_false_iff; split; [apply Z.ltb_ge|apply Z.ltb_ge]; lia). reflexivity.
    + destruct (Z.ltb_spec off (- blen B (bst st))); [reflexivity|]. destruct (Z.ltb_spec 0 off); [reflexivity|]. lia.
  - split; [|split]; intros; try lia. reflexivity.
Qed.

(* ---- the in-memory backend, specified ---------------------------------------------------------------- *)
Lemma bytes_bytes_pos d bnil n p : 0 < n -> 0 <= p ->
  exists r, bytes_bytes d bnil n p = Some (d, r) /\
    br_data r = slice d p (p + n) /\
    br_err r = (if p + n <=? len d then E_NIL else E_EOF) /\
    br_nil r = (len d <=? p).
Proof.
  intros Hn Hp. pose proof (len_nonneg d). unfold bytes_bytes. zb. cbn [orb].
  destruct (Z.leb_spec (len d) p) as [Hpe|Hpe].
  - eexists. split; [reflexivity|]. cbn [br_data br_nil br_err nil_res].
    rewrite slice_past by lia. zb. auto.
  - destruct (Z.ltb_spec (len d - p) n) as [Hs|Hs].
    + eexists. split; [reflexivity|]. cbn [br_data br_nil br_err]. zb.
      rewrite (slice_clip d p (len d - p) n) by lia. auto.
    + eexists. split; [reflexivity|]. cbn [br_data br_nil br_err]. zb. auto.
Qed.

Lemma bytes_bytes_zero d bnil p : 0 <= p -> bytes_bytes d bnil 0 p = Some (d, nil_res E_NIL).
Proof. intros Hp. unfold bytes_bytes. zb. reflexivity. Qed.

(* Bytes on a healthy backend and on the in-memory bytes: same data, same error; same nil-ness
   whenever the request did not run past the end *)
Lemma bbytes_agree d s p bnil n :
  good d s p -> 0 <= n -> 0 <= p ->
  exists s' r rb,
    bbytes any_backend s bnil n p = Some (s', r) /\
    bytes_bytes d bnil n p = Some (d, rb) /\
    br_data r = br_data rb /\ br_err r = br_err rb /\
    (br_err rb = 0 -> br_nil r = br_nil rb) /\
    good d s' (p + len (br_data r)) /\ random_access s' = random_access s.
Proof.
  intros Hg Hn Hp.
  destruct (Z.eq_dec n 0) as [->|Hn0].
  - exists s, (nil_res E_NIL), (nil_res E_NIL).
    rewrite (good_bytes_zero d s p bnil Hg Hp), (bytes_bytes_zero d bnil p Hp).
    cbn [br_data br_err br_nil nil_res]. change (len (@nil Z)) with 0. rewrite Z.add_0_r. repeat split; auto.
  - destruct (good_bytes d s p bnil n Hg ltac:(lia) Hp) as (s' & r & E & D & Er & Nn & _ & G & RA).
    destruct (bytes_bytes_pos d bnil n p ltac:(lia) Hp) as (rb & Eb & Db & Erb & Nb).
    exists s', r, rb. repeat split; auto; try congruence.
    intros H0. rewrite Erb in H0. destruct (Z.leb_spec (p + n) (len d)) as [Hin|Hin]; [|discriminate].
    rewrite Nn by exact Hin. rewrite Nb. symmetry. apply Z.leb_gt. lia.
Qed.

(* ---- simulation: the reader over a healthy backend against the reader over the bytes ------------------- *)
Definition sim (d : list Z) (st : sys bstate) (sb : sys (list Z)) : Prop :=
  bst sb = d /\ cur st = cur sb /\ oth st = oth sb /\
  good d (bst st) (rpos (cur st)) /\ 0 <= rpos (cur st) /\ 0 <= rpos (oth st) /\
  rerr (cur sb) = 0 /\ rerr (oth sb) = 0.

Lemma sim_init s d : healthy s d -> sim d (new_sys s) (new_sys d).
Proof.
  intros H. unfold sim, new_sys. cbn [bst cur oth rpos rerr].
  repeat split; auto; try lia. apply healthy_good. exact H.
Qed.

Lemma read_bytes_sim d s c o n :
  good d s (rpos c) -> 0 <= n -> 0 <= rpos c ->
  exists s' r rb,
    read_bytes any_backend (mkSys s c o) n =
      Some (mkSys s' (mkReader (rpos c + len (br_data rb)) (if rerr c =? 0 then br_err rb else rerr c) (rlittle c)) o, r) /\
    read_bytes bytes_backend (mkSys d c o) n =
      Some (mkSys d (mkReader (rpos c + len (br_data rb)) (if rerr c =? 0 then br_err rb else rerr c) (rlittle c)) o, rb) /\
    br_data r = br_data rb /\ br_err r = br_err rb /\ (br_err rb = 0 -> br_nil r = br_nil rb) /\
    good d s' (rpos c + len (br_data rb)) /\ random_access s' = random_access s.
Proof.
  intros Hg Hn Hp.
  destruct (bbytes_agree d s (rpos c) true n Hg Hn Hp) as (s' & r & rb & E & Eb & D & Er & Nn & G & RA).
  exists s', r, rb. unfold read_bytes, set_cur. cbn [bst cur oth bbytes bytes_backend].
  rewrite E, Eb. cbn [option_bind fst snd]. rewrite D, Er. rewrite D in G. repeat split; auto.
Qed.

Lemma sim_destruct d st sb : sim d st sb ->
  exists s c o, st = mkSys s c o /\ sb = mkSys d c o /\ good d s (rpos c) /\
                0 <= rpos c /\ 0 <= rpos o /\ rerr c = 0 /\ rerr o = 0.
Proof.
  destruct st as [s c o], sb as [db cb ob]. unfold sim. cbn [bst cur oth].
  intros (-> & -> & -> & G & P1 & P2 & E1 & E2). exists s, cb, ob. repeat split; auto.
Qed.

Lemma sim_intro d s c o :
  good d s (rpos c) -> 0 <= rpos c -> 0 <= rpos o -> rerr c = 0 -> rerr o = 0 ->
  sim d (mkSys s c o) (mkSys d c o).
Proof. intros. unfold sim. cbn [bst cur oth]. repeat split; auto. Qed.

Ltac inv_some H := inversion H; subst; clear H.

(* Seek only looks at Len() and the reader *)
Definition seek_pure (L : Z) (c : reader) (off whence : Z) : reader * obs :=
  let moved p := (mkReader p (rerr c) (rlittle c), VIntErr p E_NIL) in
  if whence =? 0 then
    if (off <? 0) || (L <? off) then (c, VIntErr 0 E_OFFSET) else moved off
  else if whence =? 1 then
    if (rpos c + off <? 0) || (L <? rpos c + off) then (c, VIntErr 0 E_OFFSET) else moved (rpos c + off)
  else if whence =? 2 then
    if (off <? - L) || (0 <? off) then (c, VIntErr 0 E_OFFSET) else moved (L + off)
  else (c, VIntErr 0 E_WHENCE).

Lemma seek_factor {S : Type} (B : backend S) (s : S) c o off whence :
  seek B (mkSys s c o) off whence =
  (mkSys s (fst (seek_pure (blen B s) c off whence)) o, snd (seek_pure (blen B s) c off whence)).
Proof.
  unfold seek, seek_pure, set_cur. cbn [bst cur oth].
  repeat match goal with |- context [if ?b then _ else _] => destruct b end; reflexivity.
Qed.

Lemma seek_pure_props L c off whence :
  rerr (fst (seek_pure L c off whence)) = rerr c /\
  rlittle (fst (seek_pure L c off whence)) = rlittle c /\
  (0 <= L -> 0 <= rpos c -> 0 <= rpos (fst (seek_pure L c off whence))).
Proof.
  unfold seek_pure.
  repeat match goal with |- context [if ?b then _ else _] => destruct b eqn:? end;
    cbn [fst rerr rpos rlittle]; repeat split; auto; intros; b2p; lia.
Qed.

(* one operation: if the reference (in-memory) run stays clean, the backend returns the same observation *)
Lemma step_sim d st sb o sb' v :
  sim d st sb -> allowed (random_access (bst st)) o ->
  step bytes_backend sb o = Some (sb', v) ->
  rerr (cur sb') = 0 -> rerr (oth sb') = 0 ->
  exists st', step any_backend st o = Some (st', v) /\ sim d st' sb' /\
              random_access (bst st') = random_access (bst st).
Proof.
  intros Hsim Hal Hstep Hc1 Hc2.
  destruct (sim_destruct _ _ _ Hsim) as (s & c & oo & -> & -> & G & P1 & P2 & E1 & E2).
  cbn [bst] in Hal.
  pose proof (good_len d s _ G) as HL.
  assert (HLb : blen bytes_backend d = len d) by reflexivity.
  assert (Hfix : forall w dec, 0 <= w ->
     read_fixed bytes_backend (mkSys d c oo) w dec = Some (sb', v) ->
     exists st', read_fixed any_backend (mkSys s c oo) w dec = Some (st', v) /\ sim d st' sb' /\
                 random_access (bst st') = random_access s).
  { intros w dec Hw Hrf.
    destruct (read_bytes_sim d s c oo w G Hw P1) as (s' & r & rb & R1 & R2 & D & Er & Nn & G' & RA).
    unfold read_fixed in *. rewrite R2 in Hrf. rewrite R1. cbn [option_bind fst snd cur] in *.
    inv_some Hrf. cbn [cur oth rerr] in Hc1.
    eexists. split; [rewrite D; reflexivity|]. split; [|exact RA].
    apply sim_intro; cbn [rpos rerr]; auto. pose proof (len_nonneg (br_data rb)). lia. }
  assert (Hu8 : forall x, read_u8 bytes_backend (mkSys d c oo) = Some (sb', x) ->
     exists st', read_u8 any_backend (mkSys s c oo) = Some (st', x) /\ sim d st' sb' /\
                 random_access (bst st') = random_access s).
  { intros x Hru.
    destruct (read_bytes_sim d s c oo 1 G ltac:(lia) P1) as (s' & r & rb & R1 & R2 & D & Er & Nn & G' & RA).
    unfold read_u8 in *. rewrite R2 in Hru. rewrite R1. cbn [option_bind fst snd] in *.
    rewrite D.
    destruct (len (br_data rb) <? 1).
    - inv_some Hru. eexists. split; [reflexivity|]. split; [|exact RA].
      apply sim_intro; cbn [rpos rerr]; auto. pose proof (len_nonneg (br_data rb)). lia.
    - destruct (peekz (br_data rb) 0) as [b|]; [|discriminate]. cbn [option_bind] in *. inv_some Hru.
      eexists. split; [reflexivity|]. split; [|exact RA].
      apply sim_intro; cbn [rpos rerr]; auto. pose proof (len_nonneg (br_data rb)). lia. }
  destruct o; cbn [allowed] in Hal; cbn [step] in Hstep |- *; cbn [cur bst oth] in *.
  - (* Seek *)
    rewrite seek_factor in Hstep. rewrite seek_factor. rewrite HL. rewrite HLb in Hstep.
    inv_some Hstep. eexists. split; [reflexivity|]. split; [|reflexivity].
    destruct (seek_pure_props (len d) c off whence) as (A1 & A2 & A3).
    apply sim_intro; auto; try congruence.
    + eapply good_ra; eauto.
    + apply A3; [apply len_nonneg|exact P1].
  - (* Read *)
    destruct (bbytes_agree d s (rpos c) false n G Hal P1) as (s' & r & rb & E & Eb & D & Er & Nn & G' & RA).
    cbn [bbytes bytes_backend] in Hstep. rewrite Eb in Hstep. rewrite E.
    cbn [option_bind fst snd] in *. inv_some Hstep. unfold set_cur. cbn [oth bst].
    rewrite D, Er. eexists. split; [reflexivity|]. split; [|exact RA].
    apply sim_intro; cbn [rpos rerr]; auto. { rewrite <- D. exact G'. }
    pose proof (len_nonneg (br_data rb)). lia.
  - (* ReadAt *)
    destruct Hal as (Hra & Hn & Hoff).
    destruct (bbytes_agree d s off false n (good_ra d s _ off Hra G) Hn Hoff) as (s' & r & rb & E & Eb & D & Er & Nn & G' & RA).
    cbn [bbytes bytes_backend] in Hstep. rewrite Eb in Hstep. rewrite E.
    cbn [option_bind fst snd] in *. inv_some Hstep. unfold set_cur. cbn [oth bst].
    rewrite D, Er. eexists. split; [reflexivity|]. split; [|exact RA].
    apply sim_intro; auto. eapply good_ra; [congruence|exact G'].
  - (* ReadBytes *)
    destruct (read_bytes_sim d s c oo n G Hal P1) as (s' & r & rb & R1 & R2 & D & Er & Nn & G' & RA).
    rewrite R2 in Hstep. rewrite R1. cbn [option_bind fst snd] in *. inv_some Hstep.
    cbn [cur rerr] in Hc1. rewrite E1 in Hc1. cbn in Hc1.
    rewrite (Nn Hc1), D. eexists. split; [reflexivity|]. split; [|exact RA].
    apply sim_intro; cbn [rpos rerr]; auto. pose proof (len_nonneg (br_data rb)). lia.
    rewrite E1. exact Hc1.
  - (* ReadByte *)
    destruct (read_bytes_sim d s c oo 1 G ltac:(lia) P1) as (s' & r & rb & R1 & R2 & D & Er & Nn & G' & RA).
    rewrite R2 in Hstep. rewrite R1. cbn [option_bind fst snd] in *.
    rewrite D.
    destruct (len (br_data rb) <? 1).
    + inv_some Hstep. cbn [cur rerr]. eexists. split; [reflexivity|]. split; [|exact RA].
      apply sim_intro; cbn [rpos rerr]; auto. pose proof (len_nonneg (br_data rb)). lia.
    + destruct (peekz (br_data rb) 0) as [b|]; [|discriminate]. cbn [option_bind] in *. inv_some Hstep.
      eexists. split; [reflexivity|]. split; [|exact RA].
      apply sim_intro; cbn [rpos rerr]; auto. pose proof (len_nonneg (br_data rb)). lia.
  - (* U8 *)
    destruct (read_u8 bytes_backend (mkSys d c oo)) as [[sb1 x]|] eqn:Hr; [|discriminate].
    cbn [option_bind fst snd] in Hstep. inv_some Hstep.
    destruct (Hu8 x eq_refl) as (st' & R & S1 & RA). rewrite R. cbn [option_bind fst snd]. eauto.
  - apply (Hfix 2 dec_u16); [lia|exact Hstep].
  - apply (Hfix 3 dec_u24); [lia|exact Hstep].
  - apply (Hfix 4 dec_u32); [lia|exact Hstep].
  - apply (Hfix 8 dec_u64); [lia|exact Hstep].
  - (* I8 *)
    destruct (read_u8 bytes_backend (mkSys d c oo)) as [[sb1 x]|] eqn:Hr; [|discriminate].
    cbn [option_bind fst snd] in Hstep. inv_some Hstep.
    destruct (Hu8 x eq_refl) as (st' & R & S1 & RA). rewrite R. cbn [option_bind fst snd]. eauto.
  - apply (Hfix 2 (fun l d0 => to_signed 16 (dec_u16 l d0))); [lia|exact Hstep].
  - apply (Hfix 3 (fun l d0 => sext24 (dec_u24 l d0))); [lia|exact Hstep].
  - apply (Hfix 4 (fun l d0 => to_signed 32 (dec_u32 l d0))); [lia|exact Hstep].
  - apply (Hfix 8 (fun l d0 => to_signed 64 (dec_u64 l d0))); [lia|exact Hstep].
  - inv_some Hstep. eexists. split; [reflexivity|]. split; [apply sim_intro; auto|reflexivity].
  - inv_some Hstep. rewrite HL. eexists. split; [reflexivity|]. split; [apply sim_intro; auto|reflexivity].
  - inv_some Hstep. eexists. split; [reflexivity|]. split; [apply sim_intro; auto|reflexivity].
  - inv_some Hstep. unfold set_cur. cbn [bst oth]. eexists. split; [reflexivity|].
    split; [apply sim_intro; auto|reflexivity].
  - inv_some Hstep. eexists. split; [reflexivity|]. split; [apply sim_intro; auto|reflexivity].
  - inv_some Hstep. eexists. split; [reflexivity|]. split; [apply sim_intro; auto|reflexivity].
    eapply good_ra; eauto.
  - tauto.
  - inv_some Hstep. eexists. split; [reflexivity|]. split; [apply sim_intro; auto|reflexivity].
  - (* ReadString *)
    destruct (read_bytes_sim d s c oo n G Hal P1) as (s' & r & rb & R1 & R2 & D & Er & Nn & G' & RA).
    rewrite R2 in Hstep. rewrite R1. cbn [option_bind fst snd] in *. inv_some Hstep.
    cbn [cur rerr] in Hc1. rewrite D. eexists. split; [reflexivity|]. split; [|exact RA].
    apply sim_intro; cbn [rpos rerr]; auto. pose proof (len_nonneg (br_data rb)). lia.
Qed.

(* ---- all backends agree with the in-memory one while no read runs past the end ------------------------- *)
Lemma run_sim d ops : forall st sb,
  sim d st sb -> Forall (allowed (random_access (bst st))) ops -> clean bytes_backend sb ops ->
  exists st' sb' outs, run any_backend st ops = Some (st', outs) /\
                       run bytes_backend sb ops = Some (sb', outs) /\ sim d st' sb'.
Proof.
  induction ops as [|o rest IH]; intros st sb Hsim Hal Hcl.
  - exists st, sb, []. auto.
  - inversion Hal as [|? ? Ho Hrest]; subst. cbn [clean] in Hcl.
    destruct (step bytes_backend sb o) as [[sb1 v]|] eqn:Hs; [|tauto].
    destruct Hcl as (C1 & C2 & Hcl).
    destruct (step_sim d st sb o sb1 v Hsim Ho Hs C1 C2) as (st1 & Hs1 & Hsim1 & RA).
    rewrite <- RA in Hrest.
    destruct (IH st1 sb1 Hsim1 Hrest Hcl) as (st' & sb' & outs & R1 & R2 & S').
    exists st', sb', (v :: outs). cbn [run]. rewrite Hs1, Hs. cbn [option_bind fst snd].
    rewrite R1, R2. cbn [option_bind fst snd]. auto.
Qed.

Theorem backend_independence_proof s d ops :
  healthy s d -> Forall (allowed (random_access s)) ops -> clean bytes_backend (new_sys d) ops ->
  exists st' sb' outs,
    run any_backend (new_sys s) ops = Some (st', outs) /\
    run bytes_backend (new_sys d) ops = Some (sb', outs) /\
    cur st' = cur sb' /\ oth st' = oth sb'.
Proof.
  intros H Hal Hcl.
  destruct (run_sim d ops (new_sys s) (new_sys d) (sim_init s d H) Hal Hcl) as (st' & sb' & outs & R1 & R2 & S').
  exists st', sb', outs. destruct S' as (_ & A & B & _). auto.
Qed.

(* ---- typed reads on a healthy backend ------------------------------------------------------------------ *)
Lemma read_bytes_good d s c o w :
  good d s (rpos c) -> 0 < w -> 0 <= rpos c ->
  exists s' r,
    read_bytes any_backend (mkSys s c o) w =
      Some (mkSys s' (mkReader (rpos c + len (br_data r)) (if rerr c =? 0 then br_err r else rerr c) (rlittle c)) o, r) /\
    br_data r = slice d (rpos c) (rpos c + w) /\
    br_err r = (if rpos c + w <=? len d then E_NIL else E_EOF) /\
    (rpos c + w <= len d -> br_nil r = false) /\
    (br_nil r = true -> br_data r = []) /\
    good d s' (rpos c + len (br_data r)) /\ random_access s' = random_access s.
Proof.
  intros G Hw Hp.
  destruct (good_bytes d s (rpos c) true w G Hw Hp) as (s' & r & E & D & Er & Nn & Ne & G' & RA).
  exists s', r. unfold read_bytes, set_cur. cbn [bst cur oth]. rewrite E. cbn [option_bind fst snd].
  repeat split; auto.
Qed.

Lemma typed_width o : typed_read o -> 0 < op_width o.
Proof. destruct o; cbn [typed_read op_width]; intros; try tauto; lia. Qed.

Lemma if_same_z (x : Z) : (if x =? 0 then E_NIL else x) = x.
Proof. destruct (Z.eqb_spec x 0); [subst; reflexivity|reflexivity]. Qed.

Lemma peekz_getz l i : 0 <= i < len l -> peekz l i = Some (getz l i).
Proof. intros H. destruct (peekz_in_range l i H) as [c Hc]. unfold getz. rewrite Hc. reflexivity. Qed.

(* A: all the bytes are there *)
Lemma typed_read_in_range d s c o op :
  good d s (rpos c) -> 0 <= rpos c -> typed_read op -> rpos c + op_width op <= len d ->
  exists s',
    step any_backend (mkSys s c o) op =
      Some (mkSys s' (mkReader (rpos c + op_width op) (rerr c) (rlittle c)) o,
            read_value op (rlittle c) (slice d (rpos c) (rpos c + op_width op))) /\
    good d s' (rpos c + op_width op) /\ random_access s' = random_access s.
Proof.
  intros G Hp Ht Hin. pose proof (typed_width op Ht) as Hw.
  destruct (read_bytes_good d s c o (op_width op) G Hw Hp) as (s' & r & R & D & Er & Nn & _ & G' & RA).
  specialize (Nn Hin).
  assert (Hlen : len (br_data r) = op_width op).
  { rewrite D. rewrite len_slice_gen by lia. lia. }
  rewrite Hlen in R, G'.
  replace (rpos c + op_width op <=? len d) with true in Er by (symmetry; apply Z.leb_le; lia).
  rewrite Er in R. rewrite if_same_z in R.
  exists s'. split; [|auto].
  destruct op; cbn [typed_read] in Ht; try tauto; cbn [op_width] in *;
    cbn [step read_value]; unfold read_fixed, read_u8; rewrite R; cbn [option_bind fst snd cur rerr];
    rewrite ?Hlen; try change (1 <? 1) with false; cbv iota;
    rewrite ?Nn, ?D; try reflexivity;
    rewrite <- D; rewrite (peekz_getz (br_data r) 0) by lia; reflexivity.
Qed.

Lemma dec_short_zero little (data : list Z) :
  (len data < 2 -> dec_u16 little data = 0) /\ (len data < 3 -> dec_u24 little data = 0) /\
  (len data < 4 -> dec_u32 little data = 0) /\ (len data < 8 -> dec_u64 little data = 0).
Proof.
  unfold dec_u16, dec_u24, dec_u32, dec_u64. repeat split; intros H; zb; reflexivity.
Qed.

(* B: the read runs past the end: zero value, io.EOF, no panic - on every backend, 8-bit reads included *)
Lemma typed_read_past_end d s c o op :
  good d s (rpos c) -> 0 <= rpos c -> typed_read op -> len d < rpos c + op_width op ->
  let rest := slice d (rpos c) (rpos c + op_width op) in
  let e' := if rerr c =? 0 then E_EOF else rerr c in
  exists s' v,
    step any_backend (mkSys s c o) op =
      Some (mkSys s' (mkReader (rpos c + len rest) e' (rlittle c)) o, v) /\
    zero_obs op rest e' v /\
    good d s' (rpos c + len rest) /\ random_access s' = random_access s.
Proof.
  intros G Hp Ht Hout. cbn zeta. pose proof (typed_width op Ht) as Hw.
  destruct (read_bytes_good d s c o (op_width op) G Hw Hp) as (s' & r & R & D & Er & _ & _ & G' & RA).
  replace (rpos c + op_width op <=? len d) with false in Er by (symmetry; apply Z.leb_gt; lia).
  rewrite Er in R. rewrite D in *.
  assert (Hshort : len (slice d (rpos c) (rpos c + op_width op)) < op_width op).
  { rewrite len_slice_gen by lia. lia. }
  assert (Hlt : (len (slice d (rpos c) (rpos c + op_width op)) <? op_width op) = true)
    by (apply Z.ltb_lt; exact Hshort).
  destruct (dec_short_zero (rlittle c) (br_data r)) as (Z16 & Z24 & Z32 & Z64).
  rewrite D in *.
  destruct op; cbn [typed_read] in Ht; try tauto; cbn [op_width] in *;
    cbn [step zero_obs]; unfold read_fixed, read_u8; rewrite R; cbn [option_bind fst snd cur rlittle rerr];
    rewrite ?D, ?Hlt, ?Z16, ?Z24, ?Z32, ?Z64 by assumption;
    eexists _, _; (split; [reflexivity|]); (split; [|auto]); eauto.
Qed.

(* ---- the writer ------------------------------------------------------------------------------------------ *)
Lemma enc_all_cons little v vs : enc_all little (v :: vs) = enc_value little v ++ enc_all little vs.
Proof. reflexivity. Qed.

Lemma enc_all_app little a b : enc_all little (a ++ b) = enc_all little a ++ enc_all little b.
Proof. unfold enc_all. rewrite map_app, concat_app. reflexivity. Qed.

Lemma wrun_vals little vs : forall buf,
  wrun (mkW buf little) (map WVal vs) = mkW (buf ++ enc_all little vs) little.
Proof.
  induction vs as [|v vs IH]; intros buf; cbn [map wrun].
  - unfold enc_all. cbn. rewrite app_nil_r. reflexivity.
  - cbn [wstep fst wbuf wlittle]. rewrite IH, enc_all_cons, app_assoc. reflexivity.
Qed.

Lemma write_all_enc little vs : write_all little vs = enc_all little vs.
Proof. unfold write_all. rewrite wrun_vals. reflexivity. Qed.

Lemma len_enc_all little vs : len (enc_all little vs) = values_size vs.
Proof.
  induction vs as [|v vs IH]; [reflexivity|].
  rewrite enc_all_cons, len_app, enc_value_len, IH. reflexivity.
Qed.

Lemma op_width_read_op v : op_width (read_op v) = value_size v.
Proof. destruct v; reflexivity. Qed.

Lemma value_size_nonneg v : 0 <= value_size v.
Proof. destruct v; cbn [value_size]; try lia. apply len_nonneg. Qed.

Lemma values_size_nonneg vs : 0 <= values_size vs.
Proof. induction vs as [|v vs IH]; cbn [values_size]; [lia|]. pose proof (value_size_nonneg v). lia. Qed.

Lemma typed_read_op v : 0 < value_size v -> typed_read (read_op v).
Proof. destruct v; cbn [read_op typed_read value_size]; auto. Qed.

Lemma read_value_returns little v :
  valid_value v -> returns (read_value (read_op v) little (enc_value little v)) v.
Proof.
  intros Hv. pose proof (dec_enc_value little v Hv) as H.
  destruct v; cbn [read_op read_value returns dec_value value_int] in *; auto.
Qed.

(* ---- write / read round trip on every healthy backend ---------------------------------------------------- *)
Lemma roundtrip_run little : forall vs1 pre post s c o d,
  d = pre ++ enc_all little vs1 ++ post ->
  good d s (rpos c) -> rpos c = len pre -> rlittle c = little -> rerr c = 0 ->
  Forall valid_value vs1 ->
  exists s' outs,
    run any_backend (mkSys s c o) (map read_op vs1) =
      Some (mkSys s' (mkReader (len pre + values_size vs1) 0 little) o, outs) /\
    Forall2 returns outs vs1 /\
    good d s' (len pre + values_size vs1) /\ random_access s' = random_access s.
Proof.
  induction vs1 as [|v vs IH]; intros pre post s c o d Hd G Hp Hl He Hv.
  - cbn [map run values_size]. exists s, []. rewrite Z.add_0_r.
    destruct c as [p e l]. cbn [rpos rerr rlittle] in *. subst. auto.
  - inversion Hv as [|? ? Hv1 Hvs]; subst.
    pose proof (len_nonneg pre) as Hpre. pose proof (value_size_nonneg v) as Hsz.
    rewrite enc_all_cons, <- app_assoc in G |- *.
    set (d := pre ++ enc_value (rlittle c) v ++ enc_all (rlittle c) vs ++ post) in *.
    assert (Hlen : len d = len pre + value_size v + len (enc_all (rlittle c) vs ++ post)).
    { unfold d. rewrite !len_app, enc_value_len. lia. }
    pose proof (len_nonneg (enc_all (rlittle c) vs ++ post)) as Hrest.
    assert (Hslice : slice d (rpos c) (rpos c + value_size v) = enc_value (rlittle c) v).
    { rewrite Hp. rewrite <- (enc_value_len (rlittle c) v). unfold d. apply slice_app_mid. }
    assert (Hstep : exists s1 ob,
      step any_backend (mkSys s c o) (read_op v) =
        Some (mkSys s1 (mkReader (rpos c + value_size v) 0 (rlittle c)) o, ob) /\
      returns ob v /\ good d s1 (rpos c + value_size v) /\ random_access s1 = random_access s).
    { destruct (Z.eq_dec (value_size v) 0) as [Hz|Hz].
      - (* only the empty byte string has size 0 *)
        destruct v; cbn [value_size] in Hz; try lia. apply list_len0 in Hz. subst l.
        cbn [read_op step value_size]. change (len (@nil Z)) with 0.
        unfold read_bytes, set_cur. cbn [bst cur oth].
        rewrite (good_bytes_zero d s (rpos c) true G ltac:(lia)).
        cbn [option_bind fst snd br_data br_nil br_err nil_res]. change (len (@nil Z)) with 0.
        rewrite He. cbn. exists s, (VData true []). rewrite Z.add_0_r in *. repeat split; auto.
      - assert (Hw : 0 < value_size v) by lia.
        destruct (typed_read_in_range d s c o (read_op v) G ltac:(lia) (typed_read_op v Hw)
                    ltac:(rewrite op_width_read_op; lia)) as (s1 & S1 & G1 & RA1).
        rewrite op_width_read_op in *. rewrite Hslice, He in S1.
        exists s1, (read_value (read_op v) (rlittle c) (enc_value (rlittle c) v)).
        repeat split; auto. apply read_value_returns. exact Hv1. }
    destruct Hstep as (s1 & ob & S1 & Ret & G1 & RA1).
    destruct (IH (pre ++ enc_value (rlittle c) v) post s1
                 (mkReader (rpos c + value_size v) 0 (rlittle c)) o d) as (s' & outs & R & F2 & G' & RA');
      cbn [rpos rlittle rerr]; auto.
    { unfold d. rewrite <- app_assoc. reflexivity. }
    { rewrite len_app, enc_value_len. lia. }
    exists s', (ob :: outs). cbn [map run]. rewrite S1. cbn [option_bind fst snd].
    rewrite R. cbn [option_bind fst snd]. cbn [values_size].
    rewrite len_app, enc_value_len in *.
    replace (len pre + (value_size v + values_size vs)) with (len pre + value_size v + values_size vs) by lia.
    repeat split; auto. congruence.
Qed.

Lemma run_app {S : Type} (B : backend S) a : forall b st st1 o1,
  run B st a = Some (st1, o1) ->
  run B st (a ++ b) = match run B st1 b with Some (st2, o2) => Some (st2, o1 ++ o2) | None => None end.
Proof.
  induction a as [|x a IH]; intros b st st1 o1 H; cbn [run app] in *.
  - inversion H; subst. destruct (run B st1 b) as [[? ?]|]; reflexivity.
  - destruct (step B st x) as [[st' v]|]; [|discriminate]. cbn [option_bind fst snd] in *.
    destruct (run B st' a) as [[st'' vs]|] eqn:E; [|discriminate]. cbn [option_bind fst snd] in H.
    inversion H; subst. rewrite (IH b st' st1 vs E).
    destruct (run B st1 b) as [[? ?]|]; reflexivity.
Qed.

Theorem write_read_roundtrip_proof s little vs1 vs2 :
  healthy s (write_all little (vs1 ++ vs2)) -> Forall valid_value vs1 ->
  exists st' outs,
    run any_backend (new_sys s) (OOrder little :: map read_op vs1 ++ [OPos; OLen; OErr]) =
      Some (st', VNone :: outs ++ [VInt (values_size vs1); VInt (values_size vs2); VInt 0]) /\
    Forall2 returns outs vs1.
Proof.
  intros H Hv. rewrite write_all_enc, enc_all_app in H.
  set (d := enc_all little vs1 ++ enc_all little vs2) in *.
  pose proof (healthy_good s d H) as G.
  destruct (roundtrip_run little vs1 [] (enc_all little vs2) s (mkReader 0 0 little) (mkReader 0 0 false) d)
    as (s' & outs & R & F2 & G' & RA); cbn [rpos rerr rlittle app]; auto.
  change (len (@nil Z)) with 0 in *. rewrite Z.add_0_l in *.
  pose proof (good_len d s' _ G') as HL.
  eexists _, outs. split; [|exact F2].
  cbn [run step new_sys cur bst oth rpos rerr rlittle]. unfold set_cur. cbn [bst oth option_bind fst snd].
  rewrite (run_app any_backend _ _ _ _ _ R).
  cbn [run step cur bst oth rpos rerr option_bind fst snd]. rewrite HL.
  unfold d. rewrite len_app, !len_enc_all.
  replace (values_size vs1 + values_size vs2 - values_size vs1) with (values_size vs2) by lia.
  reflexivity.
Qed.

(* ---- every reachable state can serve the data: the invariant of all supported histories ------------------ *)
Definition inv (d : list Z) (st : sys bstate) : Prop :=
  good d (bst st) (rpos (cur st)) /\ 0 <= rpos (cur st) /\ 0 <= rpos (oth st).

Lemma bbytes_inv d s p bnil n s' r :
  good d s p -> 0 <= n -> 0 <= p -> bbytes any_backend s bnil n p = Some (s', r) ->
  good d s' (p + len (br_data r)) /\ random_access s' = random_access s.
Proof.
  intros G Hn Hp H.
  destruct (bbytes_agree d s p bnil n G Hn Hp) as (s1 & r1 & rb & E & _ & _ & _ & _ & G' & RA).
  rewrite E in H. inversion H; subst. auto.
Qed.

Lemma read_bytes_inv d s c o n st' r :
  good d s (rpos c) -> 0 <= n -> 0 <= rpos c -> 0 <= rpos o ->
  read_bytes any_backend (mkSys s c o) n = Some (st', r) ->
  inv d st' /\ random_access (bst st') = random_access s.
Proof.
  intros G Hn Hp Ho H. unfold read_bytes, set_cur in H. cbn [bst cur oth] in H.
  destruct (bbytes any_backend s true n (rpos c)) as [[s1 r1]|] eqn:E; [|discriminate].
  cbn [option_bind fst snd] in H. inversion H; subst.
  destruct (bbytes_inv d s (rpos c) true n s1 r G Hn Hp E) as (G' & RA).
  unfold inv. cbn [bst cur oth rpos]. pose proof (len_nonneg (br_data r)). repeat split; auto. lia.
Qed.

Lemma step_inv d st o st' v :
  inv d st -> allowed (random_access (bst st)) o -> step any_backend st o = Some (st', v) ->
  inv d st' /\ random_access (bst st') = random_access (bst st).
Proof.
  intros (G & P1 & P2) Hal H. destruct st as [s c oo]. cbn [bst cur oth] in *.
  assert (Hfix : forall w dec x, 0 <= w -> read_fixed any_backend (mkSys s c oo) w dec = Some (st', x) ->
                 inv d st' /\ random_access (bst st') = random_access s).
  { intros w dec x Hw Hr. unfold read_fixed in Hr.
    destruct (read_bytes any_backend (mkSys s c oo) w) as [[s1 r1]|] eqn:E; [|discriminate].
    cbn [option_bind fst snd] in Hr. inversion Hr; subst. eapply read_bytes_inv; eauto. }
  assert (Hu8 : forall x, read_u8 any_backend (mkSys s c oo) = Some (st', x) ->
                 inv d st' /\ random_access (bst st') = random_access s).
  { intros x Hr. unfold read_u8 in Hr.
    destruct (read_bytes any_backend (mkSys s c oo) 1) as [[s1 r1]|] eqn:E; [|discriminate].
    cbn [option_bind fst snd] in Hr.
    assert (st' = s1).
    { destruct (len (br_data r1) <? 1); [inversion Hr; reflexivity|].
      destruct (peekz (br_data r1) 0); [inversion Hr; reflexivity|discriminate]. }
    subst. eapply (read_bytes_inv d s c oo 1); eauto; lia. }
  destruct o; cbn [allowed] in Hal; cbn [step cur bst oth] in H.
  - rewrite seek_factor in H. inversion H; subst. cbn [bst cur oth].
    destruct (seek_pure_props (blen any_backend s) c off whence) as (A1 & A2 & A3).
    split; [|reflexivity]. unfold inv. cbn [bst cur oth]. repeat split; auto.
    + eapply good_ra; eauto.
    + apply A3; auto. rewrite (good_len d s _ G). apply len_nonneg.
  - destruct (bbytes any_backend s false n (rpos c)) as [[s1 r1]|] eqn:E; [|discriminate].
    cbn [option_bind fst snd] in H. inversion H; subst. unfold set_cur. cbn [bst cur oth].
    destruct (bbytes_inv d s (rpos c) false n s1 r1 G Hal P1 E) as (G' & RA).
    unfold inv. cbn [bst cur oth rpos]. pose proof (len_nonneg (br_data r1)). repeat split; auto. lia.
  - destruct Hal as (Hra & Hn & Hoff).
    destruct (bbytes any_backend s false n off) as [[s1 r1]|] eqn:E; [|discriminate].
    cbn [option_bind fst snd] in H. inversion H; subst. unfold set_cur. cbn [bst cur oth].
    destruct (bbytes_inv d s off false n s1 r1 (good_ra d s _ off Hra G) Hn Hoff E) as (G' & RA).
    unfold inv. cbn [bst cur oth]. repeat split; auto. eapply good_ra; [congruence|exact G'].
  - destruct (read_bytes any_backend (mkSys s c oo) n) as [[s1 r1]|] eqn:E; [|discriminate].
    cbn [option_bind fst snd] in H. inversion H; subst. eapply read_bytes_inv; eauto.
  - destruct (read_bytes any_backend (mkSys s c oo) 1) as [[s1 r1]|] eqn:E; [|discriminate].
    cbn [option_bind fst snd] in H.
    assert (st' = s1).
    { destruct (len (br_data r1) <? 1); [inversion H; reflexivity|].
      destruct (peekz (br_data r1) 0); [inversion H; reflexivity|discriminate]. }
    subst. eapply (read_bytes_inv d s c oo 1); eauto; lia.
  - destruct (read_u8 any_backend (mkSys s c oo)) as [[s1 x]|] eqn:E; [|discriminate].
    cbn [option_bind fst snd] in H. inversion H; subst. eapply Hu8; eauto.
  - eapply (Hfix 2); eauto; lia.
  - eapply (Hfix 3); eauto; lia.
  - eapply (Hfix 4); eauto; lia.
  - eapply (Hfix 8); eauto; lia.
  - destruct (read_u8 any_backend (mkSys s c oo)) as [[s1 x]|] eqn:E; [|discriminate].
    cbn [option_bind fst snd] in H. inversion H; subst. eapply Hu8; eauto.
  - eapply (Hfix 2); eauto; lia.
  - eapply (Hfix 3); eauto; lia.
  - eapply (Hfix 4); eauto; lia.
  - eapply (Hfix 8); eauto; lia.
  - inversion H; subst. unfold inv; cbn [bst cur oth]; auto.
  - inversion H; subst. unfold inv; cbn [bst cur oth]; auto.
  - inversion H; subst. unfold inv; cbn [bst cur oth]; auto.
  - inversion H; subst. unfold inv, set_cur; cbn [bst cur oth rpos]; auto.
  - inversion H; subst. unfold inv; cbn [bst cur oth]; auto.
  - inversion H; subst. unfold inv; cbn [bst cur oth]. repeat split; auto. eapply good_ra; eauto.
  - tauto.
  - inversion H; subst. unfold inv; cbn [bst cur oth]; auto.
  - destruct (read_bytes any_backend (mkSys s c oo) n) as [[s1 r1]|] eqn:E; [|discriminate].
    cbn [option_bind fst snd] in H. inversion H; subst. eapply read_bytes_inv; eauto.
Qed.

Lemma run_inv d ops : forall st st' outs,
  inv d st -> Forall (allowed (random_access (bst st))) ops -> run any_backend st ops = Some (st', outs) ->
  inv d st'.
Proof.
  induction ops as [|o rest IH]; intros st st' outs Hi Hal H; cbn [run] in H.
  - inversion H; subst. exact Hi.
  - inversion Hal as [|? ? Ho Hrest]; subst.
    destruct (step any_backend st o) as [[st1 v]|] eqn:E; [|discriminate]. cbn [option_bind fst snd] in H.
    destruct (run any_backend st1 rest) as [[st2 vs]|] eqn:E2; [|discriminate]. cbn [option_bind fst snd] in H.
    inversion H; subst.
    destruct (step_inv d st o st1 v Hi Ho E) as (Hi1 & RA). rewrite <- RA in Hrest. eapply IH; eauto.
Qed.

Lemma reachable_inv d st : reachable d st -> inv d st.
Proof.
  induction 1 as [s H|st o st' v _ IH Hal Hs].
  - unfold inv, new_sys. cbn [bst cur oth rpos]. split; [apply healthy_good; exact H|lia].
  - eapply step_inv; eauto.
Qed.

Lemma typed_allowed ra op : typed_read op -> allowed ra op.
Proof. destruct op; cbn [typed_read allowed]; intros; try tauto; lia. Qed.

(* ---- Err() stays nil until a read needs a byte at an index >= len d; then zero values and io.EOF --------- *)
Theorem eof_exactly_past_end_proof d st op :
  reachable d st -> typed_read op ->
  let p := rpos (cur st) in
  let w := op_width op in
  exists st' v,
    step any_backend st op = Some (st', v) /\ reachable d st' /\
    (p + w <= len d ->
       v = read_value op (rlittle (cur st)) (slice d p (p + w)) /\
       rpos (cur st') = p + w /\ rerr (cur st') = rerr (cur st)) /\
    (len d < p + w ->
       zero_obs op (slice d p (p + w)) (rerr (cur st')) v /\
       rpos (cur st') = Z.max p (len d) /\
       rerr (cur st') = (if rerr (cur st) =? 0 then E_EOF else rerr (cur st))).
Proof.
  intros Hr Ht. cbn zeta. destruct (reachable_inv d st Hr) as (G & P1 & P2).
  pose proof (typed_width op Ht) as Hw. pose proof (len_nonneg d) as Hd.
  assert (Hreach : forall st' v, step any_backend st op = Some (st', v) -> reachable d st').
  { intros st' v Hs. eapply R_step; eauto. apply typed_allowed. exact Ht. }
  destruct st as [s c o]. cbn [bst cur oth] in *.
  destruct (Z.le_gt_cases (rpos c + op_width op) (len d)) as [Hin|Hout].
  - destruct (typed_read_in_range d s c o op G P1 Ht Hin) as (s' & S1 & G' & RA).
    eexists _, _. split; [exact S1|]. split; [eapply Hreach; exact S1|].
    cbn [cur rpos rerr]. split; [auto|intros; lia].
  - destruct (typed_read_past_end d s c o op G P1 Ht Hout) as (s' & v & S1 & Z0 & G' & RA).
    eexists _, _. split; [exact S1|]. split; [eapply Hreach; exact S1|].
    cbn [cur rpos rerr]. split; [intros; lia|]. intros _.
    split; [exact Z0|]. split; [|reflexivity].
    rewrite len_slice_gen by lia. lia.
Qed.

Lemma eof_err_nonzero e : (if e =? 0 then E_EOF else e) <> 0.
Proof. destruct (Z.eqb_spec e 0); [discriminate|assumption]. Qed.

Lemma eof_err_idem e : e <> 0 -> (if e =? 0 then E_EOF else e) = e.
Proof. intros H. destruct (Z.eqb_spec e 0); [contradiction|reflexivity]. Qed.

(* once the reader stands at or past the end, every further typed read returns the zero value, leaves the
   position where it is and Err() is io.EOF (or the earlier error) for good *)
Theorem eof_sticky_proof d : forall ops st,
  reachable d st -> len d <= rpos (cur st) -> Forall typed_read ops ->
  let e := if rerr (cur st) =? 0 then E_EOF else rerr (cur st) in
  exists st' outs,
    run any_backend st ops = Some (st', outs) /\ reachable d st' /\
    Forall2 (fun o v => zero_obs o [] e v) ops outs /\
    rpos (cur st') = rpos (cur st) /\ (ops <> [] -> rerr (cur st') = e).
Proof.
  induction ops as [|op rest IH]; intros st Hr Hp Ht; cbn zeta.
  - exists st, []. cbn [run]. repeat split; auto. congruence.
  - inversion Ht as [|? ? Ht1 Htr]; subst.
    destruct (eof_exactly_past_end_proof d st op Hr Ht1) as (st1 & v & S1 & Hr1 & _ & Hout).
    pose proof (typed_width op Ht1) as Hw. pose proof (len_nonneg d) as Hd.
    destruct (reachable_inv d st Hr) as (_ & P1 & _).
    destruct (Hout ltac:(lia)) as (Z0 & Hpos & Herr).
    rewrite slice_past in Z0 by lia. rewrite Z.max_l in Hpos by lia.
    destruct (IH st1 Hr1 ltac:(lia) Htr) as (st' & outs & R & Hr' & F2 & Hpos' & Herr').
    cbn zeta in *. rewrite Herr in F2, Herr'. rewrite eof_err_idem in F2, Herr' by apply eof_err_nonzero.
    exists st', (v :: outs). cbn [run]. rewrite S1. cbn [option_bind fst snd]. rewrite R.
    cbn [option_bind fst snd]. split; [reflexivity|]. split; [exact Hr'|].
    split; [constructor; [rewrite <- Herr; exact Z0|exact F2]|]. split; [lia|].
    intros _. destruct rest as [|o2 rest'].
    + cbn [run] in R. inversion R; subst. exact Herr.
    + apply Herr'. discriminate.
Qed.

(* ---- the mmap backend is the in-memory backend (until it is closed) ------------------------------------------ *)
Lemma bytes_bytes_total d bnil n off : exists r, bytes_bytes d bnil n off = Some (d, r).
Proof.
  unfold bytes_bytes.
  repeat match goal with |- context [if ?b then _ else _] => destruct b end; eexists; reflexivity.
Qed.

Lemma bbytes_mmap d sz bnil n off :
  exists r, bbytes any_backend (SBytes d) bnil n off = Some (SBytes d, r) /\
            bbytes any_backend (SMmap (mkM (Some d) sz)) bnil n off = Some (SMmap (mkM (Some d) sz), r).
Proof.
  destruct (bytes_bytes_total d bnil n off) as (r & E). exists r.
  cbn [bbytes any_backend]. rewrite (mmap_bytes_eq d sz bnil n off), E. split; reflexivity.
Qed.

Definition as_mmap (d : list Z) (x : sys bstate * obs) : sys bstate * obs :=
  (mkSys (SMmap (mkM (Some d) (len d))) (cur (fst x)) (oth (fst x)), snd x).

Lemma step_mmap d c o op :
  no_close op ->
  step any_backend (mkSys (SMmap (mkM (Some d) (len d))) c o) op =
    option_map (as_mmap d) (step any_backend (mkSys (SBytes d) c o) op) /\
  (forall st' v, step any_backend (mkSys (SBytes d) c o) op = Some (st', v) -> bst st' = SBytes d).
Proof.
  intros Hnz.
  assert (RB : forall n, exists r,
     read_bytes any_backend (mkSys (SBytes d) c o) n =
       Some (mkSys (SBytes d) (mkReader (rpos c + len (br_data r)) (if rerr c =? 0 then br_err r else rerr c) (rlittle c)) o, r) /\
     read_bytes any_backend (mkSys (SMmap (mkM (Some d) (len d))) c o) n =
       Some (mkSys (SMmap (mkM (Some d) (len d))) (mkReader (rpos c + len (br_data r)) (if rerr c =? 0 then br_err r else rerr c) (rlittle c)) o, r)).
  { intros n. destruct (bbytes_mmap d (len d) true n (rpos c)) as (r & E1 & E2). exists r.
    unfold read_bytes, set_cur. cbn [bst cur oth]. rewrite E1, E2. split; reflexivity. }
  destruct op; cbn [no_close] in Hnz; try tauto; cbn [step]; unfold read_fixed, read_u8;
    try (match goal with |- context [read_bytes any_backend _ ?n] =>
           destruct (RB n) as (r & E1 & E2); rewrite E1, E2 end;
         cbn [option_bind fst snd option_map as_mmap cur oth];
         repeat match goal with |- context [if ?b then _ else _] => destruct b end;
         repeat match goal with |- context [peekz ?l ?i] => destruct (peekz l i) end;
         cbn [option_bind fst snd option_map as_mmap cur oth];
         (split; [reflexivity|]); intros st' v H; inversion H; reflexivity).
  - rewrite !seek_factor. cbn [blen any_backend msize option_map as_mmap fst snd cur oth].
    split; [reflexivity|]. intros st' v H; inversion H; reflexivity.
  - destruct (bbytes_mmap d (len d) false n (rpos c)) as (r & E1 & E2). cbn [cur bst]. rewrite E1, E2.
    cbn [option_bind fst snd option_map as_mmap cur oth set_cur]. unfold set_cur. cbn [oth cur bst].
    split; [reflexivity|]. intros st' v H; inversion H; reflexivity.
  - destruct (bbytes_mmap d (len d) false n off) as (r & E1 & E2). cbn [cur bst]. rewrite E1, E2.
    cbn [option_bind fst snd option_map as_mmap cur oth set_cur]. unfold set_cur. cbn [oth cur bst].
    split; [reflexivity|]. intros st' v H; inversion H; reflexivity.
  - cbn [option_map as_mmap fst snd cur oth]. split; [reflexivity|]. intros st' v H; inversion H; reflexivity.
  - cbn [option_map as_mmap fst snd cur oth bst blen any_backend msize]. split; [reflexivity|]. intros st' v H; inversion H; reflexivity.
  - cbn [option_map as_mmap fst snd cur oth]. split; [reflexivity|]. intros st' v H; inversion H; reflexivity.
  - cbn [option_map as_mmap fst snd cur oth]. unfold set_cur. cbn [cur oth bst]. split; [reflexivity|]. intros st' v H; inversion H; reflexivity.
  - cbn [option_map as_mmap fst snd cur oth bst]. split; [reflexivity|]. intros st' v H; inversion H; reflexivity.
  - cbn [option_map as_mmap fst snd cur oth bst]. split; [reflexivity|]. intros st' v H; inversion H; reflexivity.
  - cbn [option_map as_mmap fst snd cur oth]. split; [reflexivity|]. intros st' v H; inversion H; reflexivity.
Qed.

Lemma run_mmap d ops : forall c o,
  Forall no_close ops ->
  run any_backend (mkSys (SMmap (mkM (Some d) (len d))) c o) ops =
  match run any_backend (mkSys (SBytes d) c o) ops with
  | Some (st', outs) => Some (mkSys (SMmap (mkM (Some d) (len d))) (cur st') (oth st'), outs)
  | None => None
  end.
Proof.
  induction ops as [|op rest IH]; intros c o Hnz; cbn [run]; [reflexivity|].
  inversion Hnz as [|? ? H1 Hr]; subst.
  destruct (step_mmap d c o op H1) as (E & Hb). rewrite E.
  destruct (step any_backend (mkSys (SBytes d) c o) op) as [[st1 v]|] eqn:S1; cbn [option_map option_bind]; [|reflexivity].
  specialize (Hb st1 v eq_refl). destruct st1 as [b1 c1 o1]. cbn [bst] in Hb. subst b1.
  cbn [as_mmap fst snd cur oth]. rewrite (IH c1 o1 Hr).
  destruct (run any_backend (mkSys (SBytes d) c1 o1) rest) as [[st2 outs]|]; reflexivity.
Qed.

Theorem mmap_bytes_identical_proof d ops :
  Forall no_close ops ->
  run any_backend (new_sys (SMmap (mmap_open d))) ops =
  match run any_backend (new_sys (SBytes d)) ops with
  | Some (st', outs) => Some (mkSys (SMmap (mmap_open d)) (cur st') (oth st'), outs)
  | None => None
  end.
Proof. intros H. unfold new_sys, mmap_open. apply run_mmap. exact H. Qed.

(* ---- Read and ReadAt (io.Reader, io.ReaderAt) on every reachable state ------------------------------------ *)
Lemma bbytes_exact d s p bnil n :
  good d s p -> 0 <= n -> 0 <= p ->
  exists s' r,
    bbytes any_backend s bnil n p = Some (s', r) /\
    br_data r = slice d p (p + n) /\
    br_err r = (if (0 <? n) && (len d <? p + n) then E_EOF else E_NIL) /\
    good d s' (p + len (br_data r)) /\ random_access s' = random_access s.
Proof.
  intros G Hn Hp.
  destruct (bbytes_agree d s p bnil n G Hn Hp) as (s' & r & rb & E & Eb & D & Er & _ & G' & RA).
  exists s', r. split; [exact E|]. rewrite D, Er. split; [|split; [|rewrite <- D; auto]].
  - destruct (Z.eq_dec n 0) as [->|Hn0].
    + rewrite bytes_bytes_zero in Eb by exact Hp. inversion Eb; subst. cbn [br_data nil_res].
      rewrite slice_alt. symmetry. apply firstz_nonpos. lia.
    + destruct (bytes_bytes_pos d bnil n p ltac:(lia) Hp) as (rb' & Eb' & Db & _). congruence.
  - destruct (Z.eq_dec n 0) as [->|Hn0].
    + rewrite bytes_bytes_zero in Eb by exact Hp. inversion Eb; subst. reflexivity.
    + destruct (bytes_bytes_pos d bnil n p ltac:(lia) Hp) as (rb' & Eb' & _ & Erb & _).
      replace rb with rb' by congruence. rewrite Erb.
      replace (0 <? n) with true by (symmetry; apply Z.ltb_lt; lia). cbn [andb].
      destruct (Z.leb_spec (p + n) (len d)); destruct (Z.ltb_spec (len d) (p + n)); try reflexivity; lia.
Qed.

Theorem read_spec_proof d st n :
  reachable d st -> 0 <= n ->
  let p := rpos (cur st) in
  let data := slice d p (p + n) in
  exists st',
    step any_backend st (ORead n) =
      Some (st', VRead (len data) (if (0 <? n) && (len d <? p + n) then E_EOF else E_NIL) data) /\
    reachable d st' /\ rpos (cur st') = p + len data /\ rerr (cur st') = rerr (cur st) /\ oth st' = oth st.
Proof.
  intros Hr Hn. cbn zeta. destruct (reachable_inv d st Hr) as (G & P1 & P2).
  destruct (bbytes_exact d (bst st) (rpos (cur st)) false n G Hn P1) as (s' & r & E & D & Er & G' & RA).
  assert (S1 : step any_backend st (ORead n) =
    Some (set_cur st s' (mkReader (rpos (cur st) + len (br_data r)) (rerr (cur st)) (rlittle (cur st))),
          VRead (len (br_data r)) (br_err r) (br_data r))).
  { cbn [step]. rewrite E. reflexivity. }
  eexists. rewrite <- D, <- Er. split; [exact S1|]. split.
  - eapply R_step; [exact Hr| |exact S1]. exact Hn.
  - unfold set_cur. cbn [cur oth rpos rerr]. auto.
Qed.

Theorem readat_spec_proof d st n off :
  reachable d st -> random_access (bst st) = true -> 0 <= n -> 0 <= off ->
  let data := slice d off (off + n) in
  exists st',
    step any_backend st (OReadAt n off) =
      Some (st', VRead (len data) (if (0 <? n) && (len d <? off + n) then E_EOF else E_NIL) data) /\
    reachable d st' /\ cur st' = cur st /\ oth st' = oth st.
Proof.
  intros Hr Hra Hn Hoff. cbn zeta. destruct (reachable_inv d st Hr) as (G & P1 & P2).
  destruct (bbytes_exact d (bst st) off false n (good_ra d _ _ off Hra G) Hn Hoff) as (s' & r & E & D & Er & G' & RA).
  assert (S1 : step any_backend st (OReadAt n off) =
    Some (set_cur st s' (cur st), VRead (len (br_data r)) (br_err r) (br_data r))).
  { cbn [step]. rewrite E. reflexivity. }
  eexists. rewrite <- D, <- Er. split; [exact S1|]. split.
  - eapply R_step; [exact Hr| |exact S1]. cbn [allowed]. auto.
  - unfold set_cur. cbn [cur oth]. auto.
Qed.

(* ---- the three repaired deviations, now positive ---------------------------------------------------------------- *)
(* f2080b8: the 8-bit reads at or past the end return 0 with io.EOF on every backend *)
Theorem read8_past_end_all_backends_proof d st op :
  reachable d st -> (op = OU8 \/ op = OI8 \/ op = OReadByte) -> len d <= rpos (cur st) ->
  let e := if rerr (cur st) =? 0 then E_EOF else rerr (cur st) in
  exists st',
    step any_backend st op = Some (st', match op with OReadByte => VIntErr 0 e | _ => VInt 0 end) /\
    reachable d st' /\ rpos (cur st') = rpos (cur st) /\ rerr (cur st') = e.
Proof.
  intros Hr Hop Hp. cbn zeta.
  assert (Ht : typed_read op) by (destruct Hop as [->|[->| ->]]; exact I).
  assert (Hw : op_width op = 1) by (destruct Hop as [->|[->| ->]]; reflexivity).
  destruct (eof_exactly_past_end_proof d st op Hr Ht) as (st' & v & S1 & Hr' & _ & Hout).
  cbn zeta in Hout. rewrite Hw in Hout. pose proof (len_nonneg d).
  destruct (reachable_inv d st Hr) as (_ & P1 & _).
  destruct (Hout ltac:(lia)) as (Z0 & Hpos & Herr).
  exists st'. rewrite Z.max_l in Hpos by lia. rewrite <- Herr.
  split; [|auto]. rewrite S1. f_equal. f_equal.
  destruct Hop as [->|[->| ->]]; cbn [zero_obs] in Z0; exact Z0.
Qed.

Theorem read8_past_end_streams_proof :
  option_map snd (run any_backend (new_sys (SReader (mkR [7] [] false E_EOF 0 1))) [OU8; OErr; OU8; OErr]) =
    Some [VInt 7; VInt 0; VInt 0; VInt E_EOF] /\
  option_map snd (run any_backend (new_sys (SSeeker (mkK [7] [] false E_EOF 1 false true))) [OU8; OErr; OReadByte; OErr]) =
    Some [VInt 7; VInt 0; VIntErr 0 E_EOF; VInt E_EOF] /\
  option_map snd (run any_backend (new_sys (SReaderAt (mkA [7] [] false E_EOF 1))) [OU8; OErr; OI8; OErr]) =
    Some [VInt 7; VInt 0; VInt 0; VInt E_EOF].
Proof. repeat split; vm_compute; reflexivity. Qed.

(* 4fcdee5: a source that delivers io.EOF together with the last bytes is a healthy source: every theorem
   about healthy sources covers it; the former witness now leaves Err() = nil *)
Theorem eof_with_last_bytes_proof :
  (forall d sched closer, tame_sched sched ->
     healthy (SReader (mkR d sched true E_EOF 0 (len d))) d /\
     healthy (SSeeker (mkK d sched true E_EOF (len d) false closer)) d /\
     healthy (SReaderAt (mkA d [] true E_EOF (len d))) d) /\
  option_map snd (run any_backend (new_sys (SReader (mkR [1; 2] [] true E_EOF 0 2))) [OU16; OErr; OPos; OLen; OU8; OErr]) =
    Some [VInt 258; VInt 0; VInt 2; VInt 0; VInt 0; VInt E_EOF] /\
  option_map snd (run any_backend (new_sys (SSeeker (mkK [1; 2] [] true E_EOF 2 false false))) [OU16; OErr]) =
    Some [VInt 258; VInt 0] /\
  option_map snd (run any_backend (new_sys (SReaderAt (mkA [1; 2] [] true E_EOF 2))) [OU16; OErr]) =
    Some [VInt 258; VInt 0].
Proof.
  split.
  - intros d sched closer Hs. split; [apply H_reader; exact Hs|]. split; [apply H_seeker; exact Hs|apply H_readerat].
  - repeat split; vm_compute; reflexivity.
Qed.

(* c003402: a memory map is a healthy source, empty byte strings included; the former witness leaves Err() = nil *)
Theorem mmap_empty_read_at_end_proof :
  (forall d, healthy (SMmap (mmap_open d)) d) /\
  option_map snd (run any_backend (new_sys (SMmap (mmap_open [5]))) [OU8; OReadBytes 0; OErr]) =
    Some [VInt 5; VData true []; VInt 0] /\
  write_all false [VU8 5; VBytes []] = [5].
Proof. split; [exact H_mmap|]. split; vm_compute; reflexivity. Qed.

(* f857ad9: (0, nil) reads are retried.  A script whose runs of empty reads are shorter than 100 is a healthy
   source; the former witnesses now return the values *)
Theorem zero_length_reads_retried_proof :
  tame_sched [1; 0] /\ tame_sched [0] /\ tame_sched (repeat 0 99 ++ [1] ++ repeat 0 99 ++ [2]) /\
  option_map snd (run any_backend (new_sys (SReader (mkR [1; 2; 3] [1; 0] false E_EOF 0 3))) [OU16; OErr; OPos]) =
    Some [VInt 258; VInt 0; VInt 2] /\
  option_map snd (run any_backend (new_sys (SSeeker (mkK [1; 2; 3] [0] false E_EOF 3 false false))) [OU8; OErr; OPos]) =
    Some [VInt 1; VInt 0; VInt 1] /\
  option_map snd (run any_backend (new_sys (SReader (mkR [1; 2; 3] (repeat 0 99 ++ [1] ++ repeat 0 99 ++ [2]) false E_EOF 0 3)))
                    [OU24; OErr; OPos]) = Some [VInt 66051; VInt 0; VInt 3].
Proof.
  split; [vm_compute; repeat split|]. split; [vm_compute; repeat split|]. split; [vm_compute; repeat split|].
  repeat split; vm_compute; reflexivity.
Qed.

(* the give-up case: the 100th consecutive empty read ends the request with io.ErrNoProgress; nothing is
   delivered, the 100 script entries are consumed, the source keeps its data *)
Lemma read_loop_gives_up : forall j fuel rem t ewl fe need empty acc,
  rem <> [] -> 0 < need -> 0 <= empty -> empty + Z.of_nat j = MAX_EMPTY -> (1 <= j <= fuel)%nat ->
  read_loop fuel rem (repeat 0 j ++ t) ewl fe need empty acc = mkRd acc rem t E_NOPROGRESS.
Proof.
  unfold MAX_EMPTY.
  induction j as [|j IH]; intros fuel rem t ewl fe need empty acc Hrem Hn He Hsum Hj; [lia|].
  destruct fuel as [|f]; [lia|]. cbn [read_loop repeat app].
  replace (need <=? 0) with false by (symmetry; apply Z.leb_gt; lia).
  destruct rem as [|x xs]; [contradiction|]. set (rem := x :: xs) in *.
  assert (Hl : 1 <= len rem) by (unfold rem; rewrite len_cons; pose proof (len_nonneg xs); lia).
  assert (Hsr : src_read rem (0 :: repeat 0 j ++ t) ewl fe need = mkRd [] rem (repeat 0 j ++ t) E_NIL).
  { unfold rem at 1. cbn [src_read tl]. fold rem.
    replace (Z.min (Z.min 0 need) (len rem)) with 0 by lia.
    change (firstz 0 rem) with (@nil Z). change (skipz 0 rem) with rem.
    replace (len rem =? 0) with false by (symmetry; apply Z.eqb_neq; lia). reflexivity. }
  rewrite Hsr. cbn [rd_out rd_rem rd_sched rd_err].
  change (E_NIL =? E_EOF) with false. cbn [andb]. change (E_NIL =? 0) with true. cbn [negb].
  change (len (@nil Z)) with 0. change (0 <? 0) with false. cbv iota. rewrite app_nil_r.
  unfold MAX_EMPTY.
  destruct j as [|j'].
  - replace (100 <=? empty + 1) with true by (symmetry; apply Z.leb_le; lia). reflexivity.
  - replace (100 <=? empty + 1) with false by (symmetry; apply Z.leb_gt; lia).
    apply IH; auto; lia.
Qed.

Theorem no_progress_gives_up_proof :
  (forall rem sched ewl fe pos size bnil n, rem <> [] -> 0 < n ->
     reader_bytes (mkR rem (repeat 0 100 ++ sched) ewl fe pos size) bnil n pos =
       Some (mkR rem sched ewl fe pos size, mkBR [] false E_NOPROGRESS)) /\
  (forall data sched ewl fe size closer bnil n off, 0 <= off < len data -> 0 < n ->
     seeker_bytes (mkK data (repeat 0 100 ++ sched) ewl fe size false closer) bnil n off =
       Some (mkK data sched ewl fe size false closer, mkBR [] false E_NOPROGRESS)) /\
  (* 100 empty reads, then the data: the first request gives up, Err() keeps io.ErrNoProgress, the next
     request is served *)
  option_map snd (run any_backend (new_sys (SReader (mkR [1; 2] (repeat 0 100) false E_EOF 0 2)))
                    [OU16; OErr; OPos; OU16; OErr; OPos]) =
    Some [VInt 0; VInt E_NOPROGRESS; VInt 0; VInt 258; VInt E_NOPROGRESS; VInt 2] /\
  (* 99 are tolerated *)
  option_map snd (run any_backend (new_sys (SReader (mkR [1; 2] (repeat 0 99) false E_EOF 0 2))) [OU16; OErr; OPos]) =
    Some [VInt 258; VInt 0; VInt 2].
Proof.
  split; [|split; [|split; vm_compute; reflexivity]].
  - intros rem sched ewl fe pos size bnil n Hrem Hn. unfold reader_bytes. cbn [r_pos r_rem r_sched r_ewl r_fe r_size].
    rewrite Z.eqb_refl. cbn [negb].
    replace (n =? 0) with false by (symmetry; apply Z.eqb_neq; lia).
    replace (n <? 0) with false by (symmetry; apply Z.ltb_ge; lia). rewrite andb_false_r.
    rewrite (read_loop_gives_up 100 (loop_fuel n) rem sched ewl fe n 0 []); auto; try lia.
    + cbn [rd_out rd_rem rd_sched rd_err]. change (len (@nil Z)) with 0. rewrite Z.add_0_r. reflexivity.
    + unfold loop_fuel. lia.
  - intros data sched ewl fe size closer bnil n off Hoff Hn. unfold seeker_bytes.
    cbn [k_data k_sched k_ewl k_fe k_size k_closed k_closer].
    replace (n =? 0) with false by (symmetry; apply Z.eqb_neq; lia).
    replace (n <? 0) with false by (symmetry; apply Z.ltb_ge; lia). rewrite andb_false_r.
    replace (off <? 0) with false by (symmetry; apply Z.ltb_ge; lia). cbn [orb].
    rewrite (read_loop_gives_up 100 (loop_fuel n) (skipz off data) sched ewl fe n 0 []); auto; try lia.
    + intros E. pose proof (len_skipz off data ltac:(lia)) as Hls. rewrite E in Hls.
      change (len (@nil Z)) with 0 in Hls. lia.
    + unfold loop_fuel. lia.
Qed.

(* ---- independence past the end ------------------------------------------------------------------------------- *)
Definition sim2 (d : list Z) (st : sys bstate) (sb : sys (list Z)) : Prop :=
  bst sb = d /\ cur st = cur sb /\ oth st = oth sb /\
  good d (bst st) (rpos (cur st)) /\ 0 <= rpos (cur st) /\ 0 <= rpos (oth st).

Lemma sim2_intro d s c o :
  good d s (rpos c) -> 0 <= rpos c -> 0 <= rpos o -> sim2 d (mkSys s c o) (mkSys d c o).
Proof. intros. unfold sim2. cbn [bst cur oth]. repeat split; auto. Qed.

Lemma step_sim2 d st sb o :
  sim2 d st sb -> allowed (random_access (bst st)) o ->
  exists st' sb' v vb,
    step any_backend st o = Some (st', v) /\ step bytes_backend sb o = Some (sb', vb) /\
    obs_eqv v vb /\ sim2 d st' sb' /\ random_access (bst st') = random_access (bst st).
Proof.
  intros Hsim Hal.
  destruct st as [s c oo], sb as [db cb ob]. unfold sim2 in Hsim. cbn [bst cur oth] in Hsim.
  destruct Hsim as (-> & <- & <- & G & P1 & P2). cbn [bst] in Hal.
  pose proof (good_len d s _ G) as HL.
  assert (HLb : blen bytes_backend d = len d) by reflexivity.
  assert (Hfix : forall w dec, 0 <= w ->
     exists st' sb' v,
       read_fixed any_backend (mkSys s c oo) w dec = Some (st', v) /\
       read_fixed bytes_backend (mkSys d c oo) w dec = Some (sb', v) /\
       sim2 d st' sb' /\ random_access (bst st') = random_access s).
  { intros w dec Hw.
    destruct (read_bytes_sim d s c oo w G Hw P1) as (s' & r & rb & R1 & R2 & D & Er & Nn & G' & RA).
    unfold read_fixed. rewrite R1, R2. cbn [option_bind fst snd cur]. rewrite D.
    eexists _, _, _. split; [reflexivity|]. split; [reflexivity|]. split; [|exact RA].
    apply sim2_intro; cbn [rpos]; auto. pose proof (len_nonneg (br_data rb)). lia. }
  assert (Hsame : forall st' sb' v, step any_backend (mkSys s c oo) o = Some (st', v) ->
                    step bytes_backend (mkSys d c oo) o = Some (sb', v) ->
                    sim2 d st' sb' -> random_access (bst st') = random_access s ->
                    exists st' sb' v vb,
                      step any_backend (mkSys s c oo) o = Some (st', v) /\
                      step bytes_backend (mkSys d c oo) o = Some (sb', vb) /\
                      obs_eqv v vb /\ sim2 d st' sb' /\ random_access (bst st') = random_access s).
  { intros st' sb' v A B C D. exists st', sb', v, v. split; [exact A|]. split; [exact B|]. split; [left; reflexivity|]. auto. }
  assert (Hu8 : exists st' sb' x,
       read_u8 any_backend (mkSys s c oo) = Some (st', x) /\
       read_u8 bytes_backend (mkSys d c oo) = Some (sb', x) /\
       sim2 d st' sb' /\ random_access (bst st') = random_access s).
  { destruct (read_bytes_sim d s c oo 1 G ltac:(lia) P1) as (s' & r & rb & R1 & R2 & D & Er & Nn & G' & RA).
    unfold read_u8. rewrite R1, R2. cbn [option_bind fst snd]. rewrite D.
    assert (Hs2 : sim2 d (mkSys s' (mkReader (rpos c + len (br_data rb)) (if rerr c =? 0 then br_err rb else rerr c) (rlittle c)) oo)
                         (mkSys d (mkReader (rpos c + len (br_data rb)) (if rerr c =? 0 then br_err rb else rerr c) (rlittle c)) oo)).
    { apply sim2_intro; cbn [rpos]; auto. pose proof (len_nonneg (br_data rb)). lia. }
    destruct (Z.ltb_spec (len (br_data rb)) 1) as [El|El].
    - eexists _, _, _. split; [reflexivity|]. split; [reflexivity|]. split; [exact Hs2|exact RA].
    - rewrite (peekz_getz (br_data rb) 0) by lia. cbn [option_bind].
      eexists _, _, _. split; [reflexivity|]. split; [reflexivity|]. split; [exact Hs2|exact RA]. }
  destruct o; cbn [allowed] in Hal; try tauto.
  - (* Seek *)
    eapply Hsame; cbn [step]; [rewrite seek_factor, HL; reflexivity|rewrite seek_factor, HLb; reflexivity| |reflexivity].
    destruct (seek_pure_props (len d) c off whence) as (A1 & A2 & A3).
    apply sim2_intro; auto. { eapply good_ra; eauto. } apply A3; [apply len_nonneg|exact P1].
  - (* Read *)
    destruct (bbytes_agree d s (rpos c) false n G Hal P1) as (s' & r & rb & E & Eb & D & Er & Nn & G' & RA).
    eapply Hsame; cbn [step cur bst]; cbn [bbytes bytes_backend];
      [rewrite E; reflexivity|rewrite Eb; cbn [option_bind fst snd]; rewrite <- D, <- Er; reflexivity| |exact RA].
    unfold set_cur. cbn [oth bst fst snd]. apply sim2_intro; cbn [rpos]; auto.
    pose proof (len_nonneg (br_data r)). lia.
  - (* ReadAt *)
    destruct Hal as (Hra & Hn & Hoff).
    destruct (bbytes_agree d s off false n (good_ra d s _ off Hra G) Hn Hoff) as (s' & r & rb & E & Eb & D & Er & Nn & G' & RA).
    eapply Hsame; cbn [step cur bst]; cbn [bbytes bytes_backend];
      [rewrite E; reflexivity|rewrite Eb; cbn [option_bind fst snd]; rewrite <- D, <- Er; reflexivity| |exact RA].
    unfold set_cur. cbn [oth bst fst snd]. apply sim2_intro; auto. eapply good_ra; [congruence|exact G'].
  - (* ReadBytes: the nil flag may differ *)
    destruct (read_bytes_sim d s c oo n G Hal P1) as (s' & r & rb & R1 & R2 & D & Er & Nn & G' & RA).
    cbn [step]. rewrite R1, R2. cbn [option_bind fst snd]. rewrite D.
    eexists _, _, _, _. split; [reflexivity|]. split; [reflexivity|]. split.
    { right. eexists _, _, _. split; reflexivity. }
    split; [|exact RA]. apply sim2_intro; cbn [rpos]; auto. pose proof (len_nonneg (br_data rb)). lia.
  - (* ReadByte *)
    destruct (read_bytes_sim d s c oo 1 G ltac:(lia) P1) as (s' & r & rb & R1 & R2 & D & Er & Nn & G' & RA).
    assert (Hs2 : sim2 d (mkSys s' (mkReader (rpos c + len (br_data rb)) (if rerr c =? 0 then br_err rb else rerr c) (rlittle c)) oo)
                         (mkSys d (mkReader (rpos c + len (br_data rb)) (if rerr c =? 0 then br_err rb else rerr c) (rlittle c)) oo)).
    { apply sim2_intro; cbn [rpos]; auto. pose proof (len_nonneg (br_data rb)). lia. }
    destruct (Z.ltb_spec (len (br_data rb)) 1) as [El|El].
    + eapply Hsame; cbn [step]; [rewrite R1; cbn [option_bind fst snd]; rewrite D;
        replace (len (br_data rb) <? 1) with true by (symmetry; apply Z.ltb_lt; lia); reflexivity
      |rewrite R2; cbn [option_bind fst snd];
        replace (len (br_data rb) <? 1) with true by (symmetry; apply Z.ltb_lt; lia); reflexivity
      |exact Hs2|exact RA].
    + eapply Hsame; cbn [step]; [rewrite R1; cbn [option_bind fst snd]; rewrite D;
        replace (len (br_data rb) <? 1) with false by (symmetry; apply Z.ltb_ge; lia);
        rewrite (peekz_getz (br_data rb) 0) by lia; reflexivity
      |rewrite R2; cbn [option_bind fst snd];
        replace (len (br_data rb) <? 1) with false by (symmetry; apply Z.ltb_ge; lia);
        rewrite (peekz_getz (br_data rb) 0) by lia; reflexivity
      |exact Hs2|exact RA].
  - (* U8 *)
    destruct Hu8 as (st' & sb' & x & A & B & C & D).
    eapply Hsame; cbn [step]; [rewrite A; reflexivity|rewrite B; reflexivity|exact C|exact D].
  - destruct (Hfix 2 dec_u16 ltac:(lia)) as (st' & sb' & v & A & B & C & D). eapply Hsame; eauto.
  - destruct (Hfix 3 dec_u24 ltac:(lia)) as (st' & sb' & v & A & B & C & D). eapply Hsame; eauto.
  - destruct (Hfix 4 dec_u32 ltac:(lia)) as (st' & sb' & v & A & B & C & D). eapply Hsame; eauto.
  - destruct (Hfix 8 dec_u64 ltac:(lia)) as (st' & sb' & v & A & B & C & D). eapply Hsame; eauto.
  - (* I8 *)
    destruct Hu8 as (st' & sb' & x & A & B & C & D).
    eapply Hsame; cbn [step]; [rewrite A; reflexivity|rewrite B; reflexivity|exact C|exact D].
  - destruct (Hfix 2 (fun l d0 => to_signed 16 (dec_u16 l d0)) ltac:(lia)) as (st' & sb' & v & A & B & C & D). eapply Hsame; eauto.
  - destruct (Hfix 3 (fun l d0 => sext24 (dec_u24 l d0)) ltac:(lia)) as (st' & sb' & v & A & B & C & D). eapply Hsame; eauto.
  - destruct (Hfix 4 (fun l d0 => to_signed 32 (dec_u32 l d0)) ltac:(lia)) as (st' & sb' & v & A & B & C & D). eapply Hsame; eauto.
  - destruct (Hfix 8 (fun l d0 => to_signed 64 (dec_u64 l d0)) ltac:(lia)) as (st' & sb' & v & A & B & C & D). eapply Hsame; eauto.
  - eapply Hsame; cbn [step]; [reflexivity|reflexivity|apply sim2_intro; auto|reflexivity].
  - eapply Hsame; cbn [step cur bst]; [rewrite HL; reflexivity|reflexivity|apply sim2_intro; auto|reflexivity].
  - eapply Hsame; cbn [step]; [reflexivity|reflexivity|apply sim2_intro; auto|reflexivity].
  - eapply Hsame; cbn [step]; [reflexivity|reflexivity|unfold set_cur; cbn [bst oth cur]; apply sim2_intro; auto|reflexivity].
  - eapply Hsame; cbn [step]; [reflexivity|reflexivity|apply sim2_intro; auto|reflexivity].
  - eapply Hsame; cbn [step]; [reflexivity|reflexivity|cbn [cur oth bst]; apply sim2_intro; auto; eapply good_ra; eauto|reflexivity].
  - eapply Hsame; cbn [step]; [reflexivity|reflexivity|apply sim2_intro; auto|reflexivity].
  - (* ReadString *)
    destruct (read_bytes_sim d s c oo n G Hal P1) as (s' & r & rb & R1 & R2 & D & Er & Nn & G' & RA).
    eapply Hsame; cbn [step]; [rewrite R1; cbn [option_bind fst snd]; rewrite D; reflexivity
                              |rewrite R2; reflexivity| |exact RA].
    apply sim2_intro; cbn [rpos]; auto. pose proof (len_nonneg (br_data rb)). lia.
Qed.

Theorem backend_independence_past_end_proof s d ops :
  healthy s d -> Forall (allowed (random_access s)) ops ->
  exists st' sb' outs outsb,
    run any_backend (new_sys s) ops = Some (st', outs) /\
    run bytes_backend (new_sys d) ops = Some (sb', outsb) /\
    Forall2 obs_eqv outs outsb /\ cur st' = cur sb' /\ oth st' = oth sb'.
Proof.
  intros H.
  assert (Hgen : forall ops st sb, sim2 d st sb -> Forall (allowed (random_access (bst st))) ops ->
            exists st' sb' outs outsb,
              run any_backend st ops = Some (st', outs) /\ run bytes_backend sb ops = Some (sb', outsb) /\
              Forall2 obs_eqv outs outsb /\ sim2 d st' sb').
  { clear ops. induction ops as [|o rest IH]; intros st sb Hsim Hal.
    - exists st, sb, [], []. cbn [run]. split; [reflexivity|]. split; [reflexivity|]. split; [constructor|exact Hsim].
    - inversion Hal as [|? ? Ho Hrest]; subst.
      destruct (step_sim2 d st sb o Hsim Ho) as (st1 & sb1 & v & vb & S1 & S2 & E & Hsim1 & RA).
      rewrite <- RA in Hrest.
      destruct (IH st1 sb1 Hsim1 Hrest) as (st' & sb' & outs & outsb & R1 & R2 & F2 & S').
      exists st', sb', (v :: outs), (vb :: outsb). cbn [run]. rewrite S1, S2. cbn [option_bind fst snd].
      rewrite R1, R2. cbn [option_bind fst snd]. split; [reflexivity|]. split; [reflexivity|].
      split; [constructor; assumption|exact S']. }
  intros Hal.
  destruct (Hgen ops (new_sys s) (new_sys d)) as (st' & sb' & outs & outsb & R1 & R2 & F2 & S'); auto.
  { unfold sim2, new_sys. cbn [bst cur oth rpos]. repeat split; auto; try lia. apply healthy_good. exact H. }
  exists st', sb', outs, outsb. destruct S' as (_ & A & B & _). auto.
Qed.

(* the full clause: over every script whose runs of empty reads are shorter than 100 the sequential and the
   seeking reader return what the in-memory backend returns, for every supported operation sequence *)
Theorem empty_reads_tolerated_proof d sched ewl closer ops :
  tame_sched sched ->
  (Forall (allowed false) ops ->
   exists st' sb' outs outsb,
     run any_backend (new_sys (SReader (mkR d sched ewl E_EOF 0 (len d)))) ops = Some (st', outs) /\
     run bytes_backend (new_sys d) ops = Some (sb', outsb) /\
     Forall2 obs_eqv outs outsb /\ cur st' = cur sb' /\ oth st' = oth sb') /\
  (Forall (allowed true) ops ->
   exists st' sb' outs outsb,
     run any_backend (new_sys (SSeeker (mkK d sched ewl E_EOF (len d) false closer))) ops = Some (st', outs) /\
     run bytes_backend (new_sys d) ops = Some (sb', outsb) /\
     Forall2 obs_eqv outs outsb /\ cur st' = cur sb' /\ oth st' = oth sb').
Proof.
  intros Ht. split; intros Hal.
  - apply backend_independence_past_end_proof; [apply H_reader; exact Ht|exact Hal].
  - apply backend_independence_past_end_proof; [apply H_seeker; exact Ht|exact Hal].
Qed.

(* ---- the constructors build healthy sources --------------------------------------------------------------------- *)
Theorem constructors_healthy_proof d sched :
  (forall ewl failing, construct CBytes d sched ewl failing = Some (SBytes d)) /\
  (forall n ewl failing, construct (CHasBytes n) d sched ewl failing = Some (SBytes d)) /\
  (forall ewl failing, exists s, construct CMmap d sched ewl failing = Some s /\ healthy s d) /\
  (forall ewl failing, exists s, construct (CFile (len d)) d sched ewl failing = Some s /\ healthy s d) /\
  (forall n ewl, n < 0 -> construct (CPlain n) d sched ewl false = Some (SBytes d)) /\
  (forall n ewl, n < 0 -> construct (CReaderAt n) d sched ewl false = Some (SBytes d)) /\
  (tame_sched sched -> forall ewl,
     exists s, construct (CPlain (len d)) d sched ewl false = Some s /\ healthy s d) /\
  (tame_sched sched -> forall n ewl, n = len d \/ n < 0 ->
     exists s, construct (CSeeker n) d sched ewl false = Some s /\ healthy s d) /\
  (forall ewl, exists s, construct (CReaderAt (len d)) d [] ewl false = Some s /\ healthy s d) /\
  healthy (SBytes d) d.
Proof.
  pose proof (len_nonneg d) as Hd.
  split; [reflexivity|]. split; [reflexivity|].
  split. { intros. eexists. split; [reflexivity|]. apply H_mmap. }
  split. { intros. eexists. split; [reflexivity|]. apply (H_seeker d [] false true). exact I. }
  split. { intros n ewl Hn. cbn [construct]. replace (n <? 0) with true by (symmetry; apply Z.ltb_lt; lia). reflexivity. }
  split. { intros n ewl Hn. cbn [construct]. replace (0 <? n) with false by (symmetry; apply Z.ltb_ge; lia).
           replace (n <? 0) with true by (symmetry; apply Z.ltb_lt; lia). reflexivity. }
  split. { intros Hs ewl. cbn [construct]. replace (len d <? 0) with false by (symmetry; apply Z.ltb_ge; lia).
           eexists. split; [reflexivity|]. apply H_reader. exact Hs. }
  split. { intros Hs n ewl [->|Hn]; cbn [construct].
           - replace (len d <? 0) with false by (symmetry; apply Z.ltb_ge; lia).
             eexists. split; [reflexivity|]. apply H_seeker. exact Hs.
           - replace (n <? 0) with true by (symmetry; apply Z.ltb_lt; lia).
             eexists. split; [reflexivity|]. apply H_seeker. exact Hs. }
  split; [|apply H_bytes].
  intros ewl. cbn [construct]. destruct (Z.ltb_spec 0 (len d)) as [Hpos|Hz].
  - eexists. split; [reflexivity|]. apply H_readerat.
  - replace (len d <? 0) with false by (symmetry; apply Z.ltb_ge; lia).
    eexists. split; [reflexivity|]. cbn [fe_of]. apply H_reader. exact I.
Qed.

(* ---- the in-memory and mmap backends never panic, whatever the operations and arguments ----------------------- *)
Lemma mem_bbytes s bnil n off :
  mem_state s ->
  exists s' r, bbytes any_backend s bnil n off = Some (s', r) /\ mem_state s'.
Proof.
  intros Hm. destruct s as [d|m| | |]; cbn [mem_state] in Hm; try tauto; cbn [bbytes any_backend].
  - destruct (bytes_bytes_total d bnil n off) as (r & E). rewrite E. cbn [lift].
    eexists _, _. split; [reflexivity|exact I].
  - unfold mmap_bytes. destruct (mdata m) as [d|]; [|eexists _, _; split; [reflexivity|exact I]].
    repeat match goal with |- context [if ?b then _ else _] => destruct b end;
      cbn [lift]; eexists _, _; (split; [reflexivity|exact I]).
Qed.

Lemma mem_step st o :
  mem_state (bst st) -> exists st' v, step any_backend st o = Some (st', v) /\ mem_state (bst st').
Proof.
  intros Hm. destruct st as [s c oo]. cbn [bst] in Hm.
  assert (RB : forall n, exists s' r, read_bytes any_backend (mkSys s c oo) n =
                Some (mkSys s' (mkReader (rpos c + len (br_data r)) (if rerr c =? 0 then br_err r else rerr c) (rlittle c)) oo, r)
                /\ mem_state s').
  { intros n. destruct (mem_bbytes s true n (rpos c) Hm) as (s' & r & E & M).
    exists s', r. unfold read_bytes, set_cur. cbn [bst cur oth]. rewrite E. auto. }
  destruct o; cbn [step]; unfold read_fixed, read_u8;
    try (match goal with |- context [read_bytes any_backend _ ?n] =>
           destruct (RB n) as (s' & r & E & M); rewrite E end;
         cbn [option_bind fst snd];
         try (destruct (Z.ltb_spec (len (br_data r)) 1) as [El|El];
              [|rewrite (peekz_getz (br_data r) 0) by lia; cbn [option_bind]]);
         eexists _, _; (split; [reflexivity|exact M])).
  - rewrite seek_factor. eexists _, _. split; [reflexivity|exact Hm].
  - destruct (mem_bbytes s false n (rpos c) Hm) as (s' & r & E & M). cbn [cur bst]. rewrite E.
    eexists _, _. split; [reflexivity|exact M].
  - destruct (mem_bbytes s false n off Hm) as (s' & r & E & M). cbn [cur bst]. rewrite E.
    eexists _, _. split; [reflexivity|exact M].
  - eexists _, _. split; [reflexivity|exact Hm].
  - eexists _, _. split; [reflexivity|exact Hm].
  - eexists _, _. split; [reflexivity|exact Hm].
  - eexists _, _. split; [reflexivity|exact Hm].
  - eexists _, _. split; [reflexivity|exact Hm].
  - eexists _, _. split; [reflexivity|exact Hm].
  - eexists _, _. split; [reflexivity|]. unfold set_cur. cbn [bst bclose any_backend].
    destruct s; cbn [mem_state fst] in *; tauto.
  - eexists _, _. split; [reflexivity|exact Hm].
Qed.

Theorem memory_backends_never_panic_proof ops : forall st,
  mem_state (bst st) -> exists st' outs, run any_backend st ops = Some (st', outs).
Proof.
  induction ops as [|o rest IH]; intros st Hm; cbn [run]; [eauto|].
  destruct (mem_step st o Hm) as (st1 & v & S1 & M1). rewrite S1. cbn [option_bind fst snd].
  destruct (IH st1 M1) as (st' & outs & R). rewrite R. cbn [option_bind fst snd]. eauto.
Qed.

(* ---- the read loop's fuel is never exhausted, whatever the source does ------------------------------------------ *)
Lemma read_loop_fuel fuel : forall rem sched ewl fe need empty acc,
  fe <> E_FUEL -> 0 <= empty < MAX_EMPTY -> (Z.to_nat (100 * need + 100 - empty) < fuel)%nat ->
  rd_err (read_loop fuel rem sched ewl fe need empty acc) <> E_FUEL.
Proof.
  unfold MAX_EMPTY.
  induction fuel as [|f IH]; intros rem sched ewl fe need empty acc Hfe He Hf; [lia|].
  cbn [read_loop]. destruct (Z.leb_spec need 0) as [H0|H0]; [cbn [rd_err]; discriminate|].
  set (r := src_read rem sched ewl fe need).
  assert (Hr : rd_err r <> E_FUEL).
  { unfold r, src_read. destruct rem; cbn [rd_err]; [exact Hfe|].
    destruct ((len (skipz _ _) =? 0) && ewl); [exact Hfe|discriminate]. }
  destruct ((rd_err r =? E_EOF) && (need - len (rd_out r) =? 0)); [cbn [rd_err]; discriminate|].
  destruct (negb (rd_err r =? 0)); [cbn [rd_err]; exact Hr|].
  destruct (Z.ltb_spec 0 (len (rd_out r))) as [Hz|Hz].
  - apply IH; [exact Hfe|lia|lia].
  - unfold MAX_EMPTY. destruct (Z.leb_spec 100 (empty + 1)); [cbn [rd_err]; discriminate|].
    apply IH; [exact Hfe|lia|lia].
Qed.

(* ---- non-vacuity --------------------------------------------------------------------------------------- *)
Definition ex_values : list value := [VU16 513; VI24 (-2); VBytes [7; 8]; VU64 (2 ^ 63 + 5); VI8 (-128)].

Example roundtrip_hypotheses_met :
  healthy (SReader (mkR (write_all true (ex_values ++ [VU8 9])) [1; 2; 1] false E_EOF 0
                        (len (write_all true (ex_values ++ [VU8 9])))))
          (write_all true (ex_values ++ [VU8 9])) /\
  Forall valid_value ex_values /\
  write_all true (ex_values ++ [VU8 9]) = [1; 2; 254; 255; 255; 7; 8; 5; 0; 0; 0; 0; 0; 0; 128; 128; 9].
Proof.
  split; [apply H_reader; apply positive_tame; repeat constructor|]. split; [|reflexivity].
  unfold ex_values. repeat constructor; cbn [valid_value]; lia.
Qed.

Example independence_hypotheses_met :
  let d := [1; 2; 3; 4; 5] in
  let ops := [OU16; OClone; OSeek (-2) 2; ORead 5; OReadAt 2 1; OSwap; OU8; OLen] in
  healthy (SSeeker (mkK d [1; 3] false E_EOF (len d) false true)) d /\
  Forall (allowed true) ops /\ clean bytes_backend (new_sys d) ops /\
  option_map snd (run bytes_backend (new_sys d) ops) =
    Some [VInt 258; VNone; VIntErr 3 0; VRead 2 1 [4; 5]; VRead 2 0 [2; 3]; VNone; VInt 3; VInt 2].
Proof.
  cbn zeta. split; [apply H_seeker; apply positive_tame; repeat constructor|]. split.
  - repeat constructor; cbn [allowed]; auto; lia.
  - split; [vm_compute; repeat split|reflexivity].
Qed.

Example seek_example :
  seek bytes_backend (mkSys [1; 2; 3; 4; 5; 6; 7; 8; 9; 10] (mkReader 4 0 false) (mkReader 0 0 false)) (-3) 2
  = (mkSys [1; 2; 3; 4; 5; 6; 7; 8; 9; 10] (mkReader 7 0 false) (mkReader 0 0 false), VIntErr 7 0).
Proof. reflexivity. Qed.

(* a reachable state of a stream backend (io.EOF arrives with the last bytes) one byte before the end *)
Example eof_hypotheses_met :
  exists st, reachable [1; 2; 3] st /\ rpos (cur st) = 2 /\ typed_read OU16 /\ typed_read OU8 /\
             len [1; 2; 3] < rpos (cur st) + op_width OU16 /\
             option_map snd (step any_backend st OU16) = Some (VInt 0) /\
             option_map (fun x => rerr (cur (fst x))) (step any_backend st OU16) = Some E_EOF /\
             option_map snd (run any_backend st [OU8; OErr; OU8; OErr]) = Some [VInt 3; VInt 0; VInt 0; VInt E_EOF].
Proof.
  eexists. split.
  - eapply (R_step [1; 2; 3] (new_sys (SReader (mkR [1; 2; 3] [1] true E_EOF 0 3))) OU16).
    + apply R_init. apply (H_reader [1; 2; 3] [1] true). apply positive_tame. repeat constructor.
    + exact I.
    + vm_compute. reflexivity.
  - vm_compute. repeat split; auto; discriminate.
Qed.

Example sticky_hypotheses_met :
  exists st, reachable [9] st /\ len [9] <= rpos (cur st) /\
             option_map snd (run any_backend st [OU8; OU32; OReadByte; OReadBytes 2]) =
               Some [VInt 0; VInt 0; VIntErr 0 E_EOF; VData false []].
Proof.
  eexists. split.
  - eapply (R_step [9] (new_sys (SSeeker (mkK [9] [] false E_EOF 1 false true))) OI8).
    + apply R_init. apply (H_seeker [9] [] false true). exact I.
    + exact I.
    + vm_compute. reflexivity.
  - split; [vm_compute; discriminate|vm_compute; reflexivity].
Qed.

Example mmap_identical_example :
  Forall no_close [OU16; OSeek 0 0; ORead 9; OU8; OReadBytes 0; OReadBytes (-1); OU8] /\
  option_map snd (run any_backend (new_sys (SMmap (mmap_open [1; 2; 3])))
                    [OU16; OSeek 0 0; ORead 9; OU8; OReadBytes 0; OReadBytes (-1); OU8]) =
    Some [VInt 258; VIntErr 0 0; VRead 3 E_EOF [1; 2; 3]; VInt 0; VData true []; VData true []; VInt 0].
Proof. split; [repeat constructor|vm_compute; reflexivity]. Qed.

(* scripts with empty reads: the hypotheses of empty_reads_tolerated are met by a script with runs of 99 *)
Example empty_reads_hypotheses_met :
  let sched := repeat 0 99 ++ [1] ++ repeat 0 99 ++ [3] ++ [0; 0; 2] in
  let ops := [OU16; OReadBytes 2; OU8; OU8; OErr; OPos] in
  tame_sched sched /\ ~ positive_sched sched /\ Forall (allowed false) ops /\
  option_map snd (run any_backend (new_sys (SReader (mkR [1; 2; 3; 4; 5] sched true E_EOF 0 5))) ops) =
    Some [VInt 258; VData false [3; 4]; VInt 5; VInt 0; VInt E_EOF; VInt 5] /\
  option_map snd (run bytes_backend (new_sys [1; 2; 3; 4; 5]) ops) =
    Some [VInt 258; VData false [3; 4]; VInt 5; VInt 0; VInt E_EOF; VInt 5].
Proof.
  cbn zeta. split; [vm_compute; repeat split|]. split.
  - intros H. inversion H as [|c t Hc _]; subst. lia.
  - split; [repeat constructor; cbn; lia|]. split; vm_compute; reflexivity.
Qed.
