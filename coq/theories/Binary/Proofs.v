(* Binary/Proofs.v — C19: the reader over every healthy backend equals the reader over the in-memory
   bytes; write/read round trip; EOF exactly past the end; Seek; witnesses of the deviations. *)
From Verif Require Import Common.Base Common.Tactics Binary.Model Binary.Spec Binary.Lists
  Binary.Arith Binary.Backends.
From Coq Require Import ZifyBool.

(* ---- Seek ------------------------------------------------------------------------------------------- *)
Definition seek_target (L p off whence : Z) : Z :=
  if whence =? 0 then off else if whence =? 1 then p + off else L + off.

Lemma seek_spec_proof {S : Type} (B : backend S) (st : sys S) off whence :
  let L := blen B (bst st) in
  let p := rpos (cur st) in
  let t := seek_target L p off whence in
  (0 <= whence <= 2 -> 0 <= t <= L ->
     seek B st off whence =
       (mkSys (bst st) (mkReader t (rerr (cur st)) (rlittle (cur st))) (oth st), VIntErr t E_NIL)) /\
  (0 <= whence <= 2 -> ~ (0 <= t <= L) -> seek B st off whence = (st, VIntErr 0 E_OFFSET)) /\
  (~ (0 <= whence <= 2) -> seek B st off whence = (st, VIntErr 0 E_WHENCE)).
Proof.
  cbn zeta. unfold seek, seek_target, set_cur.
  destruct (Z.eqb_spec whence 0) as [W0|W0]; [|destruct (Z.eqb_spec whence 1) as [W1|W1];
    [|destruct (Z.eqb_spec whence 2) as [W2|W2]]].
  - split; [|split]; intros; try lia.
    + replace ((off <? 0) || (blen B (bst st) <? off)) with false by (symmetry; apply orb_false_iff; split; [apply Z.ltb_ge|apply Z.ltb_ge]; lia). reflexivity.
    + destruct (Z.ltb_spec off 0); [reflexivity|]. destruct (Z.ltb_spec (blen B (bst st)) off); [reflexivity|]. lia.
  - split; [|split]; intros; try lia.
    + replace ((rpos (cur st) + off <? 0) || (blen B (bst st) <? rpos (cur st) + off)) with false by (symmetry; apply orb_false_iff; split; [apply Z.ltb_ge|apply Z.ltb_ge]; lia). reflexivity.
    + destruct (Z.ltb_spec (rpos (cur st) + off) 0); [reflexivity|]. destruct (Z.ltb_spec (blen B (bst st)) (rpos (cur st) + off)); [reflexivity|]. lia.
  - split; [|split]; intros; try lia.
    + replace ((off <? - blen B (bst st)) || (0 <? off)) with false by (symmetry; apply orb_false_iff; split; [apply Z.ltb_ge|apply Z.ltb_ge]; lia). reflexivity.
    + destruct (Z.ltb_spec off (- blen B (bst st))); [reflexivity|]. destruct (Z.ltb_spec 0 off); [reflexivity|]. lia.
  - split; [|split]; intros; try lia. reflexivity.
Qed.

(* ---- the in-memory backend, specified ---------------------------------------------------------------- *)
Lemma bytes_bytes_pos d bnil n p : 0 < n -> 0 <= p ->
  exists r, bytes_bytes d bnil n p = Some (d, r) /\
    br_data r = slice d p (p + n) /\
    br_err r = (if p + n <=? len d then E_NIL else E_EOF) /\
    br_nil r = (len d <=? p).
Proof.
  intros Hn Hp. pose proof (len_nonneg d). unfold bytes_bytes. zb. cbn [orb].
  destruct (Z.leb_spec (len d) p) as [Hpe|Hpe].
  - eexists. split; [reflexivity|]. cbn [br_data br_nil br_err nil_res].
    rewrite slice_past by lia. zb. auto.
  - destruct (Z.ltb_spec (len d - p) n) as [Hs|Hs].
    + eexists. split; [reflexivity|]. cbn [br_data br_nil br_err]. zb.
      rewrite (slice_clip d p (len d - p) n) by lia. auto.
    + eexists. split; [reflexivity|]. cbn [br_data br_nil br_err]. zb. auto.
Qed.

Lemma bytes_bytes_zero d bnil p : 0 <= p -> bytes_bytes d bnil 0 p = Some (d, nil_res E_NIL).
Proof. intros Hp. unfold bytes_bytes. zb. reflexivity. Qed.

(* Bytes on a healthy backend and on the in-memory bytes: same data, same error; same nil-ness
   whenever the request did not run past the end *)
Lemma bbytes_agree d s p bnil n :
  good d s p -> 0 <= n -> 0 <= p ->
  exists s' r rb,
    bbytes any_backend s bnil n p = Some (s', r) /\
    bytes_bytes d bnil n p = Some (d, rb) /\
    br_data r = br_data rb /\ br_err r = br_err rb /\
    (br_err rb = 0 -> br_nil r = br_nil rb) /\
    good d s' (p + len (br_data r)) /\ random_access s' = random_access s.
Proof.
  intros Hg Hn Hp.
  destruct (Z.eq_dec n 0) as [->|Hn0].
  - exists s, (nil_res E_NIL), (nil_res E_NIL).
    rewrite (good_bytes_zero d s p bnil Hg Hp), (bytes_bytes_zero d bnil p Hp).
    cbn [br_data br_err br_nil nil_res]. change (len (@nil Z)) with 0. rewrite Z.add_0_r. repeat split; auto.
  - destruct (good_bytes d s p bnil n Hg ltac:(lia) Hp) as (s' & r & E & D & Er & Nn & _ & G & RA).
    destruct (bytes_bytes_pos d bnil n p ltac:(lia) Hp) as (rb & Eb & Db & Erb & Nb).
    exists s', r, rb. repeat split; auto; try congruence.
    intros H0. rewrite Erb in H0. destruct (Z.leb_spec (p + n) (len d)) as [Hin|Hin]; [|discriminate].
    rewrite Nn by exact Hin. rewrite Nb. symmetry. apply Z.leb_gt. lia.
Qed.

(* ---- simulation: the reader over a healthy backend against the reader over the bytes ------------------- *)
Definition sim (d : list Z) (st : sys bstate) (sb : sys (list Z)) : Prop :=
  bst sb = d /\ cur st = cur sb /\ oth st = oth sb /\
  good d (bst st) (rpos (cur st)) /\ 0 <= rpos (cur st) /\ 0 <= rpos (oth st) /\
  rerr (cur sb) = 0 /\ rerr (oth sb) = 0.

Lemma sim_init s d : healthy s d -> sim d (new_sys s) (new_sys d).
Proof.
  intros H. unfold sim, new_sys. cbn [bst cur oth rpos rerr].
  repeat split; auto; try lia. apply healthy_good. exact H.
Qed.

Lemma read_bytes_sim d s c o n :
  good d s (rpos c) -> 0 <= n -> 0 <= rpos c ->
  exists s' r rb,
    read_bytes any_backend (mkSys s c o) n =
      Some (mkSys s' (mkReader (rpos c + len (br_data rb)) (if rerr c =? 0 then br_err rb else rerr c) (rlittle c)) o, r) /\
    read_bytes bytes_backend (mkSys d c o) n =
      Some (mkSys d (mkReader (rpos c + len (br_data rb)) (if rerr c =? 0 then br_err rb else rerr c) (rlittle c)) o, rb) /\
    br_data r = br_data rb /\ br_err r = br_err rb /\ (br_err rb = 0 -> br_nil r = br_nil rb) /\
    good d s' (rpos c + len (br_data rb)) /\ random_access s' = random_access s.
Proof.
  intros Hg Hn Hp.
  destruct (bbytes_agree d s (rpos c) true n Hg Hn Hp) as (s' & r & rb & E & Eb & D & Er & Nn & G & RA).
  exists s', r, rb. unfold read_bytes, set_cur. cbn [bst cur oth bbytes bytes_backend].
  rewrite E, Eb. cbn [option_bind fst snd]. rewrite D, Er. rewrite D in G. repeat split; auto.
Qed.

Lemma sim_destruct d st sb : sim d st sb ->
  exists s c o, st = mkSys s c o /\ sb = mkSys d c o /\ good d s (rpos c) /\
                0 <= rpos c /\ 0 <= rpos o /\ rerr c = 0 /\ rerr o = 0.
Proof.
  destruct st as [s c o], sb as [db cb ob]. unfold sim. cbn [bst cur oth].
  intros (-> & -> & -> & G & P1 & P2 & E1 & E2). exists s, cb, ob. repeat split; auto.
Qed.

Lemma sim_intro d s c o :
  good d s (rpos c) -> 0 <= rpos c -> 0 <= rpos o -> rerr c = 0 -> rerr o = 0 ->
  sim d (mkSys s c o) (mkSys d c o).
Proof. intros. unfold sim. cbn [bst cur oth]. repeat split; auto. Qed.

Ltac inv_some H := inversion H; subst; clear H.

(* Seek only looks at Len() and the reader *)
Definition seek_pure (L : Z) (c : reader) (off whence : Z) : reader * obs :=
  let moved p := (mkReader p (rerr c) (rlittle c), VIntErr p E_NIL) in
  if whence =? 0 then
    if (off <? 0) || (L <? off) then (c, VIntErr 0 E_OFFSET) else moved off
  else if whence =? 1 then
    if (rpos c + off <? 0) || (L <? rpos c + off) then (c, VIntErr 0 E_OFFSET) else moved (rpos c + off)
  else if whence =? 2 then
    if (off <? - L) || (0 <? off) then (c, VIntErr 0 E_OFFSET) else moved (L + off)
  else (c, VIntErr 0 E_WHENCE).

Lemma seek_factor {S : Type} (B : backend S) (s : S) c o off whence :
  seek B (mkSys s c o) off whence =
  (mkSys s (fst (seek_pure (blen B s) c off whence)) o, snd (seek_pure (blen B s) c off whence)).
Proof.
  unfold seek, seek_pure, set_cur. cbn [bst cur oth].
  repeat match goal with |- context [if ?b then _ else _] => destruct b end; reflexivity.
Qed.

Lemma seek_pure_props L c off whence :
  rerr (fst (seek_pure L c off whence)) = rerr c /\
  rlittle (fst (seek_pure L c off whence)) = rlittle c /\
  (0 <= L -> 0 <= rpos c -> 0 <= rpos (fst (seek_pure L c off whence))).
Proof.
  unfold seek_pure.
  repeat match goal with |- context [if ?b then _ else _] => destruct b eqn:? end;
    cbn [fst rerr rpos rlittle]; repeat split; auto; intros; b2p; lia.
Qed.

(* one operation: if the reference (in-memory) run stays clean, the backend returns the same observation *)
Lemma step_sim d st sb o sb' v :
  sim d st sb -> allowed (random_access (bst st)) o ->
  step bytes_backend sb o = Some (sb', v) ->
  rerr (cur sb') = 0 -> rerr (oth sb') = 0 ->
  exists st', step any_backend st o = Some (st', v) /\ sim d st' sb' /\
              random_access (bst st') = random_access (bst st).
Proof.
  intros Hsim Hal Hstep Hc1 Hc2.
  destruct (sim_destruct _ _ _ Hsim) as (s & c & oo & -> & -> & G & P1 & P2 & E1 & E2).
  cbn [bst] in Hal.
  pose proof (good_len d s _ G) as HL.
  assert (HLb : blen bytes_backend d = len d) by reflexivity.
  assert (Hfix : forall w dec, 0 <= w ->
     read_fixed bytes_backend (mkSys d c oo) w dec = Some (sb', v) ->
     exists st', read_fixed any_backend (mkSys s c oo) w dec = Some (st', v) /\ sim d st' sb' /\
                 random_access (bst st') = random_access s).
  { intros w dec Hw Hrf.
    destruct (read_bytes_sim d s c oo w G Hw P1) as (s' & r & rb & R1 & R2 & D & Er & Nn & G' & RA).
    unfold read_fixed in *. rewrite R2 in Hrf. rewrite R1. cbn [option_bind fst snd cur] in *.
    inv_some Hrf. cbn [cur oth rerr] in Hc1.
    eexists. split; [rewrite D; reflexivity|]. split; [|exact RA].
    apply sim_intro; cbn [rpos rerr]; auto. pose proof (len_nonneg (br_data rb)). lia. }
  assert (Hu8 : forall x, read_u8 bytes_backend (mkSys d c oo) = Some (sb', x) ->
     exists st', read_u8 any_backend (mkSys s c oo) = Some (st', x) /\ sim d st' sb' /\
                 random_access (bst st') = random_access s).
  { intros x Hru.
    destruct (read_bytes_sim d s c oo 1 G ltac:(lia) P1) as (s' & r & rb & R1 & R2 & D & Er & Nn & G' & RA).
    unfold read_u8 in *. rewrite R2 in Hru. rewrite R1. cbn [option_bind fst snd] in *.
    assert (Hrb0 : br_err rb = 0).
    { destruct (br_nil rb); [inv_some Hru|destruct (peekz (br_data rb) 0); [inv_some Hru|discriminate]];
        cbn [cur rerr] in Hc1; rewrite E1 in Hc1; exact Hc1. }
    rewrite (Nn Hrb0), D.
    destruct (br_nil rb).
    - inv_some Hru. eexists. split; [reflexivity|]. split; [|exact RA].
      apply sim_intro; cbn [rpos rerr]; auto. pose proof (len_nonneg (br_data rb)). lia.
    - destruct (peekz (br_data rb) 0) as [b|]; [|discriminate]. cbn [option_bind] in *. inv_some Hru.
      eexists. split; [reflexivity|]. split; [|exact RA].
      apply sim_intro; cbn [rpos rerr]; auto. pose proof (len_nonneg (br_data rb)). lia. }
  destruct o; cbn [allowed] in Hal; cbn [step] in Hstep |- *; cbn [cur bst oth] in *.
  - (* Seek *)
    rewrite seek_factor in Hstep. rewrite seek_factor. rewrite HL. rewrite HLb in Hstep.
    inv_some Hstep. eexists. split; [reflexivity|]. split; [|reflexivity].
    destruct (seek_pure_props (len d) c off whence) as (A1 & A2 & A3).
    apply sim_intro; auto; try congruence.
    + eapply good_ra; eauto.
    + apply A3; [apply len_nonneg|exact P1].
  - (* Read *)
    destruct (bbytes_agree d s (rpos c) false n G Hal P1) as (s' & r & rb & E & Eb & D & Er & Nn & G' & RA).
    cbn [bbytes bytes_backend] in Hstep. rewrite Eb in Hstep. rewrite E.
    cbn [option_bind fst snd] in *. inv_some Hstep. unfold set_cur. cbn [oth bst].
    rewrite D, Er. eexists. split; [reflexivity|]. split; [|exact RA].
    apply sim_intro; cbn [rpos rerr]; auto. { rewrite <- D. exact G'. }
    pose proof (len_nonneg (br_data rb)). lia.
  - (* ReadAt *)
    destruct Hal as (Hra & Hn & Hoff).
    destruct (bbytes_agree d s off false n (good_ra d s _ off Hra G) Hn Hoff) as (s' & r & rb & E & Eb & D & Er & Nn & G' & RA).
    cbn [bbytes bytes_backend] in Hstep. rewrite Eb in Hstep. rewrite E.
    cbn [option_bind fst snd] in *. inv_some Hstep. unfold set_cur. cbn [oth bst].
    rewrite D, Er. eexists. split; [reflexivity|]. split; [|exact RA].
    apply sim_intro; auto. eapply good_ra; [congruence|exact G'].
  - (* ReadBytes *)
    destruct (read_bytes_sim d s c oo n G Hal P1) as (s' & r & rb & R1 & R2 & D & Er & Nn & G' & RA).
    rewrite R2 in Hstep. rewrite R1. cbn [option_bind fst snd] in *. inv_some Hstep.
    cbn [cur rerr] in Hc1. rewrite E1 in Hc1. cbn in Hc1.
    rewrite (Nn Hc1), D. eexists. split; [reflexivity|]. split; [|exact RA].
    apply sim_intro; cbn [rpos rerr]; auto. pose proof (len_nonneg (br_data rb)). lia.
    rewrite E1. exact Hc1.
  - (* ReadByte *)
    destruct (read_bytes_sim d s c oo 1 G ltac:(lia) P1) as (s' & r & rb & R1 & R2 & D & Er & Nn & G' & RA).
    rewrite R2 in Hstep. rewrite R1. cbn [option_bind fst snd] in *.
    assert (Hrb0 : br_err rb = 0).
    { destruct (br_nil rb); [inv_some Hstep|destruct (peekz (br_data rb) 0); [inv_some Hstep|discriminate]];
        cbn [cur rerr] in Hc1; rewrite E1 in Hc1; exact Hc1. }
    rewrite (Nn Hrb0), D.
    destruct (br_nil rb).
    + inv_some Hstep. cbn [cur rerr]. eexists. split; [reflexivity|]. split; [|exact RA].
      apply sim_intro; cbn [rpos rerr]; auto. pose proof (len_nonneg (br_data rb)). lia.
    + destruct (peekz (br_data rb) 0) as [b|]; [|discriminate]. cbn [option_bind] in *. inv_some Hstep.
      eexists. split; [reflexivity|]. split; [|exact RA].
      apply sim_intro; cbn [rpos rerr]; auto. pose proof (len_nonneg (br_data rb)). lia.
  - (* U8 *)
    destruct (read_u8 bytes_backend (mkSys d c oo)) as [[sb1 x]|] eqn:Hr; [|discriminate].
    cbn [option_bind fst snd] in Hstep. inv_some Hstep.
    destruct (Hu8 x eq_refl) as (st' & R & S1 & RA). rewrite R. cbn [option_bind fst snd]. eauto.
  - apply (Hfix 2 dec_u16); [lia|exact Hstep].
  - apply (Hfix 3 dec_u24); [lia|exact Hstep].
  - apply (Hfix 4 dec_u32); [lia|exact Hstep].
  - apply (Hfix 8 dec_u64); [lia|exact Hstep].
  - (* I8 *)
    destruct (read_u8 bytes_backend (mkSys d c oo)) as [[sb1 x]|] eqn:Hr; [|discriminate].
    cbn [option_bind fst snd] in Hstep. inv_some Hstep.
    destruct (Hu8 x eq_refl) as (st' & R & S1 & RA). rewrite R. cbn [option_bind fst snd]. eauto.
  - apply (Hfix 2 (fun l d0 => to_signed 16 (dec_u16 l d0))); [lia|exact Hstep].
  - apply (Hfix 3 (fun l d0 => sext24 (dec_u24 l d0))); [lia|exact Hstep].
  - apply (Hfix 4 (fun l d0 => to_signed 32 (dec_u32 l d0))); [lia|exact Hstep].
  - apply (Hfix 8 (fun l d0 => to_signed 64 (dec_u64 l d0))); [lia|exact Hstep].
  - inv_some Hstep. eexists. split; [reflexivity|]. split; [apply sim_intro; auto|reflexivity].
  - inv_some Hstep. rewrite HL. eexists. split; [reflexivity|]. split; [apply sim_intro; auto|reflexivity].
  - inv_some Hstep. eexists. split; [reflexivity|]. split; [apply sim_intro; auto|reflexivity].
  - inv_some Hstep. unfold set_cur. cbn [bst oth]. eexists. split; [reflexivity|].
    split; [apply sim_intro; auto|reflexivity].
  - inv_some Hstep. eexists. split; [reflexivity|]. split; [apply sim_intro; auto|reflexivity].
  - inv_some Hstep. eexists. split; [reflexivity|]. split; [apply sim_intro; auto|reflexivity].
    eapply good_ra; eauto.
  - tauto.
  - inv_some Hstep. eexists. split; [reflexivity|]. split; [apply sim_intro; auto|reflexivity].
  - (* ReadString *)
    destruct (read_bytes_sim d s c oo n G Hal P1) as (s' & r & rb & R1 & R2 & D & Er & Nn & G' & RA).
    rewrite R2 in Hstep. rewrite R1. cbn [option_bind fst snd] in *. inv_some Hstep.
    cbn [cur rerr] in Hc1. rewrite D. eexists. split; [reflexivity|]. split; [|exact RA].
    apply sim_intro; cbn [rpos rerr]; auto. pose proof (len_nonneg (br_data rb)). lia.
Qed.

(* ---- all backends agree with the in-memory one while no read runs past the end ------------------------- *)
Lemma run_sim d ops : forall st sb,
  sim d st sb -> Forall (allowed (random_access (bst st))) ops -> clean bytes_backend sb ops ->
  exists st' sb' outs, run any_backend st ops = Some (st', outs) /\
                       run bytes_backend sb ops = Some (sb', outs) /\ sim d st' sb'.
Proof.
  induction ops as [|o rest IH]; intros st sb Hsim Hal Hcl.
  - exists st, sb, []. auto.
  - inversion Hal as [|? ? Ho Hrest]; subst. cbn [clean] in Hcl.
    destruct (step bytes_backend sb o) as [[sb1 v]|] eqn:Hs; [|tauto].
    destruct Hcl as (C1 & C2 & Hcl).
    destruct (step_sim d st sb o sb1 v Hsim Ho Hs C1 C2) as (st1 & Hs1 & Hsim1 & RA).
    rewrite <- RA in Hrest.
    destruct (IH st1 sb1 Hsim1 Hrest Hcl) as (st' & sb' & outs & R1 & R2 & S').
    exists st', sb', (v :: outs). cbn [run]. rewrite Hs1, Hs. cbn [option_bind fst snd].
    rewrite R1, R2. cbn [option_bind fst snd]. auto.
Qed.

Theorem backend_independence_proof s d ops :
  healthy s d -> Forall (allowed (random_access s)) ops -> clean bytes_backend (new_sys d) ops ->
  exists st' sb' outs,
    run any_backend (new_sys s) ops = Some (st', outs) /\
    run bytes_backend (new_sys d) ops = Some (sb', outs) /\
    cur st' = cur sb' /\ oth st' = oth sb'.
Proof.
  intros H Hal Hcl.
  destruct (run_sim d ops (new_sys s) (new_sys d) (sim_init s d H) Hal Hcl) as (st' & sb' & outs & R1 & R2 & S').
  exists st', sb', outs. destruct S' as (_ & A & B & _). auto.
Qed.

(* ---- typed reads on a healthy backend ------------------------------------------------------------------ *)
Lemma read_bytes_good d s c o w :
  good d s (rpos c) -> 0 < w -> 0 <= rpos c ->
  exists s' r,
    read_bytes any_backend (mkSys s c o) w =
      Some (mkSys s' (mkReader (rpos c + len (br_data r)) (if rerr c =? 0 then br_err r else rerr c) (rlittle c)) o, r) /\
    br_data r = slice d (rpos c) (rpos c + w) /\
    br_err r = (if rpos c + w <=? len d then E_NIL else E_EOF) /\
    (rpos c + w <= len d -> br_nil r = false) /\
    (br_nil r = true -> br_data r = []) /\
    good d s' (rpos c + len (br_data r)) /\ random_access s' = random_access s.
Proof.
  intros G Hw Hp.
  destruct (good_bytes d s (rpos c) true w G Hw Hp) as (s' & r & E & D & Er & Nn & Ne & G' & RA).
  exists s', r. unfold read_bytes, set_cur. cbn [bst cur oth]. rewrite E. cbn [option_bind fst snd].
  repeat split; auto.
Qed.

Lemma typed_width o : typed_read o -> 0 < op_width o.
Proof. destruct o; cbn [typed_read op_width]; intros; try tauto; lia. Qed.

Lemma if_same_z (x : Z) : (if x =? 0 then E_NIL else x) = x.
Proof. destruct (Z.eqb_spec x 0); [subst; reflexivity|reflexivity]. Qed.

Lemma peekz_getz l i : 0 <= i < len l -> peekz l i = Some (getz l i).
Proof. intros H. destruct (peekz_in_range l i H) as [c Hc]. unfold getz. rewrite Hc. reflexivity. Qed.

(* A: all the bytes are there *)
Lemma typed_read_in_range d s c o op :
  good d s (rpos c) -> 0 <= rpos c -> typed_read op -> rpos c + op_width op <= len d ->
  exists s',
    step any_backend (mkSys s c o) op =
      Some (mkSys s' (mkReader (rpos c + op_width op) (rerr c) (rlittle c)) o,
            read_value op (rlittle c) (slice d (rpos c) (rpos c + op_width op))) /\
    good d s' (rpos c + op_width op) /\ random_access s' = random_access s.
Proof.
  intros G Hp Ht Hin. pose proof (typed_width op Ht) as Hw.
  destruct (read_bytes_good d s c o (op_width op) G Hw Hp) as (s' & r & R & D & Er & Nn & _ & G' & RA).
  specialize (Nn Hin).
  assert (Hlen : len (br_data r) = op_width op).
  { rewrite D. rewrite len_slice_gen by lia. lia. }
  rewrite Hlen in *.
  replace (rpos c + op_width op <=? len d) with true in Er by (symmetry; apply Z.leb_le; lia).
  rewrite Er in R. rewrite if_same_z in R.
  exists s'. split; [|auto].
  destruct op; cbn [typed_read] in Ht; try tauto; cbn [op_width] in *;
    cbn [step read_value]; unfold read_fixed, read_u8; rewrite R; cbn [option_bind fst snd cur rerr];
    rewrite ?Nn, ?D; try reflexivity;
    rewrite <- D; rewrite (peekz_getz (br_data r) 0) by lia; reflexivity.
Qed.

Lemma dec_short_zero little (data : list Z) :
  (len data < 2 -> dec_u16 little data = 0) /\ (len data < 3 -> dec_u24 little data = 0) /\
  (len data < 4 -> dec_u32 little data = 0) /\ (len data < 8 -> dec_u64 little data = 0).
Proof.
  unfold dec_u16, dec_u24, dec_u32, dec_u64. repeat split; intros H; zb; reflexivity.
Qed.

(* B: the read runs past the end; not one of the 8-bit reads *)
Lemma typed_read_past_end d s c o op :
  good d s (rpos c) -> 0 <= rpos c -> typed_read op -> ~ is8 op -> len d < rpos c + op_width op ->
  let rest := slice d (rpos c) (rpos c + op_width op) in
  let e' := if rerr c =? 0 then E_EOF else rerr c in
  exists s' v,
    step any_backend (mkSys s c o) op =
      Some (mkSys s' (mkReader (rpos c + len rest) e' (rlittle c)) o, v) /\
    zero_obs op rest e' v /\
    good d s' (rpos c + len rest) /\ random_access s' = random_access s.
Proof.
  intros G Hp Ht H8 Hout. cbn zeta. pose proof (typed_width op Ht) as Hw.
  destruct (read_bytes_good d s c o (op_width op) G Hw Hp) as (s' & r & R & D & Er & _ & _ & G' & RA).
  replace (rpos c + op_width op <=? len d) with false in Er by (symmetry; apply Z.leb_gt; lia).
  rewrite Er in R. rewrite D in *.
  assert (Hshort : len (slice d (rpos c) (rpos c + op_width op)) < op_width op).
  { rewrite len_slice_gen by lia. lia. }
  destruct (dec_short_zero (rlittle c) (br_data r)) as (Z16 & Z24 & Z32 & Z64).
  rewrite D in *.
  destruct op; cbn [typed_read is8] in Ht, H8; try tauto; cbn [op_width] in *;
    cbn [step zero_obs]; unfold read_fixed; rewrite R; cbn [option_bind fst snd cur rlittle];
    rewrite ?D, ?Z16, ?Z24, ?Z32, ?Z64 by assumption;
    eexists _, _; (split; [reflexivity|]); (split; [|auto]); eauto.
Qed.

(* C: an 8-bit read at or past the end of the in-memory backend: 0, io.EOF, no panic *)
Lemma read8_past_end_bytes d c o op :
  0 <= rpos c -> is8 op -> len d <= rpos c ->
  let e' := if rerr c =? 0 then E_EOF else rerr c in
  exists v,
    step any_backend (mkSys (SBytes d) c o) op = Some (mkSys (SBytes d) (mkReader (rpos c) e' (rlittle c)) o, v) /\
    zero_obs op [] e' v.
Proof.
  intros Hp H8 Hout. cbn zeta.
  destruct (bytes_bytes_pos d true 1 (rpos c) ltac:(lia) Hp) as (rb & Eb & Db & Erb & Nb).
  assert (R : read_bytes any_backend (mkSys (SBytes d) c o) 1 =
              Some (mkSys (SBytes d) (mkReader (rpos c) (if rerr c =? 0 then E_EOF else rerr c) (rlittle c)) o, rb)).
  { unfold read_bytes, set_cur. cbn [bst cur oth bbytes any_backend]. rewrite Eb. cbn [lift option_bind fst snd].
    rewrite Db, Erb. rewrite slice_past by lia. change (len (@nil Z)) with 0.
    replace (rpos c + 1 <=? len d) with false by (symmetry; apply Z.leb_gt; lia).
    rewrite Z.add_0_r. reflexivity. }
  replace (len d <=? rpos c) with true in Nb by (symmetry; apply Z.leb_le; lia).
  destruct op; cbn [is8] in H8; try tauto; cbn [step zero_obs]; unfold read_u8; rewrite R;
    cbn [option_bind fst snd]; rewrite Nb; eexists; split; reflexivity.
Qed.

(* ---- the writer ------------------------------------------------------------------------------------------ *)
Lemma enc_all_cons little v vs : enc_all little (v :: vs) = enc_value little v ++ enc_all little vs.
Proof. reflexivity. Qed.

Lemma enc_all_app little a b : enc_all little (a ++ b) = enc_all little a ++ enc_all little b.
Proof. unfold enc_all. rewrite map_app, concat_app. reflexivity. Qed.

Lemma wrun_vals little vs : forall buf,
  wrun (mkW buf little) (map WVal vs) = mkW (buf ++ enc_all little vs) little.
Proof.
  induction vs as [|v vs IH]; intros buf; cbn [map wrun].
  - unfold enc_all. cbn. rewrite app_nil_r. reflexivity.
  - cbn [wstep fst wbuf wlittle]. rewrite IH, enc_all_cons, app_assoc. reflexivity.
Qed.

Lemma write_all_enc little vs : write_all little vs = enc_all little vs.
Proof. unfold write_all. rewrite wrun_vals. reflexivity. Qed.

Lemma len_enc_all little vs : len (enc_all little vs) = values_size vs.
Proof.
  induction vs as [|v vs IH]; [reflexivity|].
  rewrite enc_all_cons, len_app, enc_value_len, IH. reflexivity.
Qed.

Lemma op_width_read_op v : op_width (read_op v) = value_size v.
Proof. destruct v; reflexivity. Qed.

Lemma value_size_nonneg v : 0 <= value_size v.
Proof. destruct v; cbn [value_size]; try lia. apply len_nonneg. Qed.

Lemma values_size_nonneg vs : 0 <= values_size vs.
Proof. induction vs as [|v vs IH]; cbn [values_size]; [lia|]. pose proof (value_size_nonneg v). lia. Qed.

Lemma typed_read_op v : 0 < value_size v -> typed_read (read_op v).
Proof. destruct v; cbn [read_op typed_read value_size]; auto. Qed.

Lemma read_value_returns little v :
  valid_value v -> returns (read_value (read_op v) little (enc_value little v)) v.
Proof.
  intros Hv. pose proof (dec_enc_value little v Hv) as H.
  destruct v; cbn [read_op read_value returns dec_value value_int] in *; auto.
Qed.

(* ---- write / read round trip on every healthy backend ---------------------------------------------------- *)
Lemma roundtrip_run little : forall vs1 pre post s c o d,
  d = pre ++ enc_all little vs1 ++ post ->
  good d s (rpos c) -> rpos c = len pre -> rlittle c = little -> rerr c = 0 ->
  Forall valid_value vs1 ->
  exists s' outs,
    run any_backend (mkSys s c o) (map read_op vs1) =
      Some (mkSys s' (mkReader (len pre + values_size vs1) 0 little) o, outs) /\
    Forall2 returns outs vs1 /\
    good d s' (len pre + values_size vs1) /\ random_access s' = random_access s.
Proof.
  induction vs1 as [|v vs IH]; intros pre post s c o d Hd G Hp Hl He Hv.
  - cbn [map run values_size]. exists s, []. rewrite Z.add_0_r.
    destruct c as [p e l]. cbn [rpos rerr rlittle] in *. subst. auto.
  - inversion Hv as [|? ? Hv1 Hvs]; subst.
    pose proof (len_nonneg pre) as Hpre. pose proof (value_size_nonneg v) as Hsz.
    rewrite enc_all_cons, <- app_assoc in G |- *.
    set (d := pre ++ enc_value (rlittle c) v ++ enc_all (rlittle c) vs ++ post) in *.
    assert (Hlen : len d = len pre + value_size v + len (enc_all (rlittle c) vs ++ post)).
    { unfold d. rewrite !len_app, enc_value_len. lia. }
    pose proof (len_nonneg (enc_all (rlittle c) vs ++ post)) as Hrest.
    assert (Hslice : slice d (rpos c) (rpos c + value_size v) = enc_value (rlittle c) v).
    { rewrite Hp. rewrite <- (enc_value_len (rlittle c) v). unfold d. apply slice_app_mid. }
    assert (Hstep : exists s1 ob,
      step any_backend (mkSys s c o) (read_op v) =
        Some (mkSys s1 (mkReader (rpos c + value_size v) 0 (rlittle c)) o, ob) /\
      returns ob v /\ good d s1 (rpos c + value_size v) /\ random_access s1 = random_access s).
    { destruct (Z.eq_dec (value_size v) 0) as [Hz|Hz].
      - (* only the empty byte string has size 0 *)
        destruct v; cbn [value_size] in Hz; try lia. apply list_len0 in Hz. subst l.
        cbn [read_op step value_size]. change (len (@nil Z)) with 0.
        unfold read_bytes, set_cur. cbn [bst cur oth].
        rewrite (good_bytes_zero d s (rpos c) true G ltac:(lia)).
        cbn [option_bind fst snd br_data br_nil br_err nil_res]. change (len (@nil Z)) with 0.
        rewrite He. cbn. exists s, (VData true []). rewrite Z.add_0_r in *. repeat split; auto.
      - assert (Hw : 0 < value_size v) by lia.
        destruct (typed_read_in_range d s c o (read_op v) G ltac:(lia) (typed_read_op v Hw)
                    ltac:(rewrite op_width_read_op; lia)) as (s1 & S1 & G1 & RA1).
        rewrite op_width_read_op in *. rewrite Hslice, He in S1.
        exists s1, (read_value (read_op v) (rlittle c) (enc_value (rlittle c) v)).
        repeat split; auto. apply read_value_returns. exact Hv1. }
    destruct Hstep as (s1 & ob & S1 & Ret & G1 & RA1).
    destruct (IH (pre ++ enc_value (rlittle c) v) post s1
                 (mkReader (rpos c + value_size v) 0 (rlittle c)) o d) as (s' & outs & R & F2 & G' & RA');
      cbn [rpos rlittle rerr]; auto.
    { unfold d. rewrite <- app_assoc. reflexivity. }
    { rewrite len_app, enc_value_len. lia. }
    exists s', (ob :: outs). cbn [map run]. rewrite S1. cbn [option_bind fst snd].
    rewrite R. cbn [option_bind fst snd]. cbn [values_size].
    rewrite len_app, enc_value_len in *.
    replace (len pre + (value_size v + values_size vs)) with (len pre + value_size v + values_size vs) by lia.
    repeat split; auto. congruence.
Qed.

Lemma run_app {S : Type} (B : backend S) a : forall b st st1 o1,
  run B st a = Some (st1, o1) ->
  run B st (a ++ b) = match run B st1 b with Some (st2, o2) => Some (st2, o1 ++ o2) | None => None end.
Proof.
  induction a as [|x a IH]; intros b st st1 o1 H; cbn [run app] in *.
  - inversion H; subst. destruct (run B st1 b) as [[? ?]|]; reflexivity.
  - destruct (step B st x) as [[st' v]|]; [|discriminate]. cbn [option_bind fst snd] in *.
    destruct (run B st' a) as [[st'' vs]|] eqn:E; [|discriminate]. cbn [option_bind fst snd] in H.
    inversion H; subst. rewrite (IH b st' st1 vs E).
    destruct (run B st1 b) as [[? ?]|]; reflexivity.
Qed.

Theorem write_read_roundtrip_proof s little vs1 vs2 :
  healthy s (write_all little (vs1 ++ vs2)) -> Forall valid_value vs1 ->
  exists st' outs,
    run any_backend (new_sys s) (OOrder little :: map read_op vs1 ++ [OPos; OLen; OErr]) =
      Some (st', VNone :: outs ++ [VInt (values_size vs1); VInt (values_size vs2); VInt 0]) /\
    Forall2 returns outs vs1.
Proof.
  intros H Hv. rewrite write_all_enc, enc_all_app in H.
  set (d := enc_all little vs1 ++ enc_all little vs2) in *.
  pose proof (healthy_good s d H) as G.
  destruct (roundtrip_run little vs1 [] (enc_all little vs2) s (mkReader 0 0 little) (mkReader 0 0 false) d)
    as (s' & outs & R & F2 & G' & RA); cbn [rpos rerr rlittle app]; auto.
  change (len (@nil Z)) with 0 in *. rewrite Z.add_0_l in *.
  pose proof (good_len d s' _ G') as HL.
  eexists _, outs. split; [|exact F2].
  cbn [run step new_sys cur bst oth rpos rerr rlittle]. unfold set_cur. cbn [bst oth option_bind fst snd].
  rewrite (run_app any_backend _ _ _ _ _ R).
  cbn [run step cur bst oth rpos rerr option_bind fst snd]. rewrite HL.
  unfold d. rewrite len_app, !len_enc_all.
  replace (values_size vs1 + values_size vs2 - values_size vs1) with (values_size vs2) by lia.
  reflexivity.
Qed.

(* ---- non-vacuity --------------------------------------------------------------------------------------- *)
Definition ex_values : list value := [VU16 513; VI24 (-2); VBytes [7; 8]; VU64 (2 ^ 63 + 5); VI8 (-128)].

Example roundtrip_hypotheses_met :
  healthy (SReader (mkR (write_all true (ex_values ++ [VU8 9])) [1; 2; 1] false E_EOF 0
                        (len (write_all true (ex_values ++ [VU8 9])))))
          (write_all true (ex_values ++ [VU8 9])) /\
  Forall valid_value ex_values /\
  write_all true (ex_values ++ [VU8 9]) = [1; 2; 254; 255; 255; 7; 8; 5; 0; 0; 0; 0; 0; 0; 128; 128; 9].
Proof.
  split; [apply H_reader; repeat constructor|]. split; [|reflexivity].
  unfold ex_values. repeat constructor; cbn [valid_value]; lia.
Qed.

Example independence_hypotheses_met :
  let d := [1; 2; 3; 4; 5] in
  let ops := [OU16; OClone; OSeek (-2) 2; ORead 5; OReadAt 2 1; OSwap; OU8; OLen] in
  healthy (SSeeker (mkK d [1; 3] false E_EOF (len d) false true)) d /\
  Forall (allowed true) ops /\ clean bytes_backend (new_sys d) ops /\
  option_map snd (run bytes_backend (new_sys d) ops) =
    Some [VInt 258; VNone; VIntErr 3 0; VRead 2 1 [4; 5]; VRead 2 0 [2; 3]; VNone; VInt 3; VInt 2].
Proof.
  cbn zeta. split; [apply H_seeker; repeat constructor|]. split.
  - repeat constructor; cbn [allowed]; auto; lia.
  - split; [vm_compute; repeat split|reflexivity].
Qed.

Example seek_example :
  seek bytes_backend (mkSys [1; 2; 3; 4; 5; 6; 7; 8; 9; 10] (mkReader 4 0 false) (mkReader 0 0 false)) (-3) 2
  = (mkSys [1; 2; 3; 4; 5; 6; 7; 8; 9; 10] (mkReader 7 0 false) (mkReader 0 0 false), VIntErr 7 0).
Proof. reflexivity. Qed.
