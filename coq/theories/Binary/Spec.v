(* Binary/Spec.v — the vocabulary of the C19 statements (definitions only, nothing executable that the
   correspondence run uses): which backend states are healthy sources of a byte string, which
   operations a backend supports, and when a run "stays inside the data". *)
From Verif Require Import Common.Base Binary.Model.

(* every Read call of the underlying stream delivers at least one byte *)
Definition positive_sched (s : list Z) : Prop := Forall (fun c => 0 < c) s.

(* run_ok k s: the script s, entered after k consecutive empty reads ((0, nil): an entry <= 0), never
   delivers a 100th consecutive empty read.  tame_sched: every run of empty reads is shorter than
   maxConsecutiveEmptyReads = 100. *)
Fixpoint run_ok (k : Z) (s : list Z) : Prop :=
  match s with
  | [] => True
  | c :: t => if 0 <? c then run_ok 0 t else k + 1 < MAX_EMPTY /\ run_ok (k + 1) t
  end.
Definition tame_sched (s : list Z) : Prop := run_ok 0 s.

(* A healthy source of the byte string d, as the constructors build it: the stream delivers d in
   arbitrary chunks, with fewer than 100 consecutive empty reads ((0, nil)) between them (tame_sched),
   reports io.EOF after the last byte or together with the last bytes (ewl),
   and the size handed to the constructor is len d.  (An os.File is the ReadSeeker backend with a closer
   and no schedule.) *)
Inductive healthy : bstate -> list Z -> Prop :=
| H_bytes d : healthy (SBytes d) d
| H_mmap d : healthy (SMmap (mmap_open d)) d
| H_reader d sched ewl : tame_sched sched -> healthy (SReader (mkR d sched ewl E_EOF 0 (len d))) d
| H_seeker d sched ewl closer : tame_sched sched ->
    healthy (SSeeker (mkK d sched ewl E_EOF (len d) false closer)) d
| H_readerat d ewl : healthy (SReaderAt (mkA d [] ewl E_EOF (len d))) d.

(* binaryReaderReader cannot seek; the others serve any offset *)
Definition random_access (s : bstate) : bool := match s with SReader _ => false | _ => true end.

(* operations a backend supports (ra = random access); lengths and offsets are non-negative *)
Definition allowed (ra : bool) (o : op) : Prop :=
  match o with
  | OSeek _ _ | OClone | OSwap => ra = true
  | OReadAt n off => ra = true /\ 0 <= n /\ 0 <= off
  | ORead n | OReadBytes n | OReadString n => 0 <= n
  | OClose => False
  | _ => True
  end.

(* no read has run past the end so far: Err() of the reader and of its clone is nil after every step *)
Fixpoint clean {S : Type} (B : backend S) (st : sys S) (ops : list op) : Prop :=
  match ops with
  | [] => True
  | o :: rest =>
      match step B st o with
      | Some (st', _) => rerr (cur st') = 0 /\ rerr (oth st') = 0 /\ clean B st' rest
      | None => False
      end
  end.

(* the typed reads (every ReadXxx and ReadBytes(n)) *)
Definition typed_read (o : op) : Prop :=
  match o with
  | OU8 | OU16 | OU24 | OU32 | OU64 | OI8 | OI16 | OI24 | OI32 | OI64 | OReadByte => True
  | OReadBytes n | OReadString n => 0 < n
  | _ => False
  end.

(* number of bytes a typed read asks for *)
Definition op_width (o : op) : Z :=
  match o with
  | OU8 | OI8 | OReadByte => 1 | OU16 | OI16 => 2 | OU24 | OI24 => 3 | OU32 | OI32 => 4 | OU64 | OI64 => 8
  | OReadBytes n | OReadString n => n
  | _ => 0
  end.

(* the zero value a typed read returns once it has run past the end (ReadBytes: the bytes left) *)
Definition zero_obs (o : op) (rest : list Z) (e : Z) (v : obs) : Prop :=
  match o with
  | OReadBytes _ => exists isnil, v = VData isnil rest
  | OReadString _ => v = VData false rest
  | OReadByte => v = VIntErr 0 e
  | _ => v = VInt 0
  end.

(* every operation except Close (which unmaps a memory map) *)
Definition no_close (o : op) : Prop := match o with OClose => False | _ => True end.

(* bit i of a buffer, most significant bit of byte 0 first *)
Definition bit_at (buf : list Z) (i : Z) : bool := Z.testbit (getz buf (i / 8)) (7 - i mod 8).

(* what a typed read returns when its bytes are all there: the Go expression applied to d[p:p+w] *)
Definition read_value (o : op) (little : bool) (data : list Z) : obs :=
  match o with
  | OU8 => VInt (getz data 0) | OI8 => VInt (to_signed 8 (getz data 0))
  | OReadByte => VIntErr (getz data 0) E_NIL
  | OU16 => VInt (dec_u16 little data) | OI16 => VInt (to_signed 16 (dec_u16 little data))
  | OU24 => VInt (dec_u24 little data) | OI24 => VInt (sext24 (dec_u24 little data))
  | OU32 => VInt (dec_u32 little data) | OI32 => VInt (to_signed 32 (dec_u32 little data))
  | OU64 => VInt (dec_u64 little data) | OI64 => VInt (to_signed 64 (dec_u64 little data))
  | OReadBytes _ | OReadString _ => VData false data
  | _ => VNone
  end.

(* all values written with one byte order *)
Definition enc_all (little : bool) (vs : list value) : list Z := concat (map (enc_value little) vs).

(* a state some healthy source of d can be in: any supported operations have been applied, none panicked
   (reads may have run past the end, positions may have been moved by Seek) *)
Inductive reachable (d : list Z) : sys bstate -> Prop :=
| R_init s : healthy s d -> reachable d (new_sys s)
| R_step st o st' v :
    reachable d st -> allowed (random_access (bst st)) o -> step any_backend st o = Some (st', v) ->
    reachable d st'.


(* observations equal up to the nil-ness of a byte string (ReadBytes past the end returns nil on the
   in-memory backend and an empty non-nil slice on the stream backends) *)
Definition obs_eqv (a b : obs) : Prop :=
  a = b \/ exists n1 n2 l, a = VData n1 l /\ b = VData n2 l.

(* the two backends that hold the data in memory: binaryReaderBytes and binaryReaderMmap (open or closed) *)
Definition mem_state (s : bstate) : Prop :=
  match s with SBytes _ | SMmap _ => True | _ => False end.
