(* Binary/Bitmap.v — BitmapReader yields bit i of the buffer (most significant first) for every
   i < 8*len buf and then EOF; BitmapWriter ORs bit i into the buffer; the round trip. *)
From Verif Require Import Common.Base Common.Tactics Common.Bits Binary.Model Binary.Spec Binary.Lists.
From Coq Require Import ZifyBool.
Ltac Zify.zify_post_hook ::= Z.div_mod_to_equations.

(* ---- masks ------------------------------------------------------------------------------------------------ *)
Lemma mask_pow2 i : Z.shiftr 128 (Z.land i 7) = 2 ^ (7 - i mod 8).
Proof.
  rewrite land7.
  assert (H : i mod 8 = 0 \/ i mod 8 = 1 \/ i mod 8 = 2 \/ i mod 8 = 3 \/ i mod 8 = 4 \/ i mod 8 = 5 \/
              i mod 8 = 6 \/ i mod 8 = 7) by lia.
  destruct H as [H|[H|[H|[H|[H|[H|[H|H]]]]]]]; rewrite H; reflexivity.
Qed.

Lemma land_pow2 c t : 0 <= t -> Z.land c (2 ^ t) = if Z.testbit c t then 2 ^ t else 0.
Proof.
  intros Ht. apply Z.bits_inj'. intros n Hn. rewrite Z.land_spec, Z.pow2_bits_eqb by exact Ht.
  destruct (Z.eqb_spec t n) as [->|Hne].
  - destruct (Z.testbit c n) eqn:E; cbn.
    + rewrite Z.pow2_bits_true by exact Hn. reflexivity.
    + rewrite Z.bits_0. reflexivity.
  - rewrite andb_false_r. destruct (Z.testbit c t).
    + rewrite Z.pow2_bits_false by (exact Hne). reflexivity.
    + rewrite Z.bits_0. reflexivity.
Qed.

Lemma test_mask c t : 0 <= t -> negb (Z.land c (2 ^ t) =? 0) = Z.testbit c t.
Proof.
  intros Ht. rewrite land_pow2 by exact Ht. destruct (Z.testbit c t).
  - assert (0 < 2 ^ t) by (apply Z.pow_pos_nonneg; lia).
    replace (2 ^ t =? 0) with false by (symmetry; apply Z.eqb_neq; lia). reflexivity.
  - reflexivity.
Qed.

Lemma testbit_lor_pow2 c t u : 0 <= t -> Z.testbit (Z.lor c (2 ^ t)) u = Z.testbit c u || (u =? t).
Proof.
  intros Ht. rewrite Z.lor_spec.
  destruct (Z.ltb_spec u 0) as [Hu|Hu].
  - rewrite !Z.testbit_neg_r by lia. replace (u =? t) with false by (symmetry; apply Z.eqb_neq; lia). reflexivity.
  - rewrite Z.pow2_bits_eqb by exact Ht. rewrite (Z.eqb_sym t u). reflexivity.
Qed.

(* ---- getz over the writer's list surgery --------------------------------------------------------------------- *)
Lemma getz_out l x : ~ (0 <= x < len l) -> getz l x = 0.
Proof. intros H. unfold getz. apply peekz_none_iff in H. rewrite H. reflexivity. Qed.

Lemma getz_app_zero buf x : getz (buf ++ [0]) x = getz buf x.
Proof.
  pose proof (len_nonneg buf).
  destruct (Z.lt_ge_cases x 0); [rewrite !getz_out by (rewrite ?len_app; change (len [0]) with 1; lia); reflexivity|].
  destruct (Z.lt_ge_cases x (len buf)); [apply getz_app_l; lia|].
  rewrite (getz_out buf) by lia.
  destruct (Z.eq_dec x (len buf)) as [->|Hne].
  - unfold getz. rewrite peekz_sentinel. reflexivity.
  - apply getz_out. rewrite len_app. change (len [0]) with 1. lia.
Qed.

Lemma nth_error_firstn_lt {A} (l : list A) : forall q x, (x < q)%nat -> nth_error (firstn q l) x = nth_error l x.
Proof.
  induction l as [|a l IH]; intros q x H.
  - rewrite firstn_nil. reflexivity.
  - destruct q; [lia|]. destruct x; [reflexivity|]. cbn. apply IH. lia.
Qed.

Lemma nth_error_skipn_add {A} (l : list A) : forall a y, nth_error (skipn a l) y = nth_error l (a + y).
Proof.
  induction l as [|b l IH]; intros a y.
  - rewrite skipn_nil. destruct y, a; reflexivity.
  - destruct a; [reflexivity|]. cbn. apply IH.
Qed.

Lemma getz_setz l q v x : 0 <= q < len l -> getz (setz l q v) x = if x =? q then v else getz l x.
Proof.
  intros Hq. unfold setz. zb. cbn [andb].
  assert (Hf : len (firstz q l) = q) by (apply len_firstz; lia).
  destruct (Z.eqb_spec x q) as [->|Hne].
  - unfold getz. rewrite peekz_app_r by lia. rewrite Hf, Z.sub_diag. rewrite peekz_cons0. reflexivity.
  - destruct (Z.lt_ge_cases x 0).
    { rewrite !getz_out; [reflexivity|lia|lia]. }
    destruct (Z.lt_ge_cases x q).
    + rewrite getz_app_l by lia. unfold getz, peekz. rewrite Hf. zb. cbn [andb].
      unfold firstz. rewrite nth_error_firstn_lt by lia. reflexivity.
    + unfold getz at 1. rewrite peekz_app_r by lia. rewrite Hf.
      unfold getz, peekz. rewrite len_cons.
      assert (Hs : len (skipz (q + 1) l) = len l - (q + 1)) by (apply len_skipz; lia).
      rewrite Hs.
      destruct (Z.lt_ge_cases x (len l)).
      * zb. cbn [andb].
        replace (Z.to_nat (x - q)) with (S (Z.to_nat (x - q - 1))) by lia. cbn [nth_error].
        unfold skipz. rewrite nth_error_skipn_add.
        replace (Z.to_nat (q + 1) + Z.to_nat (x - q - 1))%nat with (Z.to_nat x) by lia. reflexivity.
      * zb. cbn [andb]. reflexivity.
Qed.

Lemma len_setz l q v : len (setz l q v) = len l.
Proof.
  unfold setz. destruct (Z.leb_spec 0 q); cbn [andb]; [|reflexivity].
  destruct (Z.ltb_spec q (len l)); [|reflexivity].
  rewrite len_app, len_cons, len_firstz, len_skipz by lia. lia.
Qed.

(* ---- bit_at ------------------------------------------------------------------------------------------------------ *)
Lemma same_bit j i : (j =? i) = ((j / 8 =? i / 8) && (7 - j mod 8 =? 7 - i mod 8)).
Proof.
  destruct (Z.eqb_spec j i) as [->|H].
  - rewrite !Z.eqb_refl. reflexivity.
  - destruct (Z.eqb_spec (j / 8) (i / 8)); destruct (Z.eqb_spec (7 - j mod 8) (7 - i mod 8)); try reflexivity. lia.
Qed.

(* ---- BitmapReader ------------------------------------------------------------------------------------------------- *)
Lemma bmr_read_bit buf i :
  len buf < 2 ^ 29 -> 0 <= i -> i / 8 < len buf ->
  bmr_read (mkBmr buf i false) = Some (mkBmr buf (i + 1) false, bit_at buf i).
Proof.
  intros Hl Hi Hin. change (2 ^ 29) with 536870912 in Hl. pose proof (len_nonneg buf).
  unfold bmr_read. cbn [bm_eof bm_buf bm_pos orb].
  rewrite Z.quot_div_nonneg by lia. change (2 ^ 32) with 4294967296.
  rewrite (Z.mod_small (len buf)) by lia.
  replace (len buf <=? i / 8) with false by (symmetry; apply Z.leb_gt; lia).
  rewrite Z.shiftr_div_pow2 by lia. change (2 ^ 3) with 8.
  rewrite (peekz_getz_b buf (i / 8)) by lia. cbn [option_bind].
  rewrite mask_pow2, test_mask by lia.
  rewrite Z.mod_small by lia. reflexivity.
Qed.

Lemma bmr_read_end buf e :
  len buf < 2 ^ 29 ->
  bmr_read (mkBmr buf (8 * len buf) e) = Some (mkBmr buf (8 * len buf) true, false).
Proof.
  intros Hl. change (2 ^ 29) with 536870912 in Hl. pose proof (len_nonneg buf).
  unfold bmr_read. cbn [bm_eof bm_buf bm_pos].
  rewrite Z.quot_div_nonneg by lia. change (2 ^ 32) with 4294967296.
  rewrite (Z.mod_small (len buf)) by lia.
  replace (len buf <=? 8 * len buf / 8) with true by (symmetry; apply Z.leb_le; lia).
  rewrite orb_true_r. reflexivity.
Qed.

Lemma bmr_read_eof buf p : bmr_read (mkBmr buf p true) = Some (mkBmr buf p true, false).
Proof. reflexivity. Qed.

Lemma bmr_reads_bits buf : len buf < 2 ^ 29 -> forall k i,
  0 <= i -> i + Z.of_nat k <= 8 * len buf ->
  bmr_reads k (mkBmr buf i false) =
    Some (mkBmr buf (i + Z.of_nat k) false, map (fun t => (bit_at buf t, t + 1, false)) (zrange_from i k)).
Proof.
  intros Hl. induction k as [|k IH]; intros i Hi Hk.
  - cbn [bmr_reads zrange_from map]. rewrite Z.add_0_r. reflexivity.
  - cbn [bmr_reads]. rewrite bmr_read_bit by lia. cbn [option_bind fst snd].
    rewrite IH by lia. cbn [option_bind fst snd bm_pos bm_eof zrange_from map].
    replace (i + Z.of_nat (S k)) with (i + 1 + Z.of_nat k) by lia. reflexivity.
Qed.

Lemma bmr_reads_eof buf p : forall m,
  bmr_reads m (mkBmr buf p true) = Some (mkBmr buf p true, repeat (false, p, true) m).
Proof.
  induction m as [|m IH]; [reflexivity|].
  cbn [bmr_reads]. rewrite bmr_read_eof. cbn [option_bind fst snd]. rewrite IH. reflexivity.
Qed.

Lemma bmr_reads_app a : forall b r r1 o1,
  bmr_reads a r = Some (r1, o1) ->
  bmr_reads (a + b) r = match bmr_reads b r1 with Some (r2, o2) => Some (r2, o1 ++ o2) | None => None end.
Proof.
  induction a as [|a IH]; intros b r r1 o1 H; cbn [bmr_reads Nat.add] in *.
  - inversion H; subst. destruct (bmr_reads b r1) as [[? ?]|]; reflexivity.
  - destruct (bmr_read r) as [[r' bit]|]; [|discriminate]. cbn [option_bind fst snd] in *.
    destruct (bmr_reads a r') as [[r'' outs]|] eqn:E; [|discriminate]. cbn [option_bind fst snd] in H.
    inversion H; subst. rewrite (IH b r' r1 outs E).
    destruct (bmr_reads b r1) as [[? ?]|]; reflexivity.
Qed.

(* exactly 8 * len buf reads succeed: they return the bits of buf in order with EOF() = false; every later
   read returns false with EOF() = true and the position stays 8 * len buf *)
Theorem bitmap_all_bits_proof buf m :
  len buf < 2 ^ 29 ->
  let n := Z.to_nat (8 * len buf) in
  bmr_reads (n + m) (bmr_new buf) =
    Some (mkBmr buf (8 * len buf) (negb (Nat.eqb m 0)),
          map (fun t => (bit_at buf t, t + 1, false)) (zrange_from 0 n) ++ repeat (false, 8 * len buf, true) m).
Proof.
  intros Hl. cbn zeta. pose proof (len_nonneg buf).
  pose proof (bmr_reads_bits buf Hl (Z.to_nat (8 * len buf)) 0 ltac:(lia) ltac:(lia)) as Hb.
  rewrite Z2Nat.id, Z.add_0_l in Hb by lia.
  unfold bmr_new. rewrite (bmr_reads_app _ m _ _ _ Hb).
  destruct m as [|m]; [reflexivity|].
  cbn [bmr_reads]. rewrite bmr_read_end by exact Hl. cbn [option_bind fst snd].
  rewrite bmr_reads_eof. cbn [option_bind fst snd bm_pos bm_eof repeat Nat.eqb negb]. reflexivity.
Qed.

(* ---- BitmapWriter --------------------------------------------------------------------------------------------------- *)
Definition nthb (bits : list bool) (j : Z) : bool :=
  if j <? 0 then false else nth (Z.to_nat j) bits false.

Lemma nthb_cons b rest j : nthb (b :: rest) j = if j =? 0 then b else nthb rest (j - 1).
Proof.
  unfold nthb. destruct (Z.ltb_spec j 0).
  - replace (j =? 0) with false by (symmetry; apply Z.eqb_neq; lia).
    replace (j - 1 <? 0) with true by (symmetry; apply Z.ltb_lt; lia). reflexivity.
  - destruct (Z.eqb_spec j 0) as [->|Hne]; [reflexivity|].
    replace (j - 1 <? 0) with false by (symmetry; apply Z.ltb_ge; lia).
    replace (Z.to_nat j) with (S (Z.to_nat (j - 1))) by lia. reflexivity.
Qed.

Lemma nthb_nil j : nthb [] j = false.
Proof. unfold nthb. destruct (j <? 0); [reflexivity|]. destruct (Z.to_nat j); reflexivity. Qed.

Lemma bmw_write_spec w b :
  0 <= bw_pos w < 2 ^ 64 - 1 -> bw_pos w / 8 <= len (bw_buf w) ->
  exists w', bmw_write w b = Some w' /\
    bw_pos w' = bw_pos w + 1 /\
    bw_pos w / 8 < len (bw_buf w') /\
    len (bw_buf w) <= len (bw_buf w') <= Z.max (len (bw_buf w)) ((bw_pos w + 1) / 8 + 1) /\
    forall j, bit_at (bw_buf w') j = bit_at (bw_buf w) j || (b && (j =? bw_pos w)).
Proof.
  intros Hp Hl. change (2 ^ 64) with 18446744073709551616 in Hp.
  destruct w as [buf i]. cbn [bw_pos bw_buf] in *. pose proof (len_nonneg buf).
  unfold bmw_write. cbn [bw_pos bw_buf]. change (2 ^ 64) with 18446744073709551616.
  rewrite Z.mod_small by lia. rewrite Z.quot_div_nonneg by lia.
  rewrite Z.shiftr_div_pow2 by lia. change (2 ^ 3) with 8.
  set (buf' := if len buf <=? (i + 1) / 8 then buf ++ [0] else buf).
  assert (Hlen' : i / 8 < len buf' /\ len buf <= len buf' <= Z.max (len buf) ((i + 1) / 8 + 1)).
  { unfold buf'. destruct (Z.leb_spec (len buf) ((i + 1) / 8)).
    - rewrite len_app. change (len [0]) with 1. lia.
    - lia. }
  assert (Hget : forall x, getz buf' x = getz buf x).
  { intros x. unfold buf'. destruct (len buf <=? (i + 1) / 8); [apply getz_app_zero|reflexivity]. }
  destruct b.
  - rewrite (peekz_getz_b buf' (i / 8)) by lia. cbn [option_bind].
    eexists. split; [reflexivity|]. cbn [bw_pos bw_buf]. rewrite len_setz.
    split; [reflexivity|]. split; [lia|]. split; [lia|].
    intros j. unfold bit_at. rewrite getz_setz by lia. rewrite mask_pow2.
    cbn [andb]. rewrite (same_bit j i).
    destruct (Z.eqb_spec (j / 8) (i / 8)) as [E|E].
    + rewrite E. rewrite testbit_lor_pow2 by lia. rewrite Hget. reflexivity.
    + cbn [andb]. rewrite orb_false_r. rewrite Hget. reflexivity.
  - eexists. split; [reflexivity|]. cbn [bw_pos bw_buf].
    split; [reflexivity|]. split; [lia|]. split; [lia|].
    intros j. unfold bit_at. rewrite Hget. cbn [andb]. rewrite orb_false_r. reflexivity.
Qed.

(* the writer never panics; bit j of the result is bit j of the initial buffer OR the j-th written bit *)
Lemma bmw_writes_spec : forall bits w,
  0 <= bw_pos w -> bw_pos w + len bits < 2 ^ 64 -> bw_pos w / 8 <= len (bw_buf w) ->
  exists w', bmw_writes w bits = Some w' /\
    bw_pos w' = bw_pos w + len bits /\
    (bits <> [] -> (bw_pos w' - 1) / 8 < len (bw_buf w')) /\
    len (bw_buf w) <= len (bw_buf w') <= Z.max (len (bw_buf w)) (bw_pos w' / 8 + 1) /\
    forall j, bit_at (bw_buf w') j = bit_at (bw_buf w) j || nthb bits (j - bw_pos w).
Proof.
  induction bits as [|b rest IH]; intros w Hp Hlt Hl.
  - exists w. cbn [bmw_writes]. change (len (@nil bool)) with 0. rewrite Z.add_0_r.
    split; [reflexivity|]. split; [reflexivity|]. split; [congruence|]. split; [lia|].
    intros j. rewrite nthb_nil, orb_false_r. reflexivity.
  - rewrite len_cons in Hlt. pose proof (len_nonneg rest) as Hr.
    destruct (bmw_write_spec w b ltac:(lia) Hl) as (w1 & W1 & P1 & L1 & L1' & B1).
    destruct (IH w1 ltac:(lia) ltac:(lia) ltac:(rewrite P1; lia)) as (w' & W' & P' & L' & L'' & B').
    exists w'. cbn [bmw_writes]. rewrite W1. cbn [option_bind]. rewrite W'.
    split; [reflexivity|]. rewrite len_cons. split; [lia|]. split.
    + intros _. destruct rest as [|b2 rest'].
      * cbn [bmw_writes] in W'. inversion W'; subst. rewrite P1.
        replace (bw_pos w + 1 - 1) with (bw_pos w) by lia. exact L1.
      * apply L'. discriminate.
    + split; [rewrite P' in *; rewrite P1 in *; lia|].
      intros j. rewrite B', B1, nthb_cons, P1.
      replace (j - (bw_pos w + 1)) with (j - bw_pos w - 1) by lia.
      destruct (Z.eqb_spec j (bw_pos w)) as [->|Hne].
      * rewrite Z.sub_diag. cbn. rewrite andb_true_r.
        replace (nthb rest (0 - 1)) with false by reflexivity. rewrite orb_false_r. reflexivity.
      * replace (j - bw_pos w =? 0) with false by (symmetry; apply Z.eqb_neq; lia).
        rewrite andb_false_r, orb_false_r. reflexivity.
Qed.

Lemma bit_at_nil j : bit_at [] j = false.
Proof. unfold bit_at. rewrite getz_out by (change (len (@nil Z)) with 0; lia). apply Z.bits_0. Qed.

Lemma map_nthb_range bits : forall off,
  map (fun t => nthb bits (t - off)) (zrange_from off (length bits)) = bits.
Proof.
  induction bits as [|b rest IH]; intros off; [reflexivity|].
  cbn [length zrange_from map]. rewrite Z.sub_diag. change (nthb (b :: rest) 0) with b. f_equal.
  rewrite <- (IH (off + 1)) at 2. apply map_ext_in. intros t Ht.
  apply zrange_from_bounds in Ht. rewrite nthb_cons.
  replace (t - off =? 0) with false by (symmetry; apply Z.eqb_neq; lia).
  f_equal. lia.
Qed.

(* bits written to a fresh writer are returned in order by the reader (EOF() false, Pos() = i+1) *)
Theorem bitmap_roundtrip_proof bits :
  len bits < 2 ^ 32 - 8 ->
  exists w r,
    bmw_writes (bmw_new []) bits = Some w /\
    bmr_reads (length bits) (bmr_new (bw_buf w)) =
      Some (r, map (fun t => (nthb bits t, t + 1, false)) (zrange_from 0 (length bits))) /\
    map (fun x => fst (fst x)) (map (fun t => (nthb bits t, t + 1, false)) (zrange_from 0 (length bits))) = bits.
Proof.
  intros Hl. change (2 ^ 32) with 4294967296 in Hl. pose proof (len_nonneg bits) as Hb.
  destruct (bmw_writes_spec bits (bmw_new []) ltac:(cbn; lia)
              ltac:(cbn [bmw_new bw_pos]; change (2 ^ 64) with 18446744073709551616; lia)
              ltac:(cbn; lia)) as (w & W & P & L1 & L2 & B).
  cbn [bmw_new bw_pos bw_buf] in *. change (len (@nil Z)) with 0 in L2. rewrite Z.add_0_l in P.
  assert (Hlen : len (bw_buf w) < 2 ^ 29).
  { change (2 ^ 29) with 536870912. rewrite P in L2. lia. }
  exists w, (mkBmr (bw_buf w) (0 + Z.of_nat (length bits)) false). split; [exact W|].
  assert (Hk : 0 + Z.of_nat (length bits) <= 8 * len (bw_buf w)).
  { destruct bits as [|b0 rest]; [cbn [length Z.of_nat]; pose proof (len_nonneg (bw_buf w)); lia|].
    specialize (L1 ltac:(discriminate)). rewrite P in L1. unfold len in *. lia. }
  unfold bmr_new. rewrite (bmr_reads_bits (bw_buf w) Hlen (length bits) 0 ltac:(lia) Hk).
  split.
  - assert (E : map (fun t : Z => (bit_at (bw_buf w) t, t + 1, false)) (zrange_from 0 (length bits)) =
                map (fun t : Z => (nthb bits t, t + 1, false)) (zrange_from 0 (length bits))).
    { apply map_ext. intros t. rewrite B, bit_at_nil, Z.sub_0_r. reflexivity. }
    rewrite E. reflexivity.
  - rewrite map_map. cbn [fst].
    transitivity (map (fun t => nthb bits (t - 0)) (zrange_from 0 (length bits))).
    + apply map_ext. intros t. rewrite Z.sub_0_r. reflexivity.
    + apply map_nthb_range.
Qed.

(* general form: any initial buffer; the writer never panics and ORs the bits in *)
Theorem bitmap_writer_spec_proof init bits :
  len bits < 2 ^ 64 ->
  exists w, bmw_writes (bmw_new init) bits = Some w /\
    bw_pos w = len bits /\
    forall j, bit_at (bw_buf w) j = bit_at init j || nthb bits j.
Proof.
  intros Hl. pose proof (len_nonneg init).
  assert (H1 : 0 <= bw_pos (bmw_new init)) by (cbn [bmw_new bw_pos]; lia).
  assert (H2 : bw_pos (bmw_new init) + len bits < 2 ^ 64) by (cbn [bmw_new bw_pos]; rewrite Z.add_0_l; exact Hl).
  assert (H3 : bw_pos (bmw_new init) / 8 <= len (bw_buf (bmw_new init))).
  { cbn [bmw_new bw_pos bw_buf]. change (0 / 8) with 0. lia. }
  destruct (bmw_writes_spec bits (bmw_new init) H1 H2 H3) as (w & W & P & _ & _ & B).
  exists w. cbn [bmw_new bw_pos bw_buf] in *. split; [exact W|]. split; [lia|].
  intros j. rewrite B, Z.sub_0_r. reflexivity.
Qed.

Example bitmap_example :
  exists w, bmw_writes (bmw_new []) [true; false; true; true; false; false; false; true; true] = Some w /\
            bw_buf w = [177; 128] /\
            option_map snd (bmr_reads 17 (bmr_new [177; 128])) =
              Some [(true, 1, false); (false, 2, false); (true, 3, false); (true, 4, false); (false, 5, false);
                    (false, 6, false); (false, 7, false); (true, 8, false); (true, 9, false); (false, 10, false);
                    (false, 11, false); (false, 12, false); (false, 13, false); (false, 14, false);
                    (false, 15, false); (false, 16, false); (false, 16, true)].
Proof. eexists. split; [vm_compute; reflexivity|]. split; vm_compute; reflexivity. Qed.

(* ---- BitmapReader.pos is a uint32: a buffer of 2^29 bytes (2^32 bits) never reports EOF ----------------------- *)
Lemma bmr_read_bit_wrap buf i :
  len buf = 2 ^ 29 -> 0 <= i < 2 ^ 32 ->
  bmr_read (mkBmr buf i false) = Some (mkBmr buf ((i + 1) mod 2 ^ 32) false, bit_at buf i).
Proof.
  intros Hl Hi. change (2 ^ 29) with 536870912 in Hl. change (2 ^ 32) with 4294967296 in *.
  unfold bmr_read. cbn [bm_eof bm_buf bm_pos orb].
  rewrite Z.quot_div_nonneg by lia. change (2 ^ 32) with 4294967296.
  rewrite Hl. change (536870912 mod 4294967296) with 536870912.
  replace (536870912 <=? i / 8) with false by (symmetry; apply Z.leb_gt; lia).
  rewrite Z.shiftr_div_pow2 by lia. change (2 ^ 3) with 8.
  rewrite (peekz_getz_b buf (i / 8)) by lia. cbn [option_bind].
  rewrite mask_pow2, test_mask by lia. reflexivity.
Qed.

Lemma bmr_reads_never_eof buf : len buf = 2 ^ 29 -> forall k i,
  0 <= i < 2 ^ 32 ->
  exists r outs, bmr_reads k (mkBmr buf i false) = Some (r, outs) /\ bm_eof r = false /\
                 Forall (fun x => snd x = false) outs.
Proof.
  intros Hl. induction k as [|k IH]; intros i Hi.
  - exists (mkBmr buf i false), []. repeat split; constructor.
  - cbn [bmr_reads]. rewrite (bmr_read_bit_wrap buf i Hl Hi). cbn [option_bind fst snd].
    destruct (IH ((i + 1) mod 2 ^ 32)) as (r & outs & R & E & F).
    { apply Z.mod_pos_bound. change (2 ^ 32) with 4294967296. lia. }
    rewrite R. cbn [option_bind fst snd bm_eof bm_pos]. eexists _, _. split; [reflexivity|].
    split; [exact E|]. constructor; [reflexivity|exact F].
Qed.

(* there is a buffer on which no number of reads ever reports EOF, although it has only 2^32 bits *)
Theorem bitmap_all_bits_huge_refuted_proof :
  exists buf, len buf = 2 ^ 29 /\
    forall k, exists r outs, bmr_reads k (bmr_new buf) = Some (r, outs) /\ bm_eof r = false /\
                             Forall (fun x => snd x = false) outs.
Proof.
  exists (repeat 0 (Z.to_nat (2 ^ 29))).
  assert (Hl : len (repeat 0 (Z.to_nat (2 ^ 29))) = 2 ^ 29).
  { unfold len. rewrite repeat_length. apply Z2Nat.id. apply Z.pow_nonneg. lia. }
  split; [exact Hl|]. intros k. apply bmr_reads_never_eof; [exact Hl|].
  split; [lia|]. apply Z.pow_pos_nonneg; lia.
Qed.
