(* Binary/Harness.v — correspondence drivers for the binary reader / writer / bitmap models (C19). *)
From Verif Require Import Common.Base Common.Codec Binary.Model.

Definition b2z (b : bool) : Z := if b then 1 else 0.
Definition z2b (z : Z) : bool := negb (z =? 0).

(* ---- binread ------------------------------------------------------------------------------ *)
Definition decode_rop (code a b : Z) : op :=
  if code =? 0 then OSeek a b else if code =? 1 then ORead a else if code =? 2 then OReadAt a b
  else if code =? 3 then OReadBytes a else if code =? 4 then OReadByte
  else if code =? 5 then OU8 else if code =? 6 then OU16 else if code =? 7 then OU24
  else if code =? 8 then OU32 else if code =? 9 then OU64
  else if code =? 10 then OI8 else if code =? 11 then OI16 else if code =? 12 then OI24
  else if code =? 13 then OI32 else if code =? 14 then OI64
  else if code =? 15 then OPos else if code =? 16 then OLen else if code =? 17 then OErr
  else if code =? 18 then OOrder (z2b a) else if code =? 19 then OClone else if code =? 20 then OSwap
  else if code =? 21 then OClose else if code =? 22 then OInPageCache a b else OReadString a.

Fixpoint decode_rops (l : list Z) : list op :=
  match l with
  | code :: a :: b :: t => decode_rop code a b :: decode_rops t
  | _ => []
  end.

Definition two32 : Z := 4294967296.

(* uint64 results do not fit the harness's int64: OU64 is reported as two 32-bit halves *)
Definition enc_obs (o : op) (v : obs) : list Z :=
  match v with
  | VNone => []
  | VInt x => match o with OU64 => [x / two32; x mod two32] | _ => [x] end
  | VData isnil d => b2z isnil :: d
  | VIntErr x e => [x; e]
  | VRead n e d => n :: e :: d
  end.

(* per op: observation length, observation; -1 at a panic *)
Fixpoint run_enc (st : sys bstate) (ops : list op) : list Z :=
  match ops with
  | [] => [-2]
  | o :: rest =>
      match step any_backend st o with
      | None => [-1]
      | Some (st', v) => let e := enc_obs o v in len e :: e ++ run_enc st' rest
      end
  end.

Definition decode_ctor (kind n : Z) : ctor :=
  if kind =? 0 then CBytes else if kind =? 1 then CMmap else if kind =? 2 then CFile n
  else if kind =? 3 then CPlain n else if kind =? 4 then CSeeker n else if kind =? 5 then CReaderAt n
  else CHasBytes n.

(* case: kind n ewl failing |data| data |sched| sched (code a b)*  ;  -3 = constructor error *)
Definition run_binread (l : list Z) : list Z :=
  let kind := hdz l in
  let n := hdz (tlz l) in
  let ewl := z2b (hdz (tlz (tlz l))) in
  let failing := z2b (hdz (tlz (tlz (tlz l)))) in
  let '(d, r1) := take_list (tlz (tlz (tlz (tlz l)))) in
  let '(sc, r2) := take_list r1 in
  match construct (decode_ctor kind n) d sc ewl failing with
  | None => [-3]
  | Some s => run_enc (new_sys s) (decode_rops r2)
  end.

(* ---- binwrite ----------------------------------------------------------------------------- *)
(* ops: code a b, value = a * 2^32 + b for the 64-bit codes, a otherwise;
   code 10: byte string "10 n b1..bn", code 11: Write "11 n b1..bn", code 12: order a *)
Definition decode_val (code a b : Z) : value :=
  if code =? 0 then VU8 a else if code =? 1 then VU16 a else if code =? 2 then VU24 a
  else if code =? 3 then VU32 a else if code =? 4 then VU64 (a * two32 + b)
  else if code =? 5 then VI8 a else if code =? 6 then VI16 a else if code =? 7 then VI24 a
  else if code =? 8 then VI32 a else VI64 (a * two32 + b).

Fixpoint decode_wops (fuel : nat) (l : list Z) : list wop :=
  match fuel with
  | O => []
  | S f =>
      match l with
      | code :: a :: t =>
          if code =? 10 then WVal (VBytes (firstz a t)) :: decode_wops f (skipz a t)
          else if code =? 11 then WWrite (firstz a t) :: decode_wops f (skipz a t)
          else if code =? 12 then WOrder (z2b a) :: decode_wops f t
          else match t with
               | b :: t' => WVal (decode_val code a b) :: decode_wops f t'
               | [] => []
               end
      | _ => []
      end
  end.

(* observation: per op its result (Write returns len, nil), then -2, Len(), Bytes() *)
Fixpoint wrun_enc (w : writer) (ops : list wop) : list Z :=
  match ops with
  | [] => -2 :: len (wbuf w) :: wbuf w
  | o :: rest =>
      let '(w', v) := wstep w o in
      enc_obs OPos v ++ wrun_enc w' rest
  end.

(* case: |init| init ops *)
Definition run_binwrite (l : list Z) : list Z :=
  let '(init, r) := take_list l in
  wrun_enc (mkW init false) (decode_wops (length r) r).

(* ---- bitmap ------------------------------------------------------------------------------- *)
Fixpoint enc_reads (l : list (bool * Z * bool)) : list Z :=
  match l with
  | [] => []
  | (b, p, e) :: t => b2z b :: p :: b2z e :: enc_reads t
  end.

(* case: k |buf| buf : k reads of NewBitmapReader(buf) *)
Definition run_bitread (l : list Z) : list Z :=
  let k := hdz l in
  let '(buf, _) := take_list (tlz l) in
  match bmr_reads (Z.to_nat k) (bmr_new buf) with
  | None => [-1]
  | Some (_, outs) => enc_reads outs
  end.

(* case: k |init| init bits... : write the bits to NewBitmapWriter(init), then k reads of the result;
   observation: Len, bytes, -2, reads *)
Definition run_bitwrite (l : list Z) : list Z :=
  let k := hdz l in
  let '(init, bits) := take_list (tlz l) in
  match bmw_writes (bmw_new init) (map z2b bits) with
  | None => [-1]
  | Some w =>
      len (bw_buf w) :: bw_buf w ++ -2 ::
      match bmr_reads (Z.to_nat k) (bmr_new (bw_buf w)) with
      | None => [-1]
      | Some (_, outs) => enc_reads outs
      end
  end.
