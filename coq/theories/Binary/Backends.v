(* Binary/Backends.v — the byte-level contract of IBinaryReader.Bytes, proved for the in-memory,
   io.Reader, io.ReadSeeker (= file) and io.ReaderAt backends over every healthy source: for every
   partition of the stream into reads (runs of empty reads shorter than 100), Bytes(b, n, p) returns d[p : p+n] clipped at the end,
   io.EOF exactly when p+n > len d, and leaves the backend able to serve the next request. *)
From Verif Require Import Common.Base Common.Tactics Binary.Model Binary.Spec Binary.Lists.
From Coq Require Import ZifyBool.

(* the backend state can serve d to a reader standing at position p *)
Definition good (d : list Z) (s : bstate) (p : Z) : Prop :=
  match s with
  | SBytes d' => d' = d
  | SMmap m => m = mmap_open d
  | SReader r => r_rem r = skipz p d /\ tame_sched (r_sched r) /\
                 r_fe r = E_EOF /\ r_pos r = p /\ r_size r = len d
  | SSeeker k => k_data k = d /\ tame_sched (k_sched k) /\ k_fe k = E_EOF /\
                 k_size k = len d /\ k_closed k = false
  | SReaderAt a => a_data a = d /\ a_sched a = [] /\ a_fe a = E_EOF /\ a_size a = len d
  end.

Lemma healthy_good s d : healthy s d -> good d s 0.
Proof.
  intros H. destruct H; cbn [good r_rem r_sched r_ewl r_fe r_pos r_size k_data k_sched k_ewl k_fe k_size
                              k_closed a_data a_sched a_ewl a_fe a_size]; repeat split; auto.
Qed.

Lemma good_ra d s p p' : random_access s = true -> good d s p -> good d s p'.
Proof. destruct s; cbn [random_access good]; auto. discriminate. Qed.

Lemma good_len d s p : good d s p -> blen any_backend s = len d.
Proof.
  destruct s as [d'|m|r|k|a]; cbn [good blen any_backend].
  - intros ->. reflexivity.
  - intros ->. reflexivity.
  - intros (_ & _ & _ & _ & H). exact H.
  - intros (_ & _ & _ & H & _). exact H.
  - intros (_ & _ & _ & H). exact H.
Qed.

(* ---- the read loop over a tame stream; io.EOF after or with the last bytes --------------------------------- *)
Lemma run_ok_mono s : forall k k', run_ok k s -> k' <= k -> run_ok k' s.
Proof.
  induction s as [|c t IH]; intros k k' H Hk; cbn [run_ok] in *; [exact I|].
  destruct (0 <? c); [exact H|]. destruct H as (H1 & H2). split; [lia|]. eapply IH; [exact H2|lia].
Qed.

Lemma positive_tame s : positive_sched s -> tame_sched s.
Proof.
  unfold tame_sched. induction 1 as [|c t Hc _ IH]; cbn [run_ok]; [exact I|].
  replace (0 <? c) with true by (symmetry; apply Z.ltb_lt; exact Hc). exact IH.
Qed.

Lemma run_ok_tame k s : 0 <= k -> run_ok k s -> tame_sched s.
Proof. intros Hk H. unfold tame_sched. eapply run_ok_mono; eauto. Qed.

Lemma read_loop_healthy ewl fuel : forall rem sched need empty acc k,
  run_ok k sched -> 0 <= empty <= k -> empty < MAX_EMPTY -> 0 <= need ->
  (Z.to_nat (100 * need + 100 - empty) < fuel)%nat ->
  let r := read_loop fuel rem sched ewl E_EOF need empty acc in
  rd_out r = acc ++ firstz (Z.min need (len rem)) rem /\
  rd_rem r = skipz (Z.min need (len rem)) rem /\
  tame_sched (rd_sched r) /\
  rd_err r = (if need <=? len rem then E_NIL else E_EOF).
Proof.
  unfold MAX_EMPTY.
  induction fuel as [|f IH]; intros rem sched need empty acc k Hs He He100 Hn Hf; [lia|].
  pose proof (len_nonneg rem) as Hl.
  cbn [read_loop].
  destruct (Z.leb_spec need 0) as [H0|H0].
  { assert (need = 0) by lia. subst need. cbn zeta. cbn [rd_out rd_rem rd_sched rd_err].
    rewrite Z.min_l by lia. rewrite firstz_nonpos, skipz_nonpos, app_nil_r by lia.
    zb. repeat split; auto. eapply run_ok_tame; [|exact Hs]. lia. }
  cbn zeta.
  destruct rem as [|x t].
  { cbn [src_read rd_out rd_rem rd_sched rd_err]. change (E_EOF =? E_EOF) with true.
    change (len (@nil Z)) with 0 in *. rewrite Z.sub_0_r.
    replace (need =? 0) with false by (symmetry; apply Z.eqb_neq; lia). cbn [andb].
    change (E_EOF =? 0) with false. cbn [negb].
    cbn [rd_out rd_rem rd_sched rd_err]. rewrite Z.min_r by lia.
    rewrite firstz_nonpos, skipz_nonpos by lia. zb. repeat split; auto.
    eapply run_ok_tame; [|exact Hs]. lia. }
  set (rem := x :: t) in *.
  assert (Hl1 : 1 <= len rem) by (unfold rem; rewrite len_cons; pose proof (len_nonneg t); lia).
  set (want := match sched with [] => need | c :: _ => Z.min c need end).
  assert (Hcase : (1 <= want <= need /\ run_ok 0 (tl sched)) \/
                  (want <= 0 /\ k + 1 < 100 /\ run_ok (k + 1) (tl sched))).
  { unfold want. destruct sched as [|c s']; [left; split; [lia|exact I]|].
    cbn [run_ok tl] in *. destruct (Z.ltb_spec 0 c); [left; split; [lia|exact Hs]|right].
    unfold MAX_EMPTY in Hs. destruct Hs. repeat split; auto; lia. }
  set (m := Z.min want (len rem)).
  assert (Hsr : src_read rem sched ewl E_EOF need =
                mkRd (firstz m rem) (skipz m rem) (tl sched)
                     (if (len (skipz m rem) =? 0) && ewl then E_EOF else E_NIL)).
  { unfold rem at 1. cbn [src_read]. fold rem. fold want. fold m. reflexivity. }
  rewrite Hsr. cbn [rd_out rd_rem rd_sched rd_err].
  destruct Hcase as [(Hw & Htl)|(Hw & Hk1 & Htl)].
  - (* a read that delivers bytes *)
    assert (Hm : 1 <= m /\ m <= need /\ m <= len rem) by (unfold m; lia).
    rewrite len_firstz_min by lia. rewrite (Z.min_l m (len rem)) by lia.
    rewrite len_skipz_max by lia.
    destruct ((Z.max 0 (len rem - m) =? 0) && ewl) eqn:Hlast.
    + (* io.EOF arrives together with these bytes: they are the last ones *)
      b2p. assert (Hml : m = len rem) by lia.
      change (E_EOF =? E_EOF) with true. cbn [andb].
      destruct (Z.eqb_spec (need - m) 0) as [Hdone|Hmore].
      * cbn [rd_out rd_rem rd_sched rd_err].
        replace (Z.min need (len rem)) with m by lia.
        split; [reflexivity|]. split; [reflexivity|]. split; [exact Htl|].
        replace (need <=? len rem) with true by (symmetry; apply Z.leb_le; lia). reflexivity.
      * change (E_EOF =? 0) with false. cbn [negb]. cbn [rd_out rd_rem rd_sched rd_err].
        replace (Z.min need (len rem)) with m by lia.
        split; [reflexivity|]. split; [reflexivity|]. split; [exact Htl|].
        replace (need <=? len rem) with false by (symmetry; apply Z.leb_gt; lia). reflexivity.
    + change (E_NIL =? E_EOF) with false. cbn [andb]. change (E_NIL =? 0) with true. cbn [negb].
      replace (0 <? m) with true by (symmetry; apply Z.ltb_lt; lia).
      specialize (IH (skipz m rem) (tl sched) (need - m) 0 (acc ++ firstz m rem) 0
                     Htl ltac:(lia) ltac:(lia) ltac:(lia) ltac:(lia)).
      cbn zeta in IH. destruct IH as (I1 & I2 & I3 & I4).
      rewrite len_skipz_max in * by lia.
      replace (Z.min (need - m) (Z.max 0 (len rem - m))) with (Z.min need (len rem) - m) in * by lia.
      split; [|split; [|split]].
      * rewrite I1, <- app_assoc. f_equal.
        rewrite firstz_skipz_add by lia. f_equal. lia.
      * rewrite I2. rewrite skipz_skipz by lia. f_equal. lia.
      * exact I3.
      * rewrite I4. destruct (Z.leb_spec (need - m) (Z.max 0 (len rem - m))); destruct (Z.leb_spec need (len rem)); try reflexivity; lia.
  - (* an empty read: retried, the counter stays below 100 *)
    assert (Hm : m <= 0) by (unfold m; lia).
    rewrite (firstz_nonpos m rem), (skipz_nonpos m rem) by lia.
    replace (len rem =? 0) with false by (symmetry; apply Z.eqb_neq; lia). cbn [andb].
    change (E_NIL =? E_EOF) with false. cbn [andb]. change (E_NIL =? 0) with true. cbn [negb].
    change (len (@nil Z)) with 0. change (0 <? 0) with false. cbv iota.
    unfold MAX_EMPTY. replace (100 <=? empty + 1) with false by (symmetry; apply Z.leb_gt; lia).
    rewrite app_nil_r.
    apply (IH rem (tl sched) need (empty + 1) acc (k + 1) Htl); lia.
Qed.

Lemma loop_fuel_ok n : 0 <= n -> (Z.to_nat (100 * n + 100 - 0) < loop_fuel n)%nat.
Proof. unfold loop_fuel. lia. Qed.

(* ---- Bytes(b, n, p) for n > 0 ------------------------------------------------------------------------ *)
Lemma slice_past {A} (d : list A) p n : 0 <= n -> len d <= p -> slice d p (p + n) = [].
Proof. intros Hn Hp. rewrite slice_alt. rewrite skipz_all by lia. unfold firstz. apply firstn_nil. Qed.

Lemma mem_bytes_pos d bnil n p : 0 < n -> 0 <= p ->
  exists r, bytes_bytes d bnil n p = Some (d, r) /\
    br_data r = slice d p (p + n) /\
    br_err r = (if p + n <=? len d then E_NIL else E_EOF) /\
    br_nil r = (len d <=? p).
Proof.
  intros Hn Hp. pose proof (len_nonneg d). unfold bytes_bytes. zb. cbn [orb].
  destruct (Z.leb_spec (len d) p) as [Hpe|Hpe].
  - eexists. split; [reflexivity|]. cbn [br_data br_nil br_err nil_res].
    rewrite slice_past by lia. zb. auto.
  - destruct (Z.ltb_spec (len d - p) n) as [Hs|Hs].
    + eexists. split; [reflexivity|]. cbn [br_data br_nil br_err]. zb.
      rewrite (slice_clip d p (len d - p) n) by lia. auto.
    + eexists. split; [reflexivity|]. cbn [br_data br_nil br_err]. zb. auto.
Qed.

(* binaryReaderMmap.Bytes on an open map is binaryReaderBytes.Bytes *)
Lemma mmap_bytes_eq d size bnil n off :
  mmap_bytes (mkM (Some d) size) bnil n off =
  match bytes_bytes d bnil n off with
  | Some (_, r) => Some (mkM (Some d) size, r)
  | None => None
  end.
Proof.
  unfold mmap_bytes, bytes_bytes. cbn [mdata].
  destruct ((off <? 0) || (n <? 0)); [reflexivity|].
  destruct (n =? 0); [reflexivity|].
  destruct (len d <=? off); reflexivity.
Qed.

Lemma good_bytes d s p bnil n :
  good d s p -> 0 < n -> 0 <= p ->
  exists s' r, bbytes any_backend s bnil n p = Some (s', r) /\
    br_data r = slice d p (p + n) /\
    br_err r = (if p + n <=? len d then E_NIL else E_EOF) /\
    (p + n <= len d -> br_nil r = false) /\
    (br_nil r = true -> br_data r = []) /\
    good d s' (p + len (br_data r)) /\
    random_access s' = random_access s.
Proof.
  intros Hg Hn Hp. pose proof (len_nonneg d) as Hl.
  destruct s as [d'|m|r|k|a]; cbn [good] in Hg.
  - (* bytes *)
    subst d'. cbn [bbytes any_backend].
    destruct (mem_bytes_pos d bnil n p Hn Hp) as (r & E & D & Er & Nl). rewrite E. cbn [lift].
    exists (SBytes d), r. split; [reflexivity|]. split; [exact D|]. split; [exact Er|].
    split; [intros; rewrite Nl; apply Z.leb_gt; lia|].
    split; [intros Ht; rewrite Nl in Ht; rewrite D; apply slice_past; [lia|apply Z.leb_le; exact Ht]|].
    split; reflexivity.
  - (* mmap *)
    subst m. cbn [bbytes any_backend]. unfold mmap_open. rewrite mmap_bytes_eq.
    destruct (mem_bytes_pos d bnil n p Hn Hp) as (r & E & D & Er & Nl). rewrite E. cbn [lift].
    exists (SMmap (mkM (Some d) (len d))), r. split; [reflexivity|]. split; [exact D|]. split; [exact Er|].
    split; [intros; rewrite Nl; apply Z.leb_gt; lia|].
    split; [intros Ht; rewrite Nl in Ht; rewrite D; apply slice_past; [lia|apply Z.leb_le; exact Ht]|].
    split; reflexivity.
  - (* io.Reader *)
    destruct Hg as (Hrem & Hsch & Hfe & Hpos & Hsize).
    cbn [bbytes any_backend]. unfold reader_bytes. rewrite Hpos. zb. cbn [negb].
    replace (bnil && false) with false by (destruct bnil; reflexivity).
    rewrite Hfe, Hrem.
    pose proof (read_loop_healthy (r_ewl r) (loop_fuel n) (skipz p d) (r_sched r) n 0 [] 0 Hsch ltac:(lia)
                  ltac:(unfold MAX_EMPTY; lia) ltac:(lia) (loop_fuel_ok n ltac:(lia))) as HL.
    cbn zeta in HL. destruct HL as (L1 & L2 & L3 & L4).
    cbn [lift]. eexists _, _. split; [reflexivity|]. cbn [br_data br_nil br_err].
    rewrite firstz_min in L1. cbn [app] in L1. rewrite skipz_min in L2.
    rewrite len_skipz_max in L4 by lia.
    rewrite L1, L4. rewrite <- slice_alt.
    split; [reflexivity|]. split.
    { destruct (Z.leb_spec n (Z.max 0 (len d - p))); destruct (Z.leb_spec (p + n) (len d)); try reflexivity; lia. }
    split; [reflexivity|]. split; [discriminate|]. split; [|reflexivity].
    cbn [good r_rem r_sched r_ewl r_fe r_pos r_size].
    rewrite L2. rewrite skipz_skipz by lia.
    rewrite len_slice_gen by lia.
    repeat split; auto.
    destruct (Z.le_ge_cases n (len d - p)).
    + f_equal. lia.
    + rewrite !skipz_all by lia. reflexivity.
  - (* io.ReadSeeker / file *)
    destruct Hg as (Hdata & Hsch & Hfe & Hsize & Hcl).
    cbn [bbytes any_backend]. unfold seeker_bytes. zb.
    replace (bnil && false) with false by (destruct bnil; reflexivity).
    rewrite Hcl. cbn [orb]. rewrite Hfe, Hdata.
    pose proof (read_loop_healthy (k_ewl k) (loop_fuel n) (skipz p d) (k_sched k) n 0 [] 0 Hsch ltac:(lia)
                  ltac:(unfold MAX_EMPTY; lia) ltac:(lia) (loop_fuel_ok n ltac:(lia))) as HL.
    cbn zeta in HL. destruct HL as (L1 & L2 & L3 & L4).
    cbn [lift]. eexists _, _. split; [reflexivity|]. cbn [br_data br_nil br_err].
    rewrite firstz_min in L1. cbn [app] in L1.
    rewrite len_skipz_max in L4 by lia.
    rewrite L1, L4. rewrite <- slice_alt.
    split; [reflexivity|]. split.
    { destruct (Z.leb_spec n (Z.max 0 (len d - p))); destruct (Z.leb_spec (p + n) (len d)); try reflexivity; lia. }
    split; [reflexivity|]. split; [discriminate|]. split; [|reflexivity].
    cbn [good k_data k_sched k_ewl k_fe k_size k_closed]. repeat split; auto.
  - (* io.ReaderAt: io.EOF for a read that ends exactly at the end is ignored *)
    destruct Hg as (Hdata & Hsch & Hfe & Hsize).
    cbn [bbytes any_backend]. unfold readerat_bytes, src_readat. zb.
    replace (bnil && false) with false by (destruct bnil; reflexivity).
    rewrite Hdata, Hsch, Hfe.
    destruct (Z.leb_spec (len d) p) as [Hpe|Hpe].
    + change (E_EOF =? 0) with false. change (E_EOF =? E_EOF) with true.
      change (len (@nil Z)) with 0.
      replace (0 =? n) with false by (symmetry; apply Z.eqb_neq; lia). cbn [negb orb andb lift tl].
      eexists _, _. split; [reflexivity|]. cbn [br_data br_nil br_err].
      rewrite slice_past by lia. zb.
      cbn [good random_access a_data a_sched a_ewl a_fe a_size]. repeat split; auto; try lia; discriminate.
    + cbn [tl]. rewrite Z.ltb_irrefl.
      destruct (Z.ltb_spec (Z.min n (len d - p)) n) as [Hs|Hs].
      * (* short: io.EOF is reported *)
        change (E_EOF =? 0) with false. change (E_EOF =? E_EOF) with true.
        rewrite (slice_clip d p (Z.min n (len d - p)) n) by lia.
        rewrite len_slice_gen by lia.
        replace (Z.max 0 (Z.min n (len d - p)) =? n) with false by (symmetry; apply Z.eqb_neq; lia).
        cbn [negb orb andb lift].
        eexists _, _. split; [reflexivity|]. cbn [br_data br_nil br_err]. zb.
        cbn [good random_access a_data a_sched a_ewl a_fe a_size]. repeat split; auto; try lia; discriminate.
      * (* complete: with or without io.EOF the result is b, nil *)
        rewrite Z.min_l by lia. rewrite len_slice_gen by lia.
        replace (Z.max 0 (Z.min n (len d - p)) =? n) with true by (symmetry; apply Z.eqb_eq; lia).
        assert (Hres : forall e, (e = E_EOF \/ e = E_NIL) ->
                  (if negb (e =? 0) && (negb (e =? E_EOF) || negb true)
                   then Some (mkA (a_data a) [] (a_ewl a) (a_fe a) (a_size a), mkBR (slice d p (p + n)) false e)
                   else if negb true then Some (mkA (a_data a) [] (a_ewl a) (a_fe a) (a_size a), mkBR (slice d p (p + n)) false E_SHORT)
                   else Some (mkA (a_data a) [] (a_ewl a) (a_fe a) (a_size a), mkBR (slice d p (p + n)) false E_NIL)) =
                  Some (mkA (a_data a) [] (a_ewl a) (a_fe a) (a_size a), mkBR (slice d p (p + n)) false E_NIL)).
        { intros e [->| ->]; reflexivity. }
        match goal with |- context [if negb (?e =? 0) && _ then _ else _] =>
          assert (He : e = E_EOF \/ e = E_NIL) by (destruct (a_ewl a && (p + n =? len d)); auto) end.
        match goal with |- context [lift SReaderAt ?x] => replace x with
          (Some (mkA (a_data a) [] (a_ewl a) (a_fe a) (a_size a), mkBR (slice d p (p + n)) false E_NIL)) end.
        2:{ symmetry. rewrite Hdata, Hfe in *. apply Hres. exact He. }
        cbn [lift]. eexists _, _. split; [reflexivity|]. cbn [br_data br_nil br_err]. zb.
        cbn [good random_access a_data a_sched a_ewl a_fe a_size]. repeat split; auto; discriminate.
Qed.

(* ---- Bytes(b, 0, p): nil, nil on every backend ---------------------------------------------------------- *)
Lemma good_bytes_zero d s p bnil :
  good d s p -> 0 <= p -> bbytes any_backend s bnil 0 p = Some (s, nil_res E_NIL).
Proof.
  intros Hg Hp. destruct s as [d'|m|r|k|a]; cbn [good] in Hg; cbn [bbytes any_backend].
  - unfold bytes_bytes. zb. reflexivity.
  - subst m. unfold mmap_bytes, mmap_open. cbn [mdata]. zb. reflexivity.
  - destruct Hg as (_ & _ & _ & Hpos & _). unfold reader_bytes. rewrite Hpos. zb. reflexivity.
  - unfold seeker_bytes. reflexivity.
  - unfold readerat_bytes. reflexivity.
Qed.
