(* Binary/Lists.v — firstz / skipz / slice facts used by the binary reader proofs. *)
From Verif Require Import Common.Base Common.Tactics.
From Coq Require Import ZifyBool.

Lemma firstz_nonpos {A} n (l : list A) : n <= 0 -> firstz n l = [].
Proof. intros H. unfold firstz. replace (Z.to_nat n) with 0%nat by lia. reflexivity. Qed.

Lemma skipz_nonpos {A} n (l : list A) : n <= 0 -> skipz n l = l.
Proof. intros H. unfold skipz. replace (Z.to_nat n) with 0%nat by lia. reflexivity. Qed.

Lemma firstz_all {A} n (l : list A) : len l <= n -> firstz n l = l.
Proof. intros H. unfold firstz, len in *. apply firstn_all2. lia. Qed.

Lemma skipz_all {A} n (l : list A) : len l <= n -> skipz n l = [].
Proof. intros H. unfold skipz, len in *. apply skipn_all2. lia. Qed.

Lemma firstz_skipz_add {A} a b (l : list A) :
  0 <= a -> 0 <= b -> firstz a l ++ firstz b (skipz a l) = firstz (a + b) l.
Proof.
  intros Ha Hb. unfold firstz, skipz.
  replace (Z.to_nat (a + b)) with (Z.to_nat a + Z.to_nat b)%nat by lia.
  generalize (Z.to_nat a) (Z.to_nat b). clear. intros n m. revert l.
  induction n as [|n IH]; intros l; [reflexivity|].
  destruct l as [|x l]; [cbn; rewrite firstn_nil; reflexivity|].
  cbn [firstn skipn Nat.add app]. f_equal. apply IH.
Qed.

Lemma skipz_skipz {A} a b (l : list A) : 0 <= a -> 0 <= b -> skipz b (skipz a l) = skipz (a + b) l.
Proof.
  intros Ha Hb. unfold skipz.
  replace (Z.to_nat (a + b)) with (Z.to_nat a + Z.to_nat b)%nat by lia.
  generalize (Z.to_nat a) (Z.to_nat b). clear. intros n m. revert l.
  induction n as [|n IH]; intros l; [reflexivity|].
  destruct l as [|x l]; [cbn; apply skipn_nil|]. cbn [skipn Nat.add]. apply IH.
Qed.

Lemma len_firstz_min {A} n (l : list A) : 0 <= n -> len (firstz n l) = Z.min n (len l).
Proof. intros H. unfold len, firstz. rewrite firstn_length. lia. Qed.

Lemma len_skipz_max {A} n (l : list A) : 0 <= n -> len (skipz n l) = Z.max 0 (len l - n).
Proof. intros H. unfold len, skipz. rewrite skipn_length. lia. Qed.

Lemma firstz_min {A} n (l : list A) : firstz (Z.min n (len l)) l = firstz n l.
Proof.
  destruct (Z.le_ge_cases n (len l)) as [H|H].
  - rewrite Z.min_l by exact H. reflexivity.
  - rewrite Z.min_r by exact H. rewrite !firstz_all by lia. reflexivity.
Qed.

Lemma skipz_min {A} n (l : list A) : skipz (Z.min n (len l)) l = skipz n l.
Proof.
  destruct (Z.le_ge_cases n (len l)) as [H|H].
  - rewrite Z.min_l by exact H. reflexivity.
  - rewrite Z.min_r by exact H. rewrite !skipz_all by lia. reflexivity.
Qed.

Lemma slice_alt {A} (l : list A) p n : slice l p (p + n) = firstz n (skipz p l).
Proof. unfold slice. f_equal. lia. Qed.

Lemma len_slice_gen {A} (l : list A) p n :
  0 <= p -> 0 <= n -> len (slice l p (p + n)) = Z.max 0 (Z.min n (len l - p)).
Proof.
  intros Hp Hn. rewrite slice_alt, len_firstz_min by lia. rewrite len_skipz_max by lia. lia.
Qed.

(* clipping: asking for more than is left returns what is left *)
Lemma slice_clip {A} (l : list A) p n m :
  0 <= p -> 0 <= n -> 0 <= m -> len l - p <= n -> len l - p <= m -> slice l p (p + n) = slice l p (p + m).
Proof.
  intros Hp Hn0 Hm0 Hn Hm. rewrite !slice_alt.
  rewrite (firstz_all n), (firstz_all m); [reflexivity| |]; rewrite len_skipz_max by lia; lia.
Qed.

Lemma skipz_app_exact {A} (a b : list A) : skipz (len a) (a ++ b) = b.
Proof.
  unfold skipz, len. rewrite Nat2Z.id. rewrite skipn_app, Nat.sub_diag, skipn_all. reflexivity.
Qed.

Lemma firstz_app_exact' {A} (a b : list A) : firstz (len a) (a ++ b) = a.
Proof.
  unfold firstz, len. rewrite Nat2Z.id. rewrite firstn_app, Nat.sub_diag, firstn_all. cbn. apply app_nil_r.
Qed.

Lemma slice_app_mid {A} (pre e post : list A) :
  slice (pre ++ e ++ post) (len pre) (len pre + len e) = e.
Proof. rewrite slice_alt, skipz_app_exact. apply firstz_app_exact'. Qed.

Lemma list_len0 {A} (l : list A) : len l = 0 -> l = [].
Proof. destruct l; [reflexivity|]. rewrite len_cons. pose proof (len_nonneg l). lia. Qed.

Lemma getz_cons0 a l : getz (a :: l) 0 = a.
Proof.
  unfold getz, peekz. rewrite len_cons. pose proof (len_nonneg l).
  change (0 <=? 0) with true.
  replace (0 <? 1 + len l) with true by (symmetry; apply Z.ltb_lt; lia). reflexivity.
Qed.

Lemma peekz_cons0 a l : peekz (a :: l) 0 = Some a.
Proof.
  unfold peekz. rewrite len_cons. pose proof (len_nonneg l).
  change (0 <=? 0) with true.
  replace (0 <? 1 + len l) with true by (symmetry; apply Z.ltb_lt; lia). reflexivity.
Qed.

Lemma peekz_nil i : peekz [] i = None.
Proof. apply peekz_none_iff. unfold len. cbn [length Z.of_nat]. lia. Qed.

Lemma peekz_getz_b l i : 0 <= i < len l -> peekz l i = Some (getz l i).
Proof. intros H. destruct (peekz_in_range l i H) as [c Hc]. unfold getz. rewrite Hc. reflexivity. Qed.

Lemma zrange_from_bounds lo n x : In x (zrange_from lo n) -> lo <= x < lo + Z.of_nat n.
Proof.
  revert lo. induction n as [|n IH]; intros lo H; cbn [zrange_from] in H; [contradiction|].
  destruct H as [<-|H]; [lia|]. apply IH in H. lia.
Qed.
