(* Binary/Legacy.v — the four lines of binary.go / binary_unix.go as they were before the fix: commits
   2ea959b (Seek from the end), db5fa83 (mmap exact fit), ce901f7 (BitmapReader last bit), b199888
   (ReadInt24 sign extension), and the concrete inputs on which each contradicts the C19 theorems.
   Kept so that a revert of a fix is recognisable: the current model computes the other value. *)
From Verif Require Import Common.Base Binary.Model.

(* 2ea959b: whence == 2 set r.pos = r.f.Len() - off *)
Definition seek_end_legacy (L off : Z) : Z := L - off.

(* db5fa83: "int64(len(r.data))-off <= n" clamped and signalled EOF on an exact fit *)
Definition mmap_bytes_legacy (d : list Z) (n off : Z) : bres :=
  if (off <? 0) || (n <? 0) then nil_res E_RANGE
  else if len d <=? off then nil_res E_EOF
  else
    let short := len d - off <=? n in
    let n' := if short then len d - off else n in
    mkBR (slice d off (off + n')) false (if short then E_EOF else E_NIL).

(* ce901f7: EOF test used (pos+1)/8 *)
Definition bmr_read_legacy (r : bmr) : option (bmr * bool) :=
  if bm_eof r || ((len (bm_buf r)) mod 2 ^ 32 <=? Z.quot ((bm_pos r + 1) mod 2 ^ 32) 8)
  then Some (mkBmr (bm_buf r) (bm_pos r) true, false)
  else
    c <- peekz (bm_buf r) (Z.shiftr (bm_pos r) 3) ;;
    Some (mkBmr (bm_buf r) ((bm_pos r + 1) mod 2 ^ 32) (bm_eof r),
          negb (Z.land c (Z.shiftr 128 (Z.land (bm_pos r) 7)) =? 0)).

Fixpoint bmr_reads_legacy (k : nat) (r : bmr) : option (list bool * bool) :=
  match k with
  | O => Some ([], bm_eof r)
  | S k' => x <- bmr_read_legacy r ;; y <- bmr_reads_legacy k' (fst x) ;; Some (snd x :: fst y, snd y)
  end.

(* b199888: ReadInt24 returned int32(r.ReadUint24()) *)
Definition int24_legacy (u : Z) : Z := to_signed 32 u.

Theorem prefix_defects_legacy_refuted_proof :
  (* Seek(-3, io.SeekEnd) on 10 bytes: 13, outside [0, Len]; the model moves to 7 *)
  seek_end_legacy 10 (-3) = 13 /\
  snd (seek bytes_backend (new_sys [1; 2; 3; 4; 5; 6; 7; 8; 9; 10]) (-3) 2) = VIntErr 7 E_NIL /\
  (* mmap of 4 bytes, a 4-byte read: io.EOF although the read fits; the model reports nil *)
  br_err (mmap_bytes_legacy [1; 2; 3; 4] 4 0) = E_EOF /\
  option_map (fun x => br_err (snd x)) (mmap_bytes (mmap_open [1; 2; 3; 4]) true 4 0) = Some E_NIL /\
  (* BitmapReader{0xFF}: 7 bits then EOF; the model yields 8 bits, EOF false *)
  bmr_reads_legacy 8 (bmr_new [255]) = Some ([true; true; true; true; true; true; true; false], true) /\
  option_map (fun x => bm_eof (fst x)) (bmr_reads 8 (bmr_new [255])) = Some false /\
  (* ReadInt24 of ff ff ff: 16777215; the model returns -1 *)
  int24_legacy 16777215 = 16777215 /\ sext24 16777215 = -1.
Proof. repeat split; vm_compute; reflexivity. Qed.
