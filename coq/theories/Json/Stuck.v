(* Json/Stuck.v — the parse-error half of stickiness, where it holds: in the situations of the listed
   rejections (mismatched or unopened closer, missing comma, stray comma, non-string key,
   illegal byte) the same parse error is reported again by every further call, at the same
   offset and with the state stack unchanged.  (After a missing colon it is not: Json/Sticky.v.) *)
From Coq Require Import ZifyBool.
From Verif Require Import Common.Base Common.Tactics Common.Lx Json.Model Json.Lex Json.Spec Json.Grammar
  Json.AcceptLex Json.Proofs Json.Trace Json.Accept Json.Rejects.

(* st, need, prd: state stack, needComma and reader error of the parser; the list is the input from the
   cursor on *)
Inductive stuck_at (st : list Z) (need : bool) (prd : Z) : list Z -> Prop :=
| stuck_closer c r state : top st = Some state ->
    (c = 125 /\ state <> S_ObjectKey) \/ (c = 93 /\ state <> S_Array) -> stuck_at st need prd (c :: r)
| stuck_missing_comma c r state : top st = Some state -> need = true ->
    is_ws c = false -> c <> 44 -> c <> 125 -> c <> 93 -> c <> 0 -> stuck_at st need prd (c :: r)
| stuck_comma r state : top st = Some state -> state <> S_Array -> state <> S_ObjectKey ->
    stuck_at st need prd (44 :: r)
| stuck_key s2 t : st = S_ObjectKey :: t -> is_ws (hd0 s2) = false ->
    hd0 s2 <> 34 -> hd0 s2 <> 44 -> hd0 s2 <> 125 -> stuck_at st need prd s2
| stuck_illegal c r state : top st = Some state -> prd = 0 -> illegal_start c -> stuck_at st need prd (c :: r).

Lemma ws_nil : ws []. Proof. constructor. Qed.

Lemma stuck_step p a tok s : cur3 (pz p) a tok s -> stuck_at (pst p) (pneed p) (prd p) s ->
  exists p' a' tok', next p = Some ((G_Error, None), p') /\ perr p' = Some (len a + len tok) /\
    pst p' = pst p /\ cur3 (pz p') a' tok' s /\ len a' + len tok' = len a + len tok /\
    stuck_at (pst p') (pneed p') (prd p') s.
Proof.
  intros Hc Hs.
  assert (Hl : lead_ok p [] (pneed p)) by (apply lead_plain; apply ws_nil).
  assert (H0 : forall x, x + len (@nil Z) = x) by (intros; rewrite len_nil; lia).
  destruct Hs as [c r state Htop Hk|c r state Htop Hneed Hws H44 H125 H93 H00|r state Htop Hs3 Hs1
                 |s2 t Hst Hws H34 H44 H125|c r state Htop Hprd Hill].
  - destruct (rejects_closer_strong p a tok [] c r (pneed p) state Hc Hl Htop Hk)
      as (p' & a' & tok' & E & Hp & Hst & Hprd & Hc' & Hlen & _).
    rewrite H0 in Hp, Hlen. exists p', a', tok'. repeat (split; [assumption|]).
    rewrite Hst. eapply stuck_closer; eauto.
  - destruct (rejects_missing_comma_strong p a tok [] c r state Hc ws_nil Hneed Htop Hws H44 H125 H93 H00)
      as (p' & a' & tok' & E & Hp & Hst & Hprd & Hc' & Hlen & Hn').
    rewrite H0 in Hp, Hlen. exists p', a', tok'. repeat (split; [assumption|]).
    rewrite Hst. eapply stuck_missing_comma; eauto.
  - destruct (rejects_comma_strong p a tok [] r state Hc ws_nil Htop Hs3 Hs1)
      as (p' & a' & tok' & E & Hp & Hst & Hprd & Hc' & Hlen & _).
    rewrite H0 in Hp, Hlen. exists p', a', tok'. repeat (split; [assumption|]).
    rewrite Hst. eapply stuck_comma; eauto.
  - destruct (rejects_nonstring_key_strong p a tok [] s2 (pneed p) t Hc Hl Hst Hws H34 H125 (or_introl H44))
      as (p' & a' & tok' & E & Hp & Hst' & Hprd & Hc' & Hlen & _).
    rewrite H0 in Hp, Hlen. exists p', a', tok'. repeat (split; [assumption|]).
    rewrite Hst'. eapply stuck_key; eauto.
  - destruct (error_at_illegal_byte_strong p a tok [] c r (pneed p) state Hc Hl Htop Hprd Hill)
      as (p' & a' & tok' & E & Hp & Hst & Hprd' & Hc' & Hlen & _).
    rewrite H0 in Hp, Hlen. exists p', a', tok'. repeat (split; [assumption|]).
    rewrite Hst, Hprd'. eapply stuck_illegal; eauto.
Qed.

Theorem parse_error_stuck_proof : forall n p a tok s,
  cur3 (pz p) a tok s -> stuck_at (pst p) (pneed p) (prd p) s ->
  exists tr, trace n p = Some tr /\ length tr = n /\
    Forall (fun up => fst up = (G_Error, None) /\ perr (snd up) = Some (len a + len tok) /\
                      pst (snd up) = pst p) tr.
Proof.
  induction n as [|n IH]; intros p a tok s Hc Hs.
  - exists []. repeat split. constructor.
  - destruct (stuck_step p a tok s Hc Hs) as (p' & a' & tok' & E & Hp & Hst & Hc' & Hlen & Hs').
    destruct (IH p' a' tok' s Hc' Hs') as (tr & Et & Hl & Hf).
    exists (((G_Error, None), p') :: tr). cbn [trace]. rewrite E, Et. split; [reflexivity|].
    split; [cbn; lia|]. constructor; [cbn [fst snd]; auto|].
    rewrite Hlen, Hst in Hf. exact Hf.
Qed.

(* non-vacuity: after [1 the bytes 2] : missing comma, reported forever at offset 3 *)
Example ex_stuck : exists p, cur3 (pz p) [91; 49; 32] [] [50; 93] /\ stuck_at (pst p) (pneed p) (prd p) [50; 93] /\
  trace 2 (json_init [91; 49; 32; 50; 93]) =
    Some [((G_StartArray, Some (0, [91])), mkP (mkLx [91; 49; 32; 50; 93; 0] 1 1) [3; 0] None false 0);
          ((G_Number, Some (1, [49])), mkP (mkLx [91; 49; 32; 50; 93; 0] 2 2) [3; 0] None true 0)] /\
  next (mkP (mkLx [91; 49; 32; 50; 93; 0] 2 2) [3; 0] None true 0) = Some ((G_Error, None), p).
Proof.
  eexists. split; [|split; [|split; [vm_compute; reflexivity|vm_compute; reflexivity]]].
  - repeat split.
  - cbn [pst pneed prd]. eapply (stuck_missing_comma _ _ _ 50 [93] 3); try reflexivity; lia.
Qed.

(* traces compose *)
Lemma trace_app : forall n m p tr1 tr2, trace n p = Some tr1 -> trace m (last_parser p tr1) = Some tr2 ->
  trace (n + m) p = Some (tr1 ++ tr2).
Proof.
  induction n as [|n IH]; intros m p tr1 tr2 E1 E2; cbn [trace Nat.add] in *.
  - inversion E1; subst. exact E2.
  - destruct (next p) as [[u p']|]; [|discriminate].
    destruct (trace n p') as [tr'|] eqn:E'; [|discriminate]. inversion E1; subst tr1.
    rewrite last_parser_cons in E2. rewrite (IH m p' tr' tr2 E' E2). reflexivity.
Qed.

(* A parse error can be reported forever without progress: on the input  1 1  the first call returns the
   Number, and every further call returns ErrorGrammar with the parse error at offset 2 (the caller never
   sees io.EOF). *)
Theorem parse_error_forever_proof : forall n,
  exists tr, trace (2 + n) (json_init [49; 32; 49]) = Some tr /\
    grammars tr = G_Number :: G_Error :: repeat G_Error n /\
    Forall (fun up => perr (snd up) = Some 2 /\ err_kind (snd up) = 2) (skipn 1 tr).
Proof.
  intros n.
  set (p2 := mkP (mkLx [49; 32; 49; 0] 2 2) [0] (Some 2) true 0).
  assert (E2 : trace 2 (json_init [49; 32; 49]) =
               Some [((G_Number, Some (0, [49])), mkP (mkLx [49; 32; 49; 0] 1 1) [0] None true 0);
                     ((G_Error, None), p2)]) by (vm_compute; reflexivity).
  assert (Hc : cur3 (pz p2) [49; 32] [] [49]) by (repeat split).
  assert (Hs : stuck_at (pst p2) (pneed p2) (prd p2) [49]).
  { cbn [p2 pst pneed prd]. eapply (stuck_missing_comma _ _ _ 49 [] 0); try reflexivity; lia. }
  destruct (parse_error_stuck_proof n p2 [49; 32] [] [49] Hc Hs) as (tr & Et & Hl & Hf).
  eexists. split; [apply (trace_app 2 n _ _ tr E2); exact Et|]. split.
  - cbn [app grammars map fst]. do 2 f_equal.
    clear Et. revert Hl Hf. generalize n. induction tr as [|[u p'] tr IH]; intros k Hl Hf; cbn in Hl; subst k; [reflexivity|].
    inversion Hf as [|? ? Hh Ht]; subst. destruct Hh as (Hu & _). cbn [fst] in Hu. subst u.
    cbn [length repeat map fst]. f_equal. apply (IH (length tr) eq_refl Ht).
  - cbn [app skipn]. constructor; [split; reflexivity|].
    eapply Forall_impl; [|exact Hf]. intros [u p'] (_ & Hp & _). cbn [snd] in *. split; [exact Hp|].
    unfold err_kind. rewrite Hp. reflexivity.
Qed.

(* ---------------------------------------------------------------------------------------------- *)
(* What exactly happens after a missing colon.  The call records the error at the offending byte and leaves
   the parser in key position (stack unchanged), needComma false, cursor AT the offending byte: the key that
   was read is dropped.  The following call is therefore an ordinary call in key position on the rest. *)
Definition after_missing_colon (p1 : parser) (off : Z) (s2 st : list Z) : Prop :=
  exists a' tok', cur3 (pz p1) a' tok' s2 /\ len a' + len tok' = off /\
    pst p1 = S_ObjectKey :: st /\ pneed p1 = false /\ perr p1 = Some off.

Theorem missing_colon_exact_proof : forall p a tok lead k w2 s2 st,
  cur3 (pz p) a tok (lead ++ k ++ w2 ++ s2) -> lead_ok p lead false -> pst p = S_ObjectKey :: st ->
  jstring k -> ws w2 -> is_ws (hd0 s2) = false -> hd0 s2 <> 58 ->
  exists p1, next p = Some ((G_Error, None), p1) /\ prd p1 = prd p /\
             after_missing_colon p1 (len a + len tok + len lead + len k + len w2) s2 st.
Proof.
  intros p a tok lead k w2 s2 st Hc Hl Hst Hk Hw Hws H58.
  destruct (rejects_missing_colon_strong p a tok lead k w2 s2 st Hc Hl Hst Hk Hw Hws H58)
    as (p1 & a' & tok' & E & Hp & Hst1 & Hprd & Hc1 & Hlen & Hnd).
  exists p1. split; [exact E|]. split; [exact Hprd|]. exists a', tok'. rewrite Hst1. auto.
Qed.

(* (1) any offending byte other than the quote, } and , (digits, brackets, NUL, the end of input ...):
       the error is reported again at the same offset by every further call *)
Theorem missing_colon_then_stuck_proof : forall n p1 off s2 st,
  after_missing_colon p1 off s2 st -> is_ws (hd0 s2) = false ->
  hd0 s2 <> 34 -> hd0 s2 <> 44 -> hd0 s2 <> 125 ->
  exists tr, trace n p1 = Some tr /\ length tr = n /\
    Forall (fun up => fst up = (G_Error, None) /\ perr (snd up) = Some off /\ pst (snd up) = pst p1) tr.
Proof.
  intros n p1 off s2 st (a' & tok' & Hc & Hlen & Hst & Hnd & Hp) Hws H34 H44 H125.
  rewrite <- Hlen. apply (parse_error_stuck_proof n p1 a' tok' s2 Hc).
  eapply stuck_key; eauto.
Qed.

Lemma runs_one_inv p u p' : runs p [u] p' ->
  exists lo, next p = Some ((sg u, Some (lo, sbytes u)), p') /\ state p' = Some (sstate u).
Proof.
  intros H. inversion H as [|p0 g lo b p1 s us p2 Hn Hg Hs Hr]; subst.
  inversion Hr; subst. exists lo. cbn [sg sbytes sstate]. auto.
Qed.

(* (2) the offending byte is } : the next call closes the object (the dangling key is dropped), Err() keeps
       the error *)
Theorem missing_colon_then_close_proof : forall p1 off r st,
  after_missing_colon p1 off (125 :: r) st -> st <> [] ->
  exists lo p2, next p1 = Some ((G_EndObject, Some (lo, [125])), p2) /\ pst p2 = valfix st /\ perr p2 = Some off.
Proof.
  intros p1 off r st (a' & tok' & Hc & Hlen & Hst & Hnd & Hp) Hne.
  destruct (close_run p1 a' tok' [] 125 r S_ObjectKey G_EndObject st Hc ws_nil Hst Hne)
    as (p2 & a2 & s' & Hrun & _ & Hst2 & _ & (He & _)); [right; auto|].
  destruct (runs_one_inv _ _ _ Hrun) as (lo & Hn & _). cbn [sg sbytes] in Hn.
  exists lo, p2. split; [exact Hn|]. split; [exact Hst2|]. congruence.
Qed.

(* (3) the offending byte starts another key followed by its colon: that key is returned as a unit *)
Theorem missing_colon_then_key_proof : forall p1 off k2 w r st,
  after_missing_colon p1 off (k2 ++ w ++ 58 :: r) st -> jstring k2 -> ws w ->
  exists lo p2, next p1 = Some ((G_String, Some (lo, k2)), p2) /\ pst p2 = S_ObjectValue :: st /\ perr p2 = Some off.
Proof.
  intros p1 off k2 w r st (a' & tok' & Hc & Hlen & Hst & Hnd & Hp) Hk Hw.
  destruct (key_run p1 a' tok' [] k2 w r st Hc (lead_plain_false p1 [] ws_nil Hnd) Hk Hw Hst)
    as (p2 & a2 & Hrun & _ & Hst2 & _ & (He & _)).
  destruct (runs_one_inv _ _ _ Hrun) as (lo & Hn & _). cbn [sg sbytes] in Hn.
  exists lo, p2. split; [exact Hn|]. split; [exact Hst2|]. congruence.
Qed.

(* non-vacuity: {"a" "b":1} after the unit { *)
Example ex_missing_colon_exact :
  let p := mkP (mkLx [123; 34; 97; 34; 32; 34; 98; 34; 58; 49; 125; 0] 1 1) [1; 0] None false 0 in
  exists p1, next p = Some ((G_Error, None), p1) /\ after_missing_colon p1 5 [34; 98; 34; 58; 49; 125] [0].
Proof.
  cbn zeta.
  destruct (missing_colon_exact_proof (mkP (mkLx [123; 34; 97; 34; 32; 34; 98; 34; 58; 49; 125; 0] 1 1) [1; 0] None false 0)
              [123] [] [] [34; 97; 34] [32] [34; 98; 34; 58; 49; 125] [0]) as (p1 & Hn & _ & Ha).
  - repeat split.
  - apply lead_plain_false; [constructor|reflexivity].
  - reflexivity.
  - exact (js_intro [97] (jc_plain 97 [] ltac:(lia) ltac:(lia) ltac:(lia) jc_nil)).
  - repeat constructor.
  - reflexivity.
  - cbn. lia.
  - exists p1. split; [exact Hn|exact Ha].
Qed.
