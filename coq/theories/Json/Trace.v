(* Json/Trace.v — theorems about arbitrary sequences of Next calls on arbitrary byte strings:
   totality, progress, units are slices, error offsets, nesting and State(). *)
From Coq Require Import ZifyBool.
From Verif Require Import Common.Base Common.Tactics Common.Lx Json.Model Json.Lex Json.Spec Json.Proofs.

(* chain of per-call guarantees along a trace *)
Fixpoint steps (d : list Z) (p : parser) (tr : list (unit_ * parser)) : Prop :=
  match tr with
  | [] => True
  | up :: rest => step_ok d (lpos (pz p)) p (Some up) /\ steps d (snd up) rest
  end.

Lemma step_ok_inv d pos0 p u p' : step_ok d pos0 p (Some (u, p')) -> json_inv d p'.
Proof. intros (u0 & p0 & E & Hinv & _). inversion E; subst. exact Hinv. Qed.

Lemma trace_steps d n : forall p, json_inv d p ->
  exists tr, trace n p = Some tr /\ length tr = n /\ steps d p tr.
Proof.
  induction n as [|n IH]; intros p Hinv; cbn [trace].
  - exists []. repeat split.
  - pose proof (next_ok d p Hinv) as Hs. destruct Hs as (u & p' & E & Hs).
    assert (Hstep : step_ok d (lpos (pz p)) p (Some (u, p'))) by (exists u, p'; split; [reflexivity|exact Hs]).
    rewrite E. destruct Hs as (Hinv' & _).
    destruct (IH p' Hinv') as (tr & Et & Hl & Hst). rewrite Et.
    exists ((u, p') :: tr). split; [reflexivity|]. split; [cbn; lia|]. cbn [steps snd]. split; assumption.
Qed.

Lemma trace_steps_of d n p tr : json_inv d p -> trace n p = Some tr -> length tr = n /\ steps d p tr.
Proof.
  intros Hinv E. destruct (trace_steps d n p Hinv) as (tr' & E' & Hl & Hs). rewrite E in E'.
  inversion E'; subst. auto.
Qed.

(* ---------------------------------------------------------------------------------------------- *)
(* json_total *)

Lemma json_inv_state d p : json_inv d p -> exists s, state p = Some s /\ 0 <= s <= 3.
Proof. intros (a & tok & s & _ & _ & Hok & _). apply stack_ok_top. exact Hok. Qed.

Lemma steps_states d : forall tr p, steps d p tr ->
  Forall (fun up => exists s, state (snd up) = Some s /\ 0 <= s <= 3) tr.
Proof.
  induction tr as [|[u p'] tr IH]; intros p Hs; constructor.
  - cbn [snd]. destruct Hs as [Hs _]. apply (json_inv_state d). apply (step_ok_inv _ _ _ _ _ Hs).
  - destruct Hs as [_ Hs]. apply (IH p'). exact Hs.
Qed.

Theorem json_total_proof : forall d n,
  exists tr, trace n (json_init d) = Some tr /\ length tr = n /\
             Forall (fun up => exists s, state (snd up) = Some s /\ 0 <= s <= 3) tr.
Proof.
  intros d n. destruct (trace_steps d n _ (json_inv_init d)) as (tr & E & Hl & Hs).
  exists tr. split; [exact E|]. split; [exact Hl|]. apply (steps_states d tr _ Hs).
Qed.

Theorem json_total_failed_reader_proof : forall e n,
  exists tr, trace n (json_init_failed e) = Some tr /\ length tr = n /\
             Forall (fun up => exists s, state (snd up) = Some s /\ 0 <= s <= 3) tr.
Proof.
  intros e n. destruct (trace_steps [] n _ (json_inv_init_failed e)) as (tr & E & Hl & Hs).
  exists tr. split; [exact E|]. split; [exact Hl|]. apply (steps_states [] tr _ Hs).
Qed.

Theorem json_step_total_proof : forall d p, json_inv d p ->
  exists u p', next p = Some (u, p') /\ json_inv d p'.
Proof.
  intros d p Hinv. destruct (next_ok d p Hinv) as (u & p' & E & Hinv' & _). eauto.
Qed.

(* ---------------------------------------------------------------------------------------------- *)
(* json_progress *)

Lemma json_inv_pos d p : json_inv d p -> 0 <= lpos (pz p) <= len d.
Proof.
  intros (a & tok & s & Hd & Hc & _). rewrite (cur3_lpos _ _ _ _ Hc). subst d. apply len_app3_le.
Qed.

Theorem json_progress_proof : forall d p u p', json_inv d p -> next p = Some (u, p') ->
  (fst u = G_Error \/ lpos (pz p) < lpos (pz p')) /\ lpos (pz p) <= lpos (pz p') <= len d.
Proof.
  intros d p u p' Hinv E. destruct (next_ok d p Hinv) as (u0 & p0 & E0 & Hinv' & _ & Hle & _ & Hm).
  rewrite E in E0. inversion E0; subst u0 p0. pose proof (json_inv_pos d p' Hinv') as Hr.
  split; [|lia].
  destruct (snd u) as [[lo b]|].
  - right. destruct Hm as (_ & Hb & Hlo & _ & Hhi & _).
    destruct b as [|c b]; [congruence|]. pose proof (len_pos_cons c b). lia.
  - left. destruct Hm as [Hm _]. exact Hm.
Qed.


Lemma steps_count d : forall tr p, json_inv d p -> steps d p tr ->
  lpos (pz p) + count_units tr <= len d.
Proof.
  induction tr as [|[u p'] tr IH]; intros p Hinv Hs; cbn [count_units].
  - pose proof (json_inv_pos d p Hinv). lia.
  - destruct Hs as [Hs Hrest]. cbn [snd fst] in *.
    pose proof (step_ok_inv _ _ _ _ _ Hs) as Hinv'.
    specialize (IH p' Hinv' Hrest).
    destruct Hs as (u0 & p0 & E0 & _ & _ & Hle & _ & Hm). inversion E0; subst u0 p0.
    destruct (fst u =? G_Error) eqn:Eg; [lia|].
    destruct (snd u) as [[lo b]|].
    + destruct Hm as (_ & Hb & Hlo & _ & Hhi & _).
      destruct b as [|c b]; [congruence|]. pose proof (len_pos_cons c b). lia.
    + destruct Hm as [Hm _]. apply Z.eqb_neq in Eg. congruence.
Qed.

(* however long Next is called, at most len d calls return a unit *)
Theorem json_calls_linear_proof : forall d n tr, trace n (json_init d) = Some tr -> count_units tr <= len d.
Proof.
  intros d n tr E. destruct (trace_steps_of d n _ tr (json_inv_init d) E) as [_ Hs].
  pose proof (steps_count d tr _ (json_inv_init d) Hs) as H. cbn in H. lia.
Qed.

(* ---------------------------------------------------------------------------------------------- *)
(* json_units_are_slices *)


Lemma steps_slices d : forall tr p, steps d p tr -> slices_ok d (lpos (pz p)) tr.
Proof.
  induction tr as [|[u p'] tr IH]; intros p Hs; cbn [slices_ok]; [exact I|].
  destruct Hs as [Hs Hrest]. cbn [snd] in *.
  pose proof (step_ok_inv _ _ _ _ _ Hs) as Hinv'. pose proof (json_inv_pos d p' Hinv') as Hr.
  destruct Hs as (u0 & p0 & E0 & _ & _ & Hle & _ & Hm). inversion E0; subst u0 p0.
  split; [|split; [lia|apply IH; exact Hrest]].
  destruct (snd u) as [[lo b]|].
  - destruct Hm as (_ & Hb & Hlo & Hsl & Hhi & _). auto.
  - destruct Hm as [Hm _]. exact Hm.
Qed.

Theorem json_units_are_slices_proof : forall d n tr, trace n (json_init d) = Some tr -> slices_ok d 0 tr.
Proof.
  intros d n tr E. destruct (trace_steps_of d n _ tr (json_inv_init d) E) as [_ Hs].
  apply (steps_slices d tr _ Hs).
Qed.

(* ---------------------------------------------------------------------------------------------- *)
(* json_error_offset: range, and "the error is created at the offset the cursor stopped at" *)


Lemma steps_errs d : forall tr p, steps d p tr -> errs_ok d (perr p) tr.
Proof.
  induction tr as [|[u p'] tr IH]; intros p Hs; cbn [errs_ok]; [exact I|].
  destruct Hs as [Hs Hrest]. cbn [snd] in *.
  pose proof (step_ok_inv _ _ _ _ _ Hs) as Hinv'.
  destruct Hs as (u0 & p0 & E0 & _ & _ & Hle & _ & Hm). inversion E0; subst u0 p0.
  split. { destruct Hinv' as (a & tok & s & _ & _ & _ & He). exact He. }
  split; [|apply IH; exact Hrest].
  destruct (snd u) as [[lo b]|].
  - destruct Hm as (_ & _ & _ & _ & _ & He & _). left. exact He.
  - destruct Hm as (Hg & [He|(He & _)] & _); [right; auto|left; exact He].
Qed.

Theorem json_error_offset_range_proof : forall d n tr, trace n (json_init d) = Some tr -> errs_ok d None tr.
Proof.
  intros d n tr E. destruct (trace_steps_of d n _ tr (json_inv_init d) E) as [_ Hs].
  apply (steps_errs d tr _ Hs).
Qed.

(* ---------------------------------------------------------------------------------------------- *)
(* json_nesting *)

(* the model's state stack against the independent bracket stack *)
Fixpoint stack_matches (st stk : list Z) {struct stk} : Prop :=
  match stk with
  | [] => st = [S_Value]
  | k :: stk' =>
      match st with
      | s :: st' =>
          ((k = G_StartObject /\ (s = S_ObjectKey \/ s = S_ObjectValue)) \/ (k = G_StartArray /\ s = S_Array)) /\
          stack_matches st' stk'
      | [] => False
      end
  end.

Lemma stack_matches_valfix st stk : stack_matches st stk -> stack_matches (valfix st) stk.
Proof.
  destruct stk as [|k stk]; cbn [stack_matches].
  - intros ->. reflexivity.
  - destruct st as [|s st]; [contradiction|]. cbn [valfix]. intros [H Hr]. split; [|exact Hr].
    unfold S_ObjectValue, S_ObjectKey, S_Array, G_StartObject, G_StartArray in *.
    destruct (s =? 2) eqn:E; lia.
Qed.

Lemma stack_matches_describes st stk s : stack_matches st stk -> top st = Some s -> describes stk s.
Proof.
  destruct stk as [|k stk]; cbn [stack_matches describes].
  - intros -> E. cbn in E. congruence.
  - destruct st as [|s0 st]; [contradiction|]. cbn [top]. intros [H _] E. inversion E; subst s0.
    unfold G_StartObject, G_StartArray in *. destruct (k =? 5) eqn:Ek; lia.
Qed.

(* one step of the bracket machine *)
Lemma dyck_cons stk g rest : dyck stk (g :: rest) =
  match dyck stk [g] with Some stk' => dyck stk' rest | None => None end.
Proof.
  cbn [dyck]. destruct ((g =? G_StartObject) || (g =? G_StartArray)); [reflexivity|].
  destruct (g =? G_EndObject).
  { destruct stk as [|k stk']; [reflexivity|]. destruct (k =? G_StartObject); reflexivity. }
  destruct (g =? G_EndArray); [|reflexivity].
  destruct stk as [|k stk']; [reflexivity|]. destruct (k =? G_StartArray); reflexivity.
Qed.

Lemma st_rel_dyck st g st' stk : stack_matches st stk -> st_rel st g st' ->
  exists stk', dyck stk [g] = Some stk' /\ stack_matches st' stk'.
Proof.
  intros Hm Hr. destruct Hr.
  - exists (G_StartObject :: stk). split; [reflexivity|]. cbn [stack_matches]. split; [left; auto|exact Hm].
  - exists (G_StartArray :: stk). split; [reflexivity|]. cbn [stack_matches]. split; [right; auto|exact Hm].
  - destruct stk as [|k stk]; cbn [stack_matches] in Hm; [discriminate Hm|].
    destruct Hm as [[[-> _]|[_ Hbad]] Hm]; [|discriminate].
    exists stk. split; [reflexivity|]. apply stack_matches_valfix. exact Hm.
  - destruct stk as [|k stk]; cbn [stack_matches] in Hm; [discriminate Hm|].
    destruct Hm as [[[_ [Hbad|Hbad]]|[-> _]] Hm]; try discriminate.
    exists stk. split; [reflexivity|]. apply stack_matches_valfix. exact Hm.
  - exists stk. split; [reflexivity|].
    destruct stk as [|k stk]; cbn [stack_matches] in Hm; [discriminate Hm|].
    destruct Hm as [[[-> _]|[_ Hbad]] Hm]; [|discriminate].
    cbn [stack_matches]. split; [left; auto|exact Hm].
  - exists stk. split.
    { destruct H as [->|[->| ->]]; reflexivity. }
    apply stack_matches_valfix. exact Hm.
  - exists stk. split; [reflexivity|exact Hm].
Qed.

Lemma last_cons_default {A} (l : list A) : forall x d1 d2, last (x :: l) d1 = last (x :: l) d2.
Proof.
  induction l as [|y l IH]; intros x d1 d2; [reflexivity|].
  change (last (x :: y :: l) d1) with (last (y :: l) d1).
  change (last (x :: y :: l) d2) with (last (y :: l) d2). apply IH.
Qed.

Lemma last_parser_cons p u p' tr : last_parser p ((u, p') :: tr) = last_parser p' tr.
Proof.
  unfold last_parser. destruct tr as [|y tr]; [reflexivity|].
  change (last ((u, p') :: y :: tr) (G_Error, None, p)) with (last (y :: tr) (G_Error, None, p)).
  f_equal. apply last_cons_default.
Qed.

Lemma steps_nesting d : forall tr p stk, steps d p tr -> stack_matches (pst p) stk ->
  exists stk', dyck stk (grammars tr) = Some stk' /\ stack_matches (pst (last_parser p tr)) stk'.
Proof.
  induction tr as [|[u p'] tr IH]; intros p stk Hs Hm.
  - exists stk. split; [reflexivity|exact Hm].
  - destruct Hs as [Hs Hrest]. cbn [snd] in *.
    destruct Hs as (u0 & p0 & E0 & _ & _ & _ & Hrel & _). inversion E0; subst u0 p0.
    destruct (st_rel_dyck _ _ _ stk Hm Hrel) as (stk1 & Hd1 & Hm1).
    destruct (IH p' stk1 Hrest Hm1) as (stk' & Hd' & Hm').
    exists stk'. split.
    + cbn [grammars map fst]. rewrite dyck_cons. rewrite Hd1. exact Hd'.
    + rewrite last_parser_cons. exact Hm'.
Qed.

Lemma steps_last_inv d : forall tr p, json_inv d p -> steps d p tr -> json_inv d (last_parser p tr).
Proof.
  induction tr as [|[u p'] tr IH]; intros p Hinv Hs; [exact Hinv|].
  destruct Hs as [Hs Hrest]. rewrite last_parser_cons. apply IH; [|exact Hrest].
  apply (step_ok_inv _ _ _ _ _ Hs).
Qed.

Theorem json_nesting_proof : forall d n tr, trace n (json_init d) = Some tr ->
  exists stk s, dyck [] (grammars tr) = Some stk /\
                state (last_parser (json_init d) tr) = Some s /\ describes stk s.
Proof.
  intros d n tr E. destruct (trace_steps_of d n _ tr (json_inv_init d) E) as [_ Hs].
  destruct (steps_nesting d tr _ [] Hs) as (stk & Hd & Hm); [reflexivity|].
  pose proof (steps_last_inv d tr _ (json_inv_init d) Hs) as Hinv.
  destruct (json_inv_state d _ Hinv) as (s & Es & _).
  exists stk, s. split; [exact Hd|]. split; [exact Es|].
  apply (stack_matches_describes _ _ _ Hm). exact Es.
Qed.

(* traces are prefix-closed: the statement for all n covers the state after every call *)
Lemma trace_prefix : forall n m p tr, trace (n + m) p = Some tr -> trace n p = Some (firstn n tr).
Proof.
  induction n as [|n IH]; intros m p tr E; [reflexivity|].
  cbn [trace Nat.add] in *. destruct (next p) as [[u p']|]; [|discriminate].
  destruct (trace (n + m) p') as [tr'|] eqn:E'; [|discriminate]. inversion E; subst.
  rewrite (IH m p' tr' E'). reflexivity.
Qed.

(* ObjectValueState is entered exactly by returning a key *)
Theorem json_key_state_proof : forall d p u p', json_inv d p -> next p = Some (u, p') -> fst u <> G_Error ->
  (state p' = Some S_ObjectValue <-> fst u = G_String /\ state p = Some S_ObjectKey).
Proof.
  intros d p u p' Hinv E Hg. destruct (next_ok d p Hinv) as (u0 & p0 & E0 & Hinv' & _ & _ & Hrel & _).
  rewrite E in E0. inversion E0; subst u0 p0. unfold state.
  assert (Hvf : forall st, top (valfix st) <> Some S_ObjectValue).
  { intros [|s st]; cbn; [discriminate|]. unfold S_ObjectValue, S_ObjectKey.
    destruct (s =? 2) eqn:E2; intros Hx; inversion Hx; lia. }
  revert Hg Hrel. generalize (pst p) (pst p') (fst u). intros st st' g Hg Hrel.
  destruct Hrel; cbn [top].
  - split; [discriminate|intros [Hq _]; discriminate].
  - split; [discriminate|intros [Hq _]; discriminate].
  - split; [intros Hq; exfalso; exact (Hvf _ Hq)|intros [Hq _]; discriminate].
  - split; [intros Hq; exfalso; exact (Hvf _ Hq)|intros [Hq _]; discriminate].
  - split; auto.
  - split; [intros Hq; exfalso; exact (Hvf (s :: st) Hq)|].
    intros [_ Hq]. inversion Hq. congruence.
  - congruence.
Qed.

(* ---------------------------------------------------------------------------------------------- *)
(* non-vacuity: concrete instances of the hypotheses used above *)

(* [1] : StartArray Number EndArray Error(EOF) *)
Example ex_trace_array : exists tr, trace 4 (json_init [91; 49; 93]) = Some tr /\ grammars tr = [7; 3; 8; 0] /\
                                     err_kind (last_parser (json_init [91; 49; 93]) tr) = 1.
Proof. eexists. split; [vm_compute; reflexivity|]. split; reflexivity. Qed.

(* a state in the middle of {"a":[ satisfies the invariant and Next returns a unit from it *)
Example ex_inv_step : exists tr p u p',
  trace 3 (json_init [123; 34; 97; 34; 58; 91; 49; 93; 125]) = Some tr /\ p = last_parser (json_init []) tr /\
  json_inv [123; 34; 97; 34; 58; 91; 49; 93; 125] p /\ next p = Some (u, p') /\ fst u = G_Number /\
  state p = Some S_Array /\ state p' = Some S_Array.
Proof.
  destruct (trace_steps [123; 34; 97; 34; 58; 91; 49; 93; 125] 3 _ (json_inv_init _)) as (tr & E & _ & Hs).
  pose proof (steps_last_inv _ tr _ (json_inv_init _) Hs) as Hinv.
  vm_compute in E. inversion E; subst tr. clear E Hs.
  eexists _, _, _, _. split; [vm_compute; reflexivity|]. split; [reflexivity|].
  split; [exact Hinv|]. split; [vm_compute; reflexivity|]. repeat split.
Qed.

(* a key: ObjectKey -> ObjectValue *)
Example ex_key_state : exists p u p', json_inv [123; 34; 97; 34; 58; 49; 125] p /\ next p = Some (u, p') /\
  fst u = G_String /\ state p = Some S_ObjectKey /\ state p' = Some S_ObjectValue.
Proof.
  destruct (trace_steps [123; 34; 97; 34; 58; 49; 125] 1 _ (json_inv_init _)) as (tr & E & _ & Hs).
  pose proof (steps_last_inv _ tr _ (json_inv_init _) Hs) as Hinv.
  vm_compute in E. inversion E; subst tr. clear E Hs.
  eexists _, _, _. split; [exact Hinv|]. split; [vm_compute; reflexivity|]. repeat split.
Qed.

(* every parser state reachable by calling Next satisfies the invariant that the per-call theorems assume *)
Lemma steps_inv d : forall tr p, steps d p tr -> Forall (fun up => json_inv d (snd up)) tr.
Proof.
  induction tr as [|[u p'] tr IH]; intros p Hs; constructor.
  - destruct Hs as [Hs _]. apply (step_ok_inv _ _ _ _ _ Hs).
  - destruct Hs as [_ Hs]. apply (IH p'). exact Hs.
Qed.

Theorem json_inv_reachable_proof : forall d n tr, trace n (json_init d) = Some tr ->
  json_inv d (json_init d) /\ Forall (fun up => json_inv d (snd up)) tr.
Proof.
  intros d n tr E. split; [apply json_inv_init|].
  destruct (trace_steps_of d n _ tr (json_inv_init d) E) as [_ Hs]. apply (steps_inv d tr _ Hs).
Qed.

(* ---------------------------------------------------------------------------------------------- *)
(* the state stack is exactly the documented state machine run on the GrammarTypes returned *)

Lemma st_rel_next st g st' : st_rel st g st' -> st_next st g = Some st'.
Proof.
  intros H. destruct H as [st Ht|st Ht|st|st|st|st g s Hg Hs|st]; try reflexivity.
  - unfold st_next. cbn [G_StartObject G_StartArray Z.eqb Pos.eqb orb].
    destruct st as [|s t]; [reflexivity|]. cbn [top] in Ht. unfold S_ObjectKey in *.
    replace (s =? 1) with false by (destruct (Z.eqb_spec s 1); [subst; congruence|reflexivity]). reflexivity.
  - unfold st_next. cbn [G_StartObject G_StartArray Z.eqb Pos.eqb orb].
    destruct st as [|s t]; [reflexivity|]. cbn [top] in Ht. unfold S_ObjectKey in *.
    replace (s =? 1) with false by (destruct (Z.eqb_spec s 1); [subst; congruence|reflexivity]). reflexivity.
  - unfold st_next. destruct Hg as [->|[->| ->]]; cbn [G_Literal G_Number G_String G_StartObject G_StartArray
      G_EndObject G_EndArray Z.eqb Pos.eqb orb];
      unfold S_ObjectKey in *; replace (s =? 1) with false by lia; reflexivity.
Qed.

Lemma steps_st_run d : forall tr p, steps d p tr ->
  st_run (pst p) (grammars tr) = Some (pst (last_parser p tr)).
Proof.
  induction tr as [|[u p'] tr IH]; intros p Hs; [reflexivity|].
  destruct Hs as [Hs Hrest]. cbn [snd] in *.
  destruct Hs as (u0 & p0 & E0 & _ & _ & _ & Hrel & _). inversion E0; subst u0 p0.
  cbn [grammars map fst st_run]. rewrite (st_rel_next _ _ _ Hrel). rewrite last_parser_cons.
  apply (IH p' Hrest).
Qed.

Theorem json_state_machine_proof : forall d n tr, trace n (json_init d) = Some tr ->
  st_run [S_Value] (grammars tr) = Some (pst (last_parser (json_init d) tr)).
Proof.
  intros d n tr E. destruct (trace_steps_of d n _ tr (json_inv_init d) E) as [_ Hs].
  apply (steps_st_run d tr _ Hs).
Qed.
