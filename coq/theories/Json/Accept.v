(* Json/Accept.v — json_accepts_valid: every document of the RFC 8259 grammar is parsed without a parse
   error and re-joining the units gives the document without insignificant whitespace.
   Induction on the derivation, generalised over the parser state (stack, needComma, position). *)
From Coq Require Import ZifyBool.
From Verif Require Import Common.Base Common.Tactics Common.Lx Json.Model Json.Lex Json.Spec Json.Grammar
  Json.AcceptLex Json.Proofs.

(* ---------------------------------------------------------------------------------------------- *)
(* what precedes a token inside one call of Next: whitespace, or whitespace , whitespace *)
Inductive lead_ok (p : parser) : list Z -> bool -> Prop :=
| lead_plain w : ws w -> lead_ok p w (pneed p)
| lead_comma w w' : ws w -> ws w' -> top (pst p) = Some S_Array \/ top (pst p) = Some S_ObjectKey ->
    lead_ok p (w ++ 44 :: w') false.

Lemma takew_ws w s2 : ws w -> is_ws (hd0 s2) = false ->
  takew is_ws (w ++ s2) = w /\ dropw is_ws (w ++ s2) = s2.
Proof. intros Hw Hs. apply takew_app_stop; [apply ws_Forall; exact Hw|exact Hs]. Qed.

Lemma next_front p a tok lead s2 nd state :
  cur3 (pz p) a tok (lead ++ s2) -> lead_ok p lead nd -> is_ws (hd0 s2) = false -> hd0 s2 <> 44 ->
  top (pst p) = Some state ->
  exists z1, cur3 z1 a (tok ++ lead) s2 /\ next p = next_body p z1 (hd0 s2) nd state.
Proof.
  intros Hc Hl Hws H44 Htop. unfold next.
  destruct (move_ws_spec _ _ _ _ Hc) as (z0 & Hm & H0). rewrite Hm. cbn [option_bind].
  destruct Hl as [w Hw|w w' Hw Hw' Hst].
  - destruct (takew_ws w s2 Hw Hws) as [E1 E2]. rewrite E1, E2 in H0.
    rewrite (cur3_pk0 _ _ _ _ H0). cbn [option_bind]. rewrite Htop. cbn [option_bind].
    unfold next_comma. replace (hd0 s2 =? 44) with false by lia. cbn [option_bind].
    exists z0. split; [exact H0|reflexivity].
  - rewrite <- app_assoc in H0. cbn [app] in H0.
    destruct (takew_ws w (44 :: w' ++ s2) Hw eq_refl) as [E1 E2]. rewrite E1, E2 in H0.
    rewrite (cur3_pk0 _ _ _ _ H0). cbn [option_bind hd0]. rewrite Htop. cbn [option_bind].
    unfold next_comma. rewrite Z.eqb_refl.
    assert (Hs : negb (state =? S_Array) && negb (state =? S_ObjectKey) = false).
    { unfold S_Array, S_ObjectKey in *. destruct Hst as [Hst|Hst]; rewrite Hst in Htop; inversion Htop; reflexivity. }
    rewrite Hs.
    pose proof (cur3_mv1 _ _ _ _ _ H0) as H1.
    destruct (move_ws_spec _ _ _ _ H1) as (z1 & Hm1 & H1'). rewrite Hm1. cbn [option_bind].
    destruct (takew_ws w' s2 Hw' Hws) as [E3 E4]. rewrite E3, E4 in H1'.
    rewrite (cur3_pk0 _ _ _ _ H1'). cbn [option_bind].
    exists z1. split; [|reflexivity].
    replace (tok ++ w ++ 44 :: w') with (((tok ++ w) ++ [44]) ++ w'); [exact H1'|].
    rewrite <- !app_assoc. reflexivity.
Qed.

(* ---------------------------------------------------------------------------------------------- *)
(* precise behaviour of the rest of Next on each kind of token *)

Lemma emit_at p g z a x r st need : cur3 z a x r ->
  exists z', emit p g z st need = Some ((g, Some (len a, x)), mkP z' st (perr p) need (prd p)) /\
             cur3 z' (a ++ x) [] r.
Proof.
  intros H. unfold emit. rewrite (cur3_shift _ _ _ _ H). cbn [option_bind fst snd].
  rewrite (cur3_lstart _ _ _ _ H). eexists. split; [reflexivity|]. apply cur3_skip. exact H.
Qed.

(* [ and { *)
Lemma body_open p z1 a tok1 c r state g s :
  cur3 z1 a tok1 (c :: r) -> state <> S_ObjectKey ->
  (c = 91 /\ g = G_StartArray /\ s = S_Array) \/ (c = 123 /\ g = G_StartObject /\ s = S_ObjectKey) ->
  exists z' lo, next_body p z1 c false state = Some ((g, Some (lo, [c])), mkP z' (s :: pst p) (perr p) false (prd p)) /\
                cur3 z' (a ++ tok1 ++ [c]) [] r.
Proof.
  intros H1 Hstate Hc. unfold next_body. cbn [andb].
  pose proof (cur3_mv1 _ _ _ _ _ (cur3_skip _ _ _ _ H1)) as H3. cbn [app] in H3.
  destruct (emit_at p g _ _ _ _ (s :: pst p) false H3) as (z' & He & Hz').
  rewrite <- app_assoc in Hz'.
  replace (negb (state =? S_ObjectKey)) with true by lia.
  destruct Hc as [(-> & -> & ->)|(-> & -> & ->)].
  - cbn [Z.eqb Pos.eqb andb]. exists z', (len (a ++ tok1)). split; [exact He|exact Hz'].
  - cbn [Z.eqb Pos.eqb andb]. exists z', (len (a ++ tok1)). split; [exact He|exact Hz'].
Qed.

(* ] and } closing the matching container *)
Lemma body_close p z1 a tok1 c r nd state g st :
  cur3 z1 a tok1 (c :: r) -> pst p = state :: st -> st <> [] ->
  (c = 93 /\ g = G_EndArray /\ state = S_Array) \/ (c = 125 /\ g = G_EndObject /\ state = S_ObjectKey) ->
  exists z' lo, next_body p z1 c nd state = Some ((g, Some (lo, [c])), mkP z' (valfix st) (perr p) true (prd p)) /\
                cur3 z' (a ++ tok1 ++ [c]) [] r.
Proof.
  intros H1 Hst Hne Hc. unfold next_body.
  pose proof (cur3_mv1 _ _ _ _ _ (cur3_skip _ _ _ _ H1)) as H3. cbn [app] in H3.
  destruct (emit_at p g _ _ _ _ (valfix st) true H3) as (z' & He & Hz').
  rewrite <- app_assoc in Hz'.
  assert (Hpop : pop_fix (pst p) = Some (valfix st)).
  { rewrite Hst. destruct st as [|s2 t2]; [congruence|]. reflexivity. }
  destruct Hc as [(-> & -> & ->)|(-> & -> & ->)].
  - replace (nd && negb (93 =? 125) && negb (93 =? 93) && negb (93 =? 0)) with false
      by (destruct nd; reflexivity).
    cbn [Z.eqb Pos.eqb negb]. rewrite Hpop. cbn [option_bind].
    exists z', (len (a ++ tok1)). split; [exact He|exact Hz'].
  - replace (nd && negb (125 =? 125) && negb (125 =? 93) && negb (125 =? 0)) with false
      by (destruct nd; reflexivity).
    cbn [Z.eqb Pos.eqb negb]. rewrite Hpop. cbn [option_bind].
    exists z', (len (a ++ tok1)). split; [exact He|exact Hz'].
Qed.

Lemma jstring_hd k r : jstring k -> exists t, k ++ r = 34 :: t.
Proof. intros [cs _]. eexists. reflexivity. Qed.

Lemma not_bracket_body p z1 c need state : need = false -> (c <> 123 \/ state = S_ObjectKey) -> c <> 125 ->
  (c <> 91 \/ state = S_ObjectKey) -> c <> 93 ->
  next_body p z1 c need state =
  if state =? S_ObjectKey then next_key p (skip z1) c need else next_value p (skip z1) c need state.
Proof.
  intros -> H1 H2 H3 H4. unfold next_body. cbn [andb].
  replace ((c =? 123) && negb (state =? S_ObjectKey)) with false by lia. replace (c =? 125) with false by lia.
  replace ((c =? 91) && negb (state =? S_ObjectKey)) with false by lia. replace (c =? 93) with false by lia.
  reflexivity.
Qed.

(* a key followed by whitespace and the colon *)
Lemma body_key p z1 a tok1 k w2 r st :
  cur3 z1 a tok1 (k ++ w2 ++ 58 :: r) -> jstring k -> ws w2 -> pst p = S_ObjectKey :: st ->
  exists z' lo, next_body p z1 34 false S_ObjectKey =
                  Some ((G_String, Some (lo, k)), mkP z' (S_ObjectValue :: st) (perr p) false (prd p)) /\
                cur3 z' (a ++ tok1 ++ k ++ w2 ++ [58]) [] r.
Proof.
  intros H1 Hk Hw Hst. rewrite not_bracket_body by (try reflexivity; lia).
  cbn [Z.eqb Pos.eqb S_ObjectKey]. unfold next_key. cbn [Z.eqb Pos.eqb negb].
  pose proof (cur3_skip _ _ _ _ H1) as H2.
  destruct (jstring_split k (w2 ++ 58 :: r) Hk) as (cs & Ek & Hsp).
  assert (Ein : k ++ w2 ++ 58 :: r = 34 :: cs ++ 34 :: w2 ++ 58 :: r).
  { rewrite Ek. cbn [app]. rewrite <- app_assoc. reflexivity. }
  rewrite Ein in H2.
  destruct (consume_string_spec _ _ _ _ _ H2) as (z3 & Hcs & H3). cbn [app] in Hcs, H3.
  rewrite Hsp in Hcs, H3. cbn [fst snd] in Hcs, H3.
  rewrite Hcs. cbn [option_bind fst snd negb].
  destruct (move_ws_spec _ _ _ _ H3) as (z4 & Hm & H4). rewrite Hm. cbn [option_bind].
  destruct (takew_ws w2 (58 :: r) Hw eq_refl) as [E1 E2]. rewrite E1, E2 in H4.
  rewrite (cur3_pk0 _ _ _ _ H4). cbn [option_bind hd0 Z.eqb Pos.eqb negb].
  rewrite Hst. cbn [set_top option_bind].
  pose proof (cur3_mv1 _ _ _ _ _ H4) as H5.
  rewrite (cur3_shift _ _ _ _ H5). cbn [option_bind fst snd].
  rewrite (cur3_mark _ _ _ _ H3).
  assert (Hn : slice_ok 0 (len (34 :: cs ++ [34])) (len (((34 :: cs ++ [34]) ++ w2) ++ [58])) = true).
  { unfold slice_ok. rewrite !len_app. pose proof (len_nonneg (34 :: cs ++ [34])). pose proof (len_nonneg w2).
    change (len [58]) with 1. lia. }
  rewrite Hn.
  assert (Hf : firstz (len (34 :: cs ++ [34])) (((34 :: cs ++ [34]) ++ w2) ++ [58]) = 34 :: cs ++ [34]).
  { rewrite <- app_assoc. apply firstz_app_len. }
  rewrite Hf. rewrite <- Ek.
  eexists _, _. split; [reflexivity|].
  pose proof (cur3_skip _ _ _ _ H5) as H6. rewrite <- Ek in H6.
  replace (a ++ tok1 ++ k ++ w2 ++ [58]) with ((a ++ tok1) ++ (k ++ w2) ++ [58]); [exact H6|].
  rewrite <- !app_assoc. reflexivity.
Qed.

(* scalar values *)
Inductive scalar : list Z -> Z -> Prop :=
| sc_str k : jstring k -> scalar k G_String
| sc_num n : jnumber n -> scalar n G_Number
| sc_lit x : x = L_TRUE \/ x = L_FALSE \/ x = L_NULL -> scalar x G_Literal.

Lemma scalar_hd x g r : scalar x g -> let c := hd0 (x ++ r) in
  is_ws c = false /\ c <> 44 /\ c <> 123 /\ c <> 125 /\ c <> 91 /\ c <> 93 /\ c <> 0.
Proof.
  intros H. destruct H as [k [cs _]|n Hn|x Hx]; cbn zeta.
  - cbn [app hd0]. unfold is_ws. lia.
  - destruct (jnumber_hd n r Hn) as [E|E]; [rewrite E; unfold is_ws; lia|].
    unfold is_digit in E. unfold is_ws. lia.
  - destruct Hx as [->|[->| ->]]; cbn [app hd0 L_TRUE L_FALSE L_NULL]; unfold is_ws; lia.
Qed.

Lemma body_scalar p z1 a tok1 x g r state :
  cur3 z1 a tok1 (x ++ r) -> scalar x g -> follow r -> top (pst p) = Some state -> state <> S_ObjectKey ->
  exists z' lo, next_body p z1 (hd0 (x ++ r)) false state =
                  Some ((g, Some (lo, x)), mkP z' (valfix (pst p)) (perr p) true (prd p)) /\
                cur3 z' (a ++ tok1 ++ x) [] r.
Proof.
  intros H1 Hx Hr Htop Hstate.
  destruct (scalar_hd x g r Hx) as (_ & _ & Hb1 & Hb2 & Hb3 & Hb4 & _).
  rewrite not_bracket_body by (try reflexivity; try assumption; left; assumption).
  replace (state =? S_ObjectKey) with false by lia.
  unfold next_value, emit_value.
  assert (Hst' : (if state =? S_ObjectValue then set_top (pst p) S_ObjectKey else Some (pst p))
                 = Some (valfix (pst p))).
  { destruct (pst p) as [|s0 t0] eqn:Ep; [discriminate|]. cbn in Htop. inversion Htop; subst s0.
    cbn [valfix set_top]. destruct (state =? S_ObjectValue); reflexivity. }
  rewrite Hst'. cbn [option_bind].
  pose proof (cur3_skip _ _ _ _ H1) as H2.
  destruct Hx as [k Hk|n Hn|x Hx].
  - (* string *)
    destruct (jstring_split k r Hk) as (cs & Ek & Hsp).
    assert (Ein : k ++ r = 34 :: cs ++ 34 :: r).
    { rewrite Ek. cbn [app]. rewrite <- app_assoc. reflexivity. }
    rewrite Ein in H2 |- *. cbn [hd0 Z.eqb Pos.eqb].
    destruct (consume_string_spec _ _ _ _ _ H2) as (z3 & Hcs & H3). cbn [app] in Hcs, H3.
    rewrite Hsp in Hcs, H3. cbn [fst snd] in Hcs, H3.
    rewrite Hcs. cbn [option_bind fst snd].
    destruct (emit_at p G_String _ _ _ _ (valfix (pst p)) true H3) as (z' & He & Hz').
    rewrite He. rewrite <- Ek. eexists _, _. split; [reflexivity|].
    rewrite <- Ek in Hz'. rewrite <- app_assoc in Hz'. exact Hz'.
  - (* number *)
    assert (H34 : (hd0 (n ++ r) =? 34) = false).
    { destruct (jnumber_hd n r Hn) as [E|E]; [rewrite E; reflexivity|]. unfold is_digit in E. lia. }
    rewrite H34. cbn [option_bind fst snd].
    pose proof (consume_number_spec _ _ _ _ H2) as Hsp. rewrite (jnumber_split n r Hn Hr) in Hsp.
    destruct Hsp as (z4 & Hcn & H4). rewrite Hcn. cbn [option_bind fst snd].
    cbn [app] in H4.
    destruct (emit_at p G_Number _ _ _ _ (valfix (pst p)) true H4) as (z' & He & Hz').
    rewrite He. eexists _, _. split; [reflexivity|]. rewrite <- app_assoc in Hz'. exact Hz'.
  - (* literal *)
    assert (H34 : (hd0 (x ++ r) =? 34) = false).
    { destruct Hx as [->|[->| ->]]; reflexivity. }
    rewrite H34. cbn [option_bind fst snd].
    pose proof (consume_number_spec _ _ _ _ H2) as Hsp.
    assert (Hns : num_split (x ++ r) = None) by (destruct Hx as [->|[->| ->]]; reflexivity).
    rewrite Hns in Hsp. destruct Hsp as (z4 & Hcn & H4). rewrite Hcn. cbn [option_bind fst snd].
    pose proof (consume_literal_spec _ _ _ _ H4) as Hl.
    assert (Hls : lit_split (x ++ r) = Some (x, r)) by (destruct Hx as [->|[->| ->]]; reflexivity).
    rewrite Hls in Hl. destruct Hl as (z5 & Hcl & H5). rewrite Hcl. cbn [option_bind fst snd].
    cbn [app] in H5.
    destruct (emit_at p G_Literal _ _ _ _ (valfix (pst p)) true H5) as (z' & He & Hz').
    rewrite He. eexists _, _. split; [reflexivity|]. rewrite <- app_assoc in Hz'. exact Hz'.
Qed.

(* the end of the input in a value position: ErrorGrammar, nothing recorded, nothing changed *)
Lemma body_eof p z1 a tok1 state nd :
  cur3 z1 a tok1 [] -> state <> S_ObjectKey -> prd p = 0 ->
  exists z', next_body p z1 0 nd state = Some ((G_Error, None), mkP z' (pst p) (perr p) nd (prd p)) /\
             cur3 z' (a ++ tok1) [] [].
Proof.
  intros H1 Hstate Hprd. unfold next_body.
  replace (nd && negb (0 =? 125) && negb (0 =? 93) && negb (0 =? 0)) with false by (destruct nd; reflexivity).
  cbn [Z.eqb]. replace (state =? S_ObjectKey) with false by lia.
  unfold next_value. change (0 =? 34) with false. cbn [option_bind fst snd].
  pose proof (cur3_skip _ _ _ _ H1) as H2.
  pose proof (consume_number_spec _ _ _ _ H2) as Hn. cbn [num_split sign_split int_split] in Hn.
  destruct Hn as (z4 & Hcn & H4). rewrite Hcn. cbn [option_bind fst snd].
  pose proof (consume_literal_spec _ _ _ _ H4) as Hl. cbn in Hl. rewrite Hl. cbn [option_bind fst snd].
  rewrite (cur3_pk0 _ _ _ _ H4). cbn [option_bind hd0 Z.eqb andb].
  unfold r_err. rewrite Hprd. cbn [Z.eqb negb orb]. rewrite (cur3_at_end _ _ _ _ H4). cbn [len length Z.of_nat Z.eqb negb].
  exists z4. split; [reflexivity|exact H4].
Qed.

(* ---------------------------------------------------------------------------------------------- *)
(* runs of non-error calls, and the driver *)

Inductive runs : parser -> list seen -> parser -> Prop :=
| runs_nil p : runs p [] p
| runs_cons p g lo b p1 s us p' :
    next p = Some ((g, Some (lo, b)), p1) -> g <> G_Error -> state p1 = Some s -> runs p1 us p' ->
    runs p (mkSeen g b s :: us) p'.

Lemma runs_app p us1 p1 us2 p2 : runs p us1 p1 -> runs p1 us2 p2 -> runs p (us1 ++ us2) p2.
Proof.
  intros H1 H2. induction H1; [exact H2|]. cbn [app]. eapply runs_cons; eauto.
Qed.

Lemma runs_one p g lo b p1 s : next p = Some ((g, Some (lo, b)), p1) -> g <> G_Error -> state p1 = Some s ->
  runs p [mkSeen g b s] p1.
Proof. intros. eapply runs_cons; eauto. apply runs_nil. Qed.

Lemma drive_runs p us p' : runs p us p' -> forall fuel,
  drive (length us + fuel) p =
  match drive fuel p' with Done us' f => Done (us ++ us') f | r => r end.
Proof.
  intros H. induction H as [p|p g lo b p1 s us p' Hn Hg Hs Hr IH]; intros fuel.
  - cbn [length Nat.add app]. destruct (drive fuel p); reflexivity.
  - cbn [length Nat.add drive]. rewrite Hn. replace (g =? G_Error) with false by lia.
    rewrite Hs. rewrite IH. destruct (drive fuel p'); reflexivity.
Qed.

(* ---------------------------------------------------------------------------------------------- *)
(* re-joining *)

Definition dseen := mkSeen 0 [] 0.
Definition vlast (u : seen) : Prop := is_start u = false /\ is_key u = false.

Lemma last_default {A} (l : list A) d1 d2 : l <> [] -> last l d1 = last l d2.
Proof.
  induction l as [|x l IH]; [congruence|]. intros _. destruct l as [|y l]; [reflexivity|].
  change (last (x :: y :: l) d1) with (last (y :: l) d1).
  change (last (x :: y :: l) d2) with (last (y :: l) d2). apply IH. discriminate.
Qed.

Lemma rejoin_from_app prev us1 us2 :
  rejoin_from prev (us1 ++ us2) = rejoin_from prev us1 ++ rejoin_from (last us1 prev) us2.
Proof.
  revert prev. induction us1 as [|u us1 IH]; intros prev; [reflexivity|].
  cbn [app rejoin_from]. rewrite IH. rewrite <- !app_assoc. do 3 f_equal.
  destruct us1 as [|u2 us1]; [reflexivity|].
  change (last (u :: u2 :: us1) prev) with (last (u2 :: us1) prev). f_equal. apply last_default. discriminate.
Qed.

Lemma rejoin_from_rejoin prev us : us <> [] -> rejoin_from prev us = sep prev (hd dseen us) ++ rejoin us.
Proof. destruct us as [|u us]; [congruence|]. reflexivity. Qed.

Lemma last_app_ne {A} (l1 l2 : list A) d : l2 <> [] -> last (l1 ++ l2) d = last l2 d.
Proof.
  intros H. induction l1 as [|x l1 IH]; [reflexivity|]. cbn [app].
  destruct (l1 ++ l2) eqn:E; [destruct l1; [cbn in E; congruence|discriminate]|]. exact IH.
Qed.

(* separators *)
Lemma sep_after_start prev u : is_key prev = false -> is_start prev = true -> sep prev u = [].
Proof. intros H1 H2. unfold sep. rewrite H1, H2. reflexivity. Qed.
Lemma sep_comma prev u : vlast prev -> is_end u = false -> sep prev u = [44].
Proof. intros [H1 H2] H3. unfold sep. rewrite H2, H1, H3. reflexivity. Qed.
Lemma sep_end prev u : is_key prev = false -> is_end u = true -> sep prev u = [].
Proof. intros H1 H2. unfold sep. rewrite H1, H2. rewrite orb_true_r. reflexivity. Qed.
Lemma sep_colon prev u : is_key prev = true -> sep prev u = [58].
Proof. intros H1. unfold sep. rewrite H1. reflexivity. Qed.

(* ---------------------------------------------------------------------------------------------- *)
(* single-unit runs *)

Definition same_err (p p' : parser) : Prop := perr p' = perr p /\ prd p' = prd p.

Lemma lead_plain_false p w : ws w -> pneed p = false -> lead_ok p w false.
Proof. intros Hw Hn. rewrite <- Hn. apply lead_plain. exact Hw. Qed.

Lemma open_run p a tok lead c r state g s :
  cur3 (pz p) a tok (lead ++ c :: r) -> lead_ok p lead false -> top (pst p) = Some state ->
  state <> S_ObjectKey ->
  (c = 91 /\ g = G_StartArray /\ s = S_Array) \/ (c = 123 /\ g = G_StartObject /\ s = S_ObjectKey) ->
  exists p1 a1, runs p [mkSeen g [c] s] p1 /\ cur3 (pz p1) a1 [] r /\ pst p1 = s :: pst p /\
                pneed p1 = false /\ same_err p p1.
Proof.
  intros Hc Hl Htop Hstate Hk.
  assert (Hws : is_ws (hd0 (c :: r)) = false /\ hd0 (c :: r) <> 44).
  { cbn [hd0]. unfold is_ws. destruct Hk as [(-> & _)|(-> & _)]; split; lia. }
  destruct (next_front p a tok lead (c :: r) false state Hc Hl (proj1 Hws) (proj2 Hws) Htop) as (z1 & H1 & Hn).
  cbn [hd0] in Hn.
  destruct (body_open p z1 a (tok ++ lead) c r state g s H1 Hstate Hk) as (z' & lo & Hb & Hz').
  rewrite Hb in Hn. eexists _, _. split.
  { eapply runs_one; [exact Hn| |reflexivity]. destruct Hk as [(_ & -> & _)|(_ & -> & _)]; discriminate. }
  cbn [pz pst pneed]. split; [exact Hz'|]. split; [reflexivity|]. split; [reflexivity|]. split; reflexivity.
Qed.

Lemma top_valfix_some st : st <> [] -> exists s, top (valfix st) = Some s.
Proof. destruct st as [|s t]; [congruence|]. intros _. eexists. reflexivity. Qed.

Lemma close_run p a tok w c r state g st :
  cur3 (pz p) a tok (w ++ c :: r) -> ws w -> pst p = state :: st -> st <> [] ->
  (c = 93 /\ g = G_EndArray /\ state = S_Array) \/ (c = 125 /\ g = G_EndObject /\ state = S_ObjectKey) ->
  exists p1 a1 s', runs p [mkSeen g [c] s'] p1 /\ cur3 (pz p1) a1 [] r /\ pst p1 = valfix st /\
                   pneed p1 = true /\ same_err p p1.
Proof.
  intros Hc Hw Hst Hne Hk.
  assert (Hws : is_ws (hd0 (c :: r)) = false /\ hd0 (c :: r) <> 44).
  { cbn [hd0]. unfold is_ws. destruct Hk as [(-> & _)|(-> & _)]; split; lia. }
  assert (Htop : top (pst p) = Some state) by (rewrite Hst; reflexivity).
  destruct (next_front p a tok w (c :: r) (pneed p) state Hc (lead_plain p w Hw) (proj1 Hws) (proj2 Hws) Htop)
    as (z1 & H1 & Hn).
  cbn [hd0] in Hn.
  destruct (body_close p z1 a (tok ++ w) c r (pneed p) state g st H1 Hst Hne Hk) as (z' & lo & Hb & Hz').
  rewrite Hb in Hn. destruct (top_valfix_some st Hne) as (s' & Hs').
  eexists _, _, s'. split.
  { eapply runs_one; [exact Hn| |exact Hs']. destruct Hk as [(_ & -> & _)|(_ & -> & _)]; discriminate. }
  cbn [pz pst pneed]. split; [exact Hz'|]. split; [reflexivity|]. split; [reflexivity|]. split; reflexivity.
Qed.

Lemma scalar_run p a tok lead x g r state :
  cur3 (pz p) a tok (lead ++ x ++ r) -> lead_ok p lead false -> scalar x g -> follow r ->
  top (pst p) = Some state -> state <> S_ObjectKey ->
  exists p1 a1 s', runs p [mkSeen g x s'] p1 /\ cur3 (pz p1) a1 [] r /\ pst p1 = valfix (pst p) /\
                   pneed p1 = true /\ same_err p p1 /\ s' <> S_ObjectValue.
Proof.
  intros Hc Hl Hx Hr Htop Hstate.
  destruct (scalar_hd x g r Hx) as (Hws & H44 & _).
  destruct (next_front p a tok lead (x ++ r) false state Hc Hl Hws H44 Htop) as (z1 & H1 & Hn).
  destruct (body_scalar p z1 a (tok ++ lead) x g r state H1 Hx Hr Htop Hstate) as (z' & lo & Hb & Hz').
  rewrite Hb in Hn.
  assert (Hne : pst p <> []) by (destruct (pst p); [discriminate|discriminate]).
  destruct (top_valfix_some (pst p) Hne) as (s' & Hs').
  eexists _, _, s'. split.
  { eapply runs_one; [exact Hn| |exact Hs']. destruct Hx; discriminate. }
  cbn [pz pst pneed]. split; [exact Hz'|]. split; [reflexivity|]. split; [reflexivity|]. split; [split; reflexivity|].
  destruct (pst p) as [|s0 t0]; [congruence|]. cbn [valfix top] in Hs'. inversion Hs'.
  unfold S_ObjectValue, S_ObjectKey. destruct (s0 =? 2) eqn:E; lia.
Qed.

Lemma key_run p a tok lead k w2 r st :
  cur3 (pz p) a tok (lead ++ k ++ w2 ++ 58 :: r) -> lead_ok p lead false -> jstring k -> ws w2 ->
  pst p = S_ObjectKey :: st ->
  exists p1 a1, runs p [mkSeen G_String k S_ObjectValue] p1 /\ cur3 (pz p1) a1 [] r /\
                pst p1 = S_ObjectValue :: st /\ pneed p1 = false /\ same_err p p1.
Proof.
  intros Hc Hl Hk Hw Hst.
  destruct (jstring_hd k (w2 ++ 58 :: r) Hk) as (t & Et).
  assert (Htop : top (pst p) = Some S_ObjectKey) by (rewrite Hst; reflexivity).
  assert (Hh : hd0 (k ++ w2 ++ 58 :: r) = 34) by (rewrite Et; reflexivity).
  destruct (next_front p a tok lead (k ++ w2 ++ 58 :: r) false S_ObjectKey Hc Hl) as (z1 & H1 & Hn);
    [rewrite Hh; reflexivity|rewrite Hh; lia|exact Htop|].
  rewrite Hh in Hn.
  destruct (body_key p z1 a (tok ++ lead) k w2 r st H1 Hk Hw Hst) as (z' & lo & Hb & Hz').
  rewrite Hb in Hn. eexists _, _. split.
  { eapply runs_one; [exact Hn|discriminate|reflexivity]. }
  cbn [pz pst pneed]. split; [exact Hz'|]. split; [reflexivity|]. split; [reflexivity|]. split; reflexivity.
Qed.

(* ---------------------------------------------------------------------------------------------- *)
(* the induction *)

Definition val_post (p p' : parser) (r : list Z) (us : list seen) (v : list Z) : Prop :=
  (exists a', cur3 (pz p') a' [] r) /\ pst p' = valfix (pst p) /\ pneed p' = true /\ same_err p p' /\
  us <> [] /\ is_end (hd dseen us) = false /\ vlast (last us dseen) /\ rejoin us = strip_ws v.

Definition P_val (v : list Z) : Prop := forall p a tok lead r state,
  cur3 (pz p) a tok (lead ++ v ++ r) -> lead_ok p lead false -> follow r ->
  top (pst p) = Some state -> state <> S_ObjectKey ->
  exists us p', runs p us p' /\ val_post p p' r us v.

(* lp: what is still unread before the list: nothing (right after the opening bracket) or "ws ," *)
Definition lp_ok (p : parser) (lp : list Z) (prev : seen) (first : bool) : Prop :=
  if first then lp = [] /\ pneed p = false /\ is_start prev = true /\ is_key prev = false
  else exists w, ws w /\ lp = w ++ [44] /\ vlast prev.

Definition list_post (p p' : parser) (close : Z) (r : list Z) (us : list seen) (prev : seen) (first : bool)
  (body : list Z) : Prop :=
  exists w2, ws w2 /\ (exists a', cur3 (pz p') a' [] (w2 ++ close :: r)) /\ pst p' = pst p /\
    pneed p' = true /\ same_err p p' /\ us <> [] /\ vlast (last us dseen) /\
    rejoin_from prev us = (if first then [] else [44]) ++ strip_ws body.

Definition P_list (close s : Z) (body : list Z) : Prop := forall p a tok lp r st prev first,
  cur3 (pz p) a tok (lp ++ body ++ close :: r) -> pst p = s :: st -> lp_ok p lp prev first ->
  exists us p', runs p us p' /\ list_post p p' close r us prev first body.

Lemma same_err_trans p1 p2 p3 : same_err p1 p2 -> same_err p2 p3 -> same_err p1 p3.
Proof. intros [A B] [C D]. split; congruence. Qed.

Lemma follow_ws_sep w c r : ws w -> c = 44 \/ c = 93 \/ c = 125 -> follow (w ++ c :: r).
Proof.
  intros Hw Hc. destruct Hw as [|x w Hx Hw]; cbn [app follow]; [right; exact Hc|].
  left. rewrite <- g_ws_is_ws. exact Hx.
Qed.

Lemma follow_ws_end w : ws w -> follow w.
Proof.
  intros Hw. destruct Hw as [|x w Hx Hw]; cbn [follow]; [exact I|]. left. rewrite <- g_ws_is_ws. exact Hx.
Qed.

(* scalars *)
Lemma scalar_val x g : scalar x g -> strip_ws x = x -> P_val x.
Proof.
  intros Hx Hs p a tok lead r state Hc Hl Hr Htop Hstate.
  destruct (scalar_run p a tok lead x g r state Hc Hl Hx Hr Htop Hstate)
    as (p1 & a1 & s' & Hrun & Hc1 & Hst & Hn & He & Hs').
  exists [mkSeen g x s'], p1. split; [exact Hrun|].
  unfold val_post. split; [exists a1; exact Hc1|]. split; [exact Hst|]. split; [exact Hn|]. split; [exact He|].
  split; [discriminate|]. cbn [hd last].
  assert (Hg : g = G_String \/ g = G_Number \/ g = G_Literal) by (destruct Hx; auto).
  split. { unfold is_end. cbn [sg]. unfold G_String, G_Number, G_Literal, G_EndObject, G_EndArray in *. lia. }
  split.
  { split.
    - unfold is_start. cbn [sg]. unfold G_String, G_Number, G_Literal, G_StartObject, G_StartArray in *. lia.
    - unfold is_key. cbn [sg sstate]. replace (s' =? S_ObjectValue) with false by lia. apply andb_false_r. }
  cbn [rejoin rejoin_from sbytes]. rewrite app_nil_r. symmetry. exact Hs.
Qed.

Inductive ckind : Z -> Z -> Z -> Z -> Z -> Prop :=
| ck_arr : ckind 91 93 G_StartArray G_EndArray S_Array
| ck_obj : ckind 123 125 G_StartObject G_EndObject S_ObjectKey.

Lemma ckind_open c1 c2 gs ge s : ckind c1 c2 gs ge s ->
  (c1 = 91 /\ gs = G_StartArray /\ s = S_Array) \/ (c1 = 123 /\ gs = G_StartObject /\ s = S_ObjectKey).
Proof. intros []; auto. Qed.
Lemma ckind_close c1 c2 gs ge s : ckind c1 c2 gs ge s ->
  (c2 = 93 /\ ge = G_EndArray /\ s = S_Array) \/ (c2 = 125 /\ ge = G_EndObject /\ s = S_ObjectKey).
Proof. intros []; auto. Qed.

Lemma ckind_units c1 c2 gs ge s s1 s2 : ckind c1 c2 gs ge s ->
  let u1 := mkSeen gs [c1] s1 in let u3 := mkSeen ge [c2] s2 in
  is_start u1 = true /\ is_key u1 = false /\ is_end u1 = false /\
  is_start u3 = false /\ is_key u3 = false /\ is_end u3 = true.
Proof. intros []; cbn; repeat split; reflexivity. Qed.

Lemma ckind_plain c1 c2 gs ge s : ckind c1 c2 gs ge s -> plainc c1 /\ plainc c2.
Proof. intros []; split; apply plainc_struct; lia. Qed.

Lemma top_some_ne st s : top st = Some s -> st <> [].
Proof. destruct st; [discriminate|discriminate]. Qed.

(* c1 ws c2 *)
Lemma container_empty c1 c2 gs ge s w : ckind c1 c2 gs ge s -> ws w -> P_val (c1 :: w ++ [c2]).
Proof.
  intros Hk Hw p a tok lead r state Hc Hl Hr Htop Hstate.
  replace (lead ++ (c1 :: w ++ [c2]) ++ r) with (lead ++ c1 :: (w ++ c2 :: r)) in Hc
    by (cbn [app]; rewrite <- !app_assoc; reflexivity).
  destruct (open_run p a tok lead c1 _ state gs s Hc Hl Htop Hstate (ckind_open _ _ _ _ _ Hk))
    as (p1 & a1 & Hrun1 & Hc1 & Hst1 & Hn1 & He1).
  destruct (close_run p1 a1 [] w c2 r s ge (pst p) Hc1 Hw Hst1 (top_some_ne _ _ Htop) (ckind_close _ _ _ _ _ Hk))
    as (p3 & a3 & s3 & Hrun3 & Hc3 & Hst3 & Hn3 & He3).
  exists ([mkSeen gs [c1] s] ++ [mkSeen ge [c2] s3]), p3. split; [eapply runs_app; eassumption|].
  destruct (ckind_units c1 c2 gs ge s s s3 Hk) as (U1 & U2 & U3 & U4 & U5 & U6).
  destruct (ckind_plain _ _ _ _ _ Hk) as [Hp1 Hp2].
  unfold val_post. split; [exists a3; exact Hc3|]. split; [exact Hst3|]. split; [exact Hn3|].
  split; [eapply same_err_trans; eassumption|]. split; [discriminate|]. cbn [app hd last].
  split; [exact U3|]. split; [split; assumption|].
  cbn [rejoin rejoin_from sbytes]. rewrite sep_after_start by assumption.
  change (c1 :: w ++ [c2]) with ([c1] ++ w ++ [c2]).
  rewrite (strip_app [c1]) by (apply strip1; exact Hp1).
  rewrite (strip_app w) by (apply ws_strip; exact Hw).
  rewrite (proj1 (strip1 c1 Hp1)), (proj1 (strip1 c2 Hp2)), (proj1 (ws_strip w Hw)). reflexivity.
Qed.

(* c1 body c2 *)
Lemma container_full c1 c2 gs ge s body : ckind c1 c2 gs ge s -> balanced body -> P_list c2 s body ->
  P_val (c1 :: body ++ [c2]).
Proof.
  intros Hk Hbal Hbody p a tok lead r state Hc Hl Hr Htop Hstate.
  replace (lead ++ (c1 :: body ++ [c2]) ++ r) with (lead ++ c1 :: (body ++ c2 :: r)) in Hc
    by (cbn [app]; rewrite <- !app_assoc; reflexivity).
  destruct (open_run p a tok lead c1 _ state gs s Hc Hl Htop Hstate (ckind_open _ _ _ _ _ Hk))
    as (p1 & a1 & Hrun1 & Hc1 & Hst1 & Hn1 & He1).
  destruct (ckind_units c1 c2 gs ge s s 0 Hk) as (U1 & U2 & U3 & _).
  destruct (Hbody p1 a1 [] [] r (pst p) (mkSeen gs [c1] s) true Hc1 Hst1) as (us2 & p2 & Hrun2 & Hpost2).
  { cbn [lp_ok]. auto. }
  destruct Hpost2 as (w2 & Hw2 & (a2 & Hc2) & Hst2 & Hn2 & He2 & Hne2 & Hl2 & Hrj2).
  rewrite Hst1 in Hst2.
  destruct (close_run p2 a2 [] w2 c2 r s ge (pst p) Hc2 Hw2 Hst2 (top_some_ne _ _ Htop) (ckind_close _ _ _ _ _ Hk))
    as (p3 & a3 & s3 & Hrun3 & Hc3 & Hst3 & Hn3 & He3).
  destruct (ckind_units c1 c2 gs ge s s s3 Hk) as (_ & _ & _ & U4 & U5 & U6).
  destruct (ckind_plain _ _ _ _ _ Hk) as [Hp1 Hp2].
  exists ([mkSeen gs [c1] s] ++ us2 ++ [mkSeen ge [c2] s3]), p3.
  split; [eapply runs_app; [exact Hrun1|eapply runs_app; eassumption]|].
  unfold val_post. split; [exists a3; exact Hc3|]. split; [exact Hst3|]. split; [exact Hn3|].
  split; [eapply same_err_trans; [exact He1|eapply same_err_trans; eassumption]|].
  split; [discriminate|]. cbn [app hd]. split; [exact U3|].
  split.
  { change (mkSeen gs [c1] s :: us2 ++ [mkSeen ge [c2] s3]) with (([mkSeen gs [c1] s] ++ us2) ++ [mkSeen ge [c2] s3]).
    rewrite last_app_ne by discriminate. cbn [last]. split; assumption. }
  cbn [rejoin sbytes]. rewrite rejoin_from_app. rewrite Hrj2. cbn [app rejoin_from sbytes].
  rewrite (last_default us2 _ dseen Hne2).
  rewrite sep_end; [|apply Hl2|exact U6].
  change (c1 :: body ++ [c2]) with ([c1] ++ body ++ [c2]).
  rewrite (strip_app [c1]) by (apply strip1; exact Hp1).
  rewrite (strip_app body) by exact Hbal.
  rewrite (proj1 (strip1 c1 Hp1)), (proj1 (strip1 c2 Hp2)). cbn [app]. reflexivity.
Qed.

Scheme jvalue_min := Minimality for jvalue Sort Prop
  with jelems_min := Minimality for jelems Sort Prop
  with jmembers_min := Minimality for jmembers Sort Prop.
Combined Scheme json_mutmin from jvalue_min, jelems_min, jmembers_min.

(* the lead of the first token of a list item *)
Lemma item_lead p lp w1 prev first s st : lp_ok p lp prev first -> ws w1 -> pst p = s :: st ->
  s = S_Array \/ s = S_ObjectKey -> lead_ok p (lp ++ w1) false.
Proof.
  intros Hlp Hw1 Hst Hs. destruct first; cbn [lp_ok] in Hlp.
  - destruct Hlp as (-> & Hn & _). cbn [app]. apply lead_plain_false; assumption.
  - destruct Hlp as (w & Hw & -> & _). rewrite <- app_assoc. cbn [app].
    apply lead_comma; [exact Hw|exact Hw1|]. rewrite Hst. cbn [top]. destruct Hs as [->| ->]; auto.
Qed.

(* separator in front of the first unit of a list item *)
Lemma item_sep p lp prev first u : lp_ok p lp prev first -> is_end u = false ->
  sep prev u = if first then [] else [44].
Proof.
  intros Hlp Hu. destruct first; cbn [lp_ok] in Hlp.
  - destruct Hlp as (_ & _ & H1 & H2). apply sep_after_start; assumption.
  - destruct Hlp as (w & _ & _ & Hv). apply sep_comma; assumption.
Qed.

Theorem accept_mut :
  (forall v, jvalue v -> P_val v) /\ (forall els, jelems els -> P_list 93 S_Array els) /\
  (forall ms, jmembers ms -> P_list 125 S_ObjectKey ms).
Proof.
  destruct json_balanced as (Bv & Be & Bm).
  apply json_mutmin.
  - apply (scalar_val L_TRUE G_Literal); [apply sc_lit; auto|reflexivity].
  - apply (scalar_val L_FALSE G_Literal); [apply sc_lit; auto|reflexivity].
  - apply (scalar_val L_NULL G_Literal); [apply sc_lit; auto|reflexivity].
  - intros n Hn. apply (scalar_val n G_Number); [apply sc_num; exact Hn|apply jnumber_strip; exact Hn].
  - intros k Hk. apply (scalar_val k G_String); [apply sc_str; exact Hk|apply jstring_strip; exact Hk].
  - intros w Hw. apply (container_empty 91 93 _ _ _ w ck_arr Hw).
  - intros els Hels IH. apply (container_full 91 93 _ _ _ els ck_arr (Be els Hels) IH).
  - intros w Hw. apply (container_empty 123 125 _ _ _ w ck_obj Hw).
  - intros ms Hms IH. apply (container_full 123 125 _ _ _ ms ck_obj (Bm ms Hms) IH).
  - (* one element *)
    intros w1 v w2 Hw1 Hv IHv Hw2 p a tok lp r st prev first Hc Hst Hlp.
    replace (lp ++ (w1 ++ v ++ w2) ++ 93 :: r) with ((lp ++ w1) ++ v ++ (w2 ++ 93 :: r)) in Hc
      by (rewrite <- !app_assoc; reflexivity).
    destruct (IHv p a tok (lp ++ w1) (w2 ++ 93 :: r) S_Array Hc) as (us & p1 & Hrun & Hpost).
    { eapply item_lead; eauto. }
    { apply follow_ws_sep; auto. }
    { rewrite Hst. reflexivity. }
    { discriminate. }
    destruct Hpost as ((a1 & Hc1) & Hst1 & Hn1 & He1 & Hne & Hhd & Hl & Hrj).
    exists us, p1. split; [exact Hrun|]. exists w2. split; [exact Hw2|]. split; [exists a1; exact Hc1|].
    split. { rewrite Hst1, Hst. reflexivity. }
    split; [exact Hn1|]. split; [exact He1|]. split; [exact Hne|]. split; [exact Hl|].
    rewrite rejoin_from_rejoin by exact Hne. rewrite (item_sep p lp prev first _ Hlp Hhd). rewrite Hrj.
    rewrite (strip_app w1) by (apply ws_strip; exact Hw1). rewrite (strip_app v) by (apply Bv; exact Hv).
    rewrite (proj1 (ws_strip w1 Hw1)), (proj1 (ws_strip w2 Hw2)). cbn [app]. rewrite app_nil_r. reflexivity.
  - (* element , elements *)
    intros w1 v w2 r0 Hw1 Hv IHv Hw2 Hr0 IHr p a tok lp r st prev first Hc Hst Hlp.
    replace (lp ++ (w1 ++ v ++ w2 ++ 44 :: r0) ++ 93 :: r)
      with ((lp ++ w1) ++ v ++ ((w2 ++ [44]) ++ r0 ++ 93 :: r)) in Hc
      by (rewrite <- !app_assoc; cbn [app]; reflexivity).
    destruct (IHv p a tok (lp ++ w1) ((w2 ++ [44]) ++ r0 ++ 93 :: r) S_Array Hc) as (us1 & p1 & Hrun1 & Hpost1).
    { eapply item_lead; eauto. }
    { rewrite <- app_assoc. cbn [app]. apply follow_ws_sep; auto. }
    { rewrite Hst. reflexivity. }
    { discriminate. }
    destruct Hpost1 as ((a1 & Hc1) & Hst1 & Hn1 & He1 & Hne1 & Hhd1 & Hl1 & Hrj1).
    assert (Hst1' : pst p1 = S_Array :: st) by (rewrite Hst1, Hst; reflexivity).
    destruct (IHr p1 a1 [] (w2 ++ [44]) r st (last us1 dseen) false Hc1 Hst1') as (us2 & p2 & Hrun2 & Hpost2).
    { cbn [lp_ok]. exists w2. auto. }
    destruct Hpost2 as (w2' & Hw2' & Hc2 & Hst2 & Hn2 & He2 & Hne2 & Hl2 & Hrj2).
    exists (us1 ++ us2), p2. split; [eapply runs_app; eassumption|].
    exists w2'. split; [exact Hw2'|]. split; [exact Hc2|].
    split. { rewrite Hst2, Hst1', Hst. reflexivity. }
    split; [exact Hn2|]. split; [eapply same_err_trans; eassumption|].
    split. { destruct us1; [congruence|discriminate]. }
    split. { rewrite last_app_ne by exact Hne2. exact Hl2. }
    rewrite rejoin_from_app. rewrite (last_default us1 prev dseen Hne1). rewrite Hrj2.
    rewrite rejoin_from_rejoin by exact Hne1. rewrite (item_sep p lp prev first _ Hlp Hhd1). rewrite Hrj1.
    rewrite (strip_app w1) by (apply ws_strip; exact Hw1). rewrite (strip_app v) by (apply Bv; exact Hv).
    rewrite (strip_app w2) by (apply ws_strip; exact Hw2).
    change (44 :: r0) with ([44] ++ r0). rewrite (strip_app [44]) by (apply strip1; apply plainc_struct; lia).
    rewrite (proj1 (ws_strip w1 Hw1)), (proj1 (ws_strip w2 Hw2)).
    rewrite (proj1 (strip1 44 (plainc_struct 44 ltac:(lia)))). cbn [app]. rewrite <- !app_assoc. reflexivity.
  - (* one member *)
    intros w1 k w2 w3 v w4 Hw1 Hk Hw2 Hw3 Hv IHv Hw4 p a tok lp r st prev first Hc Hst Hlp.
    replace (lp ++ (w1 ++ k ++ w2 ++ 58 :: w3 ++ v ++ w4) ++ 125 :: r)
      with ((lp ++ w1) ++ k ++ w2 ++ 58 :: (w3 ++ v ++ (w4 ++ 125 :: r))) in Hc
      by (rewrite <- !app_assoc; cbn [app]; rewrite <- !app_assoc; reflexivity).
    destruct (key_run p a tok (lp ++ w1) k w2 _ st Hc) as (p1 & a1 & Hrun1 & Hc1 & Hst1 & Hn1 & He1); auto.
    { eapply item_lead; eauto. }
    destruct (IHv p1 a1 [] w3 (w4 ++ 125 :: r) S_ObjectValue Hc1) as (us2 & p2 & Hrun2 & Hpost2).
    { apply lead_plain_false; assumption. }
    { apply follow_ws_sep; auto. }
    { rewrite Hst1. reflexivity. }
    { discriminate. }
    destruct Hpost2 as ((a2 & Hc2) & Hst2 & Hn2 & He2 & Hne2 & Hhd2 & Hl2 & Hrj2).
    set (uk := mkSeen G_String k S_ObjectValue) in *.
    exists ([uk] ++ us2), p2. split; [eapply runs_app; eassumption|].
    exists w4. split; [exact Hw4|]. split; [exists a2; exact Hc2|].
    split. { rewrite Hst2, Hst1, Hst. reflexivity. }
    split; [exact Hn2|]. split; [eapply same_err_trans; eassumption|].
    split; [discriminate|].
    split. { rewrite last_app_ne by exact Hne2. exact Hl2. }
    cbn [app rejoin_from sbytes]. rewrite (item_sep p lp prev first uk Hlp eq_refl).
    rewrite rejoin_from_rejoin by exact Hne2. rewrite (sep_colon uk) by reflexivity. rewrite Hrj2.
    rewrite (strip_app w1) by (apply ws_strip; exact Hw1). rewrite (strip_app k) by (apply jstring_strip; exact Hk).
    rewrite (strip_app w2) by (apply ws_strip; exact Hw2).
    change (58 :: w3 ++ v ++ w4) with ([58] ++ w3 ++ v ++ w4).
    rewrite (strip_app [58]) by (apply strip1; apply plainc_struct; lia).
    rewrite (strip_app w3) by (apply ws_strip; exact Hw3). rewrite (strip_app v) by (apply Bv; exact Hv).
    rewrite (proj1 (ws_strip w1 Hw1)), (proj1 (ws_strip w2 Hw2)), (proj1 (ws_strip w3 Hw3)), (proj1 (ws_strip w4 Hw4)).
    rewrite (proj1 (jstring_strip k Hk)). rewrite (proj1 (strip1 58 (plainc_struct 58 ltac:(lia)))).
    cbn [app]. rewrite app_nil_r. reflexivity.
  - (* member , members *)
    intros w1 k w2 w3 v w4 r0 Hw1 Hk Hw2 Hw3 Hv IHv Hw4 Hr0 IHr p a tok lp r st prev first Hc Hst Hlp.
    replace (lp ++ (w1 ++ k ++ w2 ++ 58 :: w3 ++ v ++ w4 ++ 44 :: r0) ++ 125 :: r)
      with ((lp ++ w1) ++ k ++ w2 ++ 58 :: (w3 ++ v ++ ((w4 ++ [44]) ++ r0 ++ 125 :: r))) in Hc
      by (rewrite <- !app_assoc; cbn [app]; rewrite <- !app_assoc; cbn [app]; reflexivity).
    destruct (key_run p a tok (lp ++ w1) k w2 _ st Hc) as (p1 & a1 & Hrun1 & Hc1 & Hst1 & Hn1 & He1); auto.
    { eapply item_lead; eauto. }
    destruct (IHv p1 a1 [] w3 ((w4 ++ [44]) ++ r0 ++ 125 :: r) S_ObjectValue Hc1) as (us2 & p2 & Hrun2 & Hpost2).
    { apply lead_plain_false; assumption. }
    { rewrite <- app_assoc. cbn [app]. apply follow_ws_sep; auto. }
    { rewrite Hst1. reflexivity. }
    { discriminate. }
    destruct Hpost2 as ((a2 & Hc2) & Hst2 & Hn2 & He2 & Hne2 & Hhd2 & Hl2 & Hrj2).
    assert (Hst2' : pst p2 = S_ObjectKey :: st) by (rewrite Hst2, Hst1; reflexivity).
    destruct (IHr p2 a2 [] (w4 ++ [44]) r st (last us2 dseen) false Hc2 Hst2') as (us3 & p3 & Hrun3 & Hpost3).
    { cbn [lp_ok]. exists w4. auto. }
    destruct Hpost3 as (w4' & Hw4' & Hc3 & Hst3 & Hn3 & He3 & Hne3 & Hl3 & Hrj3).
    set (uk := mkSeen G_String k S_ObjectValue) in *.
    exists (([uk] ++ us2) ++ us3), p3.
    split; [eapply runs_app; [eapply runs_app; eassumption|exact Hrun3]|].
    exists w4'. split; [exact Hw4'|]. split; [exact Hc3|].
    split. { rewrite Hst3, Hst2', Hst. reflexivity. }
    split; [exact Hn3|].
    split; [eapply same_err_trans; [exact He1|eapply same_err_trans; eassumption]|].
    split; [discriminate|].
    split. { rewrite last_app_ne by exact Hne3. exact Hl3. }
    rewrite rejoin_from_app. rewrite (last_app_ne [uk] us2 prev Hne2). rewrite (last_default us2 prev dseen Hne2).
    rewrite Hrj3.
    cbn [app rejoin_from sbytes]. rewrite (item_sep p lp prev first uk Hlp eq_refl).
    rewrite rejoin_from_rejoin by exact Hne2. rewrite (sep_colon uk) by reflexivity. rewrite Hrj2.
    rewrite (strip_app w1) by (apply ws_strip; exact Hw1). rewrite (strip_app k) by (apply jstring_strip; exact Hk).
    rewrite (strip_app w2) by (apply ws_strip; exact Hw2).
    change (58 :: w3 ++ v ++ w4 ++ 44 :: r0) with ([58] ++ w3 ++ v ++ w4 ++ [44] ++ r0).
    rewrite (strip_app [58]) by (apply strip1; apply plainc_struct; lia).
    rewrite (strip_app w3) by (apply ws_strip; exact Hw3). rewrite (strip_app v) by (apply Bv; exact Hv).
    rewrite (strip_app w4) by (apply ws_strip; exact Hw4).
    rewrite (strip_app [44]) by (apply strip1; apply plainc_struct; lia).
    rewrite (proj1 (ws_strip w1 Hw1)), (proj1 (ws_strip w2 Hw2)), (proj1 (ws_strip w3 Hw3)), (proj1 (ws_strip w4 Hw4)).
    rewrite (proj1 (jstring_strip k Hk)). rewrite (proj1 (strip1 58 (plainc_struct 58 ltac:(lia)))).
    rewrite (proj1 (strip1 44 (plainc_struct 44 ltac:(lia)))).
    cbn [app]. rewrite <- !app_assoc. cbn [app]. reflexivity.
Qed.

(* ---------------------------------------------------------------------------------------------- *)
(* the theorem *)
From Verif Require Import Json.Trace.

Lemma runs_progress d p us p' : json_inv d p -> runs p us p' ->
  json_inv d p' /\ lpos (pz p) + len us <= lpos (pz p').
Proof.
  intros Hinv H. induction H as [p|p g lo b p1 s us p' Hn Hg Hs Hr IH].
  - split; [exact Hinv|]. rewrite len_nil. lia.
  - destruct (json_step_total_proof d p Hinv) as (u0 & p0 & E0 & Hinv1). rewrite Hn in E0. inversion E0; subst.
    destruct (json_progress_proof d p _ _ Hinv Hn) as [[Hbad|Hlt] _]; [cbn in Hbad; congruence|].
    destruct (IH Hinv1) as [Hinv' Hle]. split; [exact Hinv'|]. rewrite len_cons. lia.
Qed.

Theorem json_accepts_valid_proof : forall d, value d ->
  exists units final, drive (S (length d)) (json_init d) = Done units final /\
                      err_kind final = 1 /\ state final = Some S_Value /\ rejoin units = strip_ws d.
Proof.
  intros d Hv. destruct Hv as [w1 v w2 Hw1 Hv Hw2].
  set (d := w1 ++ v ++ w2).
  destruct accept_mut as (Hval & _ & _).
  destruct (Hval v Hv (json_init d) [] [] w1 w2 S_Value) as (us & p1 & Hrun & Hpost).
  { apply cur3_init. }
  { apply lead_plain_false; [exact Hw1|reflexivity]. }
  { apply follow_ws_end. exact Hw2. }
  { reflexivity. }
  { discriminate. }
  destruct Hpost as ((a1 & Hc1) & Hst1 & Hn1 & [He1 Hr1] & Hne & Hhd & Hl & Hrj).
  cbn [json_init pst perr prd valfix] in Hst1, He1, Hr1.
  (* the call at the end of the input *)
  assert (Hc1' : cur3 (pz p1) a1 [] (w2 ++ [])) by (rewrite app_nil_r; exact Hc1).
  assert (Htop1 : top (pst p1) = Some S_Value) by (rewrite Hst1; reflexivity).
  destruct (next_front p1 a1 [] w2 [] (pneed p1) S_Value Hc1' (lead_plain p1 w2 Hw2) eq_refl ltac:(cbn; lia) Htop1)
    as (z1 & Hz1 & Hnext).
  cbn [hd0] in Hnext.
  destruct (body_eof p1 z1 a1 ([] ++ w2) S_Value (pneed p1) Hz1 ltac:(discriminate) Hr1) as (zf & Hbody & Hzf).
  set (pf := mkP zf (pst p1) (perr p1) (pneed p1) (prd p1)) in *.
  assert (Hkind : err_kind pf = 1).
  { unfold err_kind, pf. cbn [perr prd pz]. rewrite He1, Hr1. cbn [Z.eqb negb].
    rewrite (cur3_at_end _ _ _ _ Hzf). reflexivity. }
  rewrite Hbody in Hnext.
  (* fuel *)
  destruct (runs_progress d _ _ _ (json_inv_init d) Hrun) as [Hinv1 Hle].
  pose proof (json_inv_pos d p1 Hinv1) as Hpos. cbn [json_init pz lx_init lpos] in Hle.
  assert (Hlen : (length us <= length d)%nat) by (unfold len in *; lia).
  exists us, pf. split; [|split; [exact Hkind|split; [unfold state, pf; cbn [pst]; rewrite Hst1; reflexivity|]]].
  - replace (S (length d)) with (length us + S (length d - length us))%nat by lia.
    rewrite (drive_runs _ _ _ Hrun). cbn [drive]. rewrite Hnext. cbn [Z.eqb G_Error]. rewrite app_nil_r. reflexivity.
  - rewrite Hrj. unfold d.
    rewrite (strip_app w1) by (apply ws_strip; exact Hw1).
    rewrite (strip_app v) by (apply (proj1 json_balanced); exact Hv).
    rewrite (proj1 (ws_strip w1 Hw1)), (proj1 (ws_strip w2 Hw2)). cbn [app]. rewrite app_nil_r. reflexivity.
Qed.

(* non-vacuity: a document with every kind of unit and whitespace at the structural positions *)
(*   { 'a' : [ 1 , true ] , 'b-backslash-quote' :-0.5e+1 }  followed by a newline; with double quotes *)
Definition ex_doc : list Z :=
  [32; 123; 32; 34; 97; 34; 32; 58; 32; 91; 32; 49; 32; 44; 32; 116; 114; 117; 101; 32; 93; 32;
   44; 32; 34; 98; 92; 34; 34; 32; 58; 45; 48; 46; 53; 101; 43; 49; 32; 125; 10].

Example ex_value : value ex_doc.
Proof.
  assert (W : ws [32]) by (repeat constructor).
  assert (W0 : ws []) by constructor.
  assert (W10 : ws [10]) by (repeat constructor).
  assert (D0 : digits []) by constructor.
  assert (K1 : jstring [34; 97; 34]).
  { exact (js_intro [97] (jc_plain 97 [] ltac:(lia) ltac:(lia) ltac:(lia) jc_nil)). }
  assert (K2 : jstring [34; 98; 92; 34; 34]).
  { exact (js_intro [98; 92; 34] (jc_plain 98 _ ltac:(lia) ltac:(lia) ltac:(lia) (jc_esc 34 [] eq_refl jc_nil))). }
  assert (N1 : jvalue [49]).
  { exact (jv_num _ (jn_intro [] [49] [] [] (or_introl eq_refl) (ji_pos 49 [] eq_refl D0) jf_none je_none)). }
  assert (N2 : jvalue [45; 48; 46; 53; 101; 43; 49]).
  { exact (jv_num _ (jn_intro [45] [48] [46; 53] [101; 43; 49] (or_intror eq_refl) ji_zero
                       (jf_some 53 [] eq_refl D0)
                       (je_some 101 [43] 49 [] (or_introl eq_refl) (or_intror (or_introl eq_refl)) eq_refl D0))). }
  assert (E2 : jelems [32; 116; 114; 117; 101; 32]).
  { exact (jel_one [32] L_TRUE [32] W jv_true W). }
  assert (E1 : jelems [32; 49; 32; 44; 32; 116; 114; 117; 101; 32]).
  { exact (jel_more [32] [49] [32] _ W N1 W E2). }
  assert (A : jvalue [91; 32; 49; 32; 44; 32; 116; 114; 117; 101; 32; 93]).
  { exact (jv_arr _ E1). }
  assert (M2 : jmembers [32; 34; 98; 92; 34; 34; 32; 58; 45; 48; 46; 53; 101; 43; 49; 32]).
  { exact (jm_one [32] _ [32] [] _ [32] W K2 W W0 N2 W). }
  assert (M1 : jmembers [32; 34; 97; 34; 32; 58; 32; 91; 32; 49; 32; 44; 32; 116; 114; 117; 101; 32; 93; 32;
                         44; 32; 34; 98; 92; 34; 34; 32; 58; 45; 48; 46; 53; 101; 43; 49; 32]).
  { exact (jm_more [32] _ [32] [32] _ [32] _ W K1 W W A W M2). }
  exact (value_intro [32] _ [10] W (jv_obj _ M1) W10).
Qed.

Example ex_accept : exists units final,
  drive (S (length ex_doc)) (json_init ex_doc) = Done units final /\
  length units = 9%nat /\
  rejoin units = [123; 34; 97; 34; 58; 91; 49; 44; 116; 114; 117; 101; 93; 44; 34; 98; 92; 34; 34; 58; 45; 48; 46; 53; 101; 43; 49; 125].
Proof. eexists _, _. split; [vm_compute; reflexivity|]. split; reflexivity. Qed.
