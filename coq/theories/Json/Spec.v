(* Json/Spec.v — definitions used in the statements of Props/C10.v: traces of Next calls, the driver that
   calls Next until ErrorGrammar, the re-joining of units described in the property text, and an
   independent bracket machine for the nesting clause.  Definitions only. *)
From Verif Require Import Common.Base Common.Lx Json.Model.

(* the first n calls of Next: the unit returned and the parser after each call; None = a call panicked *)
Fixpoint trace (n : nat) (p : parser) : option (list (unit_ * parser)) :=
  match n with
  | O => Some []
  | S k =>
      match next p with
      | None => None
      | Some (u, p') =>
          match trace k p' with
          | None => None
          | Some tr => Some ((u, p') :: tr)
          end
      end
  end.

Definition last_parser (p : parser) (tr : list (unit_ * parser)) : parser := snd (last tr ((G_Error, None), p)).

(* the GrammarTypes returned *)
Definition grammars (tr : list (unit_ * parser)) : list Z := map (fun up => fst (fst up)) tr.

(* what a caller sees of a non-error unit: GrammarType, bytes, State() after the call *)
Record seen := mkSeen { sg : Z; sbytes : list Z; sstate : Z }.

Inductive drive_result :=
| Done (units : list seen) (final : parser)     (* Next returned ErrorGrammar; final = parser after that call *)
| Panicked
| OutOfFuel.

(* call Next until it returns ErrorGrammar *)
Fixpoint drive (fuel : nat) (p : parser) : drive_result :=
  match fuel with
  | O => OutOfFuel
  | S k =>
      match next p with
      | None => Panicked
      | Some ((g, data), p') =>
          if g =? G_Error then Done [] p'
          else match data, state p' with
               | Some (_, b), Some s =>
                   match drive k p' with
                   | Done us f => Done (mkSeen g b s :: us) f
                   | r => r
                   end
               | _, _ => Panicked
               end
      end
  end.

(* Re-joining as the property text says: ':' after a key (a String unit after which State() is
   ObjectValueState); otherwise ',' between two units unless the first is a Start or the second an End. *)
Definition is_key (u : seen) : bool := (sg u =? G_String) && (sstate u =? S_ObjectValue).
Definition is_start (u : seen) : bool := (sg u =? G_StartObject) || (sg u =? G_StartArray).
Definition is_end (u : seen) : bool := (sg u =? G_EndObject) || (sg u =? G_EndArray).

Definition sep (prev cur : seen) : list Z :=
  if is_key prev then [58]
  else if is_start prev || is_end cur then []
  else [44].

Fixpoint rejoin_from (prev : seen) (us : list seen) : list Z :=
  match us with
  | [] => []
  | u :: rest => sep prev u ++ sbytes u ++ rejoin_from u rest
  end.

Definition rejoin (us : list seen) : list Z :=
  match us with
  | [] => []
  | u :: rest => sbytes u ++ rejoin_from u rest
  end.

(* Independent bracket machine: the stack holds the Start GrammarTypes of the open containers, innermost
   first.  None = an End unit for an unopened or differently-typed container. *)
Fixpoint dyck (stk : list Z) (gs : list Z) : option (list Z) :=
  match gs with
  | [] => Some stk
  | g :: rest =>
      if (g =? G_StartObject) || (g =? G_StartArray) then dyck (g :: stk) rest
      else if g =? G_EndObject then
        match stk with k :: stk' => if k =? G_StartObject then dyck stk' rest else None | [] => None end
      else if g =? G_EndArray then
        match stk with k :: stk' => if k =? G_StartArray then dyck stk' rest else None | [] => None end
      else dyck stk rest
  end.

(* State() describes the innermost open container *)
Definition describes (stk : list Z) (s : Z) : Prop :=
  match stk with
  | [] => s = S_Value
  | k :: _ => if k =? G_StartObject then s = S_ObjectKey \/ s = S_ObjectValue else s = S_Array
  end.

(* number of non-error units of a trace *)
Fixpoint count_units (tr : list (unit_ * parser)) : Z :=
  match tr with
  | [] => 0
  | up :: rest => (if fst (fst up) =? G_Error then 0 else 1) + count_units rest
  end.

(* every unit is the non-empty piece d[lo, lo+len b) lying between the cursor offsets before and after
   its call (so units come in increasing, non-overlapping order) *)
Fixpoint slices_ok (d : list Z) (pos0 : Z) (tr : list (unit_ * parser)) : Prop :=
  match tr with
  | [] => True
  | (u, p') :: rest =>
      match snd u with
      | Some (lo, b) => b <> [] /\ pos0 <= lo /\ lo + len b <= lpos (pz p') /\ b = slice d lo (lo + len b)
      | None => fst u = G_Error
      end /\ pos0 <= lpos (pz p') <= len d /\ slices_ok d (lpos (pz p')) rest
  end.

(* errors: the recorded offset lies in the input, and a new error is recorded only by a call that returns
   ErrorGrammar, at the offset the cursor stopped at *)
Definition err_in_range (d : list Z) (e : option Z) : Prop :=
  match e with Some o => 0 <= o <= len d | None => True end.

Fixpoint errs_ok (d : list Z) (e0 : option Z) (tr : list (unit_ * parser)) : Prop :=
  match tr with
  | [] => True
  | (u, p') :: rest =>
      err_in_range d (perr p') /\
      (perr p' = e0 \/ (fst u = G_Error /\ perr p' = Some (lpos (pz p')))) /\
      errs_ok d (perr p') rest
  end.

(* The state stack as a function of the GrammarTypes returned so far (innermost container first, the bottom
   element is ValueState): a key turns ObjectKey into ObjectValue, a completed value turns ObjectValue back
   into ObjectKey, Start pushes (never in key position), End pops its own kind, ErrorGrammar changes nothing. *)
Definition valfix (st : list Z) : list Z :=
  match st with s :: t => (if s =? S_ObjectValue then S_ObjectKey else s) :: t | [] => [] end.

Definition st_next (st : list Z) (g : Z) : option (list Z) :=
  if (g =? G_StartObject) || (g =? G_StartArray) then
    match st with
    | s :: _ => if s =? S_ObjectKey then None     (* no container in key position *)
                else Some ((if g =? G_StartObject then S_ObjectKey else S_Array) :: st)
    | [] => Some ((if g =? G_StartObject then S_ObjectKey else S_Array) :: st)
    end
  else if g =? G_EndObject then
    match st with s :: t => if s =? S_ObjectKey then Some (valfix t) else None | [] => None end
  else if g =? G_EndArray then
    match st with s :: t => if s =? S_Array then Some (valfix t) else None | [] => None end
  else if g =? G_String then
    match st with s :: t => if s =? S_ObjectKey then Some (S_ObjectValue :: t) else Some (valfix st) | [] => None end
  else if (g =? G_Literal) || (g =? G_Number) then
    match st with s :: t => if s =? S_ObjectKey then None else Some (valfix st) | [] => None end
  else Some st.

Fixpoint st_run (st : list Z) (gs : list Z) : option (list Z) :=
  match gs with
  | [] => Some st
  | g :: rest => match st_next st g with Some st' => st_run st' rest | None => None end
  end.

(* A terminal report is an ErrorGrammar call that changes neither the offset nor needComma (an ErrorGrammar
   call never changes the state stack): every further call repeats it.  Calls that are not terminal reports
   are "active". *)
Definition idle_b (p : parser) (u : unit_) (p' : parser) : bool :=
  (fst u =? G_Error) && (lpos (pz p') =? lpos (pz p)) && Bool.eqb (pneed p') (pneed p).

Fixpoint count_active (p : parser) (tr : list (unit_ * parser)) : Z :=
  match tr with
  | [] => 0
  | (u, p') :: rest => (if idle_b p u p' then 0 else 1) + count_active p' rest
  end.
