(* Json/Proofs.v — invariant of the JSON parser model and the per-call master lemma (totality, progress,
   units are slices, error offsets in range, stack discipline).  The trace-level theorems are in
   Json/Trace.v, the acceptance theorem in Json/Accept.v. *)
From Coq Require Import ZifyBool.
From Verif Require Import Common.Base Common.Tactics Common.Lx Json.Model Json.Lex Json.Spec.

(* ---------------------------------------------------------------------------------------------- *)
(* the state stack: containers above a single Value at the bottom *)

Definition is_cont (s : Z) : Prop := s = S_ObjectKey \/ s = S_ObjectValue \/ s = S_Array.

Definition stack_ok (st : list Z) : Prop :=
  exists cs, st = cs ++ [S_Value] /\ Forall is_cont cs.

Lemma stack_ok_init : stack_ok [S_Value].
Proof. exists []. split; [reflexivity|constructor]. Qed.

Lemma stack_ok_cases st : stack_ok st ->
  st = [S_Value] \/ exists s t, st = s :: t /\ is_cont s /\ stack_ok t.
Proof.
  intros (cs & -> & Hc). destruct cs as [|s cs]; [left; reflexivity|right].
  inversion Hc; subst. exists s, (cs ++ [S_Value]). split; [reflexivity|]. split; [assumption|].
  exists cs. auto.
Qed.

Lemma stack_ok_push st s : stack_ok st -> is_cont s -> stack_ok (s :: st).
Proof. intros (cs & -> & Hc) Hs. exists (s :: cs). split; [reflexivity|constructor; assumption]. Qed.

Lemma stack_ok_valfix st : stack_ok st -> stack_ok (valfix st).
Proof.
  intros H. destruct (stack_ok_cases st H) as [->|(s & t & -> & Hs & Ht)]; [exact H|].
  cbn [valfix]. apply stack_ok_push; [exact Ht|].
  unfold is_cont, S_ObjectKey, S_ObjectValue, S_Array in *.
  destruct (s =? 2) eqn:E; lia.
Qed.

Lemma stack_ok_top st : stack_ok st -> exists s, top st = Some s /\ 0 <= s <= 3.
Proof.
  intros H. destruct (stack_ok_cases st H) as [->|(s & t & -> & Hs & Ht)].
  - exists 0. split; [reflexivity|lia].
  - exists s. split; [reflexivity|]. unfold is_cont, S_ObjectKey, S_ObjectValue, S_Array in Hs. lia.
Qed.

Lemma stack_ok_nonempty st : stack_ok st -> st <> [].
Proof. intros (cs & -> & _). destruct cs; discriminate. Qed.

(* popping a container: never reaches the bottom element *)
Lemma pop_fix_ok st s : stack_ok st -> top st = Some s -> s <> S_Value ->
  exists t, st = s :: t /\ stack_ok t /\ pop_fix st = Some (valfix t).
Proof.
  intros H Ht Hs. destruct (stack_ok_cases st H) as [->|(s' & t & -> & Hs' & Hok)].
  - cbn in Ht. congruence.
  - cbn in Ht. inversion Ht; subst s'. exists t. split; [reflexivity|]. split; [exact Hok|].
    cbn [pop_fix]. pose proof (stack_ok_nonempty t Hok) as Hne.
    destruct t as [|s2 t2]; [congruence|]. reflexivity.
Qed.

(* how one call may change the stack, as a function of the GrammarType returned *)
Inductive st_rel : list Z -> Z -> list Z -> Prop :=
| sr_start_obj st : top st <> Some S_ObjectKey -> st_rel st G_StartObject (S_ObjectKey :: st)
| sr_start_arr st : top st <> Some S_ObjectKey -> st_rel st G_StartArray (S_Array :: st)
| sr_end_obj st : st_rel (S_ObjectKey :: st) G_EndObject (valfix st)
| sr_end_arr st : st_rel (S_Array :: st) G_EndArray (valfix st)
| sr_key st : st_rel (S_ObjectKey :: st) G_String (S_ObjectValue :: st)
| sr_val st g s : g = G_Literal \/ g = G_Number \/ g = G_String -> s <> S_ObjectKey ->
                  st_rel (s :: st) g (valfix (s :: st))
| sr_err st : st_rel st G_Error st.

(* ---------------------------------------------------------------------------------------------- *)
(* parser invariant, relative to the input d *)

Definition json_inv (d : list Z) (p : parser) : Prop :=
  exists a tok s, d = a ++ tok ++ s /\ cur3 (pz p) a tok s /\ stack_ok (pst p) /\ err_in_range d (perr p).

Lemma json_inv_init d : json_inv d (json_init d).
Proof.
  exists [], [], d. split; [reflexivity|]. split; [apply cur3_init|]. split; [apply stack_ok_init|exact I].
Qed.

Lemma json_inv_init_failed e : json_inv [] (json_init_failed e).
Proof.
  exists [], [], []. split; [reflexivity|]. split; [apply cur3_init|]. split; [apply stack_ok_init|exact I].
Qed.

(* what one call of Next guarantees; pos0 is the cursor offset before the call *)
(* after a unit that completes a value (a scalar value, or an End) a separator or closer must follow *)
Definition completes_value (g : Z) (st' : list Z) : Prop :=
  g = G_Literal \/ g = G_Number \/ g = G_EndObject \/ g = G_EndArray \/
  (g = G_String /\ top st' <> Some S_ObjectValue).

Definition step_ok (d : list Z) (pos0 : Z) (p : parser) (r : option (unit_ * parser)) : Prop :=
  exists u p', r = Some (u, p') /\ json_inv d p' /\ prd p' = prd p /\ pos0 <= lpos (pz p') /\
    st_rel (pst p) (fst u) (pst p') /\
    match snd u with
    | None => fst u = G_Error /\
              (perr p' = Some (lpos (pz p')) \/
               (* the end-of-input report: nothing is recorded, the parser is not in key position *)
               (perr p' = perr p /\ top (pst p') <> Some S_ObjectKey /\
                (prd p <> 0 \/ lpos (pz p') = len d))) /\
              (* an error call that does not move the cursor can only set needComma *)
              (lpos (pz p') = pos0 -> pneed p' = pneed p \/ pneed p' = true)
    | Some (lo, b) => fst u <> G_Error /\ b <> [] /\ pos0 <= lo /\ b = slice d lo (lo + len b) /\
                      lo + len b <= lpos (pz p') /\ perr p' = perr p /\ lstart (pz p') = lpos (pz p') /\
                      (completes_value (fst u) (pst p') -> pneed p' = true)
    end.

Lemma len_app3_le (a tok s : list Z) : 0 <= len a + len tok <= len (a ++ tok ++ s).
Proof.
  rewrite !len_app. pose proof (len_nonneg a). pose proof (len_nonneg tok). pose proof (len_nonneg s). lia.
Qed.

Lemma fail_ok d pos0 p z a tok s st need :
  cur3 z a tok s -> d = a ++ tok ++ s -> stack_ok st -> pos0 <= lpos z ->
  st_rel (pst p) G_Error st ->
  need = pneed p \/ need = true \/ pos0 < len a ->
  step_ok d pos0 p (fail_at p z st need).
Proof.
  intros Hc Hd Hst Hpos Hrel Hnm. unfold step_ok, fail_at.
  eexists _, _. split; [reflexivity|]. cbn [pz pst perr prd pneed fst snd].
  split.
  { exists a, tok, s. cbn [pz pst perr]. split; [exact Hd|]. split; [exact Hc|]. split; [exact Hst|].
    unfold err_in_range. rewrite (cur3_lpos _ _ _ _ Hc). subst d. apply len_app3_le. }
  split; [reflexivity|]. split; [exact Hpos|]. split; [exact Hrel|].
  split; [reflexivity|]. split; [left; reflexivity|].
  intros Hq. rewrite (cur3_lpos _ _ _ _ Hc) in Hq. pose proof (len_nonneg tok).
  destruct Hnm as [H1|[H1|H1]]; [left; exact H1|right; exact H1|lia].
Qed.

Lemma emit_ok d pos0 p g z a tok s st need :
  cur3 z a tok s -> tok <> [] -> d = a ++ tok ++ s -> stack_ok st -> pos0 <= len a ->
  g <> G_Error -> st_rel (pst p) g st -> err_in_range d (perr p) ->
  (completes_value g st -> need = true) ->
  step_ok d pos0 p (emit p g z st need).
Proof.
  intros Hc Htok Hd Hst Hpos Hg Hrel Herr Hneed. unfold step_ok, emit.
  rewrite (cur3_shift _ _ _ _ Hc). cbn [option_bind fst snd].
  pose proof (cur3_skip _ _ _ _ Hc) as Hsk.
  eexists _, _. split; [reflexivity|]. cbn [pz pst perr prd fst snd].
  pose proof (len_nonneg tok) as Hl.
  split.
  { exists (a ++ tok), [], s. cbn [pz pst perr]. split; [|split; [exact Hsk|split; [exact Hst|exact Herr]]].
    subst d. rewrite <- app_assoc. reflexivity. }
  split; [reflexivity|].
  split. { rewrite (cur3_lpos _ _ _ _ Hsk). rewrite len_app, len_nil. lia. }
  split; [exact Hrel|].
  rewrite (cur3_lstart _ _ _ _ Hc).
  split; [exact Hg|]. split; [exact Htok|]. split; [exact Hpos|].
  split. { subst d. rewrite slice_mid. reflexivity. }
  split. { rewrite (cur3_lpos _ _ _ _ Hsk). rewrite len_app, len_nil. lia. }
  split; [reflexivity|].
  split; [|exact Hneed].
  rewrite (cur3_lpos _ _ _ _ Hsk), (cur3_lstart _ _ _ _ Hsk). rewrite len_nil. lia.
Qed.

Lemma hd0_cons_inv s c : hd0 s = c -> c <> 0 -> exists t, s = c :: t.
Proof. destruct s as [|x t]; cbn [hd0]; intros H Hc; [congruence|]. exists t. congruence. Qed.

(* --- the ObjectKey block ---------------------------------------------------------------------- *)
Lemma next_key_ok d pos0 p z2 a s2 need st0 :
  cur3 z2 a [] s2 -> d = a ++ s2 -> pst p = S_ObjectKey :: st0 -> stack_ok (pst p) -> pos0 <= len a ->
  err_in_range d (perr p) -> need = pneed p \/ pos0 < len a ->
  step_ok d pos0 p (next_key p z2 (hd0 s2) need).
Proof.
  intros H2 Hd Hst Hok Hpos Herr Hnd.
  assert (Hnm : need = pneed p \/ need = true \/ pos0 < len a) by (destruct Hnd; auto).
  unfold next_key.
  destruct (negb (hd0 s2 =? 34)) eqn:E34.
  { eapply fail_ok; [exact H2|rewrite Hd; reflexivity|exact Hok| |apply sr_err|exact Hnm].
    rewrite (cur3_lpos _ _ _ _ H2). rewrite len_nil. lia. }
  apply negb_false_iff in E34. apply Z.eqb_eq in E34.
  destruct (hd0_cons_inv s2 34 E34 ltac:(lia)) as (t & ->).
  destruct (consume_string_spec z2 a [] 34 t H2) as (z3 & Hcs & H3). cbn [app] in *.
  set (r := str_split (rev [34]) t) in *.
  rewrite Hcs. cbn [option_bind fst snd].
  pose proof (str_split_app t (rev [34])) as Happ. fold r in Happ.
  destruct (fst r).
  2:{ cbn [negb]. eapply fail_ok; [exact H3| |exact Hok| |apply sr_err|exact Hnm].
      - rewrite Hd. cbn [app]. rewrite Happ. reflexivity.
      - rewrite (cur3_lpos _ _ _ _ H3). pose proof (len_nonneg (34 :: fst (snd r))). lia. }
  cbn [negb].
  set (x := fst (snd r)) in *. set (s3 := snd (snd r)) in *.
  destruct (move_ws_spec z3 a _ s3 H3) as (z4 & Hws & H4). rewrite Hws. cbn [option_bind].
  set (w := takew is_ws s3) in *. set (s4 := dropw is_ws s3) in *.
  assert (Hd4 : d = a ++ ((34 :: x) ++ w) ++ s4).
  { rewrite Hd. f_equal. rewrite <- app_assoc. cbn [app]. f_equal. rewrite <- Happ. f_equal.
    unfold w, s4. rewrite takew_dropw. reflexivity. }
  rewrite (cur3_pk0 _ _ _ _ H4). cbn [option_bind].
  destruct (negb (hd0 s4 =? 58)) eqn:E58.
  { eapply fail_ok; [exact H4|exact Hd4|exact Hok| |apply sr_err|exact Hnm].
    rewrite (cur3_lpos _ _ _ _ H4). pose proof (len_nonneg ((34 :: x) ++ w)). lia. }
  apply negb_false_iff in E58. apply Z.eqb_eq in E58.
  destruct (hd0_cons_inv s4 58 E58 ltac:(lia)) as (s5 & Hs5).
  rewrite Hs5 in H4. pose proof (cur3_mv1 _ _ _ _ _ H4) as H5.
  rewrite Hst. cbn [set_top option_bind].
  rewrite (cur3_shift _ _ _ _ H5). cbn [option_bind fst snd].
  rewrite (cur3_mark _ _ _ _ H3).
  assert (Hn : slice_ok 0 (len (34 :: x)) (len (((34 :: x) ++ w) ++ [58])) = true).
  { unfold slice_ok. rewrite !len_app. pose proof (len_nonneg (34 :: x)). pose proof (len_nonneg w).
    change (len [58]) with 1. lia. }
  rewrite Hn.
  assert (Hf : firstz (len (34 :: x)) (((34 :: x) ++ w) ++ [58]) = 34 :: x).
  { rewrite <- app_assoc. apply firstz_app_len. }
  rewrite Hf.
  pose proof (cur3_skip _ _ _ _ H5) as H6.
  unfold step_ok. eexists _, _. split; [reflexivity|]. cbn [pz pst perr prd fst snd].
  split.
  { exists (a ++ ((34 :: x) ++ w) ++ [58]), [], s5. cbn [pz pst perr].
    split; [|split; [exact H6|split; [|exact Herr]]].
    - rewrite Hd4, Hs5. rewrite <- !app_assoc. reflexivity.
    - rewrite Hst in Hok. apply stack_ok_push; [|right; left; reflexivity].
      destruct (stack_ok_cases _ Hok) as [Hbad|(s' & t' & Heq & _ & Ht')]; [discriminate|].
      injection Heq as _ ->. exact Ht'. }
  split; [reflexivity|].
  pose proof (len_nonneg (((34 :: x) ++ w) ++ [58])) as Hl5.
  split. { rewrite (cur3_lpos _ _ _ _ H6). rewrite len_app, len_nil. lia. }
  split. { rewrite Hst. apply sr_key. }
  rewrite (cur3_lstart _ _ _ _ H5).
  split; [discriminate|]. split; [discriminate|]. split; [exact Hpos|].
  split. { rewrite Hd4. rewrite <- !app_assoc. rewrite slice_mid. reflexivity. }
  split. { rewrite (cur3_lpos _ _ _ _ H6). rewrite !len_app, len_nil. pose proof (len_nonneg w).
           change (len [58]) with 1. lia. }
  split; [reflexivity|].
  split. { rewrite (cur3_lpos _ _ _ _ H6), (cur3_lstart _ _ _ _ H6). rewrite len_nil. lia. }
  unfold completes_value, G_String, G_Literal, G_Number, G_EndObject, G_EndArray. cbn [top].
  intros [Hq|[Hq|[Hq|[Hq|[_ Hq]]]]]; try discriminate. congruence.
Qed.

(* --- the value block --------------------------------------------------------------------------- *)
Lemma emit_value_ok d pos0 p g z a tok s state :
  cur3 z a tok s -> tok <> [] -> d = a ++ tok ++ s -> top (pst p) = Some state -> state <> S_ObjectKey ->
  stack_ok (pst p) -> pos0 <= len a -> g = G_Literal \/ g = G_Number \/ g = G_String ->
  err_in_range d (perr p) ->
  step_ok d pos0 p (emit_value p g z state).
Proof.
  intros Hc Htok Hd Htop Hstate Hok Hpos Hg Herr. unfold emit_value.
  assert (Hst' : (if state =? S_ObjectValue then set_top (pst p) S_ObjectKey else Some (pst p))
                 = Some (valfix (pst p))).
  { destruct (pst p) as [|s0 t0] eqn:Ep; [discriminate|]. cbn in Htop. inversion Htop; subst s0.
    cbn [valfix set_top]. destruct (state =? S_ObjectValue); reflexivity. }
  rewrite Hst'. cbn [option_bind].
  apply (emit_ok d pos0 p g z a tok s); auto.
  - apply stack_ok_valfix. exact Hok.
  - unfold G_Literal, G_Number, G_String, G_Error in *. lia.
  - destruct (pst p) as [|s0 t0] eqn:Ep; [discriminate|]. cbn in Htop. inversion Htop; subst s0.
    apply sr_val; assumption.
Qed.

Lemma next_value_ok d pos0 p z2 a s2 need state :
  cur3 z2 a [] s2 -> d = a ++ s2 -> top (pst p) = Some state -> state <> S_ObjectKey ->
  stack_ok (pst p) -> pos0 <= len a -> err_in_range d (perr p) -> need = pneed p \/ pos0 < len a ->
  step_ok d pos0 p (next_value p z2 (hd0 s2) need state).
Proof.
  intros H2 Hd Htop Hstate Hok Hpos Herr Hnd.
  assert (Hnm : need = pneed p \/ need = true \/ pos0 < len a) by (destruct Hnd; auto).
  unfold next_value.
  (* string attempt *)
  assert (Hstr : exists ok z3 tok3 s3,
            (if hd0 s2 =? 34 then consume_string z2 else Some (false, z2)) = Some (ok, z3) /\
            cur3 z3 a tok3 s3 /\ s2 = tok3 ++ s3 /\ (ok = true -> tok3 <> [])).
  { destruct (hd0 s2 =? 34) eqn:E34.
    - apply Z.eqb_eq in E34. destruct (hd0_cons_inv s2 34 E34 ltac:(lia)) as (t & ->).
      destruct (consume_string_spec z2 a [] 34 t H2) as (z3 & Hcs & H3). cbn [app] in *.
      eexists _, z3, _, _. split; [exact Hcs|]. split; [exact H3|]. split.
      + cbn [app]. f_equal. symmetry. apply str_split_app.
      + intros _. discriminate.
    - exists false, z2, [], s2. split; [reflexivity|]. split; [exact H2|]. split; [reflexivity|]. discriminate. }
  destruct Hstr as (ok & z3 & tok3 & s3 & Hs & H3 & Hs2 & Hne). rewrite Hs. cbn [option_bind fst snd].
  assert (Hd3 : d = a ++ tok3 ++ s3) by (rewrite Hd, Hs2; reflexivity).
  destruct ok.
  { apply (emit_value_ok d pos0 p G_String z3 a tok3 s3 state); auto. }
  (* number attempt *)
  pose proof (consume_number_spec z3 a tok3 s3 H3) as Hn.
  destruct (num_split s3) as [[xn rn]|] eqn:En.
  { destruct Hn as (z4 & Hn & H4). rewrite Hn. cbn [option_bind fst snd].
    destruct (num_split_app _ _ _ En) as [Hsn Hxn].
    apply (emit_value_ok d pos0 p G_Number z4 a (tok3 ++ xn) rn state); auto.
    - destruct tok3; [exact Hxn|discriminate].
    - rewrite Hd3, Hsn. rewrite <- app_assoc. reflexivity. }
  destruct Hn as (z4 & Hn & H4). rewrite Hn. cbn [option_bind fst snd].
  (* literal attempt *)
  pose proof (consume_literal_spec z4 a tok3 s3 H4) as Hl.
  destruct (lit_split s3) as [[xl rl]|] eqn:El.
  { destruct Hl as (z5 & Hl & H5). rewrite Hl. cbn [option_bind fst snd].
    destruct (lit_split_app _ _ _ El) as [Hsl Hxl].
    apply (emit_value_ok d pos0 p G_Literal z5 a (tok3 ++ xl) rl state); auto.
    - destruct Hxl as [->|[->| ->]]; destruct tok3; discriminate.
    - rewrite Hd3, Hsl. rewrite <- app_assoc. reflexivity. }
  rewrite Hl. cbn [option_bind fst snd].
  rewrite (cur3_pk0 _ _ _ _ H4). cbn [option_bind].
  assert (Hp4 : pos0 <= lpos z4).
  { rewrite (cur3_lpos _ _ _ _ H4). pose proof (len_nonneg tok3). lia. }
  destruct ((hd0 s3 =? 0) && negb (r_err p z4)) eqn:Enul.
  { eapply fail_ok; [exact H4|exact Hd3|exact Hok|exact Hp4|apply sr_err|exact Hnm]. }
  destruct (hd0 s3 =? 0) eqn:E0.
  2:{ eapply fail_ok; [exact H4|exact Hd3|exact Hok|exact Hp4|apply sr_err|exact Hnm]. }
  (* the end-of-input report *)
  unfold step_ok. eexists _, _. split; [reflexivity|]. cbn [pz pst perr prd fst snd].
  split. { exists a, tok3, s3. cbn [pz pst perr]. auto. }
  split; [reflexivity|]. split; [exact Hp4|]. split; [apply sr_err|].
  split; [reflexivity|]. split.
  2:{ cbn [pneed]. intros Hq. rewrite (cur3_lpos _ _ _ _ H4) in Hq. pose proof (len_nonneg tok3).
      destruct Hnd as [H1|H1]; [left; exact H1|lia]. }
  right. split; [reflexivity|]. split; [rewrite Htop; congruence|].
  cbn [andb] in Enul. apply negb_false_iff in Enul. unfold r_err in Enul.
  destruct (negb (prd p =? 0)) eqn:Ep; [left; lia|right].
  cbn [orb] in Enul. rewrite (cur3_at_end _ _ _ _ H4) in Enul.
  rewrite (cur3_lpos _ _ _ _ H4). rewrite Hd3. rewrite !len_app.
  assert (len s3 = 0) by lia. lia.
Qed.

(* --- after the comma block ---------------------------------------------------------------------- *)
Lemma next_body_ok d pos0 p z1 a tok1 s2 need state :
  cur3 z1 a tok1 s2 -> d = a ++ tok1 ++ s2 -> top (pst p) = Some state -> stack_ok (pst p) ->
  pos0 <= len a + len tok1 -> err_in_range d (perr p) -> need = pneed p \/ pos0 < len a + len tok1 ->
  step_ok d pos0 p (next_body p z1 (hd0 s2) need state).
Proof.
  intros H1 Hd Htop Hok Hpos Herr Hnd.
  assert (Hnd2 : need = pneed p \/ pos0 < len (a ++ tok1)) by (rewrite len_app; exact Hnd).
  assert (Hnm : forall nd', nd' = need \/ nd' = true -> nd' = pneed p \/ nd' = true \/ pos0 < len (a ++ tok1)).
  { intros nd' [->| ->]; [destruct Hnd2; auto|auto]. }
  unfold next_body.
  pose proof (cur3_skip _ _ _ _ H1) as H2.
  assert (Hd2 : d = (a ++ tok1) ++ [] ++ s2) by (rewrite Hd, <- app_assoc; reflexivity).
  assert (Hp2 : pos0 <= lpos (skip z1)).
  { rewrite (cur3_lpos _ _ _ _ H2). rewrite len_app, len_nil. lia. }
  assert (Hpa : pos0 <= len (a ++ tok1)) by (rewrite len_app; lia).
  destruct (need && negb (hd0 s2 =? 125) && negb (hd0 s2 =? 93) && negb (hd0 s2 =? 0)).
  { eapply fail_ok; [exact H2|exact Hd2|exact Hok|exact Hp2|apply sr_err|apply Hnm; auto]. }
  (* the four brackets: the cursor moves over one byte *)
  assert (Hbr : forall c g st', hd0 s2 = c -> c <> 0 -> g <> G_Error -> stack_ok st' -> st_rel (pst p) g st' ->
             forall nd, (completes_value g st' -> nd = true) ->
                        step_ok d pos0 p (emit p g (mv (skip z1) 1) st' nd)).
  { intros c g st' Hc Hc0 Hg Hst' Hrel nd Hcv. destruct (hd0_cons_inv s2 c Hc Hc0) as (t & Hs2).
    rewrite Hs2 in H2. pose proof (cur3_mv1 _ _ _ _ _ H2) as H3.
    apply (emit_ok d pos0 p g _ (a ++ tok1) ([] ++ [c]) t); auto.
    - discriminate.
    - rewrite Hd2, Hs2. reflexivity. }
  destruct ((hd0 s2 =? 123) && negb (state =? S_ObjectKey)) eqn:E1.
  { apply andb_true_iff in E1. destruct E1 as [E1 Ek1]. apply Z.eqb_eq in E1.
    apply (Hbr 123 G_StartObject (S_ObjectKey :: pst p)); [exact E1|lia|discriminate| |apply sr_start_obj|].
    - apply stack_ok_push; [exact Hok|left; reflexivity].
    - rewrite Htop. intros Hq. inversion Hq. lia.
    - unfold completes_value, G_StartObject, G_Literal, G_Number, G_EndObject, G_EndArray, G_String. intros Hq. lia. }
  destruct (hd0 s2 =? 125) eqn:E2.
  { apply Z.eqb_eq in E2.
    destruct (negb (state =? S_ObjectKey)) eqn:Es.
    { eapply fail_ok; [exact H2|exact Hd2|exact Hok|exact Hp2|apply sr_err|apply Hnm; auto]. }
    apply negb_false_iff in Es. apply Z.eqb_eq in Es. subst state.
    destruct (pop_fix_ok _ _ Hok Htop ltac:(discriminate)) as (t & Hst & Hokt & Hpop).
    rewrite Hpop. cbn [option_bind].
    apply (Hbr 125 G_EndObject (valfix t)); [exact E2|lia|discriminate| |rewrite Hst; apply sr_end_obj|reflexivity].
    apply stack_ok_valfix. exact Hokt. }
  destruct ((hd0 s2 =? 91) && negb (state =? S_ObjectKey)) eqn:E3.
  { apply andb_true_iff in E3. destruct E3 as [E3 Ek3]. apply Z.eqb_eq in E3.
    apply (Hbr 91 G_StartArray (S_Array :: pst p)); [exact E3|lia|discriminate| |apply sr_start_arr|].
    - apply stack_ok_push; [exact Hok|right; right; reflexivity].
    - rewrite Htop. intros Hq. inversion Hq. lia.
    - unfold completes_value, G_StartArray, G_Literal, G_Number, G_EndObject, G_EndArray, G_String. intros Hq. lia. }
  destruct (hd0 s2 =? 93) eqn:E4.
  { apply Z.eqb_eq in E4.
    destruct (negb (state =? S_Array)) eqn:Es.
    { eapply fail_ok; [exact H2|exact Hd2|exact Hok|exact Hp2|apply sr_err|apply Hnm; auto]. }
    apply negb_false_iff in Es. apply Z.eqb_eq in Es. subst state.
    destruct (pop_fix_ok _ _ Hok Htop ltac:(discriminate)) as (t & Hst & Hokt & Hpop).
    rewrite Hpop. cbn [option_bind].
    apply (Hbr 93 G_EndArray (valfix t)); [exact E4|lia|discriminate| |rewrite Hst; apply sr_end_arr|reflexivity].
    apply stack_ok_valfix. exact Hokt. }
  destruct (state =? S_ObjectKey) eqn:Ek.
  - apply Z.eqb_eq in Ek. subst state.
    destruct (pst p) as [|s0 st0] eqn:Ep; [discriminate|]. cbn in Htop. inversion Htop; subst s0.
    rewrite <- Ep in Hok. eapply (next_key_ok d pos0 p (skip z1) (a ++ tok1) s2 need st0); eauto.
  - apply Z.eqb_neq in Ek.
    apply (next_value_ok d pos0 p (skip z1) (a ++ tok1) s2 need state); auto.
Qed.

(* --- Next --------------------------------------------------------------------------------------- *)
Theorem next_ok d p : json_inv d p -> step_ok d (lpos (pz p)) p (next p).
Proof.
  intros (a & tok & s & Hd & Hc & Hok & Herr). unfold next.
  destruct (move_ws_spec _ _ _ _ Hc) as (z0 & Hws & H0). rewrite Hws. cbn [option_bind].
  set (w := takew is_ws s) in *. set (s0 := dropw is_ws s) in *.
  assert (Hs : s = w ++ s0) by (unfold w, s0; rewrite takew_dropw; reflexivity).
  rewrite (cur3_pk0 _ _ _ _ H0). cbn [option_bind].
  destruct (stack_ok_top _ Hok) as (state & Htop & Hrange). rewrite Htop. cbn [option_bind].
  pose proof (cur3_lpos _ _ _ _ Hc) as Hp.
  pose proof (len_nonneg w) as Hlw.
  unfold next_comma.
  destruct (hd0 s0 =? 44) eqn:E44.
  - destruct (negb (state =? S_Array) && negb (state =? S_ObjectKey)); cbn [option_bind].
    + eapply fail_ok; [exact H0| |exact Hok| |apply sr_err|left; reflexivity].
      * rewrite Hd, Hs. rewrite <- !app_assoc. reflexivity.
      * rewrite (cur3_lpos _ _ _ _ H0), len_app. lia.
    + apply Z.eqb_eq in E44. destruct (hd0_cons_inv s0 44 E44 ltac:(lia)) as (s1 & Hs1).
      rewrite Hs1 in H0. pose proof (cur3_mv1 _ _ _ _ _ H0) as H1.
      destruct (move_ws_spec _ _ _ _ H1) as (z1 & Hws1 & H1'). rewrite Hws1. cbn [option_bind].
      rewrite (cur3_pk0 _ _ _ _ H1'). cbn [option_bind].
      apply (next_body_ok d _ p z1 a _ _ false state H1'); auto.
      * rewrite Hd, Hs, Hs1. rewrite <- !app_assoc. cbn [app]. do 4 f_equal.
        rewrite takew_dropw. reflexivity.
      * rewrite !len_app. pose proof (len_nonneg (takew is_ws s1)). change (len [44]) with 1. lia.
      * right. rewrite !len_app. pose proof (len_nonneg (takew is_ws s1)). change (len [44]) with 1. lia.
  - cbn [option_bind]. apply (next_body_ok d _ p z0 a _ _ (pneed p) state H0); auto.
    + rewrite Hd, Hs. rewrite <- !app_assoc. reflexivity.
    + rewrite len_app. lia.
Qed.
